(* Proofs/C06Encl.v — (group hK) the proved enclosures behind the "enclosure mode" of Check/C06.v.
   For P (or 1-P) = m so small that the exact rational (1-m)^N is out of the comparator's reach
   (N * log2 (denominator) > 9000), every probability of the binomial distribution and every lower
   partial sum is enclosed by rationals of a few hundred bits:
     Bernoulli            1 - k x <= (1-x)^k                            (0 <= x <= 1)
     the two big atoms    1 - N m <= pr a0,   N m - eps <= pr a1        (eps = N (N-1) m^2)
     and "pr >= 0, sum pr = 1" give   pr a0 <= 1 - N m + eps,  pr a1 <= N m,  every other pr j <= eps,
     and the matching bounds of the partial sums.
   The section [Atoms] is about an arbitrary probability function on 0..n; the instance for the binomial
   probabilities of Spec/C06Prob.v is made in Proofs/CheckC06.v.  No axioms; over Q. *)
From MM Require Import Base.Num Base.GFSum Base.GFComb Check.C06 Proofs.CheckBase.
From Coq Require Import Lqa Lia.
Local Open Scope Q_scope.

(* ---------- Bernoulli ---------- *)
Lemma qpow_le_1 : forall x k, 0 <= x <= 1 -> qpow x k <= 1.
Proof.
  intros x k Hx. induction k as [|k IH]; simpl; [lra|].
  pose proof (qpow_nonneg x k ltac:(lra)) as H0.
  assert (H : 0 <= (1 - x) * qpow x k) by (apply Qmult_le_0_compat; lra).
  assert (E : x * qpow x k == qpow x k - (1 - x) * qpow x k) by ring. rewrite E. lra.
Qed.

Theorem bernoulli : forall x k, 0 <= x <= 1 -> 1 - inject_Z (Z.of_nat k) * x <= qpow (1 - x) k.
Proof.
  intros x k Hx. induction k as [|k IH]; [change (inject_Z (Z.of_nat 0)) with 0; simpl; lra|].
  rewrite Nat2Z.inj_succ. unfold Z.succ. rewrite inject_Z_plus. rewrite qpow_S.
  set (c := inject_Z (Z.of_nat k)) in *.
  assert (Hc : 0 <= c) by (unfold c; change 0 with (inject_Z 0); rewrite <- Zle_Qle; lia).
  pose proof (qpow_nonneg (1 - x) k ltac:(lra)) as H0.
  set (w := qpow (1 - x) k) in *.
  destruct (Qlt_le_dec (1 - c * x) 0) as [N|N].
  - assert (H : 0 <= (1 - x) * w) by (apply Qmult_le_0_compat; lra).
    assert (H1 : 0 <= 1 * x) by lra.
    assert (E : 1 - (c + inject_Z 1) * x == (1 - c * x) - x) by (change (inject_Z 1) with 1; ring).
    rewrite E. lra.
  - assert (H : 0 <= (1 - x) * (w - (1 - c * x))) by (apply Qmult_le_0_compat; lra).
    assert (H2 : 0 <= c * (x * x)).
    { apply Qmult_le_0_compat; [assumption|]. apply Qmult_le_0_compat; lra. }
    assert (E : (1 - x) * w == (1 - x) * (w - (1 - c * x)) + c * (x * x) + (1 - (c + inject_Z 1) * x))
      by (change (inject_Z 1) with 1; ring).
    rewrite E. lra.
Qed.

(* ---------- the four atoms of the binomial terms ---------- *)
Lemma binom_n_1 : forall n, binom n 1 = Z.of_nat n.
Proof.
  induction n as [|n IH]; [reflexivity|]. rewrite binom_pascal, binom_n_0, IH. lia.
Qed.
Lemma binom_n_pred : forall n, (1 <= n)%nat -> binom n (n - 1) = Z.of_nat n.
Proof.
  intros n Hn. rewrite binom_sym by lia. replace (n - (n - 1))%nat with 1%nat by lia. apply binom_n_1.
Qed.

Lemma bterm_0 : forall a b n, bterm a b n 0 == qpow b n.
Proof. intros. unfold bterm. rewrite binom_n_0, Nat.sub_0_r. simpl. ring. Qed.
Lemma bterm_1 : forall a b n, (1 <= n)%nat -> bterm a b n 1 == inject_Z (Z.of_nat n) * a * qpow b (n - 1).
Proof. intros. unfold bterm. rewrite binom_n_1. simpl. ring. Qed.
Lemma bterm_n : forall a b n, bterm a b n n == qpow a n.
Proof. intros. unfold bterm. rewrite binom_nn, Nat.sub_diag. simpl. ring. Qed.
Lemma bterm_pred : forall a b n, (1 <= n)%nat -> bterm a b n (n - 1) == inject_Z (Z.of_nat n) * qpow a (n - 1) * b.
Proof.
  intros a b n Hn. unfold bterm. rewrite binom_n_pred by assumption.
  replace (n - (n - 1))%nat with 1%nat by lia. simpl. ring.
Qed.

(* the lower bounds of the two big atoms, m the small one of P and 1-P, written for the values *)
Lemma atom0_lower : forall m k, 0 <= m <= 1 -> 1 - inject_Z (Z.of_nat k) * m <= qpow (1 - m) k.
Proof. exact bernoulli. Qed.
Lemma atom1_lower : forall m n, 0 <= m <= 1 -> (1 <= n)%Z ->
  inject_Z n * m - encl_eps n m <= inject_Z n * m * qpow (1 - m) (Z.to_nat n - 1).
Proof.
  intros m n Hm Hn. pose proof (bernoulli m (Z.to_nat n - 1) Hm) as B.
  replace (Z.of_nat (Z.to_nat n - 1)) with (n - 1)%Z in B by lia.
  set (c := qpow (1 - m) (Z.to_nat n - 1)) in *.
  assert (Hnq : 0 <= inject_Z n) by (change 0 with (inject_Z 0); rewrite <- Zle_Qle; lia).
  assert (H : 0 <= (inject_Z n * m) * (c - (1 - inject_Z (n - 1) * m))).
  { apply Qmult_le_0_compat; [apply Qmult_le_0_compat; lra | lra]. }
  unfold encl_eps. rewrite inject_Z_mult.
  assert (E : inject_Z n * m * c == (inject_Z n * m) * (c - (1 - inject_Z (n - 1) * m))
                                    + (inject_Z n * m - inject_Z n * inject_Z (n - 1) * m * m)) by ring.
  rewrite E. lra.
Qed.

Lemma encl_eps_nonneg : forall n m, (1 <= n)%Z -> 0 <= encl_eps n m.
Proof.
  intros n m Hn. unfold encl_eps. rewrite <- Qmult_assoc. apply Qmult_le_0_compat.
  - change 0 with (inject_Z 0). rewrite <- Zle_Qle. nia.
  - destruct (Qlt_le_dec m 0) as [N|N].
    + assert (E : m * m == (- m) * (- m)) by ring. rewrite E. apply Qmult_le_0_compat; lra.
    + apply Qmult_le_0_compat; assumption.
Qed.

(* ---------- sums of a non-negative function ---------- *)
Lemma Qsum_range_one : forall f j, Qsum_range f j j == f j.
Proof.
  intros. unfold Qsum_range. replace (Z.to_nat (j - j + 1)) with 1%nat by lia. simpl.
  replace (j + 0)%Z with j by lia. ring.
Qed.
Lemma Qsum_range_nonneg : forall f a b, (forall k, 0 <= f k) -> 0 <= Qsum_range f a b.
Proof. intros. unfold Qsum_range. apply Qsum_n_nonneg. intros. apply H. Qed.
Lemma Qsum_range_atom : forall f a b j, (forall k, 0 <= f k) -> (a <= j <= b)%Z -> f j <= Qsum_range f a b.
Proof.
  intros f a b j H Hj.
  rewrite (Qsum_range_split f a j b) by lia. rewrite (Qsum_range_split f j (j + 1) b) by lia.
  replace (j + 1 - 1)%Z with j by lia. rewrite Qsum_range_one.
  pose proof (Qsum_range_nonneg f a (j - 1) H). pose proof (Qsum_range_nonneg f (j + 1) b H). lra.
Qed.
Lemma Qsum_range_two : forall f j, Qsum_range f j (j + 1) == f j + f (j + 1)%Z.
Proof.
  intros. rewrite (Qsum_range_split f j (j + 1) (j + 1)) by lia. replace (j + 1 - 1)%Z with j by lia.
  rewrite !Qsum_range_one. reflexivity.
Qed.

(* ---------- a probability function on 0..n with two big atoms ---------- *)
Section Atoms.
Variables (pr : Z -> Q) (n : Z) (m : Q).
Hypothesis Hn : (1 <= n)%Z.
Hypothesis Hnn : forall k, 0 <= pr k.
Hypothesis Hsum : Qsum_range pr 0 n == 1.
Let nm := inject_Z n * m.
Let e := encl_eps n m.

Lemma S_le_1 : forall j, (0 <= j <= n)%Z -> Qsum_range pr 0 j <= 1.
Proof.
  intros j Hj. rewrite <- Hsum. rewrite (Qsum_range_split pr 0 (j + 1) n) by lia.
  replace (j + 1 - 1)%Z with j by lia. pose proof (Qsum_range_nonneg pr (j + 1) n Hnn). lra.
Qed.

(* P near 0: the atoms are 0 and 1 *)
Section Lo.
Hypothesis Hb0 : 1 - nm <= pr 0%Z.
Hypothesis Hb1 : nm - e <= pr 1%Z.

Lemma lo_split1 : pr 0%Z + Qsum_range pr 1 n == 1.
Proof. rewrite <- Hsum. rewrite (Qsum_range_split pr 0 1 n) by lia. cbn [Z.sub Z.pos_sub]. rewrite Qsum_range_one. reflexivity. Qed.
Lemma lo_split2 : pr 0%Z + pr 1%Z + Qsum_range pr 2 n == 1.
Proof.
  rewrite <- Hsum. rewrite (Qsum_range_split pr 0 2 n) by lia. change (2 - 1)%Z with (0 + 1)%Z.
  rewrite Qsum_range_two. reflexivity.
Qed.

Lemma lo_pmf : forall j, (0 <= j <= n)%Z -> fst (encl_pmf n m j) <= pr j /\ pr j <= snd (encl_pmf n m j).
Proof.
  intros j Hj. unfold encl_pmf. fold nm e. cbv zeta.
  pose proof lo_split1 as S1. pose proof lo_split2 as S2.
  pose proof (Qsum_range_atom pr 1 n 1 Hnn ltac:(lia)) as A1.
  pose proof (Qsum_range_nonneg pr 2 n Hnn) as N2.
  destruct (Z.eqb_spec j 0) as [->|J0]; cbn [fst snd].
  { split; lra. }
  destruct (Z.eqb_spec j 1) as [->|J1]; cbn [fst snd].
  { split; lra. }
  pose proof (Qsum_range_atom pr 2 n j Hnn ltac:(lia)) as A2.
  split; [apply Hnn | lra].
Qed.

Lemma lo_cdf : forall j, (0 <= j < n)%Z ->
  fst (encl_cdf n m j) <= Qsum_range pr 0 j /\ Qsum_range pr 0 j <= snd (encl_cdf n m j).
Proof.
  intros j Hj. unfold encl_cdf. fold nm e. cbv zeta.
  destruct (Z.eqb_spec j 0) as [->|J0]; cbn [fst snd].
  { rewrite Qsum_range_one. pose proof (lo_pmf 0 ltac:(lia)) as P. unfold encl_pmf in P. fold nm e in P. exact P. }
  pose proof (S_le_1 j ltac:(lia)) as U.
  assert (L : pr 0%Z + pr 1%Z <= Qsum_range pr 0 j).
  { rewrite (Qsum_range_split pr 0 2 j) by lia. change (2 - 1)%Z with (0 + 1)%Z. rewrite Qsum_range_two.
    pose proof (Qsum_range_nonneg pr 2 j Hnn). change (0 + 1)%Z with 1%Z. lra. }
  split; lra.
Qed.
End Lo.

(* P near 1: the atoms are n and n-1 *)
Section Hi.
Hypothesis Hb0 : 1 - nm <= pr n.
Hypothesis Hb1 : nm - e <= pr (n - 1)%Z.

Lemma hi_split1 : Qsum_range pr 0 (n - 1) + pr n == 1.
Proof. rewrite <- Hsum. rewrite (Qsum_range_split pr 0 n n) by lia. rewrite Qsum_range_one. reflexivity. Qed.
Lemma hi_split2 : Qsum_range pr 0 (n - 2) + pr (n - 1)%Z + pr n == 1.
Proof.
  rewrite <- Hsum. rewrite (Qsum_range_split pr 0 (n - 1) n) by lia. replace (n - 1 - 1)%Z with (n - 2)%Z by lia.
  replace (Qsum_range pr (n - 1) n) with (Qsum_range pr (n - 1) (n - 1 + 1)) by (f_equal; lia).
  rewrite Qsum_range_two. replace (n - 1 + 1)%Z with n by lia. ring.
Qed.

Lemma hi_pmf : forall ki, (0 <= ki <= n)%Z ->
  fst (encl_pmf n m (n - ki)) <= pr ki /\ pr ki <= snd (encl_pmf n m (n - ki)).
Proof.
  intros ki Hk. unfold encl_pmf. fold nm e. cbv zeta.
  pose proof hi_split1 as S1. pose proof hi_split2 as S2.
  pose proof (Qsum_range_atom pr 0 (n - 1) (n - 1) Hnn ltac:(lia)) as A1.
  pose proof (Qsum_range_nonneg pr 0 (n - 2) Hnn) as N2.
  destruct (Z.eqb_spec (n - ki) 0) as [J0|J0]; cbn [fst snd].
  { replace ki with n by lia. split; lra. }
  destruct (Z.eqb_spec (n - ki) 1) as [J1|J1]; cbn [fst snd].
  { replace ki with (n - 1)%Z by lia. split; lra. }
  pose proof (Qsum_range_atom pr 0 (n - 2) ki Hnn ltac:(lia)) as A2.
  split; [apply Hnn | lra].
Qed.

Lemma hi_cdf : forall ki, (0 <= ki < n)%Z ->
  fst (encl_flip (encl_cdf n m (n - ki - 1))) <= Qsum_range pr 0 ki /\
  Qsum_range pr 0 ki <= snd (encl_flip (encl_cdf n m (n - ki - 1))).
Proof.
  intros ki Hk. unfold encl_flip, encl_cdf. fold nm e. cbv zeta.
  pose proof hi_split1 as S1. pose proof hi_split2 as S2.
  pose proof (Qsum_range_atom pr 0 (n - 1) (n - 1) Hnn ltac:(lia)) as A1.
  destruct (Z.eqb_spec (n - ki - 1) 0) as [J0|J0]; cbn [fst snd].
  { replace ki with (n - 1)%Z by lia. split; lra. }
  assert (U : Qsum_range pr 0 ki <= Qsum_range pr 0 (n - 2)).
  { rewrite (Qsum_range_split pr 0 (ki + 1) (n - 2)) by lia. replace (ki + 1 - 1)%Z with ki by lia.
    pose proof (Qsum_range_nonneg pr (ki + 1) (n - 2) Hnn). lra. }
  pose proof (Qsum_range_nonneg pr 0 ki Hnn) as N0.
  split; lra.
Qed.
End Hi.
End Atoms.

(* ---------- the acceptance test ---------- *)
Lemma encl_close_sound : forall lu x v, encl_close lu x = true -> fst lu <= v -> v <= snd lu ->
  exists q, x = XFin q /\ Qabs (q - v) <= tol_abs.
Proof.
  intros [L U] x v H HL HU. destruct x as [| |q]; cbn in H; try discriminate H.
  apply andb_prop in H. destruct H as [H1 H2]. apply Qle_bool_iff in H1, H2. cbn [fst snd] in *.
  exists q. split; [reflexivity|]. apply Qabs_Qle_condition. split; lra.
Qed.

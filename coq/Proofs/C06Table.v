(* Proofs/C06Table.v — the shared tables of Check/C06.v (integer weights over a common
   denominator and their running sums) are the model functions binom_pmf_i, binom_cdf_i,
   hg_pmf_i, hg_cdf_i, and dwithin is the exact tolerance test |obs - u/(T 2^s)| <= tol. *)
From MM Require Import Base.Num Base.GFSum Base.GFComb Model.Choose Model.Binom Model.Hyperg.
From MM Require Import Proofs.Choose Proofs.Binom Proofs.Hyperg Check.C06.
From Coq Require Import Lqa Lia Qround Qfield.
Local Open Scope Z_scope.

(* ====================== 6. dwithin is exact ====================== *)

Theorem dwithin_exact_pos : forall tol u T s obs d, 0 <= s -> T * 2 ^ s = Zpos d ->
  dwithin tol u T s obs = true <-> (Qabs (obs - (u # d)) <= tol)%Q.
Proof.
  intros tol u T s [on od] d Hs HD. unfold dwithin. cbn [Qnum Qden].
  rewrite !Z.shiftl_mul_pow2 by assumption.
  rewrite Z.leb_le.
  unfold Qle, Qabs, Qminus, Qplus, Qopp. cbn [Qnum Qden].
  rewrite Pos2Z.inj_mul.
  replace (on * T * 2 ^ s) with (on * (T * 2 ^ s)) by ring.
  replace (Z.pos od * T * 2 ^ s) with (Z.pos od * (T * 2 ^ s)) by ring.
  rewrite HD.
  replace (on * Z.pos d + - u * Z.pos od) with (on * Z.pos d - Z.pos od * u) by ring.
  lia.
Qed.

(* the form of the task statement: 0 < T, 0 <= s, value u / (T * 2^s) *)
Theorem dwithin_exact : forall tol u T s obs, 0 < T -> 0 <= s ->
  dwithin tol u T s obs = true <-> (Qabs (obs - (u # Z.to_pos (T * 2 ^ s))) <= tol)%Q.
Proof.
  intros tol u T s obs HT Hs. apply dwithin_exact_pos; [assumption|].
  rewrite Z2Pos.id; [reflexivity|]. apply Z.mul_pos_pos; [assumption|]. apply Z.pow_pos_nonneg; lia.
Qed.

(* the denominator tab_q uses is the one dwithin uses *)
Lemma tab_den_pos : forall T s d, T * Z.shiftl 1 s = Zpos d -> 0 <= s /\ T * 2 ^ s = Zpos d.
Proof.
  intros T s d H. rewrite Z.shiftl_1_l in H. destruct (Z.ltb_spec s 0) as [L|L].
  - exfalso. rewrite Z.pow_neg_r in H by assumption. lia.
  - split; assumption.
Qed.

(* tab_close (the test the comparator applies) against tab_q (the value the theorems below
   identify with the model): whenever the table has a value q at index i, the test is
   exactly |obs - q| <= tol_abs *)
Theorem tab_close_exact : forall t l i q obs, tab_q t l i = Some q ->
  tab_close t l i (XFin obs) = true <-> (Qabs (obs - q) <= tol_abs)%Q.
Proof.
  intros t l i q obs. unfold tab_q, tab_close.
  destruct (nth_error l (Z.to_nat i)) as [u|]; [|discriminate].
  destruct (t_T t * Z.shiftl 1 (t_s t)) as [|d|d] eqn:E; try discriminate.
  intros H. injection H as <-. apply tab_den_pos in E as [Hs E].
  apply dwithin_exact_pos; assumption.
Qed.

(* ====================== 1. scan = running sums ====================== *)

Lemma scan_length : forall l acc, length (scan acc l) = length l.
Proof. induction l as [|x t IH]; intros acc; simpl; [reflexivity| rewrite IH; reflexivity]. Qed.

Theorem scan_nth_error : forall l acc i,
  nth_error (scan acc l) i =
  option_map (fun _ => acc + Zsum_n (fun j => nth j l 0) (S i)) (nth_error l i).
Proof.
  induction l as [|x t IH]; intros acc i.
  - destruct i; reflexivity.
  - destruct i as [|i].
    + cbn [scan nth_error option_map Zsum_n nth]. f_equal.
    + cbn [scan nth_error]. rewrite IH. rewrite (Zsum_n_S_l (fun j => nth j (x :: t) 0) (S i)).
      cbn [nth]. destruct (nth_error t i); cbn [option_map]; [f_equal; lia | reflexivity].
Qed.

(* if the list is pointwise f (j < length), the scan is pointwise the partial sum of f *)
Lemma scan_nth_error_fun : forall (f : nat -> Z) l i,
  (forall j, (j < length l)%nat -> nth_error l j = Some (f j)) -> (i < length l)%nat ->
  nth_error (scan 0 l) i = Some (Zsum_n f (S i)).
Proof.
  intros f l i Hf Hi. rewrite scan_nth_error. rewrite (Hf i Hi). cbn [option_map]. f_equal.
  rewrite Z.add_0_l. apply Zsum_n_ext. intros j Hj.
  apply nth_error_nth. apply Hf. lia.
Qed.

(* ====================== 5. hypergeometric table ====================== *)

Section HGT.
Variables N K n : Z.
Hypothesis Hv : hg_valid N K n.
Let lo := hg_lo N K n.
Let hi := hg_hi N K n.
Let u := hg_num N K n.

Lemma hw_iter_length : forall steps k w, length (hw_iter N K n steps k w) = steps.
Proof. induction steps as [|st IH]; intros; cbn [hw_iter length]; [reflexivity| rewrite IH; reflexivity]. Qed.

Lemma hw_iter_nth : forall steps k i, lo <= k -> k + Z.of_nat steps <= hi -> (i < steps)%nat ->
  nth_error (hw_iter N K n steps k (u k)) i = Some (u (k + 1 + Z.of_nat i)).
Proof.
  pose proof (hg_lo_hi N K n Hv) as [H0 [H1 [H2 H3]]]. fold lo hi in H0, H1, H2, H3.
  induction steps as [|st IH]; intros k i Hk Hs Hi; [lia|].
  cbn [hw_iter].
  assert (E : u k * ((K - k) * (n - k)) / ((k + 1) * (N - K - n + k + 1)) = u (k + 1)).
  { pose proof (hg_num_ratio N K n Hv (k + 1)) as R. fold lo hi u in R.
    specialize (R ltac:(lia)).
    replace (k + 1 - 1) with k in R by lia.
    replace (K - (k + 1) + 1) with (K - k) in R by lia.
    replace (n - (k + 1) + 1) with (n - k) in R by lia.
    replace (N - K - n + (k + 1)) with (N - K - n + k + 1) in R by lia.
    rewrite R. apply Z.div_mul.
    unfold lo, hg_lo in *. destruct Hv. nia. }
  rewrite E. destruct i as [|i].
  - cbn [nth_error]. f_equal. f_equal. lia.
  - cbn [nth_error]. rewrite IH by lia. f_equal. f_equal. lia.
Qed.

Lemma hg_weights_length : length (hg_weights N K n) = S (Z.to_nat (hi - lo)).
Proof. unfold hg_weights. cbn [length]. rewrite hw_iter_length. reflexivity. Qed.

Theorem hg_weights_nth : forall i, 0 <= i <= hi - lo ->
  nth_error (hg_weights N K n) (Z.to_nat i) = Some (u (lo + i)).
Proof.
  intros i Hi. unfold hg_weights. fold lo hi. fold (u lo).
  destruct (Z.to_nat i) as [|m] eqn:E.
  - cbn [nth_error]. f_equal. f_equal. lia.
  - cbn [nth_error]. rewrite hw_iter_nth by lia. f_equal. f_equal. lia.
Qed.

Lemma hg_weights_nth_nat : forall j, (j < length (hg_weights N K n))%nat ->
  nth_error (hg_weights N K n) j = Some (u (lo + Z.of_nat j)).
Proof.
  intros j Hj. rewrite hg_weights_length in Hj.
  pose proof (hg_lo_hi N K n Hv) as [H0 [H1 [H2 H3]]]. fold lo hi in H0, H1, H2, H3.
  rewrite <- (Nat2Z.id j) at 1. apply hg_weights_nth. lia.
Qed.

Theorem hg_cum_nth : forall i, 0 <= i <= hi - lo ->
  nth_error (scan 0 (hg_weights N K n)) (Z.to_nat i) = Some (Zsum_range u lo (lo + i)).
Proof.
  intros i Hi.
  rewrite (scan_nth_error_fun (fun j => u (lo + Z.of_nat j))).
  - unfold Zsum_range. f_equal. f_equal. lia.
  - apply hg_weights_nth_nat.
  - rewrite hg_weights_length. lia.
Qed.

(* the common denominator of the table *)
Lemma hg_table_den : exists d, t_T (hg_table N K n) * Z.shiftl 1 (t_s (hg_table N K n)) = Zpos d
                               /\ Zpos d = choose N n.
Proof.
  pose proof (hg_T_pos N K n Hv) as HT. cbn [hg_table t_T t_s]. rewrite Z.shiftl_1_l. change (2 ^ 0) with 1.
  rewrite Z.mul_1_r. exists (Z.to_pos (choose N n)). rewrite Z2Pos.id by assumption. split; reflexivity.
Qed.

Theorem hg_table_pmf : forall i, 0 <= i <= hi - lo ->
  exists q, tab_q (hg_table N K n) (t_w (hg_table N K n)) i = Some q
            /\ (q == hg_pmf_i N K n (lo + i))%Q.
Proof.
  intros i Hi. destruct hg_table_den as [d [E1 E2]].
  exists (u (lo + i) # d). unfold tab_q. rewrite E1. cbn [hg_table t_w].
  rewrite hg_weights_nth by assumption. split; [reflexivity|].
  unfold hg_pmf_i. rewrite <- E2. apply Qmake_Qdiv.
Qed.

Theorem hg_table_cdf : forall i, 0 <= i -> lo + i < hi ->
  exists q, tab_q (hg_table N K n) (t_cum (hg_table N K n)) i = Some q
            /\ (q == hg_cdf_i N K n (lo + i))%Q.
Proof.
  intros i Hi Hi2. destruct hg_table_den as [d [E1 E2]].
  exists (Zsum_range u lo (lo + i) # d). unfold tab_q. rewrite E1. cbn [hg_table t_cum].
  rewrite hg_cum_nth by lia. split; [reflexivity|].
  rewrite (hg_cdf_i_is_sum N K n (lo + i) Hv). fold lo.
  rewrite (Qsum_range_ext _ (hg_pmf_i N K n)).
  - rewrite (hg_pmf_sum_Z N K n Hv). rewrite <- E2. apply Qmake_Qdiv.
  - intros j Hj. rewrite hg_pmf_inject. fold lo hi.
    destruct (Z.ltb_spec j lo); [lia|]. destruct (Z.ltb_spec hi j); [lia|]. reflexivity.
Qed.
End HGT.

(* ====================== 2. binomial weights ====================== *)

Lemma nth_error_repeat0 : forall (x : Z) m j, (j < m)%nat -> nth_error (repeat x m) j = Some x.
Proof.
  induction m as [|m IH]; intros j Hj; [lia|]. destruct j as [|j]; cbn [repeat nth_error]; [reflexivity|].
  apply IH. lia.
Qed.

Lemma choose_n_0 : forall n, choose n 0 = 1.
Proof. intros. unfold choose. rewrite Z.eqb_refl. reflexivity. Qed.
Lemma choose_n_n : forall n, choose n n = 1.
Proof. intros. unfold choose. rewrite (Z.eqb_refl n), orb_true_r. reflexivity. Qed.

Section BW.
Variables n a b : Z.
Hypothesis Hn : 0 <= n.
Hypothesis Ha : 0 <= a.
Hypothesis Hb : 0 <= b.

(* w_k = C(n,k) a^k b^(n-k) *)
Definition bw (k : Z) : Z := choose n k * a ^ k * b ^ (n - k).

Lemma bw_iter_length : forall steps k w, length (bw_iter n a b steps k w) = steps.
Proof. induction steps as [|st IH]; intros; cbn [bw_iter length]; [reflexivity| rewrite IH; reflexivity]. Qed.

Lemma bw_step : b <> 0 -> forall k, 0 <= k < n -> bw k * ((n - k) * a) / ((k + 1) * b) = bw (k + 1).
Proof.
  intros Hb0 k Hk.
  assert (E1 : a ^ (k + 1) = a ^ k * a) by (rewrite Z.pow_add_r by lia; rewrite Z.pow_1_r; reflexivity).
  assert (E2 : b ^ (n - k) = b ^ (n - (k + 1)) * b).
  { replace (n - k) with (n - (k + 1) + 1) by lia. rewrite Z.pow_add_r by lia. rewrite Z.pow_1_r.
    replace (n - (k + 1) + 1 - (k + 1)) with (n - (k + 1) - k) by lia. reflexivity. }
  pose proof (choose_succ_mul n k Hn ltac:(lia)) as E3.
  unfold bw. rewrite E1, E2.
  set (c0 := choose n k) in *. set (c1 := choose n (k + 1)) in *.
  set (x := a ^ k). set (y := b ^ (n - (k + 1))).
  replace (c0 * x * (y * b) * ((n - k) * a)) with ((c0 * (n - k)) * x * a * y * b) by ring.
  rewrite <- E3.
  replace (c1 * (k + 1) * x * a * y * b) with (c1 * (x * a) * y * ((k + 1) * b)) by ring.
  apply Z.div_mul. nia.
Qed.

Lemma bw_iter_nth : b <> 0 -> forall steps k i, 0 <= k -> k + Z.of_nat steps <= n -> (i < steps)%nat ->
  nth_error (bw_iter n a b steps k (bw k)) i = Some (bw (k + 1 + Z.of_nat i)).
Proof.
  intros Hb0. induction steps as [|st IH]; intros k i Hk Hs Hi; [lia|].
  cbn [bw_iter]. rewrite bw_step by lia. destruct i as [|i].
  - cbn [nth_error]. f_equal. f_equal. lia.
  - cbn [nth_error]. rewrite IH by lia. f_equal. f_equal. lia.
Qed.

Theorem binom_weights_length : length (binom_weights n a b) = S (Z.to_nat n).
Proof.
  unfold binom_weights. destruct (b =? 0).
  - rewrite app_length, repeat_length. cbn [length]. lia.
  - cbv zeta. cbn [length]. rewrite bw_iter_length. reflexivity.
Qed.

Theorem binom_weights_nth : forall k, 0 <= k <= n ->
  nth_error (binom_weights n a b) (Z.to_nat k) = Some (bw k).
Proof.
  intros k Hk. unfold binom_weights. destruct (Z.eqb_spec b 0) as [E|E].
  - unfold bw. rewrite E. destruct (Z.eq_dec k n) as [->|Hne].
    + rewrite nth_error_app2 by (rewrite repeat_length; lia).
      rewrite repeat_length, Nat.sub_diag. cbn [nth_error]. f_equal.
      rewrite choose_n_n, Z.sub_diag. change (0 ^ 0) with 1. ring.
    + rewrite nth_error_app1 by (rewrite repeat_length; lia).
      rewrite nth_error_repeat0 by lia. f_equal.
      rewrite (Z.pow_0_l (n - k)) by lia. ring.
  - cbv zeta.
    assert (W0 : b ^ n = bw 0).
    { unfold bw. rewrite choose_n_0, Z.sub_0_r. change (a ^ 0) with 1. ring. }
    rewrite W0. destruct (Z.to_nat k) as [|m] eqn:Ek.
    + cbn [nth_error]. f_equal. f_equal. lia.
    + cbn [nth_error]. rewrite bw_iter_nth by lia. f_equal. f_equal. lia.
Qed.

Lemma binom_weights_nth_nat : forall j, (j < length (binom_weights n a b))%nat ->
  nth_error (binom_weights n a b) j = Some (bw (Z.of_nat j)).
Proof.
  intros j Hj. rewrite binom_weights_length in Hj.
  rewrite <- (Nat2Z.id j) at 1. apply binom_weights_nth. lia.
Qed.

Theorem binom_cum_nth : forall k, 0 <= k <= n ->
  nth_error (scan 0 (binom_weights n a b)) (Z.to_nat k) = Some (Zsum_range bw 0 k).
Proof.
  intros k Hk.
  rewrite (scan_nth_error_fun (fun j => bw (Z.of_nat j))).
  - unfold Zsum_range. f_equal. replace (Z.to_nat (k - 0 + 1)) with (S (Z.to_nat k)) by lia.
    apply Zsum_n_ext. intros i Hi. f_equal.
  - apply binom_weights_nth_nat.
  - rewrite binom_weights_length. lia.
Qed.
End BW.

(* ====================== 3, 4. binomial table ====================== *)
Local Open Scope Q_scope.

Lemma qpow_inject : forall z k, qpow (inject_Z z) k == inject_Z (z ^ Z.of_nat k).
Proof.
  intros z. induction k as [|k IH].
  - reflexivity.
  - rewrite qpow_S, IH, Nat2Z.inj_succ, Z.pow_succ_r by lia. rewrite inject_Z_mult. reflexivity.
Qed.

Lemma qpow_nonzero : forall x k, ~ x == 0 -> ~ qpow x k == 0.
Proof.
  intros x k Hx. induction k as [|k IH]; cbn [qpow]; [discriminate|].
  intros E. apply Qmult_integral in E. tauto.
Qed.

Lemma qpow_div : forall x y k, ~ y == 0 -> qpow (x / y) k == qpow x k / qpow y k.
Proof.
  intros x y k Hy. induction k as [|k IH]; cbn [qpow].
  - field.
  - rewrite IH. field. split; [apply qpow_nonzero|]; assumption.
Qed.

Lemma binom_cdf_i_is_sum_Z : forall n p ki, (0 <= n)%Z ->
  binom_cdf_i n p ki == Qsum_range (binom_pmf_i n p) 0 ki.
Proof.
  intros n p ki Hn. pose proof (binom_cdf_i_is_sum (Z.to_nat n) p ki) as H.
  rewrite Z2Nat.id in H by assumption. exact H.
Qed.

Section BT.
Variable n : Z.
Variable p : Q.
Hypothesis Hn : (0 <= n)%Z.
Hypothesis Hp : 0 <= p <= 1.
Let a := Qnum p.
Let d := Zpos (Qden p).

Lemma bt_a_range : (0 <= a <= d)%Z.
Proof. unfold a, d. destruct Hp as [H0 H1]. unfold Qle in H0, H1. cbn [Qnum Qden] in H0, H1. lia. Qed.

Lemma binom_table_w : t_w (binom_table n p) = binom_weights n a (d - a).
Proof. unfold binom_table. cbv zeta. fold a d. destruct (d =? Z.shiftl 1 (Z.log2 d))%Z; reflexivity. Qed.
Lemma binom_table_cum : t_cum (binom_table n p) = scan 0 (binom_weights n a (d - a)).
Proof. unfold binom_table. cbv zeta. fold a d. destruct (d =? Z.shiftl 1 (Z.log2 d))%Z; reflexivity. Qed.

(* the common denominator is d^n in both branches *)
Lemma binom_table_den : exists dd,
  (t_T (binom_table n p) * Z.shiftl 1 (t_s (binom_table n p)))%Z = Zpos dd /\ Zpos dd = (d ^ n)%Z.
Proof.
  assert (HD : (0 < d ^ n)%Z) by (apply Z.pow_pos_nonneg; [unfold d|]; lia).
  exists (Z.to_pos (d ^ n)). rewrite Z2Pos.id by assumption. split; [|reflexivity].
  unfold binom_table. cbv zeta. fold a d.
  destruct (Z.eqb_spec d (Z.shiftl 1 (Z.log2 d))) as [E|E]; cbn [t_T t_s].
  - rewrite Z.shiftl_1_l in *. rewrite Z.pow_mul_r by (try apply Z.log2_nonneg; lia).
    rewrite <- E. lia.
  - rewrite Z.shiftl_1_l. change (2 ^ 0)%Z with 1%Z. lia.
Qed.

(* the value of entry k, over the common denominator, is the model PMF *)
Lemma bw_over_den : forall k, (0 <= k <= n)%Z ->
  inject_Z (bw n a (d - a) k) / inject_Z (d ^ n) == binom_pmf_i n p k.
Proof.
  intros k Hk. pose proof bt_a_range as Ha.
  unfold binom_pmf_i.
  destruct (Z.ltb_spec k 0) as [L|L]; [lia|]. destruct (Z.ltb_spec n k) as [L2|L2]; [lia|]. cbn [orb].
  set (kk := Z.to_nat k). set (mm := Z.to_nat (n - k)).
  assert (HD : ~ inject_Z d == 0) by (apply inject_Z_nonzero; unfold d; lia).
  assert (Ep : p == inject_Z a / inject_Z d).
  { unfold a, d. destruct p as [pn pd]. cbn [Qnum Qden]. apply Qmake_Qdiv. }
  assert (Eq : 1 - p == inject_Z (d - a) / inject_Z d).
  { rewrite Ep. unfold Z.sub. rewrite inject_Z_plus, inject_Z_opp. field. exact HD. }
  rewrite Ep at 1. rewrite Eq. rewrite !qpow_div by exact HD. rewrite !qpow_inject.
  unfold bw. rewrite !inject_Z_mult.
  replace (Z.of_nat kk) with k by (unfold kk; lia).
  replace (Z.of_nat mm) with (n - k)%Z by (unfold mm; lia).
  assert (En : inject_Z (d ^ n) == inject_Z (d ^ k) * inject_Z (d ^ (n - k))).
  { rewrite <- inject_Z_mult, <- Z.pow_add_r by lia. replace (k + (n - k))%Z with n by lia. reflexivity. }
  rewrite En. field. split; apply inject_Z_nonzero; apply Z.pow_nonzero; unfold d; lia.
Qed.

Theorem binom_table_pmf : forall k, (0 <= k <= n)%Z ->
  exists q, tab_q (binom_table n p) (t_w (binom_table n p)) k = Some q /\ q == binom_pmf_i n p k.
Proof.
  intros k Hk. destruct binom_table_den as [dd [E1 E2]]. pose proof bt_a_range as Ha.
  exists (bw n a (d - a) k # dd). unfold tab_q. rewrite E1, binom_table_w.
  rewrite binom_weights_nth by lia. split; [reflexivity|].
  rewrite Qmake_Qdiv, E2. apply bw_over_den. assumption.
Qed.

Theorem binom_table_cdf : forall k, (0 <= k <= n)%Z ->
  exists q, tab_q (binom_table n p) (t_cum (binom_table n p)) k = Some q /\ q == binom_cdf_i n p k.
Proof.
  intros k Hk. destruct binom_table_den as [dd [E1 E2]]. pose proof bt_a_range as Ha.
  exists (Zsum_range (bw n a (d - a)) 0 k # dd). unfold tab_q. rewrite E1, binom_table_cum.
  rewrite binom_cum_nth by lia. split; [reflexivity|].
  rewrite Qmake_Qdiv, E2. rewrite binom_cdf_i_is_sum_Z by assumption.
  rewrite (Qsum_range_ext _ (fun j => / inject_Z (d ^ n) * inject_Z (bw n a (d - a) j))).
  - rewrite Qsum_range_scal, Qsum_range_inject. unfold Qdiv. ring.
  - intros j Hj. rewrite <- bw_over_den by lia. unfold Qdiv. ring.
Qed.
End BT.

(* ====================== corollaries in the form the comparator uses ====================== *)
(* the comparator looks entries up at index ki - t_lo t, for t_lo t <= ki <= t_hi t *)

Lemma tab_q_unique : forall t l i (m : Q),
  (exists q, tab_q t l i = Some q /\ q == m) -> forall q', tab_q t l i = Some q' -> q' == m.
Proof. intros t l i m [q [E H]] q' E'. rewrite E in E'. injection E' as <-. exact H. Qed.

Lemma binom_table_bounds : forall n p, t_lo (binom_table n p) = 0%Z /\ t_hi (binom_table n p) = n.
Proof.
  intros. unfold binom_table. cbv zeta.
  destruct (Z.pos (Qden p) =? Z.shiftl 1 (Z.log2 (Z.pos (Qden p))))%Z; split; reflexivity.
Qed.
Lemma hg_table_bounds : forall N K n,
  t_lo (hg_table N K n) = hg_lo N K n /\ t_hi (hg_table N K n) = hg_hi N K n.
Proof. intros. split; reflexivity. Qed.

Section Final.
Variable n : Z.
Variable p : Q.
Hypothesis Hn : (0 <= n)%Z.
Hypothesis Hp : 0 <= p <= 1.
Let t := binom_table n p.

Theorem binom_table_pmf_some : forall ki q, (t_lo t <= ki <= t_hi t)%Z ->
  tab_q t (t_w t) (ki - t_lo t) = Some q -> q == binom_pmf_i n p ki.
Proof.
  intros ki q. unfold t. destruct (binom_table_bounds n p) as [-> ->]. intros Hk.
  rewrite Z.sub_0_r. apply tab_q_unique. apply binom_table_pmf; assumption.
Qed.

Theorem binom_table_cdf_some : forall ki q, (t_lo t <= ki <= t_hi t)%Z ->
  tab_q t (t_cum t) (ki - t_lo t) = Some q -> q == binom_cdf_i n p ki.
Proof.
  intros ki q. unfold t. destruct (binom_table_bounds n p) as [-> ->]. intros Hk.
  rewrite Z.sub_0_r. apply tab_q_unique. apply binom_table_cdf; assumption.
Qed.

(* the test applied to an observed PMF / CDF value is the tolerance test against the model *)
Theorem binom_tab_close_pmf : forall ki obs, (t_lo t <= ki <= t_hi t)%Z ->
  tab_close t (t_w t) (ki - t_lo t) (XFin obs) = true <-> Qabs (obs - binom_pmf_i n p ki) <= tol_abs.
Proof.
  intros ki obs Hk. pose proof Hk as Hk'. unfold t in Hk'. destruct (binom_table_bounds n p) as [B1 B2].
  rewrite B1, B2 in Hk'.
  destruct (binom_table_pmf n p Hn Hp ki Hk') as [q [E H]].
  unfold t. rewrite B1, Z.sub_0_r. rewrite (tab_close_exact _ _ _ q obs E). rewrite H. reflexivity.
Qed.

Theorem binom_tab_close_cdf : forall ki obs, (t_lo t <= ki <= t_hi t)%Z ->
  tab_close t (t_cum t) (ki - t_lo t) (XFin obs) = true <-> Qabs (obs - binom_cdf_i n p ki) <= tol_abs.
Proof.
  intros ki obs Hk. pose proof Hk as Hk'. unfold t in Hk'. destruct (binom_table_bounds n p) as [B1 B2].
  rewrite B1, B2 in Hk'.
  destruct (binom_table_cdf n p Hn Hp ki Hk') as [q [E H]].
  unfold t. rewrite B1, Z.sub_0_r. rewrite (tab_close_exact _ _ _ q obs E). rewrite H. reflexivity.
Qed.
End Final.

Section FinalHG.
Variables N K n : Z.
Hypothesis Hv : hg_valid N K n.
Let t := hg_table N K n.

Theorem hg_table_pmf_some : forall ki q, (t_lo t <= ki <= t_hi t)%Z ->
  tab_q t (t_w t) (ki - t_lo t) = Some q -> q == hg_pmf_i N K n ki.
Proof.
  intros ki q Hk. unfold t in *. cbn [hg_table t_lo t_hi] in *.
  apply tab_q_unique.
  destruct (hg_table_pmf N K n Hv (ki - hg_lo N K n) ltac:(lia)) as [q0 [E H]].
  exists q0. split; [exact E|]. rewrite H. replace (hg_lo N K n + (ki - hg_lo N K n))%Z with ki by lia. reflexivity.
Qed.

Theorem hg_table_cdf_some : forall ki q, (t_lo t <= ki < t_hi t)%Z ->
  tab_q t (t_cum t) (ki - t_lo t) = Some q -> q == hg_cdf_i N K n ki.
Proof.
  intros ki q Hk. unfold t in *. cbn [hg_table t_lo t_hi] in *.
  apply tab_q_unique.
  destruct (hg_table_cdf N K n Hv (ki - hg_lo N K n) ltac:(lia) ltac:(lia)) as [q0 [E H]].
  exists q0. split; [exact E|]. rewrite H. replace (hg_lo N K n + (ki - hg_lo N K n))%Z with ki by lia. reflexivity.
Qed.

Theorem hg_tab_close_pmf : forall ki obs, (t_lo t <= ki <= t_hi t)%Z ->
  tab_close t (t_w t) (ki - t_lo t) (XFin obs) = true <-> Qabs (obs - hg_pmf_i N K n ki) <= tol_abs.
Proof.
  intros ki obs Hk. unfold t in *. cbn [hg_table t_lo t_hi] in Hk.
  destruct (hg_table_pmf N K n Hv (ki - hg_lo N K n) ltac:(lia)) as [q [E H]].
  replace (hg_lo N K n + (ki - hg_lo N K n))%Z with ki in H by lia.
  change (t_lo (hg_table N K n)) with (hg_lo N K n).
  rewrite (tab_close_exact _ _ _ q obs E). rewrite H. reflexivity.
Qed.

Theorem hg_tab_close_cdf : forall ki obs, (t_lo t <= ki < t_hi t)%Z ->
  tab_close t (t_cum t) (ki - t_lo t) (XFin obs) = true <-> Qabs (obs - hg_cdf_i N K n ki) <= tol_abs.
Proof.
  intros ki obs Hk. unfold t in *. cbn [hg_table t_lo t_hi] in Hk.
  destruct (hg_table_cdf N K n Hv (ki - hg_lo N K n) ltac:(lia) ltac:(lia)) as [q [E H]].
  replace (hg_lo N K n + (ki - hg_lo N K n))%Z with ki in H by lia.
  change (t_lo (hg_table N K n)) with (hg_lo N K n).
  rewrite (tab_close_exact _ _ _ q obs E). rewrite H. reflexivity.
Qed.
End FinalHG.

(* Proofs/C09Extra.v — (group hL) two small closures for C09.
   1. Sorted-flag irrelevance of Mean / Sum / Weight / Variance / GeoMean: the model functions do not
      read s_sorted — stated and proved (by computation) instead of "by inspection": two samples with
      the same Xs and Weights give EQUAL results whatever their flags.  (Bounds is the one statistic whose
      code reads the flag: C09_sorted_flag_irrelevant, C09_weighted_sorted_flag_irrelevant.)
   2. GeoMean of more than 64 values: what an accepted verdict says (only the bracket, geo_bracket_ok),
      composed with what the TRUE geometric mean satisfies (Proofs/GeoMeanBracket.v). *)
From MM Require Import Base.Num Base.GASort Model.Stream Proofs.Stream Model.Sample Spec.Sample.
From MM Require Import Proofs.Sample Proofs.CheckBase Check.C09 Proofs.CheckC09 Proofs.GeoMeanBracket.
From MM Require Import Proofs.CheckC09Log Proofs.CheckC09Hist Proofs.CheckC09HistVal Proofs.CheckC09HistAll.
From Coq Require Import Lqa Lia.
Local Open Scope Q_scope.

Theorem stats_ignore_sorted_flag : forall s s', s_xs s = s_xs s' -> s_ws s = s_ws s' ->
  sample_mean s = sample_mean s' /\ sample_sum s = sample_sum s' /\ sample_weight s = sample_weight s' /\
  sample_variance s = sample_variance s' /\ sample_geomean s = sample_geomean s'.
Proof.
  intros [xs ws st] [xs' ws' st'] Ex Ew. cbn [s_xs s_ws] in Ex, Ew. subst xs' ws'.
  repeat split.
Qed.

(* in particular: marking (or unmarking) a sample as Sorted changes none of them, and neither does Sort
   change which function of the pairs is computed (Sort only permutes the pairs and sets the flag) *)
Corollary stats_flag_flip : forall xs ws st st',
  sample_mean (mkSample xs ws st) = sample_mean (mkSample xs ws st') /\
  sample_sum (mkSample xs ws st) = sample_sum (mkSample xs ws st') /\
  sample_weight (mkSample xs ws st) = sample_weight (mkSample xs ws st') /\
  sample_variance (mkSample xs ws st) = sample_variance (mkSample xs ws st') /\
  sample_geomean (mkSample xs ws st) = sample_geomean (mkSample xs ws st').
Proof. intros. apply stats_ignore_sorted_flag; reflexivity. Qed.

(* GeoMean, n > 64, all values positive: an accepted observation g_obs is only known to lie in the window
   [min (1 - 1e-9), max (1 + 1e-9)]; the true geometric mean g (the positive root of g^n = prod x_i) lies in
   [min, max] and below the arithmetic mean (AM-GM), so the window always contains it and
   |g_obs - g| <= max (1 + 1e-9) - min (1 - 1e-9) is ALL that is certified then. *)
Theorem geomean_bracket_vs_true : forall xs o g mn mx, (64 < length xs)%nat -> (forall x, In x xs -> 0 < x) ->
  geo_ok xs o -> 0 < g -> Qpw g (length xs) == Qprod xs -> is_min mn xs -> is_max mx xs ->
  exists g_obs, o = XFin g_obs /\ 0 < g_obs /\
    mn * (1 - e9g) <= g_obs /\ g_obs <= mx * (1 + e9g) /\
    mn <= g /\ g <= mx /\ g <= mean_def xs /\
    Qabs (g_obs - g) <= mx * (1 + e9g) - mn * (1 - e9g).
Proof.
  intros xs o g mn mx L P [_ G] Hg Hp Hmn Hmx.
  assert (Hne : xs <> []) by (destruct xs; [cbn in L; lia|discriminate]).
  destruct (G Hne P) as (go & -> & Hgo & _ & B). specialize (B L).
  exists go. split; [reflexivity|]. split; [exact Hgo|].
  destruct (geomean_true_in_bracket xs g mn mx Hne P Hg Hp Hmn Hmx) as [T1 T2].
  pose proof (geomean_le_mean xs g Hne P Hg Hp) as T3.
  pose proof (geo_bracket_distance xs go g mn mx Hne P Hg Hp Hmn Hmx B) as T4.
  destruct B as (mn' & mx' & Hmn' & Hmx' & B1 & B2).
  pose proof (is_min_unique xs mn mn' Hmn Hmn') as E1. pose proof (is_max_unique xs mx mx' Hmx Hmx') as E2.
  unfold e9g in *. repeat split; try assumption; [rewrite E1; exact B1|rewrite E2; exact B2].
Qed.

(* ---------- grouped statements (one Print Assumptions per topic in Properties/C09.v) ---------- *)
Theorem logspace_accept_all : forall lo hi num base res, vec_ok (VLog lo hi num base res) ->
  log_ok lo hi num base res /\
  ((2 <= num)%nat -> exists v0 vl, nth_error res 0 = Some v0 /\ nth_error res (num - 1) = Some vl /\
                                   0 < v0 /\ 0 < vl /\ pow_spec base lo v0 /\ pow_spec base hi vl).
Proof. intros lo hi num base res H. split; [apply logspace_accept_sound; exact H|intro L; apply log_ends; assumption]. Qed.

Theorem history_line_all : forall sorted hasw xs ws ops c tag pos diag,
  check_case (KHist sorted hasw xs ws ops) = verdict c tag pos diag -> (c = 0 \/ c = 1)%Z ->
  let s0 := mkSample xs (ows hasw ws) sorted in
  obs_hist_ok [s0] ops /\ obs_hist_fresh_ok [s0] ops /\
  (no_poke (map fst ops) -> obs_multiset_ok s0 ops /\ obs_fresh_ok s0 ops).
Proof.
  intros sorted hasw xs ws ops c tag pos diag V Hc s0.
  destruct (check_hist_obs sorted hasw xs ws ops c tag pos diag V Hc) as [A B].
  split; [exact A|]. split; [exact (check_hist_fresh_all sorted hasw xs ws ops c tag pos diag V Hc)|]. intro NP. split; [exact (B NP)|exact (check_hist_fresh sorted hasw xs ws ops c tag pos diag V Hc NP)].
Qed.

Theorem history_steps_all :
  (forall ops st cur, Forall swf st -> Forall2 sample_eqv st cur -> hist_ok st ops -> obs_hist_ok cur ops) /\
  (forall ops s0 cur, no_poke (map fst ops) -> Forall (inv s0) cur -> obs_hist_ok cur ops -> obs_multiset_ok s0 ops) /\
  (forall s0 s mst m sm w b1 b2 vst v, swf s0 -> swf s -> inv s0 s ->
     query_obs_ok s mst m sm w b1 b2 vst v -> query_fresh_ok s0 mst m sm w b1 b2 vst v) /\
  (forall ops cur, obs_hist_ok cur ops -> obs_hist_fresh_ok cur ops).
Proof. exact (conj hist_ok_obs (conj obs_hist_multiset (conj query_obs_fresh obs_hist_ok_fresh))). Qed.

Print Assumptions stats_ignore_sorted_flag.
Print Assumptions logspace_accept_all.
Print Assumptions history_line_all.
Print Assumptions geomean_bracket_vs_true.
Theorem geomean_beyond_64 :
  (forall xs, xs <> [] -> (forall x, In x xs -> 0 < x) -> Qprod xs <= Qpw (Qsum xs / Qofnat (length xs)) (length xs)) /\
  (forall xs o g mn mx, (64 < length xs)%nat -> (forall x, In x xs -> 0 < x) ->
     geo_ok xs o -> 0 < g -> Qpw g (length xs) == Qprod xs -> is_min mn xs -> is_max mx xs ->
     exists g_obs, o = XFin g_obs /\ 0 < g_obs /\
       mn * (1 - e9g) <= g_obs /\ g_obs <= mx * (1 + e9g) /\
       mn <= g /\ g <= mx /\ g <= mean_def xs /\
       Qabs (g_obs - g) <= mx * (1 + e9g) - mn * (1 - e9g)).
Proof. exact (conj am_gm geomean_bracket_vs_true). Qed.

(* Proofs/C09Extra.v — (group hL) two small closures for C09.
   1. Sorted-flag irrelevance of Mean / Sum / Weight / Variance / GeoMean: the model functions do not
      read s_sorted — stated and proved (by computation) instead of "by inspection": two samples with
      the same Xs and Weights give EQUAL results whatever their flags.  (Bounds is the one statistic whose
      code reads the flag: C09_sorted_flag_irrelevant, C09_weighted_sorted_flag_irrelevant.)
   2. GeoMean of more than 64 values: what an accepted verdict says (only the bracket, geo_bracket_ok),
      composed with what the TRUE geometric mean satisfies (Proofs/GeoMeanBracket.v). *)
From MM Require Import Base.Num Base.GASort Model.Stream Proofs.Stream Model.Sample Spec.Sample.
From MM Require Import Proofs.Sample Proofs.CheckBase Check.C09 Proofs.CheckC09 Proofs.GeoMeanBracket.
From Coq Require Import Lqa Lia.
Local Open Scope Q_scope.

Theorem stats_ignore_sorted_flag : forall s s', s_xs s = s_xs s' -> s_ws s = s_ws s' ->
  sample_mean s = sample_mean s' /\ sample_sum s = sample_sum s' /\ sample_weight s = sample_weight s' /\
  sample_variance s = sample_variance s' /\ sample_geomean s = sample_geomean s'.
Proof.
  intros [xs ws st] [xs' ws' st'] Ex Ew. cbn [s_xs s_ws] in Ex, Ew. subst xs' ws'.
  repeat split.
Qed.

(* in particular: marking (or unmarking) a sample as Sorted changes none of them, and neither does Sort
   change which function of the pairs is computed (Sort only permutes the pairs and sets the flag) *)
Corollary stats_flag_flip : forall xs ws st st',
  sample_mean (mkSample xs ws st) = sample_mean (mkSample xs ws st') /\
  sample_sum (mkSample xs ws st) = sample_sum (mkSample xs ws st') /\
  sample_weight (mkSample xs ws st) = sample_weight (mkSample xs ws st') /\
  sample_variance (mkSample xs ws st) = sample_variance (mkSample xs ws st') /\
  sample_geomean (mkSample xs ws st) = sample_geomean (mkSample xs ws st').
Proof. intros. apply stats_ignore_sorted_flag; reflexivity. Qed.

(* GeoMean, n > 64, all values positive: an accepted observation g_obs is only known to lie in the window
   [min (1 - 1e-9), max (1 + 1e-9)]; the true geometric mean g (the positive root of g^n = prod x_i) lies in
   [min, max] and below the arithmetic mean (AM-GM), so the window always contains it and
   |g_obs - g| <= max (1 + 1e-9) - min (1 - 1e-9) is ALL that is certified then. *)
Theorem geomean_bracket_vs_true : forall xs o g mn mx, (64 < length xs)%nat -> (forall x, In x xs -> 0 < x) ->
  geo_ok xs o -> 0 < g -> Qpw g (length xs) == Qprod xs -> is_min mn xs -> is_max mx xs ->
  exists g_obs, o = XFin g_obs /\ 0 < g_obs /\
    mn * (1 - e9g) <= g_obs /\ g_obs <= mx * (1 + e9g) /\
    mn <= g /\ g <= mx /\ g <= mean_def xs /\
    Qabs (g_obs - g) <= mx * (1 + e9g) - mn * (1 - e9g).
Proof.
  intros xs o g mn mx L P [_ G] Hg Hp Hmn Hmx.
  assert (Hne : xs <> []) by (destruct xs; [cbn in L; lia|discriminate]).
  destruct (G Hne P) as (go & -> & Hgo & _ & B). specialize (B L).
  exists go. split; [reflexivity|]. split; [exact Hgo|].
  destruct (geomean_true_in_bracket xs g mn mx Hne P Hg Hp Hmn Hmx) as [T1 T2].
  pose proof (geomean_le_mean xs g Hne P Hg Hp) as T3.
  pose proof (geo_bracket_distance xs go g mn mx Hne P Hg Hp Hmn Hmx B) as T4.
  destruct B as (mn' & mx' & Hmn' & Hmx' & B1 & B2).
  pose proof (is_min_unique xs mn mn' Hmn Hmn') as E1. pose proof (is_max_unique xs mx mx' Hmx Hmx') as E2.
  unfold e9g in *. repeat split; try assumption; [rewrite E1; exact B1|rewrite E2; exact B2].
Qed.

Print Assumptions stats_ignore_sorted_flag.
Print Assumptions geomean_bracket_vs_true.

(* Proofs/C18MarksBig.v — the comparator's m_step_c (Check/C18.v) is m_step (Model/Marks.v):
   the shortcut for ids beyond the storage returns what the model returns. *)
From Coq Require Import List ZArith NArith Lia.
From MM Require Import Model.Marks Check.C18.
Import ListNotations.
Open Scope Z_scope.

Lemma word_index_beyond (m : marks) (i : Z) :
  Z.of_nat (length m) <= i / 32 -> 0 <= i /\ nth_error m (N.to_nat (Z.to_N i / 32)) = None.
Proof.
  intros H.
  assert (Hi : 0 <= i).
  { destruct (Z_lt_le_dec i 0) as [Hn|]; [|assumption].
    assert (i / 32 < 0) by (apply Z.div_lt_upper_bound; lia). lia. }
  split; [assumption|].
  apply nth_error_None.
  replace (Z.to_N i / 32)%N with (Z.to_N (i / 32)).
  - rewrite Z_N_nat. lia.
  - rewrite Z2N.inj_div by lia. reflexivity.
Qed.

Lemma m_step_c_eq (m : marks) (o : mop) : m_step_c m o = m_step m o.
Proof.
  destruct o as [i|i|i|i]; simpl; try reflexivity.
  - destruct (Z.leb_spec (Z.of_nat (length m)) (i / 32)) as [H|H]; [|reflexivity].
    destruct (word_index_beyond m i H) as [Hi Hn].
    unfold m_test. destruct (Z.ltb_spec i 0); [lia|]. rewrite Hn. reflexivity.
  - destruct (Z.leb_spec (Z.of_nat (length m)) ((i + 1) / 32)) as [H|H]; [|reflexivity].
    destruct (word_index_beyond m (i + 1) H) as [Hi Hn].
    unfold m_next. destruct (Z.ltb_spec (i + 1) 0); [lia|]. rewrite Hn. reflexivity.
Qed.

(* Proofs/CheckBase.v — (group hF) reading lemmas shared by the comparator-soundness proofs
   Proofs/CheckCxx.v: what the boolean comparators of Base/Num.v mean over Q, and inversion
   lemmas for the case-line parser combinators.  Everything here is over Z/Q/lists and is
   closed under the global context.  (Real-number readings are in Proofs/NumSound.v.) *)
From MM Require Import Base.Num.
From Coq Require Import Lqa.
Local Open Scope Q_scope.

(* ---------- boolean order tests ---------- *)
Lemma Qleb_true a b : Qleb a b = true <-> a <= b.
Proof. unfold Qleb. apply Qle_bool_iff. Qed.
Lemma Qleb_false a b : Qleb a b = false <-> b < a.
Proof.
  unfold Qleb. split; intro H.
  - apply Qnot_le_lt. intro L. apply Qle_bool_iff in L. congruence.
  - destruct (Qle_bool a b) eqn:E; [|reflexivity]. apply Qle_bool_iff in E. apply Qlt_not_le in H. contradiction.
Qed.
Lemma Qle_bool_false a b : Qle_bool a b = false <-> b < a.
Proof. exact (Qleb_false a b). Qed.
Lemma Qltb_true a b : Qltb a b = true <-> a < b.
Proof. unfold Qltb. rewrite Bool.negb_true_iff. apply Qle_bool_false. Qed.
Lemma Qltb_false a b : Qltb a b = false <-> b <= a.
Proof. unfold Qltb. rewrite Bool.negb_false_iff. apply Qle_bool_iff. Qed.
Lemma Qeqb_true a b : Qeqb a b = true <-> a == b.
Proof. unfold Qeqb. apply Qeq_bool_iff. Qed.
Lemma Qeq_bool_true a b : Qeq_bool a b = true <-> a == b.
Proof. apply Qeq_bool_iff. Qed.

Lemma Qmaxb_spec a b : a <= Qmaxb a b /\ b <= Qmaxb a b /\ (Qmaxb a b = a \/ Qmaxb a b = b).
Proof.
  unfold Qmaxb. destruct (Qle_bool a b) eqn:E.
  - apply Qle_bool_iff in E. repeat split; auto; lra.
  - apply Qle_bool_false in E. repeat split; auto; lra.
Qed.
Lemma Qminb_spec a b : Qminb a b <= a /\ Qminb a b <= b /\ (Qminb a b = a \/ Qminb a b = b).
Proof.
  unfold Qminb. destruct (Qle_bool a b) eqn:E.
  - apply Qle_bool_iff in E. repeat split; auto; lra.
  - apply Qle_bool_false in E. repeat split; auto; lra.
Qed.

(* ---------- comparators ---------- *)
Lemma within_iff tol e o : within tol e o = true <-> Qabs (o - e) <= tol.
Proof. unfold within. apply Qle_bool_iff. Qed.
Lemma within_sound tol e o : within tol e o = true -> Qabs (o - e) <= tol.
Proof. apply within_iff. Qed.
(* the same, as a two-sided bound *)
Lemma within_bounds tol e o : within tol e o = true -> e - tol <= o /\ o <= e + tol.
Proof. intro H. apply within_sound in H. apply Qabs_Qle_condition in H. destruct H. split; lra. Qed.

Lemma close_sound rel abs e o : close rel abs e o = true -> Qabs (o - e) <= abs + rel * Qabs e.
Proof. unfold close. apply within_sound. Qed.

Lemma close_sqrt_sound_Q tol v s : close_sqrt tol v s = true -> 0 <= s /\ Qabs (s * s - v) <= tol.
Proof.
  unfold close_sqrt. intro H. apply andb_prop in H. destruct H as [H1 H2].
  apply Qle_bool_iff in H1. apply within_sound in H2. split; assumption.
Qed.

(* expected finite: the observation is a finite float within tol *)
Lemma xwithin_fin tol e o : xwithin tol (XFin e) o = true -> exists q, o = XFin q /\ Qabs (q - e) <= tol.
Proof. destruct o as [| |q]; cbn; try discriminate. intro H. exists q. split; [reflexivity|]. now apply within_sound. Qed.
Lemma xwithin_nan tol o : xwithin tol XNaN o = true -> o = XNaN.
Proof. destruct o; cbn; try discriminate. reflexivity. Qed.
Lemma xwithin_inf tol s o : xwithin tol (XInf s) o = true -> o = XInf s.
Proof. destruct o as [|t|]; cbn; try discriminate. intro H. apply Bool.eqb_prop in H. now subst. Qed.
(* tolerance zero: equal values *)
Lemma Qabs_le0 a : Qabs a <= 0 -> a == 0.
Proof. intro H. apply Qabs_Qle_condition in H. destruct H. lra. Qed.
Lemma xeq_fin e o : xeq (XFin e) o = true -> exists q, o = XFin q /\ q == e.
Proof.
  unfold xeq. intro H. apply xwithin_fin in H. destruct H as (q & -> & H). exists q. split; [reflexivity|].
  apply Qabs_le0 in H. lra.
Qed.
Lemma xeq_nan o : xeq XNaN o = true -> o = XNaN.
Proof. apply xwithin_nan. Qed.
Lemma xeq_inf s o : xeq (XInf s) o = true -> o = XInf s.
Proof. apply xwithin_inf. Qed.

Lemma list_Z_eqb_eq a b : list_Z_eqb a b = true <-> a = b.
Proof.
  revert b. induction a as [|x a IH]; destruct b as [|y b]; cbn; split; try discriminate; try reflexivity.
  - intro H. apply andb_prop in H. destruct H as [H1 H2]. apply Z.eqb_eq in H1. apply IH in H2. now subst.
  - intro H. injection H as -> ->. rewrite Z.eqb_refl. now apply IH.
Qed.

(* ---------- verdicts ---------- *)
Lemma verdict_inj c t p d c' t' p' d' : verdict c t p d = verdict c' t' p' d' -> c = c' /\ t = t' /\ p = p' /\ d = d'.
Proof. unfold verdict. intro H. injection H. auto. Qed.
Definition accepted (v : list Z) : Prop := exists tag pos diag, v = verdict V_OK tag pos diag \/ v = verdict V_BORDERLINE tag pos diag.
Lemma accepted_verdict c t p d : accepted (verdict c t p d) <-> c = 0%Z \/ c = 1%Z.
Proof.
  unfold accepted, V_OK, V_BORDERLINE. split.
  - intros (t' & p' & d' & [H|H]); apply verdict_inj in H; destruct H as [H _]; auto.
  - intros [->| ->]; exists t, p, d; auto.
Qed.

(* ---------- parser combinators ---------- *)
Lemma pbind_some {A B} (p : parser A) (f : A -> parser B) l b r :
  pbind p f l = Some (b, r) -> exists a r', p l = Some (a, r') /\ f a r' = Some (b, r).
Proof. unfold pbind. destruct (p l) as [[a r']|]; [|discriminate]. intro H. exists a, r'. auto. Qed.
Lemma pret_some {A} (a : A) l b r : pret a l = Some (b, r) -> b = a /\ r = l.
Proof. unfold pret. intro H. injection H. auto. Qed.
Lemma pZ_some l z r : pZ l = Some (z, r) -> l = z :: r.
Proof. destruct l; cbn; [discriminate|]. intro H. injection H as -> ->. reflexivity. Qed.
Lemma pX_some l x r : pX l = Some (x, r) -> exists b, l = b :: r /\ x = decode_bits b.
Proof.
  unfold pX. intro H. apply pbind_some in H. destruct H as (b & r' & H1 & H2).
  apply pZ_some in H1. apply pret_some in H2. destruct H2 as [-> ->]. eauto.
Qed.
Lemma pQ_some l q r : pQ l = Some (q, r) -> exists b, l = b :: r /\ decode_bits b = XFin q.
Proof.
  destruct l as [|b l]; cbn; [discriminate|]. destruct (decode_bits b) eqn:E; try discriminate.
  intro H. injection H as -> ->. eauto.
Qed.
Lemma pnat_some l n r : pnat l = Some (n, r) -> exists z, l = z :: r /\ (0 <= z)%Z /\ n = Z.to_nat z.
Proof.
  unfold pnat. intro H. apply pbind_some in H. destruct H as (z & r' & H1 & H2). apply pZ_some in H1.
  destruct (z <? 0)%Z eqn:E; [discriminate|]. apply pret_some in H2. destruct H2 as [-> ->].
  apply Z.ltb_ge in E. eauto.
Qed.
Lemma pbool_some l b r : pbool l = Some (b, r) -> exists z, l = z :: r /\ b = negb (z =? 0)%Z.
Proof.
  unfold pbool. intro H. apply pbind_some in H. destruct H as (z & r' & H1 & H2). apply pZ_some in H1.
  apply pret_some in H2. destruct H2 as [-> ->]. eauto.
Qed.
Lemma pend_some {A} (a : A) l b r : pend a l = Some (b, r) -> b = a /\ l = [] /\ r = [].
Proof. destruct l; cbn; [|discriminate]. intro H. injection H. auto. Qed.
Lemma prep_length {A} (p : parser A) n : forall l xs r, prep p n l = Some (xs, r) -> length xs = n.
Proof.
  induction n as [|n IH]; cbn; intros l xs r H.
  - apply pret_some in H. destruct H as [-> _]. reflexivity.
  - apply pbind_some in H. destruct H as (a & r1 & _ & H). apply pbind_some in H. destruct H as (t & r2 & H & H').
    apply pret_some in H'. destruct H' as [-> _]. cbn. f_equal. eapply IH. exact H.
Qed.
Lemma plist_some {A} (p : parser A) l xs r :
  plist p l = Some (xs, r) -> exists n r0, l = n :: r0 /\ (0 <= n)%Z /\ prep p (Z.to_nat n) r0 = Some (xs, r) /\ Z.of_nat (length xs) = n.
Proof.
  destruct l as [|n r0]; cbn; [discriminate|].
  destruct ((n <? 0)%Z || (Z.of_nat (length r0) <? n)%Z) eqn:E; [discriminate|].
  apply Bool.orb_false_iff in E. destruct E as [E _]. apply Z.ltb_ge in E.
  intro H. exists n, r0. repeat split; auto. apply prep_length in H. lia.
Qed.
(* every element of a parsed list was produced by the element parser from a piece of the line *)
Lemma prep_Forall {A} (p : parser A) (P : A -> Prop) :
  (forall l a r, p l = Some (a, r) -> P a) -> forall n l xs r, prep p n l = Some (xs, r) -> Forall P xs.
Proof.
  intros HP. induction n as [|n IH]; cbn; intros l xs r H.
  - apply pret_some in H. destruct H as [-> _]. constructor.
  - apply pbind_some in H. destruct H as (a & r1 & Ha & H). apply pbind_some in H. destruct H as (t & r2 & H & H').
    apply pret_some in H'. destruct H' as [-> _]. constructor; [eapply HP; exact Ha | eapply IH; exact H].
Qed.

(* Proofs/CheckC02.v — (group hF) what an accepted verdict of check_C02 means.
   An accepted line (verdict code 0; check_C02 never returns 1) decodes to sizes and a tie vector inside
   the property's domain, no call panicked, and for EVERY queried u the observed PMF(u) and CDF(u) are
   within tol_prob = 1e-10 of  count / C(N1+N2, N1)  where count is the number of size-N1 subsets of the
   ranked pool (Spec/Ucount.v: count_eq / count_le over labellings) whose statistic 2U is = / <= the
   threshold u stands for; Bounds() = (0, N1*N2) and Step() = 1/2 exactly.  The conclusion mentions only
   observed numbers and Spec/Ucount.v: the table functions of Model/Udist.v that the comparator runs are
   eliminated with Proofs/UdistTable.v and Proofs/UdistUntied.v. *)
From Coq Require Import List ZArith Lia Arith Bool QArith Qround Lqa.
From MM Require Import Base.Num Base.GEComb Spec.Ucount Proofs.Ucount Model.GEChoose Model.Udist
  Proofs.Udist Proofs.UdistTied Proofs.UdistTable Proofs.UdistLaws Proofs.UdistUntied Proofs.UdistCor
  Check.C02 Proofs.CheckBase.
Import ListNotations.
Local Open Scope Q_scope.

(* ====================== the conclusion ====================== *)
Definition case02 : Type := (nat * nat * bool * list nat * list (Q * xreal * xreal) * (xreal * xreal * xreal) * Z)%type.

(* tie structure of the pooled sample, highest rank first: the tie vector reversed, or N1+N2 distinct
   values when there are no ties (T nil or all ones) *)
Definition pool_shape (N1 N2 : nat) (T : list nat) : list nat := if has_ties T then rev T else ones (N1 + N2).
(* the value of 2U that the real argument u stands for: with ties U moves in half-integer steps and the
   code takes int(2u); without ties U is an integer and the code takes int(u) *)
Definition twoU_of (T : list nat) (u : Q) : Z := if has_ties T then Qfloor (2 * u) else (2 * Qfloor u)%Z.

(* one queried point (u, observed PMF, observed CDF) against the counts of subsets of the pool z *)
Definition u_ok {X} (cmp : X -> X -> comparison) (z : list X) (N1 N2 : nat) (T : list nat) (it : Q * xreal * xreal) : Prop :=
  let '(u, op, oc) := it in
  let tot := C (N1 + N2) N1 in
  let w := twoU_of T u in
  exists p c, op = XFin p /\ oc = XFin c /\
    ((0 <= u /\ u < (1 # 2) + QN (N1 * N2)) -> Qabs (p - inject_Z (count_eq cmp z N1 w) / inject_Z tot) <= tol_prob) /\
    ((u < 0 \/ (1 # 2) + QN (N1 * N2) <= u) -> p == 0) /\
    Qabs (c - inject_Z (count_le cmp z N1 w) / inject_Z tot) <= tol_prob /\
    (u < 0 -> c == 0) /\ (QN (N1 * N2) <= u -> c == 1).

(* the property's domain *)
Definition tie_vector_ok (N1 N2 : nat) (tnil : bool) (T : list nat) : Prop :=
  (1 <= N1)%nat /\ (1 <= N2)%nat /\
  (if tnil then T = [] else (2 <= length T)%nat /\ Forall (fun t => (1 <= t)%nat) T /\ lsum T = (N1 + N2)%nat).

Definition obs_eq (e : Q) (o : xreal) : Prop := exists q, o = XFin q /\ q == e.

Definition case_ok (cs : case02) : Prop :=
  let '(N1, N2, tnil, T, us, (lo, hi, st), status) := cs in
  status = 0%Z /\ tie_vector_ok N1 N2 tnil T /\
  (forall X (cmp : X -> X -> comparison) (z : list X), grouped cmp (pool_shape N1 N2 T) z ->
     Forall (u_ok cmp z N1 N2 T) us) /\
  obs_eq 0 lo /\ obs_eq (QN (N1 * N2)) hi /\ obs_eq (1 # 2) st.

(* ====================== the table the comparator runs = the counts ====================== *)
Lemma has_ties_eff_T N1 N2 T : has_ties T = true -> eff_T N1 N2 T = T.
Proof. destruct T; [discriminate|reflexivity]. Qed.

Lemma dist_table_counts {X} (cmp : X -> X -> comparison) z N1 N2 T k :
  grouped cmp (pool_shape N1 N2 T) z ->
  coef (dist_table N1 N2 T) k = count_eq cmp z N1 (if has_ties T then k else 2 * k)%Z /\
  cum_at (cumsum 0 (dist_table N1 N2 T)) k = count_le cmp z N1 (if has_ties T then k else 2 * k)%Z.
Proof.
  unfold pool_shape, dist_table. destruct (has_ties T) eqn:HT; intros Hg.
  - rewrite <- (has_ties_eff_T N1 N2 T HT) in Hg.
    destruct (table_counts_subsets cmp N1 N2 T z k Hg) as [A B]. split; assumption.
  - destruct (untied_table_counts_subsets cmp N1 N2 z k Hg) as [A B]. split; assumption.
Qed.

Lemma pool_length {X} (cmp : X -> X -> comparison) z N1 N2 tnil T :
  tie_vector_ok N1 N2 tnil T -> grouped cmp (pool_shape N1 N2 T) z -> length z = (N1 + N2)%nat.
Proof.
  intros (_ & _ & HT) Hg. rewrite (grouped_length cmp _ _ Hg). unfold pool_shape.
  destruct (has_ties T) eqn:E; [|apply lsum_ones].
  rewrite lsum_rev. destruct tnil; [subst T; discriminate E|]. tauto.
Qed.

Lemma QN_nonneg n : 0 <= QN n.
Proof. unfold QN. change 0 with (inject_Z 0). rewrite <- Zle_Qle. lia. Qed.

(* below 0 *)
Lemma twoU_of_neg T u : u < 0 -> (twoU_of T u < 0)%Z.
Proof.
  intros H. unfold twoU_of. destruct (has_ties T); [apply Qfloor_neg; exact H|].
  assert (Qfloor u < 0)%Z by (apply Qfloor_lt_int; exact H). lia.
Qed.
(* from N1*N2 upward *)
Lemma twoU_of_top T (n : nat) u : QN n <= u -> (2 * Z.of_nat n <= twoU_of T u)%Z.
Proof.
  intros H. unfold twoU_of. destruct (has_ties T).
  - apply Qfloor_ge_int. rewrite <- QN_mul2. lra.
  - assert (Z.of_nat n <= Qfloor u)%Z by (apply Qfloor_ge_int; exact H). lia.
Qed.
(* from N1*N2 + 1/2 upward, with ties: one more *)
Lemma twoU_of_above_tied (n : nat) u : (1 # 2) + QN n <= u -> (2 * Z.of_nat n + 1 <= Qfloor (2 * u))%Z.
Proof.
  intros H. apply Qfloor_ge_int. rewrite inject_Z_plus, <- QN_mul2. change (inject_Z 1) with 1. lra.
Qed.

(* ====================== reading the comparator ====================== *)
Definition u_pass (N1 N2 : nat) (T : list nat) (tbl cs : list Z) (tot : Z) (it : Q * xreal * xreal) : Prop :=
  let '(u, op, oc) := it in
  xwithin (tol_pmf_at N1 N2 u) (XFin (fast_pmf N1 N2 T tbl tot u)) op = true /\
  xwithin (tol_cdf_at N1 N2 u) (XFin (fast_cdf N1 N2 T cs tot u)) oc = true.

Lemma cmp_us_none N1 N2 T tbl cs tot : forall us i,
  cmp_us N1 N2 T tbl cs tot us i = None -> Forall (u_pass N1 N2 T tbl cs tot) us.
Proof.
  induction us as [|[[u op] oc] rest IH]; intros i H; [constructor|].
  cbn [cmp_us] in H. cbv zeta in H.
  destruct (xwithin (tol_pmf_at N1 N2 u) (XFin (fast_pmf N1 N2 T tbl tot u)) op) eqn:P; cbn [negb] in H; [|discriminate H].
  destruct (xwithin (tol_cdf_at N1 N2 u) (XFin (fast_cdf N1 N2 T cs tot u)) oc) eqn:Q; cbn [negb] in H; [|discriminate H].
  constructor; [split; assumption|exact (IH _ H)].
Qed.

Lemma tol_prob_nonneg : 0 <= tol_prob.
Proof. unfold tol_prob, Qle. cbn. lia. Qed.
Lemma tol_pmf_at_inside N1 N2 u : 0 <= u -> u < (1 # 2) + QN (N1 * N2) -> tol_pmf_at N1 N2 u = tol_prob.
Proof.
  intros H0 H1. unfold tol_pmf_at. apply Qltb_false in H0. rewrite H0. cbn [orb].
  assert (E : Qleb ((1 # 2) + QN (N1 * N2)) u = false) by (apply Qleb_false; exact H1). rewrite E. reflexivity.
Qed.
Lemma tol_pmf_at_outside N1 N2 u : u < 0 \/ (1 # 2) + QN (N1 * N2) <= u -> tol_pmf_at N1 N2 u = 0.
Proof.
  intros [H|H]; unfold tol_pmf_at.
  - apply Qltb_true in H. rewrite H. reflexivity.
  - apply Qleb_true in H. rewrite H, orb_true_r. reflexivity.
Qed.
Lemma tol_cdf_at_le N1 N2 u : tol_cdf_at N1 N2 u <= tol_prob.
Proof. unfold tol_cdf_at. destruct (_ || _); [apply tol_prob_nonneg|apply Qle_refl]. Qed.
Lemma tol_cdf_at_outside N1 N2 u : u < 0 \/ QN (N1 * N2) <= u -> tol_cdf_at N1 N2 u = 0.
Proof.
  intros [H|H]; unfold tol_cdf_at.
  - apply Qltb_true in H. rewrite H. reflexivity.
  - apply Qleb_true in H. rewrite H, orb_true_r. reflexivity.
Qed.
Lemma Qabs_le0_eq a b : Qabs (a - b) <= 0 -> a == b.
Proof. intro H. apply Qabs_le0 in H. lra. Qed.

Section Point.
Context {X : Type} (cmp : X -> X -> comparison) (z : list X).
Variables (N1 N2 : nat) (tnil : bool) (T : list nat).
Hypothesis HV : tie_vector_ok N1 N2 tnil T.
Hypothesis HG : grouped cmp (pool_shape N1 N2 T) z.
Let tbl := dist_table N1 N2 T.
Let cs := cumsum 0 tbl.
Let tot := choosen (N1 + N2) N1.

Lemma tot_C : tot = C (N1 + N2) N1.
Proof. apply choose_C. Qed.
Lemma tot_nonzero : ~ inject_Z (C (N1 + N2) N1) == 0.
Proof. apply inject_Z_nonzero. apply C_pos. lia. Qed.

Lemma fast_pmf_inside u : 0 <= u -> u < (1 # 2) + QN (N1 * N2) ->
  fast_pmf N1 N2 T tbl tot u = inject_Z (count_eq cmp z N1 (twoU_of T u)) / inject_Z (C (N1 + N2) N1).
Proof.
  intros H0 H1. unfold fast_pmf.
  apply Qltb_false in H0. rewrite H0. cbn [orb].
  assert (E : Qleb ((1 # 2) + QN (N1 * N2)) u = false) by (apply Qleb_false; exact H1). rewrite E.
  unfold twoU_of, qcount. rewrite tot_C. unfold tbl.
  destruct (has_ties T) eqn:HT.
  - destruct (dist_table_counts cmp z N1 N2 T (Qfloor (2 * u)) HG) as [A _]. rewrite HT in A. rewrite A. reflexivity.
  - destruct (dist_table_counts cmp z N1 N2 T (Qfloor u) HG) as [A _]. rewrite HT in A. rewrite A. reflexivity.
Qed.

Lemma fast_pmf_outside u : u < 0 \/ (1 # 2) + QN (N1 * N2) <= u -> fast_pmf N1 N2 T tbl tot u = 0.
Proof.
  intros [H|H]; unfold fast_pmf.
  - apply Qltb_true in H. rewrite H. reflexivity.
  - apply Qleb_true in H. rewrite H, orb_true_r. reflexivity.
Qed.

Lemma fast_cdf_count u :
  fast_cdf N1 N2 T cs tot u == inject_Z (count_le cmp z N1 (twoU_of T u)) / inject_Z (C (N1 + N2) N1).
Proof.
  pose proof (pool_length cmp z N1 N2 tnil T HV HG) as HL.
  unfold fast_cdf. destruct (Qltb u 0) eqn:E0.
  { apply Qltb_true in E0. rewrite (count_le_neg cmp z N1 _ (twoU_of_neg T u E0)). apply qdiv0. }
  destruct (Qleb (QN (N1 * N2)) u) eqn:E1.
  { apply Qleb_true in E1. pose proof (twoU_of_top T (N1 * N2) u E1) as Hw.
    rewrite (count_le_top cmp z N1 (twoU_of T u)).
    - rewrite HL. apply qdiv1. apply tot_nonzero.
    - lia.
    - rewrite HL. replace (N1 + N2 - N1)%nat with N2 by lia. rewrite Nat2Z.inj_mul in Hw. lia. }
  unfold twoU_of, qcount. rewrite tot_C. unfold cs, tbl.
  destruct (has_ties T) eqn:HT.
  - destruct (dist_table_counts cmp z N1 N2 T (Qfloor (2 * u)) HG) as [_ B]. rewrite HT in B. rewrite B. reflexivity.
  - destruct (dist_table_counts cmp z N1 N2 T (Qfloor u) HG) as [_ B]. rewrite HT in B. rewrite B. reflexivity.
Qed.

Lemma u_pass_ok it : u_pass N1 N2 T tbl cs tot it -> u_ok cmp z N1 N2 T it.
Proof.
  destruct it as [[u op] oc]. cbn. intros [P Q].
  apply xwithin_fin in P. destruct P as (p & -> & P). apply xwithin_fin in Q. destruct Q as (c & -> & Q).
  exists p, c. split; [reflexivity|]. split; [reflexivity|]. split; [|split; [|split; [|split]]].
  - intros [H0 H1]. rewrite (fast_pmf_inside u H0 H1), (tol_pmf_at_inside N1 N2 u H0 H1) in P. exact P.
  - intros H. rewrite (fast_pmf_outside u H), (tol_pmf_at_outside N1 N2 u H) in P. apply Qabs_le0_eq. exact P.
  - rewrite fast_cdf_count in Q. eapply Qle_trans; [exact Q|apply tol_cdf_at_le].
  - intros H. rewrite (tol_cdf_at_outside N1 N2 u (or_introl H)) in Q. apply Qabs_le0_eq in Q. rewrite Q.
    unfold fast_cdf. apply Qltb_true in H. rewrite H. reflexivity.
  - intros H. rewrite (tol_cdf_at_outside N1 N2 u (or_intror H)) in Q. apply Qabs_le0_eq in Q. rewrite Q.
    unfold fast_cdf. destruct (Qltb u 0) eqn:E0.
    + apply Qltb_true in E0. pose proof (QN_nonneg (N1 * N2)). lra.
    + apply Qleb_true in H. rewrite H. reflexivity.
Qed.
End Point.

(* ====================== the whole check ====================== *)
Lemma valid_T_sound n1 n2 tnil T : C02.valid_T n1 n2 tnil T = true -> tie_vector_ok n1 n2 tnil T.
Proof.
  unfold C02.valid_T, tie_vector_ok. intro H. apply andb_prop in H. destruct H as [H H3].
  apply andb_prop in H. destruct H as [H1 H2]. apply Nat.leb_le in H1, H2.
  split; [exact H1|]. split; [exact H2|].
  destruct tnil.
  - destruct T; [reflexivity|discriminate H3].
  - apply andb_prop in H3. destruct H3 as [H3 H5]. apply andb_prop in H3. destruct H3 as [H3 H4].
    apply Nat.leb_le in H3. apply Nat.eqb_eq in H5. split; [exact H3|]. split; [|exact H5].
    apply Forall_forall. intros t Ht. rewrite forallb_forall in H4. specialize (H4 t Ht). now apply Nat.leb_le in H4.
Qed.

Theorem check_ok_sound line code tag pos diag (cs : case02) :
  check_C02 line = verdict code tag pos diag -> (code = 0 \/ code = 1)%Z ->
  p_line02 line = Some (cs, []) -> case_ok cs.
Proof.
  unfold check_C02. intros H Hc P. rewrite P in H.
  destruct cs as [[[[[[N1 N2] tnil] T] us] [[lo hi] st]] status].
  destruct (C02.valid_T N1 N2 tnil T) eqn:V; cbn [negb] in H;
    [|apply verdict_inj in H; unfold V_MALFORMED in H; lia].
  apply valid_T_sound in V.
  destruct (status =? 0)%Z eqn:S; cbn [negb] in H; [|apply verdict_inj in H; unfold V_MISMATCH in H; lia].
  apply Z.eqb_eq in S. cbv zeta in H.
  destruct (cmp_us N1 N2 T (dist_table N1 N2 T) (cumsum 0 (dist_table N1 N2 T)) (choosen (N1 + N2) N1) us 0) as [[[i wh] e]|] eqn:CU;
    [apply verdict_inj in H; unfold V_MISMATCH in H; lia|].
  unfold udist_bounds, udist_step in H.
  destruct (xeq (XFin 0) lo && xeq (XFin (QN (N1 * N2))) hi) eqn:B; cbn [negb] in H;
    [|apply verdict_inj in H; unfold V_MISMATCH in H; lia].
  destruct (xeq (XFin (1 # 2)) st) eqn:St; cbn [negb] in H;
    [|apply verdict_inj in H; unfold V_MISMATCH in H; lia].
  apply andb_prop in B. destruct B as [B1 B2].
  unfold case_ok. split; [exact S|]. split; [exact V|]. split.
  - intros X cmp z Hg. apply cmp_us_none in CU. eapply Forall_impl; [|exact CU].
    intros it. apply (u_pass_ok cmp z N1 N2 tnil T V Hg).
  - split; [apply xeq_fin; exact B1|]. split; [apply xeq_fin; exact B2|apply xeq_fin; exact St].
Qed.

(* an accepted line always parses completely *)
Lemma p_line02_rest line cs r : p_line02 line = Some (cs, r) -> r = [].
Proof.
  unfold p_line02. intro H. apply pbind_some in H. destruct H as (tg & r0 & _ & H).
  destruct (negb (tg =? 2)%Z); [discriminate H|].
  repeat (apply pbind_some in H; destruct H as (? & ? & _ & H)). apply pend_some in H. tauto.
Qed.

Theorem check_accepted_parses line code tag pos diag :
  check_C02 line = verdict code tag pos diag -> (code = 0 \/ code = 1)%Z -> exists cs, p_line02 line = Some (cs, []).
Proof.
  unfold check_C02. intros H Hc. destruct (p_line02 line) as [[cs r]|] eqn:P.
  - exists cs. rewrite (p_line02_rest _ _ _ P). reflexivity.
  - apply verdict_inj in H. unfold V_MALFORMED in H. lia.
Qed.

(* with ties the PMF comparison is against the count at EVERY real u (the guard adds nothing):
   below 0 and from N1*N2 + 1/2 upward no subset has that 2U *)
Lemma count_eq_zero_outside {X} (cmp : X -> X -> comparison) z N1 N2 w :
  length z = (N1 + N2)%nat -> (w < 0 \/ 2 * Z.of_nat (N1 * N2) < w)%Z -> count_eq cmp z N1 w = 0%Z.
Proof.
  intros HL Hw. rewrite count_eq_diff. destruct Hw as [Hw|Hw].
  - rewrite !count_le_neg by lia. reflexivity.
  - rewrite !(count_le_top cmp z N1); try lia; rewrite HL; replace (N1 + N2 - N1)%nat with N2 by lia;
      rewrite Nat2Z.inj_mul in Hw; lia.
Qed.

Theorem u_ok_tied_uniform {X} (cmp : X -> X -> comparison) z N1 N2 tnil T u p oc :
  tie_vector_ok N1 N2 tnil T -> grouped cmp (pool_shape N1 N2 T) z -> has_ties T = true ->
  u_ok cmp z N1 N2 T (u, XFin p, oc) ->
  Qabs (p - inject_Z (count_eq cmp z N1 (Qfloor (2 * u))) / inject_Z (C (N1 + N2) N1)) <= tol_prob.
Proof.
  intros HV HG HT (p' & c & Ep & _ & In & Out & _). injection Ep as <-.
  assert (Z0 : forall q, q == 0 -> Qabs (q - 0) <= tol_prob).
  { intros q E. rewrite E. apply tol_prob_nonneg. }
  pose proof (pool_length cmp z N1 N2 tnil T HV HG) as HL.
  unfold twoU_of in In. rewrite HT in In.
  destruct (Qlt_le_dec u 0) as [L|L].
  { rewrite (count_eq_zero_outside cmp z N1 N2 _ HL) by (left; apply Qfloor_neg; exact L).
    rewrite <- qdiv0. apply Z0. apply Out. left. exact L. }
  destruct (Qlt_le_dec u ((1 # 2) + QN (N1 * N2))) as [L2|L2]; [apply In; split; assumption|].
  rewrite (count_eq_zero_outside cmp z N1 N2 _ HL) by (right; pose proof (twoU_of_above_tied (N1 * N2) u L2); lia).
  rewrite <- qdiv0. apply Z0. apply Out. right. exact L2.
Qed.

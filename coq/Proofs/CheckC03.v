(* Proofs/CheckC03.v (group hD) — soundness of the C03 comparator (a family of runs): an accepted case
   means every run of the family was accepted, with the meaning given in Proofs/CheckMw.v. *)
From Coq Require Import List ZArith Lia Bool QArith.
From MM Require Import Base.Num Model.Udist Model.Utest Check.GEMw Check.C03 Proofs.CheckMw.
Import ListNotations.
Open Scope Z_scope.

Definition run_ok (run : mwrun) : Prop :=
  r_pure run = 1 /\
  Forall (fun c => call_ok (mw_test Qcompare udist_cdf (r_EL run) (r_TL run) (r_x1 run) (r_x2 run) (c_alt c)) c) (r_calls run).
Definition run_accepted (run : mwrun) : Prop :=
  r_pure run = 1 /\
  Forall (fun c => let r := mw_test Qcompare udist_cdf (r_EL run) (r_TL run) (r_x1 run) (r_x2 run) (c_alt c) in
                   call_ok r c \/
                   (call_d2 r c /\ c_alt c = 0 /\
                    rev (ms_T (mw_stat Qcompare (r_x1 run) (r_x2 run))) <> ms_T (mw_stat Qcompare (r_x1 run) (r_x2 run))))
         (r_calls run).

Lemma cmp_calls_some run empty s cdf : forall cs i code tag cd tg x,
  cmp_calls run empty s cdf cs i code tag = (cd, tg, Some x) -> cd = V_MISMATCH.
Proof.
  induction cs as [|c cs IH]; intros i code tag cd tg x H; cbn [cmp_calls] in H; [discriminate H|].
  destruct (cmp_call _ c) as [[cd' w] e]. destruct (Z.eqb_spec cd' V_MISMATCH); [inversion H; reflexivity|eauto].
Qed.
Lemma cmp_calls_nonneg run empty s cdf : forall cs i code tag cd tg o,
  cmp_calls run empty s cdf cs i code tag = (cd, tg, o) -> 0 <= code -> 0 <= cd.
Proof.
  induction cs as [|c cs IH]; intros i code tag cd tg o H Hc; cbn [cmp_calls] in H; [inversion H; subst; exact Hc|].
  pose proof (cmp_call_codes (mw_test_s cdf (r_EL run) (r_TL run) empty s (c_alt c)) c) as Hcodes.
  destruct (cmp_call _ c) as [[cd' w] e]. destruct (Z.eqb_spec cd' V_MISMATCH).
  - inversion H; subst. unfold V_MISMATCH. lia.
  - eapply IH; [exact H|]. destruct Hcodes as [->|[->| ->]]; unfold V_OK, V_MISMATCH, V_KNOWN_D2; lia.
Qed.
Lemma check_run_some run cd tg x : check_run run = (cd, tg, Some x) -> cd = V_MISMATCH.
Proof.
  unfold check_run. destruct (negb _); [intros H; inversion H; reflexivity|]. apply cmp_calls_some.
Qed.
Lemma check_run_nonneg run cd tg o : check_run run = (cd, tg, o) -> 0 <= cd.
Proof.
  unfold check_run. destruct (negb _); [intros H; inversion H; unfold V_MISMATCH; lia|].
  intros H. eapply cmp_calls_nonneg; [exact H|unfold V_OK; lia].
Qed.

Theorem check_runs_accept_sound : forall rs i code tag code' tag',
  check_runs rs i code tag = (code', tag', None) -> Forall run_accepted rs.
Proof.
  induction rs as [|r rs IH]; intros i code tag code' tag' H; cbn [check_runs] in H; [constructor|].
  destruct (check_run r) as [[cd tg] [[[j w] e]|]] eqn:Er.
  - rewrite (check_run_some _ _ _ _ Er) in H. cbn in H. discriminate H.
  - constructor; [exact (check_run_accept_sound r cd tg Er)|eapply IH; exact H].
Qed.
Theorem check_runs_ok_sound : forall rs i code tag tag',
  check_runs rs i code tag = (V_OK, tag', None) -> 0 <= code -> code = V_OK /\ Forall run_ok rs.
Proof.
  induction rs as [|r rs IH]; intros i code tag tag' H Hc; cbn [check_runs] in H.
  - inversion H; subst. split; [reflexivity|constructor].
  - destruct (check_run r) as [[cd tg] [[[j w] e]|]] eqn:Er.
    + rewrite (check_run_some _ _ _ _ Er) in H. cbn in H. discriminate H.
    + pose proof (check_run_nonneg _ _ _ _ Er) as Hcd.
      apply IH in H; [|lia]. destruct H as [Hmax HF].
      assert (code = V_OK /\ cd = V_OK) as [-> ->] by (unfold V_OK in *; lia).
      split; [reflexivity|]. constructor; [exact (check_run_ok_sound r tg Er)|exact HF].
Qed.

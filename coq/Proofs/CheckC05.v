(* Proofs/CheckC05.v — what an accepted C05 case line means, for the three sub-checks whose expected
   values are exact in the model: DeltaDist (op 5), Rand (op 3) and the CDF monotonicity scan (op 6).
   (The normal and t grids, ops 1/2/4, are laws on observed outputs plus certificate goals; see
   Check/C05.v.)  Nothing here mentions the generator: the statements hold for every line. *)
From Coq Require Import List ZArith QArith Qabs Bool Lia.
From MM Require Import Base.Num Base.GoSem Model.Dists Check.C05.
Import ListNotations.
Local Open Scope Q_scope.

(* [xsame] is equality of extended values up to Qeq on the finite ones *)
Definition xsame_spec (a b : xreal) : Prop :=
  match a, b with
  | XNaN, XNaN => True
  | XInf s, XInf t => s = t
  | XFin p, XFin q => p == q
  | _, _ => False
  end.
Lemma xsame_sound a b : xsame a b = true -> xsame_spec a b.
Proof.
  destruct a as [| s | p], b as [| t | q]; cbn; try discriminate; try (intros _; exact I).
  - intro H. apply Bool.eqb_prop in H. exact H.
  - intro H. apply Qeqb_iff in H. exact H.
Qed.

Definition delta_pt_ok (T : xreal) (r : xreal * xreal * xreal) : Prop :=
  let '(x, p, c) := r in xsame_spec (delta_pdf T x) p /\ xsame_spec (delta_cdf T x) c.
Definition delta_inv_ok (T : xreal) (r : xreal * xreal) : Prop :=
  let '(y, v) := r in xsame_spec (delta_invcdf T y) v.

Lemma check_delta_pts_sound T pts : forall i, check_delta_pts T pts i = None -> Forall (delta_pt_ok T) pts.
Proof.
  induction pts as [| [[x p] c] t IH]; intros i H; [constructor |].
  cbn [check_delta_pts] in H.
  destruct (xsame (delta_pdf T x) p) eqn:E1; cbn [negb] in H; [| discriminate].
  destruct (xsame (delta_cdf T x) c) eqn:E2; cbn [negb] in H; [| discriminate].
  constructor; [| exact (IH _ H)].
  split; apply xsame_sound; assumption.
Qed.

Lemma check_delta_inv_sound T pts : forall i, check_delta_inv T pts i = None -> Forall (delta_inv_ok T) pts.
Proof.
  induction pts as [| [y v] t IH]; intros i H; [constructor |].
  cbn [check_delta_inv] in H.
  destruct (xsame (delta_invcdf T y) v) eqn:E1; [| discriminate].
  constructor; [| exact (IH _ H)].
  apply xsame_sound; exact E1.
Qed.

(* Rand: every reported draw is a finite number within 2 ulp-scale of mu + sigma z *)
Definition rand_pt_ok (mu sigma : Q) (r : xreal * xreal) : Prop :=
  exists z o, r = (XFin z, XFin o) /\
    Qabs (o - normal_rand mu sigma z) <= 2 * eps52 * (Qabs (z * sigma) + Qabs (normal_rand mu sigma z)).
Lemma check_rand_sound mu sigma pts : forall i, check_rand mu sigma pts i = None -> Forall (rand_pt_ok mu sigma) pts.
Proof.
  induction pts as [| [a b] t IH]; intros i H; [constructor |].
  destruct a as [| sa | z]; try discriminate H.
  destruct b as [| sb | o]; try discriminate H.
  cbn [check_rand] in H.
  destruct (within _ _ o) eqn:E; [| discriminate].
  constructor; [| exact (IH _ H)].
  exists z, o. split; [reflexivity |].
  unfold within in E. apply Qle_bool_iff in E. exact E.
Qed.

(* scan: every reported pair is finite, has values in [0,1] and is ordered up to 1e-12 *)
Definition scan_pt_ok (r : xreal * xreal * xreal * xreal) : Prop :=
  exists a b fa fb, r = (XFin a, XFin b, XFin fa, XFin fb) /\
    (0 <= fa <= 1) /\ (0 <= fb <= 1) /\
    (a < b -> fa - tol_law <= fb) /\ (b < a -> fb - tol_law <= fa).
Lemma in01_sound v : in01 v = true -> 0 <= v <= 1.
Proof.
  unfold in01. intro H. apply andb_true_iff in H. destruct H as [H1 H2].
  split; apply Qleb_iff; assumption.
Qed.
Lemma check_scan_sound pts : forall i, check_scan pts i = None -> Forall scan_pt_ok pts.
Proof.
  induction pts as [| [[[a b] fa] fb] t IH]; intros i H; [constructor |].
  destruct a as [| sa | a]; try discriminate H.
  destruct b as [| sb | b]; try discriminate H.
  destruct fa as [| sfa | fa]; try discriminate H.
  destruct fb as [| sfb | fb]; try discriminate H.
  cbn [check_scan] in H.
  destruct (in01 fa && in01 fb) eqn:E0; cbn [negb] in H; [| discriminate].
  destruct (Qltb a b && negb (Qleb (fa - tol_law) fb)) eqn:E1; [discriminate |].
  destruct (Qltb b a && negb (Qleb (fb - tol_law) fa)) eqn:E2; [discriminate |].
  constructor; [| exact (IH _ H)].
  exists a, b, fa, fb. split; [reflexivity |].
  apply andb_true_iff in E0. destruct E0 as [Ea Eb].
  split; [exact (in01_sound _ Ea) |]. split; [exact (in01_sound _ Eb) |].
  split; intro Hlt.
  - apply andb_false_iff in E1. destruct E1 as [E1 | E1].
    + apply Qltb_niff in E1. exfalso. exact (Qlt_not_le _ _ Hlt E1).
    + apply negb_false_iff in E1. apply Qleb_iff in E1. exact E1.
  - apply andb_false_iff in E2. destruct E2 as [E2 | E2].
    + apply Qltb_niff in E2. exfalso. exact (Qlt_not_le _ _ Hlt E2).
    + apply negb_false_iff in E2. apply Qleb_iff in E2. exact E2.
Qed.

(* ---------- the verdict level ---------- *)
Lemma verdict_code c t p d c' t' p' d' : verdict c t p d = verdict c' t' p' d' -> c = c'.
Proof. unfold verdict. intro H. injection H. auto. Qed.

Definition case05_exact_ok (c : c05case) : Prop :=
  match c with
  | KDelta T lo hi pts inv => Forall (delta_pt_ok (XFin T)) pts /\ Forall (delta_inv_ok (XFin T)) inv
  | KRand mu sg pts => Forall (rand_pt_ok mu sg) pts
  | KScan fn p1 p2 lo hi n pts => pts <> [] /\ Forall scan_pt_ok pts
  | _ => True
  end.

Theorem check_exact_ok_sound line tag pos diag c r :
  check_C05 line = verdict V_OK tag pos diag -> p_line line = Some (c, r) -> case05_exact_ok c.
Proof.
  unfold check_C05. intros H P. rewrite P in H.
  destruct c as [mu sg me va lo hi pts | mu sg pts | mu sg pts | v lo hi pts | T lo hi pts inv | fn p1 p2 lo hi n pts];
    cbn [case05_exact_ok]; try exact I.
  - destruct (check_rand mu sg pts 0) eqn:E.
    + apply verdict_code in H. discriminate H.
    + exact (check_rand_sound _ _ _ _ E).
  - destruct (delta_bounds T) as [elo ehi].
    destruct (negb _); [apply verdict_code in H; discriminate H |].
    destruct (check_delta_pts (XFin T) pts 0) as [[i cc] |] eqn:E1; [apply verdict_code in H; discriminate H |].
    destruct (check_delta_inv (XFin T) inv 0) as [[i cc] |] eqn:E2; [apply verdict_code in H; discriminate H |].
    split; [exact (check_delta_pts_sound _ _ _ E1) | exact (check_delta_inv_sound _ _ _ E2)].
  - destruct (negb _); [apply verdict_code in H; discriminate H |].
    destruct pts as [| pt pts']; [apply verdict_code in H; discriminate H |].
    destruct (check_scan (pt :: pts') 0) as [[i cc] |] eqn:E; [apply verdict_code in H; discriminate H |].
    split; [discriminate | exact (check_scan_sound _ _ E)].
Qed.

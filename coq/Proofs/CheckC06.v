(* Proofs/CheckC06.v — (group hF) what an accepted verdict of check_C06 means.
   An accepted line (verdict code 0; check_C06 never returns 1) decodes to a distribution inside the
   property's parameter range, and EVERY observed number on it — Mean, Variance, NormalApprox, Bounds,
   Step and, for every queried k, PMF(k) and CDF(k) — is within the named tolerance of (or exactly equal
   to) the value the property states, written with Spec/C06Prob.v only (Pascal's binomial coefficient,
   sums over integer ranges): the functions of Model/ do not occur in the conclusion.  The proof composes
   the reading of the comparator (this file) with table = model (Proofs/C06Table.v) and with
   model = specification (Proofs/Binom.v, Proofs/Hyperg.v, Proofs/Choose.v). *)
From MM Require Import Base.Num Base.GFSum Base.GFComb Model.Choose Model.Binom Model.Hyperg.
From MM Require Import Proofs.Choose Proofs.Binom Proofs.Hyperg Check.C06 Proofs.C06Table Proofs.CheckBase Proofs.C06Encl.
From MM Require Import Spec.C06Prob.
From Coq Require Import Lqa Lia Qround.
Local Open Scope Q_scope.

(* ====================== the conclusion, as readable predicates ====================== *)
(* an observed float that must be the number e up to tol_moment_rel (relative) *)
Definition obs_rel (e : Q) (o : xreal) : Prop :=
  exists q, o = XFin q /\ Qabs (q - e) <= tol_moment_rel * Qabs e.
(* an observed float that must be the square root of v: non-negative, its square within 2 tol_moment_rel v *)
Definition obs_sqrt (v : Q) (o : xreal) : Prop :=
  exists s, o = XFin s /\ 0 <= s /\ Qabs (s * s - v) <= 2 * tol_moment_rel * v.
(* an observed float that must be exactly the integer z *)
Definition obs_is (z : Z) (o : xreal) : Prop := exists q, o = XFin q /\ q == inject_Z z.
(* observed PMF at floor k = ki: within tol_abs of the probability, exactly 0 outside lo..hi *)
Definition pmf_obs_ok (pr : Z -> Q) (lo hi ki : Z) (o : xreal) : Prop :=
  exists q, o = XFin q /\ Qabs (q - pr ki) <= tol_abs /\ ((ki < lo \/ hi < ki)%Z -> q == 0).
(* observed CDF at floor k = ki: within tol_abs of the sum of the probabilities of lo..ki,
   exactly 0 below lo, exactly 1 from hi *)
Definition cdf_obs_ok (pr : Z -> Q) (lo hi ki : Z) (o : xreal) : Prop :=
  exists q, o = XFin q /\ Qabs (q - cdf_sum pr lo ki) <= tol_abs /\
            ((ki < lo)%Z -> q == 0) /\ ((hi <= ki)%Z -> q == 1).
(* one item of the line: the bit patterns of k, PMF(k), CDF(k) *)
Definition item_ok (pr : Z -> Q) (lo hi : Z) (it : Z * Z * Z) : Prop :=
  let '(kb, pb, cb) := it in
  exists k, decode_bits kb = XFin k /\
            pmf_obs_ok pr lo hi (Qfloor k) (decode_bits pb) /\
            cdf_obs_ok pr lo hi (Qfloor k) (decode_bits cb).

Definition bin_case_ok (c : bin_case) : Prop :=
  let n := b_n c in let p := b_p c in let pr := bin_prob n p in
  (0 <= n)%Z /\ 0 <= p <= 1 /\
  obs_rel (moment1 pr 0 n) (b_mean c) /\ obs_rel (cmoment2 pr 0 n) (b_var c) /\
  obs_rel (moment1 pr 0 n) (b_mu c) /\ obs_sqrt (cmoment2 pr 0 n) (b_sigma c) /\
  obs_is 0 (b_lo c) /\ obs_is n (b_hi c) /\ obs_is 1 (b_step c) /\
  Forall (item_ok pr 0 n) (b_items c).

Definition hg_case_ok (c : hg_case) : Prop :=
  let N := h_N c in let K := h_K c in let n := h_n c in let pr := hg_prob N K n in
  let lo := Z.max 0 (n + K - N) in let hi := Z.min n K in
  (2 <= N)%Z /\ (0 <= K <= N)%Z /\ (0 <= n <= N)%Z /\
  obs_rel (moment1 pr lo hi) (h_mean c) /\ obs_rel (cmoment2 pr lo hi) (h_var c) /\
  obs_is lo (h_lo c) /\ obs_is hi (h_hi c) /\ obs_is 1 (h_step c) /\
  Forall (item_ok pr lo hi) (h_items c).

(* a line on which some call panicked is never accepted *)
Definition case_ok (cs : c06case) : Prop :=
  match cs with CPanic _ _ => False | CBin c => bin_case_ok c | CHg c => hg_case_ok c end.

(* ====================== specification = model ====================== *)
Lemma bin_prob_model n p k : (0 <= n)%Z -> bin_prob n p k == binom_pmf_i n p k.
Proof.
  intros Hn. unfold bin_prob, binom_pmf_i.
  destruct (Z.ltb_spec k 0) as [L|L]; [reflexivity|]. destruct (Z.ltb_spec n k) as [L2|L2]; [reflexivity|].
  cbn [orb]. unfold bterm. rewrite (choose_Z n k) by lia.
  replace (Z.to_nat (n - k)) with (Z.to_nat n - Z.to_nat k)%nat by lia. reflexivity.
Qed.

Lemma bin_moment1_model n p : (0 <= n)%Z -> moment1 (bin_prob n p) 0 n == binom_mean n p.
Proof.
  intros Hn. pose proof (binom_mean_is_first_moment (Z.to_nat n) p) as H. rewrite Z2Nat.id in H by assumption.
  rewrite <- H. unfold moment1. apply Qsum_range_ext. intros j _. rewrite bin_prob_model by assumption. reflexivity.
Qed.

Lemma bin_cmoment2_model n p : (0 <= n)%Z -> cmoment2 (bin_prob n p) 0 n == binom_var n p.
Proof.
  intros Hn. pose proof (binom_variance_is_second_central_moment (Z.to_nat n) p) as H.
  rewrite Z2Nat.id in H by assumption. rewrite <- H. unfold cmoment2. apply Qsum_range_ext. intros j _.
  rewrite bin_moment1_model, bin_prob_model by assumption. reflexivity.
Qed.

Lemma bin_cdf_model n p ki : (0 <= n)%Z -> cdf_sum (bin_prob n p) 0 ki == binom_cdf_i n p ki.
Proof.
  intros Hn. rewrite binom_cdf_i_is_sum_Z by assumption. unfold cdf_sum. apply Qsum_range_ext.
  intros j _. apply bin_prob_model. assumption.
Qed.

Lemma Qdiv_0_num x : inject_Z 0 / x == 0.
Proof. unfold Qdiv. apply Qmult_0_l. Qed.

Lemma hg_prob_model N K n k : hg_valid N K n -> hg_prob N K n k == hg_pmf_i N K n k.
Proof.
  intros [[HK1 HK2] [Hn1 Hn2]]. unfold hg_prob, hg_pmf_i, hg_num.
  destruct (Z.ltb_spec k 0) as [L|L].
  { cbn [orb]. rewrite (choose_neg K k) by lia. rewrite Z.mul_0_l. symmetry. apply Qdiv_0_num. }
  destruct (Z.ltb_spec n k) as [L2|L2].
  { cbn [orb]. rewrite (choose_neg (N - K) (n - k)) by lia. rewrite Z.mul_0_r. symmetry. apply Qdiv_0_num. }
  cbn [orb]. rewrite (choose_Z K k), (choose_Z (N - K) (n - k)), (choose_Z N n) by lia. reflexivity.
Qed.

Lemma hg_prob_outside N K n k : hg_valid N K n -> (k < hg_lo N K n \/ hg_hi N K n < k)%Z -> hg_prob N K n k == 0.
Proof.
  intros Hv Hk. rewrite hg_prob_model by assumption. unfold hg_pmf_i.
  rewrite (hg_num_outside N K n Hv k Hk). apply Qdiv_0_num.
Qed.

Lemma hg_moment1_model N K n : hg_valid N K n -> (0 < N)%Z ->
  moment1 (hg_prob N K n) (hg_lo N K n) (hg_hi N K n) == hg_mean N K n.
Proof.
  intros Hv HN. rewrite <- (hg_mean_is_first_moment N K n Hv HN). unfold moment1. apply Qsum_range_ext.
  intros j _. rewrite hg_prob_model by assumption. reflexivity.
Qed.

Lemma hg_cmoment2_model N K n : hg_valid N K n -> (2 <= N)%Z ->
  cmoment2 (hg_prob N K n) (hg_lo N K n) (hg_hi N K n) == hg_var N K n.
Proof.
  intros Hv HN. rewrite <- (hg_variance_is_second_central_moment N K n Hv HN). unfold cmoment2.
  apply Qsum_range_ext. intros j _. rewrite hg_moment1_model, hg_prob_model by (assumption || lia). reflexivity.
Qed.

Lemma hg_cdf_model N K n ki : hg_valid N K n -> cdf_sum (hg_prob N K n) (hg_lo N K n) ki == hg_cdf_i N K n ki.
Proof.
  intros Hv. rewrite hg_cdf_i_is_sum by assumption. unfold cdf_sum. apply Qsum_range_ext. intros j _.
  rewrite hg_pmf_inject.
  destruct (Z.ltb_spec j (hg_lo N K n)) as [L|L]; [cbn [orb]; apply hg_prob_outside; [assumption|lia]|].
  destruct (Z.ltb_spec (hg_hi N K n) j) as [L2|L2]; [cbn [orb]; apply hg_prob_outside; [assumption|lia]|].
  cbn [orb]. apply hg_prob_model. assumption.
Qed.

(* ====================== reading the comparators ====================== *)
Lemma first_false_none7 a b c d e f g : first_false [a; b; c; d; e; f; g] = None ->
  a = true /\ b = true /\ c = true /\ d = true /\ e = true /\ f = true /\ g = true.
Proof. destruct a, b, c, d, e, f, g; cbn; intro H; try discriminate H; repeat split. Qed.

Lemma xclose_rel_sound rel e o : xclose_rel rel e o = true -> exists q, o = XFin q /\ Qabs (q - e) <= rel * Qabs e.
Proof.
  destruct o as [| |q]; cbn; try discriminate. intro H. exists q. split; [reflexivity|].
  apply close_sound in H. now rewrite Qplus_0_l in H.
Qed.
Lemma xis_sound z o : xis z o = true -> obs_is z o.
Proof. unfold xis, obs_is. apply xeq_fin. Qed.
Lemma is_zero_sound o : is_zero o = true -> exists q, o = XFin q /\ q == 0.
Proof.
  destruct o as [| |q]; cbn; try discriminate. intro H. apply Z.eqb_eq in H. exists q. split; [reflexivity|].
  unfold Qeq. cbn. lia.
Qed.
Lemma is_one_sound o : is_one o = true -> exists q, o = XFin q /\ q == 1.
Proof. destruct o as [| |q]; cbn; try discriminate. intro H. apply Qeq_bool_iff in H. eauto. Qed.
Lemma tab_close_fin t l i o : tab_close t l i o = true -> exists q, o = XFin q.
Proof. destruct o as [| |q]; cbn; try discriminate. eauto. Qed.

Lemma obs_rel_wd e e' o : e == e' -> obs_rel e o -> obs_rel e' o.
Proof. intros E (q & -> & H). exists q. split; [reflexivity|]. now rewrite <- E. Qed.
Lemma obs_sqrt_wd v v' o : v == v' -> obs_sqrt v o -> obs_sqrt v' o.
Proof. intros E (s & -> & H0 & H). exists s. split; [reflexivity|]. split; [assumption|]. now rewrite <- E. Qed.

Lemma Qabs_eq0_le a b tol : a == b -> 0 <= tol -> Qabs (a - b) <= tol.
Proof.
  intros E Ht. assert (Z0 : a - b == 0) by (rewrite E; ring). rewrite Z0. exact Ht.
Qed.
Lemma tol_abs_nonneg : 0 <= tol_abs.
Proof. unfold tol_abs, Qle. cbn. lia. Qed.

(* ====================== the items ====================== *)
Section Items.
Variables (d : dist) (t : table) (pr : Z -> Q).
Let lo := t_lo t.
Let hi := t_hi t.
(* what the table look-ups mean (supplied per distribution from Proofs/C06Table.v) *)
Hypothesis Hpmf : forall ki obs, (lo <= ki <= hi)%Z ->
  tab_close t (t_w t) (ki - lo) (XFin obs) = true -> Qabs (obs - pr ki) <= tol_abs.
Hypothesis Hcdf : forall ki obs, (lo <= ki < hi)%Z ->
  tab_close t (t_cum t) (ki - lo) (XFin obs) = true -> Qabs (obs - cdf_sum pr lo ki) <= tol_abs.
Hypothesis Hout : forall ki, (ki < lo \/ hi < ki)%Z -> pr ki == 0.
Hypothesis Htop : forall ki, (hi <= ki)%Z -> cdf_sum pr lo ki == 1.

Lemma pmf_ok_b_sound ki pm : pmf_ok_b t ki pm = true -> pmf_obs_ok pr lo hi ki pm.
Proof.
  unfold pmf_ok_b. fold lo hi. intro H.
  destruct (Z.ltb_spec ki lo) as [L|L]; cbn [orb] in H.
  { apply is_zero_sound in H. destruct H as (q & -> & E). exists q. split; [reflexivity|]. split; [|intros _; exact E].
    apply Qabs_eq0_le; [|apply tol_abs_nonneg]. rewrite E. symmetry. apply Hout. lia. }
  destruct (Z.ltb_spec hi ki) as [L2|L2].
  { apply is_zero_sound in H. destruct H as (q & -> & E). exists q. split; [reflexivity|]. split; [|intros _; exact E].
    apply Qabs_eq0_le; [|apply tol_abs_nonneg]. rewrite E. symmetry. apply Hout. lia. }
  destruct (tab_close_fin _ _ _ _ H) as (q & ->). exists q. split; [reflexivity|]. split; [|intros [?|?]; lia].
  apply Hpmf; [lia|exact H].
Qed.

Lemma cdf_ok_b_sound ki cd : cdf_ok_b t ki cd = true -> cdf_obs_ok pr lo hi ki cd.
Proof.
  unfold cdf_ok_b. fold lo hi. intro H.
  destruct (Z.ltb_spec ki lo) as [L|L].
  { apply is_zero_sound in H. destruct H as (q & -> & E). exists q. split; [reflexivity|].
    split; [|split; [intros _; exact E|]].
    - apply Qabs_eq0_le; [|apply tol_abs_nonneg]. rewrite E. symmetry. unfold cdf_sum. apply Qsum_range_empty. lia.
    - intros Hh. rewrite E. rewrite <- (Htop ki Hh). unfold cdf_sum. symmetry. apply Qsum_range_empty. lia. }
  destruct (Z.leb_spec hi ki) as [L2|L2].
  { apply is_one_sound in H. destruct H as (q & -> & E). exists q. split; [reflexivity|].
    split; [|split; [intros ?; lia|intros _; exact E]].
    apply Qabs_eq0_le; [|apply tol_abs_nonneg]. rewrite E. symmetry. apply Htop. exact L2. }
  destruct (tab_close_fin _ _ _ _ H) as (q & ->). exists q. split; [reflexivity|].
  split; [|split; intros ?; lia]. apply Hcdf; [lia|exact H].
Qed.

Lemma check_item_none k pm cd : check_item d t k pm cd = None ->
  pmf_ok_b t (Qfloor k) pm = true /\ cdf_ok_b t (Qfloor k) cd = true.
Proof.
  unfold check_item. cbv zeta.
  destruct (model_agrees d t (Qfloor k)); cbn [negb]; [|discriminate].
  destruct (pmf_ok_b t (Qfloor k) pm); cbn [negb]; [|discriminate].
  destruct (cdf_ok_b t (Qfloor k) cd); cbn [negb]; [|discriminate]. auto.
Qed.

(* both comparisons were made on (floor k, pmf bits, cdf bits) of the item *)
Definition item_pass (it : Z * Z * Z) : Prop :=
  let '(kb, pb, cb) := it in
  exists k, decode_bits kb = XFin k /\
            pmf_ok_b t (Qfloor k) (decode_bits pb) = true /\ cdf_ok_b t (Qfloor k) (decode_bits cb) = true.
Definition prev_pass (prev : option (Z * Z * Z)) : Prop :=
  match prev with
  | None => True
  | Some (ki, pb, cb) => pmf_ok_b t ki (decode_bits pb) = true /\ cdf_ok_b t ki (decode_bits cb) = true
  end.

Lemma run_items_none : forall items idx tag prev tag',
  prev_pass prev -> run_items d t items idx tag prev = (tag', None) -> Forall item_pass items.
Proof.
  induction items as [|[[kb pb] cb] rest IH]; intros idx tag prev tag' HP R; [constructor|].
  cbn [run_items] in R. destruct (decode_bits kb) as [| |k] eqn:Ek; try discriminate R. cbv zeta in R.
  destruct prev as [[[pki ppb] pcb]|].
  - destruct ((Qfloor k =? pki)%Z && (pb =? ppb)%Z && (cb =? pcb)%Z) eqn:S.
    + apply andb_prop in S. destruct S as [S S3]. apply andb_prop in S. destruct S as [S1 S2].
      apply Z.eqb_eq in S1, S2, S3. subst pki ppb pcb. constructor; [|exact (IH _ _ _ _ HP R)].
      cbn. exists k. split; [exact Ek|exact HP].
    + destruct (check_item d t k (decode_bits pb) (decode_bits cb)) as [[w dg]|] eqn:CI; [discriminate R|].
      apply check_item_none in CI. constructor; [|exact (IH _ _ (Some (Qfloor k, pb, cb)) _ CI R)].
      cbn. exists k. split; [exact Ek|exact CI].
  - destruct (check_item d t k (decode_bits pb) (decode_bits cb)) as [[w dg]|] eqn:CI; [discriminate R|].
    apply check_item_none in CI. constructor; [|exact (IH _ _ (Some (Qfloor k, pb, cb)) _ CI R)].
    cbn. exists k. split; [exact Ek|exact CI].
Qed.

Lemma item_pass_ok it : item_pass it -> item_ok pr lo hi it.
Proof.
  destruct it as [[kb pb] cb]. cbn. intros (k & Ek & P & C). exists k. split; [exact Ek|].
  split; [apply pmf_ok_b_sound; exact P | apply cdf_ok_b_sound; exact C].
Qed.

Theorem run_items_sound items tag' : run_items d t items 0%Z 0%Z None = (tag', None) -> Forall (item_ok pr lo hi) items.
Proof.
  intro R. eapply Forall_impl; [exact item_pass_ok|]. exact (run_items_none items _ _ None tag' I R).
Qed.
End Items.

(* ====================== enclosure mode (group hK) ====================== *)
(* the binomial probabilities are a probability function on 0..n *)
Lemma bin_prob_nonneg n p k : (0 <= n)%Z -> 0 <= p <= 1 -> 0 <= bin_prob n p k.
Proof.
  intros Hn Hp. rewrite bin_prob_model by assumption. rewrite <- (Z2Nat.id n) by assumption.
  apply binom_pmf_nonneg. assumption.
Qed.
Lemma bin_prob_sum n p : (0 <= n)%Z -> Qsum_range (bin_prob n p) 0 n == 1.
Proof.
  intros Hn. pose proof (binom_pmf_sums_to_one (Z.to_nat n) p) as H. rewrite Z2Nat.id in H by assumption.
  rewrite <- H. apply Qsum_range_ext. intros j _. apply bin_prob_model. assumption.
Qed.
(* its four atoms *)
Lemma bin_prob_at n p k : (0 <= k <= n)%Z -> bin_prob n p k = bterm p (1 - p) (Z.to_nat n) (Z.to_nat k).
Proof.
  intros Hk. unfold bin_prob. destruct (Z.ltb_spec k 0); [lia|]. destruct (Z.ltb_spec n k); [lia|]. reflexivity.
Qed.
Lemma inject_to_nat n : (0 <= n)%Z -> inject_Z (Z.of_nat (Z.to_nat n)) = inject_Z n.
Proof. intros. rewrite Z2Nat.id by assumption. reflexivity. Qed.

(* P near 0 (m = p): atoms 0 and 1 *)
Lemma bin_lo_atom0 n p : (1 <= n)%Z -> 0 <= p <= 1 -> 1 - inject_Z n * p <= bin_prob n p 0.
Proof.
  intros Hn Hp. rewrite bin_prob_at by lia. change (Z.to_nat 0) with O. rewrite bterm_0.
  rewrite <- (inject_to_nat n) by lia. apply bernoulli. assumption.
Qed.
Lemma bin_lo_atom1 n p : (1 <= n)%Z -> 0 <= p <= 1 -> inject_Z n * p - encl_eps n p <= bin_prob n p 1.
Proof.
  intros Hn Hp. rewrite bin_prob_at by lia. change (Z.to_nat 1) with 1%nat. rewrite bterm_1 by lia.
  rewrite inject_to_nat by lia. apply atom1_lower; assumption.
Qed.
(* P near 1 (m = 1 - p): atoms n and n - 1 *)
Lemma bin_hi_atom0 n p : (1 <= n)%Z -> 0 <= p <= 1 -> 1 - inject_Z n * (1 - p) <= bin_prob n p n.
Proof.
  intros Hn Hp. rewrite bin_prob_at by lia. rewrite bterm_n.
  assert (E : p == 1 - (1 - p)) by ring. rewrite E at 2.
  rewrite <- (inject_to_nat n) by lia. apply bernoulli. lra.
Qed.
Lemma bin_hi_atom1 n p : (1 <= n)%Z -> 0 <= p <= 1 ->
  inject_Z n * (1 - p) - encl_eps n (1 - p) <= bin_prob n p (n - 1).
Proof.
  intros Hn Hp. rewrite bin_prob_at by lia. replace (Z.to_nat (n - 1)) with (Z.to_nat n - 1)%nat by lia.
  rewrite bterm_pred by lia. rewrite inject_to_nat by lia.
  pose proof (atom1_lower (1 - p) n ltac:(lra) Hn) as A.
  assert (E : 1 - (1 - p) == p) by ring. rewrite E in A.
  assert (E2 : inject_Z n * qpow p (Z.to_nat n - 1) * (1 - p) == inject_Z n * (1 - p) * qpow p (Z.to_nat n - 1)) by ring.
  rewrite E2. exact A.
Qed.

Lemma encl_applies_n n m d : encl_applies n m d = true -> (1 <= n)%Z.
Proof.
  unfold encl_applies. intro H. apply andb_prop in H. destruct H as [H _]. apply andb_prop in H. destruct H as [H _].
  apply Z.leb_le in H. exact H.
Qed.

Section EnclItems.
Variables (n : Z) (p : Q) (flip : bool).
Hypothesis Hn : (1 <= n)%Z.
Hypothesis Hp : 0 <= p <= 1.
Let m := if flip then 1 - p else p.
Let pr := bin_prob n p.

Lemma epmf_encl_sound ki : (0 <= ki <= n)%Z ->
  fst (epmf_encl n m flip ki) <= pr ki /\ pr ki <= snd (epmf_encl n m flip ki).
Proof.
  intros Hk. unfold epmf_encl, m, pr. destruct flip.
  - apply (hi_pmf (bin_prob n p) n (1 - p) Hn); try assumption.
    + intros k. apply bin_prob_nonneg; [lia|assumption].
    + apply bin_prob_sum. lia.
    + apply bin_hi_atom0; assumption.
    + apply bin_hi_atom1; assumption.
  - apply (lo_pmf (bin_prob n p) n p Hn); try assumption.
    + intros k. apply bin_prob_nonneg; [lia|assumption].
    + apply bin_prob_sum. lia.
    + apply bin_lo_atom0; assumption.
    + apply bin_lo_atom1; assumption.
Qed.
Lemma ecdf_encl_sound ki : (0 <= ki < n)%Z ->
  fst (ecdf_encl n m flip ki) <= cdf_sum pr 0 ki /\ cdf_sum pr 0 ki <= snd (ecdf_encl n m flip ki).
Proof.
  intros Hk. unfold ecdf_encl, cdf_sum, m, pr. destruct flip.
  - apply (hi_cdf (bin_prob n p) n (1 - p) Hn); try assumption.
    + intros k. apply bin_prob_nonneg; [lia|assumption].
    + apply bin_prob_sum. lia.
    + apply bin_hi_atom0; assumption.
    + apply bin_hi_atom1; assumption.
  - apply (lo_cdf (bin_prob n p) n p Hn); try assumption.
    + intros k. apply bin_prob_nonneg; [lia|assumption].
    + apply bin_prob_sum. lia.
    + apply bin_lo_atom0; assumption.
    + apply bin_lo_atom1; assumption.
Qed.

Lemma bin_prob_out ki : (ki < 0 \/ n < ki)%Z -> pr ki == 0.
Proof.
  intros Hk. unfold pr, bin_prob. destruct (Z.ltb_spec ki 0); [reflexivity|].
  destruct (Z.ltb_spec n ki); [reflexivity|lia].
Qed.
Lemma bin_cdf_top ki : (n <= ki)%Z -> cdf_sum pr 0 ki == 1.
Proof.
  intros Hk. unfold pr. rewrite bin_cdf_model by lia. unfold binom_cdf_i.
  destruct (Z.ltb_spec ki 0); [lia|]. destruct (Z.leb_spec n ki); [reflexivity|lia].
Qed.

Lemma epmf_ok_b_sound ki pm : epmf_ok_b n m flip ki pm = true -> pmf_obs_ok pr 0 n ki pm.
Proof.
  unfold epmf_ok_b. intro H.
  destruct (Z.ltb_spec ki 0) as [L|L]; cbn [orb] in H.
  { apply is_zero_sound in H. destruct H as (q & -> & E). exists q. split; [reflexivity|]. split; [|intros _; exact E].
    apply Qabs_eq0_le; [|apply tol_abs_nonneg]. rewrite E. symmetry. apply bin_prob_out. lia. }
  destruct (Z.ltb_spec n ki) as [L2|L2].
  { apply is_zero_sound in H. destruct H as (q & -> & E). exists q. split; [reflexivity|]. split; [|intros _; exact E].
    apply Qabs_eq0_le; [|apply tol_abs_nonneg]. rewrite E. symmetry. apply bin_prob_out. lia. }
  destruct (epmf_encl_sound ki ltac:(lia)) as [B1 B2].
  destruct (encl_close_sound _ _ (pr ki) H B1 B2) as (q & -> & A).
  exists q. split; [reflexivity|]. split; [exact A|intros [?|?]; lia].
Qed.
Lemma ecdf_ok_b_sound ki cd : ecdf_ok_b n m flip ki cd = true -> cdf_obs_ok pr 0 n ki cd.
Proof.
  unfold ecdf_ok_b. intro H.
  destruct (Z.ltb_spec ki 0) as [L|L].
  { apply is_zero_sound in H. destruct H as (q & -> & E). exists q. split; [reflexivity|].
    split; [|split; [intros _; exact E|intros ?; lia]].
    apply Qabs_eq0_le; [|apply tol_abs_nonneg]. rewrite E. symmetry. unfold cdf_sum. apply Qsum_range_empty. lia. }
  destruct (Z.leb_spec n ki) as [L2|L2].
  { apply is_one_sound in H. destruct H as (q & -> & E). exists q. split; [reflexivity|].
    split; [|split; [intros ?; lia|intros _; exact E]].
    apply Qabs_eq0_le; [|apply tol_abs_nonneg]. rewrite E. symmetry. apply bin_cdf_top. exact L2. }
  destruct (ecdf_encl_sound ki ltac:(lia)) as [B1 B2].
  destruct (encl_close_sound _ _ (cdf_sum pr 0 ki) H B1 B2) as (q & -> & A).
  exists q. split; [reflexivity|]. split; [exact A|split; intros ?; lia].
Qed.

Lemma run_items_e_sound : forall items idx tag tag',
  run_items_e n p m flip items idx tag = (tag', None) -> Forall (item_ok pr 0 n) items.
Proof.
  induction items as [|[[kb pb] cb] rest IH]; intros idx tag tag' R; [constructor|].
  cbn [run_items_e] in R. destruct (decode_bits kb) as [| |k] eqn:Ek; try discriminate R. cbv zeta in R.
  destruct (epmf_ok_b n m flip (Qfloor k) (decode_bits pb)) eqn:P; cbn [negb] in R; [|discriminate R].
  destruct (ecdf_ok_b n m flip (Qfloor k) (decode_bits cb)) eqn:C; cbn [negb] in R; [|discriminate R].
  constructor; [|exact (IH _ _ _ R)].
  cbn. exists k. split; [exact Ek|]. split; [apply epmf_ok_b_sound; exact P | apply ecdf_ok_b_sound; exact C].
Qed.
End EnclItems.

Lemma encl_side_n n p flip : encl_side n p = Some flip -> (1 <= n)%Z.
Proof.
  unfold encl_side. destruct (encl_applies n p (Qden p)) eqn:A; [intros _; exact (encl_applies_n _ _ _ A)|].
  destruct (encl_applies n (1 - p) (Qden p)) eqn:B; [intros _; exact (encl_applies_n _ _ _ B)|discriminate].
Qed.

(* the enclosures as a statement about the exact probabilities, for EVERY n >= 1 and 0 <= p <= 1 (the
   comparator uses them only where they are tight); their width is eps = n (n-1) m^2 *)
Theorem binom_enclosure n p (flip : bool) : (1 <= n)%Z -> 0 <= p <= 1 ->
  let m := if flip then 1 - p else p in
  (forall ki, (0 <= ki <= n)%Z ->
     fst (epmf_encl n m flip ki) <= bin_prob n p ki /\ bin_prob n p ki <= snd (epmf_encl n m flip ki)) /\
  (forall ki, (0 <= ki < n)%Z ->
     fst (ecdf_encl n m flip ki) <= Qsum_range (bin_prob n p) 0 ki /\
     Qsum_range (bin_prob n p) 0 ki <= snd (ecdf_encl n m flip ki)).
Proof.
  intros Hn Hp. cbv zeta. split; intros ki Hk.
  - exact (epmf_encl_sound n p flip Hn Hp ki Hk).
  - exact (ecdf_encl_sound n p flip Hn Hp ki Hk).
Qed.
Theorem encl_width n m flip ki :
  snd (epmf_encl n m flip ki) - fst (epmf_encl n m flip ki) == encl_eps n m /\
  snd (ecdf_encl n m flip ki) - fst (ecdf_encl n m flip ki) == encl_eps n m.
Proof.
  unfold epmf_encl, ecdf_encl, encl_flip, encl_pmf, encl_cdf. cbv zeta. split.
  - destruct (Z.eqb _ 0); [|destruct (Z.eqb _ 1)]; cbn [fst snd]; ring.
  - destruct flip; destruct (Z.eqb _ 0); cbn [fst snd]; ring.
Qed.
(* the mode is entered only with n >= 1 and eps <= 1e-12 *)
Theorem encl_side_spec n p (flip : bool) : encl_side n p = Some flip ->
  (1 <= n)%Z /\ encl_eps n (if flip then 1 - p else p) <= 1 # 1000000000000.
Proof.
  intro H. split; [exact (encl_side_n _ _ _ H)|]. unfold encl_side in H.
  assert (A : forall m d, encl_applies n m d = true -> encl_eps n m <= 1 # 1000000000000).
  { intros m d E. unfold encl_applies in E. apply andb_prop in E. destruct E as [_ E]. apply Qle_bool_iff in E. exact E. }
  destruct (encl_applies n p (Qden p)) eqn:E1.
  - injection H as <-. exact (A _ _ E1).
  - destruct (encl_applies n (1 - p) (Qden p)) eqn:E2; [|discriminate H]. injection H as <-. exact (A _ _ E2).
Qed.

(* the two statements as exported by Properties/C06.v (grouped: one Print Assumptions each) *)
Theorem binom_enclosure_all :
  (forall x k, 0 <= x <= 1 -> 1 - inject_Z (Z.of_nat k) * x <= qpow (1 - x) k) /\
  (forall n p (flip : bool), (1 <= n)%Z -> 0 <= p <= 1 ->
     let m := if flip then 1 - p else p in
     (forall ki, (0 <= ki <= n)%Z ->
        fst (epmf_encl n m flip ki) <= bin_prob n p ki /\ bin_prob n p ki <= snd (epmf_encl n m flip ki)) /\
     (forall ki, (0 <= ki < n)%Z ->
        fst (ecdf_encl n m flip ki) <= Qsum_range (bin_prob n p) 0 ki /\
        Qsum_range (bin_prob n p) 0 ki <= snd (ecdf_encl n m flip ki))) /\
  (forall n m flip ki,
     snd (epmf_encl n m flip ki) - fst (epmf_encl n m flip ki) == encl_eps n m /\
     snd (ecdf_encl n m flip ki) - fst (ecdf_encl n m flip ki) == encl_eps n m).
Proof. split; [exact bernoulli|]. split; [exact binom_enclosure|exact encl_width]. Qed.
Theorem encl_mode_all :
  (forall n p (flip : bool), encl_side n p = Some flip ->
     (1 <= n)%Z /\ encl_eps n (if flip then 1 - p else p) <= 1 # 1000000000000) /\
  (forall lu x v, encl_close lu x = true -> fst lu <= v -> v <= snd lu ->
     exists q, x = XFin q /\ Qabs (q - v) <= tol_abs).
Proof. split; [exact encl_side_spec|exact encl_close_sound]. Qed.

Lemma finish_e_accepted n p flip hdr items c tag pos diag :
  finish_e n p flip hdr items = verdict c tag pos diag -> (c = 0 \/ c = 1)%Z ->
  first_false hdr = None /\ exists tag', run_items_e n p (if flip then 1 - p else p) flip items 0%Z 0%Z = (tag', None).
Proof.
  unfold finish_e. intros H Hc.
  destruct (first_false hdr) as [i|].
  { apply verdict_inj in H. unfold V_MISMATCH in H. lia. }
  split; [reflexivity|].
  destruct (run_items_e n p (if flip then 1 - p else p) flip items 0%Z 0%Z) as [tg [[[idx w] dg]|]]; [|eauto].
  destruct (w =? 3)%Z; apply verdict_inj in H; unfold V_MALFORMED, V_MISMATCH in H; lia.
Qed.


(* ====================== verdicts ====================== *)
Lemma finish_accepted d t hdr items c tag pos diag :
  finish d t hdr items = verdict c tag pos diag -> (c = 0 \/ c = 1)%Z ->
  first_false hdr = None /\ exists tag', run_items d t items 0%Z 0%Z None = (tag', None).
Proof.
  unfold finish. intros H Hc.
  destruct (first_false hdr) as [i|].
  { apply verdict_inj in H. unfold V_MISMATCH in H. lia. }
  split; [reflexivity|].
  destruct (run_items d t items 0%Z 0%Z None) as [tg [[[idx w] dg]|]]; [|eauto].
  destruct (w =? 3)%Z; [apply verdict_inj in H; unfold V_MALFORMED in H; lia|].
  destruct (w =? 2)%Z; apply verdict_inj in H; unfold V_MALFORMED, V_MISMATCH in H; lia.
Qed.

Lemma bin_valid_sound c : bin_valid c = true -> (0 <= b_n c)%Z /\ 0 <= b_p c <= 1.
Proof.
  unfold bin_valid. rewrite Bool.negb_true_iff, !Bool.orb_false_iff. intros [[H1 H2] H3].
  apply Z.ltb_ge in H1. apply Qltb_false in H2, H3. auto.
Qed.
Lemma hg_valid_b_sound c : hg_valid_b c = true -> (2 <= h_N c)%Z /\ hg_valid (h_N c) (h_K c) (h_n c).
Proof.
  unfold hg_valid_b, hg_valid. rewrite Bool.negb_true_iff, !Bool.orb_false_iff. intros [[[[H1 H2] H3] H4] H5].
  apply Z.ltb_ge in H1, H2, H3, H4, H5. lia.
Qed.

(* ---------- binomial ---------- *)
Theorem bin_accepted_sound c code tag pos diag :
  check_case (CBin c) = verdict code tag pos diag -> (code = 0 \/ code = 1)%Z -> bin_case_ok c.
Proof.
  cbn [check_case]. intros H Hc.
  destruct (bin_valid c) eqn:V; cbn [negb] in H; [|apply verdict_inj in H; unfold V_MALFORMED in H; lia].
  apply bin_valid_sound in V. destruct V as [Hn Hp].
  assert (HR : first_false (bin_hdr c) = None /\ Forall (item_ok (bin_prob (b_n c) (b_p c)) 0 (b_n c)) (b_items c)).
  { destruct (encl_side (b_n c) (b_p c)) as [flip|] eqn:ES.
    - apply finish_e_accepted in H; [|exact Hc]. destruct H as [Hh [tag' R]]. split; [exact Hh|].
      exact (run_items_e_sound (b_n c) (b_p c) flip (encl_side_n _ _ _ ES) Hp _ _ _ _ R).
    - apply finish_accepted in H; [|exact Hc]. destruct H as [Hh [tag' R]]. split; [exact Hh|].
      destruct (binom_table_bounds (b_n c) (b_p c)) as [B1 B2].
      pose proof (run_items_sound (DBin (b_n c) (b_p c)) (binom_table (b_n c) (b_p c)) (bin_prob (b_n c) (b_p c))) as S.
      rewrite B1, B2 in S. eapply S; [| | | |exact R].
      + intros ki obs Hk T. rewrite bin_prob_model by exact Hn.
        apply (binom_tab_close_pmf (b_n c) (b_p c) Hn Hp ki obs); [rewrite B1, B2; exact Hk|]. rewrite B1. exact T.
      + intros ki obs Hk T. rewrite bin_cdf_model by exact Hn.
        apply (binom_tab_close_cdf (b_n c) (b_p c) Hn Hp ki obs); [rewrite B1, B2; lia|]. rewrite B1. exact T.
      + intros ki Hk. unfold bin_prob. destruct (Z.ltb_spec ki 0); [reflexivity|].
        destruct (Z.ltb_spec (b_n c) ki); [reflexivity|lia].
      + intros ki Hk. rewrite bin_cdf_model by exact Hn. unfold binom_cdf_i.
        destruct (Z.ltb_spec ki 0); [lia|]. destruct (Z.leb_spec (b_n c) ki); [reflexivity|lia]. }
  clear H. destruct HR as [Hh HF].
  unfold bin_hdr, binom_normal_approx in Hh. cbv beta iota zeta in Hh.
  apply first_false_none7 in Hh. destruct Hh as (M & V & Mu & Sg & Lo & Hi & St).
  unfold bin_case_ok. cbv zeta.
  split; [exact Hn|]. split; [exact Hp|].
  split. { apply xclose_rel_sound in M. apply (obs_rel_wd (binom_mean (b_n c) (b_p c))); [|exact M].
           symmetry. apply bin_moment1_model. exact Hn. }
  split. { apply xclose_rel_sound in V. apply (obs_rel_wd (binom_var (b_n c) (b_p c))); [|exact V].
           symmetry. apply bin_cmoment2_model. exact Hn. }
  split. { apply xclose_rel_sound in Mu. apply (obs_rel_wd (binom_mean (b_n c) (b_p c))); [|exact Mu].
           symmetry. apply bin_moment1_model. exact Hn. }
  split. { destruct (b_sigma c) as [| |s]; try discriminate Sg. apply close_sqrt_sound_Q in Sg.
           apply (obs_sqrt_wd (binom_var (b_n c) (b_p c))); [symmetry; apply bin_cmoment2_model; exact Hn|].
           exists s. split; [reflexivity|]. exact Sg. }
  split; [apply xis_sound in Lo; exact Lo|]. split; [apply xis_sound in Hi; exact Hi|].
  split; [apply xis_sound in St; exact St|].
  exact HF.
Qed.

(* ---------- hypergeometric ---------- *)
Theorem hg_accepted_sound c code tag pos diag :
  check_case (CHg c) = verdict code tag pos diag -> (code = 0 \/ code = 1)%Z -> hg_case_ok c.
Proof.
  cbn [check_case]. intros H Hc.
  destruct (hg_valid_b c) eqn:V; cbn [negb] in H; [|apply verdict_inj in H; unfold V_MALFORMED in H; lia].
  apply hg_valid_b_sound in V. destruct V as [HN Hv].
  apply finish_accepted in H; [|exact Hc]. destruct H as [Hh [tag' R]].
  unfold hg_hdr in Hh. cbv beta iota zeta in Hh.
  apply first_false_none7 in Hh. destruct Hh as (M & V & _ & _ & Lo & Hi & St).
  unfold hg_case_ok. cbv zeta.
  change (Z.max 0 (h_n c + h_K c - h_N c)) with (hg_lo (h_N c) (h_K c) (h_n c)).
  change (Z.min (h_n c) (h_K c)) with (hg_hi (h_N c) (h_K c) (h_n c)).
  pose proof Hv as [HK Hn].
  split; [exact HN|]. split; [exact HK|]. split; [exact Hn|].
  split. { apply xclose_rel_sound in M. apply (obs_rel_wd (hg_mean (h_N c) (h_K c) (h_n c))); [|exact M].
           symmetry. apply hg_moment1_model; [exact Hv|lia]. }
  split. { apply xclose_rel_sound in V. apply (obs_rel_wd (hg_var (h_N c) (h_K c) (h_n c))); [|exact V].
           symmetry. apply hg_cmoment2_model; [exact Hv|exact HN]. }
  split; [apply xis_sound in Lo; exact Lo|]. split; [apply xis_sound in Hi; exact Hi|].
  split; [apply xis_sound in St; exact St|].
  apply (run_items_sound (DHg (h_N c) (h_K c) (h_n c)) (hg_table (h_N c) (h_K c) (h_n c))
                         (hg_prob (h_N c) (h_K c) (h_n c))) with (tag' := tag'); [| | | |exact R].
  - intros ki obs Hk T. rewrite hg_prob_model by exact Hv.
    apply (hg_tab_close_pmf (h_N c) (h_K c) (h_n c) Hv ki obs); [exact Hk|exact T].
  - intros ki obs Hk T. change (t_lo (hg_table (h_N c) (h_K c) (h_n c))) with (hg_lo (h_N c) (h_K c) (h_n c)).
    rewrite hg_cdf_model by exact Hv.
    apply (hg_tab_close_cdf (h_N c) (h_K c) (h_n c) Hv ki obs); [exact Hk|exact T].
  - intros ki Hk. apply hg_prob_outside; [exact Hv|exact Hk].
  - intros ki Hk. change (t_lo (hg_table (h_N c) (h_K c) (h_n c))) with (hg_lo (h_N c) (h_K c) (h_n c)).
    rewrite hg_cdf_model by exact Hv. unfold hg_cdf_i.
    pose proof (hg_lo_hi (h_N c) (h_K c) (h_n c) Hv) as [H0 [H1 _]].
    change (t_hi (hg_table (h_N c) (h_K c) (h_n c))) with (hg_hi (h_N c) (h_K c) (h_n c)) in Hk.
    destruct (Z.ltb_spec ki (hg_lo (h_N c) (h_K c) (h_n c))); [lia|].
    destruct (Z.leb_spec (hg_hi (h_N c) (h_K c) (h_n c)) ki); [reflexivity|lia].
Qed.

(* ====================== the whole check ====================== *)
Theorem check_ok_sound line code tag pos diag cs :
  check_C06 line = verdict code tag pos diag -> (code = 0 \/ code = 1)%Z ->
  p_line line = Some (cs, []) -> case_ok cs.
Proof.
  unfold check_C06. intros H Hc P. rewrite P in H. destruct cs as [op st|c|c]; cbn [case_ok].
  - cbn [check_case] in H. apply verdict_inj in H. unfold V_MISMATCH in H. lia.
  - exact (bin_accepted_sound c code tag pos diag H Hc).
  - exact (hg_accepted_sound c code tag pos diag H Hc).
Qed.

(* an accepted line always parses completely: the hypothesis on p_line costs nothing *)
Lemma p_line_rest line cs r : p_line line = Some (cs, r) -> r = [].
Proof.
  assert (E : forall st rest b (q : parser c06case),
            (forall l x r', q l = Some (x, r') -> r' = []) ->
            (if negb (st =? 0)%Z then Some (CPanic b st, []) else q rest) = Some (cs, r) -> r = []).
  { intros st rest b q Hq. destruct (negb (st =? 0)%Z); intro G; [injection G; auto|eapply Hq; exact G]. }
  assert (Pb : forall l x r', p_bin l = Some (x, r') -> r' = []).
  { unfold p_bin. intros l x r' G.
    repeat (apply pbind_some in G; destruct G as (? & ? & _ & G)). apply pend_some in G. tauto. }
  assert (Ph : forall l x r', p_hg l = Some (x, r') -> r' = []).
  { unfold p_hg. intros l x r' G.
    repeat (apply pbind_some in G; destruct G as (? & ? & _ & G)). apply pend_some in G. tauto. }
  unfold p_line. intro H.
  destruct line as [|a line]; [discriminate H|].
  destruct a as [|a|a]; try discriminate H.
  do 3 (destruct a as [a|a|]; try discriminate H).
  destruct line as [|b line]; [discriminate H|].
  destruct b as [|b|b]; try discriminate H.
  - destruct line as [|st rest]; [discriminate H|]. exact (E st rest _ p_bin Pb H).
  - destruct b; try discriminate H. destruct line as [|st rest]; [discriminate H|]. exact (E st rest _ p_hg Ph H).
Qed.

Theorem check_accepted_parses line code tag pos diag :
  check_C06 line = verdict code tag pos diag -> (code = 0 \/ code = 1)%Z -> exists cs, p_line line = Some (cs, []).
Proof.
  unfold check_C06. intros H Hc. destruct (p_line line) as [[cs r]|] eqn:P.
  - exists cs. rewrite (p_line_rest _ _ _ P). reflexivity.
  - apply verdict_inj in H. unfold V_MALFORMED in H. lia.
Qed.

(* ====================== the same, spelled out per item ====================== *)
Lemma item_ok_explicit pr lo hi kb pb cb : item_ok pr lo hi (kb, pb, cb) ->
  exists k pm cd, decode_bits kb = XFin k /\ decode_bits pb = XFin pm /\ decode_bits cb = XFin cd /\
    Qabs (pm - pr (Qfloor k)) <= tol_abs /\ Qabs (cd - Qsum_range pr lo (Qfloor k)) <= tol_abs /\
    ((Qfloor k < lo \/ hi < Qfloor k)%Z -> pm == 0) /\ ((Qfloor k < lo)%Z -> cd == 0) /\ ((hi <= Qfloor k)%Z -> cd == 1).
Proof.
  cbn. intros (k & Ek & (pm & Ep & P1 & P2) & (cd & Ec & C1 & C2 & C3)).
  exists k, pm, cd. unfold cdf_sum in C1. repeat split; assumption.
Qed.

Theorem accepted_binomial_item line code tag pos diag c kb pb cb :
  check_C06 line = verdict code tag pos diag -> (code = 0 \/ code = 1)%Z -> p_line line = Some (CBin c, []) ->
  In (kb, pb, cb) (b_items c) ->
  exists k pm cd, decode_bits kb = XFin k /\ decode_bits pb = XFin pm /\ decode_bits cb = XFin cd /\
    Qabs (pm - bin_prob (b_n c) (b_p c) (Qfloor k)) <= tol_abs /\
    Qabs (cd - Qsum_range (bin_prob (b_n c) (b_p c)) 0 (Qfloor k)) <= tol_abs /\
    ((Qfloor k < 0 \/ b_n c < Qfloor k)%Z -> pm == 0) /\ ((Qfloor k < 0)%Z -> cd == 0) /\ ((b_n c <= Qfloor k)%Z -> cd == 1).
Proof.
  intros H Hc P Hin. pose proof (check_ok_sound _ _ _ _ _ _ H Hc P) as S. cbn [case_ok] in S.
  destruct S as (_ & _ & _ & _ & _ & _ & _ & _ & _ & F). rewrite Forall_forall in F.
  apply item_ok_explicit. exact (F _ Hin).
Qed.

Theorem accepted_hypergeometric_item line code tag pos diag c kb pb cb :
  check_C06 line = verdict code tag pos diag -> (code = 0 \/ code = 1)%Z -> p_line line = Some (CHg c, []) ->
  In (kb, pb, cb) (h_items c) ->
  let lo := Z.max 0 (h_n c + h_K c - h_N c) in let hi := Z.min (h_n c) (h_K c) in
  exists k pm cd, decode_bits kb = XFin k /\ decode_bits pb = XFin pm /\ decode_bits cb = XFin cd /\
    Qabs (pm - hg_prob (h_N c) (h_K c) (h_n c) (Qfloor k)) <= tol_abs /\
    Qabs (cd - Qsum_range (hg_prob (h_N c) (h_K c) (h_n c)) lo (Qfloor k)) <= tol_abs /\
    ((Qfloor k < lo \/ hi < Qfloor k)%Z -> pm == 0) /\ ((Qfloor k < lo)%Z -> cd == 0) /\ ((hi <= Qfloor k)%Z -> cd == 1).
Proof.
  intros H Hc P Hin. pose proof (check_ok_sound _ _ _ _ _ _ H Hc P) as S. cbn [case_ok] in S.
  destruct S as (_ & _ & _ & _ & _ & _ & _ & _ & F). rewrite Forall_forall in F.
  cbv zeta. apply item_ok_explicit. exact (F _ Hin).
Qed.

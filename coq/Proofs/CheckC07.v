(* Proofs/CheckC07.v — (group hK) what an ACCEPTED verdict of the C07 comparator means beyond op 0.
   A. ops 1 / 2 (InvCDF of BinomialDist / HypergeometicDist): the line parses completely, the parameters are
      in the property's range, and every level satisfies [disc_level_spec F lo hi] where
      F k = cdf_sum (bin_prob n p) 0 k  /  cdf_sum (hg_prob N K n) lo k  is the EXACT distribution function
      written with Spec/C06Prob.v only (Pascal's binomial coefficient, a finite sum) — no table, no function
      of Model/ occurs in the conclusion —, and the results are non-decreasing in y.  With verdict code 0
      (not "borderline") floor(obs) IS the least support point with F >= y ([disc_level_exact]).
      Theorems check_C07_op1_sound, check_C07_op2_sound.
   B. op 6 (relational: F := the implementation's own CDF as reported by the harness; the trusted observations are
      listed at the head of section B): header status 0, complete parse, [rel_level_spec h] — a faithful reading of
      check_rel_y — for every level, results non-decreasing in y, Rand draws bit-identical to the reference
      generator.  Theorem check_C07_op6_sound.
   C. ops 4 and 7 (stats.Rand with a scripted source on a piecewise / a relational distribution): the call returned,
      consumed the leading zeros of the source plus one value, its level is that first non-zero value, the draw has
      the bits of InvCDF(d)(y), and the level satisfies level_spec (Proofs/InvCDFCheck.v) / rel_level_spec.
      Theorems check_C07_op4_sound, check_C07_op7_sound.
   D. the remaining ops: 3 (old dispatch lines) and 9 (own Rand method, determinism): bit identity; the
      Kolmogorov-Smirnov ops 5, 8, 10: sorted sample, a distance within the DKW bound that bounds every term
      (op 8 against the exact pw_cdf; op 10 against harness-reported cdf values; op 5: D itself is harness-computed).
      Theorems check_C07_op3/9/5/8/10_sound, together check_C07_other_ops_sound.
   E. op 11 (InvCDF of UDist against udist_cdf, the exact model of C02, in doubled units): same shape as ops 1 / 2.
      Theorem check_C07_op11_sound.
   With this every op of check_C07 has a soundness reading.
   Everything is over Z/Q/lists and closed under the global context. *)
From MM Require Import Base.Num Base.GFSum Base.GFComb Model.Choose Model.Binom Model.Hyperg Model.InvCDF.
From MM Require Import Proofs.Choose Proofs.Binom Proofs.Hyperg Proofs.InvCDF Check.C06 Proofs.C06Table Proofs.CheckC06.
From MM Require Import Check.C07 Proofs.CheckBase Proofs.InvCDFCheck Spec.C06Prob.
From Coq Require Import Lqa Lia Qround.
Local Open Scope Q_scope.

(* ====================== the conclusion, as readable predicates ====================== *)
(* an observed float that is exactly the integer z *)
Definition obs_int (z : Z) (o : xreal) : Prop := exists q, o = XFin q /\ q == inject_Z z.

(* one level (y, status, observed value) of InvCDF of a discrete distribution on lo..hi with distribution
   function F at the support points *)
Definition disc_level_spec (F : Z -> Q) (lo hi : Z) (it : xreal * Z * xreal) : Prop :=
  let '(y, st, obs) := it in
  match y with
  | XNaN => True                                       (* nothing is demanded for a NaN argument *)
  | XInf _ => st = 0%Z /\ obs = XNaN
  | XFin yq =>
      st = 0%Z /\
      ((yq < 0 \/ 1 < yq) -> obs = XNaN) /\
      (yq == 0 -> (F lo == 0 /\ obs_int lo obs) \/ (~ F lo == 0 /\ obs = XInf true)) /\
      (yq == 1 -> obs_int hi obs) /\
      (0 < yq -> yq < 1 -> exists o, obs = XFin o /\
         (lo <= Qfloor o <= hi)%Z /\
         0 <= o - inject_Z (Qfloor o) /\ o - inject_Z (Qfloor o) <= e9 * inject_Z (Qfloor o) /\
         yq - e9 <= F (Qfloor o) /\
         forall k', (lo <= k' < Qfloor o)%Z -> F k' < yq + e9)
  end.

(* the exact form (verdict code 0): floor(obs) is THE LEAST support point with F >= y *)
Definition disc_level_exact (F : Z -> Q) (lo hi : Z) (it : xreal * Z * xreal) : Prop :=
  let '(y, st, obs) := it in
  match y, obs with
  | XFin yq, XFin o => 0 < yq -> yq < 1 ->
      yq <= F (Qfloor o) /\ forall k', (lo <= k' < Qfloor o)%Z -> F k' < yq
  | _, _ => True
  end.

(* ====================== a table that lists F at lo, lo+1, ... ====================== *)
Definition tab_is (F : Z -> Q) (lo : Z) (tab : list (Z * Q)) : Prop :=
  forall i k c, nth_error tab i = Some (k, c) -> k = (lo + Z.of_nat i)%Z /\ c == F k.

Lemma disc_table_is : forall (cdf F : Z -> Q), (forall k, cdf k == F k) ->
  forall cnt k, tab_is F k (disc_table cdf k cnt).
Proof.
  intros cdf F HF. induction cnt as [|cnt IH]; intros k i k' c H.
  - destruct i; discriminate H.
  - cbn [disc_table] in H. destruct i as [|i]; cbn [nth_error] in H.
    + injection H as <- <-. split; [lia|]. rewrite Qred_correct. apply HF.
    + apply IH in H. destruct H as [H1 H2]. split; [lia|exact H2].
Qed.

Lemma fast_entries_is : forall (t : table) (F : Z -> Q),
  (forall j q, (0 <= j)%Z -> tab_q t (t_cum t) j = Some q -> q == F (t_lo t + j)%Z) ->
  forall cnt i, tab_is F (t_lo t + Z.of_nat i) (fast_entries t i cnt).
Proof.
  intros t F HF. induction cnt as [|cnt IH]; intros i j k c H.
  - destruct j; discriminate H.
  - cbn [fast_entries] in H. destruct (tab_q t (t_cum t) (Z.of_nat i)) as [q|] eqn:E.
    + destruct j as [|j]; cbn [nth_error] in H.
      * injection H as <- <-. split; [lia|]. rewrite Qred_correct. apply HF; [lia|exact E].
      * apply IH in H. destruct H as [H1 H2]. split; [lia|exact H2].
    + destruct j; discriminate H.
Qed.

(* ====================== bits of the tag ====================== *)
Lemma land_lor_0 a b m : Z.land (Z.lor a b) m = 0%Z -> Z.land a m = 0%Z /\ Z.land b m = 0%Z.
Proof. rewrite Z.land_lor_distr_l. apply Z.lor_eq_0_iff. Qed.

(* ====================== one level against a table of F ====================== *)
Section Disc.
Variables (F : Z -> Q) (lo hi : Z) (tab : list (Z * Q)).
Hypothesis HT : tab_is F lo tab.
Hypothesis HL : Z.of_nat (length tab) = (hi - lo + 1)%Z.
Hypothesis Hlh : (lo <= hi)%Z.
Hypothesis Htop : F hi == 1.
Hypothesis Hmono : forall k k', (lo <= k)%Z -> (k <= k')%Z -> (k' <= hi)%Z -> F k <= F k'.

Lemma tab_entry : forall k, (lo <= k <= hi)%Z -> exists c, nth_error tab (Z.to_nat (k - lo)) = Some (k, c) /\ c == F k.
Proof.
  intros k Hk. destruct (nth_error tab (Z.to_nat (k - lo))) as [[k0 c]|] eqn:E.
  - destruct (HT _ _ _ E) as [H1 H2]. assert (X : k0 = k) by lia. clear H1. subst k0. exists c. split; [reflexivity|exact H2].
  - apply nth_error_None in E. lia.
Qed.

(* first_ge at a level t <= 1: THE LEAST support point with F >= t *)
Lemma first_ge_reading : forall t, t <= 1 ->
  (lo <= first_ge tab t hi <= hi)%Z /\ t <= F (first_ge tab t hi) /\
  forall k', (lo <= k' < first_ge tab t hi)%Z -> F k' < t.
Proof.
  intros t Ht. unfold first_ge.
  destruct (disc_quantile_spec tab t hi) as [(pre & c & post & E & Hc & Hpre) | (Hall & _)].
  - set (k := disc_quantile tab t hi) in *.
    assert (N : nth_error tab (length pre) = Some (k, c)).
    { rewrite E. rewrite nth_error_app2 by lia. rewrite Nat.sub_diag. reflexivity. }
    destruct (HT _ _ _ N) as [K1 K2].
    assert (LEN : length tab = (length pre + S (length post))%nat).
    { rewrite E at 1. rewrite app_length. reflexivity. }
    split; [lia|]. split; [rewrite <- K2; exact Hc|].
    intros k' Hk'.
    assert (I : (Z.to_nat (k' - lo) < length pre)%nat) by lia.
    destruct (nth_error pre (Z.to_nat (k' - lo))) as [[k0 c0]|] eqn:E0.
    2: { apply nth_error_None in E0. lia. }
    assert (N0 : nth_error tab (Z.to_nat (k' - lo)) = Some (k0, c0)).
    { rewrite E. rewrite nth_error_app1 by exact I. exact E0. }
    destruct (HT _ _ _ N0) as [J1 J2]. assert (X : k0 = k') by lia. clear J1. subst k0.
    rewrite <- J2. apply (Hpre k' c0). eapply nth_error_In. exact E0.
  - exfalso. destruct (tab_entry hi ltac:(lia)) as (c & N & Ec).
    apply nth_error_In in N. apply Hall in N. lra.
Qed.

Lemma cdf_lo_reading : match tab with (_, c) :: _ => c | [] => 1 end == F lo.
Proof.
  destruct (tab_entry lo ltac:(lia)) as (c & N & Ec). rewrite Z.sub_diag in N.
  destruct tab as [|[k0 c0] r]; [discriminate N|]. cbn in N. injection N as _ <-. exact Ec.
Qed.

Lemma e9_pos : 0 < e9.
Proof. reflexivity. Qed.

Lemma check_disc_y_sound : forall y st obs tag, check_disc_y tab lo hi y st obs = (tag, None) ->
  disc_level_spec F lo hi (y, st, obs) /\
  (Z.land tag T_BORDER = 0%Z -> disc_level_exact F lo hi (y, st, obs)).
Proof.
  intros y st obs tag E. unfold check_disc_y in E. destruct y as [|b|yq]; cbn [disc_level_spec disc_level_exact].
  - split; [exact I|intros _; exact I].
  - split; [|intros _; exact I].
    destruct ((st =? 0)%Z && is_nan obs) eqn:C; [|discriminate E].
    apply andb_prop in C. destruct C as [St N]. apply Z.eqb_eq in St. apply InvCDFCheck.xeq_nan in N. auto.
  - cbv zeta in E. pose proof cdf_lo_reading as CL.
    set (cdf_lo := match tab with (_, c) :: _ => c | [] => 1 end) in *.
    destruct (Qltb yq 0 || Qltb 1 yq) eqn:R.
    { destruct ((st =? 0)%Z && is_nan obs) eqn:C; [|discriminate E].
      apply andb_prop in C. destruct C as [St N]. apply Z.eqb_eq in St. apply InvCDFCheck.xeq_nan in N.
      assert (OUT : yq < 0 \/ 1 < yq).
      { apply Bool.orb_true_iff in R. destruct R as [R|R]; apply Qltb_true in R; auto. }
      split.
      - split; [exact St|]. split; [intros _; exact N|]. repeat split; intros; lra.
      - intros _. subst obs. exact I. }
    apply Bool.orb_false_iff in R. destruct R as [R0 R1]. apply Qltb_false in R0, R1.
    destruct (Qeq_bool yq 0) eqn:Z0.
    { apply Qeq_bool_true in Z0.
      destruct ((st =? 0)%Z && xeq (if Qeq_bool cdf_lo 0 then XFin (inject_Z lo) else XInf true) obs) eqn:C; [|discriminate E].
      apply andb_prop in C. destruct C as [St X]. apply Z.eqb_eq in St.
      split.
      - split; [exact St|]. split; [intros; lra|]. split; [|split; intros; lra].
        intros _. destruct (Qeq_bool cdf_lo 0) eqn:D.
        + apply Qeq_bool_true in D. left. split; [rewrite <- CL; exact D|]. apply InvCDFCheck.xeq_fin in X. exact X.
        + right. split; [|apply InvCDFCheck.xeq_inf; exact X]. intro D'. rewrite <- CL in D'.
          apply Qeq_bool_true in D'. congruence.
      - intros _. destruct obs; try exact I. intros; lra. }
    assert (NZ : ~ yq == 0). { intro D. apply Qeq_bool_true in D. congruence. }
    destruct (Qeq_bool yq 1) eqn:Z1.
    { apply Qeq_bool_true in Z1.
      destruct ((st =? 0)%Z && xeq (XFin (inject_Z hi)) obs) eqn:C; [|discriminate E].
      apply andb_prop in C. destruct C as [St X]. apply Z.eqb_eq in St.
      split.
      - split; [exact St|]. split; [intros; lra|]. split; [intros; lra|]. split; [|intros; lra].
        intros _. apply InvCDFCheck.xeq_fin in X. exact X.
      - intros _. destruct obs; try exact I. intros; lra. }
    assert (N1 : ~ yq == 1). { intro D. apply Qeq_bool_true in D. congruence. }
    assert (Y0 : 0 < yq) by lra. assert (Y1 : yq < 1) by lra.
    pose proof e9_pos as E9.
    destruct (first_ge_reading (yq - e9) ltac:(lra)) as (A1 & A2 & A3).
    destruct (Qminb_spec 1 (yq + e9)) as (M1 & M2 & M3).
    destruct (first_ge_reading (Qminb 1 (yq + e9)) M1) as (B1 & B2 & B3).
    set (k1 := first_ge tab (yq - e9) hi) in *. set (k2 := first_ge tab (Qminb 1 (yq + e9)) hi) in *.
    destruct obs as [|b|o]; [discriminate E|discriminate E|].
    destruct ((st =? 0)%Z && (k1 <=? Qfloor o)%Z && (Qfloor o <=? k2)%Z
              && Qle_bool (o - inject_Z (Qfloor o)) (e9 * inject_Z (Qfloor o))) eqn:C; [|discriminate E].
    apply andb_prop in C. destruct C as [C C4]. apply andb_prop in C. destruct C as [C C3].
    apply andb_prop in C. destruct C as [St C2]. apply Z.eqb_eq in St. apply Z.leb_le in C2, C3.
    apply Qleb_true in C4.
    split.
    + split; [exact St|]. split; [intros; lra|]. split; [intros; lra|]. split; [intros; lra|].
      intros _ _. exists o. split; [reflexivity|]. split; [lia|].
      split; [pose proof (Qfloor_le o); lra|]. split; [exact C4|].
      split.
      * apply Qle_trans with (F k1); [exact A2|]. apply Hmono; lia.
      * intros k' Hk'. apply Qlt_le_trans with (Qminb 1 (yq + e9)); [apply B3; lia|exact M2].
    + intros TB. intros _ _. apply (f_equal fst) in E. cbn [fst] in E.
      rewrite <- E in TB.
      apply land_lor_0 in TB. destruct TB as [_ TB]. apply land_lor_0 in TB. destruct TB as [_ TB].
      apply land_lor_0 in TB. destruct TB as [_ TB]. apply land_lor_0 in TB. destruct TB as [_ TB].
      apply land_lor_0 in TB. destruct TB as [_ TB].
      destruct (k1 =? k2)%Z eqn:K; [|discriminate TB]. apply Z.eqb_eq in K.
      assert (KO1 : Qfloor o = k1) by lia. assert (KO2 : Qfloor o = k2) by lia.
      split.
      * rewrite KO2. apply Qle_trans with (Qminb 1 (yq + e9)); [|exact B2].
        destruct M3 as [-> | ->]; lra.
      * intros k' Hk'. apply Qlt_trans with (yq - e9); [apply A3; lia|lra].
Qed.

Lemma run_disc_items_sound : forall items idx tag t, run_disc_items tab lo hi items idx tag = (t, None) ->
  Forall (disc_level_spec F lo hi) items /\
  (Z.land t T_BORDER = 0%Z -> Z.land tag T_BORDER = 0%Z /\ Forall (disc_level_exact F lo hi) items).
Proof.
  induction items as [|[[y st] o] rest IH]; intros idx tag t E.
  - cbn [run_disc_items] in E. injection E as <-. split; [constructor|]. intro H. split; [exact H|constructor].
  - cbn [run_disc_items] in E. destruct (check_disc_y tab lo hi y st o) as [t0 [dg|]] eqn:C; [discriminate E|].
    destruct (check_disc_y_sound _ _ _ _ C) as [S1 S2]. destruct (IH _ _ _ E) as [I1 I2].
    split; [constructor; assumption|]. intro H. destruct (I2 H) as [J1 J2].
    apply land_lor_0 in J1. destruct J1 as [J0 J1]. split; [exact J0|]. constructor; [apply S2; exact J1|exact J2].
Qed.
End Disc.

(* ====================== F = a running sum of non-negative probabilities ====================== *)
Lemma cdf_sum_mono (pr : Z -> Q) lo : (forall k, 0 <= pr k) ->
  forall k k', (k <= k')%Z -> cdf_sum pr lo k <= cdf_sum pr lo k'.
Proof.
  intros Hp k k' Hk. unfold cdf_sum.
  destruct (Z.ltb_spec k lo) as [L|L].
  { rewrite (Qsum_range_empty pr lo k) by lia. unfold Qsum_range. apply Qsum_n_nonneg. intros; apply Hp. }
  rewrite (Qsum_range_split pr lo (k + 1) k') by lia. replace (k + 1 - 1)%Z with k by lia.
  assert (0 <= Qsum_range pr (k + 1) k') by (unfold Qsum_range; apply Qsum_n_nonneg; intros; apply Hp).
  lra.
Qed.

Lemma bin_prob_nonneg n p k : (0 <= n)%Z -> 0 <= p <= 1 -> 0 <= bin_prob n p k.
Proof.
  intros Hn Hp. rewrite bin_prob_model by exact Hn. rewrite <- (Z2Nat.id n Hn). apply binom_pmf_nonneg. exact Hp.
Qed.
Lemma hg_prob_nonneg N K n k : hg_valid N K n -> 0 <= hg_prob N K n k.
Proof. intros Hv. rewrite hg_prob_model by exact Hv. apply hg_pmf_nonneg. exact Hv. Qed.

Lemma bin_cdf_top n p : (0 <= n)%Z -> cdf_sum (bin_prob n p) 0 n == 1.
Proof.
  intros Hn. rewrite bin_cdf_model by exact Hn. unfold binom_cdf_i.
  destruct (Z.ltb_spec n 0); [lia|]. destruct (Z.leb_spec n n); [reflexivity|lia].
Qed.
Lemma hg_cdf_top N K n : hg_valid N K n -> cdf_sum (hg_prob N K n) (hg_lo N K n) (hg_hi N K n) == 1.
Proof.
  intros Hv. rewrite hg_cdf_model by exact Hv. unfold hg_cdf_i.
  pose proof (hg_lo_hi N K n Hv) as [H0 [H1 _]].
  destruct (Z.ltb_spec (hg_hi N K n) (hg_lo N K n)); [lia|].
  destruct (Z.leb_spec (hg_hi N K n) (hg_hi N K n)); [reflexivity|lia].
Qed.

(* the shared hypergeometric table at EVERY index of the support, the top one included *)
Lemma hg_table_cdf_all N K n : hg_valid N K n -> forall i, (0 <= i)%Z -> (hg_lo N K n + i <= hg_hi N K n)%Z ->
  exists q, tab_q (hg_table N K n) (t_cum (hg_table N K n)) i = Some q /\ q == hg_cdf_i N K n (hg_lo N K n + i).
Proof.
  intros Hv i Hi Hi2. destruct (hg_table_den N K n Hv) as [d [E1 E2]].
  exists (Zsum_range (hg_num N K n) (hg_lo N K n) (hg_lo N K n + i) # d). unfold tab_q. rewrite E1. cbn [hg_table t_cum].
  rewrite (hg_cum_nth N K n Hv) by lia. split; [reflexivity|].
  rewrite (hg_cdf_i_is_sum N K n (hg_lo N K n + i) Hv).
  rewrite (Qsum_range_ext _ (hg_pmf_i N K n)).
  - rewrite (hg_pmf_sum_Z N K n Hv). rewrite <- E2. apply Qmake_Qdiv.
  - intros j Hj. rewrite hg_pmf_inject.
    destruct (Z.ltb_spec j (hg_lo N K n)); [lia|]. destruct (Z.ltb_spec (hg_hi N K n) j); [lia|]. reflexivity.
Qed.

(* ====================== the four tables of the comparator list F ====================== *)
Lemma tab_q_some_lt t l j q : tab_q t l j = Some q -> (Z.to_nat j < length l)%nat.
Proof.
  unfold tab_q. destruct (nth_error l (Z.to_nat j)) eqn:E; [|discriminate]. intros _.
  apply nth_error_Some. congruence.
Qed.

Lemma bin_fast_is n p : (0 <= n)%Z -> 0 <= p <= 1 ->
  tab_is (fun k => cdf_sum (bin_prob n p) 0 k) 0 (fast_table (binom_table n p)).
Proof.
  intros Hn Hp. unfold fast_table.
  pose proof (fast_entries_is (binom_table n p) (fun k => cdf_sum (bin_prob n p) 0 k)) as H.
  destruct (binom_table_bounds n p) as [B1 B2]. rewrite B1 in H.
  refine (H _ _ 0%nat).
  intros j q Hj E. cbv beta. rewrite bin_cdf_model by exact Hn. rewrite Z.add_0_l.
  pose proof (tab_q_some_lt _ _ _ _ E) as L. rewrite binom_table_cum, scan_length, binom_weights_length in L.
  destruct (binom_table_cdf n p Hn Hp j ltac:(lia)) as (q' & E' & Q'). rewrite E in E'. injection E' as <-. exact Q'.
Qed.

Lemma hg_fast_is N K n : hg_valid N K n ->
  tab_is (fun k => cdf_sum (hg_prob N K n) (hg_lo N K n) k) (hg_lo N K n) (fast_table (hg_table N K n)).
Proof.
  intros Hv. unfold fast_table.
  pose proof (fast_entries_is (hg_table N K n) (fun k => cdf_sum (hg_prob N K n) (hg_lo N K n) k)) as H.
  change (t_lo (hg_table N K n)) with (hg_lo N K n) in H.
  pose proof (hg_lo_hi N K n Hv) as [H0 [H1 _]].
  enough (HF : forall j q, (0 <= j)%Z -> tab_q (hg_table N K n) (t_cum (hg_table N K n)) j = Some q ->
            q == cdf_sum (hg_prob N K n) (hg_lo N K n) (hg_lo N K n + j)%Z).
  { pose proof (H HF (length (t_cum (hg_table N K n))) 0%nat) as G. cbn [Z.of_nat] in G. rewrite Z.add_0_r in G. exact G. }
  intros j q Hj E. rewrite hg_cdf_model by exact Hv.
  pose proof (tab_q_some_lt _ _ _ _ E) as L. cbn [hg_table t_cum] in L. rewrite scan_length, hg_weights_length in L.
  destruct (hg_table_cdf_all N K n Hv j Hj ltac:(lia)) as (q' & E' & Q'). rewrite E in E'. injection E' as <-. exact Q'.
Qed.

(* ====================== the tail shared by ops 1 and 2 ====================== *)
Lemma disc_accepted (F : Z -> Q) lo hi tab len items c tag pos diag :
  tab_is F lo tab -> len = (hi - lo + 1)%Z -> (lo <= hi)%Z -> F hi == 1 ->
  (forall k k', (lo <= k)%Z -> (k <= k')%Z -> (k' <= hi)%Z -> F k <= F k') ->
  (if negb (Z.of_nat (length tab) =? len)%Z then verdict V_MALFORMED 0 (-1) [98%Z]
   else C07.finish (with_mono 0 items (run_disc_items tab lo hi items 0 0))) = verdict c tag pos diag ->
  (c = 0 \/ c = 1)%Z ->
  Forall (disc_level_spec F lo hi) items /\ levels_ordered items /\
  (c = 0%Z -> Forall (disc_level_exact F lo hi) items).
Proof.
  intros HT Hlen Hlh Htop Hm E Hc.
  destruct (Z.of_nat (length tab) =? len)%Z eqn:L; cbn [negb] in E.
  2: { exfalso. apply verdict_inj in E. unfold V_MALFORMED in E. lia. }
  apply Z.eqb_eq in L.
  destruct (InvCDFCheck.finish_accepted _ _ _ _ _ E Hc) as (t & R).
  destruct (with_mono_none _ _ _ _ R) as (R1 & R2).
  destruct (run_disc_items_sound F lo hi tab HT ltac:(lia) Hlh Htop Hm items 0%Z 0%Z t R1) as [S1 S2].
  split; [exact S1|]. split.
  - intros l1 i yi xi l2 j yj xj l3 EL. apply (mono_check_sound 0 _ R2 l1 i yi xi l2 j yj xj l3 EL).
  - intros C0. rewrite R in E. cbn [C07.finish] in E. apply verdict_inj in E. destruct E as [E _].
    destruct (Z.land t T_BORDER =? 0)%Z eqn:B.
    + apply Z.eqb_eq in B. apply S2. exact B.
    + unfold V_BORDERLINE in E. lia.
Qed.

(* ====================== op 1: InvCDF (BinomialDist{N, P}) ====================== *)
Theorem check_C07_op1_sound : forall rest c tag pos diag,
  check_C07 (7 :: 1 :: rest)%Z = verdict c tag pos diag -> (c = 0 \/ c = 1)%Z ->
  exists n p items,
    (do n <- pZ; do p <- pQ; do items <- plist p_item; pend (n, p, items)) rest = Some ((n, p, items), []) /\
    (0 <= n <= 200)%Z /\ 0 <= p <= 1 /\
    Forall (disc_level_spec (fun k => cdf_sum (bin_prob n p) 0 k) 0 n) items /\
    levels_ordered items /\
    (c = 0%Z -> Forall (disc_level_exact (fun k => cdf_sum (bin_prob n p) 0 k) 0 n) items).
Proof.
  intros rest c tag pos diag E Hc. cbn [check_C07] in E.
  destruct ((do n <- pZ; do p <- pQ; do items <- plist p_item; pend (n, p, items)) rest)
    as [[[[n p] items] tl]|] eqn:P.
  2: { exfalso. apply verdict_inj in E. unfold V_MALFORMED in E. lia. }
  assert (TL : tl = []).
  { clear E. repeat (apply pbind_some in P; destruct P as (? & ? & _ & P)). apply pend_some in P. tauto. }
  subst tl.
  destruct ((n <? 0)%Z || (200 <? n)%Z || Qltb p 0 || Qltb 1 p) eqn:V.
  { exfalso. apply verdict_inj in E. unfold V_MALFORMED in E. lia. }
  apply Bool.orb_false_iff in V. destruct V as [V V4]. apply Bool.orb_false_iff in V. destruct V as [V V3].
  apply Bool.orb_false_iff in V. destruct V as [V1 V2].
  apply Z.ltb_ge in V1, V2. apply Qltb_false in V3, V4.
  cbv zeta in E.
  set (F := fun k => cdf_sum (bin_prob n p) 0 k).
  set (tab := if (n <=? small_limit)%Z then cdf_table (binom_cdf_i n p) 0 (Z.to_nat (n + 1)) else fast_table (binom_table n p)) in E.
  assert (HT : tab_is F 0 tab).
  { unfold tab. destruct (n <=? small_limit)%Z.
    - apply disc_table_is. intro k. symmetry. apply bin_cdf_model. exact V1.
    - apply bin_fast_is; [exact V1|split; assumption]. }
  assert (Hm : forall k k', (0 <= k)%Z -> (k <= k')%Z -> (k' <= n)%Z -> F k <= F k').
  { intros k k' _ Hk _. apply cdf_sum_mono; [|exact Hk]. intro j. apply bin_prob_nonneg; [exact V1|split; assumption]. }
  destruct (disc_accepted F 0 n tab (n + 1) items c tag pos diag HT ltac:(lia) V1 (bin_cdf_top n p V1) Hm E Hc) as (S1 & S2 & S3).
  exists n, p, items. split; [reflexivity|]. split; [lia|]. split; [split; assumption|].
  split; [exact S1|]. split; [exact S2|exact S3].
Qed.

(* ====================== op 2: InvCDF (HypergeometicDist{N, K, D}) ====================== *)
Theorem check_C07_op2_sound : forall rest c tag pos diag,
  check_C07 (7 :: 2 :: rest)%Z = verdict c tag pos diag -> (c = 0 \/ c = 1)%Z ->
  exists N K n items,
    (do N <- pZ; do K <- pZ; do n <- pZ; do items <- plist p_item; pend (N, K, n, items)) rest = Some ((N, K, n, items), []) /\
    (2 <= N <= 200)%Z /\ (0 <= K <= N)%Z /\ (0 <= n <= N)%Z /\
    let lo := Z.max 0 (n + K - N) in let hi := Z.min n K in
    Forall (disc_level_spec (fun k => cdf_sum (hg_prob N K n) lo k) lo hi) items /\
    levels_ordered items /\
    (c = 0%Z -> Forall (disc_level_exact (fun k => cdf_sum (hg_prob N K n) lo k) lo hi) items).
Proof.
  intros rest c tag pos diag E Hc. cbn [check_C07] in E.
  destruct ((do N <- pZ; do K <- pZ; do n <- pZ; do items <- plist p_item; pend (N, K, n, items)) rest)
    as [[[[[N K] n] items] tl]|] eqn:P.
  2: { exfalso. apply verdict_inj in E. unfold V_MALFORMED in E. lia. }
  assert (TL : tl = []).
  { clear E. repeat (apply pbind_some in P; destruct P as (? & ? & _ & P)). apply pend_some in P. tauto. }
  subst tl.
  destruct ((N <? 2)%Z || (200 <? N)%Z || (K <? 0)%Z || (N <? K)%Z || (n <? 0)%Z || (N <? n)%Z) eqn:V.
  { exfalso. apply verdict_inj in E. unfold V_MALFORMED in E. lia. }
  repeat (apply Bool.orb_false_iff in V; let W := fresh "W" in destruct V as [V W]; apply Z.ltb_ge in W).
  apply Z.ltb_ge in V.
  assert (Hv : hg_valid N K n) by (unfold hg_valid; lia).
  pose proof (hg_lo_hi N K n Hv) as [H0 [H1 _]].
  cbv zeta in E.
  change (Z.max 0 (n + K - N)) with (hg_lo N K n). change (Z.min n K) with (hg_hi N K n).
  set (lo := hg_lo N K n) in *. set (hi := hg_hi N K n) in *.
  set (F := fun k => cdf_sum (hg_prob N K n) lo k).
  set (tab := if (N <=? small_limit)%Z then cdf_table (hg_cdf_i N K n) lo (Z.to_nat (hi - lo + 1)) else fast_table (hg_table N K n)) in E.
  assert (HT : tab_is F lo tab).
  { unfold tab. destruct (N <=? small_limit)%Z.
    - apply disc_table_is. intro k. symmetry. apply hg_cdf_model. exact Hv.
    - apply hg_fast_is. exact Hv. }
  assert (Hm : forall k k', (lo <= k)%Z -> (k <= k')%Z -> (k' <= hi)%Z -> F k <= F k').
  { intros k k' _ Hk _. apply cdf_sum_mono; [|exact Hk]. intro j. apply hg_prob_nonneg. exact Hv. }
  destruct (disc_accepted F lo hi tab (hi - lo + 1) items c tag pos diag HT eq_refl H1 (hg_cdf_top N K n Hv) Hm E Hc) as (S1 & S2 & S3).
  exists N, K, n, items. split; [reflexivity|]. split; [lia|]. split; [lia|]. split; [lia|].
  cbv zeta. change (Z.max 0 (n + K - N)) with lo. change (Z.min n K) with hi.
  split; [exact S1|]. split; [exact S2|exact S3].
Qed.

(* ====================== B. op 6: the relational check ======================
   Built-in distributions without an exact model here (TDist, UDist, KDE, ...): the specification is
   instantiated with F := the implementation's OWN CDF.  TRUSTED harness observations (harness/c07_dists.go):
     header (c07RelHeader): bl bh = dist.Bounds(); cbl = dist.CDF(bl), cbh = dist.CDF(bh);
                            cpl = dist.CDF(-2^1023), cph = dist.CDF(2^1023) (the last finite probes of the expansion);
                            own bit 0 / 1: the distribution has an InvCDF / a Rand method (type assertion at run time);
     item (c07Rel.item):    x = stats.InvCDF(dist)(y) (bits xb, status st); ref = the own method / stats.InvCDF of the
                            bare wrapper c07Wrap{dist} at y (bits refb, status rst);
                            xm = x - tol, xp = x + tol with tol = 1e-9 |x| + 1e-15 formed in float64 (the comparator
                            re-checks xm < x, x - xm <= 1.001e-9 |x| + 2e-15 and xp - x <= the same);
                            c0 = dist.CDF(x), cm = dist.CDF(xm), cp = dist.CDF(xp).
   [rel_level_spec h it] below is a faithful reading of check_rel_y as a proposition. *)
Definition rel_tol (xq : Q) : Q := (1001 # 1000) * e9 * Qabs xq + (2 # 1000000000000000).
(* the same extended real: both NaN, the same infinity, or equal finite values *)
Definition xr_same (a b : xreal) : Prop :=
  match a, b with
  | XNaN, XNaN => True
  | XInf s, XInf s' => s = s'
  | XFin p, XFin q => q == p
  | _, _ => False
  end.
(* a finite value equal to v *)
Definition xr_is (v : Q) (a : xreal) : Prop := exists q, a = XFin q /\ q == v.

Definition rel_level_spec (h : relhdr) (it : relitem) : Prop :=
  let st := ri_st it in
  let x := decode_bits (ri_xb it) in
  let generic := Z.land (rh_own h) 1 = 0%Z in       (* no InvCDF method of its own: the generic algorithm ran *)
  (* the dispatch clause: same status as the reference and, unless both panicked, the SAME BITS *)
  st = ri_rst it /\ (st = 2%Z \/ ri_xb it = ri_refb it) /\
  match ri_y it with
  | XNaN => True
  | XInf _ => st = 0%Z /\ x = XNaN
  | XFin yq =>
      ((yq < 0 \/ 1 < yq) -> st = 0%Z /\ x = XNaN) /\
      (* an own method IS the result at the end points: only "it returned" is demanded *)
      ((yq == 0 \/ yq == 1) -> ~ generic -> st = 0%Z) /\
      (* the end-point rule of the generic algorithm, against the reported CDF(bl), CDF(bh) *)
      (yq == 0 -> generic -> st = 0%Z /\
         ((xr_is 0 (rh_cbl h) /\ xr_same (rh_bl h) x) \/ (~ xr_is 0 (rh_cbl h) /\ x = XInf true))) /\
      (yq == 1 -> generic -> st = 0%Z /\
         ((xr_is 1 (rh_cbh h) /\ xr_same (rh_bh h) x) \/ (~ xr_is 1 (rh_cbh h) /\ x = XInf false))) /\
      (0 < yq -> yq < 1 -> st = 0%Z /\ ri_rst it = 0%Z /\ ri_xb it = ri_refb it /\
         ((* a finite result: CDF(x) >= y and CDF(x - delta) < y (+ slack), delta <= rel_tol x *)
          (exists xq xmq c0q cmq,
             x = XFin xq /\ ri_xm it = XFin xmq /\ ri_c0 it = XFin c0q /\ ri_cm it = XFin cmq /\
             xmq < xq /\ xq - xmq <= rel_tol xq /\
             (generic -> yq <= c0q) /\
             (~ generic -> exists xpq cpq, ri_xp it = XFin xpq /\ ri_cp it = XFin cpq /\
                                           xpq - xq <= rel_tol xq /\ yq - eps_level <= cpq) /\
             cmq < yq + rel_slack_hi (rh_kind h) (rh_par h))
          (* -Inf: CDF is still >= y at the last finite probe -2^1023 *)
          \/ (x = XInf true /\ exists c, rh_cpl h = XFin c /\ yq <= c)
          (* +Inf: CDF is still < y at the last finite probe 2^1023 *)
          \/ (x = XInf false /\ exists c, rh_cph h = XFin c /\ c < yq)))
  end.

Lemma xeq_same a b : xeq a b = true -> xr_same a b.
Proof.
  destruct a as [|s|p]; intro H.
  - apply CheckBase.xeq_nan in H. subst b. exact I.
  - apply CheckBase.xeq_inf in H. subst b. reflexivity.
  - apply CheckBase.xeq_fin in H. destruct H as (q & -> & H). exact H.
Qed.
Lemma xeq_is v a : xeq (XFin v) a = true -> xr_is v a.
Proof. apply CheckBase.xeq_fin. Qed.
Lemma xeq_not_is v a : xeq (XFin v) a = false -> ~ xr_is v a.
Proof.
  intros H (q & -> & Hq). unfold xeq, xwithin, within in H. apply Qle_bool_false in H.
  assert (Z0 : q - v == 0) by (rewrite Hq; ring). rewrite Z0 in H. exact (Qlt_irrefl 0 H).
Qed.

Lemma check_rel_y_sound h it tag : check_rel_y h it = (tag, None) -> rel_level_spec h it.
Proof.
  intro E. unfold check_rel_y in E. cbv zeta in E. unfold rel_level_spec. cbv zeta.
  destruct ((ri_st it =? ri_rst it)%Z && ((ri_st it =? 2)%Z || (ri_xb it =? ri_refb it)%Z)) eqn:D;
    cbn [negb] in E; [|discriminate E].
  apply andb_prop in D. destruct D as [D1 D2]. apply Z.eqb_eq in D1.
  assert (D2' : ri_st it = 2%Z \/ ri_xb it = ri_refb it).
  { apply Bool.orb_true_iff in D2. destruct D2 as [D2|D2]; apply Z.eqb_eq in D2; auto. }
  split; [exact D1|]. split; [exact D2'|].
  remember (decode_bits (ri_xb it)) as x eqn:X.
  destruct (ri_y it) as [|b|yq].
  - exact I.
  - destruct ((ri_st it =? 0)%Z && is_nan x) eqn:C; [|discriminate E].
    apply andb_prop in C. destruct C as [St N]. apply Z.eqb_eq in St. apply InvCDFCheck.xeq_nan in N. auto.
  - destruct (Qltb yq 0 || Qltb 1 yq) eqn:R.
    { destruct ((ri_st it =? 0)%Z && is_nan x) eqn:C; [|discriminate E].
      apply andb_prop in C. destruct C as [St N]. apply Z.eqb_eq in St. apply InvCDFCheck.xeq_nan in N.
      assert (OUT : yq < 0 \/ 1 < yq).
      { apply Bool.orb_true_iff in R. destruct R as [R|R]; apply Qltb_true in R; auto. }
      split; [intros _; auto|]. repeat split; intros; exfalso; lra. }
    apply Bool.orb_false_iff in R. destruct R as [R0 R1]. apply Qltb_false in R0, R1.
    destruct (Qeq_bool yq 0) eqn:Z0; [|destruct (Qeq_bool yq 1) eqn:Z1]; cbn [orb andb] in E.
    + (* y == 0 *)
      apply Qeq_bool_true in Z0.
      destruct (Z.land (rh_own h) 1 =? 0)%Z eqn:G; cbn [negb] in E.
      * apply Z.eqb_eq in G.
        destruct ((ri_st it =? 0)%Z && xeq (if xeq (XFin 0) (rh_cbl h) then rh_bl h else XInf true) x) eqn:C; [|discriminate E].
        apply andb_prop in C. destruct C as [St XE]. apply Z.eqb_eq in St.
        split; [intros; exfalso; lra|]. split; [intros _ NG; contradiction|].
        split; [|split; [intros; exfalso; lra|intros; exfalso; lra]].
        intros _ _. split; [exact St|].
        destruct (xeq (XFin 0) (rh_cbl h)) eqn:CB.
        -- left. split; [apply xeq_is; exact CB|apply xeq_same; exact XE].
        -- right. split; [apply xeq_not_is; exact CB|apply CheckBase.xeq_inf; exact XE].
      * apply Z.eqb_neq in G.
        destruct (ri_st it =? 0)%Z eqn:St; [|discriminate E]. apply Z.eqb_eq in St.
        split; [intros; exfalso; lra|]. split; [intros _ _; exact St|].
        split; [intros _ G'; contradiction|]. split; [intros; exfalso; lra|intros; exfalso; lra].
    + (* y == 1 *)
      apply Qeq_bool_true in Z1.
      destruct (Z.land (rh_own h) 1 =? 0)%Z eqn:G; cbn [negb] in E.
      * apply Z.eqb_eq in G.
        destruct ((ri_st it =? 0)%Z && xeq (if xeq (XFin 1) (rh_cbh h) then rh_bh h else XInf false) x) eqn:C; [|discriminate E].
        apply andb_prop in C. destruct C as [St XE]. apply Z.eqb_eq in St.
        split; [intros; exfalso; lra|]. split; [intros _ NG; contradiction|].
        split; [intros; exfalso; lra|]. split; [|intros; exfalso; lra].
        intros _ _. split; [exact St|].
        destruct (xeq (XFin 1) (rh_cbh h)) eqn:CB.
        -- left. split; [apply xeq_is; exact CB|apply xeq_same; exact XE].
        -- right. split; [apply xeq_not_is; exact CB|apply CheckBase.xeq_inf; exact XE].
      * apply Z.eqb_neq in G.
        destruct (ri_st it =? 0)%Z eqn:St; [|discriminate E]. apply Z.eqb_eq in St.
        split; [intros; exfalso; lra|]. split; [intros _ _; exact St|].
        split; [intros; exfalso; lra|]. split; [intros _ G'; contradiction|intros; exfalso; lra].
    + (* 0 < y < 1 *)
      assert (NZ : ~ yq == 0). { intro D. apply Qeq_bool_true in D. congruence. }
      assert (N1 : ~ yq == 1). { intro D. apply Qeq_bool_true in D. congruence. }
      split; [intros; exfalso; lra|]. split; [intros; exfalso; lra|].
      split; [intros; exfalso; lra|]. split; [intros; exfalso; lra|]. intros _ _.
      assert (FIN : ri_st it = 0%Z -> ri_st it = 0%Z /\ ri_rst it = 0%Z /\ ri_xb it = ri_refb it).
      { intro St. split; [exact St|]. split; [lia|]. destruct D2' as [D|D]; [lia|exact D]. }
      destruct x as [|s|xq].
      * discriminate E.
      * destruct s.
        -- destruct (rh_cpl h) as [| |c] eqn:CP; try discriminate E.
           destruct ((ri_st it =? 0)%Z && Qle_bool yq c) eqn:C; [|discriminate E].
           apply andb_prop in C. destruct C as [St L]. apply Z.eqb_eq in St. apply Qleb_true in L.
           destruct (FIN St) as (F1 & F2 & F3). split; [exact F1|]. split; [exact F2|]. split; [exact F3|].
           right. left. split; [reflexivity|]. exists c. auto.
        -- destruct (rh_cph h) as [| |c] eqn:CP; try discriminate E.
           destruct ((ri_st it =? 0)%Z && Qltb c yq) eqn:C; [|discriminate E].
           apply andb_prop in C. destruct C as [St L]. apply Z.eqb_eq in St. apply Qltb_true in L.
           destruct (FIN St) as (F1 & F2 & F3). split; [exact F1|]. split; [exact F2|]. split; [exact F3|].
           right. right. split; [reflexivity|]. exists c. auto.
      * destruct (ri_xm it) as [| |xmq] eqn:XM; try discriminate E.
        destruct (ri_c0 it) as [| |c0q] eqn:C0; try discriminate E.
        destruct (ri_cm it) as [| |cmq] eqn:CM; try discriminate E.
        destruct (ri_st it =? 0)%Z eqn:St; cbn [negb] in E; [|discriminate E]. apply Z.eqb_eq in St.
        fold (rel_tol xq) in E.
        destruct (Qltb xmq xq && Qle_bool (xq - xmq) (rel_tol xq)) eqn:T1; cbn [negb] in E; [|discriminate E].
        apply andb_prop in T1. destruct T1 as [T1 T1']. apply Qltb_true in T1. apply Qleb_true in T1'.
        destruct (Z.land (rh_own h) 1 =? 0)%Z eqn:G.
        -- apply Z.eqb_eq in G.
           destruct (Qle_bool yq c0q) eqn:T2; cbn [negb] in E; [|discriminate E]. apply Qleb_true in T2.
           destruct (Qltb cmq (yq + rel_slack_hi (rh_kind h) (rh_par h))) eqn:T3; cbn [negb] in E; [|discriminate E].
           apply Qltb_true in T3.
           destruct (FIN St) as (F1 & F2 & F3). split; [exact F1|]. split; [exact F2|]. split; [exact F3|].
           left. exists xq, xmq, c0q, cmq.
           split; [reflexivity|]. split; [reflexivity|]. split; [reflexivity|]. split; [reflexivity|].
           split; [exact T1|]. split; [exact T1'|]. split; [intros _; exact T2|]. split; [intro NG; contradiction|exact T3].
        -- apply Z.eqb_neq in G.
           destruct (ri_xp it) as [| |xpq] eqn:XP; cbn [negb] in E; try discriminate E.
           destruct (ri_cp it) as [| |cpq] eqn:CPP; cbn [negb] in E; try discriminate E.
           destruct (Qle_bool (xpq - xq) (rel_tol xq) && Qle_bool (yq - eps_level) cpq) eqn:T2; cbn [negb] in E; [|discriminate E].
           apply andb_prop in T2. destruct T2 as [T2 T2']. apply Qleb_true in T2, T2'.
           destruct (Qltb cmq (yq + rel_slack_hi (rh_kind h) (rh_par h))) eqn:T3; cbn [negb] in E; [|discriminate E].
           apply Qltb_true in T3.
           destruct (FIN St) as (F1 & F2 & F3). split; [exact F1|]. split; [exact F2|]. split; [exact F3|].
           left. exists xq, xmq, c0q, cmq.
           split; [reflexivity|]. split; [reflexivity|]. split; [reflexivity|]. split; [reflexivity|].
           split; [exact T1|]. split; [exact T1'|]. split; [intro G'; contradiction|]. split; [|exact T3].
           intros _. exists xpq, cpq. split; [reflexivity|]. split; [reflexivity|]. split; [exact T2|exact T2'].
Qed.

Lemma run_rel_items_sound h : forall items idx tag t,
  run_rel_items h items idx tag = (t, None) -> Forall (rel_level_spec h) items.
Proof.
  induction items as [|it rest IH]; intros idx tag t E; [constructor|].
  cbn [run_rel_items] in E. destruct (check_rel_y h it) as [t0 [dg|]] eqn:C; [discriminate E|].
  constructor; [apply (check_rel_y_sound h it t0 C) | apply (IH _ _ _ E)].
Qed.

(* Rand: the draws of stats.Rand(d) are, bit for bit, those of the reference generator *)
Lemma run_pairs_sound : forall pairs idx, run_pairs pairs idx = None -> Forall (fun gm : Z * Z => fst gm = snd gm) pairs.
Proof.
  induction pairs as [|[g m] rest IH]; intros idx E; [constructor|].
  cbn [run_pairs] in E. destruct (g =? m)%Z eqn:GM; [|discriminate E]. apply Z.eqb_eq in GM.
  constructor; [exact GM | apply (IH _ E)].
Qed.

(* non-decreasing in y, up to the relative tolerance tol on the results *)
Definition levels_ordered_tol (tol : Q) (items : list (xreal * Z * xreal)) : Prop :=
  forall l1 i yi xi l2 j yj xj l3, mono_items 0 items = l1 ++ (i, yi, xi) :: l2 ++ (j, yj, xj) :: l3 ->
  (yi <= yj -> xr_leb tol xi xj = true) /\ (yj <= yi -> xr_leb tol xj xi = true).

Theorem check_C07_op6_sound : forall rest0 c tag pos diag,
  check_C07 (7 :: 6 :: rest0)%Z = verdict c tag pos diag -> (c = 0 \/ c = 1)%Z ->
  exists h rest items pairs,
    p_relhdr rest0 = Some (h, rest) /\ rh_hst h = 0%Z /\
    (do items <- plist p_rel; do pairs <- plist p_pair; pend (h, items, pairs)) rest = Some ((h, items, pairs), []) /\
    Forall (rel_level_spec h) items /\
    levels_ordered_tol (rel_mono_tol (rh_own h)) (rel_plain items) /\
    Forall (fun gm : Z * Z => fst gm = snd gm) pairs.
Proof.
  intros rest0 c tag pos diag E Hc. cbn [check_C07] in E. unfold rel_header in E.
  destruct (p_relhdr rest0) as [[h rest]|] eqn:PH.
  2: { exfalso. apply verdict_inj in E. unfold V_MALFORMED in E. lia. }
  destruct (rh_hst h =? 0)%Z eqn:HS.
  2: { exfalso. apply verdict_inj in E. unfold V_MISMATCH in E. lia. }
  apply Z.eqb_eq in HS.
  destruct ((do items <- plist p_rel; do pairs <- plist p_pair; pend (h, items, pairs)) rest)
    as [[[[h' items] pairs] tl]|] eqn:P.
  2: { exfalso. apply verdict_inj in E. unfold V_MALFORMED in E. lia. }
  assert (TL : h' = h /\ tl = []).
  { clear E. pose proof P as P'. repeat (apply pbind_some in P'; destruct P' as (? & ? & _ & P')).
    apply pend_some in P'. destruct P' as (P1 & _ & P3). injection P1 as -> _ _. auto. }
  destruct TL as [-> ->].
  destruct (with_mono (rel_mono_tol (rh_own h)) (rel_plain items) (run_rel_items h items 0 0)) as [tg [d|]] eqn:WM.
  { exfalso. destruct (InvCDFCheck.finish_accepted _ _ _ _ _ E Hc) as (t & R). discriminate R. }
  destruct (run_pairs pairs 0) as [[idx dg]|] eqn:RP.
  { exfalso. apply verdict_inj in E. unfold V_MISMATCH in E. lia. }
  destruct (with_mono_none _ _ _ _ WM) as (R1 & R2).
  exists h, rest, items, pairs. split; [reflexivity|]. split; [exact HS|]. split; [exact P|].
  split; [apply (run_rel_items_sound h items 0%Z 0%Z tg R1)|].
  split; [|apply (run_pairs_sound pairs 0%Z RP)].
  intros l1 i yi xi l2 j yj xj l3 EL. apply (mono_check_sound _ _ R2 l1 i yi xi l2 j yj xj l3 EL).
Qed.

(* ====================== C. Rand with a scripted source: ops 4 and 7 ======================
   stats.Rand(d)(r) with r a *rand.Rand over a source that returns the scripted int63 values (each a multiple of
   2^10 below 2^63, so that Float64() = v / 2^63 exactly).  An accepted line means: the call returned, it consumed
   exactly the leading zeros of the source plus one value, the level y it reports is that first non-zero value, the
   draw has the bits of InvCDF(d)(y), and that level satisfies the level specification of the distribution
   (op 4: level_spec of a piecewise cdf, Proofs/InvCDFCheck.v; op 7: rel_level_spec above). *)
Definition src_valid (v : Z) : Prop := (0 <= v < 2 ^ 63)%Z /\ Z.land v 1023 = 0%Z.
(* yq is the first non-zero Float64() of the source; consumed counts the values up to and including it *)
Definition rand_reading (src : list Z) (consumed : Z) (yq : Q) : Prop :=
  Forall src_valid src /\
  exists zeros rest, map float64_of_int63 src = zeros ++ yq :: rest /\ (forall z, In z zeros -> z == 0) /\
                     ~ yq == 0 /\ consumed = Z.of_nat (S (length zeros)).

Lemma src_valid_of l :
  existsb (fun v => (v <? 0) || (2 ^ 63 <=? v) || negb (Z.land v 1023 =? 0))%Z l = false -> Forall src_valid l.
Proof.
  induction l as [|v r IH]; intro H; [constructor|]. cbn [existsb] in H.
  apply Bool.orb_false_iff in H. destruct H as [H Hr]. constructor; [|apply IH; exact Hr].
  apply Bool.orb_false_iff in H. destruct H as [H H3]. apply Bool.orb_false_iff in H. destruct H as [H1 H2].
  apply Z.ltb_ge in H1. apply Z.leb_gt in H2. apply Bool.negb_false_iff in H3. apply Z.eqb_eq in H3.
  split; [split; assumption|exact H3].
Qed.

Lemma rand_model_id_some : forall (src : list Q) yq n, rand_model (fun q : Q => q) src = Some (yq, n) ->
  exists zeros rest, src = zeros ++ yq :: rest /\ (forall z, In z zeros -> z == 0) /\ ~ yq == 0 /\ n = S (length zeros).
Proof.
  induction src as [|y r IH]; intros yq n H; [discriminate H|]. cbn [rand_model] in H.
  destruct (Qeq_bool y 0) eqn:Z0.
  - destruct (rand_model (fun q : Q => q) r) as [[r0 n0]|] eqn:E; [|discriminate H]. injection H as <- <-.
    destruct (IH r0 n0) as (zs & rest & -> & Hz & Hy & ->); [first [reflexivity|exact E]|].
    exists (y :: zs), rest. split; [reflexivity|]. split; [|split; [exact Hy|reflexivity]].
    intros z [<-|Hin]; [apply Qeq_bool_true; exact Z0|apply Hz; exact Hin].
  - injection H as <- <-. exists [], r. split; [reflexivity|]. split; [intros z []|]. split; [|reflexivity].
    intro D. apply Qeq_bool_true in D. congruence.
Qed.

Lemma match99 {A : Type} (dg : list Z) (a b : A) :
  match dg with [99%Z] => a | _ => b end = a \/ match dg with [99%Z] => a | _ => b end = b.
Proof.
  destruct dg as [|d0 r]; auto. destruct d0 as [|p|p]; try (destruct r; auto; fail).
  do 7 (try (destruct p as [p|p|]; try (destruct r; auto; fail))).
Qed.

Theorem check_C07_op4_sound : forall rest c tag pos diag,
  check_C07 (7 :: 4 :: rest)%Z = verdict c tag pos diag -> (c = 0 \/ c = 1)%Z ->
  exists pw bl bh src st consumed y draw ist inv,
    (do pw <- plist p_knot; do bl <- pQ; do bh <- pQ; do src <- plist pZ;
     do st <- pZ; do consumed <- pZ; do y <- pX; do draw <- pZ; do ist <- pZ; do inv <- pZ;
     pend (pw, bl, bh, src, (st, consumed, y), (draw, ist, inv))) rest
      = Some ((pw, bl, bh, src, (st, consumed, y), (draw, ist, inv)), []) /\
    pw_wf pw /\ st = 0%Z /\ ist = 0%Z /\ draw = inv /\
    exists yq, xr_is yq y /\ rand_reading src consumed yq /\ level_spec pw bl bh (XFin yq, ist, decode_bits inv).
Proof.
  intros rest c tag pos diag E Hc. cbn [check_C07] in E.
  destruct ((do pw <- plist p_knot; do bl <- pQ; do bh <- pQ; do src <- plist pZ;
             do st <- pZ; do consumed <- pZ; do y <- pX; do draw <- pZ; do ist <- pZ; do inv <- pZ;
             pend (pw, bl, bh, src, (st, consumed, y), (draw, ist, inv))) rest)
    as [[[[[[[pw bl] bh] src] [[st consumed] y]] [[draw ist] inv]] tl]|] eqn:P.
  2: { exfalso. apply verdict_inj in E. unfold V_MALFORMED in E. lia. }
  assert (TL : tl = []).
  { clear E. repeat (apply pbind_some in P; destruct P as (? & ? & _ & P)). apply pend_some in P. tauto. }
  subst tl.
  destruct (negb (valid_pw pw) || existsb (fun v => (v <? 0) || (2 ^ 63 <=? v) || negb (Z.land v 1023 =? 0))%Z src) eqn:V.
  { exfalso. apply verdict_inj in E. unfold V_MALFORMED in E. lia. }
  apply Bool.orb_false_iff in V. destruct V as [V1 V2]. apply Bool.negb_false_iff in V1.
  assert (W : pw_wf pw) by (apply pw_wfb_sound; exact V1). apply src_valid_of in V2.
  destruct (rand_model (fun q : Q => q) (map float64_of_int63 src)) as [[yq n]|] eqn:RM.
  2: { exfalso. apply verdict_inj in E. unfold V_MALFORMED in E. lia. }
  cbv zeta in E.
  destruct (st =? 0)%Z eqn:St; cbn [negb] in E.
  2: { exfalso. apply verdict_inj in E. unfold V_MISMATCH in E. lia. }
  destruct (consumed =? Z.of_nat n)%Z eqn:Cn; cbn [negb] in E.
  2: { exfalso. apply verdict_inj in E. unfold V_MISMATCH in E. lia. }
  destruct (xeq (XFin yq) y) eqn:Xy; cbn [negb] in E.
  2: { exfalso. apply verdict_inj in E. unfold V_MISMATCH in E. lia. }
  destruct ((ist =? 0)%Z && (draw =? inv)%Z) eqn:Di; cbn [negb] in E.
  2: { exfalso. apply verdict_inj in E. unfold V_MISMATCH in E. lia. }
  apply Z.eqb_eq in St, Cn. apply andb_prop in Di. destruct Di as [Di1 Di2]. apply Z.eqb_eq in Di1, Di2.
  destruct (check_pw_y pw bl bh (XFin yq) ist (decode_bits inv)) as [t [dg|]] eqn:CK.
  { exfalso. destruct (match99 dg (verdict V_MALFORMED (Z.lor T_RAND (if (1 <? n)%nat then T_ZEROSKIP else 0%Z)) 4 dg)
                                 (verdict V_MISMATCH (Z.lor (Z.lor T_RAND (if (1 <? n)%nat then T_ZEROSKIP else 0%Z)) t) 4 dg)) as [M|M];
      rewrite M in E; apply verdict_inj in E; unfold V_MALFORMED, V_MISMATCH in E; lia. }
  exists pw, bl, bh, src, st, consumed, y, draw, ist, inv. split; [reflexivity|]. split; [exact W|].
  split; [exact St|]. split; [exact Di1|]. split; [exact Di2|].
  exists yq. split; [apply xeq_is; exact Xy|]. split.
  - split; [exact V2|]. destruct (rand_model_id_some _ _ _ RM) as (zs & rs & E1 & Hz & Hy & Hn).
    exists zs, rs. split; [exact E1|]. split; [exact Hz|]. split; [exact Hy|]. rewrite Cn, Hn. reflexivity.
  - apply (check_pw_y_level pw bl bh (XFin yq) ist (decode_bits inv) t W CK).
Qed.

Theorem check_C07_op7_sound : forall rest0 c tag pos diag,
  check_C07 (7 :: 7 :: rest0)%Z = verdict c tag pos diag -> (c = 0 \/ c = 1)%Z ->
  exists h rest src st consumed y draw it,
    p_relhdr rest0 = Some (h, rest) /\ rh_hst h = 0%Z /\
    (do src <- plist pZ; do st <- pZ; do consumed <- pZ; do y <- pX; do draw <- pZ; do it <- p_rel;
     pend (h, src, (st, consumed, y), draw, it)) rest = Some ((h, src, (st, consumed, y), draw, it), []) /\
    Z.land (rh_own h) 2 = 0%Z /\            (* no Rand method of its own: the generic stats.Rand ran *)
    st = 0%Z /\ ri_st it = 0%Z /\ draw = ri_xb it /\
    exists yq, xr_is yq y /\ xr_is yq (ri_y it) /\ rand_reading src consumed yq /\ rel_level_spec h it.
Proof.
  intros rest0 c tag pos diag E Hc. cbn [check_C07] in E. unfold rel_header in E.
  destruct (p_relhdr rest0) as [[h rest]|] eqn:PH.
  2: { exfalso. apply verdict_inj in E. unfold V_MALFORMED in E. lia. }
  destruct (rh_hst h =? 0)%Z eqn:HS.
  2: { exfalso. apply verdict_inj in E. unfold V_MISMATCH in E. lia. }
  apply Z.eqb_eq in HS.
  destruct ((do src <- plist pZ; do st <- pZ; do consumed <- pZ; do y <- pX; do draw <- pZ; do it <- p_rel;
             pend (h, src, (st, consumed, y), draw, it)) rest)
    as [[[[[[h' src] [[st consumed] y]] draw] it] tl]|] eqn:P.
  2: { exfalso. apply verdict_inj in E. unfold V_MALFORMED in E. lia. }
  assert (TL : h' = h /\ tl = []).
  { clear E. pose proof P as P'. repeat (apply pbind_some in P'; destruct P' as (? & ? & _ & P')).
    apply pend_some in P'. destruct P' as (P1 & _ & P3). injection P1 as -> _ _ _ _ _ _. auto. }
  destruct TL as [-> ->].
  destruct (existsb (fun v => (v <? 0) || (2 ^ 63 <=? v) || negb (Z.land v 1023 =? 0))%Z src || negb (Z.land (rh_own h) 2 =? 0)%Z) eqn:V.
  { exfalso. apply verdict_inj in E. unfold V_MALFORMED in E. lia. }
  apply Bool.orb_false_iff in V. destruct V as [V2 V1]. apply Bool.negb_false_iff in V1. apply Z.eqb_eq in V1.
  apply src_valid_of in V2.
  destruct (rand_model (fun q : Q => q) (map float64_of_int63 src)) as [[yq n]|] eqn:RM.
  2: { exfalso. apply verdict_inj in E. unfold V_MALFORMED in E. lia. }
  cbv zeta in E.
  destruct (st =? 0)%Z eqn:St; cbn [negb] in E.
  2: { exfalso. apply verdict_inj in E. unfold V_MISMATCH in E. lia. }
  destruct (consumed =? Z.of_nat n)%Z eqn:Cn; cbn [negb] in E.
  2: { exfalso. apply verdict_inj in E. unfold V_MISMATCH in E. lia. }
  destruct (xeq (XFin yq) y && xeq (XFin yq) (ri_y it)) eqn:Xy; cbn [negb] in E.
  2: { exfalso. apply verdict_inj in E. unfold V_MISMATCH in E. lia. }
  destruct ((ri_st it =? 0)%Z && (draw =? ri_xb it)%Z) eqn:Di; cbn [negb] in E.
  2: { exfalso. apply verdict_inj in E. unfold V_MISMATCH in E. lia. }
  apply Z.eqb_eq in St, Cn. apply andb_prop in Di. destruct Di as [Di1 Di2]. apply Z.eqb_eq in Di1, Di2.
  apply andb_prop in Xy. destruct Xy as [Xy1 Xy2].
  destruct (check_rel_y h it) as [t [dg|]] eqn:CK.
  { exfalso. destruct (match99 dg (verdict V_MALFORMED (Z.lor T_RAND (if (1 <? n)%nat then T_ZEROSKIP else 0%Z)) 4 dg)
                                 (verdict V_MISMATCH (Z.lor (Z.lor T_RAND (if (1 <? n)%nat then T_ZEROSKIP else 0%Z)) t) 4 dg)) as [M|M];
      rewrite M in E; apply verdict_inj in E; unfold V_MALFORMED, V_MISMATCH in E; lia. }
  exists h, rest, src, st, consumed, y, draw, it. split; [reflexivity|]. split; [exact HS|]. split; [exact P|].
  split; [exact V1|]. split; [exact St|]. split; [exact Di1|]. split; [exact Di2|].
  exists yq. split; [apply xeq_is; exact Xy1|]. split; [apply xeq_is; exact Xy2|]. split.
  - split; [exact V2|]. destruct (rand_model_id_some _ _ _ RM) as (zs & rs & E1 & Hz & Hy & Hn).
    exists zs, rs. split; [exact E1|]. split; [exact Hz|]. split; [exact Hy|]. rewrite Cn, Hn. reflexivity.
  - apply (check_rel_y_sound h it t CK).
Qed.

(* ====================== D. the remaining ops: 3, 9 (bit identity), 5, 8, 10 (Kolmogorov-Smirnov) ======================
   op 3  (dispatch lines as emitted before the relational kinds 5, 6): every level returned and the bits of
         stats.InvCDF(d)(y) are the bits of d.InvCDF(y); every Rand pair has the same bits.
   op 9  (the distribution has its OWN Rand method): header status 0, own bit 1 set, every pair of draws from two
         equally seeded sources returned with the same bits.
   op 8  Kolmogorov-Smirnov distance computed by the comparator against the exact pw_cdf: the draws (TRUSTED: they are
         the sorted results of stats.Rand as reported by the harness, harness/c07.go) are non-decreasing and there is d
         with d^2 * 2n <= ks_bound (the DKW bound at false-alarm probability 1e-9) that bounds EVERY term
         (i+1)/n - cdf (v_i + tol_i) and cdf (v_i - tol_i) - i/n, tol_i = 1e-9 |v_i| (just below 0 for a draw that is 0).
   op 10 the same against the harness-reported values cm_i = d.CDF(v_i - tol), cp_i = d.CDF(v_i + tol) of the
         distribution's own cdf (TRUSTED observations, harness/c07_dists.go c07RunKSRel).
   op 5  the distance D itself is computed by the harness (TRUSTED): st = 0, 0 <= D, D^2 * 2n <= ks_bound. *)
Definition disp_ok (it : Z * Z * Z * Z) : Prop := let '(y, st, g, m) := it in st = 0%Z /\ g = m.
Definition det_ok (it : Z * Z * Z * Z) : Prop := let '(s1, d1, s2, d2) := it in s1 = 0%Z /\ s2 = 0%Z /\ d1 = d2.

Lemma run_disp_sound : forall items idx, run_disp items idx = None -> Forall disp_ok items.
Proof.
  induction items as [|[[[y st] g] m] rest IH]; intros idx E; [constructor|].
  cbn [run_disp] in E. destruct ((st =? 0)%Z && (g =? m)%Z) eqn:C; [|discriminate E].
  apply andb_prop in C. destruct C as [C1 C2]. apply Z.eqb_eq in C1, C2.
  constructor; [split; assumption | apply (IH _ E)].
Qed.
Lemma run_det_sound : forall items idx, run_det items idx = None -> Forall det_ok items.
Proof.
  induction items as [|[[[s1 d1] s2] d2] rest IH]; intros idx E; [constructor|].
  cbn [run_det] in E. destruct ((s1 =? 0)%Z && (s2 =? 0)%Z && (d1 =? d2)%Z) eqn:C; [|discriminate E].
  apply andb_prop in C. destruct C as [C C3]. apply andb_prop in C. destruct C as [C1 C2]. apply Z.eqb_eq in C1, C2, C3.
  constructor; [repeat split; assumption | apply (IH _ E)].
Qed.

(* the two terms of the distance at the i-th (0-based) of n sorted draws *)
Definition ks_up (pw : pwf) (n : Q) (i : Z) (v : Q) : Q := inject_Z (i + 1) / n - pw_cdf pw (v + e9 * Qabs v).
Definition ks_dn (pw : pwf) (n : Q) (i : Z) (v : Q) : Q :=
  pw_cdf pw (if Qeq_bool v 0 then - ks_tiny else v - e9 * Qabs v) - inject_Z i / n.

Lemma ks_scan_sound pw n : forall xs i prev best d, ks_scan pw n i prev xs best = Some d ->
  best <= d /\
  (forall p v, prev = Some p -> nth_error xs 0 = Some v -> p <= v) /\
  (forall j a b, nth_error xs j = Some a -> nth_error xs (S j) = Some b -> a <= b) /\
  (forall j v, nth_error xs j = Some v ->
     ks_up pw n (i + Z.of_nat j) v <= d /\ ks_dn pw n (i + Z.of_nat j) v <= d).
Proof.
  induction xs as [|v r IH]; intros i prev best d H.
  - cbn [ks_scan] in H. injection H as <-. split; [lra|]. split; [intros p v _ N; discriminate N|].
    split; [intros j a b N; destruct j; discriminate N | intros j v N; destruct j; discriminate N].
  - cbn [ks_scan] in H.
    destruct (match prev with Some p => Qltb v p | None => false end) eqn:SO; [discriminate H|]. cbv zeta in H.
    match type of H with ks_scan _ _ _ _ _ (Qmaxb ?b (Qmaxb ?u ?dn)) = _ =>
      pose proof (Qmaxb_spec b (Qmaxb u dn)) as (M1 & M2 & _); pose proof (Qmaxb_spec u dn) as (M3 & M4 & _) end.
    apply IH in H. destruct H as (B & P & Srt & T).
    split; [lra|]. split; [|split].
    + intros p v0 -> N. cbn in N. injection N as <-. apply Qltb_false in SO. exact SO.
    + intros j a b Na Nb. destruct j as [|j].
      * cbn in Na, Nb. injection Na as <-. apply (P v b eq_refl Nb).
      * apply (Srt j a b Na Nb).
    + intros j v0 N. destruct j as [|j].
      * cbn in N. injection N as <-. rewrite Z.add_0_r. unfold ks_up, ks_dn. split; lra.
      * cbn [nth_error] in N. destruct (T j v0 N) as [T1 T2].
        replace (i + Z.of_nat (S j))%Z with (i + 1 + Z.of_nat j)%Z by lia. auto.
Qed.

(* what an accepted op-8 sample means, for the distance d found *)
Definition ks_pw_spec (pw : pwf) (xs : list Q) (d : Q) : Prop :=
  let n := inject_Z (Z.of_nat (length xs)) in
  (forall j a b, nth_error xs j = Some a -> nth_error xs (S j) = Some b -> a <= b) /\
  (forall j v, nth_error xs j = Some v -> ks_up pw n (Z.of_nat j) v <= d /\ ks_dn pw n (Z.of_nat j) v <= d).

(* op 10: the items are (draw, cm, cp), all finite *)
Lemma ks_scan3_sound n : forall xs i prev best d, ks_scan3 n i prev xs best = Some d ->
  best <= d /\
  (forall p v cm cp, prev = Some p -> nth_error xs 0 = Some (XFin v, cm, cp) -> p <= v) /\
  (forall j a ca ca' b cb cb', nth_error xs j = Some (XFin a, ca, ca') -> nth_error xs (S j) = Some (XFin b, cb, cb') -> a <= b) /\
  (forall j it, nth_error xs j = Some it -> exists v cm cp, it = (XFin v, XFin cm, XFin cp) /\
     inject_Z (i + Z.of_nat j + 1) / n - cp <= d /\ cm - inject_Z (i + Z.of_nat j) / n <= d).
Proof.
  induction xs as [|[[xv xm] xp] r IH]; intros i prev best d H.
  - cbn [ks_scan3] in H. injection H as <-. split; [lra|]. split; [intros p v cm cp _ N; discriminate N|].
    split; [intros j a ca ca' b cb cb' N; destruct j; discriminate N | intros j it N; destruct j; discriminate N].
  - cbn [ks_scan3] in H.
    destruct xv as [| |v]; try discriminate H. destruct xm as [| |cm]; try discriminate H.
    destruct xp as [| |cp]; try discriminate H.
    destruct (match prev with Some p => Qltb v p | None => false end) eqn:SO; [discriminate H|]. cbv zeta in H.
    match type of H with ks_scan3 _ _ _ _ (Qmaxb ?b (Qmaxb ?u ?dn)) = _ =>
      pose proof (Qmaxb_spec b (Qmaxb u dn)) as (M1 & M2 & _); pose proof (Qmaxb_spec u dn) as (M3 & M4 & _) end.
    apply IH in H. destruct H as (B & P & Srt & T).
    split; [lra|]. split; [|split].
    + intros p v0 cm0 cp0 -> N. cbn in N. injection N as <- _ _. apply Qltb_false in SO. exact SO.
    + intros j a ca ca' b cb cb' Na Nb. destruct j as [|j].
      * cbn in Na, Nb. injection Na as <- _ _. apply (P v b cb cb' eq_refl Nb).
      * apply (Srt j a ca ca' b cb cb' Na Nb).
    + intros j it N. destruct j as [|j].
      * cbn in N. injection N as <-. exists v, cm, cp. split; [reflexivity|]. rewrite Z.add_0_r. split; lra.
      * cbn [nth_error] in N. destruct (T j it N) as (v0 & cm0 & cp0 & -> & T1 & T2).
        exists v0, cm0, cp0. split; [reflexivity|].
        replace (i + Z.of_nat (S j))%Z with (i + 1 + Z.of_nat j)%Z by lia. auto.
Qed.

Definition ks_own_spec (items : list (xreal * xreal * xreal)) (d : Q) : Prop :=
  let n := inject_Z (Z.of_nat (length items)) in
  (forall j a ca ca' b cb cb', nth_error items j = Some (XFin a, ca, ca') -> nth_error items (S j) = Some (XFin b, cb, cb') -> a <= b) /\
  (forall j it, nth_error items j = Some it -> exists v cm cp, it = (XFin v, XFin cm, XFin cp) /\
     inject_Z (Z.of_nat j + 1) / n - cp <= d /\ cm - inject_Z (Z.of_nat j) / n <= d).

Theorem check_C07_op3_sound : forall rest c tag pos diag,
  check_C07 (7 :: 3 :: rest)%Z = verdict c tag pos diag -> (c = 0 \/ c = 1)%Z ->
  exists items pairs,
    (do kind <- pZ; do a <- pZ; do b <- pZ; do items <- plist p_disp; do pairs <- plist p_pair; pend (items, pairs)) rest
      = Some ((items, pairs), []) /\
    Forall disp_ok items /\ Forall (fun gm : Z * Z => fst gm = snd gm) pairs.
Proof.
  intros rest c tag pos diag E Hc. cbn [check_C07] in E.
  destruct ((do kind <- pZ; do a <- pZ; do b <- pZ; do items <- plist p_disp; do pairs <- plist p_pair; pend (items, pairs)) rest)
    as [[[items pairs] tl]|] eqn:P.
  2: { exfalso. apply verdict_inj in E. unfold V_MALFORMED in E. lia. }
  assert (TL : tl = []).
  { clear E. repeat (apply pbind_some in P; destruct P as (? & ? & _ & P)). apply pend_some in P. tauto. }
  subst tl.
  destruct (run_disp items 0) as [[idx dg]|] eqn:RD.
  { exfalso. apply verdict_inj in E. unfold V_MISMATCH in E. lia. }
  destruct (run_pairs pairs 0) as [[idx dg]|] eqn:RP.
  { exfalso. apply verdict_inj in E. unfold V_MISMATCH in E. lia. }
  exists items, pairs. split; [reflexivity|]. split; [apply (run_disp_sound _ _ RD)|apply (run_pairs_sound _ _ RP)].
Qed.

Theorem check_C07_op9_sound : forall rest0 c tag pos diag,
  check_C07 (7 :: 9 :: rest0)%Z = verdict c tag pos diag -> (c = 0 \/ c = 1)%Z ->
  exists h rest items,
    p_relhdr rest0 = Some (h, rest) /\ rh_hst h = 0%Z /\
    (do items <- plist p_det; pend items) rest = Some (items, []) /\
    Z.land (rh_own h) 2 <> 0%Z /\ Forall det_ok items.
Proof.
  intros rest0 c tag pos diag E Hc. cbn [check_C07] in E. unfold rel_header in E.
  destruct (p_relhdr rest0) as [[h rest]|] eqn:PH.
  2: { exfalso. apply verdict_inj in E. unfold V_MALFORMED in E. lia. }
  destruct (rh_hst h =? 0)%Z eqn:HS.
  2: { exfalso. apply verdict_inj in E. unfold V_MISMATCH in E. lia. }
  apply Z.eqb_eq in HS.
  destruct ((do items <- plist p_det; pend items) rest) as [[items tl]|] eqn:P.
  2: { exfalso. apply verdict_inj in E. unfold V_MALFORMED in E. lia. }
  assert (TL : tl = []).
  { clear E. pose proof P as P'. repeat (apply pbind_some in P'; destruct P' as (? & ? & _ & P')). apply pend_some in P'. tauto. }
  subst tl.
  destruct (Z.land (rh_own h) 2 =? 0)%Z eqn:OW.
  { exfalso. apply verdict_inj in E. unfold V_MALFORMED in E. lia. }
  apply Z.eqb_neq in OW.
  destruct (run_det items 0) as [[idx dg]|] eqn:RD.
  { exfalso. apply verdict_inj in E. unfold V_MISMATCH in E. lia. }
  exists h, rest, items. split; [reflexivity|]. split; [exact HS|]. split; [exact P|]. split; [exact OW|apply (run_det_sound _ _ RD)].
Qed.

Theorem check_C07_op5_sound : forall rest c tag pos diag,
  check_C07 (7 :: 5 :: rest)%Z = verdict c tag pos diag -> (c = 0 \/ c = 1)%Z ->
  exists pw n st D,
    (do pw <- plist p_knot; do bl <- pQ; do bh <- pQ; do n <- pZ; do st <- pZ; do d <- pX; pend (pw, n, st, d)) rest
      = Some ((pw, n, st, XFin D), []) /\
    pw_wf pw /\ (1 <= n)%Z /\ st = 0%Z /\ 0 <= D /\ D * D * inject_Z (2 * n) <= ks_bound.
Proof.
  intros rest c tag pos diag E Hc. cbn [check_C07] in E.
  destruct ((do pw <- plist p_knot; do bl <- pQ; do bh <- pQ; do n <- pZ; do st <- pZ; do d <- pX; pend (pw, n, st, d)) rest)
    as [[[[[pw n] st] d] tl]|] eqn:P.
  2: { exfalso. apply verdict_inj in E. unfold V_MALFORMED in E. lia. }
  assert (TL : tl = []).
  { clear E. repeat (apply pbind_some in P; destruct P as (? & ? & _ & P)). apply pend_some in P. tauto. }
  subst tl.
  destruct (negb (valid_pw pw) || (n <? 1)%Z) eqn:V.
  { exfalso. apply verdict_inj in E. unfold V_MALFORMED in E. lia. }
  apply Bool.orb_false_iff in V. destruct V as [V1 V2]. apply Bool.negb_false_iff in V1. apply Z.ltb_ge in V2.
  destruct d as [| |D].
  1, 2: exfalso; apply verdict_inj in E; unfold V_MISMATCH in E; lia.
  destruct ((st =? 0)%Z && Qle_bool 0 D && Qle_bool (D * D * inject_Z (2 * n)) ks_bound) eqn:C.
  2: { exfalso. apply verdict_inj in E. unfold V_MISMATCH in E. lia. }
  apply andb_prop in C. destruct C as [C C3]. apply andb_prop in C. destruct C as [C1 C2].
  apply Z.eqb_eq in C1. apply Qleb_true in C2, C3.
  exists pw, n, st, D. split; [reflexivity|]. split; [apply pw_wfb_sound; exact V1|]. auto.
Qed.

Theorem check_C07_op8_sound : forall rest c tag pos diag,
  check_C07 (7 :: 8 :: rest)%Z = verdict c tag pos diag -> (c = 0 \/ c = 1)%Z ->
  exists pw st xs,
    (do pw <- plist p_knot; do bl <- pQ; do bh <- pQ; do st <- pZ; do xs <- plist pQ; pend (pw, st, xs)) rest
      = Some ((pw, st, xs), []) /\
    pw_wf pw /\ (1 <= Z.of_nat (length xs))%Z /\ st = 0%Z /\
    exists d, ks_scan pw (inject_Z (Z.of_nat (length xs))) 0 None xs 0 = Some d /\
              0 <= d /\ d * d * inject_Z (2 * Z.of_nat (length xs)) <= ks_bound /\ ks_pw_spec pw xs d.
Proof.
  intros rest c tag pos diag E Hc. cbn [check_C07] in E.
  destruct ((do pw <- plist p_knot; do bl <- pQ; do bh <- pQ; do st <- pZ; do xs <- plist pQ; pend (pw, st, xs)) rest)
    as [[[[pw st] xs] tl]|] eqn:P.
  2: { exfalso. apply verdict_inj in E. unfold V_MISMATCH in E. lia. }
  assert (TL : tl = []).
  { clear E. repeat (apply pbind_some in P; destruct P as (? & ? & _ & P)). apply pend_some in P. tauto. }
  subst tl. cbv zeta in E.
  destruct (negb (valid_pw pw) || (Z.of_nat (length xs) <? 1)%Z) eqn:V.
  { exfalso. apply verdict_inj in E. unfold V_MALFORMED in E. lia. }
  apply Bool.orb_false_iff in V. destruct V as [V1 V2]. apply Bool.negb_false_iff in V1. apply Z.ltb_ge in V2.
  destruct (st =? 0)%Z eqn:St; cbn [negb] in E.
  2: { exfalso. apply verdict_inj in E. unfold V_MISMATCH in E. lia. }
  apply Z.eqb_eq in St.
  destruct (ks_scan pw (inject_Z (Z.of_nat (length xs))) 0 None xs 0) as [d|] eqn:KS.
  2: { exfalso. apply verdict_inj in E. unfold V_MALFORMED in E. lia. }
  destruct (Qle_bool (d * d * inject_Z (2 * Z.of_nat (length xs))) ks_bound) eqn:B.
  2: { exfalso. apply verdict_inj in E. unfold V_MISMATCH in E. lia. }
  apply Qleb_true in B.
  destruct (ks_scan_sound _ _ _ _ _ _ _ KS) as (K0 & _ & K2 & K3).
  exists pw, st, xs. split; [first [reflexivity|exact P]|]. split; [apply pw_wfb_sound; exact V1|]. split; [exact V2|]. split; [exact St|].
  exists d. split; [first [reflexivity|exact KS]|]. split; [exact K0|]. split; [exact B|]. split; [exact K2|exact K3].
Qed.

Theorem check_C07_op10_sound : forall rest0 c tag pos diag,
  check_C07 (7 :: 10 :: rest0)%Z = verdict c tag pos diag -> (c = 0 \/ c = 1)%Z ->
  exists h rest st items,
    p_relhdr rest0 = Some (h, rest) /\ rh_hst h = 0%Z /\
    (do st <- pZ; do items <- plist p_ks3; pend (st, items)) rest = Some ((st, items), []) /\
    (1 <= Z.of_nat (length items))%Z /\ st = 0%Z /\
    exists d, ks_scan3 (inject_Z (Z.of_nat (length items))) 0 None items 0 = Some d /\
              0 <= d /\ d * d * inject_Z (2 * Z.of_nat (length items)) <= ks_bound /\ ks_own_spec items d.
Proof.
  intros rest0 c tag pos diag E Hc. cbn [check_C07] in E. unfold rel_header in E.
  destruct (p_relhdr rest0) as [[h rest]|] eqn:PH.
  2: { exfalso. apply verdict_inj in E. unfold V_MALFORMED in E. lia. }
  destruct (rh_hst h =? 0)%Z eqn:HS.
  2: { exfalso. apply verdict_inj in E. unfold V_MISMATCH in E. lia. }
  apply Z.eqb_eq in HS.
  destruct ((do st <- pZ; do items <- plist p_ks3; pend (st, items)) rest) as [[[st items] tl]|] eqn:P.
  2: { exfalso. apply verdict_inj in E. unfold V_MALFORMED in E. lia. }
  assert (TL : tl = []).
  { clear E. pose proof P as P'. repeat (apply pbind_some in P'; destruct P' as (? & ? & _ & P')). apply pend_some in P'. tauto. }
  subst tl. cbv zeta in E.
  destruct (Z.of_nat (length items) <? 1)%Z eqn:V.
  { exfalso. apply verdict_inj in E. unfold V_MALFORMED in E. lia. }
  apply Z.ltb_ge in V.
  destruct (st =? 0)%Z eqn:St; cbn [negb] in E.
  2: { exfalso. apply verdict_inj in E. unfold V_MISMATCH in E. lia. }
  apply Z.eqb_eq in St.
  destruct (ks_scan3 (inject_Z (Z.of_nat (length items))) 0 None items 0) as [d|] eqn:KS.
  2: { exfalso. apply verdict_inj in E. unfold V_MISMATCH in E. lia. }
  destruct (Qle_bool (d * d * inject_Z (2 * Z.of_nat (length items))) ks_bound) eqn:B.
  2: { exfalso. apply verdict_inj in E. unfold V_MISMATCH in E. lia. }
  apply Qleb_true in B.
  destruct (ks_scan3_sound _ _ _ _ _ _ KS) as (K0 & _ & K2 & K3).
  exists h, rest, st, items. split; [reflexivity|]. split; [exact HS|]. split; [exact P|]. split; [exact V|]. split; [exact St|].
  exists d. split; [first [reflexivity|exact KS]|]. split; [exact K0|]. split; [exact B|]. split; [exact K2|exact K3].
Qed.

(* the five readings of this section as one statement (one Print Assumptions in Properties/C07.v) *)
Theorem check_C07_other_ops_sound :
  (forall rest c tag pos diag,
  check_C07 (7 :: 3 :: rest)%Z = verdict c tag pos diag -> (c = 0 \/ c = 1)%Z ->
  exists items pairs,
    (do kind <- pZ; do a <- pZ; do b <- pZ; do items <- plist p_disp; do pairs <- plist p_pair; pend (items, pairs)) rest
      = Some ((items, pairs), []) /\
    Forall disp_ok items /\ Forall (fun gm : Z * Z => fst gm = snd gm) pairs) /\
  (forall rest0 c tag pos diag,
  check_C07 (7 :: 9 :: rest0)%Z = verdict c tag pos diag -> (c = 0 \/ c = 1)%Z ->
  exists h rest items,
    p_relhdr rest0 = Some (h, rest) /\ rh_hst h = 0%Z /\
    (do items <- plist p_det; pend items) rest = Some (items, []) /\
    Z.land (rh_own h) 2 <> 0%Z /\ Forall det_ok items) /\
  (forall rest c tag pos diag,
  check_C07 (7 :: 5 :: rest)%Z = verdict c tag pos diag -> (c = 0 \/ c = 1)%Z ->
  exists pw n st D,
    (do pw <- plist p_knot; do bl <- pQ; do bh <- pQ; do n <- pZ; do st <- pZ; do d <- pX; pend (pw, n, st, d)) rest
      = Some ((pw, n, st, XFin D), []) /\
    pw_wf pw /\ (1 <= n)%Z /\ st = 0%Z /\ 0 <= D /\ D * D * inject_Z (2 * n) <= ks_bound) /\
  (forall rest c tag pos diag,
  check_C07 (7 :: 8 :: rest)%Z = verdict c tag pos diag -> (c = 0 \/ c = 1)%Z ->
  exists pw st xs,
    (do pw <- plist p_knot; do bl <- pQ; do bh <- pQ; do st <- pZ; do xs <- plist pQ; pend (pw, st, xs)) rest
      = Some ((pw, st, xs), []) /\
    pw_wf pw /\ (1 <= Z.of_nat (length xs))%Z /\ st = 0%Z /\
    exists d, ks_scan pw (inject_Z (Z.of_nat (length xs))) 0 None xs 0 = Some d /\
              0 <= d /\ d * d * inject_Z (2 * Z.of_nat (length xs)) <= ks_bound /\ ks_pw_spec pw xs d) /\
  (forall rest0 c tag pos diag,
  check_C07 (7 :: 10 :: rest0)%Z = verdict c tag pos diag -> (c = 0 \/ c = 1)%Z ->
  exists h rest st items,
    p_relhdr rest0 = Some (h, rest) /\ rh_hst h = 0%Z /\
    (do st <- pZ; do items <- plist p_ks3; pend (st, items)) rest = Some ((st, items), []) /\
    (1 <= Z.of_nat (length items))%Z /\ st = 0%Z /\
    exists d, ks_scan3 (inject_Z (Z.of_nat (length items))) 0 None items 0 = Some d /\
              0 <= d /\ d * d * inject_Z (2 * Z.of_nat (length items)) <= ks_bound /\ ks_own_spec items d).
Proof.
  exact (conj check_C07_op3_sound (conj check_C07_op9_sound (conj check_C07_op5_sound
        (conj check_C07_op8_sound check_C07_op10_sound)))).
Qed.

(* ====================== E. op 11: InvCDF (UDist{N1, N2, T}) against the exact model of C02 ======================
   The support of U is 0, 1/2, ..., N1*N2; the comparison is made in DOUBLED units: support points k = 0 .. 2 N1 N2,
   F k := udist_cdf N1 N2 T (k/2) (Model/Udist.v — the exact model of C02: by C02_cdf_tied / C02_cdf_untied it is
   #{N1-subsets of the pooled sample with 2U <= k} / C(N1+N2, N1)), and the levels are read with the observed value
   doubled ([udouble_items], Check/C07.v).  Same shape as ops 1 / 2: complete parse, parameter range, every doubled
   level satisfies disc_level_spec F 0 (2 N1 N2), the results are ordered, and with verdict code 0 floor(2 obs)/2 IS
   the least support point with CDF >= y. *)
From MM Require Spec.Ucount Proofs.Ucount Model.Udist Proofs.UdistLaws Proofs.UdistUntied Proofs.UdistCor Check.C02 Proofs.CheckC02.

Lemma disc_table_length : forall cdf cnt k, length (disc_table cdf k cnt) = cnt.
Proof. intros cdf. induction cnt as [|cnt IH]; intro k; cbn [disc_table length]; [reflexivity|]. rewrite IH. reflexivity. Qed.

Lemma udist_cdf_mono n1 n2 T :
  C02.valid_T n1 n2 (match T with [] => true | _ => false end) T = true ->
  forall u u', u <= u' -> Udist.udist_cdf n1 n2 T u <= Udist.udist_cdf n1 n2 T u'.
Proof.
  intros V u u' Hu. apply CheckC02.valid_T_sound in V. destruct V as (H1 & H2 & H3).
  destruct (Udist.has_ties T) eqn:HT.
  - destruct T as [|t T']; [cbn in HT; discriminate HT|]. destruct H3 as (L & Fa & Su).
    apply (UdistCor.cdf_monotone_tied Nat.compare n1 n2 (t :: T') (Spec.Ucount.rank_pool (rev (t :: T')))).
    + repeat split; assumption.
    + exact HT.
    + apply MM.Proofs.Ucount.rank_pool_grouped.
    + exact Hu.
  - apply (UdistCor.cdf_monotone_untied Nat.compare n1 n2 T (Spec.Ucount.rank_pool (UdistUntied.ones (n1 + n2)))).
    + exact H1.
    + exact H2.
    + exact HT.
    + apply MM.Proofs.Ucount.rank_pool_grouped.
    + intros a b. apply Nat.compare_antisym.
    + exact Hu.
Qed.

Theorem check_C07_op11_sound : forall rest c tag pos diag,
  check_C07 (7 :: 11 :: rest)%Z = verdict c tag pos diag -> (c = 0 \/ c = 1)%Z ->
  exists n1 n2 T items,
    (do n1 <- pnat; do n2 <- pnat; do T <- plist pnat; do items <- plist p_item; pend (n1, n2, T, items)) rest
      = Some ((n1, n2, T, items), []) /\
    CheckC02.tie_vector_ok n1 n2 (match T with [] => true | _ => false end) T /\ (n1 + n2 <= 10)%nat /\ (n1 * n2 <= 25)%nat /\
    let F := fun k : Z => Udist.udist_cdf n1 n2 T (inject_Z k / 2) in
    let hi := (2 * Z.of_nat (n1 * n2))%Z in
    Forall (disc_level_spec F 0 hi) (udouble_items items) /\
    levels_ordered (udouble_items items) /\
    (c = 0%Z -> Forall (disc_level_exact F 0 hi) (udouble_items items)).
Proof.
  intros rest c tag pos diag E Hc. cbn [check_C07] in E.
  destruct ((do n1 <- pnat; do n2 <- pnat; do T <- plist pnat; do items <- plist p_item; pend (n1, n2, T, items)) rest)
    as [[[[[n1 n2] T] items] tl]|] eqn:P.
  2: { exfalso. apply verdict_inj in E. unfold V_MALFORMED in E. lia. }
  assert (TL : tl = []).
  { clear E. repeat (apply pbind_some in P; destruct P as (? & ? & _ & P)). apply pend_some in P. tauto. }
  subst tl.
  destruct (udist_params_ok n1 n2 T) eqn:V; cbn [negb] in E.
  2: { exfalso. apply verdict_inj in E. unfold V_MALFORMED in E. lia. }
  unfold udist_params_ok in V. apply andb_prop in V. destruct V as [V V3]. apply andb_prop in V. destruct V as [V1 V2].
  apply Nat.leb_le in V2, V3.
  cbv zeta in E.
  set (hi := (2 * Z.of_nat (n1 * n2))%Z) in *.
  set (F := fun k : Z => Udist.udist_cdf n1 n2 T (inject_Z k / 2)).
  set (tab := cdf_table (ucdf2 n1 n2 T) 0 (Z.to_nat (hi + 1))) in E.
  assert (Hhi : (0 <= hi)%Z) by (unfold hi; lia).
  assert (HT : tab_is F 0 tab).
  { unfold tab, cdf_table. apply disc_table_is. intro k. unfold ucdf2, F. reflexivity. }
  assert (HL : Z.of_nat (length tab) = (hi - 0 + 1)%Z).
  { unfold tab, cdf_table. rewrite disc_table_length. lia. }
  assert (Htop : F hi == 1).
  { unfold F. apply UdistCor.cdf_one_from_top. unfold Udist.QN, hi. rewrite inject_Z_mult.
    change (inject_Z 2) with 2. set (m := inject_Z (Z.of_nat (n1 * n2))).
    assert (X : 2 * m / 2 == m) by field. rewrite X. apply Qle_refl. }
  assert (Hm : forall k k', (0 <= k)%Z -> (k <= k')%Z -> (k' <= hi)%Z -> F k <= F k').
  { intros k k' _ Hk _. unfold F. apply (udist_cdf_mono n1 n2 T V1). unfold Qdiv.
    apply Qmult_le_compat_r; [rewrite <- Zle_Qle; exact Hk|]. unfold Qle. cbn. lia. }
  assert (E' : (if negb (Z.of_nat (length tab) =? hi - 0 + 1)%Z then verdict V_MALFORMED 0 (-1) [98%Z]
                else C07.finish (with_mono 0 (udouble_items items) (run_disc_items tab 0 hi (udouble_items items) 0 0)))
               = verdict c tag pos diag).
  { rewrite (proj2 (Z.eqb_eq _ _) HL). exact E. }
  destruct (disc_accepted F 0 hi tab (hi - 0 + 1) (udouble_items items) c tag pos diag HT eq_refl Hhi Htop Hm E' Hc) as (S1 & S2 & S3).
  exists n1, n2, T, items. split; [reflexivity|]. split; [apply CheckC02.valid_T_sound; exact V1|].
  split; [exact V2|]. split; [exact V3|]. cbv zeta. fold F. fold hi.
  split; [exact S1|]. split; [exact S2|exact S3].
Qed.

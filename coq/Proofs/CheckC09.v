(* Proofs/CheckC09.v — (group hF) what an accepted verdict of check_C09 means, stated with the
   textbook definitions only (mean_def, var_def, is_min, is_max of Proofs/Stream.v; wmean_def, wsum_xw,
   wsum_w of Spec/Sample.v; Qsum; used = the values carrying a non-zero weight, Proofs/Sample.v):
   every observed Mean / Variance / StdDev / Sum / Weight / Bounds of the slice functions and of the
   Sample methods is within the named tolerance tol_* of Check/C09.v of the definition; StdDev through
   its square (0 <= s and |s^2 - var| <= tol); NaN / panic exactly where the code has no value.
   The Welford loops, fold_left sums and scan paths of Model/Sample.v do not occur in the conclusion
   of the statistics part; the history part (kind 1) is stated here relative to the model store and is
   composed into a statement about the observed dumps only in Proofs/CheckC09Hist.v / CheckC09HistVal.v. *)
From MM Require Import Base.Num Base.GASort Model.Stream Proofs.Stream Model.Sample Spec.Sample.
From MM Require Import Proofs.Sample Proofs.Quantile Proofs.CheckBase Check.C09.
From Coq Require Import Lqa Lia Sorted.
Local Open Scope Q_scope.

(* ====================== 0. reading tactics ====================== *)
Ltac breflect :=
  repeat match goal with
  | H : andb _ _ = true |- _ => apply andb_prop in H; destruct H
  | H : orb _ _ = false |- _ => apply Bool.orb_false_iff in H; destruct H
  | H : negb _ = true |- _ => apply Bool.negb_true_iff in H
  | H : negb _ = false |- _ => apply Bool.negb_false_iff in H
  | H : Qle_bool _ _ = true |- _ => apply Qle_bool_iff in H
  | H : Qle_bool _ _ = false |- _ => apply Qle_bool_false in H
  | H : Qltb _ _ = true |- _ => apply CheckBase.Qltb_true in H
  | H : Qltb _ _ = false |- _ => apply CheckBase.Qltb_false in H
  | H : Qeq_bool _ _ = true |- _ => apply Qeq_bool_iff in H
  | H : (_ =? _)%Z = true |- _ => apply Z.eqb_eq in H
  | H : (_ =? _)%Z = false |- _ => apply Z.eqb_neq in H
  | H : (_ =? _)%nat = true |- _ => apply Nat.eqb_eq in H
  | H : (_ =? _)%nat = false |- _ => apply Nat.eqb_neq in H
  end.

Ltac bad_verdict H :=
  exfalso; apply verdict_inj in H; destruct H as [H _];
  unfold V_MALFORMED, V_MISMATCH, V_OK, V_BORDERLINE in H; lia.

(* ====================== 1. the specification predicates ====================== *)
(* the observation is a finite float within tol of e / equal to e / a square root of v within tol of the square *)
Definition obs_near (tol e : Q) (o : xreal) : Prop := exists q, o = XFin q /\ Qabs (q - e) <= tol.
Definition obs_is (e : Q) (o : xreal) : Prop := exists q, o = XFin q /\ q == e.
Definition obs_sqrt (tol v : Q) (o : xreal) : Prop := exists s, o = XFin s /\ 0 <= s /\ Qabs (s * s - v) <= tol.

(* Variance of one value is 0 (n - 1 = 0: the code returns 0); from two values on the definition *)
Definition var_spec (xs : list Q) : Q := match xs with [_] => 0 | _ => var_def xs end.
(* the tolerance of StdDev, on the square *)
Definition tol_std (xs : list Q) (v : Q) : Q := tol_var xs v + 8 * ulp53 * v.

(* slice functions and unweighted Sample methods; st: 0 returned, 2 panicked *)
Definition mean_ok (xs : list Q) (st : Z) (o : xreal) : Prop :=
  st = 0%Z /\ match xs with [] => o = XNaN | _ => obs_near (tol_mean xs) (mean_def xs) o end.
(* Welford's M2 = variance * (n - 1), a sum of non-negative terms, exceeds MaxFloat64 (maxf): +Inf in float64 *)
Definition m2_spec (xs : list Q) : Q := var_spec xs * Qofnat (length xs - 1).
Definition var_ok (xs : list Q) (st : Z) (o : xreal) : Prop :=
  st = 0%Z /\ match xs with [] => o = XNaN
              | _ => (maxf < m2_spec xs -> o = XInf false) /\
                     (m2_spec xs <= maxf -> obs_near (tol_var xs (var_spec xs)) (var_spec xs) o) end.
Definition std_ok (xs : list Q) (st : Z) (o : xreal) : Prop :=
  st = 0%Z /\ match xs with [] => o = XNaN
              | _ => (maxf < m2_spec xs -> o = XInf false) /\
                     (m2_spec xs <= maxf -> obs_sqrt (tol_std xs (var_spec xs)) (var_spec xs) o) end.
(* Bounds of the values l: (NaN, NaN) when there is none, else (least, greatest) exactly *)
Definition bounds_ok (l : list Q) (omin omax : xreal) : Prop :=
  match l with
  | [] => omin = XNaN /\ omax = XNaN
  | _ => exists a b, omin = XFin a /\ omax = XFin b /\ is_min a l /\ is_max b l
  end.

(* Sample methods; ws = None: no Weights slice *)
Definition smean_ok (xs : list Q) (ws : option (list Q)) (st : Z) (o : xreal) : Prop :=
  match ws with
  | None => mean_ok xs st o
  | Some w =>
      match xs with
      | [] => st = 0%Z /\ o = XNaN
      | _ => st = 0%Z /\
             (wsum_w (combine xs w) == 0 -> o = XNaN) /\                          (* nothing carries weight: NaN *)
             (nonneg_weights (combine xs w) -> 0 < wsum_w (combine xs w) ->
                obs_near (tol_wmean xs) (wmean_def (combine xs w)) o)
      end
  end.
(* weighted Variance / StdDev: panic("not implemented") *)
Definition svar_ok (xs : list Q) (ws : option (list Q)) (st : Z) (o : xreal) : Prop :=
  match ws with
  | None => var_ok xs st o
  | Some _ => match xs with [] => st = 0%Z /\ o = XNaN | _ => st = 2%Z end
  end.
Definition sstd_ok (xs : list Q) (ws : option (list Q)) (st : Z) (o : xreal) : Prop :=
  match ws with
  | None => std_ok xs st o
  | Some _ => match xs with [] => st = 0%Z /\ o = XNaN | _ => st = 2%Z end
  end.
Definition wterms (xs w : list Q) : list Q := map (fun p => fst p * snd p) (combine xs w).
(* a sum accumulated from the left: +-Inf as soon as an exact prefix sum exceeds MaxFloat64 in magnitude
   (first_overflow terms 0 = Some sign, Check/C09.v), else within tol_sum of the exact sum *)
Definition sum_ok (terms : list Q) (v : Q) (o : xreal) : Prop :=
  (forall neg, first_overflow terms 0 = Some neg -> o = XInf neg) /\
  (first_overflow terms 0 = None -> obs_near (tol_sum terms) v o).
Definition ssum_ok (xs : list Q) (ws : option (list Q)) (o : xreal) : Prop :=
  match ws with
  | None => sum_ok xs (Qsum xs) o
  | Some w => sum_ok (wterms xs w) (wsum_xw (combine xs w)) o
  end.
Definition sweight_ok (xs : list Q) (ws : option (list Q)) (o : xreal) : Prop :=
  match ws with
  | None => obs_is (Qofnat (length xs)) o
  | Some w => obs_near (tol_sum w) (Qsum w) o
  end.
(* Bounds: zero-weight values are ignored; the Sorted flag promises ascending data *)
Definition sbounds_ok (xs : list Q) (ws : option (list Q)) (sorted : bool) (omin omax : xreal) : Prop :=
  (sorted = true -> StronglySorted Qle xs) ->
  match ws with
  | None => bounds_ok xs omin omax
  | Some w => length w = length xs -> bounds_ok (used (combine xs w)) omin omax
  end.

(* ====================== 2. reading the comparators ====================== *)
Lemma first_false_none l : first_false l = None -> forall b, In b l -> b = true.
Proof.
  unfold first_false. generalize 0%Z. induction l as [|x l IH]; intros i H b Hb; [destruct Hb|].
  destruct x; [|discriminate]. destruct Hb as [<-|Hb]; [reflexivity | exact (IH _ H b Hb)].
Qed.

Lemma is_nan_true x : is_nan x = true -> x = XNaN.
Proof. destruct x; cbn; try discriminate. reflexivity. Qed.

Lemma f_close_sound tol r st obs : f_close tol r st obs = true ->
  match r with
  | FNaN => st = 0%Z /\ obs = XNaN
  | FVal v => st = 0%Z /\ obs_near tol v obs
  | FPanic => st = 2%Z
  end.
Proof.
  unfold f_close. destruct r as [|v|]; intro H; breflect.
  - split; [assumption | now apply is_nan_true].
  - split; [assumption | now apply xwithin_fin].
  - assumption.
Qed.

Lemma f_close_sqrt_sound tol r st obs : f_close_sqrt tol r st obs = true ->
  match r with
  | FNaN => st = 0%Z /\ obs = XNaN
  | FVal v => st = 0%Z /\ obs_sqrt tol v obs
  | FPanic => st = 2%Z
  end.
Proof.
  unfold f_close_sqrt. destruct r as [|v|]; intro H; breflect.
  - split; [assumption | now apply is_nan_true].
  - split; [assumption|]. destruct obs as [| |s]; try discriminate.
    apply close_sqrt_sound_Q in H0. destruct H0. exists s. repeat split; assumption.
  - assumption.
Qed.

Lemma b_eq_sound r omin omax : b_eq r omin omax = true ->
  match r with
  | None => omin = XNaN /\ omax = XNaN
  | Some (a, b) => obs_is a omin /\ obs_is b omax
  end.
Proof.
  unfold b_eq. destruct r as [[a b]|]; intro H; breflect.
  - split; apply xeq_fin; assumption.
  - split; apply is_nan_true; assumption.
Qed.

(* transfer along equal expected values / tolerances *)
Lemma obs_near_eq tol tol' e e' o : e == e' -> tol == tol' -> obs_near tol e o -> obs_near tol' e' o.
Proof. intros E T (q & -> & H). exists q. split; [reflexivity|]. rewrite <- E, <- T. exact H. Qed.
Lemma obs_sqrt_eq tol tol' v v' o : v == v' -> tol == tol' -> obs_sqrt tol v o -> obs_sqrt tol' v' o.
Proof. intros E T (s & -> & H0 & H). exists s. split; [reflexivity|]. split; [exact H0|]. rewrite <- E, <- T. exact H. Qed.
Lemma obs_is_eq e e' o : e == e' -> obs_is e o -> obs_is e' o.
Proof. intros E (q & -> & H). exists q. split; [reflexivity|]. rewrite <- E. exact H. Qed.
Lemma obs_near_0 e o : obs_near 0 e o -> obs_is e o.
Proof. intros (q & -> & H). exists q. split; [reflexivity|]. apply Qabs_le0 in H. lra. Qed.

Lemma tol_var_eq xs v v' : v == v' -> tol_var xs v == tol_var xs v'.
Proof. intro E. unfold tol_var. rewrite E. reflexivity. Qed.
Lemma tol_std_eq xs v v' : v == v' -> tol_std xs v == tol_std xs v'.
Proof. intro E. unfold tol_std. rewrite (tol_var_eq xs v v' E), E. reflexivity. Qed.

(* ====================== 3. the model values are the definitions ====================== *)
Lemma mean_sound xs tol st o : f_close tol (mean xs) st o = true ->
  st = 0%Z /\ match xs with [] => o = XNaN | _ => obs_near tol (mean_def xs) o end.
Proof.
  intro H. apply f_close_sound in H. destruct xs as [|x t] eqn:E.
  - exact H.
  - rewrite <- E in *. destruct (welford_mean_eq xs ltac:(rewrite E; discriminate)) as (m & M & Em).
    rewrite M in H. destruct H as [S N]. split; [exact S|]. eapply obs_near_eq; [exact Em | reflexivity | exact N].
Qed.

Lemma variance_value xs : match xs with [] => variance xs = FNaN | _ => exists v, variance xs = FVal v /\ v == var_spec xs end.
Proof.
  destruct xs as [|x [|y t]] eqn:E.
  - reflexivity.
  - exists 0. split; reflexivity.
  - rewrite <- E. destruct (welford_var_eq xs ltac:(rewrite E; cbn; lia)) as (v & V & Ev).
    exists v. split; [exact V|]. rewrite Ev, E. reflexivity.
Qed.

Lemma sum_close_sound terms v v' o : v == v' -> sum_close terms (tol_sum terms) v o = true -> sum_ok terms v' o.
Proof.
  intros E H. unfold sum_close in H. unfold sum_ok. destruct (first_overflow terms 0) as [neg|].
  - split; [intros n' En; injection En as <-; apply xeq_inf; exact H | discriminate].
  - split; [discriminate|]. intros _. apply xwithin_fin in H. eapply obs_near_eq; [exact E | reflexivity | exact H].
Qed.

Lemma m2_overflows_iff xs v : v == var_spec xs -> (m2_overflows xs (FVal v) = true <-> maxf < m2_spec xs).
Proof. intro E. unfold m2_overflows, m2_spec. rewrite CheckBase.Qltb_true, E. reflexivity. Qed.

Lemma variance_sound xs st o : var_close xs (tol_var xs (var_val (variance xs))) (variance xs) st o = true -> var_ok xs st o.
Proof.
  intro H. unfold var_close in H. pose proof (variance_value xs) as V. unfold var_ok. destruct xs as [|x t] eqn:E.
  - rewrite V in H. cbn [m2_overflows] in H. apply f_close_sound in H. exact H.
  - rewrite <- E in *. destruct V as (v & V & Ev). rewrite V in H. cbn [var_val] in H.
    pose proof (m2_overflows_iff xs v Ev) as MI.
    destruct (m2_overflows xs (FVal v)) eqn:M.
    + breflect. split; [assumption|]. split; [intros _; apply xeq_inf; assumption|].
      intro L. exfalso. pose proof (proj1 MI eq_refl). lra.
    + apply f_close_sound in H. destruct H as [S N]. split; [exact S|]. split.
      * intro L. apply MI in L. congruence.
      * intros _. eapply obs_near_eq; [exact Ev | apply tol_var_eq; exact Ev | exact N].
Qed.

Lemma stddev_sound xs st o :
  std_close xs (tol_var xs (var_val (variance xs)) + 8 * ulp53 * var_val (variance xs)) (variance xs) st o = true ->
  std_ok xs st o.
Proof.
  intro H. unfold std_close in H. pose proof (variance_value xs) as V. unfold std_ok. destruct xs as [|x t] eqn:E.
  - rewrite V in H. cbn [m2_overflows] in H. apply f_close_sqrt_sound in H. exact H.
  - rewrite <- E in *. destruct V as (v & V & Ev). rewrite V in H. cbn [var_val] in H.
    pose proof (m2_overflows_iff xs v Ev) as MI.
    destruct (m2_overflows xs (FVal v)) eqn:M.
    + breflect. split; [assumption|]. split; [intros _; apply xeq_inf; assumption|].
      intro L. exfalso. pose proof (proj1 MI eq_refl). lra.
    + apply f_close_sqrt_sound in H. destruct H as [S N]. split; [exact S|]. split.
      * intro L. apply MI in L. congruence.
      * intros _. eapply obs_sqrt_eq; [exact Ev | apply (tol_std_eq xs v _ Ev) | exact N].
Qed.

Lemma bounds_sound l omin omax : b_eq (bounds l) omin omax = true -> bounds_ok l omin omax.
Proof.
  intro H. apply b_eq_sound in H. unfold bounds_ok. destruct l as [|x t] eqn:E.
  - exact H.
  - rewrite <- E in *. destruct (bounds l) as [[mn mx]|] eqn:B; [|rewrite E in B; discriminate].
    destruct (bounds_spec l mn mx B) as [[I1 L1] [I2 L2]]. destruct H as [(a & -> & A) (b & -> & Bq)].
    exists a, b. split; [reflexivity|]. split; [reflexivity|]. split; split.
    + exists mn. split; [exact I1 | symmetry; exact A].
    + intros y Hy. rewrite A. apply L1. exact Hy.
    + exists mx. split; [exact I2 | symmetry; exact Bq].
    + intros y Hy. rewrite Bq. apply L2. exact Hy.
Qed.

(* bounds_ok only depends on the expected pair up to == *)
Lemma obounds_sound r l omin omax : obounds_eq r (bounds l) -> b_eq r omin omax = true -> bounds_ok l omin omax.
Proof.
  intros O H. apply b_eq_sound in H. unfold bounds_ok. destruct l as [|x t] eqn:E.
  - cbn in O. destruct r as [[a b]|]; [contradiction | exact H].
  - rewrite <- E in *. destruct (bounds l) as [[mn mx]|] eqn:B; [|rewrite E in B; discriminate].
    destruct r as [[a b]|]; [|contradiction]. cbn in O. destruct O as [O1 O2].
    destruct (bounds_spec l mn mx B) as [[I1 L1] [I2 L2]]. destruct H as [(a' & -> & A) (b' & -> & Bq)].
    exists a', b'. split; [reflexivity|]. split; [reflexivity|]. split; split.
    + exists mn. split; [exact I1 | rewrite A, O1; reflexivity].
    + intros y Hy. rewrite A, O1. apply L1. exact Hy.
    + exists mx. split; [exact I2 | rewrite Bq, O2; reflexivity].
    + intros y Hy. rewrite Bq, O2. apply L2. exact Hy.
Qed.

(* ====================== 4. Sample methods ====================== *)
Definition ows (hasw : bool) (ws : list Q) : option (list Q) := if hasw then Some ws else None.

Lemma allzero_wsum : forall (xs ws : list Q), forallb (fun w => Qeq_bool w 0) ws = true -> wsum_w (combine xs ws) == 0.
Proof.
  unfold wsum_w. induction xs as [|x xt IH]; intros [|w wt] H; cbn; try reflexivity.
  cbn in H. breflect. rewrite (IH wt H0), H. reflexivity.
Qed.

Lemma smean_sound xs ws sorted st o :
  f_close (match ws with Some _ => tol_wmean xs | None => tol_mean xs end) (sample_mean (mkSample xs ws sorted)) st o = true ->
  smean_ok xs ws st o.
Proof.
  intro H. unfold smean_ok. destruct ws as [w|].
  - destruct xs as [|x t] eqn:E.
    + apply f_close_sound in H. exact H.
    + rewrite <- E in *. assert (Hx : xs <> []) by (rewrite E; discriminate).
      apply f_close_sound in H. pose proof (sample_mean_nan_iff xs w sorted Hx) as NI.
      destruct (sample_mean (mkSample xs (Some w) sorted)) as [|m|] eqn:M.
      * destruct H as [S N]. split; [exact S|]. split; [intros _; exact N|].
        intros NN Pos. exfalso. rewrite (proj1 NI eq_refl) in Pos. lra.
      * destruct H as [S N]. split; [exact S|]. split.
        -- intro Z0. apply NI in Z0. discriminate.
        -- intros NN Pos. destruct (wmean_eq xs w sorted Hx NN Pos) as (m' & M' & Em). rewrite M in M'. injection M' as <-.
           eapply obs_near_eq; [exact Em | reflexivity | exact N].
      * exfalso. rewrite (sample_mean_weighted xs w sorted Hx) in M.
        destruct (Qeq_bool (snd (wmean_loop (combine xs w) 0 0)) 0); discriminate.
  - unfold sample_mean in H. cbn [s_xs s_ws] in H.
    assert (H' : f_close (tol_mean xs) (mean xs) st o = true) by (destruct xs; exact H).
    exact (mean_sound xs _ st o H').
Qed.

Lemma sample_variance_unw xs sorted : sample_variance (mkSample xs None sorted) = variance xs.
Proof. unfold sample_variance. cbn [s_xs s_ws]. destruct xs; reflexivity. Qed.
Lemma sample_variance_w xs w sorted : sample_variance (mkSample xs (Some w) sorted) = match xs with [] => FNaN | _ => FPanic end.
Proof. unfold sample_variance. cbn [s_xs s_ws]. destruct xs; reflexivity. Qed.

Lemma var_close_panic xs tol st o : var_close xs tol FPanic st o = f_close tol FPanic st o.
Proof. reflexivity. Qed.
Lemma var_close_nan xs tol st o : var_close xs tol FNaN st o = f_close tol FNaN st o.
Proof. reflexivity. Qed.

Lemma svar_sound xs ws sorted st o :
  var_close xs (tol_var xs (var_val (match ws with None => variance xs | Some _ => sample_variance (mkSample xs ws sorted) end)))
          (sample_variance (mkSample xs ws sorted)) st o = true -> svar_ok xs ws st o.
Proof.
  intro H. unfold svar_ok. destruct ws as [w|].
  - rewrite sample_variance_w in H. destruct xs; cbn [var_close m2_overflows] in H; apply f_close_sound in H; exact H.
  - rewrite sample_variance_unw in H. apply variance_sound. exact H.
Qed.

(* in check_stats the tolerance of the Sample methods is computed from the slice variance *)
Lemma svar_sound_stats xs ws sorted st o :
  var_close xs (tol_var xs (var_val (variance xs))) (sample_variance (mkSample xs ws sorted)) st o = true -> svar_ok xs ws st o.
Proof.
  intro H. unfold svar_ok. destruct ws as [w|].
  - rewrite sample_variance_w in H. destruct xs; cbn [var_close m2_overflows] in H; apply f_close_sound in H; exact H.
  - rewrite sample_variance_unw in H. apply variance_sound. exact H.
Qed.
Lemma sstd_sound_stats xs ws sorted st o :
  std_close xs (tol_var xs (var_val (variance xs)) + 8 * ulp53 * var_val (variance xs))
               (sample_variance (mkSample xs ws sorted)) st o = true -> sstd_ok xs ws st o.
Proof.
  intro H. unfold sstd_ok. destruct ws as [w|].
  - rewrite sample_variance_w in H. destruct xs; cbn [std_close m2_overflows] in H; apply f_close_sqrt_sound in H; exact H.
  - rewrite sample_variance_unw in H. apply stddev_sound. exact H.
Qed.

Lemma ssum_sound xs ws sorted o :
  sum_close (match ws with Some w => wterms xs w | None => xs end)
            (tol_sum (match ws with Some w => wterms xs w | None => xs end)) (sample_sum (mkSample xs ws sorted)) o = true ->
  ssum_ok xs ws o.
Proof.
  intro H. unfold ssum_ok. destruct ws as [w|].
  - eapply sum_close_sound; [apply sample_sum_weighted | exact H].
  - eapply sum_close_sound; [|exact H]. unfold sample_sum. cbn [s_ws s_xs]. apply vsum_eq.
Qed.

Lemma sweight_sound xs ws sorted o :
  xwithin (match ws with Some w => tol_sum w | None => 0 end) (XFin (sample_weight (mkSample xs ws sorted))) o = true ->
  sweight_ok xs ws o.
Proof.
  intro H. apply xwithin_fin in H. unfold sweight_ok, sample_weight in *. cbn [s_ws s_xs] in H. destruct ws as [w|].
  - eapply obs_near_eq; [apply vsum_eq | reflexivity | exact H].
  - apply obs_near_0. exact H.
Qed.

Lemma sbounds_sound xs ws sorted omin omax :
  b_eq (sample_bounds (mkSample xs ws sorted)) omin omax = true -> sbounds_ok xs ws sorted omin omax.
Proof.
  intros H HS. destruct ws as [w|].
  - intro L. destruct xs as [|x t] eqn:E.
    + apply b_eq_sound in H. exact H.
    + rewrite <- E in *. assert (Hx : xs <> []) by (rewrite E; discriminate).
      destruct sorted.
      * eapply obounds_sound; [|exact H]. rewrite <- (weighted_bounds_unsorted xs w Hx).
        apply weighted_bounds_sorted_flag; auto.
      * rewrite (weighted_bounds_unsorted xs w Hx) in H. apply bounds_sound. exact H.
  - destruct sorted.
    + destruct xs as [|x t] eqn:E.
      * apply b_eq_sound in H. exact H.
      * rewrite <- E in *. destruct (bounds xs) as [[mn mx]|] eqn:B; [|rewrite E in B; discriminate].
        destruct (bounds_sorted_flag xs mn mx (HS eq_refl) B) as (a & b & SB & A1 & A2).
        eapply obounds_sound; [|exact H]. rewrite SB, B. cbn. split; assumption.
    + assert (SBu : sample_bounds (mkSample xs None false) = bounds xs).
      { unfold sample_bounds. cbn [s_xs s_ws s_sorted]. destruct xs; reflexivity. }
      rewrite SBu in H. apply bounds_sound. exact H.
Qed.

Lemma nonneg_combine : forall (xs ws : list Q), Forall (fun w => 0 <= w) ws -> nonneg_weights (combine xs ws).
Proof.
  unfold nonneg_weights. induction xs as [|x xt IH]; intros [|w wt] F; cbn; try constructor.
  - inversion F; assumption.
  - apply IH. inversion F; assumption.
Qed.
Lemma wsum_w_pos : forall (xs ws : list Q), length ws = length xs -> Forall (fun w => 0 <= w) ws ->
  (exists w, In w ws /\ ~ w == 0) -> 0 < wsum_w (combine xs ws).
Proof.
  induction xs as [|x xt IH]; intros [|w wt] L F (w0 & I & N); cbn [length] in L; try discriminate; [destruct I|].
  inversion F as [|? ? Hw F']; subst. cbn [combine]. rewrite wsum_w_cons.
  assert (P : 0 <= wsum_w (combine xt wt)).
  { clear -F'. revert wt F'. induction xt as [|y yt IH]; intros [|v vt] F; cbn; try lra; unfold wsum_w; cbn; try lra.
    inversion F; subst. specialize (IH vt H2). unfold wsum_w in IH. lra. }
  destruct I as [->|I].
  - assert (0 < w0) by (apply Qnot_le_lt; intro C; apply N; lra). lra.
  - specialize (IH wt ltac:(lia) F' (ex_intro _ w0 (conj I N))). lra.
Qed.

(* ====================== 4b. GeoMean, unweighted, at most 64 values: through the n-th power ======================
   exp and ln are never evaluated: the observed g satisfies |g^n - prod xs| <= geo_rel n * prod xs *)
Fixpoint Qprod (xs : list Q) : Q := match xs with [] => 1 | x :: t => x * Qprod t end.
Fixpoint Qpw (q : Q) (n : nat) : Q := match n with O => 1 | S k => q * Qpw q k end.
Definition geo_rel (n : nat) : Q := Qofnat n * (Qofnat n + 8) * 64 * (1 # (2 ^ 52)%positive).

Lemma qpow_Qpw q : forall n, qpow q n == Qpw q n.
Proof. induction n as [|n IH]; cbn [qpow Qpw]; [reflexivity|]. rewrite Qred_correct, IH. reflexivity. Qed.

Lemma Qred_unit_frac p : Qred (1 # p) = 1 # p.
Proof. unfold Qred. cbn. reflexivity. Qed.

Lemma Qofnat_pos_frac n : (0 < n)%nat -> 1 / Qofnat n == 1 # Pos.of_nat n.
Proof.
  intro H. unfold Qofnat. destruct n as [|n]; [lia|].
  rewrite <- Pos.of_nat_succ. change (Z.of_nat (S n)) with (Zpos (Pos.of_succ_nat n)).
  generalize (Pos.of_succ_nat n). intro p. unfold Qeq, Qdiv, Qinv, Qmult. cbn. lia.
Qed.

Section GeoUnweighted.
Variable n : nat.
Hypothesis Hn : (0 < n)%nat.
Let P := Pos.of_nat n.

Lemma coeff_red c : c == 1 / Qofnat n -> Qred c = 1 # P.
Proof.
  intro E. rewrite (Qred_complete c (1 # P)); [apply Qred_unit_frac|]. rewrite E. apply Qofnat_pos_frac. exact Hn.
Qed.

Lemma lcm_dens_unit : forall cs a, (a = 1 \/ a = Zpos P)%Z -> Forall (fun c => c == 1 / Qofnat n) cs ->
  let r := fold_left (fun a c => Z.lcm a (Zpos (Qden (Qred c)))) cs a in (r = a /\ cs = [] \/ r = Zpos P).
Proof.
  induction cs as [|c cs IH]; intros a Ha F; cbn [fold_left]; [left; split; reflexivity|].
  inversion F as [|? ? Hc F']; subst. right. rewrite (coeff_red c Hc). cbn [Qden].
  assert (L : Z.lcm a (Zpos P) = Zpos P).
  { destruct Ha as [->| ->]; [apply Z.lcm_1_l_nonneg; lia | apply Z.lcm_diag_nonneg; lia]. }
  rewrite L. destruct (IH (Zpos P) (or_intror eq_refl) F') as [[E _]|E]; exact E.
Qed.

Lemma P_is_n : inject_Z (Zpos P) == Qofnat n.
Proof. unfold P, Qofnat. rewrite <- positive_nat_Z, Nat2Pos.id by lia. reflexivity. Qed.

Lemma coeff_exp c : c == 1 / Qofnat n -> Z.to_nat (Qnum (Qred (c * inject_Z (Zpos P)))) = 1%nat.
Proof.
  intro E. rewrite (Qred_complete _ 1); [reflexivity|]. rewrite E, P_is_n. field.
  unfold Qofnat. intro Z0. unfold Qeq in Z0. cbn in Z0. lia.
Qed.

Lemma target_prod : forall xs cs a, length cs = length xs -> Forall (fun c => c == 1 / Qofnat n) cs ->
  fold_left (fun a p => Qred (a * qpow (fst p) (snd p)))
            (combine xs (map (fun c => Z.to_nat (Qnum (Qred (c * inject_Z (Zpos P))))) cs)) a == a * Qprod xs.
Proof.
  induction xs as [|x xs IH]; intros [|c cs] a L F; cbn [length] in L; try discriminate; cbn [map combine fold_left Qprod]; [ring|].
  inversion F as [|? ? Hc F']; subst. rewrite (IH cs _ ltac:(lia) F'). rewrite Qred_correct. cbn [fst snd].
  rewrite (coeff_exp c Hc). cbn [qpow]. rewrite Qred_correct. ring.
Qed.
End GeoUnweighted.

Theorem geomean_value_sound xs g : (length xs <= 64)%nat ->
  g_check xs (geomean xs) 0 (XFin g) <> 2%Z -> geomean xs <> GNaN ->
  0 < g /\ Qabs (Qpw g (length xs) - Qprod xs) <= geo_scale xs * geo_rel (length xs) * Qprod xs.
Proof.
  intros L64 G NN. unfold g_check in G. destruct (geomean xs) as [|cs] eqn:GM; [congruence|]. clear NN.
  destruct (geomean_coeffs xs cs GM) as (Lc & Fc & Fx).
  assert (Hn : (0 < length xs)%nat) by (destruct xs; [discriminate GM | cbn; lia]).
  cbn [Z.eqb] in G. unfold geo_check in G.
  destruct (Qle_bool g 0) eqn:E0; [congruence|]. apply Qle_bool_false in E0. split; [exact E0|].
  assert (D : lcm_dens cs = Zpos (Pos.of_nat (length xs))).
  { unfold lcm_dens. destruct (lcm_dens_unit (length xs) Hn cs 1%Z (or_introl eq_refl) Fc) as [[_ E]|E]; [|exact E].
    subst cs. cbn in Lc. lia. }
  cbv zeta in G. rewrite D in G.
  destruct (64 <? Z.pos (Pos.of_nat (length xs)))%Z eqn:B.
  { apply Z.ltb_lt in B. rewrite <- (Nat2Pos.id (length xs)) in L64 by lia. lia. }
  match type of G with (if ?b then _ else _) <> _ => destruct b eqn:W; [|congruence] end.
  apply within_sound in W.
  rewrite (target_prod (length xs) Hn xs cs 1 Lc Fc) in W. rewrite qpow_Qpw in W.
  rewrite Z2Nat.inj_pos, Nat2Pos.id in W by lia.
  unfold geo_rel. unfold nq in W. rewrite (P_is_n (length xs) Hn) in W.
  setoid_replace (1 * Qprod xs) with (Qprod xs) in W by ring. exact W.
Qed.

(* ====================== 4c. GeoMean through an integer power, any non-negative coefficients ======================
   (weighted Sample.GeoMean: c_i = w_i / W).  D = lcm of the reduced denominators of the c_i, e_i = c_i D naturals:
   |g^D - prod x_i^e_i| <= D (n + 8) 64 2^-52 prod x_i^e_i *)
Fixpoint Qprodpow (xs : list Q) (es : list nat) : Q :=
  match xs, es with x :: xt, e :: et => Qpw x e * Qprodpow xt et | _, _ => 1 end.
Definition geo_rel_D (D n : nat) : Q := Qofnat D * (Qofnat n + 8) * 64 * (1 # (2 ^ 52)%positive).

Lemma Qred_inject_Z k : Qred (inject_Z k) = inject_Z k.
Proof.
  unfold Qred, inject_Z. cbn [Qnum Qden].
  pose proof (Z.ggcd_gcd k 1) as G. pose proof (Z.ggcd_correct_divisors k 1) as C.
  destruct (Z.ggcd k 1) as [g [aa bb]]. cbn [fst] in G. rewrite Z.gcd_1_r in G. subst g. destruct C as [C1 C2].
  rewrite Z.mul_1_l in C1, C2. subst aa bb. reflexivity.
Qed.

Lemma lcm_fold_props : forall cs a, (0 < a)%Z ->
  let r := fold_left (fun a c => Z.lcm a (Zpos (Qden (Qred c)))) cs a in
  (0 < r)%Z /\ (a | r)%Z /\ Forall (fun c => (Zpos (Qden (Qred c)) | r)%Z) cs.
Proof.
  induction cs as [|c cs IH]; intros a Ha; cbn [fold_left]; cbv zeta.
  - split; [exact Ha|]. split; [apply Z.divide_refl | constructor].
  - set (a' := Z.lcm a (Zpos (Qden (Qred c)))).
    assert (Ha' : (0 < a')%Z).
    { pose proof (Z.lcm_nonneg a (Zpos (Qden (Qred c)))) as N. fold a' in N.
      destruct (Z.eq_dec a' 0) as [E|E]; [|lia]. unfold a' in E. apply Z.lcm_eq_0 in E. destruct E; lia. }
    destruct (IH a' Ha') as (R1 & R2 & R3). split; [exact R1|]. split.
    + eapply Z.divide_trans; [apply Z.divide_lcm_l | exact R2].
    + constructor; [|exact R3]. eapply Z.divide_trans; [apply Z.divide_lcm_r | exact R2].
Qed.

(* a non-negative rational whose reduced denominator divides D, times D, is a natural number *)
Lemma coeff_times_D c D : 0 <= c -> (0 < D)%Z -> (Zpos (Qden (Qred c)) | D)%Z ->
  Qofnat (Z.to_nat (Qnum (Qred (c * inject_Z D)))) == c * inject_Z D.
Proof.
  intros Hc HD [k Hk].
  assert (E : c * inject_Z D == inject_Z (Qnum (Qred c) * k)).
  { rewrite <- (Qred_correct c) at 1. destruct (Qred c) as [a b]. cbn [Qnum Qden] in *. subst D.
    unfold Qeq, Qmult, inject_Z. cbn [Qnum Qden]. rewrite Pos.mul_1_r. cbn. nia. }
  rewrite (Qred_complete _ _ E), Qred_inject_Z. cbn [inject_Z Qnum]. rewrite E.
  assert (N : (0 <= Qnum (Qred c) * k)%Z).
  { assert (0 <= c * inject_Z D) by (apply Qmult_le_0_compat; [exact Hc | unfold Qle; cbn; lia]).
    rewrite E in H. unfold Qle in H. cbn in H. lia. }
  unfold Qofnat. rewrite Z2Nat.id by exact N. reflexivity.
Qed.

Lemma target_prodpow : forall xs es a,
  fold_left (fun a p => Qred (a * qpow (fst p) (snd p))) (combine xs es) a == a * Qprodpow xs es.
Proof.
  induction xs as [|x xs IH]; intros [|e es] a; cbn [combine fold_left Qprodpow]; try ring.
  rewrite IH, Qred_correct. cbn [fst snd]. rewrite qpow_Qpw. ring.
Qed.

Definition geo_power_ok (xs cs : list Q) (g : Q) : Prop :=
  exists (D : nat) (es : list nat), (0 < D)%nat /\ length es = length cs /\
    Forall2 (fun e c => Qofnat e == c * Qofnat D) es cs /\
    Qabs (Qpw g D - Qprodpow xs es) <= geo_scale xs * geo_rel_D D (length xs) * Qprodpow xs es.

Theorem geo_check_power xs cs g : Forall (fun c => 0 <= c) cs -> (lcm_dens cs <= 64)%Z ->
  geo_check xs cs (XFin g) <> 2%Z -> 0 < g /\ geo_power_ok xs cs g.
Proof.
  intros Fc L64 G. unfold geo_check in G.
  destruct (Qle_bool g 0) eqn:E0; [congruence|]. apply Qle_bool_false in E0. split; [exact E0|].
  cbv zeta in G. destruct (64 <? lcm_dens cs)%Z eqn:B; [apply Z.ltb_lt in B; lia|].
  match type of G with (if ?b then _ else _) <> _ => destruct b eqn:W; [|congruence] end.
  apply within_sound in W. clear G B.
  destruct (lcm_fold_props cs 1%Z ltac:(lia)) as (Dpos & _ & Ddiv). fold (lcm_dens cs) in Dpos, Ddiv.
  set (D := lcm_dens cs) in *.
  exists (Z.to_nat D), (map (fun c => Z.to_nat (Qnum (Qred (c * inject_Z D)))) cs).
  split; [lia|]. split; [apply map_length|]. split.
  - assert (ED : Qofnat (Z.to_nat D) == inject_Z D) by (unfold Qofnat; rewrite Z2Nat.id by lia; reflexivity).
    clear W L64. clearbody D. revert Fc Ddiv. induction cs as [|c cs IH]; intros Fc Ddiv; cbn [map]; constructor.
    + inversion Fc; inversion Ddiv; subst. rewrite ED. apply coeff_times_D; [assumption | exact Dpos | assumption].
    + inversion Fc; inversion Ddiv; subst. apply IH; assumption.
  - rewrite target_prodpow, qpow_Qpw in W. unfold geo_rel_D.
    assert (ED : Qofnat (Z.to_nat D) == inject_Z D) by (unfold Qofnat; rewrite Z2Nat.id by lia; reflexivity).
    rewrite ED. unfold nq in W.
    setoid_replace (1 * Qprodpow xs (map (fun c => Z.to_nat (Qnum (Qred (c * inject_Z D)))) cs))
      with (Qprodpow xs (map (fun c => Z.to_nat (Qnum (Qred (c * inject_Z D)))) cs)) in W by ring.
    exact W.
Qed.

(* ---------- the bracket the check falls back to when D > 64: g between the least and the greatest used value ---------- *)
Definition e9g : Q := 1 # 1000000000.
Definition geo_bracket_ok (l : list Q) (g : Q) : Prop :=
  exists mn mx, is_min mn l /\ is_max mx l /\ mn * (1 - e9g) <= g /\ g <= mx * (1 + e9g).

Lemma fold_Qminb_spec : forall l d, let m := fold_left Qminb l d in (m = d \/ In m l) /\ m <= d /\ forall y, In y l -> m <= y.
Proof.
  induction l as [|x l IH]; intros d; cbn [fold_left]; cbv zeta.
  - split; [left; reflexivity|]. split; [lra | intros y []].
  - destruct (IH (Qminb d x)) as (A & B & C). destruct (Qminb_spec d x) as (M1 & M2 & M3). split; [|split].
    + destruct A as [A|A]; [|right; right; exact A]. destruct M3 as [M3|M3]; [left; congruence | right; left; congruence].
    + lra.
    + intros y [<-|Hy]; [lra | apply C; exact Hy].
Qed.
Lemma fold_Qmaxb_spec : forall l d, let m := fold_left Qmaxb l d in (m = d \/ In m l) /\ d <= m /\ forall y, In y l -> y <= m.
Proof.
  induction l as [|x l IH]; intros d; cbn [fold_left]; cbv zeta.
  - split; [left; reflexivity|]. split; [lra | intros y []].
  - destruct (IH (Qmaxb d x)) as (A & B & C). destruct (Qmaxb_spec d x) as (M1 & M2 & M3). split; [|split].
    + destruct A as [A|A]; [|right; right; exact A]. destruct M3 as [M3|M3]; [left; congruence | right; left; congruence].
    + lra.
    + intros y [<-|Hy]; [lra | apply C; exact Hy].
Qed.
Lemma Qlmin_is_min x t : is_min (Qlmin x (x :: t)) (x :: t).
Proof.
  unfold Qlmin. destruct (fold_Qminb_spec (x :: t) x) as (A & B & C). split; [|exact C].
  destruct A as [A|A]; [exists x; split; [left; reflexivity | rewrite A; reflexivity] | eexists; split; [exact A | reflexivity]].
Qed.
Lemma Qlmax_is_max x t : is_max (Qlmax x (x :: t)) (x :: t).
Proof.
  unfold Qlmax. destruct (fold_Qmaxb_spec (x :: t) x) as (A & B & C). split; [|exact C].
  destruct A as [A|A]; [exists x; split; [left; reflexivity | rewrite A; reflexivity] | eexists; split; [exact A | reflexivity]].
Qed.

Lemma geo_check_bracket xs cs g : (64 < lcm_dens cs)%Z -> geo_check xs cs (XFin g) <> 2%Z ->
  0 < g /\ geo_bracket_ok (used (combine xs cs)) g.
Proof.
  intros L G. unfold geo_check in G. destruct (Qle_bool g 0) eqn:E0; [congruence|]. apply Qle_bool_false in E0. split; [exact E0|].
  cbv zeta in G. destruct (64 <? lcm_dens cs)%Z eqn:B; [|apply Z.ltb_ge in B; lia].
  change (map fst (filter (fun p : Q * Q => negb (Qeq_bool (snd p) 0)) (combine xs cs))) with (used (combine xs cs)) in G.
  destruct (used (combine xs cs)) as [|x t]; [congruence|].
  match type of G with (if ?b then _ else _) <> _ => destruct b eqn:W; [|congruence] end.
  breflect. exists (Qlmin x (x :: t)), (Qlmax x (x :: t)).
  split; [apply Qlmin_is_min|]. split; [apply Qlmax_is_max|]. split; assumption.
Qed.

Theorem geo_check_sound xs cs g : Forall (fun c => 0 <= c) cs -> geo_check xs cs (XFin g) <> 2%Z ->
  0 < g /\ (geo_power_ok xs cs g \/ geo_bracket_ok (used (combine xs cs)) g).
Proof.
  intros Fc G. destruct (Z_le_gt_dec (lcm_dens cs) 64) as [L|L].
  - destruct (geo_check_power xs cs g Fc L G) as [P Q]. split; [exact P | left; exact Q].
  - destruct (geo_check_bracket xs cs g ltac:(lia) G) as [P Q]. split; [exact P | right; exact Q].
Qed.

(* ---------- weighted: c_i W = w_i ---------- *)
Definition wgeo_power_ok (xs ws : list Q) (g : Q) : Prop :=
  exists (D : nat) (es : list nat), (0 < D)%nat /\ length es = length ws /\
    Forall2 (fun e w => Qofnat e * Qsum ws == w * Qofnat D) es ws /\          (* e_i / D = w_i / W *)
    Qabs (Qpw g D - Qprodpow xs es) <= geo_scale xs * geo_rel_D D (length xs) * Qprodpow xs es.

Lemma used_coeffs : forall (xs cs ws : list Q) W, 0 < W -> Forall2 (fun c w => c * W == w) cs ws ->
  used (combine xs cs) = used (combine xs ws).
Proof.
  intros xs cs ws W HW F. revert xs. induction F as [|c w cs ws Hcw F IH]; intros [|x xs]; try reflexivity.
  cbn [combine]. assert (E : Qeq_bool c 0 = Qeq_bool w 0).
  { destruct (Qeq_bool w 0) eqn:Ew.
    - apply Qeq_bool_iff in Ew. apply Qeq_bool_iff. rewrite Ew in Hcw.
      assert (c * W / W == 0) by (rewrite Hcw; field; lra). rewrite <- H. field. lra.
    - destruct (Qeq_bool c 0) eqn:Ec; [|reflexivity]. apply Qeq_bool_iff in Ec. rewrite Ec in Hcw.
      assert (Qeq_bool w 0 = true) by (apply Qeq_bool_iff; rewrite <- Hcw; ring). congruence. }
  destruct (Qeq_bool w 0) eqn:Ew.
  - rewrite (used_cons_zero x c _ E), (used_cons_zero x w _ Ew). apply IH.
  - rewrite (used_cons_nz x c _ E), (used_cons_nz x w _ Ew). f_equal. apply IH.
Qed.

Lemma coeffs_nonneg : forall (cs ws : list Q) W, 0 < W -> Forall (fun w => 0 <= w) ws -> Forall2 (fun c w => c * W == w) cs ws ->
  Forall (fun c => 0 <= c) cs.
Proof.
  intros cs ws W HW Fw F. induction F as [|c w cs ws Hcw F IH]; [constructor|].
  inversion Fw; subst. constructor; [|apply IH; assumption].
  assert (0 <= c * W) by (rewrite Hcw; assumption).
  apply Qnot_lt_le. intro C. assert (c * W < 0) by nra. lra.
Qed.

Lemma power_weighted xs cs ws W g : 0 < W -> W == Qsum ws -> Forall2 (fun c w => c * W == w) cs ws ->
  geo_power_ok xs cs g -> wgeo_power_ok xs ws g.
Proof.
  intros HW EW F (D & es & HD & L & Fe & Hv). exists D, es. split; [exact HD|].
  split; [rewrite L; eapply GASort.Forall2_same_length; exact F|]. split; [|exact Hv].
  assert (Fe' : Forall2 (fun e w => Qofnat e * W == w * Qofnat D) es ws).
  { clear Hv L EW. revert es Fe. induction F as [|c w cs ws' Hcw F IH]; intros es Fe; inversion Fe; subst; constructor.
    - match goal with H : Qofnat _ == c * _ |- _ => rewrite H end. rewrite <- Hcw. ring.
    - apply IH. assumption. }
  eapply GASort.Forall2_imp; [|exact Fe']. intros e w H. cbv beta in *. rewrite <- EW. exact H.
Qed.

(* unweighted: every coefficient is 1/n, so every value is used and D = n *)
Lemma used_all_nonzero : forall (xs cs : list Q), length cs = length xs -> Forall (fun c => ~ c == 0) cs -> used (combine xs cs) = xs.
Proof.
  induction xs as [|x xs IH]; intros [|c cs] L F; cbn [length] in L; try discriminate; [reflexivity|].
  inversion F as [|? ? Hc F']; subst. cbn [combine].
  assert (E : Qeq_bool c 0 = false) by (destruct (Qeq_bool c 0) eqn:E; [apply Qeq_bool_iff in E; contradiction | reflexivity]).
  rewrite (used_cons_nz x c _ E). f_equal. apply IH; [lia | exact F'].
Qed.
Lemma geomean_lcm xs cs : geomean xs = GExp cs -> lcm_dens cs = Zpos (Pos.of_nat (length xs)).
Proof.
  intro GM. destruct (geomean_coeffs xs cs GM) as (Lc & Fc & Fx).
  assert (Hn : (0 < length xs)%nat) by (destruct xs; [discriminate GM | cbn; lia]).
  unfold lcm_dens. destruct (lcm_dens_unit (length xs) Hn cs 1%Z (or_introl eq_refl) Fc) as [[_ E]|E]; [|exact E].
  subst cs. cbn in Lc. lia.
Qed.
Theorem geomean_bracket_sound xs g : (64 < length xs)%nat ->
  g_check xs (geomean xs) 0 (XFin g) <> 2%Z -> geomean xs <> GNaN -> geo_bracket_ok xs g.
Proof.
  intros L64 G NN. unfold g_check in G. destruct (geomean xs) as [|cs] eqn:GM; [congruence|]. clear NN. cbn [Z.eqb] in G.
  destruct (geomean_coeffs xs cs GM) as (Lc & Fc & Fx).
  assert (Q0 : 0 < Qofnat (length xs)) by (unfold Qofnat, Qlt; cbn; lia).
  assert (Fnz : Forall (fun c => ~ c == 0) cs).
  { eapply Forall_impl; [|exact Fc]. intros c Hc. cbv beta in Hc. rewrite Hc. intro Z0.
    assert (0 < 1 / Qofnat (length xs)) by (apply Qlt_shift_div_l; lra). lra. }
  assert (LD : (64 < lcm_dens cs)%Z).
  { rewrite (geomean_lcm xs cs GM). rewrite <- (positive_nat_Z (Pos.of_nat (length xs))), Nat2Pos.id by lia. lia. }
  destruct (geo_check_bracket xs cs g LD G) as [_ B].
  rewrite (used_all_nonzero xs cs Lc Fnz) in B. exact B.
Qed.

(* ====================== 5. kind 0: every statistic of one sample ====================== *)
(* GeoMean: NaN exactly for the empty sample or a non-positive value; else a positive float g whose n-th power is
   within geo_rel n of the product of the values when n <= 64; for n > 64 the check only brackets g between the least
   and the greatest value (relative 1e-9): THAT WINDOW IS ALL an accepted verdict says about g then *)
Definition geo_ok (xs : list Q) (o : xreal) : Prop :=
  ((xs = [] \/ exists x, In x xs /\ x <= 0) -> o = XNaN) /\
  (xs <> [] -> (forall x, In x xs -> 0 < x) ->
     exists g, o = XFin g /\ 0 < g /\
       ((length xs <= 64)%nat -> Qabs (Qpw g (length xs) - Qprod xs) <= geo_scale xs * geo_rel (length xs) * Qprod xs) /\
       ((64 < length xs)%nat -> geo_bracket_ok xs g)).
(* Sample.GeoMean; weighted (non-negative weights, one per value): NaN exactly when a value <= 0 carries weight
   (wnonpos) or nothing carries weight (total weight 0) — a non-positive value of weight zero is ignored —; otherwise a
   positive g, through an integer power g^D = prod x_i^e_i with e_i / D = w_i / W when the lcm D of the reduced
   denominators of the w_i / W is <= 64, else only the bracket *)
Definition sgeo_ok (xs : list Q) (ws : option (list Q)) (st : Z) (o : xreal) : Prop :=
  match ws with
  | None => st = 0%Z /\ geo_ok xs o
  | Some w =>
      match xs with
      | [] => st = 0%Z /\ o = XNaN
      | _ => length w = length xs -> Forall (fun v => 0 <= v) w ->
             st = 0%Z /\
             (wnonpos (combine xs w) \/ wsum_w (combine xs w) == 0 -> o = XNaN) /\
             (~ wnonpos (combine xs w) -> 0 < wsum_w (combine xs w) ->
                exists g, o = XFin g /\ 0 < g /\
                  (wgeo_power_ok xs w g \/ geo_bracket_ok (used (combine xs w)) g))
      end
  end.

Definition stats_ok (sorted hasw : bool) (xs ws : list Q) (o : stat_obs) : Prop :=
  let w := ows hasw ws in
  (* the case is a legal Sample: one non-negative weight per value, Sorted only on ascending data *)
  (hasw = true -> length ws = length xs /\ Forall (fun w => 0 <= w) ws) /\ (sorted = true -> StronglySorted Qle xs) /\
  (* slice functions stats.Mean / Variance / StdDev / GeoMean / Bounds *)
  mean_ok xs 0 (so_mean o) /\ var_ok xs 0 (so_var o) /\ std_ok xs 0 (so_std o) /\ geo_ok xs (so_geo o) /\
  bounds_ok xs (so_bmin o) (so_bmax o) /\
  (* Sample methods *)
  smean_ok xs w (sm_st o) (sm_mean o) /\ svar_ok xs w (sv_st o) (sv_var o) /\ sstd_ok xs w (sd_st o) (sd_std o) /\
  sgeo_ok xs w (sg_st o) (sg_geo o) /\ ssum_ok xs w (s_sum o) /\ sweight_ok xs w (s_weight o) /\ sbounds_ok xs w sorted (s_bmin o) (s_bmax o) /\
  (* Xs, Weights, Sorted bit for bit as before the calls *)
  s_unmod o = 1%Z.

Lemma first_false_forall l : first_false l = None -> Forall (fun b => b = true) l.
Proof. intro H. apply Forall_forall. intros b Hb. exact (first_false_none l H b Hb). Qed.
Ltac pop R B := apply Forall_cons_iff in R; destruct R as [B R].

Lemma geo_sound xs st o : negb (g_check xs (geomean xs) st o =? 2)%Z = true -> st = 0%Z /\ geo_ok xs o.
Proof.
  intros H. breflect.
  assert (S0 : st = 0%Z).
  { destruct (Z.eq_dec st 0) as [E|E]; [exact E|]. exfalso. apply H. apply Z.eqb_neq in E. unfold g_check. rewrite E.
    destruct (geomean xs); reflexivity. }
  subst st. split; [reflexivity|]. unfold geo_ok. split.
  - intro N. apply geomean_nan_iff in N. unfold g_check in H. rewrite N in H. cbn [Z.eqb andb] in H.
    destruct (is_nan o) eqn:E; [now apply is_nan_true | congruence].
  - intros Hx Hp. assert (NN : geomean xs <> GNaN).
    { intro G. apply geomean_nan_iff in G. destruct G as [G|(x & I & L)]; [contradiction|]. specialize (Hp x I). lra. }
    destruct o as [| |g].
    + exfalso. apply H. unfold g_check. destruct (geomean xs); [congruence | reflexivity].
    + exfalso. apply H. unfold g_check. destruct (geomean xs); [congruence | reflexivity].
    + exists g. split; [reflexivity|].
      assert (P : 0 < g).
      { apply Qnot_le_lt. intro L. apply H. unfold g_check. destruct (geomean xs); [congruence|]. cbn [Z.eqb]. unfold geo_check.
        apply Qle_bool_iff in L. rewrite L. reflexivity. }
      split; [exact P|]. split.
      * intro L64. exact (proj2 (geomean_value_sound xs g L64 H NN)).
      * intro L64. exact (geomean_bracket_sound xs g L64 H NN).
Qed.

Lemma map_snd_combine : forall (xs ws : list Q), length ws = length xs -> map snd (combine xs ws) = ws.
Proof. induction xs as [|x xs IH]; intros [|w ws] L; cbn in *; try discriminate; try reflexivity. rewrite IH by lia. reflexivity. Qed.

Lemma sgeo_sound xs ws sorted st o :
  negb (g_check xs (sample_geomean (mkSample xs ws sorted)) st o =? 2)%Z = true -> sgeo_ok xs ws st o.
Proof.
  intro H. unfold sgeo_ok. destruct ws as [w|].
  - destruct xs as [|x t] eqn:E.
    + breflect. unfold g_check in H. cbn in H.
      destruct ((st =? 0)%Z && is_nan o) eqn:B; [|congruence]. breflect. split; [assumption | now apply is_nan_true].
    + rewrite <- E in *. assert (Hx : xs <> []) by (rewrite E; discriminate).
      intros L Fw. breflect.
      pose proof (nonneg_combine xs w Fw) as NN.
      pose proof (sample_geomean_nan_iff xs w sorted Hx NN) as NI.
      destruct (sample_geomean (mkSample xs (Some w) sorted)) as [|cs] eqn:SG.
      * unfold g_check in H. destruct ((st =? 0)%Z && is_nan o) eqn:B; [|congruence]. breflect.
        apply is_nan_true in H1. split; [assumption|]. split; [intros _; exact H1|].
        intros NP WP. exfalso. destruct (proj1 NI eq_refl) as [C|C]; [contradiction | rewrite C in WP; lra].
      * unfold g_check in H. destruct (st =? 0)%Z eqn:S0; [|congruence]. apply Z.eqb_eq in S0. split; [exact S0|].
        split; [intro C; apply NI in C; discriminate|].
        intros NP WP.
        pose proof (sample_geomean_coeffs xs w sorted cs Hx NN SG) as FC. rewrite (map_snd_combine xs w L) in FC.
        destruct o as [| |g]; try (exfalso; apply H; reflexivity).
        pose proof (coeffs_nonneg cs w _ WP Fw FC) as Fc.
        destruct (geo_check_sound xs cs g Fc H) as [P [Q|Q]]; exists g; (split; [reflexivity|]); (split; [exact P|]).
        -- left. eapply power_weighted; [exact WP | symmetry; apply Qsum_combine_snd; exact L | exact FC | exact Q].
        -- right. rewrite <- (used_coeffs xs cs w _ WP FC). exact Q.
  - assert (SG : sample_geomean (mkSample xs None sorted) = geomean xs).
    { unfold sample_geomean. cbn [s_xs s_ws]. destruct xs; reflexivity. }
    rewrite SG in H. apply geo_sound. exact H.
Qed.


Lemma asc_sound : forall l, asc l = true -> StronglySorted Qle l.
Proof.
  intros l H. apply Sorted_StronglySorted; [exact Qle_trans|].
  induction l as [|x [|y t] IH]; [constructor | repeat constructor |].
  cbn [asc] in H. breflect. constructor; [apply IH; assumption | constructor; assumption].
Qed.

Lemma sample_ok_sound sorted hasw xs ws : sample_ok sorted hasw xs ws = true ->
  (hasw = true -> length ws = length xs /\ Forall (fun w => 0 <= w) ws) /\ (sorted = true -> StronglySorted Qle xs).
Proof.
  unfold sample_ok. intro H. breflect. split.
  - intros ->. cbn in H. breflect. split; [assumption|]. apply Forall_forall. intros w Hw.
    rewrite forallb_forall in H1. apply Qle_bool_iff. apply H1. exact Hw.
  - intros ->. cbn in H0. apply asc_sound. exact H0.
Qed.

Theorem check_stats_sound sorted hasw xs ws o c tag pos diag :
  sample_ok sorted hasw xs ws = true ->
  check_stats sorted hasw xs ws o = verdict c tag pos diag -> (c = 0 \/ c = 1)%Z -> stats_ok sorted hasw xs ws o.
Proof.
  intros HL V Hc. unfold check_stats in V. cbv zeta in V.
  match type of V with (match xs with [] => match ?r with _ => _ end | _ => _ end) = _ => destruct r as [w|] eqn:R end.
  { destruct xs; bad_verdict V. }
  clear V. apply first_false_forall in R.
  pop R B0. pop R B1. pop R B2. pop R B3. pop R B4. pop R B5. pop R B6. pop R B7. pop R B8. pop R B9. pop R B10. pop R B11. pop R B12.
  clear R. unfold stats_ok. cbv zeta.
  destruct (sample_ok_sound _ _ _ _ HL) as [HL1 HL2].
  split; [exact HL1|]. split; [exact HL2|].
  split; [exact (mean_sound xs _ 0 _ B0)|].
  split; [exact (variance_sound xs 0 _ B1)|].
  split; [exact (stddev_sound xs 0 _ B2)|].
  split; [exact (proj2 (geo_sound xs 0 _ B3))|].
  split; [exact (bounds_sound xs _ _ B4)|].
  split; [apply (smean_sound xs (ows hasw ws) sorted); destruct hasw; exact B5|].
  split; [apply (svar_sound_stats xs (ows hasw ws) sorted); destruct hasw; exact B6|].
  split; [apply (sstd_sound_stats xs (ows hasw ws) sorted); destruct hasw; exact B7|].
  split; [apply (sgeo_sound xs (ows hasw ws) sorted); destruct hasw; exact B8|].
  split; [apply (ssum_sound xs (ows hasw ws) sorted); destruct hasw; exact B9|].
  split; [apply (sweight_sound xs (ows hasw ws) sorted); destruct hasw; exact B10|].
  split; [apply (sbounds_sound xs (ows hasw ws) sorted); destruct hasw; exact B11|].
  breflect. exact B12.
Qed.

(* the premises of smean_ok / sgeo_ok / sbounds_ok are facts of an accepted case: every weighted Mean and GeoMean is
   compared: NaN when every weight is zero, GeoMean NaN when a value <= 0 carries weight *)
Lemma allzero_wsum' : forall (xs ws : list Q), (forall v, In v ws -> v == 0) -> wsum_w (combine xs ws) == 0.
Proof.
  intros xs ws H. apply allzero_wsum. apply forallb_forall. intros v Hv. apply Qeq_bool_iff. apply H. exact Hv.
Qed.

Theorem stats_ok_weighted sorted xs ws o : stats_ok sorted true xs ws o -> xs <> [] ->
  sm_st o = 0%Z /\ sg_st o = 0%Z /\
  ((forall v, In v ws -> v == 0) -> sm_mean o = XNaN /\ sg_geo o = XNaN) /\                    (* every weight zero *)
  ((exists x v, In (x, v) (combine xs ws) /\ x <= 0 /\ ~ v == 0) -> sg_geo o = XNaN) /\       (* a value <= 0 carries weight *)
  ((exists v, In v ws /\ ~ v == 0) -> obs_near (tol_wmean xs) (wmean_def (combine xs ws)) (sm_mean o)).
Proof.
  intros S Hx. unfold stats_ok in S. cbv zeta in S. destruct S as (HL & _ & _ & _ & _ & _ & _ & SM & _ & _ & SG & _).
  destruct (HL eq_refl) as [L F]. cbn [ows smean_ok sgeo_ok] in SM, SG. destruct xs as [|x t] eqn:E; [congruence|]. rewrite <- E in *.
  destruct SM as (M0 & M1 & M2). destruct (SG L F) as (G0 & G1 & _).
  split; [exact M0|]. split; [exact G0|]. split; [|split].
  - intro Z. pose proof (allzero_wsum' xs ws Z) as W0. split; [apply M1; exact W0 | apply G1; right; exact W0].
  - intro NP. apply G1. left. exact NP.
  - intro NZ. apply M2; [apply nonneg_combine; exact F | apply wsum_w_pos; assumption].
Qed.
Theorem stats_ok_bounds sorted hasw xs ws o : stats_ok sorted hasw xs ws o ->
  bounds_ok (if hasw then used (combine xs ws) else xs) (s_bmin o) (s_bmax o).
Proof.
  intros S. unfold stats_ok in S. cbv zeta in S.
  destruct S as (HL & HS & _ & _ & _ & _ & _ & _ & _ & _ & _ & _ & _ & SB & _). unfold sbounds_ok in SB.
  destruct hasw; cbn [ows] in SB.
  - apply SB; [exact HS | exact (proj1 (HL eq_refl))].
  - apply SB. exact HS.
Qed.

Theorem stats_ok_closed sorted hasw xs ws o : stats_ok sorted hasw xs ws o ->
  (hasw = true -> xs <> [] ->
     sm_st o = 0%Z /\ sg_st o = 0%Z /\
     ((forall v, In v ws -> v == 0) -> sm_mean o = XNaN /\ sg_geo o = XNaN) /\
     ((exists x v, In (x, v) (combine xs ws) /\ x <= 0 /\ ~ v == 0) -> sg_geo o = XNaN) /\
     ((exists v, In v ws /\ ~ v == 0) -> obs_near (tol_wmean xs) (wmean_def (combine xs ws)) (sm_mean o))) /\
  bounds_ok (if hasw then used (combine xs ws) else xs) (s_bmin o) (s_bmax o).
Proof.
  intros S. split; [intros -> Hx; exact (stats_ok_weighted sorted xs ws o S Hx) | exact (stats_ok_bounds _ _ _ _ _ S)].
Qed.

Lemma list_Qeq_sound : forall a b, list_Qeq a b = true -> Forall2 Qeq a b.
Proof.
  induction a as [|x a IH]; intros [|y b] H; cbn in H; try discriminate; [constructor|].
  breflect. constructor; [assumption | now apply IH].
Qed.

(* ====================== 6. kind 1: histories ====================== *)
(* one Query of a sample with contents s *)
Definition query_obs_ok (s : sample) (mst : Z) (m sm w b1 b2 : xreal) (vst : Z) (v : xreal) : Prop :=
  smean_ok (s_xs s) (s_ws s) mst m /\ ssum_ok (s_xs s) (s_ws s) sm /\ sweight_ok (s_xs s) (s_ws s) w /\
  sbounds_ok (s_xs s) (s_ws s) (s_sorted s) b1 b2 /\ svar_ok (s_xs s) (s_ws s) vst v.

Theorem query_ok_sound s mst m sm w b1 b2 vst v :
  query_ok s mst m sm w b1 b2 vst v = None -> query_obs_ok s mst m sm w b1 b2 vst v.
Proof.
  intro R. unfold query_ok in R. cbv zeta in R. apply first_false_forall in R.
  pop R B0. pop R B1. pop R B2. pop R B3. pop R B4. clear R.
  destruct s as [xs ws sorted]. unfold query_obs_ok. cbn [s_xs s_ws s_sorted] in *.
  split; [apply (smean_sound xs ws sorted); destruct ws; exact B0|].
  split; [apply (ssum_sound xs ws sorted); destruct ws; exact B1|].
  split; [apply (sweight_sound xs ws sorted); destruct ws; exact B2|].
  split; [apply (sbounds_sound xs ws sorted); exact B3|].
  apply (svar_sound xs ws sorted). destruct ws; [exact B4|].
  rewrite sample_variance_unw in B4. rewrite sample_variance_unw. exact B4.
Qed.

(* a legal Sample: one non-negative weight per value, Sorted only on ascending data.  Every sample of the
   store stays legal along an accepted run (Sort, Copy, direct writes that clear the flag, adoption of the observed
   order of a just-sorted sample) *)
Definition swf (s : sample) : Prop :=
  match s_ws s with Some w => length w = length (s_xs s) /\ Forall (fun x => 0 <= x) w | None => True end /\
  (s_sorted s = true -> StronglySorted Qle (s_xs s)).

Lemma sorted_transport : forall a b, Forall2 Qeq a b -> StronglySorted Qle a -> StronglySorted Qle b.
Proof.
  induction 1 as [|x y a b Hxy F IH]; intro S; [constructor|].
  inversion S as [|? ? S' Fa]; subst. constructor; [apply IH; exact S'|].
  clear -Hxy F Fa. induction F as [|x' y' a b H' F IH]; [constructor|].
  inversion Fa; subst. constructor; [rewrite <- Hxy, <- H'; assumption | apply IH; assumption].
Qed.
Lemma Forall2_in_r {A B} (R : A -> B -> Prop) : forall a b, Forall2 R a b -> forall y, In y b -> exists x, In x a /\ R x y.
Proof.
  induction 1 as [|x y a b Hxy F IH]; intros z Hz; [destruct Hz|].
  destruct Hz as [<-|Hz]; [exists x; split; [left; reflexivity | exact Hxy]|].
  destruct (IH z Hz) as (x' & I & Rz). exists x'. split; [right; exact I | exact Rz].
Qed.
Lemma in_combine_snd : forall (xs ws : list Q) v, length ws = length xs -> In v ws -> exists x, In (x, v) (combine xs ws).
Proof.
  induction xs as [|x xt IH]; intros [|w wt] v L I; cbn [length] in L; try discriminate; [destruct I|].
  destruct I as [<-|I]; [exists x; left; reflexivity|].
  destruct (IH wt v ltac:(lia) I) as (x' & I'). exists x'. right. exact I'.
Qed.
Lemma length_set_nth {A} : forall (l : list A) j a, length (set_nth l j a) = length l.
Proof. induction l as [|x l IH]; intros [|j] a; cbn; try reflexivity. rewrite IH. reflexivity. Qed.

Lemma swf_sort s : swf s -> swf (sample_sort s).
Proof.
  intros G. pose proof G as [W S]. unfold sample_sort. destruct (s_sorted s) eqn:E; [exact G|].
  destruct (s_ws s) as [w|] eqn:Ew.
  - destruct W as [L F]. split; cbn [s_xs s_ws s_sorted].
    + split; [rewrite !map_length; reflexivity|]. apply Forall_forall. intros v Hv.
      apply in_map_iff in Hv. destruct Hv as ([x v'] & <- & I). apply (proj1 (psort_in _ _)) in I. apply in_combine_r in I.
      rewrite Forall_forall in F. apply F. exact I.
    + intros _. rewrite psort_fst. apply Qsort_sorted.
  - split; cbn [s_xs s_ws s_sorted]; [exact I | intros _; apply Qsort_sorted].
Qed.

Lemma swf_adopt m d : swf m -> same_sorted_sample m d = true -> swf (sample_of_dump d).
Proof.
  intros [W S] H. unfold same_sorted_sample in H. destruct m as [mx mw ms], d as [dsorted dhasw dxs dws].
  cbn [s_xs s_ws s_sorted sd_sorted sd_hasw sd_xs sd_ws has_w ws_of] in *. unfold sample_of_dump. cbn [sd_sorted sd_hasw sd_xs sd_ws].
  apply andb_prop in H. destruct H as [H H4]. apply andb_prop in H. destruct H as [H H3].
  apply andb_prop in H. destruct H as [H1 H2]. apply Bool.eqb_prop in H1. apply list_Qeq_sound in H3.
  split; cbn [s_xs s_ws s_sorted].
  - destruct mw as [w|]; apply Bool.eqb_prop in H2; subst dhasw; [|exact I].
    destruct W as [L F]. cbv zeta in H4. apply andb_prop in H4. destruct H4 as [HL H4]. apply Nat.eqb_eq in HL.
    apply andb_prop in H4. destruct H4 as [_ HS]. apply list_Qeq_sound in HS.
    split; [exact HL|]. apply Forall_forall. intros v Hv.
    destruct (in_combine_snd dxs dws v HL Hv) as (x & Ixv).
    assert (Iv : In v (map snd (canon (combine dxs dws)))).
    { apply in_map_iff. exists (x, v). split; [reflexivity|]. unfold canon. apply (proj2 (isort_in _ _ _ _)). exact Ixv. }
    destruct (Forall2_in_r _ _ _ HS v Iv) as (v' & Iv' & Ev).
    apply in_map_iff in Iv'. destruct Iv' as ([x' v''] & <- & Ip). unfold canon in Ip. apply (proj1 (isort_in _ _ _ _)) in Ip.
    apply in_combine_r in Ip. rewrite Forall_forall in F. cbn [snd] in Ev. rewrite <- Ev. apply F. exact Ip.
  - intros ->. subst ms. eapply sorted_transport; [exact H3 | apply S; reflexivity].
Qed.

Lemma swf_nth st i s : Forall swf st -> nth_error st i = Some s -> swf s.
Proof. intros F E. rewrite Forall_forall in F. apply F. eapply nth_error_In. exact E. Qed.

Lemma swf_step st op : Forall swf st -> Forall swf (h_step st op).
Proof.
  intro F. destruct op as [i|i|i j v|i]; cbn [h_step].
  - destruct (nth_error st i) as [s|] eqn:E; [|exact F]. apply Forall_set_nth; [exact F | apply swf_sort; eapply swf_nth; eassumption].
  - destruct (nth_error st i) as [s|] eqn:E; [|exact F]. apply Forall_app. split; [exact F|].
    constructor; [unfold sample_copy; eapply swf_nth; eassumption | constructor].
  - destruct (nth_error st i) as [s|] eqn:E; [|exact F]. apply Forall_set_nth; [exact F|].
    destruct (swf_nth _ _ _ F E) as [W _]. split; cbn [s_xs s_ws s_sorted]; [|discriminate].
    destruct (s_ws s); [rewrite length_set_nth; exact W | exact I].
  - exact F.
Qed.

Lemma same_store_nth : forall ms ds special k i m d, same_store ms ds special k = true ->
  nth_error ms i = Some m -> nth_error ds i = Some d ->
  (if (k + i =? special)%nat then same_sorted_sample m d else same_sample m d) = true.
Proof.
  induction ms as [|m0 ms IH]; intros [|d0 ds] special k i m d H Em Ed; try (destruct i; discriminate).
  cbn [same_store] in H. apply andb_prop in H. destruct H as [H0 H].
  destruct i as [|i]; cbn in Em, Ed.
  - injection Em as <-. injection Ed as <-. rewrite Nat.add_0_r. exact H0.
  - replace (k + S i)%nat with (S k + i)%nat by lia. eapply IH; eassumption.
Qed.

(* the dump after a Sort / Copy / Poke shows exactly the model store *)
Definition dump_ok (st' : list sample) (op : hop) (ds : list sdump) : Prop :=
  same_store st' ds (match op with HSort i => i | _ => length st' end) 0 = true.

(* the run, relative to the model store (h_step of Model/Sample.v): every dump agrees with the store
   (the just-sorted sample up to the order inside groups of equal values, which is then adopted),
   every query is about a legal Sample and is correct for the contents of the queried sample *)
Fixpoint hist_ok (st : list sample) (ops : list (hop * hobs)) : Prop :=
  match ops with
  | [] => True
  | (op, ob) :: rest =>
      let st' := h_step st op in
      match op, ob with
      | HQuery i, OQuery mst m sm w b1 b2 vst v =>
          (exists s, nth_error st' i = Some s /\ swf s /\ query_obs_ok s mst m sm w b1 b2 vst v) /\ hist_ok st' rest
      | HQuery _, ODump _ => False
      | _, ODump ds =>
          dump_ok st' op ds /\
          hist_ok (match op with
                   | HSort i => match nth_error ds i with Some d => set_nth st' i (sample_of_dump d) | None => st' end
                   | _ => st' end) rest
      | _, OQuery _ _ _ _ _ _ _ _ => False
      end
  end.

Theorem run_hist_sound : forall ops st idx tag tag' pos diag, Forall swf st ->
  run_hist st ops idx tag = (0%Z, tag', pos, diag) -> hist_ok st ops.
Proof.
  induction ops as [|[op ob] rest IH]; intros st idx tag tag' pos diag W R; [exact I|].
  cbn [run_hist] in R. cbv zeta in R. cbn [hist_ok]. cbv zeta.
  pose proof (swf_step st op W) as W'.
  destruct op as [i|i|i j x|i]; destruct ob as [ds|mst m sm w b1 b2 vst v]; try discriminate.
  - destruct (same_store (h_step st (HSort i)) ds i 0) eqn:S; [|discriminate].
    split; [exact S|]. eapply IH; [|exact R].
    destruct (nth_error ds i) as [d|] eqn:Ed; [|exact W'].
    destruct (nth_error (h_step st (HSort i)) i) as [m|] eqn:Em.
    + apply Forall_set_nth; [exact W'|]. eapply swf_adopt; [eapply swf_nth; eassumption|].
      pose proof (same_store_nth _ _ _ _ _ _ _ S Em Ed) as Q. cbn [Nat.add] in Q. rewrite Nat.eqb_refl in Q. exact Q.
    + (* index beyond the store: set_nth changes nothing *)
      assert (G : forall (l : list sample) k a, nth_error l k = None -> set_nth l k a = l).
      { induction l as [|x l IHl]; intros [|k] a E; cbn in *; try reflexivity; try discriminate. rewrite IHl by exact E. reflexivity. }
      rewrite G by exact Em. exact W'.
  - destruct (same_store (h_step st (HCopy i)) ds (length (h_step st (HCopy i))) 0) eqn:S; [|discriminate].
    split; [exact S | eapply IH; [exact W' | exact R]].
  - destruct (same_store (h_step st (HPoke i j x)) ds (length (h_step st (HPoke i j x))) 0) eqn:S; [|discriminate].
    split; [exact S | eapply IH; [exact W' | exact R]].
  - destruct (nth_error (h_step st (HQuery i)) i) as [s|] eqn:N; [|discriminate].
    destruct (query_ok s mst m sm w b1 b2 vst v) as [k|] eqn:Qk; [discriminate|].
    split; [exists s; split; [reflexivity | split; [eapply swf_nth; eassumption | apply query_ok_sound; exact Qk]] | eapply IH; [exact W' | exact R]].
Qed.

(* for a legal Sample the premises of the weighted-Mean and Bounds clauses of a query hold: the weighted Mean is NaN
   when every weight is zero and within tolerance of sum(w x)/sum(w) otherwise *)
Theorem query_closed s mst m sm w b1 b2 vst v : swf s -> query_obs_ok s mst m sm w b1 b2 vst v ->
  match s_ws s with
  | Some ws => (s_xs s <> [] ->
                  mst = 0%Z /\ ((forall w0, In w0 ws -> w0 == 0) -> m = XNaN) /\
                  ((exists w0, In w0 ws /\ ~ w0 == 0) -> obs_near (tol_wmean (s_xs s)) (wmean_def (combine (s_xs s) ws)) m)) /\
               bounds_ok (used (combine (s_xs s) ws)) b1 b2
  | None => bounds_ok (s_xs s) b1 b2
  end.
Proof.
  intros [W S] (QM & _ & _ & QB & _). destruct s as [xs [ws|] sorted]; cbn [s_xs s_ws s_sorted] in *.
  - destruct W as [L F]. split.
    + intros Hx. unfold smean_ok in QM. destruct xs as [|x t] eqn:E; [congruence|]. rewrite <- E in *.
      destruct QM as (M0 & M1 & M2). split; [exact M0|]. split.
      * intro Z. apply M1. apply allzero_wsum'. exact Z.
      * intro NZ. apply M2; [apply nonneg_combine; exact F | apply wsum_w_pos; assumption].
    + apply QB; [exact S | exact L].
  - apply QB. exact S.
Qed.

(* ====================== 7. kind 2: vec ====================== *)
Lemma lists_close_sound tol : forall e o, lists_close tol e o = true -> Forall2 (fun x y => Qabs (y - x) <= tol) e o.
Proof.
  induction e as [|x e IH]; intros [|y o] H; cbn in H; try discriminate; [constructor|].
  breflect. constructor; [now apply within_sound | now apply IH].
Qed.

(* Linspace: num values, the i-th within tol_lin of lo + i (hi - lo) / (num - 1); num = 1: [lo] *)
Definition lin_ok (lo hi : Q) (num : nat) (res : list Q) : Prop :=
  length res = num /\
  match num with
  | 1%nat => forall d, Qabs (nth 0 res d - lo) <= tol_lin lo hi
  | _ => forall i d, (i < num)%nat -> Qabs (nth i res d - (lo + Qofnat i * (hi - lo) / Qofnat (num - 1))) <= tol_lin lo hi
  end.

Definition vec_ok (v : vcase) : Prop :=
  match v with
  | VLin lo hi num res => lin_ok lo hi num res
  | VLog lo hi num base res =>      (* the two tests are interpreted in Proofs/CheckC09Log.v: logspace_accept_sound *)
      pows_ok base (logspace_exponents lo hi num) res = true /\ geo_prog res = true
  | VSum xs r => sum_ok xs (Qsum xs) r
  | VMap fid xs r1 r2 u =>
      Forall2 Qeq (map (vec_fun fid) xs) r1 /\ Forall2 Qeq (map (vec_fun fid) xs) r2 /\ u = 1%Z   (* input unmodified *)
  | VConcat xss r u => Forall2 Qeq (concat xss) r /\ u = 1%Z
  end.

Lemma Forall2_nth {A B} (P : A -> B -> Prop) : forall l l', Forall2 P l l' ->
  length l = length l' /\ forall i da db, (i < length l)%nat -> P (nth i l da) (nth i l' db).
Proof.
  induction 1 as [|x y l l' Hxy F IH]; [split; [reflexivity | intros i ? ? Hi; cbn in Hi; lia]|].
  destruct IH as [L N]. split; [cbn; lia|]. intros [|i] da db Hi; [exact Hxy | apply N; cbn in Hi; lia].
Qed.

Lemma lin_sound lo hi num res : lists_close (tol_lin lo hi) (linspace lo hi num) res = true -> lin_ok lo hi num res.
Proof.
  intro H. apply lists_close_sound in H. destruct (Forall2_nth _ _ _ H) as [L N]. rewrite linspace_length in L, N.
  unfold lin_ok. split; [lia|].
  destruct num as [|[|n]].
  - intros i d Hi. lia.
  - intro d. specialize (N 0%nat 0 d ltac:(lia)). rewrite linspace_one in N. exact N.
  - intros i d Hi. specialize (N i 0 d Hi). rewrite (linspace_nth lo hi (S (S n)) i ltac:(lia) Hi) in N. exact N.
Qed.

Theorem check_vec_sound v d : check_vec v = (true, d) -> vec_ok v.
Proof.
  destruct v as [lo hi num res | lo hi num base res | xs r | fid xs r1 r2 u | xss r u]; cbn [check_vec vec_ok]; intro H;
    injection H as H _.
  - apply lin_sound. exact H.
  - breflect. split; assumption.
  - eapply sum_close_sound; [apply vsum_eq | exact H].
  - breflect. unfold vectorize, vmap in *. repeat split; [apply list_Qeq_sound | apply list_Qeq_sound |]; assumption.
  - breflect. unfold vconcat in *. split; [apply list_Qeq_sound|]; assumption.
Qed.

(* ====================== 8. the verdict ====================== *)
Definition case_ok (cs : c09case) : Prop :=
  match cs with
  | KStats sorted hasw xs ws o => stats_ok sorted hasw xs ws o
  | KHist sorted hasw xs ws ops => hist_ok [mkSample xs (ows hasw ws) sorted] ops
  | KVec v => vec_ok v
  | KSteps steps => Forall (fun st => let '(sorted, hasw, xs, ws, o) := st in stats_ok sorted hasw xs ws o) steps
  end.

(* kind 3: every step of an accepted in-place history satisfies the kind-0 specification for the contents current at
   that step (the backing arrays are the same storage throughout: the harness overwrites them in place) *)
Lemma run_steps_sound : forall steps i tag c tag' pos diag,
  run_steps steps i tag = verdict c tag' pos diag -> (c = 0 \/ c = 1)%Z ->
  c = 0%Z /\ Forall (fun st => let '(sorted, hasw, xs, ws, o) := st in stats_ok sorted hasw xs ws o) steps.
Proof.
  induction steps as [|[[[[sorted hasw] xs] ws] o] rest IH]; intros i tag c tag' pos diag V Hc; cbn [run_steps] in V.
  - apply verdict_inj in V. destruct V as [V _]. unfold V_OK in V. split; [lia | constructor].
  - destruct (negb (sample_ok sorted hasw xs ws)) eqn:G; [bad_verdict V|]. apply Bool.negb_false_iff in G.
    destruct (check_stats sorted hasw xs ws o) as [|code [|t [|p d]]] eqn:E; try (bad_verdict V).
    cbv zeta in V. destruct (code =? 0)%Z eqn:C0.
    + apply Z.eqb_eq in C0. subst code. destruct (IH _ _ _ _ _ _ V Hc) as [Ec F]. split; [exact Ec|].
      constructor; [|exact F]. eapply (check_stats_sound sorted hasw xs ws o 0%Z t p d G); [exact E | left; reflexivity].
    + apply Z.eqb_neq in C0. apply verdict_inj in V. destruct V as [V _]. subst c.
      (* an accepted code 1 is never produced by check_stats *)
      exfalso. unfold check_stats in E. cbv zeta in E.
      match type of E with (match xs with [] => match ?r with _ => _ end | _ => _ end) = _ => destruct r end;
        destruct xs; unfold verdict in E; injection E as E _; unfold V_OK, V_MISMATCH in E; lia.
Qed.


Theorem check_case_sound cs c tag pos diag :
  check_case cs = verdict c tag pos diag -> (c = 0 \/ c = 1)%Z -> c = 0%Z /\ case_ok cs.
Proof.
  intros V Hc. destruct cs as [sorted hasw xs ws o | sorted hasw xs ws ops | v | steps]; cbn [check_case case_ok] in *.
  - destruct (negb (sample_ok sorted hasw xs ws)) eqn:G; [bad_verdict V|]. breflect.
    split; [|eapply check_stats_sound; eassumption].
    unfold check_stats in V. cbv zeta in V.
    match type of V with (match xs with [] => match ?r with _ => _ end | _ => _ end) = _ => destruct r end;
      destruct xs; apply verdict_inj in V; destruct V as [V _]; unfold V_OK, V_MISMATCH in V; lia.
  - destruct (negb (sample_ok sorted hasw xs ws)) eqn:G; [bad_verdict V|]. apply Bool.negb_false_iff in G.
    cbv zeta in V. destruct (run_hist [mkSample xs (if hasw then Some ws else None) sorted] ops 0%Z T_HIST) as [[[code tg] ps] dg] eqn:R.
    apply verdict_inj in V. destruct V as [V _].
    assert (C0 : code = 0%Z).
    { assert (GC : forall ops st idx tag code tg ps dg, run_hist st ops idx tag = (code, tg, ps, dg) -> (code = 0 \/ code = 2 \/ code = 3)%Z).
      { clear. induction ops as [|[op ob] rest IH]; intros st idx tag code tg ps dg R; cbn [run_hist] in R; cbv zeta in R.
        - injection R as <- _ _ _. auto.
        - destruct op as [i|i|i j x|i]; destruct ob as [ds|mst m sm w b1 b2 vst v];
            repeat match type of R with
                   | (if ?b then _ else _) = _ => destruct b
                   | match ?x with _ => _ end = _ => destruct x
                   end;
            try (injection R as <- _ _ _; auto; fail); eapply IH; exact R. }
      destruct (GC _ _ _ _ _ _ _ _ R) as [->|[->| ->]]; [reflexivity| |]; cbn in V; unfold V_MALFORMED in V; lia. }
    subst code. cbn in V. split; [lia|]. eapply run_hist_sound; [|exact R].
    constructor; [|constructor]. destruct (sample_ok_sound _ _ _ _ G) as [G1 G2]. split; cbn [s_xs s_ws s_sorted].
    + destruct hasw; [exact (G1 eq_refl) | exact I].
    + exact G2.
  - destruct (check_vec v) as [ok d] eqn:E. destruct ok; [|bad_verdict V].
    apply verdict_inj in V. destruct V as [V _]. split; [unfold V_OK in V; lia|]. eapply check_vec_sound; exact E.
  - eapply run_steps_sound; eassumption.
Qed.

Theorem check_ok_sound line cs c tag pos diag :
  check_C09 line = verdict c tag pos diag -> (c = 0 \/ c = 1)%Z -> p_line line = Some (cs, []) -> c = 0%Z /\ case_ok cs.
Proof.
  intros V Hc P. unfold check_C09 in V. rewrite P in V. eapply check_case_sound; eassumption.
Qed.

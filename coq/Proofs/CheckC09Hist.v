(* Proofs/CheckC09Hist.v — (group hL) C09, history soundness composition.
   Proofs/CheckC09.v states what an accepted history line means RELATIVE TO THE MODEL STORE
   (hist_ok st ops: h_step of Model/Sample.v plus the adoption of the observed order after a Sort).
   Here the same acceptance is restated over the OBSERVED DUMPS only (obs_hist_ok): the store "as last
   observed" evolves by the dumps themselves; each dump is related to the previous one by what the operation
   is allowed to do (Sort: same pairs up to order and ==, ascending, flag set; Copy: one more sample == to the
   copied one; direct write: one value replaced, flag cleared; every other sample pointwise == to what it was).
   hist_ok_obs: hist_ok st ops -> obs_hist_ok cur ops whenever the model store is pointwise == to cur.
   obs_hist_multiset: without direct writes every dumped sample holds the ORIGINAL (value, weight) pairs up to
   order and ==, ascending when its Sorted flag is set, and every query is correct for such a sample.
   history_line_sound: the composition with the verdict of check_case. *)
From MM Require Import Base.Num Base.GASort Model.Sample Spec.Sample.
From MM Require Import Proofs.Sample Proofs.CheckBase Check.C09 Proofs.CheckC09.
From Coq Require Import List Permutation Lqa Lia Sorted SetoidList SetoidPermutation.
Import ListNotations.
Local Open Scope Q_scope.

(* ====================== 0. lists ====================== *)
Lemma F2_refl {A} (R : A -> A -> Prop) : (forall x, R x x) -> forall l, Forall2 R l l.
Proof. intros HR l. induction l as [|x l IH]; constructor; auto. Qed.
Lemma F2_sym {A} (R : A -> A -> Prop) : (forall x y, R x y -> R y x) -> forall a b, Forall2 R a b -> Forall2 R b a.
Proof. intros HR a b F. induction F as [|x y a b Hxy F IH]; constructor; auto. Qed.
Lemma F2_trans {A} (R : A -> A -> Prop) : (forall x y z, R x y -> R y z -> R x z) ->
  forall a b c, Forall2 R a b -> Forall2 R b c -> Forall2 R a c.
Proof.
  intros HR a b c F. revert c. induction F as [|x y a b Hxy F IH]; intros c G; inversion G; subst; constructor.
  - eapply HR; eassumption.
  - apply IH. assumption.
Qed.
Lemma F2_nth {A B} (R : A -> B -> Prop) : forall a b, Forall2 R a b -> forall i,
  match nth_error a i, nth_error b i with Some x, Some y => R x y | None, None => True | _, _ => False end.
Proof. induction 1 as [|x y a b Hxy F IH]; intros [|i]; cbn; auto. apply IH. Qed.
Lemma F2_of_nth {A B} (R : A -> B -> Prop) : forall a b, length a = length b ->
  (forall k x y, nth_error a k = Some x -> nth_error b k = Some y -> R x y) -> Forall2 R a b.
Proof.
  induction a as [|x a IH]; intros [|y b] L H; cbn in L; try discriminate; constructor.
  - apply (H 0%nat); reflexivity.
  - apply IH; [lia|]. intros k u v Hu Hv. apply (H (S k)); assumption.
Qed.
Lemma F2_set_nth {A B} (R : A -> B -> Prop) : forall a b, Forall2 R a b ->
  forall i x y, R x y -> Forall2 R (set_nth a i x) (set_nth b i y).
Proof. induction 1 as [|u v a b Huv F IH]; intros [|i] x y Hxy; cbn; constructor; auto. Qed.
Lemma F2_Forall {A B} (R : A -> B -> Prop) (P : A -> Prop) (P' : B -> Prop) :
  (forall x y, P x -> R x y -> P' y) -> forall a b, Forall2 R a b -> Forall P a -> Forall P' b.
Proof.
  intros HP a b F. induction F as [|x y a b Hxy F IH]; intro G; [constructor|].
  inversion G; subst. constructor; [eapply HP; eassumption | apply IH; assumption].
Qed.
Lemma nth_set_nth_eq {A} : forall (l : list A) i a x, nth_error l i = Some x -> nth_error (set_nth l i a) i = Some a.
Proof. induction l as [|y l IH]; intros [|i] a x E; cbn in *; try discriminate; [reflexivity | eapply IH; exact E]. Qed.
Lemma nth_set_nth_neq {A} : forall (l : list A) i k a, k <> i -> nth_error (set_nth l i a) k = nth_error l k.
Proof.
  induction l as [|y l IH]; intros [|i] [|k] a N; cbn; try reflexivity; try congruence.
  apply IH. congruence.
Qed.
Lemma nth_map_some {A B} (f : A -> B) : forall l k y, nth_error (map f l) k = Some y ->
  exists d, nth_error l k = Some d /\ y = f d.
Proof.
  induction l as [|a l IH]; intros [|k] y E; cbn in E; try discriminate.
  - injection E as <-. exists a. split; reflexivity.
  - apply IH. exact E.
Qed.
Lemma nth_some_lt {A} (l : list A) k x : nth_error l k = Some x -> (k < length l)%nat.
Proof. intro E. apply nth_error_Some. congruence. Qed.
Lemma nth_lt_some {A} (l : list A) k : (k < length l)%nat -> exists x, nth_error l k = Some x.
Proof. intro L. destruct (nth_error l k) as [x|] eqn:E; [exists x; reflexivity|]. apply nth_error_None in E. lia. Qed.

Lemma same_store_length : forall ms ds special k, same_store ms ds special k = true -> length ms = length ds.
Proof.
  induction ms as [|m ms IH]; intros [|d ds] special k H; cbn in H; try discriminate; [reflexivity|].
  apply andb_prop in H. destruct H as [_ H]. cbn [length]. f_equal. eapply IH. exact H.
Qed.

(* ====================== 1. pairs up to ==, samples up to == ====================== *)
Definition pair_eq (a b : Q * Q) : Prop := fst a == fst b /\ snd a == snd b.
Lemma pair_eq_refl a : pair_eq a a.
Proof. split; apply Qeq_refl. Qed.
Lemma pair_eq_sym a b : pair_eq a b -> pair_eq b a.
Proof. intros [H1 H2]. split; apply Qeq_sym; assumption. Qed.
Lemma pair_eq_trans a b c : pair_eq a b -> pair_eq b c -> pair_eq a c.
Proof. intros [H1 H2] [G1 G2]. split; eapply Qeq_trans; eassumption. Qed.
#[local] Instance pair_eq_Equiv : Equivalence pair_eq.
Proof. split; [exact pair_eq_refl | exact pair_eq_sym | exact pair_eq_trans]. Qed.

(* the (value, weight) pairs of a sample; an unweighted sample has unit weights *)
Definition opairs (s : sample) : list (Q * Q) :=
  match s_ws s with Some w => combine (s_xs s) w | None => map (fun x => (x, 1)) (s_xs s) end.
Lemma opairs_spairs s : opairs s = spairs s.
Proof. reflexivity. Qed.

Lemma F2_PermA : forall a b, Forall2 pair_eq a b -> PermutationA pair_eq a b.
Proof. induction 1 as [|x y a b Hxy F IH]; [apply permA_nil | apply permA_skip; assumption]. Qed.
Lemma Perm_PermA : forall a b : list (Q * Q), Permutation a b -> PermutationA pair_eq a b.
Proof. intros a b P. apply (Permutation_PermutationA pair_eq_Equiv). exact P. Qed.
Lemma PermA_sym : forall a b, PermutationA pair_eq a b -> PermutationA pair_eq b a.
Proof.
  induction 1 as [|x y a b Hxy P IH|x y a|a b c P1 IH1 P2 IH2].
  - apply permA_nil.
  - apply permA_skip; [apply pair_eq_sym; exact Hxy | exact IH].
  - apply permA_swap.
  - eapply permA_trans; eassumption.
Qed.
Lemma PermA_refl : forall a, PermutationA pair_eq a a.
Proof. intro a. apply F2_PermA. apply F2_refl. exact pair_eq_refl. Qed.

(* same flag, same weightedness, values and weights pointwise == *)
Definition sample_eqv (a b : sample) : Prop :=
  s_sorted a = s_sorted b /\ (s_ws a = None <-> s_ws b = None) /\
  Forall2 Qeq (s_xs a) (s_xs b) /\ Forall2 Qeq (ws_of a) (ws_of b).

Lemma sample_eqv_refl a : sample_eqv a a.
Proof. split; [reflexivity|]. split; [tauto|]. split; apply F2_refl; exact Qeq_refl. Qed.
Lemma sample_eqv_sym a b : sample_eqv a b -> sample_eqv b a.
Proof.
  intros (E & N & FX & FW). split; [symmetry; exact E|]. split; [tauto|].
  split; apply (F2_sym Qeq Qeq_sym); assumption.
Qed.
Lemma sample_eqv_trans a b c : sample_eqv a b -> sample_eqv b c -> sample_eqv a c.
Proof.
  intros (E & N & FX & FW) (E' & N' & FX' & FW'). split; [congruence|]. split; [tauto|].
  split; eapply (F2_trans Qeq Qeq_trans); eassumption.
Qed.

Lemma combine_pair_eq : forall xs xs', Forall2 Qeq xs xs' -> forall ws ws', Forall2 Qeq ws ws' ->
  Forall2 pair_eq (combine xs ws) (combine xs' ws').
Proof.
  induction 1 as [|x x' xs xs' Hx F IH]; intros ws ws' G; cbn; [constructor|].
  destruct G as [|w w' ws ws' Hw G]; constructor; [split; assumption | apply IH; exact G].
Qed.
Lemma unit_pair_eq : forall xs xs', Forall2 Qeq xs xs' ->
  Forall2 pair_eq (map (fun x => (x, 1)) xs) (map (fun x => (x, 1)) xs').
Proof. induction 1 as [|x x' xs xs' Hx F IH]; cbn; constructor; [split; [exact Hx | apply Qeq_refl] | exact IH]. Qed.
Lemma split_pair_eq : forall a b : list (Q * Q), Forall2 Qeq (map fst a) (map fst b) -> Forall2 Qeq (map snd a) (map snd b) ->
  Forall2 pair_eq a b.
Proof.
  induction a as [|p a IH]; intros [|q b] F G; cbn in *; inversion F; inversion G; subst; constructor.
  - split; assumption.
  - apply IH; assumption.
Qed.

(* == samples have == pairs, in order *)
Lemma eqv_pairs a b : sample_eqv a b -> Forall2 pair_eq (opairs a) (opairs b).
Proof.
  destruct a as [xa [wa|] sa], b as [xb [wb|] sb]; unfold sample_eqv, opairs, ws_of; cbn [s_xs s_ws s_sorted];
    intros (E & [N1 N2] & FX & FW).
  - apply combine_pair_eq; assumption.
  - specialize (N2 eq_refl). discriminate.
  - specialize (N1 eq_refl). discriminate.
  - apply unit_pair_eq. exact FX.
Qed.
Lemma eqv_PermA a b : sample_eqv a b -> PermutationA pair_eq (opairs a) (opairs b).
Proof. intro E. apply F2_PermA. apply eqv_pairs. exact E. Qed.

Lemma has_w_none s : has_w s = false <-> s_ws s = None.
Proof. unfold has_w. destruct (s_ws s); split; intro; congruence. Qed.
Lemma swf_wf s : swf s -> sample_wf s.
Proof. intros [W S]. split; [|exact S]. destruct (s_ws s); [exact (proj1 W) | exact I]. Qed.
Lemma sort_flag s : s_sorted (sample_sort s) = true.
Proof. unfold sample_sort. destruct (s_sorted s) eqn:E; [exact E|]. destruct (s_ws s); reflexivity. Qed.

(* ====================== 2. the boolean comparisons of Check/C09.v ====================== *)
Lemma same_sample_eqv m d : same_sample m d = true -> sample_eqv m (sample_of_dump d).
Proof.
  unfold same_sample, sample_eqv, sample_of_dump, has_w, ws_of.
  destruct m as [mx mw ms], d as [dsd dh dx dw]; cbn [s_xs s_ws s_sorted sd_sorted sd_hasw sd_xs sd_ws].
  intro H. apply andb_prop in H. destruct H as [H H4]. apply andb_prop in H. destruct H as [H H3].
  apply andb_prop in H. destruct H as [H1 H2].
  apply Bool.eqb_prop in H1. apply Bool.eqb_prop in H2. apply list_Qeq_sound in H3. apply list_Qeq_sound in H4.
  subst dsd dh. destruct mw as [w|].
  - split; [reflexivity|]. split; [split; discriminate|]. split; assumption.
  - inversion H4; subst. split; [reflexivity|]. split; [tauto|]. split; [assumption | constructor].
Qed.

Lemma same_sorted_facts m d : same_sorted_sample m d = true ->
  s_sorted m = sd_sorted d /\ has_w m = sd_hasw d /\ Forall2 Qeq (s_xs m) (sd_xs d) /\
  (has_w m = true -> length (sd_ws d) = length (sd_xs d)) /\
  PermutationA pair_eq (opairs (sample_of_dump d)) (opairs m).
Proof.
  unfold same_sorted_sample, sample_of_dump, opairs, has_w, ws_of.
  destruct m as [mx mw ms], d as [dsd dh dx dw]; cbn [s_xs s_ws s_sorted sd_sorted sd_hasw sd_xs sd_ws].
  intro H. apply andb_prop in H. destruct H as [H H4]. apply andb_prop in H. destruct H as [H H3].
  apply andb_prop in H. destruct H as [H1 H2].
  apply Bool.eqb_prop in H1. apply Bool.eqb_prop in H2. apply list_Qeq_sound in H3.
  subst dsd dh. split; [reflexivity|]. split; [reflexivity|]. split; [exact H3|].
  destruct mw as [w|].
  - cbv zeta in H4. apply andb_prop in H4. destruct H4 as [HL H4]. apply Nat.eqb_eq in HL.
    apply andb_prop in H4. destruct H4 as [HF HS]. apply list_Qeq_sound in HF. apply list_Qeq_sound in HS.
    split; [intros _; exact HL|].
    pose proof (split_pair_eq _ _ HF HS) as C. unfold canon in C.
    eapply permA_trans; [apply Perm_PermA; apply Permutation_sym; apply (isort_perm _ lex_leb)|].
    eapply permA_trans; [apply F2_PermA; apply (F2_sym pair_eq pair_eq_sym); exact C|].
    apply Perm_PermA. apply isort_perm.
  - split; [discriminate|]. apply F2_PermA. apply unit_pair_eq. apply (F2_sym Qeq Qeq_sym). exact H3.
Qed.

(* a Copy / Poke dump shows the model store, sample by sample, up to == *)
Lemma same_store_eqv st' ds : same_store st' ds (length st') 0 = true -> Forall2 sample_eqv st' (map sample_of_dump ds).
Proof.
  intro S. apply F2_of_nth; [rewrite map_length; eapply same_store_length; exact S|].
  intros k x y Hx Hy. apply nth_map_some in Hy. destruct Hy as (d & Hd & ->).
  pose proof (same_store_nth _ _ _ _ _ _ _ S Hx Hd) as Q. cbn [Nat.add] in Q.
  pose proof (nth_some_lt _ _ _ Hx) as L.
  destruct (Nat.eqb_spec k (length st')) as [K|K]; [lia|]. apply same_sample_eqv. exact Q.
Qed.

(* ====================== 3. the observed history ====================== *)
(* the dump ds after Sort i, against the previous observation cur *)
Definition sort_dump_ok (i : nat) (cur : list sample) (ds : list sdump) : Prop :=
  length ds = length cur /\
  forall k c d, nth_error cur k = Some c -> nth_error ds k = Some d ->
    (k <> i -> sample_eqv c (sample_of_dump d)) /\
    (k = i -> sd_sorted d = true /\ (s_ws c = None <-> sd_hasw d = false) /\
              (sd_hasw d = true -> length (sd_ws d) = length (sd_xs d)) /\
              PermutationA pair_eq (opairs (sample_of_dump d)) (opairs c) /\
              StronglySorted Qle (sd_xs d)).

(* cur: the store as last observed.  No model store, no h_step. *)
Fixpoint obs_hist_ok (cur : list sample) (ops : list (hop * hobs)) : Prop :=
  match ops with
  | [] => True
  | (op, ob) :: rest =>
      match op, ob with
      | HSort i, ODump ds => sort_dump_ok i cur ds /\ obs_hist_ok (map sample_of_dump ds) rest
      | HCopy i, ODump ds =>
          Forall2 sample_eqv (match nth_error cur i with Some c => cur ++ [c] | None => cur end) (map sample_of_dump ds) /\
          obs_hist_ok (map sample_of_dump ds) rest
      | HPoke i j v, ODump ds =>
          Forall2 sample_eqv (match nth_error cur i with
                              | Some c => set_nth cur i (mkSample (set_nth (s_xs c) j v) (s_ws c) false)
                              | None => cur end) (map sample_of_dump ds) /\
          obs_hist_ok (map sample_of_dump ds) rest
      | HQuery i, OQuery mst m sm w b1 b2 vst v =>
          (exists c s, nth_error cur i = Some c /\ sample_eqv s c /\ swf s /\ query_obs_ok s mst m sm w b1 b2 vst v) /\
          obs_hist_ok cur rest
      | _, _ => False
      end
  end.

Lemma copy_cong st cur i : Forall2 sample_eqv st cur ->
  Forall2 sample_eqv (h_step st (HCopy i)) (match nth_error cur i with Some c => cur ++ [c] | None => cur end).
Proof.
  intro E. cbn [h_step]. pose proof (F2_nth _ _ _ E i) as N.
  destruct (nth_error st i) as [m|], (nth_error cur i) as [c|]; try contradiction; [|exact E].
  apply Forall2_app; [exact E|]. constructor; [exact N | constructor].
Qed.
Lemma poke_cong st cur i j v : Forall2 sample_eqv st cur ->
  Forall2 sample_eqv (h_step st (HPoke i j v))
    (match nth_error cur i with Some c => set_nth cur i (mkSample (set_nth (s_xs c) j v) (s_ws c) false) | None => cur end).
Proof.
  intro E. cbn [h_step]. pose proof (F2_nth _ _ _ E i) as N.
  destruct (nth_error st i) as [m|], (nth_error cur i) as [c|]; try contradiction; [|exact E].
  apply F2_set_nth; [exact E|]. destruct N as (E1 & N1 & FX & FW).
  split; [reflexivity|]. split; [exact N1|]. split; [|exact FW].
  cbn [s_xs]. apply F2_set_nth; [exact FX | apply Qeq_refl].
Qed.

Lemma sort_step_facts st cur i ds : Forall swf st -> Forall2 sample_eqv st cur ->
  same_store (h_step st (HSort i)) ds i 0 = true ->
  sort_dump_ok i cur ds /\
  Forall swf (match nth_error ds i with Some d => set_nth (h_step st (HSort i)) i (sample_of_dump d) | None => h_step st (HSort i) end) /\
  Forall2 sample_eqv (match nth_error ds i with Some d => set_nth (h_step st (HSort i)) i (sample_of_dump d) | None => h_step st (HSort i) end)
                     (map sample_of_dump ds).
Proof.
  intros W E S.
  pose proof (swf_step st (HSort i) W) as W'.
  assert (R1 : forall k, k <> i -> nth_error (h_step st (HSort i)) k = nth_error st k).
  { intros k N. cbn [h_step]. destruct (nth_error st i); [apply nth_set_nth_neq; exact N | reflexivity]. }
  assert (R2 : forall m, nth_error st i = Some m -> nth_error (h_step st (HSort i)) i = Some (sample_sort m)).
  { intros m Hm. cbn [h_step]. rewrite Hm. eapply nth_set_nth_eq. exact Hm. }
  assert (Lst : length (h_step st (HSort i)) = length st).
  { cbn [h_step]. destruct (nth_error st i); [apply length_set_nth | reflexivity]. }
  pose proof (same_store_length _ _ _ _ S) as Lds.
  pose proof (Forall2_same_length _ _ _ _ _ E) as Lcur.
  assert (P : forall k m d, nth_error (h_step st (HSort i)) k = Some m -> nth_error ds k = Some d ->
                (if (k =? i)%nat then same_sorted_sample m d else same_sample m d) = true).
  { intros k m d Hm Hd. exact (same_store_nth _ _ _ _ _ _ _ S Hm Hd). }
  set (st' := h_step st (HSort i)) in *.
  split; [|split].
  - split; [lia|]. intros k c d Hc Hd.
    pose proof (F2_nth _ _ _ E k) as N. rewrite Hc in N.
    destruct (nth_error st k) as [m|] eqn:Hm; [|contradiction].
    split.
    + intro K. rewrite <- (R1 k K) in Hm. pose proof (P k m d Hm Hd) as Q.
      destruct (Nat.eqb_spec k i) as [K'|_]; [contradiction|].
      eapply sample_eqv_trans; [apply sample_eqv_sym; exact N | apply same_sample_eqv; exact Q].
    + intros ->. pose proof (R2 m Hm) as Hm'. pose proof (P i _ d Hm' Hd) as Q. rewrite Nat.eqb_refl in Q.
      pose proof (swf_nth _ _ _ W Hm) as Wm.
      destruct (same_sorted_facts _ _ Q) as (F1 & F2 & F3 & F4 & F5).
      destruct (sample_sort_same m (swf_wf m Wm)) as (_ & PS & NS).
      destruct (swf_adopt _ _ (swf_sort m Wm) Q) as [_ SA].
      destruct N as (E1 & N1 & FX & FW).
      assert (Fl : sd_sorted d = true) by (rewrite <- F1; apply sort_flag).
      split; [exact Fl|]. split; [|split; [|split]].
      * rewrite <- F2, has_w_none. tauto.
      * intro Hw. apply F4. rewrite F2. exact Hw.
      * eapply permA_trans; [exact F5|]. eapply permA_trans; [apply Perm_PermA; exact PS|].
        apply F2_PermA. apply eqv_pairs. split; [exact E1|]. split; [exact N1|]. split; assumption.
      * apply SA. exact Fl.
  - destruct (nth_error ds i) as [di|] eqn:Edi; [|exact W'].
    destruct (nth_lt_some st' i) as (m' & Em'); [pose proof (nth_some_lt _ _ _ Edi); lia|].
    apply Forall_set_nth; [exact W'|]. eapply swf_adopt; [eapply swf_nth; eassumption|].
    pose proof (P i m' di Em' Edi) as Q. rewrite Nat.eqb_refl in Q. exact Q.
  - destruct (nth_error ds i) as [di|] eqn:Edi.
    + destruct (nth_lt_some st' i) as (m' & Em'); [pose proof (nth_some_lt _ _ _ Edi); lia|].
      apply F2_of_nth; [rewrite length_set_nth, map_length; exact Lds|].
      intros k x y Hx Hy. apply nth_map_some in Hy. destruct Hy as (d & Hd & ->).
      destruct (Nat.eq_dec k i) as [->|K].
      * rewrite (nth_set_nth_eq _ _ _ _ Em') in Hx. injection Hx as <-.
        rewrite Edi in Hd. injection Hd as <-. apply sample_eqv_refl.
      * rewrite (nth_set_nth_neq _ _ _ _ K) in Hx. pose proof (P k x d Hx Hd) as Q.
        destruct (Nat.eqb_spec k i) as [K'|_]; [contradiction|]. apply same_sample_eqv. exact Q.
    + apply F2_of_nth; [rewrite map_length; exact Lds|].
      intros k x y Hx Hy. apply nth_map_some in Hy. destruct Hy as (d & Hd & ->).
      pose proof (P k x d Hx Hd) as Q.
      destruct (Nat.eqb_spec k i) as [K'|_]; [subst k; congruence|]. apply same_sample_eqv. exact Q.
Qed.

(* MAIN: an accepted history, over the observed dumps only.  Invariant: the model store is pointwise == to the
   last observed dump *)
Theorem hist_ok_obs : forall ops st cur, Forall swf st -> Forall2 sample_eqv st cur ->
  hist_ok st ops -> obs_hist_ok cur ops.
Proof.
  induction ops as [|[op ob] rest IH]; intros st cur W E H; [exact I|].
  pose proof (swf_step st op W) as W'.
  destruct op as [i|i|i j x|i]; destruct ob as [ds|mst m sm w b1 b2 vst v];
    cbn [hist_ok obs_hist_ok] in H |- *; cbv zeta in H; try contradiction.
  - destruct H as [D H]. unfold dump_ok in D.
    destruct (sort_step_facts st cur i ds W E D) as (O & W'' & E'').
    split; [exact O | eapply IH; eassumption].
  - destruct H as [D H]. unfold dump_ok in D. pose proof (same_store_eqv _ _ D) as E'.
    split; [|eapply IH; eassumption].
    eapply (F2_trans sample_eqv sample_eqv_trans); [|exact E'].
    apply (F2_sym sample_eqv sample_eqv_sym). apply copy_cong. exact E.
  - destruct H as [D H]. unfold dump_ok in D. pose proof (same_store_eqv _ _ D) as E'.
    split; [|eapply IH; eassumption].
    eapply (F2_trans sample_eqv sample_eqv_trans); [|exact E'].
    apply (F2_sym sample_eqv sample_eqv_sym). apply poke_cong. exact E.
  - destruct H as [(s & Hs & Ws & Qs) H]. cbn [h_step] in Hs, H.
    split; [|eapply IH; eassumption].
    pose proof (F2_nth _ _ _ E i) as N. rewrite Hs in N.
    destruct (nth_error cur i) as [c|]; [|contradiction].
    exists c, s. split; [reflexivity|]. split; [exact N|]. split; [exact Ws | exact Qs].
Qed.


(* ====================== 4. without direct writes: the original multiset ====================== *)
(* c holds the pairs of s0 up to order and ==, is weighted iff s0 is, and is ascending when flagged Sorted *)
Definition inv (s0 c : sample) : Prop :=
  PermutationA pair_eq (opairs c) (opairs s0) /\
  (s_sorted c = true -> StronglySorted Qle (s_xs c)) /\
  (s_ws c = None <-> s_ws s0 = None).

Lemma inv_eqv s0 c c' : inv s0 c -> sample_eqv c c' -> inv s0 c'.
Proof.
  intros (P & S & N) E. pose proof (eqv_PermA _ _ E) as PE. destruct E as (E1 & N1 & FX & FW).
  split; [eapply permA_trans; [apply PermA_sym; exact PE | exact P]|].
  split; [|tauto].
  intro T. eapply sorted_transport; [exact FX|]. apply S. congruence.
Qed.

(* every dumped sample satisfies inv s0; every query is correct for a legal sample satisfying inv s0 *)
Fixpoint obs_multiset_ok (s0 : sample) (ops : list (hop * hobs)) : Prop :=
  match ops with
  | [] => True
  | (op, ob) :: rest =>
      match ob with
      | ODump ds => Forall (fun d => inv s0 (sample_of_dump d)) ds
      | OQuery mst m sm w b1 b2 vst v => exists s, swf s /\ inv s0 s /\ query_obs_ok s mst m sm w b1 b2 vst v
      end /\ obs_multiset_ok s0 rest
  end.

Lemma sort_dump_inv s0 i cur ds : Forall (inv s0) cur -> sort_dump_ok i cur ds -> Forall (inv s0) (map sample_of_dump ds).
Proof.
  intros F [L O]. apply Forall_forall. intros y Hy. apply In_nth_error in Hy. destruct Hy as (k & Hk).
  apply nth_map_some in Hk. destruct Hk as (d & Hd & ->).
  destruct (nth_lt_some cur k) as (c & Hc); [pose proof (nth_some_lt _ _ _ Hd); lia|].
  assert (Ic : inv s0 c) by (rewrite Forall_forall in F; apply F; eapply nth_error_In; exact Hc).
  destruct (O k c d Hc Hd) as [O1 O2]. destruct (Nat.eq_dec k i) as [K|K].
  - destruct (O2 K) as (Fl & Nw & _ & P & S). destruct Ic as (Pc & _ & Nc).
    split; [eapply permA_trans; eassumption|]. split; [intros _; exact S|].
    unfold sample_of_dump. cbn [s_ws]. destruct (sd_hasw d).
    + split; [discriminate|]. intro Z. apply Nc in Z. apply Nw in Z. discriminate.
    + split; [intros _; apply Nc; apply Nw; reflexivity | reflexivity].
  - eapply inv_eqv; [exact Ic | apply O1; exact K].
Qed.

Theorem obs_hist_multiset : forall ops s0 cur, no_poke (map fst ops) -> Forall (inv s0) cur ->
  obs_hist_ok cur ops -> obs_multiset_ok s0 ops.
Proof.
  induction ops as [|[op ob] rest IH]; intros s0 cur NP F H; [exact I|].
  cbn [map fst] in NP. inversion NP as [|? ? NP0 NP']; subst.
  destruct op as [i|i|i j x|i]; destruct ob as [ds|mst m sm w b1 b2 vst v];
    cbn [obs_hist_ok obs_multiset_ok] in H |- *; try contradiction.
  - destruct H as [O H]. pose proof (sort_dump_inv _ _ _ _ F O) as F'.
    split; [exact (proj1 (Forall_map _ _ _) F') | eapply IH; eassumption].
  - destruct H as [O H].
    assert (F' : Forall (inv s0) (map sample_of_dump ds)).
    { eapply (F2_Forall sample_eqv (inv s0) (inv s0) (inv_eqv s0)); [exact O|].
      destruct (nth_error cur i) as [c|] eqn:Hc; [|exact F].
      apply Forall_app. split; [exact F|]. constructor; [|constructor].
      rewrite Forall_forall in F. apply F. eapply nth_error_In. exact Hc. }
    split; [exact (proj1 (Forall_map _ _ _) F') | eapply IH; eassumption].
  - destruct H as [(c & s & Hc & E & Ws & Qs) H]. split; [|eapply IH; eassumption].
    exists s. split; [exact Ws|]. split; [|exact Qs].
    eapply inv_eqv; [|apply sample_eqv_sym; exact E].
    rewrite Forall_forall in F. apply F. eapply nth_error_In. exact Hc.
Qed.

Lemma inv_self s0 : swf s0 -> inv s0 s0.
Proof. intros [_ S]. split; [apply PermA_refl|]. split; [exact S | tauto]. Qed.

(* ====================== 5. composition with the verdict ====================== *)
Theorem history_line_sound sorted hasw xs ws ops :
  case_ok (KHist sorted hasw xs ws ops) -> sample_ok sorted hasw xs ws = true ->
  obs_hist_ok [mkSample xs (ows hasw ws) sorted] ops.
Proof.
  intros C G. cbn [case_ok] in C.
  assert (W : swf (mkSample xs (ows hasw ws) sorted)).
  { destruct (sample_ok_sound _ _ _ _ G) as [G1 G2]. split; cbn [s_xs s_ws s_sorted].
    - destruct hasw; [exact (G1 eq_refl) | exact I].
    - exact G2. }
  eapply hist_ok_obs; [| |exact C].
  - constructor; [exact W | constructor].
  - constructor; [apply sample_eqv_refl | constructor].
Qed.

(* an accepted history line without direct writes: every dump shows samples made of the pairs of the input
   sample (up to order and ==), ascending when flagged; every query is correct for such a sample *)
Theorem history_line_multiset sorted hasw xs ws ops :
  case_ok (KHist sorted hasw xs ws ops) -> sample_ok sorted hasw xs ws = true -> no_poke (map fst ops) ->
  obs_multiset_ok (mkSample xs (ows hasw ws) sorted) ops.
Proof.
  intros C G NP. pose proof (history_line_sound _ _ _ _ _ C G) as O.
  eapply obs_hist_multiset; [exact NP| |exact O].
  constructor; [|constructor]. apply inv_self.
  destruct (sample_ok_sound _ _ _ _ G) as [G1 G2]. split; cbn [s_xs s_ws s_sorted].
  - destruct hasw; [exact (G1 eq_refl) | exact I].
  - exact G2.
Qed.

(* the verdict itself: check_case answers OK (0) or BORDERLINE (1) on a history line *)
Theorem check_hist_obs sorted hasw xs ws ops c tag pos diag :
  check_case (KHist sorted hasw xs ws ops) = verdict c tag pos diag -> (c = 0 \/ c = 1)%Z ->
  obs_hist_ok [mkSample xs (ows hasw ws) sorted] ops /\
  (no_poke (map fst ops) -> obs_multiset_ok (mkSample xs (ows hasw ws) sorted) ops).
Proof.
  intros V Hc. destruct (check_case_sound _ _ _ _ _ V Hc) as [_ C].
  assert (G : sample_ok sorted hasw xs ws = true).
  { cbn [check_case] in V. destruct (sample_ok sorted hasw xs ws); [reflexivity|].
    cbn [negb] in V. exfalso. apply verdict_inj in V. destruct V as [V _]. unfold V_MALFORMED in V. lia. }
  split; [apply history_line_sound; assumption | intro NP; apply history_line_multiset; assumption].
Qed.

(* ====================== 6. non-vacuity ====================== *)
Definition ex_s0 : sample := mkSample [2; 1; 2] (Some [1; 3; 5]) false.
Definition ex_ops : list (hop * hobs) :=
  [ (HSort 0, ODump [mkSD true true [1; 2; 2] [3; 5; 1]]);        (* the two 2s came out in the other order *)
    (HCopy 0, ODump [mkSD true true [1; 2; 2] [3; 5; 1]; mkSD true true [1; 2; 2] [3; 5; 1]]);
    (HQuery 1, OQuery 0 (XFin (5 # 3)) (XFin 15) (XFin 9) (XFin 1) (XFin 2) 2 XNaN) ].

Example ex_run : exists tag pos diag, run_hist [ex_s0] ex_ops 0 0 = (0%Z, tag, pos, diag).
Proof. vm_compute. eexists _, _, _. reflexivity. Qed.

Lemma ex_swf : swf ex_s0.
Proof.
  split; cbn; [|discriminate]. split; [reflexivity|].
  repeat constructor; unfold Qle; cbn; lia.
Qed.

Example ex_obs : obs_hist_ok [ex_s0] ex_ops.
Proof.
  destruct ex_run as (tag & pos & diag & R).
  eapply hist_ok_obs; [| |eapply run_hist_sound; [|exact R]].
  - constructor; [exact ex_swf | constructor].
  - constructor; [apply sample_eqv_refl | constructor].
  - constructor; [exact ex_swf | constructor].
Qed.

Example ex_multiset : obs_multiset_ok ex_s0 ex_ops.
Proof.
  eapply obs_hist_multiset; [| |exact ex_obs].
  - unfold no_poke, ex_ops. cbn. repeat constructor.
  - constructor; [apply inv_self; exact ex_swf | constructor].
Qed.

(* obs_hist_ok is not trivially true: a Sort whose dump is not ascending, or drops a sample, is refuted *)
Example ex_obs_rejects_unsorted : ~ obs_hist_ok [ex_s0] [(HSort 0, ODump [mkSD true true [2; 1; 2] [1; 3; 5]])].
Proof.
  intros [[_ O] _]. destruct (O 0%nat _ _ eq_refl eq_refl) as [_ O2].
  destruct (O2 eq_refl) as (_ & _ & _ & _ & S). cbn [sd_xs] in S.
  inversion S as [|a l S' Fa]; subst. inversion Fa as [|b l' Hab Fa']; subst.
  unfold Qle in Hab. cbn in Hab. lia.
Qed.
Example ex_obs_rejects_short : ~ obs_hist_ok [ex_s0] [(HSort 0, ODump [])].
Proof. intros [[L _] _]. discriminate L. Qed.

Print Assumptions hist_ok_obs.
Print Assumptions obs_hist_multiset.
Print Assumptions history_line_sound.
Print Assumptions history_line_multiset.
Print Assumptions check_hist_obs.
Print Assumptions ex_obs.
Print Assumptions ex_multiset.

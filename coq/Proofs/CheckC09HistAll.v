(* Proofs/CheckC09HistAll.v — (group hL) C09, histories WITH direct writes: every Query restated on the
   sample AS LAST DUMPED.
   Proofs/CheckC09Hist.v (obs_hist_ok): a Query is correct (query_obs_ok) for a legal Sample s whose lists are
   pointwise == the last observed dump c of the queried sample.  Proofs/CheckC09HistVal.v proves that every
   ingredient of query_obs_ok is a function of the multiset of pairs up to ==; pointwise == is a special case, so
   the Query clause can be restated with the lists of c ONLY (query_fresh_ok c), whatever the history
   (Sort, Copy, direct writes): obs_hist_fresh_ok.  The model store does not occur. *)
From MM Require Import Base.Num Base.GASort Model.Stream Proofs.Stream Model.Sample Spec.Sample.
From MM Require Import Proofs.Sample Proofs.CheckBase Check.C09 Proofs.CheckC09 Proofs.CheckC09Hist Proofs.CheckC09HistVal.
From Coq Require Import List Lqa Lia Sorted SetoidList SetoidPermutation.
Import ListNotations.
Local Open Scope Q_scope.

Lemma nonneg_transport : forall a b, Forall2 Qeq a b -> Forall (fun x => 0 <= x) a -> Forall (fun x => 0 <= x) b.
Proof.
  induction 1 as [|x y a b Hxy F IH]; intro H; [constructor|].
  inversion H as [|? ? Hx Ha]; subst. constructor; [rewrite <- Hxy; exact Hx|apply IH; exact Ha].
Qed.
Lemma F2_length {A B} (R : A -> B -> Prop) : forall a b, Forall2 R a b -> length a = length b.
Proof. induction 1; cbn; congruence. Qed.

(* a sample pointwise == a legal Sample is a legal Sample *)
Lemma swf_eqv s c : swf s -> sample_eqv s c -> swf c.
Proof.
  intros [W S] (E & N & FX & FW). split.
  - destruct (s_ws c) as [wc|] eqn:Ec; [|exact I].
    destruct (s_ws s) as [w|] eqn:Es.
    + destruct W as [L F]. unfold ws_of in FW. rewrite Es, Ec in FW. split.
      * rewrite <- (F2_length _ _ _ FW), <- (F2_length _ _ _ FX). exact L.
      * eapply nonneg_transport; eassumption.
    + exfalso. destruct N as [N1 _]. specialize (N1 eq_refl). congruence.
  - intro T. eapply sorted_transport; [exact FX|]. apply S. congruence.
Qed.

(* ... and s is an arrangement of the pairs of c *)
Lemma inv_of_eqv s c : swf s -> sample_eqv s c -> inv c s.
Proof.
  intros [_ S] E. split; [apply eqv_PermA; exact E|]. split; [exact S|]. destruct E as (_ & N & _). exact N.
Qed.

Theorem query_obs_on_dump : forall s c mst m sm w b1 b2 vst v, swf s -> sample_eqv s c ->
  query_obs_ok s mst m sm w b1 b2 vst v -> swf c /\ query_fresh_ok c mst m sm w b1 b2 vst v.
Proof.
  intros s c mst m sm w b1 b2 vst v W E Q. pose proof (swf_eqv s c W E) as Wc. split; [exact Wc|].
  exact (query_obs_fresh c s mst m sm w b1 b2 vst v Wc W (inv_of_eqv s c W E) Q).
Qed.

(* the observed history, every Query stated on the last dump of the queried sample *)
Fixpoint obs_hist_fresh_ok (cur : list sample) (ops : list (hop * hobs)) : Prop :=
  match ops with
  | [] => True
  | (op, ob) :: rest =>
      match op, ob with
      | HSort i, ODump ds => sort_dump_ok i cur ds /\ obs_hist_fresh_ok (map sample_of_dump ds) rest
      | HCopy i, ODump ds =>
          Forall2 sample_eqv (match nth_error cur i with Some c => cur ++ [c] | None => cur end) (map sample_of_dump ds) /\
          obs_hist_fresh_ok (map sample_of_dump ds) rest
      | HPoke i j v, ODump ds =>
          Forall2 sample_eqv (match nth_error cur i with
                              | Some c => set_nth cur i (mkSample (set_nth (s_xs c) j v) (s_ws c) false)
                              | None => cur end) (map sample_of_dump ds) /\
          obs_hist_fresh_ok (map sample_of_dump ds) rest
      | HQuery i, OQuery mst m sm w b1 b2 vst v =>
          (exists c, nth_error cur i = Some c /\ swf c /\ query_fresh_ok c mst m sm w b1 b2 vst v) /\
          obs_hist_fresh_ok cur rest
      | _, _ => False
      end
  end.

Theorem obs_hist_ok_fresh : forall ops cur, obs_hist_ok cur ops -> obs_hist_fresh_ok cur ops.
Proof.
  induction ops as [|[op ob] rest IH]; intros cur H; [exact I|].
  destruct op as [i|i|i j x|i]; destruct ob as [ds|mst m sm w b1 b2 vst v];
    cbn [obs_hist_ok obs_hist_fresh_ok] in H |- *; try contradiction.
  - destruct H as [A B]. split; [exact A|apply IH; exact B].
  - destruct H as [A B]. split; [exact A|apply IH; exact B].
  - destruct H as [A B]. split; [exact A|apply IH; exact B].
  - destruct H as [(c & s & Hc & E & W & Q) B]. split; [|apply IH; exact B].
    exists c. split; [exact Hc|]. exact (query_obs_on_dump s c mst m sm w b1 b2 vst v W E Q).
Qed.

(* the verdict itself, ANY history (direct writes included) *)
Theorem check_hist_fresh_all sorted hasw xs ws ops c tag pos diag :
  check_case (KHist sorted hasw xs ws ops) = verdict c tag pos diag -> (c = 0 \/ c = 1)%Z ->
  obs_hist_fresh_ok [mkSample xs (ows hasw ws) sorted] ops.
Proof.
  intros V Hc. apply obs_hist_ok_fresh. exact (proj1 (check_hist_obs sorted hasw xs ws ops c tag pos diag V Hc)).
Qed.

Example ex_fresh_all : obs_hist_fresh_ok [ex_s0] ex_ops.
Proof. apply obs_hist_ok_fresh. exact ex_obs. Qed.

Print Assumptions query_obs_on_dump.
Print Assumptions obs_hist_ok_fresh.
Print Assumptions check_hist_fresh_all.

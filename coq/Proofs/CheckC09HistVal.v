(* Proofs/CheckC09HistVal.v — (group hL) C09, histories: the last link.
   Proofs/CheckC09Hist.v: without direct writes every query of an accepted history is correct for SOME legal sample s
   holding the pairs of the original sample s0 up to order and == (inv s0 s).  Here: every ingredient of
   query_obs_ok (definitions, tolerances, NaN / panic / +Inf conditions) is a function of the multiset of
   (value, weight) pairs up to ==, so the conclusion is restated with the lists of s0 ONLY (query_fresh_ok s0):
   "every query equals the fresh computation on the original multiset within the tolerance computed from the
   original multiset".
   The one order-dependent ingredient is the overflow branch of Sum (first_overflow looks at the prefix sums in
   storage order): query_fresh_ok keeps its order-free part — when the sum of the absolute values of the terms
   is at most MaxFloat64 no prefix sum overflows, whatever the order, and the observation is within tol_sum of the
   exact sum (sum_fresh_ok).  Nothing else is weakened. *)
From MM Require Import Base.Num Base.GASort Model.Stream Proofs.Stream Model.Sample Spec.Sample Proofs.NumSound.
From MM Require Import Proofs.Sample Proofs.CheckBase Check.C09 Proofs.CheckC09 Proofs.CheckC09Hist.
From Coq Require Import List Permutation Lqa Lia Sorted SetoidList SetoidPermutation.
Import ListNotations.
Local Open Scope Q_scope.

(* ====================== 0. PermutationA, generically ====================== *)
Section PermAGen.
  Context {A : Type} (R : A -> A -> Prop).
  Hypothesis Rrefl : forall x, R x x.
  Hypothesis Rsym : forall x y, R x y -> R y x.
  Hypothesis Rtrans : forall x y z, R x y -> R y z -> R x z.

  Lemma gpermA_length a b : PermutationA R a b -> length a = length b.
  Proof. induction 1 as [|x y a b Hxy P IH|x y a|a b c P1 IH1 P2 IH2]; cbn; congruence. Qed.

  Lemma gpermA_sym a b : PermutationA R a b -> PermutationA R b a.
  Proof.
    induction 1 as [|x y a b Hxy P IH|x y a|a b c P1 IH1 P2 IH2].
    - apply permA_nil.
    - apply permA_skip; [apply Rsym; exact Hxy | exact IH].
    - apply permA_swap.
    - eapply permA_trans; eassumption.
  Qed.

  Lemma gpermA_in a b : PermutationA R a b -> forall x, In x a -> exists y, In y b /\ R x y.
  Proof.
    induction 1 as [|x y a b Hxy P IH|x y a|a b c P1 IH1 P2 IH2]; intros z Hz.
    - destruct Hz.
    - destruct Hz as [<-|Hz].
      + exists y. split; [left; reflexivity | exact Hxy].
      + destruct (IH z Hz) as (u & Hu & Ru). exists u. split; [right; exact Hu | exact Ru].
    - exists z. split; [|apply Rrefl]. cbn in Hz |- *. tauto.
    - destruct (IH1 z Hz) as (u & Hu & Ru). destruct (IH2 u Hu) as (v & Hv & Rv).
      exists v. split; [exact Hv | eapply Rtrans; eassumption].
  Qed.

  Lemma gpermA_Forall (P : A -> Prop) : (forall x y, R x y -> P x -> P y) ->
    forall a b, PermutationA R a b -> Forall P a -> Forall P b.
  Proof.
    intros HP a b Pm F. rewrite Forall_forall in F |- *. intros y Hy.
    destruct (gpermA_in b a (gpermA_sym a b Pm) y Hy) as (x & Hx & Ryx).
    apply (HP x y); [apply Rsym; exact Ryx | apply F; exact Hx].
  Qed.
End PermAGen.

Lemma gpermA_map {A B} (R : A -> A -> Prop) (R' : B -> B -> Prop) (f : A -> B) :
  (forall x y, R x y -> R' (f x) (f y)) -> forall a b, PermutationA R a b -> PermutationA R' (map f a) (map f b).
Proof.
  intros Hf a b P. induction P as [|x y a b Hxy P IH|x y a|a b c P1 IH1 P2 IH2]; cbn.
  - apply permA_nil.
  - apply permA_skip; [apply Hf; exact Hxy | exact IH].
  - apply permA_swap.
  - eapply permA_trans; eassumption.
Qed.

Notation PQ := (PermutationA Qeq).
Notation PP := (PermutationA pair_eq).

Lemma PQ_length a b : PQ a b -> length a = length b.
Proof. apply gpermA_length. Qed.
Lemma PQ_sym a b : PQ a b -> PQ b a.
Proof. apply gpermA_sym. exact Qeq_sym. Qed.
Lemma PQ_in a b : PQ a b -> forall x, In x a -> exists y, In y b /\ x == y.
Proof. apply gpermA_in; [exact Qeq_refl | exact Qeq_trans]. Qed.
Lemma PQ_refl a : PQ a a.
Proof. induction a as [|x a IH]; [apply permA_nil | apply permA_skip; [apply Qeq_refl | exact IH]]. Qed.

(* ====================== 1. values: everything is a function of the multiset up to == ====================== *)
Lemma Qsum_permA a b : PQ a b -> Qsum a == Qsum b.
Proof.
  induction 1 as [|x y a b Hxy P IH|x y a|a b c P1 IH1 P2 IH2]; cbn [Qsum].
  - reflexivity.
  - rewrite Hxy, IH. reflexivity.
  - ring.
  - rewrite IH1. exact IH2.
Qed.

Lemma nQ_permA a b : PQ a b -> nQ a = nQ b.
Proof. intro P. unfold nQ. rewrite (PQ_length _ _ P). reflexivity. Qed.
Lemma nq_permA a b : PQ a b -> nq a = nq b.
Proof. intro P. unfold nq. rewrite (PQ_length _ _ P). reflexivity. Qed.

Lemma mapf_permA (f : Q -> Q) : (forall x y, x == y -> f x == f y) -> forall a b, PQ a b -> PQ (map f a) (map f b).
Proof. intros Hf a b P. apply (gpermA_map Qeq Qeq f Hf). exact P. Qed.

Lemma mean_def_permA a b : PQ a b -> mean_def a == mean_def b.
Proof. intro P. unfold mean_def. rewrite (Qsum_permA _ _ P), (nQ_permA _ _ P). reflexivity. Qed.

Lemma Qsumsq_permA a b : PQ a b -> Qsumsq a == Qsumsq b.
Proof.
  intro P. unfold Qsumsq. apply Qsum_permA. apply mapf_permA; [|exact P].
  intros x y E. unfold Qsq. rewrite E. reflexivity.
Qed.

Lemma var_def_permA a b : PQ a b -> var_def a == var_def b.
Proof.
  intro P. unfold var_def, ssd_def. rewrite !ssd_expand.
  pose proof (Qsumsq_permA _ _ P) as E1. pose proof (Qsum_permA _ _ P) as E2.
  pose proof (mean_def_permA _ _ P) as E3. rewrite (nQ_permA _ _ P), E1, E2, E3. reflexivity.
Qed.

Lemma var_spec_permA a b : PQ a b -> var_spec a == var_spec b.
Proof.
  intro P. pose proof (PQ_length _ _ P) as L.
  destruct a as [|x [|y t]], b as [|x' [|y' t']]; cbn in L; try discriminate; unfold var_spec.
  - reflexivity.
  - reflexivity.
  - apply var_def_permA. exact P.
Qed.

Lemma m2_spec_permA a b : PQ a b -> m2_spec a == m2_spec b.
Proof. intro P. unfold m2_spec. rewrite (var_spec_permA _ _ P), (PQ_length _ _ P). reflexivity. Qed.

Lemma is_min_permA m a b : PQ a b -> is_min m a -> is_min m b.
Proof.
  intros P [[x [Hx Ex]] L]. split.
  - destruct (PQ_in _ _ P x Hx) as (y & Hy & Exy). exists y. split; [exact Hy|]. rewrite <- Exy. exact Ex.
  - intros y Hy. destruct (PQ_in _ _ (PQ_sym _ _ P) y Hy) as (x' & Hx' & E). rewrite E. apply L. exact Hx'.
Qed.
Lemma is_max_permA m a b : PQ a b -> is_max m a -> is_max m b.
Proof.
  intros P [[x [Hx Ex]] L]. split.
  - destruct (PQ_in _ _ P x Hx) as (y & Hy & Exy). exists y. split; [exact Hy|]. rewrite <- Exy. exact Ex.
  - intros y Hy. destruct (PQ_in _ _ (PQ_sym _ _ P) y Hy) as (x' & Hx' & E). rewrite E. apply L. exact Hx'.
Qed.

Lemma Qmaxabs_le_permA a b : PQ a b -> Qmaxabs a <= Qmaxabs b.
Proof.
  intro P. destruct (Qmaxabs_spec a) as (_ & _ & [[_ E]|(x & Hx & E)]).
  - rewrite E. apply (Qmaxabs_spec b).
  - destruct (PQ_in _ _ P x Hx) as (y & Hy & Exy). destruct (Qmaxabs_spec b) as (_ & F & _).
    rewrite Forall_forall in F. rewrite E, Exy. apply F. exact Hy.
Qed.
Lemma Qmaxabs_permA a b : PQ a b -> Qmaxabs a == Qmaxabs b.
Proof. intro P. apply Qle_antisym; apply Qmaxabs_le_permA; [exact P | apply PQ_sym; exact P]. Qed.

Lemma Qlmax_is_max x t : is_max (Qlmax x (x :: t)) (x :: t).
Proof.
  destruct (Qlmax_spec x (x :: t)) as (_ & F & I). split.
  - exists (Qlmax x (x :: t)). split; [|reflexivity]. destruct I as [->|I]; [left; reflexivity | exact I].
  - rewrite Forall_forall in F. exact F.
Qed.
Lemma Qlmin_is_min x t : is_min (Qlmin x (x :: t)) (x :: t).
Proof.
  destruct (Qlmin_spec x (x :: t)) as (_ & F & I). split.
  - exists (Qlmin x (x :: t)). split; [|reflexivity]. destruct I as [->|I]; [left; reflexivity | exact I].
  - rewrite Forall_forall in F. exact F.
Qed.

Lemma q_range_permA a b : PQ a b -> q_range a == q_range b.
Proof.
  intro P. pose proof (PQ_length _ _ P) as L.
  destruct a as [|x t], b as [|x' t']; cbn in L; try discriminate; unfold q_range; [reflexivity|].
  assert (E1 : Qlmax x (x :: t) == Qlmax x' (x' :: t')).
  { apply (is_max_unique _ _ (x' :: t')); [eapply is_max_permA; [exact P | apply Qlmax_is_max] | apply Qlmax_is_max]. }
  assert (E2 : Qlmin x (x :: t) == Qlmin x' (x' :: t')).
  { apply (is_min_unique _ _ (x' :: t')); [eapply is_min_permA; [exact P | apply Qlmin_is_min] | apply Qlmin_is_min]. }
  rewrite E1, E2. reflexivity.
Qed.

(* Qsumabs (a fold_left normalising with Qred) is the sum of the absolute values *)
Lemma Qsumabs_fold l : forall a, fold_left (fun a x => Qred (a + Qabs x)) l a == a + Qsum (map Qabs l).
Proof.
  induction l as [|x l IH]; intro a; cbn [fold_left map Qsum]; [ring|].
  rewrite IH, Qred_correct. ring.
Qed.
Lemma Qsumabs_eq l : Qsumabs l == Qsum (map Qabs l).
Proof. unfold Qsumabs. rewrite Qsumabs_fold. ring. Qed.
Lemma Qsumabs_permA a b : PQ a b -> Qsumabs a == Qsumabs b.
Proof.
  intro P. rewrite !Qsumabs_eq. apply Qsum_permA. apply mapf_permA; [|exact P].
  intros x y E. rewrite E. reflexivity.
Qed.

(* the tolerances *)
Lemma tol_mean_permA a b : PQ a b -> tol_mean a == tol_mean b.
Proof. intro P. unfold tol_mean. rewrite (nq_permA _ _ P), (Qmaxabs_permA _ _ P). reflexivity. Qed.
Lemma tol_wmean_permA a b : PQ a b -> tol_wmean a == tol_wmean b.
Proof. intro P. unfold tol_wmean. rewrite (nq_permA _ _ P), (Qmaxabs_permA _ _ P). reflexivity. Qed.
Lemma tol_var_permA a b v v' : PQ a b -> v == v' -> tol_var a v == tol_var b v'.
Proof.
  intros P E. unfold tol_var. rewrite (nq_permA _ _ P), (Qmaxabs_permA _ _ P), (q_range_permA _ _ P), E. reflexivity.
Qed.
Lemma tol_sum_permA a b : PQ a b -> tol_sum a == tol_sum b.
Proof. intro P. unfold tol_sum. rewrite (nq_permA _ _ P), (Qsumabs_permA _ _ P). reflexivity. Qed.

(* ====================== 2. the observation predicates along PQ ====================== *)
Lemma PQ_nil_l b : PQ [] b -> b = [].
Proof. intro P. apply PQ_length in P. destruct b; [reflexivity | discriminate]. Qed.
Lemma PQ_nil_r a : PQ a [] -> a = [].
Proof. intro P. apply PQ_length in P. destruct a; [reflexivity | discriminate]. Qed.

Lemma mean_ok_permA a b st o : PQ a b -> mean_ok a st o -> mean_ok b st o.
Proof.
  intros P [S H]. split; [exact S|]. pose proof (PQ_length _ _ P) as L.
  destruct a as [|x a], b as [|y b]; cbn in L; try discriminate; [exact H|].
  eapply obs_near_eq; [apply mean_def_permA; exact P | apply tol_mean_permA; exact P | exact H].
Qed.

Lemma var_ok_permA a b st o : PQ a b -> var_ok a st o -> var_ok b st o.
Proof.
  intros P [S H]. split; [exact S|]. pose proof (PQ_length _ _ P) as L.
  destruct a as [|x a], b as [|y b]; cbn in L; try discriminate; [exact H|].
  pose proof (m2_spec_permA _ _ P) as EM. pose proof (var_spec_permA _ _ P) as EV.
  destruct H as [H1 H2]. split.
  - intro G. apply H1. rewrite EM. exact G.
  - intro G. eapply obs_near_eq; [exact EV | apply tol_var_permA; [exact P | exact EV] | apply H2; rewrite EM; exact G].
Qed.

Lemma bounds_ok_permA a b o1 o2 : PQ a b -> bounds_ok a o1 o2 -> bounds_ok b o1 o2.
Proof.
  intros P H. pose proof (PQ_length _ _ P) as L. unfold bounds_ok in *.
  destruct a as [|x a], b as [|y b]; cbn in L; try discriminate; [exact H|].
  destruct H as (u & v & -> & -> & H1 & H2). exists u, v. split; [reflexivity|]. split; [reflexivity|].
  split; [eapply is_min_permA; eassumption | eapply is_max_permA; eassumption].
Qed.

(* Sum: the order-free part of sum_ok.  When the absolute values of the terms add up to at most MaxFloat64, no prefix
   sum exceeds it in magnitude, in any order: the observation is within tol_sum of the exact sum *)
Definition sum_fresh_ok (terms : list Q) (v : Q) (o : xreal) : Prop :=
  Qsumabs terms <= maxf -> obs_near (tol_sum terms) v o.

Lemma Qsum_abs_nonneg l : 0 <= Qsum (map Qabs l).
Proof.
  induction l as [|x l IH]; cbn [map Qsum]; [apply Qle_refl|].
  pose proof (Qabs_nonneg x). lra.
Qed.

Lemma no_overflow terms : forall acc, Qabs acc + Qsum (map Qabs terms) <= maxf -> first_overflow terms acc = None.
Proof.
  induction terms as [|x t IH]; intros acc H; cbn [first_overflow]; [reflexivity|]. cbv zeta.
  cbn [map Qsum] in H. pose proof (Qsum_abs_nonneg t) as N.
  assert (T : Qabs (Qred (acc + x)) <= Qabs acc + Qabs x) by (rewrite Qred_correct; apply Qabs_triangle).
  destruct (Qltb maxf (Qabs (Qred (acc + x)))) eqn:E.
  - apply CheckBase.Qltb_true in E. exfalso. lra.
  - apply IH. lra.
Qed.

Lemma sum_ok_fresh terms v o : sum_ok terms v o -> sum_fresh_ok terms v o.
Proof.
  intros [_ H] B. apply H. apply no_overflow. rewrite <- Qsumabs_eq. change (Qabs 0) with 0. lra.
Qed.

Lemma sum_fresh_permA a b v v' o : PQ a b -> v == v' -> sum_fresh_ok a v o -> sum_fresh_ok b v' o.
Proof.
  intros P E H B. eapply obs_near_eq; [exact E | apply tol_sum_permA; exact P|].
  apply H. rewrite (Qsumabs_permA _ _ P). exact B.
Qed.

(* ====================== 3. (value, weight) pairs ====================== *)
Lemma PP_sym a b : PP a b -> PP b a.
Proof. apply gpermA_sym. exact pair_eq_sym. Qed.
Lemma PP_length a b : PP a b -> length a = length b.
Proof. apply gpermA_length. Qed.

Lemma fst_permA a b : PP a b -> PQ (map fst a) (map fst b).
Proof. apply gpermA_map. intros x y [H _]. exact H. Qed.
Lemma snd_permA a b : PP a b -> PQ (map snd a) (map snd b).
Proof. apply gpermA_map. intros x y [_ H]. exact H. Qed.
Lemma prod_permA a b : PP a b -> PQ (map (fun p => fst p * snd p) a) (map (fun p => fst p * snd p) b).
Proof. apply gpermA_map. intros x y [H1 H2]. rewrite H1, H2. reflexivity. Qed.

Lemma wsum_w_permA a b : PP a b -> wsum_w a == wsum_w b.
Proof. intro P. unfold wsum_w. apply Qsum_permA. apply snd_permA. exact P. Qed.
Lemma wsum_xw_permA a b : PP a b -> wsum_xw a == wsum_xw b.
Proof. intro P. unfold wsum_xw. apply Qsum_permA. apply prod_permA. exact P. Qed.
Lemma wmean_def_permA a b : PP a b -> wmean_def a == wmean_def b.
Proof. intro P. unfold wmean_def. rewrite (wsum_xw_permA _ _ P), (wsum_w_permA _ _ P). reflexivity. Qed.
Lemma nonneg_weights_permA a b : PP a b -> nonneg_weights a -> nonneg_weights b.
Proof.
  intros P H. unfold nonneg_weights in *.
  eapply (gpermA_Forall pair_eq pair_eq_refl pair_eq_sym pair_eq_trans); [|exact P | exact H].
  intros x y [_ E] G. cbv beta in *. rewrite <- E. exact G.
Qed.

Lemma nzw_eq p q : pair_eq p q -> nzw p = nzw q.
Proof.
  intros [_ E]. unfold nzw. f_equal.
  destruct (Qeq_bool (snd p) 0) eqn:A, (Qeq_bool (snd q) 0) eqn:B; try reflexivity.
  - apply Qeq_bool_iff in A. apply Qeq_bool_neq in B. exfalso. apply B. rewrite <- E. exact A.
  - apply Qeq_bool_iff in B. apply Qeq_bool_neq in A. exfalso. apply A. rewrite E. exact B.
Qed.
Lemma used_permA a b : PP a b -> PQ (used a) (used b).
Proof.
  intro P. unfold used. induction P as [|x y a b Hxy P IH|x y a|a b c P1 IH1 P2 IH2]; cbn [filter].
  - apply permA_nil.
  - rewrite (nzw_eq _ _ Hxy). destruct (nzw y); cbn [map]; [apply permA_skip; [exact (proj1 Hxy) | exact IH] | exact IH].
  - destruct (nzw x), (nzw y); cbn [map]; try apply PQ_refl. apply permA_swap.
  - eapply permA_trans; eassumption.
Qed.

Lemma map_fst_combine : forall (xs ws : list Q), length ws = length xs -> map fst (combine xs ws) = xs.
Proof. induction xs as [|x xs IH]; intros [|w ws] L; cbn in *; try discriminate; [reflexivity|]. f_equal. apply IH. lia. Qed.
Lemma map_snd_combine : forall (xs ws : list Q), length ws = length xs -> map snd (combine xs ws) = ws.
Proof. induction xs as [|x xs IH]; intros [|w ws] L; cbn in *; try discriminate; [reflexivity|]. f_equal. apply IH. lia. Qed.

(* ====================== 4. one query, against the ORIGINAL sample only ====================== *)
Definition ssum_fresh_ok (xs : list Q) (ws : option (list Q)) (o : xreal) : Prop :=
  match ws with
  | None => sum_fresh_ok xs (Qsum xs) o
  | Some w => sum_fresh_ok (wterms xs w) (wsum_xw (combine xs w)) o
  end.
(* sbounds_ok without its premises (ascending when flagged, one weight per value): swf discharges them *)
Definition sbounds_fresh_ok (xs : list Q) (ws : option (list Q)) (omin omax : xreal) : Prop :=
  match ws with
  | None => bounds_ok xs omin omax
  | Some w => bounds_ok (used (combine xs w)) omin omax
  end.

(* only s_xs s0 and s_ws s0 occur: no current sample, no Sorted flag, no storage order *)
Definition query_fresh_ok (s0 : sample) (mst : Z) (m sm w b1 b2 : xreal) (vst : Z) (v : xreal) : Prop :=
  smean_ok (s_xs s0) (s_ws s0) mst m /\
  ssum_fresh_ok (s_xs s0) (s_ws s0) sm /\
  sweight_ok (s_xs s0) (s_ws s0) w /\
  sbounds_fresh_ok (s_xs s0) (s_ws s0) b1 b2 /\
  svar_ok (s_xs s0) (s_ws s0) vst v.

(* --- weighted components --- *)
Lemma smean_w_permA xs w xs0 w0 st o : length w = length xs -> length w0 = length xs0 ->
  PP (combine xs w) (combine xs0 w0) -> smean_ok xs (Some w) st o -> smean_ok xs0 (Some w0) st o.
Proof.
  intros L L0 P H.
  assert (PX : PQ xs xs0).
  { rewrite <- (map_fst_combine xs w L), <- (map_fst_combine xs0 w0 L0). apply fst_permA. exact P. }
  pose proof (PQ_length _ _ PX) as LX. unfold smean_ok in *.
  destruct xs as [|x xs], xs0 as [|x0 xs0]; cbn [length] in LX; try discriminate; [exact H|].
  destruct H as (S & H1 & H2). split; [exact S|]. split.
  - intro Z. apply H1. rewrite (wsum_w_permA _ _ P). exact Z.
  - intros NN Pos. eapply obs_near_eq; [apply wmean_def_permA; exact P | apply tol_wmean_permA; exact PX|].
    apply H2; [eapply nonneg_weights_permA; [apply PP_sym; exact P | exact NN] | rewrite (wsum_w_permA _ _ P); exact Pos].
Qed.

Lemma ssum_w_fresh xs w xs0 w0 o : PP (combine xs w) (combine xs0 w0) ->
  ssum_ok xs (Some w) o -> ssum_fresh_ok xs0 (Some w0) o.
Proof.
  intros P H. cbn [ssum_ok ssum_fresh_ok] in *. apply sum_ok_fresh in H.
  eapply sum_fresh_permA; [|apply wsum_xw_permA; exact P | exact H].
  unfold wterms. apply prod_permA. exact P.
Qed.

Lemma sweight_w_permA xs w xs0 w0 o : length w = length xs -> length w0 = length xs0 ->
  PP (combine xs w) (combine xs0 w0) -> sweight_ok xs (Some w) o -> sweight_ok xs0 (Some w0) o.
Proof.
  intros L L0 P H. cbn [sweight_ok] in *.
  assert (PW : PQ w w0).
  { rewrite <- (map_snd_combine xs w L), <- (map_snd_combine xs0 w0 L0). apply snd_permA. exact P. }
  eapply obs_near_eq; [apply Qsum_permA; exact PW | apply tol_sum_permA; exact PW | exact H].
Qed.

Lemma svar_w_permA xs w xs0 w0 st o : length xs = length xs0 -> svar_ok xs (Some w) st o -> svar_ok xs0 (Some w0) st o.
Proof. intros L H. cbn [svar_ok] in *. destruct xs, xs0; cbn [length] in L; try discriminate; exact H. Qed.

(* MAIN (one query) *)
Theorem query_obs_fresh : forall s0 s mst m sm w b1 b2 vst v, swf s0 -> swf s -> inv s0 s ->
  query_obs_ok s mst m sm w b1 b2 vst v -> query_fresh_ok s0 mst m sm w b1 b2 vst v.
Proof.
  intros [xs0 ws0 f0] [xs ws f] mst m sm w b1 b2 vst v W0 W (P & S & N) (Q1 & Q2 & Q3 & Q4 & Q5).
  unfold query_fresh_ok, swf, opairs in *. cbn [s_xs s_ws s_sorted] in *.
  destruct ws as [wt|], ws0 as [wt0|].
  - destruct W as [[L _] SS], W0 as [[L0 _] _].
    pose proof (PP_length _ _ P) as LP. rewrite !combine_length, L, L0, !Nat.min_id in LP.
    split; [exact (smean_w_permA xs wt xs0 wt0 _ _ L L0 P Q1)|].
    split; [exact (ssum_w_fresh xs wt xs0 wt0 _ P Q2)|].
    split; [exact (sweight_w_permA xs wt xs0 wt0 _ L L0 P Q3)|].
    split; [|exact (svar_w_permA xs wt xs0 wt0 _ _ LP Q5)].
    cbn [sbounds_fresh_ok]. unfold sbounds_ok in Q4.
    eapply bounds_ok_permA; [apply used_permA; exact P | apply Q4; assumption].
  - exfalso. destruct N as [_ N]. specialize (N eq_refl). discriminate.
  - exfalso. destruct N as [N _]. specialize (N eq_refl). discriminate.
  - assert (PX : PQ xs xs0).
    { apply fst_permA in P. rewrite !map_map in P. cbn [fst] in P. rewrite !map_id in P. exact P. }
    split; [cbn [smean_ok] in *; eapply mean_ok_permA; eassumption|].
    split; [cbn [ssum_ok ssum_fresh_ok] in *; apply sum_ok_fresh in Q2;
            eapply sum_fresh_permA; [exact PX | apply Qsum_permA; exact PX | exact Q2]|].
    split; [cbn [sweight_ok] in *; eapply obs_is_eq; [|exact Q3]; rewrite (PQ_length _ _ PX); reflexivity|].
    split; [|cbn [svar_ok] in *; eapply var_ok_permA; eassumption].
    cbn [sbounds_fresh_ok]. unfold sbounds_ok in Q4.
    eapply bounds_ok_permA; [exact PX | apply Q4; exact (proj2 W)].
Qed.

(* ====================== 5. histories ====================== *)
(* obs_multiset_ok of Proofs/CheckC09Hist.v with the query clause stated against s0 itself *)
Fixpoint obs_fresh_ok (s0 : sample) (ops : list (hop * hobs)) : Prop :=
  match ops with
  | [] => True
  | (op, ob) :: rest =>
      match ob with
      | ODump ds => Forall (fun d => inv s0 (sample_of_dump d)) ds
      | OQuery mst m sm w b1 b2 vst v => query_fresh_ok s0 mst m sm w b1 b2 vst v
      end /\ obs_fresh_ok s0 rest
  end.

Theorem obs_multiset_fresh : forall s0 ops, swf s0 -> obs_multiset_ok s0 ops -> obs_fresh_ok s0 ops.
Proof.
  intros s0 ops W0. induction ops as [|[op ob] rest IH]; intro H; [exact I|].
  cbn [obs_multiset_ok obs_fresh_ok] in *. destruct H as [H1 H2]. split; [|apply IH; exact H2].
  destruct ob as [ds|mst m sm w b1 b2 vst v]; [exact H1|].
  destruct H1 as (s & W & J & Qs). eapply query_obs_fresh; eassumption.
Qed.

(* the verdict: check_case answers OK (0) or BORDERLINE (1) on a history line without direct writes *)
Theorem check_hist_fresh sorted hasw xs ws ops c tag pos diag :
  check_case (KHist sorted hasw xs ws ops) = verdict c tag pos diag -> (c = 0 \/ c = 1)%Z ->
  no_poke (map fst ops) -> obs_fresh_ok (mkSample xs (ows hasw ws) sorted) ops.
Proof.
  intros V Hc NP. destruct (check_hist_obs _ _ _ _ _ _ _ _ _ V Hc) as [_ M].
  assert (G : sample_ok sorted hasw xs ws = true).
  { cbn [check_case] in V. destruct (sample_ok sorted hasw xs ws); [reflexivity|].
    cbn [negb] in V. exfalso. apply verdict_inj in V. destruct V as [V _]. unfold V_MALFORMED in V. lia. }
  apply obs_multiset_fresh; [|apply M; exact NP].
  destruct (sample_ok_sound _ _ _ _ G) as [G1 G2]. split; cbn [s_xs s_ws s_sorted].
  - destruct hasw; [exact (G1 eq_refl) | exact I].
  - exact G2.
Qed.

(* ====================== 6. non-vacuity ====================== *)
Example ex_fresh : obs_fresh_ok ex_s0 ex_ops.
Proof. apply obs_multiset_fresh; [exact ex_swf | exact ex_multiset]. Qed.

Print Assumptions query_obs_fresh.
Print Assumptions obs_multiset_fresh.
Print Assumptions check_hist_fresh.
Print Assumptions ex_fresh.

(* the conclusion is not vacuous and not trivially true: on the example the Sum premise holds (the query is pinned
   to the exact sum of the ORIGINAL terms), and a wrong Mean is refuted *)
Example ex_fresh_query : query_fresh_ok ex_s0 0 (XFin (5 # 3)) (XFin 15) (XFin 9) (XFin 1) (XFin 2) 2 XNaN.
Proof. pose proof ex_fresh as H. unfold ex_ops in H. cbn [obs_fresh_ok] in H. exact (proj1 (proj2 (proj2 H))). Qed.

Example ex_fresh_sum :
  obs_near (tol_sum (wterms (s_xs ex_s0) [1; 3; 5])) (wsum_xw (combine (s_xs ex_s0) [1; 3; 5])) (XFin 15).
Proof.
  destruct ex_fresh_query as (_ & S & _). cbn [ex_s0 s_xs s_ws ssum_fresh_ok] in S. apply S.
  apply Qle_bool_iff. vm_compute. reflexivity.
Qed.

Example ex_fresh_rejects_mean : ~ query_fresh_ok ex_s0 0 (XFin 2) (XFin 15) (XFin 9) (XFin 1) (XFin 2) 2 XNaN.
Proof.
  intros (M & _). cbn [ex_s0 s_xs s_ws smean_ok] in M. destruct M as (_ & _ & M).
  assert (NN : nonneg_weights (combine [2; 1; 2] [1; 3; 5])).
  { unfold nonneg_weights. cbn [combine]. repeat constructor; cbn [snd]; unfold Qle; cbn; lia. }
  assert (Pos : 0 < wsum_w (combine [2; 1; 2] [1; 3; 5])) by (apply CheckBase.Qltb_true; vm_compute; reflexivity).
  destruct (M NN Pos) as (q & E & B). injection E as <-.
  apply Qle_bool_iff in B. vm_compute in B. discriminate.
Qed.
Print Assumptions ex_fresh_query.
Print Assumptions ex_fresh_sum.
Print Assumptions ex_fresh_rejects_mean.

(* Proofs/CheckC09Log.v — (group hL, C09 item c) what an accepted Logspace case of check_vec means.
   vec_ok (VLog lo hi num base res) of Proofs/CheckC09.v is the pair of boolean tests
       pows_ok base (logspace_exponents lo hi num) res = true /\ geo_prog res = true ;
   here they are read as propositions over Q (no exp / ln / real power):
   - pows_ok: one positive value per exponent e_i of linspace lo hi num; when the reduced denominator den of e_i is
     at most 8, v_i^den is within the relative tolerance pow_rel e_i of base^num (pow_spec) — values whose exponent
     has a larger denominator are only known to be positive by this test;
   - geo_prog: |v_i v_{i+2} - v_{i+1}^2| <= 2^-36 v_{i+1}^2: consecutive ratios v_{i+1} / v_i agree within relative
     2^-36 (ratio_step), hence any two ratios i <= j within (1 -+ 2^-36)^(j-i) (the chain), hence every ratio is
     anchored to the end points: its (n-1)-th power is within (1 - 2^-36)^((n-1)(n-2)) of last / first (the anchor).
   With the end points value-checked by pow_spec when lo, hi have denominators <= 8 (log_ends), this pins the values
   that pow_ok itself only tests for positivity. *)
From MM Require Import Base.Num Model.Stream Proofs.Stream Model.Sample Proofs.Sample Proofs.CheckBase Check.C09.
From MM Require Import Proofs.CheckC09 Proofs.GeoMeanBracket.
From Coq Require Import Lqa Lia.
Local Open Scope Q_scope.

(* ====================== 1. pow_ok / pows_ok ====================== *)
(* base^(num/den) ~ v through the den-th power, e = num/den reduced *)
Definition pow_rel (e : Q) : Q := Qofnat (Pos.to_nat (Qden (Qred e))) * (16 + 8 * Qabs e) * (1 # (2 ^ 52)%positive).
Definition pow_target (base e : Q) : Q :=
  let num := Qnum (Qred e) in
  if (0 <=? num)%Z then Qpw base (Z.to_nat num) else Qpw (/ base) (Z.to_nat (- num)).
Definition pow_spec (base e v : Q) : Prop :=
  let den := Pos.to_nat (Qden (Qred e)) in
  (den <= 8)%nat -> Qabs (Qpw v den - pow_target base e) <= pow_rel e * pow_target base e.

Lemma pow_ok_sound base e v : pow_ok base e v = true -> 0 < v /\ pow_spec base e v.
Proof.
  unfold pow_ok, pow_spec, pow_target, pow_rel. cbv zeta.
  destruct (8 <? Pos.to_nat (Qden (Qred e)))%nat eqn:B; intro H.
  - apply Nat.ltb_lt in B. breflect. split; [exact H | intro; lia].
  - breflect. split; [exact H|]. intros _. apply within_sound in H0.
    destruct (0 <=? Qnum (Qred e))%Z; rewrite !qpow_Qpw in H0; exact H0.
Qed.

Lemma pows_ok_sound base : forall es vs, pows_ok base es vs = true ->
  length vs = length es /\
  forall i e v, nth_error es i = Some e -> nth_error vs i = Some v -> 0 < v /\ pow_spec base e v.
Proof.
  induction es as [|e es IH]; intros [|v vs] H; cbn [pows_ok] in H; try discriminate.
  - split; [reflexivity|]. intros [|i] e v He; discriminate He.
  - breflect. destruct (IH vs H0) as [L N]. split; [cbn [length]; lia|].
    intros [|i] e' v' He Hv; cbn [nth_error] in He, Hv.
    + injection He as <-. injection Hv as <-. apply pow_ok_sound. exact H.
    + eapply N; eassumption.
Qed.

(* pow_spec only depends on the exponent up to == *)
Lemma pow_spec_wd base e e' v : e == e' -> pow_spec base e v -> pow_spec base e' v.
Proof.
  intros E H. unfold pow_spec, pow_target, pow_rel in *. cbv zeta in *.
  rewrite <- (Qred_complete e e' E). rewrite <- E. exact H.
Qed.

(* ====================== 2. geo_prog ====================== *)
Lemma geo_prog_sound : forall vs, geo_prog vs = true ->
  forall i a b c, nth_error vs i = Some a -> nth_error vs (S i) = Some b -> nth_error vs (S (S i)) = Some c ->
  Qabs (a * c - b * b) <= prog_rel * (b * b).
Proof.
  induction vs as [|v0 t IH]; intros H i a b c Ha Hb Hc; [destruct i; discriminate Ha|].
  destruct t as [|v1 [|v2 r]].
  - cbn [nth_error] in Hb. destruct i; discriminate Hb.
  - cbn [nth_error] in Hc. destruct i; discriminate Hc.
  - cbn [geo_prog] in H. breflect. destruct i as [|i].
    + cbn [nth_error] in Ha, Hb, Hc. injection Ha as <-. injection Hb as <-. injection Hc as <-.
      apply within_sound. exact H.
    + apply (IH H0 i a b c); assumption.
Qed.

(* ====================== 3. ratios ====================== *)
Definition qlo : Q := 1 - prog_rel.
Definition qhi : Q := 1 + prog_rel.
Lemma prog_rel_pos : 0 < prog_rel. Proof. reflexivity. Qed.
Lemma qlo_pos : 0 < qlo. Proof. reflexivity. Qed.
Lemma qlo_le1 : qlo <= 1. Proof. unfold qlo. pose proof prog_rel_pos. lra. Qed.
Lemma qhi_ge1 : 1 <= qhi. Proof. unfold qhi. pose proof prog_rel_pos. lra. Qed.
Lemma qlo_qhi : qhi * qlo <= 1.
Proof.
  unfold qlo, qhi. pose proof prog_rel_pos as P.
  assert (0 <= prog_rel * prog_rel) by (apply Qmult_le_0_compat; lra).
  setoid_replace ((1 + prog_rel) * (1 - prog_rel)) with (1 - prog_rel * prog_rel) by ring. lra.
Qed.

(* consecutive ratios agree within relative 2^-36 *)
Lemma ratio_step a b c : 0 < a -> 0 < b -> 0 < c -> Qabs (a * c - b * b) <= prog_rel * (b * b) ->
  (b / a) * qlo <= c / b /\ c / b <= (b / a) * qhi.
Proof.
  intros Ha Hb Hc H. apply Qabs_Qle_condition in H. destruct H as [L U].
  assert (Pab : 0 < a * b) by (apply Qmult_lt_0_compat; assumption).
  set (k := / (a * b)). assert (Pk : 0 < k) by (apply Qinv_lt_0_compat; exact Pab).
  assert (E1 : c / b == (a * c) * k) by (unfold k; field; split; lra).
  assert (E2 : (b / a) * qlo == ((1 - prog_rel) * (b * b)) * k) by (unfold k, qlo; field; split; lra).
  assert (E3 : (b / a) * qhi == ((1 + prog_rel) * (b * b)) * k) by (unfold k, qhi; field; split; lra).
  rewrite E1, E2, E3. split; apply Qmult_le_compat_r; lra.
Qed.

(* powers of a number in (0, 1] decrease *)
Lemma Qpw_le1 a n : 0 <= a -> a <= 1 -> Qpw a n <= 1.
Proof.
  intros H0 H1. induction n as [|n IH]; cbn [Qpw]; [lra|].
  apply Qle_trans with (1 * 1); [|lra]. apply Qmult_le_compat4; try assumption. apply Qpw_nonneg; assumption.
Qed.
Lemma Qpw_add a m k : Qpw a (m + k) == Qpw a m * Qpw a k.
Proof. induction m as [|m IH]; cbn [Qpw Nat.add]; [ring | rewrite IH; ring]. Qed.
Lemma Qpw_Qpw a m k : Qpw (Qpw a m) k == Qpw a (k * m).
Proof. induction k as [|k IH]; cbn [Qpw Nat.mul]; [reflexivity | rewrite IH, Qpw_add; reflexivity]. Qed.
Lemma Qpw_anti a m k : 0 < a -> a <= 1 -> (k <= m)%nat -> Qpw a m <= Qpw a k.
Proof.
  intros H0 H1 L. replace m with ((m - k) + k)%nat by lia. rewrite Qpw_add.
  pose proof (Qpw_le1 a (m - k) ltac:(lra) H1) as A. pose proof (Qpw_pos a k H0) as P.
  setoid_replace (Qpw a k) with (1 * Qpw a k) at 2 by ring. apply Qmult_le_compat_r; lra.
Qed.

(* ---------- a positive sequence f 0 .. f (n-1) passing the geo_prog test ---------- *)
Definition fratio (f : nat -> Q) (i : nat) : Q := f (S i) / f i.
Fixpoint rprod (f : nat -> Q) (k : nat) : Q := match k with O => 1 | S k' => rprod f k' * fratio f k' end.

Section Prog.
Variable f : nat -> Q.
Variable n : nat.
Hypothesis Fpos : forall i, (i < n)%nat -> 0 < f i.
Hypothesis Fgeo : forall i, (S (S i) < n)%nat ->
  Qabs (f i * f (S (S i)) - f (S i) * f (S i)) <= prog_rel * (f (S i) * f (S i)).

Lemma r_pos i : (S i < n)%nat -> 0 < fratio f i.
Proof.
  intro H. unfold fratio. pose proof (Fpos i ltac:(lia)). pose proof (Fpos (S i) H).
  apply Qlt_shift_div_l; lra.
Qed.

Lemma r_step i : (S (S i) < n)%nat -> fratio f i * qlo <= fratio f (S i) /\ fratio f (S i) <= fratio f i * qhi.
Proof.
  intro H. unfold fratio. apply ratio_step; [apply Fpos; lia | apply Fpos; lia | apply Fpos; lia | apply Fgeo; exact H].
Qed.

(* the chain: ratios k steps apart *)
Lemma r_chain : forall k i, (S (i + k) < n)%nat ->
  fratio f i * Qpw qlo k <= fratio f (i + k) /\ fratio f (i + k) <= fratio f i * Qpw qhi k.
Proof.
  induction k as [|k IH]; intros i H.
  - rewrite Nat.add_0_r. cbn [Qpw]. split; lra.
  - rewrite Nat.add_succ_r in *. destruct (IH i ltac:(lia)) as [I1 I2]. destruct (r_step (i + k) H) as [S1 S2].
    cbn [Qpw]. pose proof qlo_pos. pose proof qhi_ge1. split.
    + apply Qle_trans with (fratio f (i + k) * qlo); [|exact S1].
      setoid_replace (fratio f i * (qlo * Qpw qlo k)) with (fratio f i * Qpw qlo k * qlo) by ring.
      apply Qmult_le_compat_r; lra.
    + apply Qle_trans with (fratio f (i + k) * qhi); [exact S2|].
      setoid_replace (fratio f i * (qhi * Qpw qhi k)) with (fratio f i * Qpw qhi k * qhi) by ring.
      apply Qmult_le_compat_r; lra.
Qed.

Lemma r_chain_le i j : (i <= j)%nat -> (S j < n)%nat ->
  fratio f i * Qpw qlo (j - i) <= fratio f j /\ fratio f j <= fratio f i * Qpw qhi (j - i).
Proof.
  intros L H. pose proof (r_chain (j - i) i ltac:(lia)) as C. replace (i + (j - i))%nat with j in C by lia. exact C.
Qed.

(* any two ratios, whatever their order: within the factor qlo^(n-2) *)
Lemma r_close i j : (S i < n)%nat -> (S j < n)%nat -> fratio f i * Qpw qlo (n - 2) <= fratio f j.
Proof.
  intros Hi Hj. pose proof (r_pos i Hi) as Pi. pose proof (r_pos j Hj) as Pj.
  pose proof qlo_pos as Q0. pose proof qlo_le1 as Q1.
  destruct (le_lt_dec i j) as [L|L].
  - destruct (r_chain_le i j L Hj) as [C _]. eapply Qle_trans; [|exact C].
    rewrite !(Qmult_comm (fratio f i)). apply Qmult_le_compat_r; [|lra].
    apply Qpw_anti; [assumption | assumption | lia].
  - destruct (r_chain_le j i ltac:(lia) Hi) as [_ C].
    set (m := (i - j)%nat) in *.
    apply Qle_trans with (fratio f i * Qpw qlo m).
    { rewrite !(Qmult_comm (fratio f i)). apply Qmult_le_compat_r; [|lra]. apply Qpw_anti; [assumption | assumption | lia]. }
    apply Qle_trans with (fratio f j * Qpw qhi m * Qpw qlo m).
    { apply Qmult_le_compat_r; [exact C|]. apply Qpw_nonneg. lra. }
    setoid_replace (fratio f j * Qpw qhi m * Qpw qlo m) with (fratio f j * Qpw (qhi * qlo) m)
      by (rewrite Qpw_mult; ring).
    assert (P : Qpw (qhi * qlo) m <= 1).
    { apply Qpw_le1; [|exact qlo_qhi]. pose proof qhi_ge1. apply Qmult_le_0_compat; lra. }
    setoid_replace (fratio f j) with (fratio f j * 1) at 2 by ring.
    rewrite !(Qmult_comm (fratio f j)). apply Qmult_le_compat_r; lra.
Qed.

(* telescoping: the product of the first k ratios *)
Lemma rprod_tele : forall k, (k < n)%nat -> rprod f k == f k / f 0.
Proof.
  induction k as [|k IH]; intro H; cbn [rprod].
  - pose proof (Fpos 0%nat H). field. lra.
  - rewrite IH by lia. unfold fratio. pose proof (Fpos 0%nat ltac:(lia)). pose proof (Fpos k ltac:(lia)). field. split; lra.
Qed.

Lemma rprod_pos : forall k, (k < n)%nat -> 0 < rprod f k.
Proof.
  induction k as [|k IH]; intro H; cbn [rprod]; [lra|].
  apply Qmult_lt_0_compat; [apply IH; lia | apply r_pos; exact H].
Qed.

Lemma rprod_bounds i : (S i < n)%nat -> forall k, (k < n)%nat ->
  Qpw (fratio f i * Qpw qlo (n - 2)) k <= rprod f k /\ rprod f k * Qpw (Qpw qlo (n - 2)) k <= Qpw (fratio f i) k.
Proof.
  intros Hi. pose proof (r_pos i Hi) as Pi. pose proof qlo_pos as Q0.
  pose proof (Qpw_pos qlo (n - 2) Q0) as PQ.
  induction k as [|k IH]; intro H; cbn [rprod Qpw]; [split; lra|].
  destruct (IH ltac:(lia)) as [I1 I2]. pose proof (r_pos k H) as Pk. pose proof (rprod_pos k ltac:(lia)) as PR.
  pose proof (r_close i k Hi H) as C1. pose proof (r_close k i H Hi) as C2.
  assert (P1 : 0 <= fratio f i * Qpw qlo (n - 2)) by (apply Qmult_le_0_compat; lra).
  split.
  - rewrite (Qmult_comm (rprod f k)). apply Qmult_le_compat4; try assumption. apply Qpw_nonneg. exact P1.
  - setoid_replace (rprod f k * fratio f k * (Qpw qlo (n - 2) * Qpw (Qpw qlo (n - 2)) k))
      with ((fratio f k * Qpw qlo (n - 2)) * (rprod f k * Qpw (Qpw qlo (n - 2)) k)) by ring.
    apply Qmult_le_compat4; try assumption.
    + apply Qmult_le_0_compat; lra.
    + apply Qmult_le_0_compat; [lra|]. apply Qpw_nonneg. lra.
Qed.

(* the anchor: the (n-1)-th power of every ratio against last / first *)
Theorem r_anchor i : (S i < n)%nat ->
  f (n - 1)%nat / f 0%nat * Qpw qlo ((n - 1) * (n - 2)) <= Qpw (fratio f i) (n - 1) /\
  Qpw (fratio f i) (n - 1) <= f (n - 1)%nat / f 0%nat / Qpw qlo ((n - 1) * (n - 2)).
Proof.
  intro Hi. destruct (rprod_bounds i Hi (n - 1) ltac:(lia)) as [B1 B2].
  rewrite (rprod_tele (n - 1) ltac:(lia)) in B1, B2. rewrite Qpw_Qpw in B2. split; [exact B2|].
  apply Qle_shift_div_l; [apply Qpw_pos; exact qlo_pos|].
  rewrite Qpw_mult, Qpw_Qpw in B1. exact B1.
Qed.
End Prog.

(* ====================== 4. the accepted Logspace case ====================== *)
(* the i-th consecutive ratio of a list; only used under the guard S i < length vs *)
Definition ratio (vs : list Q) (i : nat) : Q := nth (S i) vs 0 / nth i vs 0.

Definition log_ok (lo hi : Q) (num : nat) (base : Q) (res : list Q) : Prop :=
  length res = num /\
  (forall v, In v res -> 0 < v) /\
  (* value test, exponent by exponent (only when the reduced denominator is <= 8) *)
  (forall i e v, nth_error (linspace lo hi num) i = Some e -> nth_error res i = Some v -> pow_spec base e v) /\
  (* geometric progression, three consecutive values *)
  (forall i a b c, nth_error res i = Some a -> nth_error res (S i) = Some b -> nth_error res (S (S i)) = Some c ->
     Qabs (a * c - b * b) <= prog_rel * (b * b)) /\
  (* the chain of ratios *)
  (forall i j, (i <= j)%nat -> (S j < num)%nat ->
     ratio res i * Qpw (1 - prog_rel) (j - i) <= ratio res j /\ ratio res j <= ratio res i * Qpw (1 + prog_rel) (j - i)) /\
  (* the anchor: every ratio against last / first = base^(hi - lo) = (base^step)^(num - 1) *)
  (forall i, (S i < num)%nat ->
     nth (num - 1) res 0 / nth 0 res 0 * Qpw (1 - prog_rel) ((num - 1) * (num - 2)) <= Qpw (ratio res i) (num - 1) /\
     Qpw (ratio res i) (num - 1) <= nth (num - 1) res 0 / nth 0 res 0 / Qpw (1 - prog_rel) ((num - 1) * (num - 2))).

Theorem logspace_accept_sound : forall lo hi num base res,
  vec_ok (VLog lo hi num base res) -> log_ok lo hi num base res.
Proof.
  intros lo hi num base res [HP HG]. unfold logspace_exponents in HP.
  destruct (pows_ok_sound base _ _ HP) as [L N]. rewrite linspace_length in L.
  assert (Pos : forall v, In v res -> 0 < v).
  { intros v Hv. destruct (In_nth_error _ _ Hv) as [i Hi].
    assert (Hl : (i < length (linspace lo hi num))%nat).
    { rewrite linspace_length, <- L. apply nth_error_Some. congruence. }
    destruct (nth_error (linspace lo hi num) i) as [e|] eqn:He; [|apply nth_error_None in He; lia].
    exact (proj1 (N i e v He Hi)). }
  pose proof (geo_prog_sound res HG) as G.
  set (f := fun k => nth k res 0).
  assert (Fpos : forall i, (i < num)%nat -> 0 < f i).
  { intros i Hi. apply Pos. unfold f. apply nth_In. lia. }
  assert (Fgeo : forall i, (S (S i) < num)%nat ->
            Qabs (f i * f (S (S i)) - f (S i) * f (S i)) <= prog_rel * (f (S i) * f (S i))).
  { intros i Hi. unfold f. apply (G i); apply nth_error_nth'; lia. }
  split; [exact L|]. split; [exact Pos|]. split; [intros i e v He Hv; exact (proj2 (N i e v He Hv))|].
  split; [exact G|]. split.
  - intros i j Lij Hj. exact (r_chain_le f num Fpos Fgeo i j Lij Hj).
  - intros i Hi. exact (r_anchor f num Fpos Fgeo i Hi).
Qed.

(* the end points are value-checked when lo and hi have (reduced) denominators <= 8: first ~ base^lo, last ~ base^hi *)
Corollary log_ends : forall lo hi num base res, vec_ok (VLog lo hi num base res) -> (2 <= num)%nat ->
  exists v0 vl, nth_error res 0 = Some v0 /\ nth_error res (num - 1) = Some vl /\
                0 < v0 /\ 0 < vl /\ pow_spec base lo v0 /\ pow_spec base hi vl.
Proof.
  intros lo hi num base res H Hn. destruct (logspace_accept_sound _ _ _ _ _ H) as (L & Pos & PS & _).
  destruct (linspace_ends lo hi num Hn) as [E0 E1].
  exists (nth 0 res 0), (nth (num - 1) res 0).
  assert (R0 : nth_error res 0 = Some (nth 0 res 0)) by (apply nth_error_nth'; lia).
  assert (R1 : nth_error res (num - 1) = Some (nth (num - 1) res 0)) by (apply nth_error_nth'; lia).
  split; [exact R0|]. split; [exact R1|].
  split; [apply Pos; apply nth_In; lia|]. split; [apply Pos; apply nth_In; lia|]. split.
  - eapply pow_spec_wd; [exact E0|]. eapply PS; [|exact R0]. apply nth_error_nth'. rewrite linspace_length. lia.
  - eapply pow_spec_wd; [exact E1|]. eapply PS; [|exact R1]. apply nth_error_nth'. rewrite linspace_length. lia.
Qed.

(* ====================== 5. non-vacuity ====================== *)
Example logspace_024 : vec_ok (VLog 0 2 3 2 [1; 2; 4]).
Proof. split; vm_compute; reflexivity. Qed.
Example logspace_024_ok : log_ok 0 2 3 2 [1; 2; 4].
Proof. apply logspace_accept_sound. exact logspace_024. Qed.
(* read on the example: 2^1 is value-checked (exponent 1 = 1/1), and both ratios are 2 *)
Example logspace_024_mid : Qabs (Qpw 2 1 - Qpw 2 1) <= pow_rel 1 * Qpw 2 1.
Proof.
  destruct logspace_024_ok as (_ & _ & PS & _).
  assert (E : nth_error (linspace 0 2 3) 1 = Some 1) by (vm_compute; reflexivity).
  exact (PS 1%nat 1 2 E eq_refl ltac:(vm_compute; lia)).
Qed.

Print Assumptions pows_ok_sound.
Print Assumptions geo_prog_sound.
Print Assumptions ratio_step.
Print Assumptions r_chain_le.
Print Assumptions r_anchor.
Print Assumptions logspace_accept_sound.
Print Assumptions log_ends.
Print Assumptions logspace_024_ok.

(* Proofs/CheckC10.v — (group hF) what an accepted verdict of check_C10 means.
   Accepted (code 0 or 1) ==> for every step of the line (a plain line is one step):
   the "unmodified" flag is 1; every observed Quantile(q) returned normally and is
     - unweighted: within tol_unw (+ the proved distance of the float constant fl(1/3)) of the
       Hyndman-Fan type 8 value hf8_def of the data (Spec/Quantile.v), exactly equal for q<=0, q>=1;
     - weighted, 0<q<1: the value at the first position of an ascending arrangement of the
       (value, weight) pairs whose cumulative weight exceeds t (last value if none), where the
       target t is q*W or one of the two ends q*W -+ tol_wtarget of the borderline window;
     - weighted, q<=0 / q>=1: the least / greatest value carrying a non-zero weight (NaN if none);
   NaN for the empty sample; and the observed IQR is within tolerance of Q(0.75)-Q(0.25) of the
   same specification (weighted: at the exact targets 3W/4, W/4 when the verdict code is 0; a borderline
   choice inside the IQR makes the code 1); unweighted results satisfy the exact bracket test
   (bracket_facts).  Everything is over Q and closed under the global context. *)
From MM Require Import Base.Num Base.GASort Model.Stream Proofs.Stream Model.Sample Model.Quantile Spec.Quantile
  Proofs.Quantile Proofs.QuantileW Proofs.Sample Proofs.CheckBase Proofs.NumSound Check.C10.
From Coq Require Import Qround Lia Lqa Permutation Sorted.
Local Open Scope Q_scope.

(* ====================================================================== *)
(* the specification an accepted case satisfies                             *)
(* ====================================================================== *)
Definition is_end (q : Q) : bool := Qle_bool q 0 || Qle_bool 1 q.

(* proved distance between the code's constant fl(1/3) and 1/3 (C10_quantile_is_hf8) *)
Definition hf8_const_err (xs : list Q) (q : Q) : Q :=
  (1 + clamp01 q) * (1 # (3 * 2 ^ 54)) *
  (ostat_c (Qsort xs) (Z.of_nat (length (Qsort xs))) - ostat_c (Qsort xs) 1).

(* one unweighted query *)
Definition unw_q_ok (xs : list Q) (qo : Q * Z * xreal) : Prop :=
  let '(q, st, obs) := qo in
  st = 0%Z /\ exists v, obs = XFin v /\
    (if is_end q then v == hf8_def xs q
     else Qabs (v - hf8_def xs q) <= tol_unw xs + hf8_const_err xs q).
Definition unw_iqr_ok (xs : list Q) (ist : Z) (iv : xreal) : Prop :=
  ist = 0%Z /\ exists v, iv = XFin v /\
    Qabs (v - (hf8_def xs (3 # 4) - hf8_def xs (1 # 4))) <=
    tol_iqr_unw xs + (hf8_const_err xs (3 # 4) + hf8_const_err xs (1 # 4)).

(* weighted: [v] is the value at the FIRST position of the ascending pair list [ps] whose
   cumulative weight exceeds [t]; the last value when no cumulative weight does *)
Definition wq_at (ps : list (Q * Q)) (t v : Q) : Prop :=
  (exists i w, nth_error ps i = Some (v, w) /\ first_exceeding ps t i) \/
  ((forall j, (j < length ps)%nat -> cumw ps j <= t) /\
   exists w, nth_error ps (length ps - 1) = Some (v, w)).
(* the borderline window of the float scan: the exact target q*W or one of its two ends *)
Definition in_window (ps : list (Q * Q)) (q t : Q) : Prop :=
  let e := tol_wtarget (length ps) (totw ps) in
  t == totw ps * q \/ t == totw ps * q - e \/ t == totw ps * q + e.
(* the values that carry a non-zero weight: [used] of Proofs/Sample.v *)
Definition w_end_ok (lo : bool) (xs ws : list Q) (obs : xreal) : Prop :=
  match used (combine xs ws) with
  | [] => obs = XNaN
  | u => exists v, obs = XFin v /\ (if lo then is_min v u else is_max v u)
  end.
Definition w_q_ok (xs ws : list Q) (ps : list (Q * Q)) (qo : Q * Z * xreal) : Prop :=
  let '(q, st, obs) := qo in
  st = 0%Z /\
  if Qle_bool q 0 then w_end_ok true xs ws obs
  else if Qle_bool 1 q then w_end_ok false xs ws obs
  else exists v m t, obs = XFin v /\ v == m /\ in_window ps q t /\ wq_at ps t m.
Definition w_iqr_ok (xs : list Q) (ps : list (Q * Q)) (ist : Z) (iv : xreal) : Prop :=
  ist = 0%Z /\ exists v a b ta tb, iv = XFin v /\
    in_window ps (3 # 4) ta /\ wq_at ps ta a /\ in_window ps (1 # 4) tb /\ wq_at ps tb b /\
    Qabs (v - (a - b)) <= tol_iqr_w xs.

(* weighted IQR with NO borderline choice: both quartiles at their exact targets 3W/4 and W/4 *)
Definition w_iqr_exact (xs : list Q) (ps : list (Q * Q)) (ist : Z) (iv : xreal) : Prop :=
  exists v a b, iv = XFin v /\ wq_at ps (totw ps * (3 # 4)) a /\ wq_at ps (totw ps * (1 # 4)) b /\
    Qabs (v - (a - b)) <= tol_iqr_w xs.

(* THE BRACKET (exact, no tolerance): an unweighted result at an interpolating position
   h = 1/3 + q (N + 1/3) = k + frac, 1 <= k < N, 0 < q < 1, lies between the k-th and the (k+1)-th
   order statistic of the ascending arrangement [sx]; when frac is within 1e-6 of 0 or 1 (the
   float position may fall into the neighbouring interval) the bracket is widened by one order
   statistic on each side (clamped at the last one) *)
Definition near_break (frac : Q) : bool := Qle_bool frac (1 # 1000000) || Qle_bool (999999 # 1000000) frac.
Definition bracket_lo (brk : bool) (i0 : nat) : nat := if brk then Nat.pred i0 else i0.
Definition bracket_hi (brk : bool) (i0 n : nat) : nat := Nat.min (if brk then i0 + 2 else i0 + 1)%nat (n - 1)%nat.
Definition bracket_ok (sx : list Q) (q v : Q) : Prop :=
  let n := length sx in
  let h := quantile_pos third_f n q in
  let k := Qfloor h in
  0 < q -> q < 1 -> (1 <= k)%Z -> (k < Z.of_nat n)%Z ->
  let i0 := Z.to_nat (k - 1) in
  let brk := near_break (h - inject_Z k) in
  exists a b, nth_error sx (bracket_lo brk i0) = Some a /\ nth_error sx (bracket_hi brk i0 n) = Some b /\
              a <= v /\ v <= b.
Definition bracket_facts (xs : list Q) (qs : list (Q * Z * xreal)) : Prop :=
  forall q st v, In (q, st, XFin v) qs -> bracket_ok (Qsort xs) q v.

Definition nan_q_ok (qo : Q * Z * xreal) : Prop := let '(q, st, obs) := qo in st = 0%Z /\ obs = XNaN.

(* every weighted mid-range query answered with the exact target (no borderline choice) *)
Definition w_q_exact (ps : list (Q * Q)) (qo : Q * Z * xreal) : Prop :=
  let '(q, st, obs) := qo in
  Qle_bool q 0 = false -> Qle_bool 1 q = false ->
  exists v m, obs = XFin v /\ v == m /\ wq_at ps (totw ps * q) m.

(* [code] is the verdict code: 0 ok, 1 borderline (some weighted query needed the window) *)
(* exact order facts on the observed floats, no tolerance: every finite result lies between two
   sample values (so a constant sample can only yield that constant), and the results of one
   case are non-decreasing in q *)
Definition order_facts (xs : list Q) (qs : list (Q * Z * xreal)) : Prop :=
  (forall q st v, In (q, st, XFin v) qs -> xs <> [] ->
     (exists a, In a xs /\ a <= v) /\ (exists b, In b xs /\ v <= b)) /\
  (forall q1 st1 v1 q2 st2 v2, In (q1, st1, XFin v1) qs -> In (q2, st2, XFin v2) qs -> q1 <= q2 -> v1 <= v2).

Definition case_ok (code : Z) (c : c10case) : Prop :=
  let '(sorted, hasw, xs, ws, qs, ist, iv, unm) := c in
  unm = 1%Z /\ (if hasw then length ws = length xs else ws = []) /\ (sorted = true -> StronglySorted Qle xs) /\
  order_facts xs qs /\
  match xs with
  | [] => Forall nan_q_ok qs /\ ist = 0%Z /\ iv = XNaN
  | _ => if hasw
         then exists ps, Permutation ps (combine xs ws) /\ psorted ps /\
                         Forall (w_q_ok xs ws ps) qs /\ w_iqr_ok xs ps ist iv /\
                         ((code <= 0)%Z -> Forall (w_q_exact ps) qs /\ w_iqr_exact xs ps ist iv)
         else Forall (unw_q_ok xs) qs /\ unw_iqr_ok xs ist iv /\ bracket_facts xs qs
  end.

(* ====================================================================== *)
(* small helpers                                                            *)
(* ====================================================================== *)
Lemma Qabs_tri a b c t1 t2 : Qabs (a - b) <= t1 -> Qabs (b - c) <= t2 -> Qabs (a - c) <= t1 + t2.
Proof.
  intros H1 H2. apply Qabs_Qle_condition in H1. apply Qabs_Qle_condition in H2.
  apply Qabs_Qle_condition. destruct H1, H2. split; lra.
Qed.

Lemma asc_b_sound l : asc_b l = true -> StronglySorted Qle l.
Proof.
  intro H. apply Sorted_StronglySorted; [intros a b c; apply Qle_trans|].
  induction l as [|x [|y t] IH]; [constructor|repeat constructor|].
  cbn [asc_b] in H. apply andb_prop in H. destruct H as [H1 H2]. apply Qle_bool_iff in H1.
  constructor; [apply IH; exact H2|constructor; exact H1].
Qed.

Lemma is_nan_true o : is_nan o = true -> o = XNaN.
Proof. destruct o; cbn; congruence. Qed.

(* reading the result comparators *)
Lemma rv_eq_val m st obs : rv_eq (RVal m) st obs = true -> st = 0%Z /\ exists v, obs = XFin v /\ v == m.
Proof.
  cbn. intro H. apply andb_prop in H. destruct H as [H1 H2]. apply Z.eqb_eq in H1.
  split; [exact H1|]. apply xeq_fin in H2. exact H2.
Qed.
Lemma rv_eq_nan st obs : rv_eq RNaN st obs = true -> st = 0%Z /\ obs = XNaN.
Proof.
  cbn. intro H. apply andb_prop in H. destruct H as [H1 H2]. apply Z.eqb_eq in H1. apply is_nan_true in H2. auto.
Qed.
Lemma rv_close_val tol m st obs : rv_close tol (RVal m) st obs = true ->
  st = 0%Z /\ exists v, obs = XFin v /\ Qabs (v - m) <= tol.
Proof.
  cbn. intro H. apply andb_prop in H. destruct H as [H1 H2]. apply Z.eqb_eq in H1.
  split; [exact H1|]. apply xwithin_fin in H2. exact H2.
Qed.
Lemma rv_close_nan tol st obs : rv_close tol RNaN st obs = true -> st = 0%Z /\ obs = XNaN.
Proof. exact (rv_eq_nan st obs). Qed.

(* ====================================================================== *)
(* model meets spec, in the form the comparator uses it                     *)
(* ====================================================================== *)
Lemma quantile_c_end_indep c c' s q : is_end q = true -> quantile_c c s q = quantile_c c' s q.
Proof.
  unfold is_end, quantile_c. intro H. destruct (s_xs s); [reflexivity|].
  destruct (Qle_bool q 0); [reflexivity|]. cbn in H. rewrite H. reflexivity.
Qed.

(* unweighted: whatever the Sorted flag (set only on ascending data) *)
Lemma unw_model_hf8 xs sorted q : xs <> [] -> (sorted = true -> StronglySorted Qle xs) ->
  exists m, quantile (mkSample xs None sorted) q = RVal m /\
            Qabs (m - hf8_def xs q) <= hf8_const_err xs q /\ (is_end q = true -> m == hf8_def xs q).
Proof.
  intros Hne Hs.
  destruct (quantile_is_hf8 xs q Hne) as (u & Eu & Bu).
  assert (Xu : is_end q = true -> u == hf8_def xs q).
  { intro He. destruct (quantile_is_hf8_exact xs q Hne) as (u' & Eu' & Bu').
    unfold quantile in Eu. rewrite (quantile_c_end_indep third_f (1 # 3) _ q He) in Eu.
    rewrite Eu' in Eu. injection Eu as <-. exact Bu'. }
  destruct sorted.
  - pose proof (quantile_sorted_flag_irrelevant xs q (Hs eq_refl)) as E.
    unfold marked_sorted in E. rewrite Eu in E.
    destruct (quantile (mkSample xs None true) q) as [|m|]; cbn in E; try contradiction.
    exists m. split; [reflexivity|]. split.
    + unfold hf8_const_err. rewrite E. exact Bu.
    + intro He. rewrite E. exact (Xu He).
  - exists u. split; [exact Eu|]. split; [exact Bu|exact Xu].
Qed.

Lemma mid_not_end q : Qle_bool q 0 = false -> Qle_bool 1 q = false -> is_end q = false.
Proof. unfold is_end. intros -> ->. reflexivity. Qed.

(* sorting first does not change a mid-range query (the comparator sorts once) *)
Lemma quantile_sorted_sample s q : Qle_bool q 0 = false -> Qle_bool 1 q = false ->
  (s_ws s = None \/ exists ws, s_ws s = Some ws /\ length ws = length (s_xs s)) ->
  quantile (if s_sorted s then s else sample_sort s) q = quantile s q.
Proof.
  intros Q0 Q1 Hw. destruct (s_sorted s) eqn:E; [reflexivity|].
  unfold quantile. symmetry. apply quantile_mid_sort_first; assumption.
Qed.

(* ---------- weighted ---------- *)
Lemma wscan_at ps t v : wscan ps t None = Some v -> wq_at ps t v.
Proof.
  intro H. destruct (wscan_spec ps t None) as [(i & x & w & Hn & Hs & Hf)|(Hall & Hs)].
  - rewrite Hs in H. injection H as <-. left. exists i, w. auto.
  - rewrite Hs in H. destruct (rev ps) as [|[x w] r] eqn:Er; [discriminate|]. injection H as <-.
    right. split; [exact Hall|]. exists w.
    apply (f_equal (@rev (Q * Q))) in Er. rewrite rev_involutive in Er. cbn in Er.
    rewrite Er. rewrite app_length. cbn. rewrite Nat.add_sub.
    rewrite nth_error_app2 by lia. rewrite Nat.sub_diag. reflexivity.
Qed.
Lemma wscan_none ps t : wscan ps t None = None -> ps = [].
Proof.
  intro H. destruct (wscan_spec ps t None) as [(i & x & w & Hn & Hs & Hf)|(Hall & Hs)]; [congruence|].
  rewrite Hs in H. destruct (rev ps) as [|[x w] r] eqn:Er; [|discriminate].
  apply (f_equal (@rev (Q * Q))) in Er. rewrite rev_involutive in Er. exact Er.
Qed.

Lemma first_exceeding_comp ps t t' i : t == t' -> first_exceeding ps t i -> first_exceeding ps t' i.
Proof.
  intros E (A & B & C). split; [exact A|]. split; [rewrite <- E; exact B|].
  intros j Hj. rewrite <- E. apply C. exact Hj.
Qed.
Lemma wq_at_comp ps t t' v : t == t' -> wq_at ps t v -> wq_at ps t' v.
Proof.
  intros E [(i & w & Hn & Hf)|(Hall & Hl)].
  - left. exists i, w. split; [exact Hn|]. eapply first_exceeding_comp; eassumption.
  - right. split; [|exact Hl]. intros j Hj. rewrite <- E. apply Hall. exact Hj.
Qed.

(* the sorted sample the comparator builds, and its pair list *)
Definition csample (sorted hasw : bool) (xs ws : list Q) : sample :=
  mkSample xs (if hasw then Some ws else None) sorted.
Definition csorted (sorted hasw : bool) (xs ws : list Q) : sample :=
  let s := csample sorted hasw xs ws in if sorted then s else sample_sort s.
Definition cpairs (s' : sample) : list (Q * Q) :=
  match s_ws s' with Some w => combine (s_xs s') w | None => [] end.

Lemma combine_nil_iff (xs ws : list Q) : length ws = length xs -> (combine xs ws = [] <-> xs = []).
Proof. destruct xs, ws; cbn; intros H; try discriminate; split; congruence. Qed.

Lemma psorted_combine xs ws : length ws = length xs -> StronglySorted Qle xs -> psorted (combine xs ws).
Proof.
  revert ws. induction xs as [|x t IH]; intros [|w wt] Hl Hs; cbn; try constructor; cbn in Hl; try discriminate.
  - inversion Hs; subst. apply IH; [lia|assumption].
  - inversion Hs as [|? ? S F]; subst. rewrite Forall_forall in *. intros [a b] Hin. cbn.
    apply F. apply in_combine_l in Hin. exact Hin.
Qed.

Lemma weighted_setup sorted xs ws : length ws = length xs -> (sorted = true -> StronglySorted Qle xs) ->
  let s' := csorted sorted true xs ws in
  let ps := cpairs s' in
  s_sorted s' = true /\ (exists w', s_ws s' = Some w' /\ s_xs s' = map fst ps /\ w' = map snd ps) /\
  Permutation ps (combine xs ws) /\ psorted ps /\ (ps = [] <-> xs = []).
Proof.
  intros Hl Hs. unfold csorted, csample, cpairs. destruct sorted.
  - cbn [s_ws s_xs s_sorted]. split; [reflexivity|]. split.
    + exists ws. split; [reflexivity|]. split; [symmetry; apply map_fst_combine; exact Hl|].
      clear Hs. revert ws Hl. induction xs as [|x t IH]; intros [|w wt] Hl; cbn in *; try discriminate; try reflexivity.
      f_equal. apply IH. lia.
    + split; [apply Permutation_refl|]. split; [apply psorted_combine; auto|apply combine_nil_iff; exact Hl].
  - unfold sample_sort. cbn [s_ws s_xs s_sorted]. rewrite combine_split_map.
    split; [reflexivity|]. split; [eexists; split; [reflexivity|split; reflexivity]|].
    split; [apply psort_perm|]. split; [apply psort_psorted|].
    rewrite <- (combine_nil_iff xs ws Hl). split; intro H.
    + apply (f_equal (@length (Q * Q))) in H. rewrite psort_length in H. destruct (combine xs ws); [reflexivity|discriminate].
    + rewrite H. reflexivity.
Qed.

(* a mid-range query on a sorted weighted sample is the scan at the target W*q *)
Lemma quantile_sorted_weighted s' w q : s_sorted s' = true -> s_ws s' = Some w -> s_xs s' <> [] ->
  Qle_bool q 0 = false -> Qle_bool 1 q = false ->
  quantile s' q = match wscan (combine (s_xs s') w) (wtotal (combine (s_xs s') w) * q) None with
                  | Some v => RVal v | None => RPanic end.
Proof.
  intros Hs Hw Hx Q0 Q1. unfold quantile, quantile_c. destruct (s_xs s') as [|x0 t] eqn:E; [congruence|].
  rewrite Q0, Q1, Hs, Hw, E. reflexivity.
Qed.

Lemma in_window_exact ps q : in_window ps q (wtotal ps * q).
Proof. left. rewrite wtotal_sum. reflexivity. Qed.
Lemma in_window_lo ps q : in_window ps q (wtotal ps * q - tol_wtarget (length ps) (wtotal ps)).
Proof. right. left. unfold tol_wtarget. rewrite wtotal_sum. reflexivity. Qed.
Lemma in_window_hi ps q : in_window ps q (wtotal ps * q + tol_wtarget (length ps) (wtotal ps)).
Proof. right. right. unfold tol_wtarget. rewrite wtotal_sum. reflexivity. Qed.

(* ====================================================================== *)
(* one query                                                                 *)
(* ====================================================================== *)
Definition q_code (x : Z * Z * qr) : Z := fst (fst x).

Lemma csorted_unw_ws sorted xs ws : s_ws (csorted sorted false xs ws) = None.
Proof. unfold csorted, csample. destruct sorted; reflexivity. Qed.

Lemma check_q_unw sorted xs ws ps W wex q st obs :
  xs <> [] -> (sorted = true -> StronglySorted Qle xs) ->
  q_code (check_q (csample sorted false xs ws) (csorted sorted false xs ws) ps W wex (tol_unw xs) q st obs) <> 2%Z ->
  unw_q_ok xs (q, st, obs).
Proof.
  intros Hne Hs. unfold check_q, unw_q_ok, is_end.
  destruct (Qle_bool q 0) eqn:Q0; [|destruct (Qle_bool 1 q) eqn:Q1]; cbn [orb q_code fst].
  - destruct (unw_model_hf8 xs sorted q Hne Hs) as (m & Em & _ & Xm).
    unfold csample. rewrite Em. destruct (rv_eq (RVal m) st obs) eqn:R; [|congruence]. intros _.
    apply rv_eq_val in R. destruct R as (-> & v & -> & Ev). split; [reflexivity|]. exists v. split; [reflexivity|].
    rewrite Ev. apply Xm. unfold is_end. rewrite Q0. reflexivity.
  - destruct (unw_model_hf8 xs sorted q Hne Hs) as (m & Em & _ & Xm).
    unfold csample. rewrite Em. destruct (rv_eq (RVal m) st obs) eqn:R; [|congruence]. intros _.
    apply rv_eq_val in R. destruct R as (-> & v & -> & Ev). split; [reflexivity|]. exists v. split; [reflexivity|].
    rewrite Ev. apply Xm. unfold is_end. rewrite Q0, Q1. reflexivity.
  - rewrite csorted_unw_ws. cbn [q_code fst].
    assert (E : quantile (csorted sorted false xs ws) q = quantile (mkSample xs None sorted) q).
    { unfold csorted, csample.
      exact (quantile_sorted_sample (mkSample xs None sorted) q Q0 Q1 (or_introl eq_refl)). }
    rewrite E. destruct (unw_model_hf8 xs sorted q Hne Hs) as (m & Em & Bm & _). rewrite Em.
    destruct (rv_close (tol_unw xs) (RVal m) st obs) eqn:R; [|congruence]. intros _.
    apply rv_close_val in R. destruct R as (-> & v & -> & Bv). split; [reflexivity|]. exists v. split; [reflexivity|].
    exact (Qabs_tri _ _ _ _ _ Bv Bm).
Qed.

(* weighted bounds: least / greatest value with a non-zero weight *)
Lemma is_min_comp m m' u : m == m' -> is_min m u -> is_min m' u.
Proof.
  intros E ((x & Hx & Ex) & L). split; [exists x; split; [exact Hx|rewrite Ex; exact E]|].
  intros y Hy. rewrite <- E. apply L. exact Hy.
Qed.
Lemma is_max_comp m m' u : m == m' -> is_max m u -> is_max m' u.
Proof.
  intros E ((x & Hx & Ex) & L). split; [exists x; split; [exact Hx|rewrite Ex; exact E]|].
  intros y Hy. rewrite <- E. apply L. exact Hy.
Qed.

Lemma w_bounds_spec sorted xs ws : xs <> [] -> length ws = length xs -> (sorted = true -> StronglySorted Qle xs) ->
  match sample_bounds (mkSample xs (Some ws) sorted), used (combine xs ws) with
  | None, [] => True
  | Some (mn, mx), (_ :: _) as u => is_min mn u /\ is_max mx u
  | _, _ => False
  end.
Proof.
  intros Hne Hl Hs.
  assert (U : match sample_bounds (mkSample xs (Some ws) false), used (combine xs ws) with
              | None, [] => True
              | Some (mn, mx), (_ :: _) as u => is_min mn u /\ is_max mx u
              | _, _ => False end).
  { rewrite (weighted_bounds_unsorted xs ws Hne).
    destruct (used (combine xs ws)) as [|y r] eqn:Eu; [exact I|].
    destruct (bounds (y :: r)) as [[mn mx]|] eqn:Eb; [|discriminate].
    destruct (bounds_spec _ _ _ Eb) as ((I1 & L1) & (I2 & L2)).
    split; (split; [|assumption]); [exists mn|exists mx]; (split; [assumption|reflexivity]). }
  destruct sorted; [|exact U].
  pose proof (weighted_bounds_sorted_flag xs ws Hne Hl (Hs eq_refl)) as E.
  destruct (sample_bounds (mkSample xs (Some ws) true)) as [[a b]|],
           (sample_bounds (mkSample xs (Some ws) false)) as [[mn mx]|]; cbn in E; try contradiction.
  - destruct (used (combine xs ws)) as [|y r]; [exact U|]. destruct E as [Ea Eb]. destruct U as [U1 U2].
    split; [eapply is_min_comp; [symmetry; exact Ea|exact U1]|eapply is_max_comp; [symmetry; exact Eb|exact U2]].
  - exact U.
Qed.

Lemma fits53_zero q : fits53 (0 * q) = true.
Proof. unfold fits53. rewrite (Qred_complete (0 * q) 0) by ring. reflexivity. Qed.

Lemma check_q_w sorted xs ws wex q st obs :
  xs <> [] -> length ws = length xs -> (sorted = true -> StronglySorted Qle xs) ->
  let s' := csorted sorted true xs ws in
  let ps := cpairs s' in
  let c := q_code (check_q (csample sorted true xs ws) s' ps (wtotal ps) wex (tol_unw xs) q st obs) in
  c <> 2%Z -> w_q_ok xs ws ps (q, st, obs) /\ ((c <= 0)%Z -> w_q_exact ps (q, st, obs)).
Proof.
  intros Hne Hl Hs s' ps.
  destruct (weighted_setup sorted xs ws Hl Hs) as (Sd & (w' & Hw' & Hx' & Ew') & _ & _ & Hnil).
  fold s' in Sd, Hw', Hx'. fold ps in Hx', Ew', Hnil.
  assert (Hps : ps <> []) by (intro E; apply Hne, Hnil, E).
  unfold check_q, w_q_ok, w_q_exact.
  destruct (Qle_bool q 0) eqn:Q0; [|destruct (Qle_bool 1 q) eqn:Q1]; cbn [orb q_code fst]; cbv zeta.
  - (* q <= 0: the lower weighted bound *)
    unfold csample, quantile, quantile_c. cbn [s_xs]. destruct xs as [|x0 xt] eqn:Exs; [congruence|]. rewrite <- Exs in *.
    rewrite Q0. pose proof (w_bounds_spec sorted xs ws Hne Hl Hs) as B. unfold w_end_ok.
    destruct (sample_bounds (mkSample xs (Some ws) sorted)) as [[mn mx]|]; destruct (used (combine xs ws)) as [|y r]; try contradiction.
    + destruct (rv_eq (RVal mn) st obs) eqn:R; [|congruence]. intros _. split; [|intros _; discriminate].
      apply rv_eq_val in R. destruct R as (-> & v & -> & Ev). split; [reflexivity|]. exists v. split; [reflexivity|].
      eapply is_min_comp; [symmetry; exact Ev|apply B].
    + destruct (rv_eq RNaN st obs) eqn:R; [|congruence]. intros _. split; [|intros _; discriminate].
      apply rv_eq_nan in R. exact R.
  - unfold csample, quantile, quantile_c. cbn [s_xs]. destruct xs as [|x0 xt] eqn:Exs; [congruence|]. rewrite <- Exs in *.
    rewrite Q0, Q1. pose proof (w_bounds_spec sorted xs ws Hne Hl Hs) as B. unfold w_end_ok.
    destruct (sample_bounds (mkSample xs (Some ws) sorted)) as [[mn mx]|]; destruct (used (combine xs ws)) as [|y r]; try contradiction.
    + destruct (rv_eq (RVal mx) st obs) eqn:R; [|congruence]. intros _. split; [|intros _ _; discriminate].
      apply rv_eq_val in R. destruct R as (-> & v & -> & Ev). split; [reflexivity|]. exists v. split; [reflexivity|].
      eapply is_max_comp; [symmetry; exact Ev|apply B].
    + destruct (rv_eq RNaN st obs) eqn:R; [|congruence]. intros _. split; [|intros _ _; discriminate].
      apply rv_eq_nan in R. exact R.
  - (* 0 < q < 1: the scan *)
    rewrite Hw'.
    assert (Hxs' : s_xs s' <> []) by (rewrite Hx'; destruct ps; [congruence|discriminate]).
    assert (Eps : combine (s_xs s') w' = ps) by (unfold ps, cpairs; rewrite Hw'; reflexivity).
    rewrite (quantile_sorted_weighted s' w' q Sd Hw' Hxs' Q0 Q1), Eps.
    destruct (wscan ps (wtotal ps * q) None) as [m|] eqn:Em; [|apply wscan_none in Em; congruence].
    destruct (rv_eq (RVal m) st obs) eqn:R.
    + cbn [q_code fst]. intros _. apply rv_eq_val in R. destruct R as (-> & v & -> & Ev).
      pose proof (wscan_at _ _ _ Em) as A. split.
      * split; [reflexivity|]. exists v, m, (wtotal ps * q). repeat split; [exact Ev|apply in_window_exact|exact A].
      * intros _ _ _. exists v, m. repeat split; [exact Ev|]. eapply wq_at_comp; [|exact A]. rewrite wtotal_sum. reflexivity.
    + destruct (wex && fits53 (wtotal ps * q) && targets_exact (map snd ps) (wtotal ps * q)); [cbn; congruence|].
      set (e := tol_wtarget (length ps) (wtotal ps)).
      destruct (rv_eq match wscan ps (wtotal ps * q - e) None with Some v => RVal v | None => RPanic end st obs) eqn:R1;
        [|destruct (rv_eq match wscan ps (wtotal ps * q + e) None with Some v => RVal v | None => RPanic end st obs) eqn:R2];
        cbn [orb q_code fst]; [| |congruence]; intros _; (split; [|intro H; exfalso; lia]).
      * destruct (wscan ps (wtotal ps * q - e) None) as [m1|] eqn:E1; [|apply wscan_none in E1; congruence].
        apply rv_eq_val in R1. destruct R1 as (-> & v & -> & Ev). split; [reflexivity|].
        exists v, m1, (wtotal ps * q - e). repeat split; [exact Ev|apply in_window_lo|apply wscan_at; exact E1].
      * destruct (wscan ps (wtotal ps * q + e) None) as [m2|] eqn:E2; [|apply wscan_none in E2; congruence].
        apply rv_eq_val in R2. destruct R2 as (-> & v & -> & Ev). split; [reflexivity|].
        exists v, m2, (wtotal ps * q + e). repeat split; [exact Ev|apply in_window_hi|apply wscan_at; exact E2].
Qed.

(* the empty sample: every query is NaN *)
Lemma check_q_empty sorted hasw tolu q st obs :
  let s' := csorted sorted hasw [] [] in
  q_code (check_q (csample sorted hasw [] []) s' (cpairs s') (wtotal (cpairs s')) (sums_exact (map snd (cpairs s')) 0) tolu q st obs) <> 2%Z ->
  nan_q_ok (q, st, obs).
Proof.
  intros s' H. unfold nan_q_ok. revert H. unfold check_q.
  assert (E0 : quantile (csample sorted hasw [] []) q = RNaN) by (destruct sorted, hasw; reflexivity).
  assert (E1 : quantile s' q = RNaN) by (destruct sorted, hasw; reflexivity).
  rewrite E0, E1.
  destruct (Qle_bool q 0) eqn:Q0; [|destruct (Qle_bool 1 q) eqn:Q1]; cbn [orb q_code fst].
  - destruct (rv_eq RNaN st obs) eqn:R; [|congruence]. intros _. exact (rv_eq_nan _ _ R).
  - destruct (rv_eq RNaN st obs) eqn:R; [|congruence]. intros _. exact (rv_eq_nan _ _ R).
  - destruct hasw.
    + assert (Ew : s_ws s' = Some []) by (destruct sorted; reflexivity). rewrite Ew.
      destruct (rv_eq RNaN st obs) eqn:R; [intros _; exact (rv_eq_nan _ _ R)|].
      assert (Ep : cpairs s' = []) by (destruct sorted; reflexivity). rewrite Ep.
      change (wtotal []) with 0. rewrite fits53_zero. cbn. congruence.
    + assert (Ew : s_ws s' = None) by (destruct sorted; reflexivity). rewrite Ew. cbn [q_code fst].
      destruct (rv_close tolu RNaN st obs) eqn:R; [|congruence]. intros _. exact (rv_close_nan _ _ _ R).
Qed.

(* ====================================================================== *)
(* all queries                                                               *)
(* ====================================================================== *)
Lemma run_qs_sound s0 s ps W wex tolu : forall qs i code tag code' tag' pos diag,
  run_qs s0 s ps W wex tolu qs i code tag = (code', tag', pos, diag) -> code' <> 2%Z ->
  (code <= code')%Z /\
  Forall (fun qo => let '(q, st, obs) := qo in
                    let c := q_code (check_q s0 s ps W wex tolu q st obs) in c <> 2%Z /\ (c <= code')%Z) qs.
Proof.
  induction qs as [|[[q st] obs] rest IH]; intros i code tag code' tag' pos diag R Hc.
  - cbn in R. injection R as <- _ _ _. split; [lia|constructor].
  - cbn [run_qs] in R. destruct (check_q s0 s ps W wex tolu q st obs) as [[v t] r] eqn:E.
    destruct (v =? 2)%Z eqn:V; [injection R as <- _ _ _; congruence|].
    apply Z.eqb_neq in V. destruct (IH _ _ _ _ _ _ _ R Hc) as [L F]. split; [lia|].
    constructor; [|exact F]. rewrite E. cbn. split; [exact V|lia].
Qed.

(* ====================================================================== *)
(* IQR                                                                       *)
(* ====================================================================== *)
Lemma iqr_csorted sorted hasw xs ws : iqr (csorted sorted hasw xs ws) = iqr (csample sorted hasw xs ws).
Proof.
  unfold csorted. destruct sorted; [reflexivity|]. unfold iqr. symmetry. apply iqr_sort_first.
Qed.

Lemma iqr_ok_unw sorted xs ws ps W wex ist iv :
  xs <> [] -> (sorted = true -> StronglySorted Qle xs) ->
  iqr_code (csorted sorted false xs ws) xs ps W wex ist iv <> 2%Z -> unw_iqr_ok xs ist iv.
Proof.
  intros Hne Hs. unfold iqr_code. rewrite csorted_unw_ws, iqr_csorted. unfold csample.
  destruct (unw_model_hf8 xs sorted (3 # 4) Hne Hs) as (a & Ea & Ba & _).
  destruct (unw_model_hf8 xs sorted (1 # 4) Hne Hs) as (b & Eb & Bb & _).
  rewrite (iqr_def (mkSample xs None sorted) a b (or_introl eq_refl) Ea Eb). cbv zeta.
  destruct (rv_close (tol_iqr_unw xs) (RVal (a - b)) ist iv) eqn:R; [|congruence]. intros _.
  apply rv_close_val in R. destruct R as (-> & v & -> & Bv).
  split; [reflexivity|]. exists v. split; [reflexivity|].
  apply Qabs_Qle_condition in Bv, Ba, Bb. apply Qabs_Qle_condition. destruct Bv, Ba, Bb. split; lra.
Qed.

Lemma wcands_in ps q a : In (Some a) (wcands ps (wtotal ps) (wtotal ps * q)) ->
  exists t, in_window ps q t /\ wq_at ps t a.
Proof.
  unfold wcands. cbv zeta. intros [H|[H|[H|[]]]]; apply wscan_at in H; eexists; (split; [|exact H]).
  - apply in_window_exact.
  - apply in_window_lo.
  - apply in_window_hi.
Qed.

Lemma iqr_ok_w sorted xs ws wex ist iv :
  xs <> [] -> length ws = length xs -> (sorted = true -> StronglySorted Qle xs) ->
  let s' := csorted sorted true xs ws in
  let ps := cpairs s' in
  iqr_code s' xs ps (wtotal ps) wex ist iv <> 2%Z ->
  w_iqr_ok xs ps ist iv /\ ((iqr_code s' xs ps (wtotal ps) wex ist iv <= 0)%Z -> w_iqr_exact xs ps ist iv).
Proof.
  intros Hne Hl Hs s' ps.
  destruct (weighted_setup sorted xs ws Hl Hs) as (Sd & (w' & Hw' & Hx' & Ew') & _ & _ & Hnil).
  fold s' in Sd, Hw', Hx'. fold ps in Hx', Ew', Hnil.
  assert (Hps : ps <> []) by (intro E; apply Hne, Hnil, E).
  assert (Hxs' : s_xs s' <> []) by (rewrite Hx'; destruct ps; [congruence|discriminate]).
  assert (Eps : combine (s_xs s') w' = ps) by (unfold ps, cpairs; rewrite Hw'; reflexivity).
  unfold iqr_code. rewrite Hw'. cbv zeta.
  assert (Ei : exists a b, iqr s' = RVal (a - b) /\ wscan ps (wtotal ps * (3 # 4)) None = Some a /\
                           wscan ps (wtotal ps * (1 # 4)) None = Some b).
  { unfold iqr, iqr_c. rewrite Sd. fold (quantile s' (3 # 4)). fold (quantile s' (1 # 4)).
    rewrite (quantile_sorted_weighted s' w' (3 # 4) Sd Hw' Hxs' eq_refl eq_refl).
    rewrite (quantile_sorted_weighted s' w' (1 # 4) Sd Hw' Hxs' eq_refl eq_refl). rewrite Eps.
    destruct (wscan ps (wtotal ps * (3 # 4)) None) as [a|] eqn:Ea; [|apply wscan_none in Ea; congruence].
    destruct (wscan ps (wtotal ps * (1 # 4)) None) as [b|] eqn:Eb; [|apply wscan_none in Eb; congruence].
    exists a, b. auto. }
  destruct Ei as (a & b & Ei & Ea & Eb). rewrite Ei.
  destruct (rv_close (tol_iqr_w xs) (RVal (a - b)) ist iv) eqn:R.
  - intros _. apply rv_close_val in R. destruct R as (-> & v & -> & Bv). split.
    + split; [reflexivity|].
      exists v, a, b, (wtotal ps * (3 # 4)), (wtotal ps * (1 # 4)).
      repeat split; [apply in_window_exact|apply wscan_at; exact Ea|apply in_window_exact|apply wscan_at; exact Eb|exact Bv].
    + intros _. exists v, a, b. split; [reflexivity|].
      split; [eapply wq_at_comp; [|apply wscan_at; exact Ea]; rewrite wtotal_sum; reflexivity|].
      split; [eapply wq_at_comp; [|apply wscan_at; exact Eb]; rewrite wtotal_sum; reflexivity|exact Bv].
  - match goal with |- (if ?c then 1%Z else 2%Z) <> 2%Z -> _ => destruct c eqn:H end; [|congruence].
    intros _. split; [|intro L; exfalso; lia].
    apply andb_prop in H. destruct H as [H Hc]. apply andb_prop in H. destruct H as [_ Hst]. apply Z.eqb_eq in Hst.
    destruct iv as [| |v]; try discriminate.
    apply existsb_exists in Hc. destruct Hc as (oa & Ia & Hc). apply existsb_exists in Hc. destruct Hc as (ob & Ib & Hc).
    destruct oa as [a'|]; [|discriminate]. destruct ob as [b'|]; [|discriminate].
    apply within_sound in Hc.
    destruct (wcands_in ps (3 # 4) a' Ia) as (ta & Wa & Aa). destruct (wcands_in ps (1 # 4) b' Ib) as (tb & Wb & Ab).
    split; [exact Hst|]. exists v, a', b', ta, tb. repeat split; assumption.
Qed.

Lemma iqr_ok_empty sorted hasw ist iv :
  let s' := csorted sorted hasw [] [] in
  iqr_code s' [] (cpairs s') (wtotal (cpairs s')) (sums_exact (map snd (cpairs s')) 0) ist iv <> 2%Z ->
  ist = 0%Z /\ iv = XNaN.
Proof.
  intros s'. unfold iqr_code.
  assert (E : iqr s' = RNaN) by (destruct sorted, hasw; reflexivity). rewrite E.
  destruct hasw.
  - assert (Ew : s_ws s' = Some []) by (destruct sorted; reflexivity). rewrite Ew. cbv zeta.
    assert (Ep : cpairs s' = []) by (destruct sorted; reflexivity). rewrite Ep.
    destruct (rv_close (tol_iqr_w []) RNaN ist iv) eqn:R; [intros _; exact (rv_close_nan _ _ _ R)|].
    match goal with |- (if ?c then 1%Z else 2%Z) <> 2%Z -> _ => destruct c eqn:H end; [|congruence].
    exfalso. apply andb_prop in H. destruct H as [H _]. apply andb_prop in H. destruct H as [H _].
    revert H. vm_compute. discriminate.
  - assert (Ew : s_ws s' = None) by (destruct sorted; reflexivity). rewrite Ew.
    destruct (rv_close (tol_iqr_unw []) RNaN ist iv) eqn:R; [intros _; exact (rv_close_nan _ _ _ R)|congruence].
Qed.

(* ====================================================================== *)
(* one case, a history, the line                                            *)
(* ====================================================================== *)
Lemma in_range_b_sound xs qs : in_range_b xs qs = true ->
  forall q st v, In (q, st, XFin v) qs -> xs <> [] -> (exists a, In a xs /\ a <= v) /\ (exists b, In b xs /\ v <= b).
Proof.
  intros H q st v Hin Hne. destruct xs as [|x xt]; [congruence|]. cbn [in_range_b] in H.
  rewrite forallb_forall in H. specialize (H _ Hin). cbn in H. apply andb_prop in H. destruct H as [H1 H2].
  apply Qle_bool_iff in H1. apply Qle_bool_iff in H2. split.
  - exists (Qlmin x (x :: xt)). split; [|exact H1].
    destruct (Qlmin_spec x (x :: xt)) as (_ & _ & [E|E]); [rewrite E; left; reflexivity|exact E].
  - exists (Qlmax x (x :: xt)). split; [|exact H2].
    destruct (Qlmax_spec x (x :: xt)) as (_ & _ & [E|E]); [rewrite E; left; reflexivity|exact E].
Qed.
Lemma mono_b_sound qs : mono_b qs = true ->
  forall q1 st1 v1 q2 st2 v2, In (q1, st1, XFin v1) qs -> In (q2, st2, XFin v2) qs -> q1 <= q2 -> v1 <= v2.
Proof.
  intros H q1 st1 v1 q2 st2 v2 H1 H2 L. unfold mono_b in H. rewrite forallb_forall in H.
  specialize (H _ H1). cbn in H. rewrite forallb_forall in H. specialize (H _ H2). cbn in H.
  apply Qle_bool_iff in L. rewrite L in H. cbn in H. apply Qle_bool_iff. exact H.
Qed.
Lemma order_check_sound hasw xs sx qs : fst (order_check hasw xs sx qs) = None -> order_facts xs qs.
Proof.
  unfold order_check. cbv zeta.
  destruct (in_range_b xs qs) eqn:A; cbn [negb]; [|discriminate].
  destruct (mono_b qs) eqn:B; cbn [negb]; [|discriminate]. intros _.
  split; [exact (in_range_b_sound xs qs A)|exact (mono_b_sound qs B)].
Qed.

Lemma bracket_b_sound sx q v : fst (bracket_b sx q (XFin v)) = true -> bracket_ok sx q v.
Proof.
  unfold bracket_b, bracket_ok, near_break, bracket_lo, bracket_hi. cbv zeta. intros H Q0 Q1 K1 Kn.
  assert (A : Qle_bool q 0 = false) by (apply Qle_bool_false; exact Q0).
  assert (B : Qle_bool 1 q = false) by (apply Qle_bool_false; exact Q1).
  assert (C : (Qfloor (quantile_pos third_f (length sx) q) <=? 0)%Z = false) by (apply Z.leb_gt; lia).
  assert (D : (Z.of_nat (length sx) <=? Qfloor (quantile_pos third_f (length sx) q))%Z = false) by (apply Z.leb_gt; lia).
  rewrite A, B, C, D in H. cbn [orb] in H.
  set (k := Qfloor (quantile_pos third_f (length sx) q)) in *.
  set (brk := Qle_bool (quantile_pos third_f (length sx) q - inject_Z k) (1 # 1000000) ||
              Qle_bool (999999 # 1000000) (quantile_pos third_f (length sx) q - inject_Z k)) in *.
  set (il := if brk then Nat.pred (Z.to_nat (k - 1)) else Z.to_nat (k - 1)) in *.
  set (ih := Nat.min (if brk then Z.to_nat (k - 1) + 2 else Z.to_nat (k - 1) + 1)%nat (length sx - 1)%nat) in *.
  assert (Lil : (il < length sx)%nat) by (unfold il; destruct brk; lia).
  assert (Lih : (ih < length sx)%nat) by (unfold ih; destruct brk; lia).
  destruct (nth_error sx il) as [a|] eqn:Ea; [|apply nth_error_None in Ea; lia].
  destruct (nth_error sx ih) as [b|] eqn:Eb; [|apply nth_error_None in Eb; lia].
  cbn [fst] in H. apply andb_prop in H. destruct H as [H1 H2].
  apply Qle_bool_iff in H1. apply Qle_bool_iff in H2. exists a, b. auto.
Qed.
Lemma order_check_bracket xs sx qs : fst (order_check false xs sx qs) = None ->
  forall q st v, In (q, st, XFin v) qs -> bracket_ok sx q v.
Proof.
  unfold order_check. cbv zeta.
  destruct (in_range_b xs qs); cbn [negb]; [|discriminate].
  destruct (mono_b qs); cbn [negb]; [|discriminate].
  match goal with |- fst (if negb (forallb fst ?l) then _ else _) = None -> _ => destruct (forallb fst l) eqn:F end;
    cbn [negb]; [|discriminate].
  intros _ q st v Hin. rewrite forallb_forall in F. apply bracket_b_sound. apply F.
  apply in_map_iff. exists (q, st, XFin v). split; [reflexivity|exact Hin].
Qed.
Lemma csorted_unw_xs sorted xs ws : (sorted = true -> StronglySorted Qle xs) ->
  s_xs (csorted sorted false xs ws) = Qsort xs.
Proof.
  intro Hs. unfold csorted, csample. destruct sorted; [|reflexivity].
  cbn [s_xs]. symmetry. apply Qsort_id. apply Hs. reflexivity.
Qed.

Lemma iqr_ok_code s' xs ps W wex ist iv : iqr_ok s' xs ps W wex ist iv = true -> iqr_code s' xs ps W wex ist iv <> 2%Z.
Proof. unfold iqr_ok. intro H. apply Bool.negb_true_iff, Z.eqb_neq in H. exact H. Qed.

Lemma check_case_eq sorted hasw xs ws qs ist iv unm :
  check_case (sorted, hasw, xs, ws, qs, ist, iv, unm) =
  if (if hasw then negb (length ws =? length xs)%nat else negb (length ws =? 0)%nat) then (V_MALFORMED, 0%Z, (-1)%Z, []) else
  if sorted && negb (asc_b xs) then (V_MALFORMED, 0%Z, (-1)%Z, []) else
  let s' := csorted sorted hasw xs ws in
  let ps := cpairs s' in
  let W := wtotal ps in
  let wex := sums_exact (map snd ps) 0 in
  let base := Z.lor (if hasw then T_WEIGHTED else 0) (if sorted then T_SORTED else 0) in
  match run_qs (csample sorted hasw xs ws) s' ps W wex (tol_unw xs) qs 0%Z 0%Z 0%Z with
  | (code, tag, pos, diag) =>
      let oc := order_check hasw xs (s_xs s') qs in
      let tag' := match qs with [] => 0%Z | _ => Z.lor (Z.lor tag base) (snd oc) end in
      if (code =? 2)%Z then (V_MISMATCH, tag', pos, diag)
      else if match fst oc with Some _ => true | None => false end
           then (V_MISMATCH, tag', (-4)%Z, match fst oc with Some w => [10%Z; w] | None => [] end)
      else if negb (unm =? 1)%Z then (V_MISMATCH, tag', (-2)%Z, [9%Z])
      else if iqr_ok s' xs ps W wex ist iv then
        let ic := iqr_code s' xs ps W wex ist iv in
        (Z.max code ic, (if (ic =? 1)%Z && negb (tag' =? 0)%Z then Z.lor tag' T_BORDER else tag'), (-1)%Z, [])
      else (V_MISMATCH, tag', (-3)%Z, match iqr s' with RVal e => 1%Z :: qdiag e | RNaN => [0%Z] | RPanic => [2%Z] end)
  end.
Proof. reflexivity. Qed.

Lemma case_ok_mono v v' c : (v <= v')%Z -> case_ok v c -> case_ok v' c.
Proof.
  destruct c as [[[[[[[sorted hasw] xs] ws] qs] ist] iv] unm]. unfold case_ok.
  intros L (U & Hl & Hs & Ho & H). split; [exact U|]. split; [exact Hl|]. split; [exact Hs|]. split; [exact Ho|].
  destruct xs as [|x0 xt]; [exact H|]. destruct hasw; [|exact H].
  destruct H as (ps & P & S & F & I & X). exists ps.
  split; [exact P|]. split; [exact S|]. split; [exact F|]. split; [exact I|]. intro. apply X. lia.
Qed.

Theorem check_case_sound c v t p d : check_case c = (v, t, p, d) -> (v = 0 \/ v = 1)%Z -> case_ok v c.
Proof.
  destruct c as [[[[[[[sorted hasw] xs] ws] qs] ist] iv] unm]. rewrite check_case_eq. intros H Hv.
  assert (N3 : v <> V_MALFORMED) by (unfold V_MALFORMED; lia).
  assert (N2 : v <> V_MISMATCH) by (unfold V_MISMATCH; lia).
  destruct (if hasw then negb (length ws =? length xs)%nat else negb (length ws =? 0)%nat) eqn:HL; [injection H as <- _ _ _; congruence|].
  destruct (sorted && negb (asc_b xs)) eqn:HA; [injection H as <- _ _ _; congruence|].
  cbv zeta in H.
  destruct (run_qs _ _ _ _ _ _ qs 0%Z 0%Z 0%Z) as [[[code tag] pos] diag] eqn:R.
  destruct (code =? 2)%Z eqn:C2; [injection H as <- _ _ _; congruence|]. apply Z.eqb_neq in C2.
  destruct (fst (order_check hasw xs (s_xs (csorted sorted hasw xs ws)) qs)) as [w|] eqn:OC; [injection H as <- _ _ _; congruence|].
  pose proof OC as OCB. apply order_check_sound in OC.
  destruct (negb (unm =? 1)%Z) eqn:U; [injection H as <- _ _ _; congruence|].
  apply Bool.negb_false_iff, Z.eqb_eq in U.
  destruct (iqr_ok _ xs _ _ _ ist iv) eqn:I; [|injection H as <- _ _ _; congruence].
  apply iqr_ok_code in I.
  injection H as Ev _ _ _.
  destruct (run_qs_sound _ _ _ _ _ _ _ _ _ _ _ _ _ _ R C2) as [_ F].
  assert (Lc : (code <= v)%Z) by lia.
  assert (Hl : hasw = true -> length ws = length xs).
  { intros ->. apply Bool.negb_false_iff, Nat.eqb_eq in HL. exact HL. }
  assert (Hl0 : hasw = false -> ws = []).
  { intros ->. apply Bool.negb_false_iff, Nat.eqb_eq in HL. destruct ws; [reflexivity|discriminate]. }
  assert (Hs : sorted = true -> StronglySorted Qle xs).
  { intros ->. cbn in HA. apply Bool.negb_false_iff in HA. apply asc_b_sound. exact HA. }
  unfold case_ok. split; [exact U|]. split; [destruct hasw; auto|]. split; [exact Hs|]. split; [exact OC|].
  destruct xs as [|x0 xt] eqn:Exs.
  - (* empty sample *)
    assert (Ec : csample sorted hasw [] ws = csample sorted hasw [] [] /\ csorted sorted hasw [] ws = csorted sorted hasw [] []).
    { destruct hasw; [|split; reflexivity]. specialize (Hl eq_refl). destruct ws; [split; reflexivity|discriminate]. }
    destruct Ec as [Ec1 Ec2]. rewrite Ec1, Ec2 in F. rewrite Ec2 in I. split.
    + eapply Forall_impl; [|exact F]. intros [[q st] obs] [Hq _]. eapply check_q_empty. exact Hq.
    + eapply iqr_ok_empty. exact I.
  - rewrite <- Exs in *. assert (Hne : xs <> []) by (rewrite Exs; discriminate).
    destruct hasw.
    + specialize (Hl eq_refl).
      destruct (weighted_setup sorted xs ws Hl Hs) as (_ & _ & P & S & _).
      exists (cpairs (csorted sorted true xs ws)). split; [exact P|]. split; [exact S|]. split; [|split].
      * eapply Forall_impl; [|exact F]. intros [[q st] obs] [Hq _].
        exact (proj1 (check_q_w sorted xs ws _ q st obs Hne Hl Hs Hq)).
      * exact (proj1 (iqr_ok_w sorted xs ws _ ist iv Hne Hl Hs I)).
      * intro Hc. split.
        -- eapply Forall_impl; [|exact F]. intros [[q st] obs] [Hq Hle].
           apply (proj2 (check_q_w sorted xs ws _ q st obs Hne Hl Hs Hq)). cbv zeta in Hle. lia.
        -- apply (proj2 (iqr_ok_w sorted xs ws _ ist iv Hne Hl Hs I)). lia.
    + split; [|split].
      * eapply Forall_impl; [|exact F]. intros [[q st] obs] [Hq _].
        exact (check_q_unw sorted xs ws _ _ _ q st obs Hne Hs Hq).
      * exact (iqr_ok_unw sorted xs ws _ _ _ ist iv Hne Hs I).
      * rewrite (csorted_unw_xs sorted xs ws Hs) in OCB. exact (order_check_bracket xs (Qsort xs) qs OCB).
Qed.

Lemma run_steps_sound : forall cs i code tag v t p d,
  run_steps cs i code tag = (v, t, p, d) -> (v = 0 \/ v = 1)%Z ->
  (code <= v)%Z /\ Forall (case_ok v) cs.
Proof.
  induction cs as [|c rest IH]; intros i code tag v t p d R Hv.
  - cbn in R. injection R as <- _ _ _. split; [lia|constructor].
  - cbn [run_steps] in R. destruct (check_case c) as [[[v0 t0] p0] d0] eqn:E.
    destruct ((v0 =? 0)%Z || (v0 =? 1)%Z) eqn:A.
    + destruct (IH _ _ _ _ _ _ _ R Hv) as [L F]. split; [lia|]. constructor; [|exact F].
      apply (case_ok_mono v0 v); [lia|]. apply (check_case_sound c v0 t0 p0 d0 E).
      apply Bool.orb_true_iff in A. destruct A as [A|A]; apply Z.eqb_eq in A; auto.
    + injection R as <- _ _ _. apply Bool.orb_false_iff in A. destruct A as [A1 A2].
      apply Z.eqb_neq in A1, A2. lia.
Qed.

(* THE THEOREM: an accepted line (plain: one step; history: every step) *)
Theorem check_ok_sound line c tag pos diag hist cases :
  check_C10 line = verdict c tag pos diag -> (c = 0 \/ c = 1)%Z ->
  p_line line = Some ((hist, cases), []) -> Forall (case_ok c) cases.
Proof.
  intros H Hc Hp. unfold check_C10 in H. rewrite Hp in H.
  assert (N3 : c <> V_MALFORMED) by (unfold V_MALFORMED; lia).
  destruct hist.
  - destruct cases as [|c0 rest]; [constructor|].
    destruct (run_steps (c0 :: rest) 0%Z 0%Z T_HISTORY) as [[[v t] p] d] eqn:R.
    apply verdict_inj in H. destruct H as (-> & _). exact (proj2 (run_steps_sound _ _ _ _ _ _ _ _ R Hc)).
  - destruct cases as [|c0 [|c1 rest]].
    + apply verdict_inj in H. destruct H as (<- & _). congruence.
    + destruct (check_case c0) as [[[v t] p] d] eqn:E.
      apply verdict_inj in H. destruct H as (-> & _). constructor; [|constructor].
      exact (check_case_sound _ _ _ _ _ E Hc).
    + apply verdict_inj in H. destruct H as (<- & _). congruence.
Qed.

(* what the exact order facts give for a constant sample: the only admissible result is that constant *)
Theorem order_facts_constant xs qs c : order_facts xs qs -> xs <> [] -> Forall (fun x => x == c) xs ->
  forall q st v, In (q, st, XFin v) qs -> v == c.
Proof.
  intros [R _] Hne Hc q st v Hin. destruct (R q st v Hin Hne) as [(a & Ha & La) (b & Hb & Lb)].
  rewrite Forall_forall in Hc. pose proof (Hc a Ha) as Ea. pose proof (Hc b Hb) as Eb. lra.
Qed.
Theorem case_ok_order code sorted hasw xs ws qs ist iv unm :
  case_ok code (sorted, hasw, xs, ws, qs, ist, iv, unm) -> order_facts xs qs.
Proof. unfold case_ok. tauto. Qed.

(* ---------- what the bracket gives ---------- *)
Theorem case_ok_bracket code sorted xs ws qs ist iv unm :
  case_ok code (sorted, false, xs, ws, qs, ist, iv, unm) -> xs <> [] -> bracket_facts xs qs.
Proof. unfold case_ok. destruct xs; [congruence|]. tauto. Qed.

(* equal ends of the bracket: the only admissible result is that value *)
Theorem bracket_equal_ends sx q v : bracket_ok sx q v ->
  let n := length sx in
  let h := quantile_pos third_f n q in
  let k := Qfloor h in
  0 < q -> q < 1 -> (1 <= k)%Z -> (k < Z.of_nat n)%Z ->
  forall a b, nth_error sx (bracket_lo (near_break (h - inject_Z k)) (Z.to_nat (k - 1))) = Some a ->
              nth_error sx (bracket_hi (near_break (h - inject_Z k)) (Z.to_nat (k - 1)) n) = Some b ->
              a == b -> v == a.
Proof.
  unfold bracket_ok. cbv zeta. intros H Q0 Q1 K1 Kn a b Ea Eb E.
  destruct (H Q0 Q1 K1 Kn) as (a' & b' & Ea' & Eb' & L1 & L2).
  rewrite Ea in Ea'. rewrite Eb in Eb'. injection Ea' as <-. injection Eb' as <-. lra.
Qed.
(* away from the break points: between two EQUAL adjacent order statistics x_(k) == x_(k+1) the result is exactly that value *)
Theorem bracket_equal_neighbours sx q v : bracket_ok sx q v ->
  let n := length sx in
  let h := quantile_pos third_f n q in
  let k := Qfloor h in
  0 < q -> q < 1 -> (1 <= k)%Z -> (k < Z.of_nat n)%Z -> near_break (h - inject_Z k) = false ->
  forall a b, nth_error sx (Z.to_nat (k - 1)) = Some a -> nth_error sx (Z.to_nat k) = Some b -> a == b -> v == a.
Proof.
  cbv zeta. intros H Q0 Q1 K1 Kn NB a b Ea Eb E.
  apply (bracket_equal_ends sx q v H Q0 Q1 K1 Kn a b); [| |exact E]; rewrite NB; unfold bracket_lo, bracket_hi; [exact Ea|].
  replace (Nat.min (Z.to_nat (Qfloor (quantile_pos third_f (length sx) q) - 1) + 1) (length sx - 1))%nat
    with (Z.to_nat (Qfloor (quantile_pos third_f (length sx) q))) by lia.
  exact Eb.
Qed.

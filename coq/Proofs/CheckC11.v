(* Proofs/CheckC11.v — (group hJ) what an accepted verdict (code 0 or 1) of check_C11 means.
   op 0 (n <= 30): the line parses completely into (n, q, items); for EVERY item (c, observation):
     N = n, Quantile = q (same bits), 0 <= LoOrder < HiOrder <= n+1; for c >= 1 the whole range with Confidence 1,
     Ambiguous unset; for c < 1 the observed Confidence is within 1e-10 of the exact Binomial(n,q) mass m of the
     buckets LoOrder..HiOrder-1, the interval contains a start candidate (the lower mode), the accumulation
     could stop there (no mass next to the interval, or m >= c, or m within the window of c), at least one end
     bucket was needed (m minus one end bucket is < c or within the window of c), and if Ambiguous is set the
     interval shifted up by one has mass m + P(hi) - P(lo) with P(lo) == P(hi) or within the window.
     "Within the window" = relative distance <= 2^-40, and NEVER in the float-exact regime (exact_regime n q),
     where the clauses are the exact ones of the property.
   op 1 (n > 30): see [normal_ok];  op 2 (SampleCI): see [sample_ok].
   Everything over Z/Q/lists, closed under the global context. *)
From MM Require Import Base.Num Base.GFSum Model.Choose Model.Binom Model.QuantileCI Check.C06 Check.C11
  Proofs.Binom Proofs.QuantileCI Proofs.QuantileCISet Proofs.QuantileCIScale Proofs.QuantileCISetScale
  Proofs.QuantileCIGraph Proofs.QuantileCIMembers Proofs.C06Table Proofs.CheckBase.
From Coq Require Import Qround Lia Lqa Qabs Sorted Permutation.
Local Open Scope Q_scope.

(* ====================================================================== *)
(* op 0: n <= 30                                                            *)
(* ====================================================================== *)
Definition in_window (exact : bool) (a b : Q) : Prop :=
  exact = false /\ ieps_border * Qabs (a - b) <= Qmaxb (Qabs a) (Qabs b).

(* the clauses for one level c < 1 *)
Definition small_clauses (n : Z) (q : Q) (exact : bool) (c : Q) (o : qobs) : Prop :=
  let P := binom_pmf_i n q in
  exists cf, o_conf o = XFin cf /\
     let m := Qsum_range P (o_lo o) (o_hi o - 1) in
     Qabs (cf - m) <= tol_conf /\
     (* "at least c" on the observed float itself, unless neither neighbour bucket has mass >= 2^-999 *)
     (c <= cf \/ (inject_Z (2 ^ 999) * P (o_lo o - 1)%Z < 1 /\ inject_Z (2 ^ 999) * P (o_hi o) < 1)) /\
     (exists x, In x (mode_candidates n q exact) /\ (o_lo o <= x < o_hi o)%Z) /\
     ((P (o_lo o - 1)%Z == 0 /\ P (o_hi o) == 0) \/ c <= m \/ in_window exact m c) /\
     ((2 <= o_hi o - o_lo o)%Z ->
        exists a, (a == m - P (o_lo o) \/ a == m - P (o_hi o - 1)%Z) /\ (a < c \/ in_window exact a c)) /\
     (o_amb o = true ->
        Qsum_range P (o_lo o + 1) (o_hi o) - m == P (o_hi o) - P (o_lo o) /\
        (P (o_lo o) == P (o_hi o) \/ in_window exact (P (o_lo o)) (P (o_hi o)) \/
         in_window exact (P (o_hi o)) (P (o_lo o)))).

Definition small_item_ok (n : Z) (qb : Z) (q : Q) (exact : bool) (co : Q * qobs) : Prop :=
  let '(c, o) := co in
  o_n o = n /\ o_qbits o = qb /\ (0 <= o_lo o)%Z /\ (o_lo o < o_hi o)%Z /\ (o_hi o <= n + 1)%Z /\
  (1 <= c -> o_lo o = 0%Z /\ o_hi o = (n + 1)%Z /\ o_amb o = false /\ exists v, o_conf o = XFin v /\ v == 1) /\
  (c < 1 -> small_clauses n q exact c o).

Lemma near_window : forall (exact : bool) a b,
  near (if exact then 0 else ieps_border) a b = true -> in_window exact a b.
Proof.
  intros [|] a b H.
  - rewrite nearp_off in H. discriminate.
  - split; [reflexivity|]. apply nearp_reads in H; [tauto | unfold ieps_border; discriminate].
Qed.

Lemma Forall2_in_r {A B} (R : A -> B -> Prop) l l' y : Forall2 R l l' -> In y l' -> exists x, In x l /\ R x y.
Proof.
  induction 1 as [|a b l l' Hab _ IH]; intros Hy; [destruct Hy|].
  destruct Hy as [<-|Hy]; [exists a; split; [left; reflexivity | exact Hab]|].
  destruct (IH Hy) as (x & Hx & Rx). exists x. split; [right; exact Hx | exact Rx].
Qed.

Lemma mode_candidates_range : forall (n : nat) q exact, 0 <= q <= 1 ->
  forall x, In x (mode_candidates (Z.of_nat n) q exact) -> (0 <= x <= Z.of_nat n)%Z.
Proof.
  intros n q exact Hq x Hx. unfold mode_candidates in Hx. pose proof (mode_x_range n q Hq) as Hr.
  destruct (exact || Qeq_bool q 0); [destruct Hx as [<-|[]]; exact Hr|].
  match type of Hx with In _ (if ?b then _ else _) => destruct b end; [|destruct Hx as [<-|[]]; exact Hr].
  apply filter_In in Hx as [_ Hx]. apply andb_prop in Hx as [H1 H2].
  apply Z.leb_le in H1. apply Z.leb_le in H2. lia.
Qed.

Lemma scaled_pmf_den : forall n ws k, Qden (scaled_pmf n ws k) = 1%positive.
Proof.
  intros. unfold scaled_pmf. destruct ((k <? 0)%Z || (n <? k)%Z); [reflexivity|].
  destruct (nth_error ws (Z.to_nat k)); reflexivity.
Qed.

Section Item.
Variable n : nat.
Variable q : Q.
Hypothesis Hq : 0 <= q <= 1.
Variable e : Z.
Hypothesis He : (0 <= e)%Z.
Hypothesis Hd : Zpos (Qden q) = Z.shiftl 1 e.
Variable exact : bool.
Let N := Z.of_nat n.
Let d := Zpos (Qden q).
Let Pq := binom_pmf_i N q.
Let Pw := scaled_pmf N (binom_weights N (Qnum q) (d - Qnum q)).
Let eps := if exact then 0 else ieps_border.
Let D := inject_Z (d ^ N).

Lemma HD : 0 < D.
Proof. unfold D. change 0 with (inject_Z 0). rewrite <- Zlt_Qlt. apply Z.pow_pos_nonneg; unfold d, N; lia. Qed.
Lemma Heps : eps == 0 \/ 1 < eps.
Proof. unfold eps. destruct exact; [left; reflexivity | right; unfold ieps_border; reflexivity]. Qed.

Lemma Pw_scaled : forall k, Pw k == D * Pq k.
Proof. intros k. apply scaled_pmf_is_scaled. exact Hq. Qed.

Lemma D_pow2 : (d ^ N = 2 ^ (e * N))%Z.
Proof.
  unfold d. rewrite Hd, Z.shiftl_1_l. rewrite <- Z.pow_mul_r by (unfold N; lia). reflexivity.
Qed.

Lemma negligible_sound : forall k, negligible (e * N) (Pw k) = true -> inject_Z (2 ^ 999) * Pq k < 1.
Proof.
  intros k H. pose proof HD as HD'. pose proof (Pw_scaled k) as Ew.
  assert (Hden : Qden (Pw k) = 1%positive) by apply scaled_pmf_den.
  assert (Ez : Pw k == inject_Z (Qnum (Pw k))).
  { destruct (Pw k) as [a b]. simpl in Hden. subst b. reflexivity. }
  assert (H0 : 0 <= Pq k) by (apply binom_pmf_nonneg; exact Hq).
  apply (Qmult_lt_l _ _ D HD'). rewrite Qmult_1_r.
  setoid_replace (D * (inject_Z (2 ^ 999) * Pq k)) with (inject_Z (2 ^ 999) * Pw k) by (rewrite Ew; ring).
  unfold negligible in H. apply orb_prop in H as [H|H].
  - apply Qle_bool_iff in H. assert (E0 : Pw k == 0).
    { assert (0 <= Pw k) by (rewrite Ew; apply Qmult_le_0_compat; lra). lra. }
    rewrite E0. lra.
  - apply Z.leb_le in H. rewrite Ez. unfold D. rewrite D_pow2. rewrite <- inject_Z_mult. rewrite <- Zlt_Qlt.
    set (z := Qnum (Pw k)) in *.
    destruct (Z_le_gt_dec z 0) as [Hz|Hz].
    + assert (0 < 2 ^ (e * N))%Z by (apply Z.pow_pos_nonneg; unfold N; lia).
      assert (0 < 2 ^ 999)%Z by (apply Z.pow_pos_nonneg; lia). nia.
    + destruct (Z.log2_spec z ltac:(lia)) as [_ Hs].
      assert (Hl : (0 <= Z.log2 z)%Z) by apply Z.log2_nonneg.
      assert (Hp : (2 ^ 999 * 2 ^ Z.succ (Z.log2 z) <= 2 ^ (e * N))%Z).
      { rewrite <- Z.pow_add_r by lia. apply Z.pow_le_mono_r; lia. }
      assert (0 < 2 ^ 999)%Z by (apply Z.pow_pos_nonneg; lia). nia.
Qed.

Lemma small_item_sound : forall c o g',
  qci_graph Pw eps N (mode_candidates N q exact) = Some g' ->
  existsb (match_small (e * N) o) (small_outs Pw N g' e exact c) = true ->
  conf_ge_c Pw (e * N) c o = true ->
  small_clauses N q exact c o.
Proof.
  intros c o g' Hg' Hex Hge. apply existsb_exists in Hex as (r' & Hr' & Hm).
  pose proof HD as HD'. pose proof Heps as Heps'.
  (* the member on the integer masses: integrality *)
  assert (HP0w : forall k, 0 <= Pw k).
  { intros k. rewrite Pw_scaled. apply Qmult_le_0_compat; [lra | apply binom_pmf_nonneg; exact Hq]. }
  assert (Houtw : forall k, (k < 0 \/ N < k)%Z -> Pw k == 0).
  { intros k Hk. rewrite Pw_scaled. unfold Pq, N. rewrite (binom_out n q k Hk). ring. }
  assert (HN : (0 <= N)%Z) by (unfold N; lia).
  pose proof (mode_candidates_range n q exact Hq) as Hxs. fold N in Hxs.
  unfold small_outs in Hr'. fold eps in Hr'.
  pose proof (set_members_spec Pw eps N HP0w Houtw Heps _ _ _ Hxs g' r' Hg' Hr') as Mw.
  destruct Mw as (_ & _ & _ & _ & _ & _ & _ & _ & Hint).
  specialize (Hint (fun k => scaled_pmf_den _ _ k)).
  (* the corresponding member of the rational set *)
  pose proof (comparator_outs_are_rational_set n q Hq e exact c He Hd) as HF. cbv zeta in HF.
  fold N d Pq Pw eps in HF. rewrite Hg' in HF.
  destruct (qci_graph Pq eps N (mode_candidates N q exact)) as [g|] eqn:Hg; [|destruct HF].
  destruct (Forall2_in_r _ _ _ _ HF Hr') as (r & Hr & (Elo & Ehi & Eamb & Econf)).
  assert (HP0q : forall k, 0 <= Pq k) by (intros k; apply binom_pmf_nonneg; exact Hq).
  assert (Houtq : forall k, (k < 0 \/ N < k)%Z -> Pq k == 0) by (intros k Hk; apply binom_out; exact Hk).
  pose proof (set_members_spec Pq eps N HP0q Houtq Heps 1 c _ Hxs g r Hg Hr)
    as (B0 & W & B1 & A & X & Hstop & Hend & Hamb & _).
  (* the observation *)
  unfold match_small in Hm. apply andb_prop in Hm as [Hm Hc]. apply andb_prop in Hm as [Hm Ha].
  apply andb_prop in Hm as [Hl Hh]. apply Z.eqb_eq in Hl. apply Z.eqb_eq in Hh. apply Bool.eqb_prop in Ha.
  unfold small_clauses.
  destruct (o_conf o) as [| |cf] eqn:Eo; try discriminate.
  rewrite <- Hl, <- Hh, <- Ha, Elo, Ehi, Eamb.
  exists cf. split; [reflexivity|]. cbv zeta. fold Pq.
  assert (A1 : 1 * r_conf r == Qsum_range Pq (r_lo r) (r_hi r - 1)) by (rewrite <- A; ring).
  split; [|split; [|split; [exact X|split; [|split]]]].
  2: { (* at least c, on the float *)
    unfold conf_ge_c in Hge. rewrite Eo in Hge. rewrite <- Hl, <- Hh in Hge. rewrite Elo, Ehi in Hge.
    destruct (Qle_bool c cf) eqn:Ec; [left; apply Qle_bool_iff; exact Ec|]. right.
    apply andb_prop in Hge as [G1 G2]. split; apply negligible_sound; assumption. }
  - (* Confidence *)
    apply (dwithin_exact tol_conf (Qnum (r_conf r')) 1 (e * N) cf) in Hc; [|lia | unfold N; lia].
    assert (E : (Qnum (r_conf r') # Z.to_pos (1 * 2 ^ (e * N))) == r_conf r).
    { assert (E1 : r_conf r' == inject_Z (Qnum (r_conf r'))).
      { destruct (r_conf r') as [a b]. simpl in Hint. subst b. unfold inject_Z. reflexivity. }
      rewrite Qmake_Qdiv. rewrite Z.mul_1_l.
      assert (Hp : (0 < 2 ^ (e * N))%Z) by (apply Z.pow_pos_nonneg; unfold N; lia).
      rewrite Z2Pos.id by exact Hp. rewrite <- D_pow2. fold D.
      rewrite <- E1, Econf. unfold D in *. rewrite (Qmult_comm (inject_Z (d ^ N))). apply Qdiv_mult_l. lra. }
    rewrite E in Hc. rewrite <- A. exact Hc.
  - (* may stop *)
    destruct Hstop as [H|[H|H]]; [left; exact H | right; left | right; right].
    + rewrite <- A1. exact H.
    + apply near_window. unfold nearp in H. fold eps.
      rewrite <- (near_comp eps _ _ c c ltac:(destruct Heps'; lra) A1 (Qeq_refl c)). exact H.
  - (* end bucket needed *)
    intros Hw. destruct (Hend Hw) as (a & Ea & Hgo). exists a. split; [rewrite <- A; exact Ea|].
    destruct Hgo as [H|H]; [left; rewrite Qmult_1_l in H; exact H | right].
    apply near_window. unfold nearp in H. fold eps.
    rewrite <- (near_comp eps (1 * a) a c c ltac:(destruct Heps'; lra) ltac:(ring) (Qeq_refl c)). exact H.
  - (* Ambiguous *)
    intros Hb. destruct (Hamb Hb) as [S1 S2]. split; [rewrite <- A; exact S1|].
    destruct S2 as [H|[H|H]]; [left; exact H | right; left; apply near_window; exact H | right; right; apply near_window; exact H].
Qed.
End Item.

(* ---------- reading check_small_item and run_small ---------- *)
Lemma orders_ok_sound : forall n o, orders_ok n o = true -> (0 <= o_lo o)%Z /\ (o_lo o < o_hi o)%Z /\ (o_hi o <= n + 1)%Z.
Proof.
  intros n o H. unfold orders_ok in H. apply andb_prop in H as [H H3]. apply andb_prop in H as [H1 H2].
  apply Z.leb_le in H1. apply Z.ltb_lt in H2. apply Z.leb_le in H3. auto.
Qed.
Lemma is_full_sound : forall n o, is_full n o = true ->
  o_lo o = 0%Z /\ o_hi o = (n + 1)%Z /\ o_amb o = false /\ exists v, o_conf o = XFin v /\ v == 1.
Proof.
  intros n o H. unfold is_full in H. apply andb_prop in H as [H H4]. apply andb_prop in H as [H H3].
  apply andb_prop in H as [H1 H2]. apply Z.eqb_eq in H1. apply Z.eqb_eq in H2.
  apply Bool.negb_true_iff in H3. apply xeq_fin in H4. auto.
Qed.

Definition code_ok (code : Z) : Prop := code = 0%Z \/ code = 1%Z.

Lemma check_small_item_inv : forall P n x qb g e exact c o code t dg,
  check_small_item P n x qb g e exact c o = (code, t, dg) -> code_ok code ->
  o_n o = n /\ o_qbits o = qb /\ orders_ok n o = true /\
  (if Qle_bool 1 c then is_full n o = true
   else existsb (match_small (e * n) o) (small_outs P n g e exact c) = true /\ conf_ge_c P (e * n) c o = true).
Proof.
  intros P n x qb g e exact c o code t dg H Hc. unfold check_small_item in H. unfold code_ok in Hc.
  destruct ((o_n o =? n)%Z && (o_qbits o =? qb)%Z) eqn:E1; cbn [negb] in H;
    [|injection H as <- _ _; unfold V_MISMATCH in Hc; lia].
  apply andb_prop in E1 as [E1 E1']. apply Z.eqb_eq in E1. apply Z.eqb_eq in E1'.
  destruct (orders_ok n o) eqn:E2; cbn [negb] in H; [|injection H as <- _ _; unfold V_MISMATCH in Hc; lia].
  split; [exact E1|]. split; [exact E1'|]. split; [reflexivity|].
  destruct (Qle_bool 1 c) eqn:E3.
  - destruct (is_full n o); [reflexivity | injection H as <- _ _; unfold V_MISMATCH in Hc; lia].
  - cbv zeta in H.
    match type of H with (if negb ?b then _ else _) = _ => destruct b end; cbn [negb] in H;
      [|injection H as <- _ _; unfold V_MALFORMED in Hc; lia].
    match type of H with (if ?b then _ else _) = _ => destruct b eqn:E5 end;
      [|injection H as <- _ _; unfold V_MISMATCH in Hc; lia].
    split; [reflexivity|].
    destruct (conf_ge_c P (e * n) c o); [reflexivity | injection H as <- _ _; unfold V_MISMATCH in Hc; lia].
Qed.

Lemma run_small_inv : forall P n x qb g e exact items idx tag border,
  accepted (run_small P n x qb g e exact items idx tag border) ->
  Forall (fun co : Q * qobs => exists code t dg,
            check_small_item P n x qb g e exact (fst co) (snd co) = (code, t, dg) /\ code_ok code) items.
Proof.
  intros P n x qb g e exact. induction items as [|[c o] items IH]; intros idx tag border H; [constructor|].
  cbn [run_small] in H. destruct (check_small_item P n x qb g e exact c o) as [[code t] dg] eqn:E.
  destruct ((code =? V_OK)%Z || (code =? V_BORDERLINE)%Z) eqn:K.
  - constructor; [|eapply IH; exact H]. exists code, t, dg. split; [exact E|].
    apply orb_prop in K as [K|K]; apply Z.eqb_eq in K; [left | right]; exact K.
  - apply accepted_verdict in H. exfalso. apply Bool.orb_false_iff in K as [K1 K2].
    apply Z.eqb_neq in K1. apply Z.eqb_neq in K2. unfold V_OK, V_BORDERLINE in *. lia.
Qed.

(* ---------- nesting, on the observations of one line ---------- *)
Definition nest_in (a b : Q * qobs) : Prop := (o_lo (snd b) <= o_lo (snd a))%Z /\ (o_hi (snd a) <= o_hi (snd b))%Z.
Definition same_iv (a b : Q * qobs) : Prop := o_lo (snd a) = o_lo (snd b) /\ o_hi (snd a) = o_hi (snd b).
Definition nest_rel (a b : Q * qobs) : Prop := nest_in a b /\ (fst b <= fst a -> same_iv a b).

Lemma nested_chain_head : forall t a, nested_chain (a :: t) = true ->
  StronglySorted (fun x y => fst x <= fst y) (a :: t) -> Forall (nest_rel a) t.
Proof.
  induction t as [|b t IH]; intros a H S; [constructor|].
  cbn [nested_chain] in H. apply andb_prop in H as [H Hc]. apply andb_prop in H as [H H3].
  apply andb_prop in H as [H1 H2]. apply Z.leb_le in H1. apply Z.leb_le in H2.
  inversion S as [|? ? St Fa]; subst. inversion Fa as [|? ? Hab Fat]; subst.
  assert (Rab : nest_rel a b).
  { split; [split; assumption|]. intros Hba.
    apply orb_prop in H3 as [H3|H3].
    - apply Bool.negb_true_iff in H3. apply Qle_bool_false in H3. lra.
    - apply andb_prop in H3 as [E1 E2]. apply Z.eqb_eq in E1. apply Z.eqb_eq in E2. split; assumption. }
  constructor; [exact Rab|].
  specialize (IH b Hc St). rewrite Forall_forall in IH, Fat |- *. intros y Hy.
  destruct (IH y Hy) as [[N1 N2] Sy]. destruct Rab as [[M1 M2] Sb].
  inversion St as [|? ? _ Fbt]; subst. rewrite Forall_forall in Fbt. pose proof (Fbt y Hy) as Hby.
  split; [split; lia|]. intros Hya.
  destruct (Sb ltac:(lra)) as [X1 X2]. destruct (Sy ltac:(lra)) as [Y1 Y2]. split; congruence.
Qed.

Lemma nested_chain_pairs : forall s, nested_chain s = true ->
  StronglySorted (fun x y => fst x <= fst y) s -> ForallOrdPairs nest_rel s.
Proof.
  induction s as [|a t IH]; intros H S; [constructor|].
  constructor; [apply nested_chain_head; assumption|].
  apply IH; [|inversion S; assumption].
  destruct t as [|b t']; [reflexivity|]. cbn [nested_chain] in H. apply andb_prop in H as [_ H]. exact H.
Qed.

Lemma StronglySorted_weaken {A} (R R' : A -> A -> Prop) : (forall x y, R x y -> R' x y) ->
  forall l, StronglySorted R l -> StronglySorted R' l.
Proof.
  intros HR. induction 1 as [|a l S IH F]; constructor; [exact IH|].
  rewrite Forall_forall in F |- *. intros y Hy. apply HR. apply F. exact Hy.
Qed.

Lemma nested_ok_sound : forall items, nested_ok items = true ->
  forall a b, In a items -> In b items -> fst a <= fst b -> nest_in a b.
Proof.
  intros items H a b Ha Hb Hab. unfold nested_ok in H.
  pose proof (ItemSort.Permuted_sort items) as Pm.
  assert (S : StronglySorted (fun x y => fst x <= fst y) (ItemSort.sort items)).
  { assert (T : Transitive (fun x y : Q * qobs => is_true (ItemOrder.leb x y))).
    { intros x y z. unfold ItemOrder.leb, is_true. rewrite !Qle_bool_iff. apply Qle_trans. }
    pose proof (ItemSort.StronglySorted_sort items T) as S0.
    eapply StronglySorted_weaken; [|exact S0].
    intros x y Hxy. unfold ItemOrder.leb, is_true in Hxy. apply Qle_bool_iff in Hxy. exact Hxy. }
  pose proof (nested_chain_pairs _ H S) as FP.
  assert (Ha' : In a (ItemSort.sort items)) by (eapply Permutation_in; eassumption).
  assert (Hb' : In b (ItemSort.sort items)) by (eapply Permutation_in; eassumption).
  destruct (ForallOrdPairs_In FP a b Ha' Hb') as [E|[R|R]].
  - subst b. split; lia.
  - destruct R as [N _]. exact N.
  - destruct R as [[N1 N2] Sm]. destruct (Sm Hab) as [E1 E2]. split; lia.
Qed.

(* the parser of an op-0 line (the same term as in check_C11) *)
Definition p_op0 : parser (Z * Z * list (Q * qobs)) :=
  do n <- pZ; do qb <- pZ; do items <- plist (do c <- pQ; do o <- p_qobs; pret (c, o)); pend (n, qb, items).

Lemma p_op0_complete : forall rest v r, p_op0 rest = Some (v, r) -> r = [].
Proof.
  intros rest v r H. unfold p_op0 in H.
  apply pbind_some in H as (n & r1 & _ & H). apply pbind_some in H as (qb & r2 & _ & H).
  apply pbind_some in H as (items & r3 & _ & H). apply pend_some in H as (_ & _ & ->). reflexivity.
Qed.

Theorem check_C11_op0_sound : forall rest, accepted (check_C11 (11%Z :: 0%Z :: rest)) ->
  exists n qb items q,
    p_op0 rest = Some ((n, qb, items), []) /\ decode_bits qb = XFin q /\
    (1 <= n <= 30)%Z /\ 0 <= q <= 1 /\
    Forall (small_item_ok n qb q (exact_regime n q)) items /\
    (forall a b, In a items -> In b items -> fst a <= fst b -> nest_in a b).
Proof.
  intros rest H. cbn [check_C11] in H.
  change (do n <- pZ; do qb <- pZ; do items <- plist (do c <- pQ; do o <- p_qobs; pret (c, o)); pend (n, qb, items))
    with p_op0 in H.
  destruct (p_op0 rest) as [[[[n qb] items] r]|] eqn:EP; [|apply accepted_verdict in H; unfold V_MALFORMED in H; lia].
  pose proof (p_op0_complete _ _ _ EP) as ->.
  destruct (decode_bits qb) as [| |q] eqn:Eq; try (apply accepted_verdict in H; unfold V_MALFORMED in H; lia).
  destruct ((n <? 1)%Z || (qci_threshold <? n)%Z || Qltb q 0 || Qltb 1 q) eqn:G;
    [apply accepted_verdict in H; unfold V_MALFORMED in H; lia|].
  apply Bool.orb_false_iff in G as [G G4]. apply Bool.orb_false_iff in G as [G G3].
  apply Bool.orb_false_iff in G as [G1 G2].
  apply Z.ltb_ge in G1. apply Z.ltb_ge in G2. unfold qci_threshold in G2.
  apply Qltb_false in G3. apply Qltb_false in G4.
  cbv zeta in H.
  destruct (Zpos (Qden q) =? Z.shiftl 1 (Z.log2 (Zpos (Qden q))))%Z eqn:Gd; cbn [negb] in H;
    [|apply accepted_verdict in H; unfold V_MALFORMED in H; lia].
  apply Z.eqb_eq in Gd.
  match type of H with accepted (match ?t with Some _ => _ | None => _ end) => destruct t as [g|] eqn:Hg end;
    [|apply accepted_verdict in H; unfold V_MALFORMED in H; lia].
  destruct (nested_ok items) eqn:Hnest; cbn [negb] in H; [|apply accepted_verdict in H; unfold V_MISMATCH in H; lia].
  exists n, qb, items, q. split; [reflexivity|]. split; [exact Eq|]. split; [lia|]. split; [split; assumption|].
  split; [|apply nested_ok_sound; exact Hnest].
  apply run_small_inv in H. eapply Forall_impl; [|exact H].
  intros [c o] (code & t & dg & E & Hc). cbn [fst snd] in E.
  apply check_small_item_inv in E; [|exact Hc]. destruct E as (E1 & E2 & E3 & E4).
  apply orders_ok_sound in E3 as (O1 & O2 & O3).
  unfold small_item_ok. split; [exact E1|]. split; [exact E2|]. split; [exact O1|]. split; [exact O2|]. split; [exact O3|].
  destruct (Qle_bool 1 c) eqn:E5.
  - apply Qle_bool_iff in E5. split; [intros _; apply is_full_sound; exact E4 | intros; lra].
  - apply Qle_bool_false in E5. split; [intros; lra|]. intros _.
    assert (En : Z.of_nat (Z.to_nat n) = n) by (apply Z2Nat.id; lia).
    pose proof (small_item_sound (Z.to_nat n) q (conj G3 G4) (Z.log2 (Zpos (Qden q))) (Z.log2_nonneg _) Gd
                  (exact_regime n q) c o g) as S.
    rewrite En in S. destruct E4 as [E4 E4']. apply S; [exact Hg | exact E4 | exact E4'].
Qed.

(* ====================================================================== *)
(* op 2: SampleCI                                                           *)
(* ====================================================================== *)
Fixpoint dec_all (l : list Z) : option (list Q) :=
  match l with
  | [] => Some []
  | b :: t => match decode_bits b, dec_all t with XFin x, Some r => Some (x :: r) | _, _ => None end
  end.

Definition c11_sample_case : Type :=
  (Z * Z * Z * Z * (bool * bool * Z) * (list Z * list Z) * (Z * xreal * xreal * Z))%type.
Definition p_op2 : parser c11_sample_case :=
  do N <- pZ; do lo <- pZ; do hi <- pZ; do qb <- pZ; do w <- pbool; do sf <- pbool; do st <- pZ;
  do xb <- plist pZ; do xa <- plist pZ; do qret <- pZ; do loret <- pX; do hiret <- pX; do qref <- pZ;
  pend (N, lo, hi, qb, (w, sf, st), (xb, xa), (qret, loret, hiret, qref)).

(* observed value = expected value (finite values as rationals) *)
Definition xsame (e o : xreal) : Prop :=
  match e with
  | XFin q => exists v, o = XFin v /\ v == q
  | XInf s => o = XInf s
  | XNaN => o = XNaN
  end.
Lemma xeq_xsame : forall e o, xeq e o = true -> xsame e o.
Proof. intros [|s|q] o H; cbn; [apply xeq_nan | apply xeq_inf | apply xeq_fin]; exact H. Qed.

(* [xb] = the sample's bit patterns before the call, [xa] after; st 0 returned / 2 panicked;
   qret = first result, qref = Quantile(q) of a sorted copy (both as bit patterns) *)
Definition sample_ok (c : c11_sample_case) : Prop :=
  let '(N, lo, hi, qb, (w, sf, st), (xb, xa), (qret, loret, hiret, qref)) := c in
  exists xs, dec_all xb = Some xs /\ xa = xb /\
    match sample_ci N lo hi w sf xs with
    | SciPanic => st = 2%Z
    | SciOk elo ehi _ => st = 0%Z /\ xsame elo loret /\ xsame ehi hiret /\ qret = qref
    end.

Lemma p_op2_complete : forall rest v r, p_op2 rest = Some (v, r) -> r = [].
Proof.
  intros rest v r H. unfold p_op2 in H.
  repeat (apply pbind_some in H as (? & ? & _ & H)). apply pend_some in H as (_ & _ & ->). reflexivity.
Qed.

Theorem check_C11_op2_sound : forall rest, accepted (check_C11 (11%Z :: 2%Z :: rest)) ->
  exists c, p_op2 rest = Some (c, []) /\ sample_ok c.
Proof.
  intros rest H. cbn [check_C11] in H.
  change (do N <- pZ; do lo <- pZ; do hi <- pZ; do qb <- pZ; do w <- pbool; do sf <- pbool; do st <- pZ;
          do xb <- plist pZ; do xa <- plist pZ; do qret <- pZ; do loret <- pX; do hiret <- pX; do qref <- pZ;
          pend (N, lo, hi, qb, (w, sf, st), (xb, xa), (qret, loret, hiret, qref))) with p_op2 in H.
  destruct (p_op2 rest) as [[c r]|] eqn:EP; [|apply accepted_verdict in H; unfold V_MALFORMED in H; lia].
  pose proof (p_op2_complete _ _ _ EP) as ->.
  exists c. split; [reflexivity|].
  destruct c as [[[[[[N lo] hi] qb] [[w sf] st]] [xb xa]] [[[qret loret] hiret] qref]].
  change ((fix dec (l : list Z) : option (list Q) :=
             match l with
             | [] => Some []
             | b :: t => match decode_bits b, dec t with XFin x, Some r => Some (x :: r) | _, _ => None end
             end) xb) with (dec_all xb) in H.
  destruct (dec_all xb) as [xs|] eqn:ED; [|apply accepted_verdict in H; unfold V_MALFORMED in H; lia].
  unfold sample_ok. exists xs. split; [exact ED|].
  destruct (list_Z_eqb xb xa) eqn:EL; cbn [negb] in H; [|apply accepted_verdict in H; unfold V_MISMATCH in H; lia].
  apply list_Z_eqb_eq in EL. split; [symmetry; exact EL|].
  destruct (sample_ci N lo hi w sf xs) as [|elo ehi s].
  - destruct (st =? 2)%Z eqn:E2; [apply Z.eqb_eq in E2; exact E2 | apply accepted_verdict in H; unfold V_MISMATCH in H; lia].
  - cbv zeta in H.
    destruct (st =? 0)%Z eqn:E0; cbn [negb] in H; [|apply accepted_verdict in H; unfold V_MISMATCH in H; lia].
    destruct (xeq elo loret) eqn:E1; cbn [negb] in H; [|apply accepted_verdict in H; unfold V_MISMATCH in H; lia].
    destruct (xeq ehi hiret) eqn:E3; cbn [negb] in H; [|apply accepted_verdict in H; unfold V_MISMATCH in H; lia].
    destruct (qret =? qref)%Z eqn:E4; cbn [negb] in H; [|apply accepted_verdict in H; unfold V_MISMATCH in H; lia].
    apply Z.eqb_eq in E0. apply Z.eqb_eq in E4.
    split; [exact E0|]. split; [apply xeq_xsame; exact E1|]. split; [apply xeq_xsame; exact E3 | exact E4].
Qed.

(* ====================================================================== *)
(* op 1: n > 30                                                             *)
(* ====================================================================== *)
Definition c11_normal_case : Type :=
  (Z * Z * Q * (xreal * xreal * xreal * xreal) * (Z * Z) * (xreal * xreal * xreal) * (xreal * xreal * xreal) *
   list (xreal * xreal * xreal) * qobs)%type.
Definition p_op1 : parser c11_normal_case :=
  do n <- pZ; do qb <- pZ; do c <- pQ; do mu <- pX; do sg <- pX; do l1 <- pX; do r1 <- pX; do l0 <- pZ; do r0 <- pZ;
  do b1 <- pX; do b2 <- pX; do pl1 <- pX; do ch <- pX; do cl <- pX; do ch1 <- pX;
  do ws <- plist (do b <- pX; do h <- pX; do l <- pX; pret (b, h, l)); do o <- p_qobs;
  pend (n, qb, c, (mu, sg, l1, r1), (l0, r0), (b1, b2, pl1), (ch, cl, ch1), ws, o).

Lemma p_op1_complete : forall rest v r, p_op1 rest = Some (v, r) -> r = [].
Proof.
  intros rest v r H. unfold p_op1 in H.
  repeat (apply pbind_some in H as (? & ? & _ & H)). apply pend_some in H as (_ & _ & ->). reflexivity.
Qed.

(* the bands (la - k, r0 + k), k < K, the widening loop went through: observed mass b = CDF difference to
   2 ulps, b < c, and the band does not cover [0, n+1] *)
Definition chain_prop (n : Z) (c : Q) (la r0 : Z) (steps : list (Q * Q * Q)) : Prop :=
  forall k b h l, nth_error steps k = Some (b, h, l) ->
    Qabs (b - (h - l)) <= ulps 2 1 /\ b < c /\ (0 < la - Z.of_nat k \/ r0 + Z.of_nat k < n + 1)%Z.

Lemma chain_ok_sound : forall n c la r0 steps chF clF k0, chain_ok n c la r0 k0 steps chF clF = true ->
  forall k b h l, nth_error steps k = Some (b, h, l) ->
    Qabs (b - (h - l)) <= ulps 2 1 /\ b < c /\ (0 < la - (k0 + Z.of_nat k) \/ r0 + (k0 + Z.of_nat k) < n + 1)%Z.
Proof.
  intros n c la r0. induction steps as [|[[b0 h0] l0] t IH]; intros chF clF k0 H k b h l Hk; [destruct k; discriminate|].
  cbn [chain_ok] in H. apply andb_prop in H as [H Hrest]. apply andb_prop in H as [H _].
  apply andb_prop in H as [H H3]. apply andb_prop in H as [H1 H2].
  destruct k as [|k].
  - cbn in Hk. injection Hk as -> -> ->. apply within_sound in H1. apply Qltb_true in H2.
    split; [exact H1|]. split; [exact H2|]. rewrite Z.add_0_r.
    apply orb_prop in H3 as [H3|H3]; apply Z.ltb_lt in H3; lia.
  - cbn in Hk. specialize (IH chF clF (k0 + 1)%Z Hrest k b h l Hk).
    replace (k0 + Z.of_nat (S k))%Z with (k0 + 1 + Z.of_nat k)%Z by lia. exact IH.
Qed.

(* The oracle values mu, sigma, l1 = InvCDF(alpha), r1, the CDF values and their differences are what the
   harness read off the implementation's own NormalDist (oracle instantiation: their accuracy is C05's
   subject; bin/plugins/C11.py certifies a sample against the true normal CDF in the kernel).  Accepted means:
   they are mutually consistent and describe Normal(n q, n q (1-q)); [l0 - 1/2, r0 - 1/2] is the outward
   rounding of [l1, r1] to half-integers; l1 is the alpha-quantile to 1e-9 in probability; the rounded band
   (la, r0) — la = l0, or r0 - 1 for an empty rounded band — was widened K times, every narrower band having
   observed mass < c, and the band taken (lw, rw) = (la - K, r0 + K) has observed mass b1 >= c or covers
   [0, n+1]; and the observed result is the band logic on these values: the upper end is one lower
   ("biased", Ambiguous) exactly when the shorter band is not empty, still has observed mass b2 >= c and
   b2 < b1; Confidence is the observed mass of the band taken, 1 when it covers [0, n+1]; the orders are the
   band clamped to [0, n+1]; and Confidence >= c. *)
Definition normal_clauses (n : Z) (q c : Q) (mu sg l1 r1 : xreal) (l0 r0 : Z) (b1 b2 pl1 ch cl ch1 : xreal)
                          (ws : list (xreal * xreal * xreal)) (o : qobs) : Prop :=
  exists mu' sg' l1' r1' b1' b2' ch' cl' ch1' steps,
    mu = XFin mu' /\ sg = XFin sg' /\ l1 = XFin l1' /\ r1 = XFin r1' /\ b1 = XFin b1' /\ b2 = XFin b2' /\
    ch = XFin ch' /\ cl = XFin cl' /\ ch1 = XFin ch1' /\ fin_steps ws = Some steps /\
    let nq := inject_Z n * q in
    let var := nq * (1 - q) in
    (0 <= sg' /\ Qabs (sg' * sg' - var) <= ulps 8 var) /\
    Qabs (mu' - nq) <= ulps 4 nq /\
    Qabs (r1' - (2 * mu' - l1')) <= ulps 4 (Qabs mu' * 2 + Qabs l1') /\
    Qabs (b1' - (ch' - cl')) <= ulps 2 1 /\ Qabs (b2' - (ch1' - cl')) <= ulps 2 1 /\ ch1' <= ch' /\
    l0 = (Qfloor (l1' - (1 # 2)) + 1)%Z /\ r0 = (Qceiling (r1' - (1 # 2)) + 1)%Z /\
    match pl1 with
    | XFin p => Qabs (p - qci_alpha c) <= 1 # 1000000000
    | _ => q == 0 \/ q == 1
    end /\
    let la := if (r0 <=? l0)%Z then (r0 - 1)%Z else l0 in
    let K := Z.of_nat (length steps) in
    let lw := (la - K)%Z in
    let rw := (r0 + K)%Z in
    chain_prop n c la r0 steps /\
    (c <= b1' \/ (lw <= 0 /\ n + 1 <= rw)%Z) /\
    let biased := (lw <? rw - 1)%Z && Qle_bool c b2' && Qltb b2' b1' in
    let r' := if biased then (rw - 1)%Z else rw in
    let full := (lw <=? 0)%Z && (n + 1 <=? r')%Z in
    exists cf, o_conf o = XFin cf /\
      o_lo o = Z.max lw 0 /\ o_hi o = Z.min r' (n + 1) /\ o_amb o = biased && negb full /\
      cf == (if full then 1 else if biased then b2' else b1') /\ c <= cf.

Definition normal_ok (cs : c11_normal_case) : Prop :=
  let '(n, qb, c, (mu, sg, l1, r1), (l0, r0), (b1, b2, pl1), (ch, cl, ch1), ws, o) := cs in
  exists q, decode_bits qb = XFin q /\ (30 < n)%Z /\ 0 <= q <= 1 /\
    o_n o = n /\ o_qbits o = qb /\ (0 <= o_lo o)%Z /\ (o_lo o < o_hi o)%Z /\ (o_hi o <= n + 1)%Z /\
    (1 <= c -> o_lo o = 0%Z /\ o_hi o = (n + 1)%Z /\ o_amb o = false /\ exists v, o_conf o = XFin v /\ v == 1) /\
    (c < 1 -> normal_clauses n q c mu sg l1 r1 l0 r0 b1 b2 pl1 ch cl ch1 ws o).

Ltac reject H := apply accepted_verdict in H; unfold V_MALFORMED, V_MISMATCH in H; lia.

Theorem check_C11_op1_sound : forall rest, accepted (check_C11 (11%Z :: 1%Z :: rest)) ->
  exists cs, p_op1 rest = Some (cs, []) /\ normal_ok cs.
Proof.
  intros rest H. cbn [check_C11] in H.
  change (do n <- pZ; do qb <- pZ; do c <- pQ; do mu <- pX; do sg <- pX; do l1 <- pX; do r1 <- pX; do l0 <- pZ; do r0 <- pZ;
          do b1 <- pX; do b2 <- pX; do pl1 <- pX; do ch <- pX; do cl <- pX; do ch1 <- pX;
          do ws <- plist (do b <- pX; do h <- pX; do l <- pX; pret (b, h, l)); do o <- p_qobs;
          pend (n, qb, c, (mu, sg, l1, r1), (l0, r0), (b1, b2, pl1), (ch, cl, ch1), ws, o)) with p_op1 in H.
  destruct (p_op1 rest) as [[cs r]|] eqn:EP; [|reject H].
  pose proof (p_op1_complete _ _ _ EP) as ->.
  exists cs. split; [reflexivity|].
  destruct cs as [[[[[[[[n qb] c] [[[mu sg] l1] r1]] [l0 r0]] [[b1 b2] pl1]] [[ch cl] ch1]] ws] o].
  destruct (decode_bits qb) as [| |q] eqn:Eq; try reject H.
  destruct ((n <=? qci_threshold)%Z || Qltb q 0 || Qltb 1 q) eqn:G; [reject H|].
  apply Bool.orb_false_iff in G as [G G3]. apply Bool.orb_false_iff in G as [G1 G2].
  apply Z.leb_gt in G1. unfold qci_threshold in G1. apply Qltb_false in G2. apply Qltb_false in G3.
  destruct ((o_n o =? n)%Z && (o_qbits o =? qb)%Z) eqn:E1; cbn [negb] in H; [|reject H].
  apply andb_prop in E1 as [E1 E1']. apply Z.eqb_eq in E1. apply Z.eqb_eq in E1'.
  destruct (orders_ok n o) eqn:E2; cbn [negb] in H; [|reject H].
  apply orders_ok_sound in E2 as (O1 & O2 & O3).
  unfold normal_ok. exists q. split; [exact Eq|]. split; [lia|]. split; [split; assumption|].
  split; [exact E1|]. split; [exact E1'|]. split; [exact O1|]. split; [exact O2|]. split; [exact O3|].
  destruct (Qle_bool 1 c) eqn:E3.
  { apply Qle_bool_iff in E3. split; [|intros; lra]. intros _.
    destruct (is_full n o) eqn:E4; [apply is_full_sound; exact E4 | reject H]. }
  apply Qle_bool_false in E3. split; [intros; lra|]. intros _.
  destruct mu as [| |mu']; try reject H. destruct sg as [| |sg']; try reject H.
  destruct l1 as [| |l1']; try reject H. destruct r1 as [| |r1']; try reject H.
  destruct b1 as [| |b1']; try reject H. destruct b2 as [| |b2']; try reject H.
  destruct ch as [| |ch']; try reject H. destruct cl as [| |cl']; try reject H.
  destruct ch1 as [| |ch1']; try reject H.
  destruct (fin_steps ws) as [steps|] eqn:Es; try reject H.
  cbv zeta in H.
  match type of H with accepted (if negb ?b then _ else _) => destruct b eqn:C1 end; cbn [negb] in H; [|reject H].
  match type of H with accepted (if negb ?b then _ else _) => destruct b eqn:C2 end; cbn [negb] in H; [|reject H].
  match type of H with accepted (if negb ?b then _ else _) => destruct b eqn:C3 end; cbn [negb] in H; [|reject H].
  match type of H with accepted (if negb ?b then _ else _) => destruct b eqn:C4 end; cbn [negb] in H; [|reject H].
  match type of H with accepted (if negb ?b then _ else _) => destruct b eqn:C5 end; cbn [negb] in H; [|reject H].
  apply andb_prop in C5 as [C5 C5']. apply Z.eqb_eq in C5. apply Z.eqb_eq in C5'.
  rewrite C5, C5' in H.
  match type of H with accepted (if negb ?b then _ else _) => destruct b eqn:C6 end; cbn [negb] in H; [|reject H].
  match type of H with accepted (if ?b then _ else _) => destruct b eqn:C7 end; [reject H|].
  match type of H with accepted (if negb ?b then _ else _) => destruct b eqn:C8 end; cbn [negb] in H; [|reject H].
  match type of H with accepted (if negb ?b then _ else _) => destruct b eqn:C9 end; cbn [negb] in H; [|reject H].
  match type of H with accepted (if ?b then _ else _) => destruct b eqn:C10 end; [|reject H].
  clear H C9.
  apply close_sqrt_sound_Q in C1. apply within_sound in C2. apply within_sound in C3.
  apply andb_prop in C4 as [C4 C4c]. apply andb_prop in C4 as [C4a C4b].
  apply within_sound in C4a. apply within_sound in C4b. apply Qle_bool_iff in C4c.
  unfold normal_clauses. exists mu', sg', l1', r1', b1', b2', ch', cl', ch1', steps.
  repeat (split; [reflexivity|]). split; [exact Es|]. cbv zeta.
  split; [exact C1|]. split; [exact C2|]. split; [exact C3|]. split; [exact C4a|]. split; [exact C4b|]. split; [exact C4c|].
  split; [symmetry; exact C5|]. split; [symmetry; exact C5'|].
  split.
  { destruct pl1 as [| |p]; [| |apply within_sound in C8; exact C8];
      (apply orb_prop in C8 as [C8|C8]; apply Qeq_bool_iff in C8; [left | right]; exact C8). }
  split.
  { intros k b h l Hk. pose proof (chain_ok_sound _ _ _ _ _ _ _ _ C6 k b h l Hk) as X.
    rewrite !Z.add_0_l in X. exact X. }
  split.
  { apply andb_false_iff in C7 as [A|B].
    - left. apply Qltb_false in A. exact A.
    - right. apply orb_false_iff in B as [B1 B2]. apply Z.ltb_ge in B1. apply Z.ltb_ge in B2. lia. }
  cbn [r_lo r_hi r_amb r_conf] in C10.
  apply andb_prop in C10 as [C10 Cc]. apply andb_prop in C10 as [C10 Cx]. apply andb_prop in C10 as [C10 Ca].
  apply andb_prop in C10 as [Cl Ch]. apply Z.eqb_eq in Cl. apply Z.eqb_eq in Ch. apply Bool.eqb_prop in Ca.
  apply xeq_fin in Cx as (cf & Ecf & Hcf). apply Qle_bool_iff in Cc.
  exists cf. split; [exact Ecf|]. split; [symmetry; exact Cl|]. split; [symmetry; exact Ch|].
  split; [symmetry; exact Ca|]. split; [exact Hcf|]. rewrite Hcf. exact Cc.
Qed.

(* ====================================================================== *)
(* the three operations together                                            *)
(* ====================================================================== *)
Theorem check_C11_ok_sound : forall line, accepted (check_C11 line) ->
  exists rest,
    (line = 11%Z :: 0%Z :: rest /\
       exists n qb items q, p_op0 rest = Some ((n, qb, items), []) /\ decode_bits qb = XFin q /\
         (1 <= n <= 30)%Z /\ 0 <= q <= 1 /\ Forall (small_item_ok n qb q (exact_regime n q)) items /\
         (forall a b, In a items -> In b items -> fst a <= fst b -> nest_in a b)) \/
    (line = 11%Z :: 1%Z :: rest /\ exists cs, p_op1 rest = Some (cs, []) /\ normal_ok cs) \/
    (line = 11%Z :: 2%Z :: rest /\ exists c, p_op2 rest = Some (c, []) /\ sample_ok c).
Proof.
  intros line H.
  destruct line as [|a line]; [reject H|].
  destruct a as [|a|a]; try reject H.
  do 4 (destruct a as [a|a|]; try reject H).
  destruct line as [|b rest]; [reject H|].
  destruct b as [|b|b]; try reject H.
  - exists rest. left. split; [reflexivity|]. apply check_C11_op0_sound. exact H.
  - destruct b as [b|b|].
    + reject H.
    + destruct b as [b|b|]; try reject H.
      exists rest. right; right. split; [reflexivity|]. apply check_C11_op2_sound. exact H.
    + exists rest. right; left. split; [reflexivity|]. apply check_C11_op1_sound. exact H.
Qed.

(* Proofs/CheckC12.v — what a non-mismatch verdict of the point comparison of Check/C12.v means:
   the observed PDF/CDF values are within the stated tolerances of the exact model, and the
   distribution laws hold on the observed values themselves (every kernel, Gaussian included). *)
From MM Require Import Base.Num Model.Sample Model.Quantile Model.Kde Check.C12.
From Coq Require Import Lia.
Local Open Scope Q_scope.

Lemma delta_borderline_epan k x : k_kernel k <> KDelta -> delta_borderline k x = false.
Proof. intro H. unfold delta_borderline. destruct (k_kernel k); try reflexivity. congruence. Qed.

(* Epanechnikov kernel: PDF within 1e-9 * 0.75/h, CDF within 1e-9 of the model, statuses 0,
   Bandwidth field as expected *)
Theorem check_point_sound_epan (k : kde) (hexp : xreal) (prev : option (Q * Q)) (p : pt) v cls diag t :
  k_kernel k = KEpan ->
  check_point k false hexp prev p = (v, cls, diag, t) -> v <> 2%Z ->
  p_pst p = 0%Z /\ p_cst p = 0%Z /\ xeq hexp (p_h p) = true /\
  (forall e, kde_pdf k (p_x p) = Some e -> xwithin (tol_pdf (k_h k)) e (p_pdf p) = true) /\
  (forall e, kde_cdf k (p_x p) = Some e -> xwithin tol_cdf e (p_cdf p) = true).
Proof.
  intros kern H V. unfold check_point in H.
  assert (NB : delta_borderline k (p_x p) = false) by (apply delta_borderline_epan; rewrite kern; discriminate).
  destruct ((p_pst p =? 0)%Z && (p_cst p =? 0)%Z) eqn:S; cbn [negb] in H; [|injection H as <-; congruence].
  apply andb_true_iff in S. destruct S as [S1 S2]. apply Z.eqb_eq in S1. apply Z.eqb_eq in S2.
  destruct (xeq hexp (p_h p)) eqn:Hh; cbn [negb] in H; [|injection H as <-; congruence].
  rewrite kern, NB in H. cbv zeta in H.
  split; [exact S1|]. split; [exact S2|]. split; [reflexivity|].
  destruct (kde_pdf k (p_x p)) as [ep|] eqn:EP.
  - unfold xclose in H. destruct (xwithin (tol_pdf (k_h k)) ep (p_pdf p)) eqn:OKP.
    + cbn [negb andb orb] in H.
      destruct (kde_cdf k (p_x p)) as [ec|] eqn:EC.
      * destruct (xwithin tol_cdf ec (p_cdf p)) eqn:OKC.
        -- split; intros e E; injection E as <-; assumption.
        -- cbn [negb andb orb] in H. injection H as <-. congruence.
      * split; intros e E; [injection E as <-; assumption | discriminate].
    + cbn [negb andb] in H. injection H as <-. congruence.
  - cbn [negb andb orb] in H.
    destruct (kde_cdf k (p_x p)) as [ec|] eqn:EC.
    + unfold xclose in H. destruct (xwithin tol_cdf ec (p_cdf p)) eqn:OKC.
      * split; intros e E; [discriminate | injection E as <-; assumption].
      * cbn [negb andb orb] in H. injection H as <-. congruence.
    + split; intros e E; discriminate.
Qed.

(* every kernel, non-empty sample: the laws hold on the implementation's own outputs *)
Theorem check_point_laws (k : kde) (hexp : xreal) (prev : option (Q * Q)) (p : pt) v cls diag t :
  k_xs k <> [] ->
  check_point k false hexp prev p = (v, cls, diag, t) -> v <> 2%Z ->
  law_pdf (k_kernel k) (k_b k) (p_x p) (p_pdf p) = true /\
  law_cdf (k_b k) (p_x p) (p_cdf p) = true /\
  (forall x0 c0 c, prev = Some (x0, c0) -> p_cdf p = XFin c -> x0 <= p_x p -> c0 <= c + slack).
Proof.
  intros Hne H V. unfold check_point in H.
  destruct ((p_pst p =? 0)%Z && (p_cst p =? 0)%Z); cbn [negb] in H; [|injection H as <-; congruence].
  destruct (xeq hexp (p_h p)); cbn [negb] in H; [|injection H as <-; congruence].
  cbv zeta in H.
  match type of H with (if ?c then _ else _) = _ => destruct c; [injection H as <-; congruence|] end.
  match type of H with (if ?c then _ else _) = _ => destruct c; [injection H as <-; congruence|] end.
  destruct (k_xs k) as [|x0 xs]; [congruence|].
  destruct (law_pdf (k_kernel k) (k_b k) (p_x p) (p_pdf p)); cbn [negb] in H; [|injection H as <-; congruence].
  destruct (law_cdf (k_b k) (p_x p) (p_cdf p)); cbn [negb] in H; [|injection H as <-; congruence].
  split; [reflexivity|]. split; [reflexivity|].
  intros a c0 c P C L. rewrite P, C in H.
  apply Qle_bool_iff in L. rewrite L in H. cbn [andb] in H.
  destruct (Qle_bool c0 (c + slack)) eqn:M; [apply Qle_bool_iff; exact M|].
  cbn [negb] in H. injection H as <-. congruence.
Qed.


(* both in one statement for Properties/C12.v *)
Theorem check_point_sound (k : kde) (hexp : xreal) (prev : option (Q * Q)) (p : pt) v cls diag t :
  check_point k false hexp prev p = (v, cls, diag, t) -> v <> 2%Z ->
  (k_kernel k = KEpan ->
     p_pst p = 0%Z /\ p_cst p = 0%Z /\ xeq hexp (p_h p) = true /\
     (forall e, kde_pdf k (p_x p) = Some e -> xwithin (tol_pdf (k_h k)) e (p_pdf p) = true) /\
     (forall e, kde_cdf k (p_x p) = Some e -> xwithin tol_cdf e (p_cdf p) = true)) /\
  (k_xs k <> [] ->
     law_pdf (k_kernel k) (k_b k) (p_x p) (p_pdf p) = true /\
     law_cdf (k_b k) (p_x p) (p_cdf p) = true /\
     (forall x0 c0 c, prev = Some (x0, c0) -> p_cdf p = XFin c -> x0 <= p_x p -> c0 <= c + slack)).
Proof.
  intros H V. split.
  - intro kern. apply (check_point_sound_epan k hexp prev p v cls diag t kern H V).
  - intro Hne. apply (check_point_laws k hexp prev p v cls diag t Hne H V).
Qed.

(* Proofs/CheckC13.v — what an "ok" verdict of check_C13 means: after EVERY operation of
   the recorded history the observed statistics are within the stated tolerances of the
   batch statistics of exactly the values fed to that accumulator. *)
From MM Require Import Base.Num Model.Stream Proofs.Stream Check.C13.
From Coq Require Import Lqa.
Local Open Scope Q_scope.

(* the comparison performed at step n of a history *)
Definition step_ok (fr : sobs) (k : nat) (ops : list (sop * sobs)) (n : nat) : Prop :=
  match nth_error ops n with
  | None => True
  | Some (op, o) =>
      let pre := map fst (firstn (S n) ops) in
      exists s xs, nth_error (s_run k pre) (op_target op) = Some s /\
                   nth_error (v_run k pre) (op_target op) = Some xs /\
                   Inv s xs /\ compare fr (N.of_nat (S n)) s o = None
  end.

Lemma run_cmp_none_gen fr : forall ops accs vals idx tag tag', (0 <= idx)%Z ->
  Forall2 Inv accs vals ->
  run_cmp fr accs ops idx tag = (tag', None) ->
  forall n op o, nth_error ops n = Some (op, o) ->
    exists s xs, nth_error (fold_left s_step (map fst (firstn (S n) ops)) accs) (op_target op) = Some s /\
                 nth_error (fold_left v_step (map fst (firstn (S n) ops)) vals) (op_target op) = Some xs /\
                 Inv s xs /\ compare fr (Z.to_N (idx + Z.of_nat (S n))) s o = None.
Proof.
  induction ops as [|[op0 o0] ops IH]; intros accs vals idx tag tag' Hi F R n op o Hn; [destruct n; discriminate|].
  cbn [run_cmp] in R.
  pose proof (step_inv accs vals op0 F) as F'.
  destruct (nth_error (s_step accs op0) (op_target op0)) as [s0|] eqn:E0; [|discriminate].
  destruct (compare fr (Z.to_N (idx + 1)) s0 o0) as [w|] eqn:C0; [discriminate|].
  destruct n as [|n].
  - cbn in Hn. injection Hn as <- <-. cbn [firstn map fold_left fst].
    destruct (Forall2_nth_error _ _ _ _ _ F' E0) as (xs & Ex & I).
    exists s0, xs. split; [exact E0|split; [exact Ex|split; [exact I|exact C0]]].
  - cbn in Hn. cbn [firstn map fold_left fst].
    replace (idx + Z.of_nat (S (S n)))%Z with ((idx + 1) + Z.of_nat (S n))%Z by lia.
    assert (Hi' : (0 <= idx + 1)%Z) by lia.
    apply (IH _ _ _ _ _ Hi' F' R n op o Hn).
Qed.

Lemma inv_repeat k : Forall2 Inv (repeat s_init k) (repeat [] k).
Proof. induction k; cbn; constructor; auto using inv_init. Qed.

Theorem check_ok_sound fr k ops tag : run_cmp fr (repeat s_init k) ops 0%Z 0%Z = (tag, None) -> forall n, step_ok fr k ops n.
Proof.
  intros R n. unfold step_ok. destruct (nth_error ops n) as [[op o]|] eqn:E; [|exact I].
  pose proof (run_cmp_none_gen fr ops _ _ _ _ _ (Z.le_refl 0) (inv_repeat k) R n op o E) as H.
  replace (Z.to_N (0 + Z.of_nat (S n))) with (N.of_nat (S n)) in H by lia. exact H.
Qed.


(* Proofs/CheckC13.v — what an "ok" verdict of check_C13 means: after EVERY operation of
   the recorded history the observed statistics are within the stated tolerances of the
   batch statistics of exactly the values fed to that accumulator. *)
From MM Require Import Base.Num Model.Stream Proofs.Stream Check.C13.
From Coq Require Import Lqa.
Local Open Scope Q_scope.

(* the comparison performed at step n of a history *)
Definition step_ok (fr : sobs) (k : nat) (ops : list (sop * sobs)) (n : nat) : Prop :=
  match nth_error ops n with
  | None => True
  | Some (op, o) =>
      let pre := map fst (firstn (S n) ops) in
      exists s xs, nth_error (s_run k pre) (op_target op) = Some s /\
                   nth_error (v_run k pre) (op_target op) = Some xs /\
                   Inv s xs /\ compare fr (N.of_nat (S n)) s o = None
  end.

Lemma run_cmp_none_gen fr : forall ops accs vals idx tag tag', (0 <= idx)%Z ->
  Forall2 Inv accs vals ->
  run_cmp fr accs ops idx tag = (tag', None) ->
  forall n op o, nth_error ops n = Some (op, o) ->
    exists s xs, nth_error (fold_left s_step (map fst (firstn (S n) ops)) accs) (op_target op) = Some s /\
                 nth_error (fold_left v_step (map fst (firstn (S n) ops)) vals) (op_target op) = Some xs /\
                 Inv s xs /\ compare fr (Z.to_N (idx + Z.of_nat (S n))) s o = None.
Proof.
  induction ops as [|[op0 o0] ops IH]; intros accs vals idx tag tag' Hi F R n op o Hn; [destruct n; discriminate|].
  cbn [run_cmp] in R.
  pose proof (step_inv accs vals op0 F) as F'.
  destruct (nth_error (s_step accs op0) (op_target op0)) as [s0|] eqn:E0; [|discriminate].
  destruct (compare fr (Z.to_N (idx + 1)) s0 o0) as [w|] eqn:C0; [discriminate|].
  destruct n as [|n].
  - cbn in Hn. injection Hn as <- <-. cbn [firstn map fold_left fst].
    destruct (Forall2_nth_error _ _ _ _ _ F' E0) as (xs & Ex & I).
    exists s0, xs. split; [exact E0|split; [exact Ex|split; [exact I|exact C0]]].
  - cbn in Hn. cbn [firstn map fold_left fst].
    replace (idx + Z.of_nat (S (S n)))%Z with ((idx + 1) + Z.of_nat (S n))%Z by lia.
    assert (Hi' : (0 <= idx + 1)%Z) by lia.
    apply (IH _ _ _ _ _ Hi' F' R n op o Hn).
Qed.

Lemma inv_repeat k : Forall2 Inv (repeat s_init k) (repeat [] k).
Proof. induction k; cbn; constructor; auto using inv_init. Qed.

Theorem check_ok_sound fr k ops tag : run_cmp fr (repeat s_init k) ops 0%Z 0%Z = (tag, None) -> forall n, step_ok fr k ops n.
Proof.
  intros R n. unfold step_ok. destruct (nth_error ops n) as [[op o]|] eqn:E; [|exact I].
  pose proof (run_cmp_none_gen fr ops _ _ _ _ _ (Z.le_refl 0) (inv_repeat k) R n op o E) as H.
  replace (Z.to_N (0 + Z.of_nat (S n))) with (N.of_nat (S n)) in H by lia. exact H.
Qed.


(* ====================================================================== *)
(* What one comparison means, in terms of the BATCH statistics of exactly  *)
(* the values fed (sum, mean_def, meansq_def, var_def, least/greatest).    *)
(* ====================================================================== *)
From MM Require Import Proofs.CheckBase.

(* fr = the observation of a fresh accumulator, steps = number of operations performed so far,
   xs = the values fed to the observed accumulator, o = its nine observed statistics.
   The tolerances are functions of the batch quantities only: n = |xs|, d = min n steps, the least
   value lo and the greatest value hi (pinned up to == by is_min / is_max when xs <> []; for xs = []
   the only tolerance that is used, tolm_total, is 0 whatever lo and hi are). *)
Definition batch_ok (fr : sobs) (steps : N) (xs : list Q) (o : sobs) : Prop :=
  let n := N.of_nat (length xs) in
  let d := N.min n steps in
  exists lo hi, (xs <> [] -> is_min lo xs /\ is_max hi xs) /\
  (* always: Count, Total, Weight *)
  o_count o = Z.of_nat (length xs) /\
  (exists t, o_total o = XFin t /\ Qabs (t - Qsum xs) <= tolm_total d n lo hi) /\
  (exists w, o_weight o = XFin w /\ Qabs (w - nQ xs) <= tolm_weight n) /\
  (* no values: Min, Max, Mean, RMS are what a fresh accumulator reports (NaN = NaN, same infinity, == floats) *)
  (xs = [] -> xeq (o_min fr) (o_min o) = true /\ xeq (o_max fr) (o_max o) = true /\
              xeq (o_mean fr) (o_mean o) = true /\ xeq (o_rms fr) (o_rms o) = true) /\
  (* at least one value: Min and Max exactly, Mean and RMS within rounding *)
  (xs <> [] -> (exists a, o_min o = XFin a /\ a == lo) /\ (exists b, o_max o = XFin b /\ b == hi) /\
               (exists m, o_mean o = XFin m /\ Qabs (m - mean_def xs) <= tolm_mean d lo hi) /\
               (exists r, o_rms o = XFin r /\ 0 <= r /\
                          Qabs (r * r - meansq_def xs) <= tolm_msq d lo hi + 8 * ulp53 * meansq_def xs)) /\
  (* two or more values: Variance and StdDev (a finite, non-negative float whose square is the variance) *)
  ((2 <= length xs)%nat ->
               (exists v, o_var o = XFin v /\ Qabs (v - var_def xs) <= tolm_var (var_def xs) lo hi) /\
               (exists sd, o_std o = XFin sd /\ 0 <= sd /\
                          Qabs (sd * sd - var_def xs) <= tolm_var (var_def xs) lo hi + 8 * ulp53 * var_def xs)).

Lemma first_false_9 b0 b1 b2 b3 b4 b5 b6 b7 b8 :
  first_false [b0; b1; b2; b3; b4; b5; b6; b7; b8] = None ->
  b0 = true /\ b1 = true /\ b2 = true /\ b3 = true /\ b4 = true /\ b5 = true /\ b6 = true /\ b7 = true /\ b8 = true.
Proof.
  unfold first_false. intro H.
  destruct b0; [|discriminate H]. destruct b1; [|discriminate H]. destruct b2; [|discriminate H].
  destruct b3; [|discriminate H]. destruct b4; [|discriminate H]. destruct b5; [|discriminate H].
  destruct b6; [|discriminate H]. destruct b7; [|discriminate H]. destruct b8; [|discriminate H].
  repeat split.
Qed.

Lemma tolm_var_compat v v' lo hi : v == v' -> tolm_var v lo hi == tolm_var v' lo hi.
Proof. intro E. unfold tolm_var. rewrite E. reflexivity. Qed.

Lemma length_ge2_N {A} (xs : list A) : (2 <= length xs)%nat -> (N.of_nat (length xs) <? 2)%N = false.
Proof. intro H. apply N.ltb_ge. lia. Qed.

Theorem compare_all_sound fr steps s o xs : Inv s xs -> compare fr steps s o = None -> batch_ok fr steps xs o.
Proof.
  intros I C. unfold compare in C. apply first_false_9 in C.
  destruct C as (C0 & C1 & C2 & C3 & C4 & C5 & C6 & C7 & C8).
  pose proof (inv_count _ _ I) as Hc. rewrite Hc in *.
  unfold batch_ok. exists (s_min s), (s_max s).
  split; [intro Hx; split; [exact (inv_min _ _ I Hx) | exact (inv_max _ _ I Hx)]|].
  split; [apply Z.eqb_eq in C0; rewrite C0; apply nat_N_Z|].
  split.
  { apply xwithin_fin in C1. destruct C1 as (t & Et & Ht). exists t. split; [exact Et|].
    now rewrite <- (inv_total _ _ I). }
  split.
  { apply xwithin_fin in C8. destruct C8 as (w & Ew & Hw). exists w. split; [exact Ew|].
    unfold nQ. now rewrite <- QofN_nat. }
  split.
  { intros ->. cbn [length N.of_nat N.eqb] in C2, C3, C4, C7. auto. }
  split.
  { intro Hx. assert (Hn : (N.of_nat (length xs) =? 0)%N = false).
    { apply N.eqb_neq. destruct xs; [congruence | cbn; lia]. }
    rewrite Hn in C2, C3, C4, C7.
    split; [apply xeq_fin in C2; exact C2|]. split; [apply xeq_fin in C3; exact C3|].
    split.
    { apply xwithin_fin in C4. destruct C4 as (m & Em & Hm). exists m. split; [exact Em|].
      now rewrite <- (mean_is_batch _ _ I Hx). }
    unfold rms_ok in C7. destruct (o_rms o) as [| |r]; try discriminate C7.
    apply close_sqrt_sound_Q in C7. destruct C7 as [R0 R1]. exists r. split; [reflexivity|]. split; [exact R0|].
    pose proof (msq_is_batch _ _ I Hx) as E. unfold s_rms_sq in E. now rewrite <- E. }
  intro H2. rewrite (length_ge2_N _ H2) in C5, C6. cbn [orb] in C5, C6.
  pose proof (variance_is_batch _ _ I H2) as E.
  split.
  { apply xwithin_fin in C5. destruct C5 as (v & Ev & Hv). exists v. split; [exact Ev|].
    rewrite <- (tolm_var_compat _ _ (s_min s) (s_max s) E). now rewrite <- E. }
  unfold std_ok in C6. destruct (o_std o) as [| |sd]; try discriminate C6.
  apply close_sqrt_sound_Q in C6. destruct C6 as [S0 S1]. exists sd. split; [reflexivity|]. split; [exact S0|].
  rewrite <- (tolm_var_compat _ _ (s_min s) (s_max s) E). now rewrite <- E.
Qed.

(* ====================================================================== *)
(* The whole verdict                                                       *)
(* ====================================================================== *)
Lemma p_line_inv line k fr ops rest : p_line line = Some ((k, fr, ops), rest) ->
  rest = [] /\ exists body, line = 13%Z :: body.
Proof.
  unfold p_line. intro H.
  apply pbind_some in H. destruct H as (tag & r0 & Ht & H). apply pZ_some in Ht.
  destruct (tag =? 13)%Z eqn:E; cbn [negb] in H; [|discriminate H]. apply Z.eqb_eq in E. subst tag.
  apply pbind_some in H. destruct H as (k' & r1 & _ & H).
  apply pbind_some in H. destruct H as (fr' & r2 & _ & H).
  apply pbind_some in H. destruct H as (ops' & r3 & _ & H).
  apply pend_some in H. destruct H as (_ & _ & ->). split; [reflexivity|]. exists r0. exact Ht.
Qed.

(* An accepted verdict (code 0; check_C13 never returns code 1) means: the line parses COMPLETELY (nothing is
   left over) into k, the fresh observation fr and a history ops; fr itself shows Count = 0, Total = 0,
   Weight = 0; and after EVERY operation n of the history the nine statistics observed on the accumulator that
   operation touched are batch_ok for exactly the values fed to it so far (v_run: directly or through the
   accumulators combined into it, s.Combine(s) doubling them). *)
Theorem check_sound line c tag pos diag :
  check_C13 line = verdict c tag pos diag -> (c = 0 \/ c = 1)%Z ->
  exists k fr ops, p_line line = Some ((k, fr, ops), []) /\ (exists body, line = 13%Z :: body) /\
    batch_ok fr 0 [] fr /\
    forall n op o, nth_error ops n = Some (op, o) ->
      exists xs, nth_error (v_run k (map fst (firstn (S n) ops))) (op_target op) = Some xs /\
                 batch_ok fr (N.of_nat (S n)) xs o.
Proof.
  intros H Hc. unfold check_C13 in H.
  destruct (p_line line) as [[[[k fr] ops] rest]|] eqn:P.
  2:{ apply verdict_inj in H. destruct H as [H _]. unfold V_MALFORMED in H. lia. }
  destruct (p_line_inv _ _ _ _ _ P) as [-> B].
  destruct (compare fr 0 s_init fr) as [w|] eqn:C0.
  { apply verdict_inj in H. destruct H as [H _]. unfold V_MISMATCH in H. lia. }
  destruct (run_cmp fr (repeat s_init k) ops 0 0) as [tg [[[idx w] s]|]] eqn:R.
  { destruct (w =? -1)%Z; apply verdict_inj in H; destruct H as [H _]; unfold V_MISMATCH, V_MALFORMED in H; lia. }
  exists k, fr, ops. split; [reflexivity|]. split; [exact B|].
  split; [exact (compare_all_sound _ _ _ _ _ inv_init C0)|].
  intros n op o E. pose proof (check_ok_sound fr k ops tg R n) as S. unfold step_ok in S. rewrite E in S.
  destruct S as (s & xs & _ & Ev & I & C). exists xs. split; [exact Ev|]. exact (compare_all_sound _ _ _ _ _ I C).
Qed.

(* Proofs/CheckC13.v — what an "ok" verdict of check_C13 means: after EVERY operation of
   the recorded history the observed statistics are within the stated tolerances of the
   batch statistics of exactly the values fed to that accumulator. *)
From MM Require Import Base.Num Model.Stream Proofs.Stream Check.C13.
From Coq Require Import Lqa.
Local Open Scope Q_scope.

(* the comparison performed at step n of a history *)
Definition step_ok (k : nat) (ops : list (sop * sobs)) (n : nat) : Prop :=
  match nth_error ops n with
  | None => True
  | Some (op, o) =>
      let pre := map fst (firstn (S n) ops) in
      exists s xs, nth_error (s_run k pre) (op_target op) = Some s /\
                   nth_error (v_run k pre) (op_target op) = Some xs /\
                   Inv s xs /\ compare s o = None
  end.

Lemma run_cmp_none_gen : forall ops accs vals idx tag tag',
  Forall2 Inv accs vals ->
  run_cmp accs ops idx tag = (tag', None) ->
  forall n op o, nth_error ops n = Some (op, o) ->
    exists s xs, nth_error (fold_left s_step (map fst (firstn (S n) ops)) accs) (op_target op) = Some s /\
                 nth_error (fold_left v_step (map fst (firstn (S n) ops)) vals) (op_target op) = Some xs /\
                 Inv s xs /\ compare s o = None.
Proof.
  induction ops as [|[op0 o0] ops IH]; intros accs vals idx tag tag' F R n op o Hn; [destruct n; discriminate|].
  cbn [run_cmp] in R.
  pose proof (step_inv accs vals op0 F) as F'.
  destruct (nth_error (s_step accs op0) (op_target op0)) as [s0|] eqn:E0; [|discriminate].
  destruct (compare s0 o0) as [w|] eqn:C0; [discriminate|].
  destruct n as [|n].
  - cbn in Hn. injection Hn as <- <-. cbn [firstn map fold_left fst].
    destruct (Forall2_nth_error _ _ _ _ _ F' E0) as (xs & Ex & I).
    exists s0, xs. split; [exact E0|split; [exact Ex|split; [exact I|exact C0]]].
  - cbn in Hn. cbn [firstn map fold_left fst]. exact (IH _ _ _ _ _ F' R n op o Hn).
Qed.

Lemma inv_repeat k : Forall2 Inv (repeat s_init k) (repeat [] k).
Proof. induction k; cbn; constructor; auto using inv_init. Qed.

Theorem check_ok_sound k ops tag : run_cmp (repeat s_init k) ops 0%Z 0%Z = (tag, None) -> forall n, step_ok k ops n.
Proof.
  intros R n. unfold step_ok. destruct (nth_error ops n) as [[op o]|] eqn:E; [|exact I].
  exact (run_cmp_none_gen ops _ _ _ _ _ (inv_repeat k) R n op o E).
Qed.

(* reading one comparison: e.g. the observed mean *)
Lemma first_false_none l : first_false l = None -> forall b, In b l -> b = true.
Proof.
  unfold first_false. generalize 0%Z. induction l as [|x l IH]; intros i H b Hb; [destruct Hb|].
  destruct x; [|discriminate]. destruct Hb as [<-|Hb]; [reflexivity | exact (IH _ H b Hb)].
Qed.

Lemma within_sound tol e o : within tol e o = true -> Qabs (o - e) <= tol.
Proof. unfold within. apply Qle_bool_iff. Qed.

Theorem compare_mean_sound s o xs : Inv s xs -> xs <> [] -> compare s o = None ->
  exists m, o_mean o = XFin m /\ Qabs (m - mean_def xs) <= tol_mean s.
Proof.
  intros I Hx C. unfold compare in C.
  assert (Hn : (s_count s =? 0)%N = false).
  { apply N.eqb_neq. rewrite (inv_count _ _ I). destruct xs; [congruence | cbn; lia]. }
  pose proof (first_false_none _ C) as A.
  assert (W : (s_count s =? 0)%N || xwithin (tol_mean s) (XFin (s_mean s)) (o_mean o) = true).
  { apply A. do 4 right. left. reflexivity. }
  rewrite Hn in W. cbn [orb] in W.
  destruct (o_mean o) as [| |m]; cbn in W; try discriminate.
  exists m. split; [reflexivity|]. apply within_sound in W. now rewrite <- (mean_is_batch _ _ I Hx).
Qed.

Theorem compare_count_sound s o xs : Inv s xs -> compare s o = None -> o_count o = Z.of_nat (length xs).
Proof.
  intros I C. unfold compare in C. pose proof (first_false_none _ C) as A.
  assert (W : (o_count o =? Z.of_N (s_count s))%Z = true) by (apply A; left; reflexivity).
  apply Z.eqb_eq in W. rewrite W, (inv_count _ _ I). apply nat_N_Z.
Qed.

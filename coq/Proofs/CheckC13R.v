(* Proofs/CheckC13R.v — real-number reading of the two square-root observables of C13: what the
   comparator's "compare the squares" test (close_sqrt) says about StdDev and RMS themselves.
   Uses the shared real readings of Proofs/NumSoundR.v; depends on the stdlib real axioms only. *)
From MM Require Import Base.Num Model.Stream Proofs.Stream Check.C13 Proofs.CheckC13 Proofs.CheckBase Proofs.NumSound Proofs.NumSoundR.
From Coq Require Import Reals Qreals Lqa.
Local Open Scope Q_scope.

Lemma Qsum_nonneg l : (forall x, In x l -> 0 <= x) -> 0 <= Qsum l.
Proof.
  induction l as [|a l IH]; intro H; cbn [Qsum]; [apply Qle_refl|].
  assert (0 <= a) by (apply H; now left). assert (0 <= Qsum l) by (apply IH; intros; apply H; now right). lra.
Qed.
Lemma Qsq_nonneg a : 0 <= Qsq a.
Proof. unfold Qsq. destruct (Qlt_le_dec a 0); nra. Qed.
Lemma sum_sq_nonneg (f : Q -> Q) l : 0 <= Qsum (map (fun x => Qsq (f x)) l).
Proof. apply Qsum_nonneg. intros y Hy. apply in_map_iff in Hy. destruct Hy as (x & <- & _). apply Qsq_nonneg. Qed.

Lemma nQ_ge2 (xs : list Q) : (2 <= length xs)%nat -> 0 < nQ xs - 1.
Proof.
  intro H. unfold nQ, Qofnat. assert (E : inject_Z (Z.of_nat (length xs)) - 1 == inject_Z (Z.of_nat (length xs) - 1)).
  { unfold Z.sub, Qminus. rewrite inject_Z_plus, inject_Z_opp. reflexivity. }
  rewrite E. change 0 with (inject_Z 0). rewrite <- Zlt_Qlt. lia.
Qed.

Lemma var_def_nonneg xs : (2 <= length xs)%nat -> 0 <= var_def xs.
Proof.
  intro H. unfold var_def, ssd_def. pose proof (nQ_ge2 xs H) as P.
  pose proof (sum_sq_nonneg (fun x => x - mean_def xs) xs) as S.
  cbv beta in S. apply Qle_shift_div_l; [exact P|]. rewrite Qmult_0_l. exact S.
Qed.
Lemma meansq_def_nonneg xs : xs <> [] -> 0 <= meansq_def xs.
Proof.
  intro H. unfold meansq_def, Qsumsq. pose proof (nQ_pos xs H) as P.
  pose proof (sum_sq_nonneg (fun x => x) xs) as S.
  cbv beta in S. apply Qle_shift_div_l; [exact P|]. rewrite Qmult_0_l. exact S.
Qed.

Local Open Scope R_scope.
(* |s - sqrt v| <= sqrt tol from the rational facts 0 <= s, |s^2 - v| <= tol, 0 <= v *)
Lemma sqrt_reading (tol v s : Q) : (0 <= s)%Q -> (Qabs (s * s - v) <= tol)%Q -> (0 <= v)%Q ->
  0 <= Q2R s /\ Rabs (Q2R s - sqrt (Q2R v)) <= sqrt (Q2R tol).
Proof.
  intros Hs Ht Hv. apply close_sqrt_sound_abs.
  - apply close_sqrt_spec. split; assumption.
  - apply Qle_Rle in Hv. now rewrite RMicromega.Q2R_0 in Hv.
Qed.

(* StdDev and RMS of an accepted observation, as real numbers: the observed float is within
   sqrt(tolerance on the square) of the square root of the batch variance / batch mean of squares *)
Theorem batch_ok_sqrt_reading fr steps xs o : batch_ok fr steps xs o ->
  let d := N.min (N.of_nat (length xs)) steps in
  exists lo hi,
  (xs <> [] -> exists r, o_rms o = XFin r /\ 0 <= Q2R r /\
     Rabs (Q2R r - sqrt (Q2R (meansq_def xs))) <= sqrt (Q2R (tolm_msq d lo hi + 8 * ulp53 * meansq_def xs))) /\
  ((2 <= length xs)%nat -> exists sd, o_std o = XFin sd /\ 0 <= Q2R sd /\
     Rabs (Q2R sd - sqrt (Q2R (var_def xs))) <= sqrt (Q2R (tolm_var (var_def xs) lo hi + 8 * ulp53 * var_def xs))).
Proof.
  intros (lo & hi & _ & _ & _ & _ & _ & H1 & H2). exists lo, hi. split.
  - intro Hx. destruct (H1 Hx) as (_ & _ & _ & r & Er & R0 & R1). exists r. split; [exact Er|].
    apply sqrt_reading; [exact R0 | exact R1 | apply meansq_def_nonneg, Hx].
  - intro Hl. destruct (H2 Hl) as (_ & sd & Es & S0 & S1). exists sd. split; [exact Es|].
    apply sqrt_reading; [exact S0 | exact S1 | apply var_def_nonneg, Hl].
Qed.

(* not listed in Properties/C13.v, whose theorems are all closed under the global context; this one
   depends on the standard library's axioms of the reals (and nothing else): *)
Print Assumptions batch_ok_sqrt_reading.

(* Proofs/CheckC14.v — (group hF) what an accepted verdict (code 0 ok / 1 borderline) of
   check_C14 means.  The conclusion speaks only about the numbers observed on the case line and
   the edge / rank specification of Properties/C14.v (BinToValue edges, powers b^k, the rank
   [below h k < g <= below h k + c_k]); the model functions (lin_slot, log_bin_capped, log_scan,
   rank_walk, hist_quantile_goal) are eliminated with the theorems of Proofs/Hist.v.
   Borderline windows are explicit: lin_window, delta_log, goal_window, slack_in_bin. *)
From Coq Require Import Qround Lia Lqa Qfield.
From MM Require Import Base.Num Model.Hist Proofs.Hist Check.C14 Proofs.CheckBase.
Local Open Scope Q_scope.

(* ====================================================================== *)
(* 1. The specification side                                              *)
(* ====================================================================== *)

(* --- Add on a LinearHist: the counter the stated edges select for a value x --- *)
Definition lin_slot_spec (mn mx : Q) (nb : nat) (x : Q) (s : slot) : Prop :=
  match s with
  | SUnder => x < lin_bin_to_value mn mx nb (inject_Z 0)
  | SBin i => (i < nb)%nat /\
              lin_bin_to_value mn mx nb (inject_Z (Z.of_nat i)) <= x /\
              x < lin_bin_to_value mn mx nb (inject_Z (Z.of_nat i + 1))
  | SOver => lin_bin_to_value mn mx nb (inject_Z (Z.of_nat nb)) <= x
  end.

(* "values within rounding distance of an edge may fall on either side": the accepted counter
   is the one the edges select for some x' within [lin_window] of x
   (eps_lin = 2^-46 relative to the distance from min, plus 2^-900 of a bin width). *)
Definition lin_window (mn mx : Q) (nb : nat) (x : Q) : Q :=
  eps_lin * Qabs (x - mn) + tiny * ((mx - mn) / Qofnat nb).
Definition lin_add_spec (mn mx : Q) (nb : nat) (x : Q) (s : slot) : Prop :=
  exists x', Qabs (x' - x) <= lin_window mn mx nb x /\ lin_slot_spec mn mx nb x' s.

(* --- Add on a LogHist (base b, m bins per power): BinToValue(i)^m = b^i --- *)
Definition log_slot_spec (b : Q) (m nb : nat) (x : Q) (s : slot) : Prop :=
  match s with
  | SUnder => x <= 0 \/ Qpow x m < 1
  | SBin i => 0 < x /\ (i < nb)%nat /\ log_edge_pow b i <= Qpow x m /\ Qpow x m < log_edge_pow b (S i)
  | SOver => 0 < x /\ log_edge_pow b nb <= Qpow x m
  end.
(* either the counter the edges select, or — only when x^m is within relative delta_log k
   = k * 2^-46 of an inner/last edge b^k, 1 <= k <= nbins — the counter on the other side of
   that edge.  There is NO window at the first edge b^0 = 1. *)
Definition log_add_spec (b : Q) (m nb : nat) (x : Q) (s : slot) : Prop :=
  log_slot_spec b m nb x s \/
  exists k, (1 <= k <= nb)%nat /\ 0 < x /\
    ((s = SBin (k - 1) /\ log_edge_pow b k <= Qpow x m /\ Qpow x m <= log_edge_pow b k * (1 + delta_log k)) \/
     (s = dispatch nb (Z.of_nat k) /\ log_edge_pow b k * (1 - delta_log k) <= Qpow x m /\ Qpow x m < log_edge_pow b k)).

Definition add_spec (k : hkind) (nb : nat) (x : Q) (s : slot) : Prop :=
  match k with
  | KLin mn mx => lin_add_spec mn mx nb x s
  | KLog b m => log_add_spec (inject_Z b) m nb x s
  | KFix => False                   (* the harness-defined histogram has no Add *)
  end.
(* the exact reading (verdict 0) *)
Definition add_spec_exact (k : hkind) (nb : nat) (x : Q) (s : slot) : Prop :=
  match k with
  | KLin mn mx => lin_slot_spec mn mx nb x s
  | KLog b m => log_slot_spec (inject_Z b) m nb x s
  | KFix => False
  end.

(* --- BinToValue --- *)
(* v ~ b^(num/den / m): the defining relation log_btv_rel  v^(m*den) = b^num  of Properties/C14.v
   up to the relative tolerance 2*(m*den)*tol_log_v bin on the power *)
Definition log_btv_approx (b : Q) (m num den : nat) (bin v : Q) : Prop :=
  0 < v /\ Qabs (Qpow v (m * den) - Qpow b num) <= 2 * Qofnat (m * den) * tol_log_v bin * Qpow b num.

Definition btv_spec (k : hkind) (nb : nat) (bin v : Q) : Prop :=
  match k with
  | KLin mn mx => Qabs (v - lin_bin_to_value mn mx nb bin) <= tol_lin_btv mn mx (lin_bin_to_value mn mx nb bin)
  | KLog b m => exists num den : nat, (0 < den)%nat /\ bin == Qofnat num / Qofnat den /\ (m * den <= 64)%nat /\
                                       log_btv_approx (inject_Z b) m num den bin v
  | KFix => v == bin
  end.

(* --- HistogramQuantile --- *)
(* goal = uint(float64(total)*q): floor of total*q, of its correctly rounded float, or of
   total*q*(1 -/+ 2^-50) *)
Definition goal_window (total : N) (q : Q) (g : Z) : Prop :=
  let tq := QofN total * q in
  g = Qfloor tq \/ g = Qfloor (round53 tq) \/ g = Qfloor (tq * (1 - eps_goal)) \/ g = Qfloor (tq * (1 + eps_goal)).

(* the value the recorded BinToValue call returned for the fractional bin  bin + j/c *)
Definition ret_spec (k : hkind) (nb bin : nat) (j c : N) (arg ret : Q) : Prop :=
  let pos := Qofnat bin + QofN j / QofN c in
  match k with
  | KFix => ret == arg
  | KLin mn mx => Qabs (ret - lin_bin_to_value mn mx nb pos) <= tol_lin_btv mn mx (lin_bin_to_value mn mx nb pos)
  | KLog b m =>
      let bq := inject_Z b in
      0 < ret /\
      (* inside the bin holding the sample: BinToValue(bin)^m = b^bin, up to slack_in_bin = 2^-40 *)
      log_edge_pow bq bin * (1 - slack_in_bin) <= Qpow ret m /\ Qpow ret m <= log_edge_pow bq (S bin) * (1 + slack_in_bin) /\
      (* and, when the power is small enough to compute, the geometric interpolation itself *)
      ((m * N.to_nat c <= 48)%nat -> log_btv_approx bq m (bin * N.to_nat c + N.to_nat j) (N.to_nat c) pos ret)
  end.

(* what the recorded block says about the goal-th smallest sample *)
Definition qblock_spec (k : hkind) (h : hstate) (goal : N) (blk : qblock) : Prop :=
  (* the sample is in the under- or over-flow (or goal = 0): NaN, BinToValue never called *)
  (((goal <= h_under h)%N \/ (h_total h - h_over h < goal)%N) /\
   qb_status blk = 0%Z /\ qb_ncalls blk = 0%Z /\ qb_res blk = XNaN)
  \/
  (* the sample lies in bin [bin] (rank j of c inside it): exactly one BinToValue call, at
     bin + j/c to within 4 ulp, whose value is what HistogramQuantile returned *)
  (exists bin c arg ret res,
     nth_error (h_bins h) bin = Some c /\ (below h bin < goal <= below h bin + c)%N /\
     qb_status blk = 0%Z /\ qb_ncalls blk = 1%Z /\
     qb_arg blk = XFin arg /\ qb_ret blk = XFin ret /\ qb_res blk = XFin res /\ res == ret /\
     let j := (goal - below h bin)%N in
     let pos := Qofnat bin + QofN j / QofN c in
     Qabs (arg - pos) <= 4 * ulp53 * pos /\ ret_spec k (length (h_bins h)) bin j c arg ret).

Definition quant_spec (k : hkind) (h : hstate) (q : Q) (blk : qblock) : Prop :=
  exists g, goal_window (h_total h) q g /\ qblock_spec k h (Z.to_N g) blk.
(* the exact reading (verdict 0): the goal is floor(total*q) *)
Definition quant_spec_exact (k : hkind) (h : hstate) (q : Q) (blk : qblock) : Prop :=
  qblock_spec k h (hist_goal (h_total h) q) blk.

Definition iqr_spec (b75 b25 : qblock) (status : Z) (iqr : xreal) : Prop :=
  status = 0%Z /\
  match qb_res b75, qb_res b25 with
  | XFin a, XFin b => exists v, iqr = XFin v /\ Qabs (v - (a - b)) <= 2 * ulp53 * (Qabs a + Qabs b)
  | _, _ => iqr = XNaN
  end.

(* --- one recorded operation, against the counters [h] the comparator tracks --- *)
Definition op_ok (k : hkind) (h : hstate) (op : hop) : Prop :=
  let nb := length (h_bins h) in
  match op with
  | OAdd x nch idx delta =>
      nch = 1%Z /\ delta = 1%Z /\ exists s, code_slot nb idx = Some s /\ valid_slot nb s /\ add_spec k nb x s
  | OBtv bin obs => exists v, obs = XFin v /\ btv_spec k nb bin v
  | OQuant q blk => quant_spec k h q blk
  | OCounts u cs o => u = Z.of_N (h_under h) /\ cs = map Z.of_N (h_bins h) /\ o = Z.of_N (h_over h)
  | OIqr b75 b25 status iqr => quant_spec k h (3 # 4) b75 /\ quant_spec k h (1 # 4) b25 /\ iqr_spec b75 b25 status iqr
  end.
Definition op_ok_exact (k : hkind) (h : hstate) (op : hop) : Prop :=
  let nb := length (h_bins h) in
  match op with
  | OAdd x nch idx delta =>
      nch = 1%Z /\ delta = 1%Z /\ exists s, code_slot nb idx = Some s /\ valid_slot nb s /\ add_spec_exact k nb x s
  | OQuant q blk => quant_spec_exact k h q blk
  | OIqr b75 b25 status iqr => quant_spec_exact k h (3 # 4) b75 /\ quant_spec_exact k h (1 # 4) b25 /\ iqr_spec b75 b25 status iqr
  | _ => op_ok k h op
  end.

(* the counters after an operation: only an Add changes them, and it increments exactly the
   counter whose index the implementation reported *)
Definition next_state (h : hstate) (op : hop) : hstate :=
  match op with
  | OAdd _ _ idx _ => match code_slot (length (h_bins h)) idx with Some s => h_incr h s | None => h end
  | _ => h
  end.

Fixpoint ops_ok (k : hkind) (h : hstate) (ops : list hop) : Prop :=
  match ops with [] => True | op :: rest => op_ok k h op /\ ops_ok k (next_state h op) rest end.
Fixpoint ops_ok_exact (k : hkind) (h : hstate) (ops : list hop) : Prop :=
  match ops with [] => True | op :: rest => op_ok_exact k h op /\ ops_ok_exact k (next_state h op) rest end.

(* ====================================================================== *)
(* 2. Small facts                                                          *)
(* ====================================================================== *)
Lemma In_dedupZ x l : In x (dedupZ l) <-> In x l.
Proof.
  induction l as [|y l IH]; cbn; [tauto|].
  destruct (existsb (Z.eqb y) l) eqn:E.
  - rewrite IH. split; [auto|]. intros [->|H]; [|exact H].
    apply existsb_exists in E. destruct E as (z & Hz & Ez). apply Z.eqb_eq in Ez. now subst.
  - cbn. rewrite IH. tauto.
Qed.
Lemma existsb_Zeqb x l : existsb (Z.eqb x) l = true <-> In x l.
Proof.
  rewrite existsb_exists. split.
  - intros (y & Hy & E). apply Z.eqb_eq in E. now subst.
  - intro H. exists x. split; [exact H|apply Z.eqb_refl].
Qed.

Lemma code_slot_code nb s : valid_slot nb s -> code_slot nb (slot_code nb s) = Some s.
Proof.
  unfold code_slot, slot_code. destruct s as [|i|]; cbn; intro H.
  - reflexivity.
  - destruct (Z.of_nat i =? -1)%Z eqn:E1; [apply Z.eqb_eq in E1; lia|].
    destruct (Z.of_nat i =? Z.of_nat nb)%Z eqn:E2; [apply Z.eqb_eq in E2; lia|].
    destruct (0 <=? Z.of_nat i)%Z eqn:E3; [|apply Z.leb_gt in E3; lia].
    destruct (Z.of_nat i <? Z.of_nat nb)%Z eqn:E4; [|apply Z.ltb_ge in E4; lia].
    cbn. now rewrite Nat2Z.id.
  - destruct (Z.of_nat nb =? -1)%Z eqn:E1; [apply Z.eqb_eq in E1; lia|]. now rewrite Z.eqb_refl.
Qed.
Lemma code_slot_valid nb c s : code_slot nb c = Some s -> valid_slot nb s.
Proof.
  unfold code_slot. destruct (c =? -1)%Z; [intro H; injection H as <-; exact I|].
  destruct (c =? Z.of_nat nb)%Z; [intro H; injection H as <-; exact I|].
  destruct ((0 <=? c)%Z && (c <? Z.of_nat nb)%Z) eqn:E; [|discriminate].
  intro H; injection H as <-. apply andb_prop in E. destruct E as [E1 E2].
  apply Z.leb_le in E1. apply Z.ltb_lt in E2. cbn. lia.
Qed.

Lemma h_incr_nbins h s : length (h_bins (h_incr h s)) = length (h_bins h).
Proof. destruct s; cbn; auto using incr_nth_length. Qed.
Lemma next_state_nbins h op : length (h_bins (next_state h op)) = length (h_bins h).
Proof. destruct op; cbn; auto. destruct (code_slot _ _); auto using h_incr_nbins. Qed.

(* ====================================================================== *)
(* 3. Add                                                                  *)
(* ====================================================================== *)
Lemma lin_slot_spec_iff mn mx nb x s : mn < mx -> (0 < nb)%nat ->
  (lin_slot mn mx nb x = s <-> lin_slot_spec mn mx nb x s).
Proof.
  intros H1 H2. destruct s as [|i|]; cbn.
  - apply lin_under_iff; assumption.
  - apply lin_bin_iff_edges; assumption.
  - apply lin_over_iff; assumption.
Qed.

Lemma lin_pos_btv mn mx nb t : mn < mx -> (0 < nb)%nat -> lin_pos mn mx nb (lin_bin_to_value mn mx nb t) == t.
Proof.
  intros H1 H2. unfold lin_pos, lin_bin_to_value. pose proof (Qofnat_pos nb H2) as P. field. split; lra.
Qed.

Lemma lin_window_eq mn mx nb x : mn < mx -> (0 < nb)%nat ->
  (eps_lin * Qabs (lin_pos mn mx nb x) + tiny) * ((mx - mn) / Qofnat nb) == lin_window mn mx nb x.
Proof.
  intros H1 H2. unfold lin_window, lin_pos. pose proof (Qofnat_pos nb H2) as P.
  assert (E : Qofnat nb * (x - mn) / (mx - mn) == (x - mn) * (Qofnat nb / (mx - mn))) by (field; lra).
  rewrite E, Qabs_Qmult.
  assert (Pd : 0 < Qofnat nb / (mx - mn)) by (apply Qlt_shift_div_l; lra).
  rewrite (Qabs_pos (Qofnat nb / (mx - mn))) by lra.
  field. split; lra.
Qed.

(* every admissible index is the floor of a position within e of the exact position *)
Lemma lin_cands_sound mn mx nb x c : In c (lin_cands mn mx nb x) ->
  exists t', c = Qfloor t' /\ Qabs (t' - lin_pos mn mx nb x) <= eps_lin * Qabs (lin_pos mn mx nb x) + tiny.
Proof.
  unfold lin_cands. set (t := lin_pos mn mx nb x). set (e := eps_lin * Qabs t + tiny).
  assert (He : 0 <= e).
  { unfold e. pose proof (Qabs_nonneg t). assert (0 <= eps_lin) by (unfold eps_lin; discriminate).
    assert (0 <= tiny) by (unfold tiny; discriminate). assert (0 <= eps_lin * Qabs t) by (apply Qmult_le_0_compat; assumption). lra. }
  assert (A0 : Qabs (t - t) <= e) by (setoid_replace (t - t) with 0 by ring; exact He).
  assert (A1 : Qabs (t - e - t) <= e).
  { setoid_replace (t - e - t) with (- e) by ring. rewrite Qabs_opp, Qabs_pos; lra. }
  assert (A2 : Qabs (t + e - t) <= e).
  { setoid_replace (t + e - t) with e by ring. rewrite Qabs_pos; lra. }
  match goal with |- In c (if ?b then _ else _) -> _ => destruct b end; cbn; intros H.
  - destruct H as [<-|[]]. exists t. split; [reflexivity|exact A0].
  - destruct H as [<-|[<-|[<-|[]]]]; [exists t|exists (t - e)|exists (t + e)]; (split; [reflexivity|assumption]).
Qed.

Lemma lin_add_sound mn mx nb x c s : mn < mx -> (0 < nb)%nat ->
  In c (lin_cands mn mx nb x) -> s = dispatch nb c -> lin_add_spec mn mx nb x s.
Proof.
  intros H1 H2 Hc ->. destruct (lin_cands_sound _ _ _ _ _ Hc) as (t' & -> & Ht).
  pose proof (Qofnat_pos nb H2) as P.
  exists (lin_bin_to_value mn mx nb t'). split.
  - rewrite <- lin_window_eq by assumption.
    assert (E : lin_bin_to_value mn mx nb t' - x == (t' - lin_pos mn mx nb x) * ((mx - mn) / Qofnat nb)).
    { unfold lin_bin_to_value, lin_pos. field. split; lra. }
    rewrite E, Qabs_Qmult.
    assert (Pd : 0 < (mx - mn) / Qofnat nb) by (apply Qlt_shift_div_l; lra).
    rewrite (Qabs_pos ((mx - mn) / Qofnat nb)) by lra.
    apply Qmult_le_compat_r; [exact Ht|lra].
  - apply lin_slot_spec_iff; try assumption. unfold lin_slot, lin_bin. f_equal.
    apply Qfloor_comp. apply lin_pos_btv; assumption.
Qed.

Lemma lin_cands_head mn mx nb x : exists l, lin_cands mn mx nb x = Qfloor (lin_pos mn mx nb x) :: l.
Proof. unfold lin_cands. match goal with |- context [if ?b then _ else _] => destruct b end; eauto. Qed.

Lemma log_slot_spec_iff b m nb x s : 1 < b -> (0 < m)%nat ->
  (log_slot b m nb x = s <-> log_slot_spec b m nb x s).
Proof.
  intros Hb Hm. destruct s as [|i|]; unfold log_slot_spec.
  - apply log_under_iff; assumption.
  - destruct (Qlt_le_dec 0 x) as [Hx|Hx].
    + pose proof (log_bin_iff_edges b m nb Hb Hm x i Hx) as E. tauto.
    + split; [|intros [H _]; lra]. intro H.
      assert (U : log_slot b m nb x = SUnder) by (apply log_under_iff; auto). congruence.
  - destruct (Qlt_le_dec 0 x) as [Hx|Hx].
    + pose proof (log_over_iff b m nb Hb Hm x Hx) as E. tauto.
    + split; [|intros [H _]; lra]. intro H.
      assert (U : log_slot b m nb x = SUnder) by (apply log_under_iff; auto). congruence.
Qed.

Lemma log_capped_nonneg b m nb x : (0 <= log_bin_capped b m nb x)%Z -> 0 < x /\ 1 <= Qpow x m.
Proof.
  unfold log_bin_capped. destruct (Qle_bool x 0) eqn:E0; [intro; lia|].
  destruct (Qltb (Qpow x m) 1) eqn:E1; [intro; lia|]. intros _.
  apply Qle_bool_false in E0. apply CheckBase.Qltb_false in E1. split; assumption.
Qed.

Lemma log_add_sound b m nb x c s : 1 < b -> (0 < m)%nat ->
  In c (log_cands b m nb x) -> s = dispatch nb c -> log_add_spec b m nb x s.
Proof.
  intros Hb Hm Hc ->. unfold log_cands in Hc. set (i0 := log_bin_capped b m nb x) in *.
  destruct (i0 <? 0)%Z eqn:E0.
  - destruct Hc as [<-|[]]. left. apply log_slot_spec_iff; try assumption. reflexivity.
  - apply Z.ltb_ge in E0. destruct (log_capped_nonneg b m nb x E0) as [Hx Hy].
    pose proof (log_capped_spec b m nb Hm x Hx Hy) as S. cbv zeta in S. fold i0 in S.
    destruct S as [[R0 R1] [R2 R3]].
    destruct Hc as [<-|Hc]; [left; apply log_slot_spec_iff; try assumption; reflexivity|].
    apply in_app_or in Hc. right. destruct Hc as [Hc|Hc].
    + (* just above the edge b^i0, counted below it *)
      match type of Hc with In _ (if ?t then _ else _) => destruct t eqn:N end; [|destruct Hc].
      destruct Hc as [<-|[]]. apply andb_prop in N. destruct N as [N1 N2].
      apply Z.leb_le in N1. apply Qle_bool_iff in N2.
      exists (Z.to_nat i0). split; [lia|]. split; [exact Hx|]. left. unfold log_edge_pow.
      split; [|split; [exact R2|exact N2]].
      unfold dispatch. destruct (i0 - 1 <? 0)%Z eqn:A; [apply Z.ltb_lt in A; lia|].
      destruct (Z.of_nat nb <=? i0 - 1)%Z eqn:B; [apply Z.leb_le in B; lia|].
      f_equal. lia.
    + (* just below the edge b^(i0+1), counted above it *)
      match type of Hc with In _ (if ?t then _ else _) => destruct t eqn:N end; [|destruct Hc].
      destruct Hc as [<-|[]]. apply andb_prop in N. destruct N as [N1 N2].
      apply Z.ltb_lt in N1. apply Qle_bool_iff in N2.
      exists (S (Z.to_nat i0)). split; [lia|]. split; [exact Hx|]. right. unfold log_edge_pow.
      split; [f_equal; lia|]. split.
      * cbn [Qpow]. eapply Qle_trans; [|exact N2]. apply Qle_lteq. right. ring.
      * exact (R3 N1).
Qed.

(* exact reading: the first candidate is the exact index *)
Lemma log_cands_head b m nb x : exists l, log_cands b m nb x = log_bin_capped b m nb x :: l.
Proof. unfold log_cands. destruct (log_bin_capped b m nb x <? 0)%Z; eauto. Qed.

(* ====================================================================== *)
(* 4. BinToValue                                                           *)
(* ====================================================================== *)
Lemma close_pow_sound b p num bin v : close_pow b p num bin v = true ->
  0 < v /\ Qabs (Qpow v p - Qpow b num) <= 2 * Qofnat p * tol_log_v bin * Qpow b num.
Proof.
  unfold close_pow. intro H. apply andb_prop in H. destruct H as [H1 H2].
  apply CheckBase.Qltb_true in H1. cbv zeta in H2. apply within_sound in H2. split; assumption.
Qed.

Lemma log_btv_ok_sound b m bin v : log_btv_ok b m bin v = true ->
  exists num den : nat, (0 < den)%nat /\ bin == Qofnat num / Qofnat den /\ (m * den <= 64)%nat /\
                        log_btv_approx b m num den bin v.
Proof.
  unfold log_btv_ok. cbv zeta. set (r := Qred bin).
  destruct (Qnum r <? 0)%Z eqn:E1; [discriminate|]. apply Z.ltb_ge in E1.
  destruct (64 <? m * Pos.to_nat (Qden r))%nat eqn:E2; [discriminate|]. apply Nat.ltb_ge in E2.
  intro H. apply close_pow_sound in H.
  exists (Z.to_nat (Qnum r)), (Pos.to_nat (Qden r)).
  split; [apply Pos2Nat.is_pos|]. split; [|split; [exact E2|exact H]].
  unfold Qofnat. rewrite Z2Nat.id by exact E1. rewrite positive_nat_Z. rewrite <- Qmake_Qdiv.
  assert (E : Qnum r # Qden r = r) by (destruct r; reflexivity). rewrite E. unfold r. symmetry. apply Qred_correct.
Qed.

(* ====================================================================== *)
(* 5. HistogramQuantile                                                    *)
(* ====================================================================== *)
Lemma ret_ok_sound k nb bin j c arg ret : ret_ok k nb bin j c arg ret = true -> ret_spec k nb bin j c arg ret.
Proof.
  unfold ret_ok, ret_spec. cbv zeta. destruct k as [mn mx|b m|].
  - apply within_sound.
  - intro H. apply andb_prop in H. destruct H as [H H4]. apply andb_prop in H. destruct H as [H H3].
    apply andb_prop in H. destruct H as [H1 H2].
    apply CheckBase.Qltb_true in H1. apply Qle_bool_iff in H2. apply Qle_bool_iff in H3.
    unfold log_edge_pow. split; [exact H1|]. split; [exact H2|]. split.
    + cbn [Qpow]. eapply Qle_trans; [exact H3|]. apply Qle_lteq. right. ring.
    + intro Hp. apply Nat.leb_le in Hp. rewrite Hp in H4. apply close_pow_sound in H4. exact H4.
  - apply Qeq_bool_iff.
Qed.

Lemma xsame_fin a o : xsame (XFin a) o = true -> exists r, o = XFin r /\ r == a.
Proof. destruct o as [| |r]; cbn; try discriminate. intro H. apply Qeq_bool_iff in H. exists r. split; [reflexivity|]. symmetry. exact H. Qed.
Lemma is_nan_true o : is_nan o = true -> o = XNaN.
Proof. destruct o; cbn; try discriminate. reflexivity. Qed.

Lemma quantile_goal0 h : hist_quantile_goal h 0 = QNaN.
Proof. unfold hist_quantile_goal. assert (E : (0 <=? h_under h)%N = true) by (apply N.leb_le; lia). rewrite E. reflexivity. Qed.

Lemma qblock_ok_sound k h goal blk :
  qblock_ok k (length (h_bins h)) (hist_quantile_goal h goal) blk = true -> qblock_spec k h goal blk.
Proof.
  unfold qblock_ok, qblock_spec. destruct (hist_quantile_goal h goal) as [|bin j c|] eqn:R.
  - intro H. apply andb_prop in H. destruct H as [H H3]. apply andb_prop in H. destruct H as [H1 H2].
    apply Z.eqb_eq in H1. apply Z.eqb_eq in H2. apply is_nan_true in H3.
    left. apply hist_quantile_nan_iff in R. auto.
  - intro H. apply andb_prop in H. destruct H as [H H3]. apply andb_prop in H. destruct H as [H1 H2].
    apply Z.eqb_eq in H1. apply Z.eqb_eq in H2.
    assert (G0 : (0 < goal)%N).
    { destruct (N.eq_dec goal 0) as [->|]; [rewrite quantile_goal0 in R; discriminate|lia]. }
    destruct (hist_quantile_inside_bin h goal bin j c G0 R) as (Hn & Hj & Hg & _).
    destruct (qb_arg blk) as [| |arg] eqn:EA; try discriminate.
    destruct (qb_ret blk) as [| |ret] eqn:ER; try discriminate.
    cbv zeta in H3. apply andb_prop in H3. destruct H3 as [H3 H5]. apply andb_prop in H3. destruct H3 as [H3 H4].
    apply within_sound in H3. apply ret_ok_sound in H4. apply xsame_fin in H5. destruct H5 as (res & ERes & Eres).
    right. exists bin, c, arg, ret, res.
    assert (Ej : (goal - below h bin)%N = j) by lia.
    split; [exact Hn|]. split; [lia|]. split; [exact H1|]. split; [exact H2|].
    split; [reflexivity|]. split; [reflexivity|]. split; [exact ERes|]. split; [exact Eres|].
    cbv zeta. rewrite Ej. split; [exact H3|exact H4].
  - intros _. exfalso. exact (hist_quantile_total h goal R).
Qed.

Lemma goal_cands_sound total q g : In g (goal_cands total q) -> goal_window total q g.
Proof.
  unfold goal_cands, goal_window. cbv zeta.
  destruct (is_pow2 (Qden (Qred (QofN total * q)))); rewrite In_dedupZ; cbn; intuition.
Qed.
Lemma goal_cands_exact total q : In (Qfloor (QofN total * q)) (goal_cands total q).
Proof.
  unfold goal_cands. cbv zeta.
  destruct (is_pow2 (Qden (Qred (QofN total * q)))); rewrite In_dedupZ; cbn; auto.
Qed.

Lemma quant_check_sound k h q blk : quant_check k h q blk <> 2%Z -> quant_spec k h q blk.
Proof.
  unfold quant_check, quant_spec. cbv zeta.
  match goal with |- context [if existsb ?f ?l then _ else _] => destruct (existsb f l) eqn:E end; [|congruence].
  intros _. apply existsb_exists in E. destruct E as (b0 & Hin & ->).
  apply in_map_iff in Hin. destruct Hin as (g & Hg & Hin).
  exists g. split; [apply goal_cands_sound; exact Hin|apply qblock_ok_sound; exact Hg].
Qed.
Lemma quant_check_exact k h q blk : quant_check k h q blk = 0%Z -> quant_spec_exact k h q blk.
Proof.
  unfold quant_check, quant_spec_exact. cbv zeta.
  match goal with |- context [if existsb ?f ?l then _ else _] => destruct (existsb f l) eqn:E end; [|discriminate].
  match goal with |- context [if forallb ?f ?l then _ else _] => destruct (forallb f l) eqn:F end; [|discriminate].
  intros _. rewrite forallb_forall in F.
  apply qblock_ok_sound. unfold hist_goal. apply F. apply in_map_iff.
  exists (Qfloor (QofN (h_total h) * q)). split; [reflexivity|apply goal_cands_exact].
Qed.
Lemma quant_check_range k h q blk : let v := quant_check k h q blk in v = 0%Z \/ v = 1%Z \/ v = 2%Z.
Proof.
  unfold quant_check. cbv zeta.
  match goal with |- context [if existsb ?f ?l then _ else _] => destruct (existsb f l) end; [|auto].
  match goal with |- context [if forallb ?f ?l then _ else _] => destruct (forallb f l) end; auto.
Qed.

Lemma qblock_spec_status k h g blk : qblock_spec k h g blk -> qb_status blk = 0%Z.
Proof. intros [(_ & H & _)|(bin & c & arg & ret & res & _ & _ & H & _)]; exact H. Qed.
Lemma quant_spec_status k h q blk : quant_spec k h q blk -> qb_status blk = 0%Z.
Proof. intros (g & _ & H). eapply qblock_spec_status; exact H. Qed.

Lemma iqr_ok_sound b75 b25 status iqr : qb_status b75 = 0%Z -> qb_status b25 = 0%Z ->
  iqr_ok b75 b25 status iqr = true -> iqr_spec b75 b25 status iqr.
Proof.
  unfold iqr_ok, iqr_spec. intros -> ->. cbn [Z.eqb orb]. intro H. apply andb_prop in H. destruct H as [H1 H2].
  apply Z.eqb_eq in H1. split; [exact H1|].
  destruct (qb_res b75) as [| |a]; try (apply is_nan_true; exact H2).
  destruct (qb_res b25) as [| |b]; try (apply is_nan_true; exact H2).
  destruct iqr as [| |v]; try discriminate. exists v. split; [reflexivity|]. apply within_sound. exact H2.
Qed.

(* ====================================================================== *)
(* 6. One operation, a whole history                                       *)
(* ====================================================================== *)
(* what the parser guarantees about the shape *)
Definition kind_ok (k : hkind) (nb : nat) : Prop :=
  match k with
  | KLin mn mx => mn < mx /\ (0 < nb)%nat
  | KLog b m => (2 <= b)%Z /\ (0 < m)%nat
  | KFix => True
  end.
Lemma base_gt1 b : (2 <= b)%Z -> 1 < inject_Z b.
Proof. intro H. change 1 with (inject_Z 1). rewrite <- Zlt_Qlt. lia. Qed.

Lemma add_cands_sound k nb x c s : kind_ok k nb -> In c (add_cands k nb x) -> s = dispatch nb c -> add_spec k nb x s.
Proof.
  destruct k as [mn mx|b m|]; cbn; intros K Hc Hs.
  - destruct K. eapply lin_add_sound; eassumption.
  - destruct K as [K1 K2]. eapply log_add_sound; try eassumption. apply base_gt1; exact K1.
  - destruct Hc.
Qed.
Lemma add_cands_head k nb x c s : kind_ok k nb -> add_cands k nb x <> [] ->
  (forall c', In c' (add_cands k nb x) -> slot_code nb (dispatch nb c') = slot_code nb (dispatch nb c)) ->
  In c (add_cands k nb x) -> s = dispatch nb c -> add_spec_exact k nb x s.
Proof.
  destruct k as [mn mx|b m|]; cbn; intros K Hne Hall Hc Hs.
  - destruct K as [K1 K2]. apply lin_slot_spec_iff; try assumption.
    destruct (lin_cands_head mn mx nb x) as (l & E).
    assert (Hh : In (Qfloor (lin_pos mn mx nb x)) (lin_cands mn mx nb x)) by (rewrite E; left; reflexivity).
    apply Hall in Hh. subst s. unfold lin_slot, lin_bin.
    pose proof (code_slot_code nb _ (dispatch_valid nb (Qfloor (lin_pos mn mx nb x)))) as A.
    pose proof (code_slot_code nb _ (dispatch_valid nb c)) as B. rewrite Hh in A. congruence.
  - destruct K as [K1 K2]. apply log_slot_spec_iff; try assumption; [apply base_gt1; exact K1|].
    destruct (log_cands_head (inject_Z b) m nb x) as (l & E).
    assert (Hh : In (log_bin_capped (inject_Z b) m nb x) (log_cands (inject_Z b) m nb x)) by (rewrite E; left; reflexivity).
    apply Hall in Hh. subst s. unfold log_slot.
    pose proof (code_slot_code nb _ (dispatch_valid nb (log_bin_capped (inject_Z b) m nb x))) as A.
    pose proof (code_slot_code nb _ (dispatch_valid nb c)) as B. rewrite Hh in A. congruence.
  - destruct Hc.
Qed.

Lemma length1 {A} (l : list A) : (length l =? 1)%nat = true -> exists a, l = [a].
Proof. destruct l as [|a [|b l]]; cbn; try discriminate. eauto. Qed.

Lemma step_sound k h op h' v t d : kind_ok k (length (h_bins h)) ->
  step k h op = (h', v, t, d) -> v <> 2%Z ->
  op_ok k h op /\ h' = next_state h op /\ (v = 0%Z \/ v = 1%Z) /\ (v = 0%Z -> op_ok_exact k h op).
Proof.
  intros K H Hv. unfold step in H. cbv zeta in H. destruct op as [x nch idx delta|bin obs|q blk|u cs o|b75 b25 status iqr].
  - (* Add *)
    unfold op_ok, op_ok_exact, next_state. cbv zeta.
    destruct (code_slot (length (h_bins h)) idx) as [s|] eqn:CS; [|injection H as _ <- _ _; congruence].
    match type of H with context [if ?g then _ else _] => destruct g eqn:G end; [|injection H as _ <- _ _; congruence].
    injection H as <- <- _ _.
    apply andb_prop in G. destruct G as [G G3]. apply andb_prop in G. destruct G as [G1 G2].
    apply Z.eqb_eq in G1. apply Z.eqb_eq in G2. apply existsb_Zeqb in G3.
    pose proof G3 as G3'. apply (proj1 (In_dedupZ _ _)) in G3. apply in_map_iff in G3. destruct G3 as (c & Ec & Hc).
    assert (Es : s = dispatch (length (h_bins h)) c).
    { pose proof (code_slot_code _ _ (dispatch_valid (length (h_bins h)) c)) as A. rewrite Ec in A. congruence. }
    assert (V : valid_slot (length (h_bins h)) s) by (subst s; apply dispatch_valid).
    split; [|split; [reflexivity|split]].
    + split; [exact G1|]. split; [exact G2|]. exists s. split; [reflexivity|]. split; [exact V|].
      eapply add_cands_sound; eassumption.
    + match goal with |- context [if ?b then _ else _] => destruct b end; auto.
    + intro E0.
      match type of E0 with context [if ?b then _ else _] => destruct b eqn:B end; [discriminate|].
      apply Bool.negb_false_iff in B. apply length1 in B. destruct B as (z & Ez).
      split; [exact G1|]. split; [exact G2|]. exists s. split; [reflexivity|]. split; [exact V|].
      eapply (add_cands_head k _ x c s K); try eassumption.
      * intro E. rewrite E in Hc. destruct Hc.
      * intros c' Hc'. assert (A : In (slot_code (length (h_bins h)) (dispatch (length (h_bins h)) c')) [z]).
        { rewrite <- Ez. apply In_dedupZ.
          exact (in_map (fun c0 => slot_code (length (h_bins h)) (dispatch (length (h_bins h)) c0)) _ _ Hc'). }
        assert (B : In idx [z]) by (rewrite <- Ez; exact G3').
        destruct A as [A|[]]. destruct B as [B|[]]. rewrite Ec. congruence.
  - (* BinToValue *)
    injection H as <- <- _ _.
    match type of Hv with context [if ?g then _ else _] => destruct g eqn:G end; [|congruence].
    assert (A : op_ok k h (OBtv bin obs)).
    { unfold op_ok. cbv zeta. destruct obs as [| |v]; try discriminate. exists v. split; [reflexivity|].
      unfold btv_spec. destruct k as [mn mx|b m|].
      - apply within_sound. exact G.
      - apply log_btv_ok_sound. exact G.
      - apply Qeq_bool_iff. exact G. }
    split; [exact A|]. split; [reflexivity|]. split; [auto|]. intros _. exact A.
  - (* Quantile *)
    injection H as <- <- _ _.
    split; [apply quant_check_sound; exact Hv|]. split; [reflexivity|]. split.
    + pose proof (quant_check_range k h q blk) as R. cbv zeta in R. tauto.
    + apply quant_check_exact.
  - (* Counts *)
    injection H as <- <- _ _.
    match type of Hv with context [if ?g then _ else _] => destruct g eqn:G end; [|congruence].
    assert (A : op_ok k h (OCounts u cs o)).
    { unfold op_ok. apply andb_prop in G. destruct G as [G G3]. apply andb_prop in G. destruct G as [G1 G2].
      apply Z.eqb_eq in G1. apply Z.eqb_eq in G3. unfold Ns_eq in G2. apply list_Z_eqb_eq in G2. auto. }
    split; [exact A|]. split; [reflexivity|]. split; [auto|]. intros _. exact A.
  - (* IQR *)
    injection H as <- <- _ _.
    set (v1 := quant_check k h (3 # 4) b75) in *. set (v2 := quant_check k h (1 # 4) b25) in *.
    pose proof (quant_check_range k h (3 # 4) b75) as R1. pose proof (quant_check_range k h (1 # 4) b25) as R2.
    cbv zeta in R1, R2. fold v1 in R1. fold v2 in R2.
    destruct (iqr_ok b75 b25 status iqr) eqn:G; [|exfalso; apply Hv; lia].
    assert (N1 : v1 <> 2%Z) by (intro E; apply Hv; lia).
    assert (N2 : v2 <> 2%Z) by (intro E; apply Hv; lia).
    pose proof (quant_check_sound k h _ _ N1) as S1. pose proof (quant_check_sound k h _ _ N2) as S2.
    pose proof (iqr_ok_sound _ _ _ _ (quant_spec_status _ _ _ _ S1) (quant_spec_status _ _ _ _ S2) G) as S3.
    split; [unfold op_ok; auto|]. split; [reflexivity|]. split; [lia|].
    intro E0. assert (v1 = 0%Z /\ v2 = 0%Z) as [E1 E2] by lia.
    unfold op_ok_exact. split; [apply quant_check_exact; exact E1|]. split; [apply quant_check_exact; exact E2|exact S3].
Qed.

Lemma kind_ok_next k h op : kind_ok k (length (h_bins h)) -> kind_ok k (length (h_bins (next_state h op))).
Proof. now rewrite next_state_nbins. Qed.

Lemma run_ops_sound k : forall ops h idx code tag c t p d, kind_ok k (length (h_bins h)) ->
  run_ops k h ops idx code tag = (c, t, p, d) -> c <> 2%Z -> ops_ok k h ops.
Proof.
  induction ops as [|op ops IH]; intros h idx code tag c t p d K R Hc; [exact I|].
  cbn [run_ops] in R. destruct (step k h op) as [[[h' v] t1] d1] eqn:S.
  destruct (v =? 2)%Z eqn:E; [injection R as <- _ _ _; congruence|]. apply Z.eqb_neq in E.
  destruct (step_sound k h op h' v t1 d1 K S E) as (A & -> & _ & _).
  cbn [ops_ok]. split; [exact A|]. eapply IH; [apply kind_ok_next; exact K|exact R|exact Hc].
Qed.

(* verdict 0: no borderline window was used anywhere *)
Lemma run_ops_exact k : forall ops h idx code tag t p d, kind_ok k (length (h_bins h)) -> (0 <= code)%Z ->
  run_ops k h ops idx code tag = (0%Z, t, p, d) -> code = 0%Z /\ ops_ok_exact k h ops.
Proof.
  induction ops as [|op ops IH]; intros h idx code tag t p d K C R.
  - cbn in R. injection R as -> _ _ _. split; [reflexivity|exact I].
  - cbn [run_ops] in R. destruct (step k h op) as [[[h' v] t1] d1] eqn:S.
    destruct (v =? 2)%Z eqn:E; [injection R as R _ _ _; discriminate|]. apply Z.eqb_neq in E.
    destruct (step_sound k h op h' v t1 d1 K S E) as (_ & -> & Rv & Ex).
    assert (C' : (0 <= Z.max code v)%Z) by lia.
    destruct (IH _ _ _ _ _ _ _ (kind_ok_next k h op K) C' R) as [M Rest].
    assert (v = 0%Z /\ code = 0%Z) as [V0 C0] by lia.
    split; [exact C0|]. cbn [ops_ok_exact]. split; [apply Ex; exact V0|exact Rest].
Qed.

(* the tracked counters: initial counters plus, for every counter, the number of recorded Adds
   whose reported index names it *)
Fixpoint final_state (h : hstate) (ops : list hop) : hstate :=
  match ops with [] => h | op :: rest => final_state (next_state h op) rest end.
Definition adds_at (nb : nat) (s : slot) (ops : list hop) : N :=
  N.of_nat (length (filter (fun op => match op with
                                      | OAdd _ _ idx _ => match code_slot nb idx with Some s' => slot_eqb s' s | None => false end
                                      | _ => false end) ops)).
Lemma tracked_counts : forall ops h s c, valid_slot (length (h_bins h)) s -> slot_count h s = Some c ->
  slot_count (final_state h ops) s = Some (c + adds_at (length (h_bins h)) s ops)%N.
Proof.
  induction ops as [|op ops IH]; intros h s c V Hc.
  - cbn. rewrite Hc. f_equal. unfold adds_at. cbn. lia.
  - cbn [final_state]. unfold adds_at. cbn [filter].
    destruct op as [x nch idx delta| | | |]; try (cbn [next_state]; apply IH; assumption).
    cbn [next_state]. destruct (code_slot (length (h_bins h)) idx) as [s'|] eqn:CS; [|apply IH; assumption].
    pose proof (code_slot_valid _ _ _ CS) as V'.
    destruct (h_incr_exactly h s' V') as (_ & (c0 & A1 & A2) & A3 & A4).
    destruct (slot_eqb s' s) eqn:E.
    + apply slot_eqb_eq in E. subst s'. rewrite Hc in A1. injection A1 as <-.
      rewrite (IH (h_incr h s) s (c + 1)%N); [|rewrite A4; exact V|exact A2].
      rewrite h_incr_nbins. unfold adds_at. f_equal. cbn [length]. lia.
    + assert (Hne : s <> s') by (intro; subst; rewrite (proj2 (slot_eqb_eq s' s') eq_refl) in E; discriminate).
      rewrite (IH (h_incr h s') s c); [|rewrite A4; exact V|rewrite (A3 s Hne); exact Hc].
      rewrite h_incr_nbins. reflexivity.
Qed.

(* ====================================================================== *)
(* 7. The shape and the whole line                                         *)
(* ====================================================================== *)
Definition log_nbins_exact (b : Q) (m : nat) (mx : Q) (n : nat) : Prop :=
  Qpow mx m <= Qpow b n /\ match n with O => True | S j => Qpow b j < Qpow mx m end.
Definition log_nbins_window (b : Q) (m : nat) (mx : Q) (n : nat) : Prop :=
  Qpow mx m <= Qpow b n * (1 + delta_log n) /\ match n with O => True | S j => Qpow b j * (1 - delta_log j) < Qpow mx m end.

(* [l] = the integers of the line after the leading 14, [r] = what follows the shape.
   The observed construction results are the last field(s) of the shape: len(Counts) for a
   LinearHist; status and len(Counts) for a LogHist. *)
Definition shape_spec (k : hkind) (h0 : hstate) (v0 : Z) (l r : list Z) : Prop :=
  match k with
  | KLin mn mx => exists bmn bmx nbz nobs, l = 0%Z :: bmn :: bmx :: nbz :: nobs :: r /\
       decode_bits bmn = XFin mn /\ decode_bits bmx = XFin mx /\ mn < mx /\ (0 < nbz)%Z /\
       h0 = h_empty (Z.to_nat nbz) /\ (v0 <> 2%Z -> nobs = nbz)
  | KLog b m => exists mz bmx mx st nobs, l = 1%Z :: b :: mz :: bmx :: st :: nobs :: r /\
       decode_bits bmx = XFin mx /\ (2 <= b)%Z /\ (0 < mz)%Z /\ m = Z.to_nat mz /\ 1 <= mx /\ (0 <= nobs)%Z /\
       h0 = h_empty (Z.to_nat nobs) /\
       (v0 <> 2%Z -> st = 0%Z /\ (log_nbins_exact (inject_Z b) m mx (Z.to_nat nobs) \/
                                  log_nbins_window (inject_Z b) m mx (Z.to_nat nobs))) /\
       (v0 = 0%Z -> log_nbins_exact (inject_Z b) m mx (Z.to_nat nobs))
  | KFix => True      (* harness-defined counters; nothing is observed at construction *)
  end.

Lemma log_nbins_ok_exact b m mx n : log_nbins_ok b m mx n = true -> log_nbins_exact b m mx n.
Proof.
  unfold log_nbins_ok, log_nbins_exact. intro H. apply andb_prop in H. destruct H as [H1 H2].
  apply Qle_bool_iff in H1. split; [exact H1|]. destruct n; [exact I|]. apply CheckBase.Qltb_true. exact H2.
Qed.
Lemma log_nbins_relaxed_window b m mx n : log_nbins_relaxed b m mx n = true -> log_nbins_window b m mx n.
Proof.
  unfold log_nbins_relaxed, log_nbins_window. cbv zeta. intro H. apply andb_prop in H. destruct H as [H1 H2].
  apply Qle_bool_iff in H1. split; [exact H1|]. destruct n; [exact I|]. apply CheckBase.Qltb_true. exact H2.
Qed.

Lemma h_empty_nbins n : length (h_bins (h_empty n)) = n.
Proof. cbn. apply repeat_length. Qed.

Lemma p_shape_sound l k h0 v0 t0 r : p_shape l = Some ((k, h0, v0, t0), r) ->
  kind_ok k (length (h_bins h0)) /\ shape_spec k h0 v0 l r /\ (0 <= v0)%Z.
Proof.
  unfold p_shape. intro H. apply pbind_some in H. destruct H as (kind & l1 & Hk & H). apply pZ_some in Hk. subst l.
  destruct (kind =? 0)%Z eqn:E0.
  { apply Z.eqb_eq in E0. subst kind.
    apply pbind_some in H. destruct H as (mn & l2 & Hmn & H). apply pQ_some in Hmn. destruct Hmn as (bmn & -> & Dmn).
    apply pbind_some in H. destruct H as (mx & l3 & Hmx & H). apply pQ_some in Hmx. destruct Hmx as (bmx & -> & Dmx).
    apply pbind_some in H. destruct H as (nb & l4 & Hnb & H). apply pnat_some in Hnb. destruct Hnb as (nbz & -> & Pnb & ->).
    apply pbind_some in H. destruct H as (nobs & l5 & Hno & H). apply pZ_some in Hno. subst l4.
    destruct (Qltb mn mx && (0 <? Z.to_nat nbz)%nat) eqn:G; [|discriminate].
    apply pret_some in H. destruct H as [H ->]. injection H as -> -> -> ->.
    apply andb_prop in G. destruct G as [G1 G2]. apply CheckBase.Qltb_true in G1. apply Nat.ltb_lt in G2.
    rewrite h_empty_nbins. split; [split; assumption|]. split.
    - exists bmn, bmx, nbz, nobs.
      split; [reflexivity|]. split; [exact Dmn|]. split; [exact Dmx|]. split; [exact G1|]. split; [lia|].
      split; [reflexivity|].
      intro N. destruct (nobs =? Z.of_nat (Z.to_nat nbz))%Z eqn:E; [|congruence]. apply Z.eqb_eq in E. lia.
    - destruct (nobs =? Z.of_nat (Z.to_nat nbz))%Z; lia. }
  destruct (kind =? 1)%Z eqn:E1.
  { apply Z.eqb_eq in E1. subst kind.
    apply pbind_some in H. destruct H as (b & l2 & Hb & H). apply pZ_some in Hb. subst l1.
    apply pbind_some in H. destruct H as (m & l3 & Hm & H). apply pnat_some in Hm. destruct Hm as (mz & -> & Pm & ->).
    apply pbind_some in H. destruct H as (mx & l4 & Hmx & H). apply pQ_some in Hmx. destruct Hmx as (bmx & -> & Dmx).
    apply pbind_some in H. destruct H as (st & l5 & Hst & H). apply pZ_some in Hst. subst l4.
    apply pbind_some in H. destruct H as (nobs & l6 & Hno & H). apply pnat_some in Hno. destruct Hno as (noz & -> & Pno & ->).
    destruct ((2 <=? b)%Z && (0 <? Z.to_nat mz)%nat && Qle_bool 1 mx) eqn:G; [|discriminate].
    apply pret_some in H. destruct H as [H ->]. injection H as -> -> -> ->.
    apply andb_prop in G. destruct G as [G G3]. apply andb_prop in G. destruct G as [G1 G2].
    apply Z.leb_le in G1. apply Nat.ltb_lt in G2. apply Qle_bool_iff in G3.
    split; [split; assumption|]. split.
    - exists mz, bmx, mx, st, noz.
      split; [reflexivity|]. split; [exact Dmx|]. split; [exact G1|]. split; [lia|]. split; [reflexivity|].
      split; [exact G3|]. split; [exact Pno|]. split; [reflexivity|]. split.
      + intro N. destruct (negb (st =? 0)%Z) eqn:S; [congruence|]. split.
        * apply Bool.negb_false_iff in S. apply Z.eqb_eq in S. exact S.
        * destruct (log_nbins_ok (inject_Z b) (Z.to_nat mz) mx (Z.to_nat noz)) eqn:O; [left; apply log_nbins_ok_exact; exact O|].
          destruct (log_nbins_relaxed (inject_Z b) (Z.to_nat mz) mx (Z.to_nat noz)) eqn:W; [right; apply log_nbins_relaxed_window; exact W|congruence].
      + destruct (negb (st =? 0)%Z) eqn:S; [discriminate|].
        destruct (log_nbins_ok (inject_Z b) (Z.to_nat mz) mx (Z.to_nat noz)) eqn:O; [intros _; apply log_nbins_ok_exact; exact O|].
        destruct (log_nbins_relaxed (inject_Z b) (Z.to_nat mz) mx (Z.to_nat noz)); discriminate.
    - destruct (negb (st =? 0)%Z); [lia|]. destruct (log_nbins_ok _ _ _ _); [lia|]. destruct (log_nbins_relaxed _ _ _ _); lia. }
  destruct (kind =? 2)%Z eqn:E2; [|discriminate].
  apply pbind_some in H. destruct H as (u & l2 & Hu & H).
  apply pbind_some in H. destruct H as (cs & l3 & Hcs & H).
  apply pbind_some in H. destruct H as (o & l4 & Ho & H).
  match type of H with (if ?g then _ else _) _ = _ => destruct g end; [discriminate|].
  apply pret_some in H. destruct H as [H ->]. injection H as -> -> -> ->.
  split; [exact I|]. split; [exact I|lia].
Qed.

(* the parse of a whole line *)
Lemma p_line_inv line k h0 v0 t0 ops rest : p_line line = Some ((k, h0, v0, t0, ops), rest) ->
  exists l r, line = 14%Z :: l /\ p_shape l = Some ((k, h0, v0, t0), r) /\ plist p_hop r = Some (ops, []) /\ rest = [].
Proof.
  unfold p_line. intro H. apply pbind_some in H. destruct H as (tg & l & Ht & H). apply pZ_some in Ht. subst line.
  destruct (negb (tg =? 14)%Z) eqn:E; [discriminate|]. apply Bool.negb_false_iff in E. apply Z.eqb_eq in E. subst tg.
  apply pbind_some in H. destruct H as ([[[k' h'] v'] t'] & r & Hs & H).
  apply pbind_some in H. destruct H as (ops' & r2 & Ho & H). apply pend_some in H. destruct H as (H & -> & ->).
  injection H as -> -> -> -> ->. exists l, r. auto.
Qed.

Definition case_ok (line : list Z) (k : hkind) (h0 : hstate) (v0 : Z) (ops : list hop) : Prop :=
  (exists l r, line = 14%Z :: l /\ shape_spec k h0 v0 l r) /\ ops_ok k h0 ops.
Definition case_ok_exact (line : list Z) (k : hkind) (h0 : hstate) (v0 : Z) (ops : list hop) : Prop :=
  (exists l r, line = 14%Z :: l /\ shape_spec k h0 v0 l r) /\ v0 = 0%Z /\ ops_ok_exact k h0 ops.

Theorem check_ok_sound line c tag pos diag k h0 v0 t0 ops rest :
  check_C14 line = verdict c tag pos diag -> (c = 0 \/ c = 1)%Z ->
  p_line line = Some ((k, h0, v0, t0, ops), rest) ->
  v0 <> 2%Z /\ case_ok line k h0 v0 ops.
Proof.
  intros H Hc P. unfold check_C14 in H. rewrite P in H.
  destruct (p_line_inv _ _ _ _ _ _ _ P) as (l & r & -> & Hs & _ & _).
  destruct (p_shape_sound _ _ _ _ _ _ Hs) as (K & Sh & V0).
  destruct (v0 =? 2)%Z eqn:E.
  { apply verdict_inj in H. destruct H as [H _]. unfold V_MISMATCH in H. lia. }
  apply Z.eqb_neq in E. split; [exact E|].
  destruct (run_ops k h0 ops 0 v0 0) as [[[code tg] ps] dg] eqn:R.
  apply verdict_inj in H. destruct H as [H _]. subst code.
  split; [exists l, r; auto|]. eapply run_ops_sound; [exact K|exact R|lia].
Qed.

Theorem check_ok_exact line tag pos diag k h0 v0 t0 ops rest :
  check_C14 line = verdict 0 tag pos diag ->
  p_line line = Some ((k, h0, v0, t0, ops), rest) ->
  case_ok_exact line k h0 v0 ops.
Proof.
  intros H P. unfold check_C14 in H. rewrite P in H.
  destruct (p_line_inv _ _ _ _ _ _ _ P) as (l & r & -> & Hs & _ & _).
  destruct (p_shape_sound _ _ _ _ _ _ Hs) as (K & Sh & V0).
  destruct (v0 =? 2)%Z eqn:E.
  { apply verdict_inj in H. destruct H as [H _]. unfold V_MISMATCH in H. lia. }
  destruct (run_ops k h0 ops 0 v0 0) as [[[code tg] ps] dg] eqn:R.
  apply verdict_inj in H. destruct H as [H _]. subst code.
  destruct (run_ops_exact k ops h0 _ _ _ _ _ _ K V0 R) as [Z0 Ex].
  split; [exists l, r; auto|]. split; assumption.
Qed.

(* a line that parses is never accepted without every operation having been compared:
   acceptance of an unparsable line is impossible *)
Theorem check_accepts_only_parsed line c tag pos diag :
  check_C14 line = verdict c tag pos diag -> (c = 0 \/ c = 1)%Z -> exists cs, p_line line = Some (cs, []).
Proof.
  intros H Hc. unfold check_C14 in H. destruct (p_line line) as [[[[[[k h0] v0] t0] ops] rest]|] eqn:P.
  - destruct (p_line_inv _ _ _ _ _ _ _ P) as (l & r & _ & _ & _ & ->). eauto.
  - apply verdict_inj in H. destruct H as [H _]. unfold V_MALFORMED in H. lia.
Qed.

(* per-operation reading: the n-th recorded operation was compared against the counters
   obtained from the initial ones by the Adds recorded before it (see [tracked_counts]) *)
Lemma ops_ok_nth k : forall ops h n op, ops_ok k h ops -> nth_error ops n = Some op ->
  op_ok k (final_state h (firstn n ops)) op.
Proof.
  induction ops as [|o ops IH]; intros h [|n] op H E; cbn in *; try discriminate.
  - injection E as <-. tauto.
  - apply IH; tauto.
Qed.
Lemma ops_ok_exact_nth k : forall ops h n op, ops_ok_exact k h ops -> nth_error ops n = Some op ->
  op_ok_exact k (final_state h (firstn n ops)) op.
Proof.
  induction ops as [|o ops IH]; intros h [|n] op H E; cbn in *; try discriminate.
  - injection E as <-. tauto.
  - apply IH; tauto.
Qed.

(* ====================================================================== *)
(* 8. The goal window, without the Check-side rounding function            *)
(* ====================================================================== *)
(* round53 (round-to-nearest-even of a positive rational to 53 significant bits of its
   numerator) moves its argument by at most 2^-52 relative; so every admissible goal is the
   floor of a number within relative eps_goal = 2^-50 of total*q. *)
Lemma Qabs_eq0 a b : a == b -> Qabs (a - b) == 0.
Proof. intro E. setoid_replace (a - b) with 0 by lra. reflexivity. Qed.

Lemma round53_err q : Qabs (round53 q - q) <= eps_goal * Qabs q.
Proof.
  assert (NN : 0 <= eps_goal * Qabs q).
  { apply Qmult_le_0_compat; [unfold eps_goal; discriminate|apply Qabs_nonneg]. }
  unfold round53. cbv zeta. set (r := Qred q). assert (Er : r == q) by apply Qred_correct.
  destruct (Qnum r <=? 0)%Z eqn:E1; [rewrite (Qabs_eq0 _ _ Er); exact NN|]. apply Z.leb_gt in E1.
  destruct (Z.log2 (Qnum r) + 1 <=? 53)%Z eqn:E2; [rewrite (Qabs_eq0 _ _ Er); exact NN|]. apply Z.leb_gt in E2.
  set (n := Qnum r) in *. set (d := Qden r).
  set (sh := (Z.log2 n + 1 - 53)%Z). assert (Hsh : (0 < sh)%Z) by (unfold sh; lia).
  set (P := (2 ^ sh)%Z). assert (HP : (0 < P)%Z) by (apply Z.pow_pos_nonneg; lia).
  set (m := Z.shiftr n sh).
  assert (Em : m = (n / P)%Z) by (unfold m, P; apply Z.shiftr_div_pow2; lia).
  assert (Esl : forall k, Z.shiftl k sh = (k * P)%Z) by (intro k; unfold P; apply Z.shiftl_mul_pow2; lia).
  pose proof (Z.div_mod n P ltac:(lia)) as DM. pose proof (Z.mod_pos_bound n P HP) as MB.
  rewrite <- Em in DM.
  assert (Hbig : (P * 2 ^ 52 <= n)%Z).
  { pose proof (Z.log2_spec n E1) as [L _]. replace (Z.log2 n) with (sh + 52)%Z in L by (unfold sh; lia).
    rewrite Z.pow_add_r in L by lia. exact L. }
  match goal with |- Qabs ((Z.shiftl ?mm sh # _) - q) <= _ => set (m' := mm) end.
  assert (Hm' : (Z.abs (m' * P - n) <= P)%Z).
  { unfold m'. match goal with |- context [if ?b then _ else _] => destruct b end; nia. }
  rewrite Esl.
  setoid_replace q with (n # d) by (rewrite <- Er; unfold n, d; destruct r; reflexivity).
  assert (Ediff : (m' * P # d) - (n # d) == (m' * P - n # d)).
  { unfold Qminus, Qplus, Qopp, Qeq. cbn. nia. }
  rewrite Ediff. unfold Qabs at 1.
  assert (Habs : Qabs (n # d) == n # d) by (apply Qabs_pos; unfold Qle; cbn; lia).
  rewrite Habs. unfold eps_goal, Qle, Qmult. cbn [Qnum Qden].
  set (A := Z.abs (m' * P - n)) in *.
  assert (E50 : Z.pos (2 ^ 50) = (2 ^ 50)%Z) by reflexivity.
  rewrite Pos2Z.inj_mul, E50.
  assert (H52 : (2 ^ 52 = 4 * 2 ^ 50)%Z) by reflexivity.
  nia.
Qed.

Lemma goal_window_close total q g : goal_window total q g ->
  exists t', Qabs (t' - QofN total * q) <= eps_goal * Qabs (QofN total * q) /\ g = Qfloor t'.
Proof.
  unfold goal_window. cbv zeta. set (tq := QofN total * q).
  assert (NN : 0 <= eps_goal * Qabs tq).
  { apply Qmult_le_0_compat; [unfold eps_goal; discriminate|apply Qabs_nonneg]. }
  assert (Ee : Qabs (eps_goal * tq) == eps_goal * Qabs tq).
  { rewrite Qabs_Qmult. rewrite (Qabs_pos eps_goal) by (unfold eps_goal; discriminate). reflexivity. }
  intros [->|[->|[->| ->]]].
  - exists tq. split; [rewrite (Qabs_eq0 tq tq) by reflexivity; exact NN|reflexivity].
  - exists (round53 tq). split; [apply round53_err|reflexivity].
  - exists (tq * (1 - eps_goal)). split; [|reflexivity].
    setoid_replace (tq * (1 - eps_goal) - tq) with (- (eps_goal * tq)) by ring. rewrite Qabs_opp, Ee. apply Qle_refl.
  - exists (tq * (1 + eps_goal)). split; [|reflexivity].
    setoid_replace (tq * (1 + eps_goal) - tq) with (eps_goal * tq) by ring. rewrite Ee. apply Qle_refl.
Qed.

(* Proofs/CheckC15.v — what an accepted verdict (code 0 ok / 1 borderline) of check_C15 MEANS.
   The case line parses completely into a case, and every observed number is within the stated tolerance
   of the SPECIFICATION-level value:
   * LinearLeastSquares / PolynomialRegression: the observed coefficients have a weighted residual that is
     orthogonal to every basis function to 1e-9 of its natural scale (exact arithmetic on the exact design),
     and are within tol_rel(kappa) * max|beta| of THE minimiser beta of the weighted sum of squares
     (kappa = kappa_inf of the normal matrix, read off an explicit verified inverse); F(x) is within 1e-12 of
     sum_i c_i x^i for the OBSERVED coefficients c; the LinearLeastSquares twin on the monomial basis is
     held to the same minimiser;
   * LOESS: every value is within loess_tol of p(x), p THE minimiser of the tricube-weighted sum of squares
     over the window of q points of the sorted data, q and the window start being the exact ones (code 0)
     or the ones the code takes on the correctly rounded float64 product / sum (code 1);
   * the "unmodified" flag was set on every accepted path, panics occurred exactly where stated;
   * HISTORY: the results read again after other fits ran (parameters, Coefficients, F at every query, the
     twin's parameters, every LOESS query) equal the first reading.
   The only accepted cases with NO numeric claim: a design whose normal matrix is NOT regular (confirmed by
   the complete solver), a LOESS window that coincides with the query (d = 0), kappa > 1e11 (orthogonality
   still holds for LLS / PolynomialRegression).  All closed under the global context. *)
From MM Require Import Base.Num Model.Fit Spec.Fit Proofs.Fit Proofs.FitSolve Proofs.FitLoess Check.C15 Proofs.FitCheck Proofs.CheckBase.
From Coq Require Import Lqa Setoid Morphisms Permutation.
Local Open Scope Q_scope.

(* ---------------------------------------------------------------------- *)
(* generic readings                                                        *)
(* ---------------------------------------------------------------------- *)
Lemma all_fin_spec : forall l qs, all_fin l = Some qs -> l = map XFin qs.
Proof.
  induction l as [|a l IH]; intros qs H; cbn in H.
  - injection H as <-. reflexivity.
  - destruct a as [| |q]; try discriminate. destruct (all_fin l) as [r|]; [|discriminate].
    injection H as <-. cbn. f_equal. now apply IH.
Qed.

Lemma first_bad_none {A} (f : A -> bool) l : first_bad f l = None -> Forall (fun a => f a = true) l.
Proof.
  unfold first_bad. generalize 0%Z. induction l as [|a l IH]; intros i H; [constructor|].
  destruct (f a) eqn:E; [|discriminate]. constructor; [exact E | exact (IH _ H)].
Qed.

Lemma forallb_Forall {A} (f : A -> bool) l : forallb f l = true -> Forall (fun a => f a = true) l.
Proof. intro H. apply Forall_forall. now apply forallb_forall. Qed.

Lemma Forall2_nth' {A B} (P : A -> B -> Prop) da db : forall l1 l2, Forall2 P l1 l2 ->
  length l1 = length l2 /\ forall c, (c < length l1)%nat -> P (nth c l1 da) (nth c l2 db).
Proof.
  induction 1 as [|a b l1 l2 Hab F IH]; [split; [reflexivity | intros c Hc; inversion Hc]|].
  destruct IH as [L N]. split; [cbn; now rewrite L|]. intros [|c] Hc; [exact Hab|]. cbn in *. apply N. lia.
Qed.

Lemma eqb_len0 {A} (l : list A) : (length l =? 0)%nat = true -> l = [].
Proof. destruct l; [reflexivity | discriminate]. Qed.
Lemma eqb_len0_false {A} (l : list A) : (length l =? 0)%nat = false -> l <> [].
Proof. destruct l; [discriminate | intros _ H; discriminate H]. Qed.

(* the re-read observables: the same value (both NaN, the same infinity, or equal numbers) *)
Definition xsame_p (a b : xreal) : Prop :=
  match a, b with
  | XNaN, XNaN => True
  | XInf s, XInf t => s = t
  | XFin p, XFin q => q == p
  | _, _ => False
  end.
Lemma xeq_same a b : xeq a b = true -> xsame_p a b.
Proof.
  destruct a as [|s|p].
  - intro H. apply xeq_nan in H. now subst.
  - intro H. apply xeq_inf in H. now subst.
  - intro H. apply xeq_fin in H as (q & -> & Hq). exact Hq.
Qed.
Lemma xlist_eq_spec : forall a b, xlist_eq a b = true -> Forall2 xsame_p a b.
Proof.
  induction a as [|x a IH]; intros [|y b] H; cbn in H; try discriminate; constructor.
  - apply andb_prop in H as [H _]. now apply xeq_same.
  - apply andb_prop in H as [_ H]. now apply IH.
Qed.
(* a LOESS query read again: same status, same value *)
Definition requery_p (qd : Q * Z * xreal) (r : Z * xreal) : Prop := snd (fst qd) = fst r /\ xsame_p (snd qd) (snd r).
Lemma reread_ok_spec : forall qs rqs, reread_ok qs rqs = true -> Forall2 requery_p qs rqs.
Proof.
  induction qs as [|[[x st] v] qs IH]; intros [|[st' v'] rqs] H; cbn in H; try discriminate; constructor.
  - apply andb_prop in H as [H _]. apply andb_prop in H as [H1 H2]. split; cbn; [now apply Z.eqb_eq | now apply xeq_same].
  - apply andb_prop in H as [_ H]. now apply IH.
Qed.

(* ---------------------------------------------------------------------- *)
(* the reference fit                                                       *)
(* ---------------------------------------------------------------------- *)
(* kappa is ||A||_inf * ||A^-1||_inf for an explicit, verified inverse: columns N_c / D with A.(N_c / D) = e_c *)
Definition cond_of (A : list (list Q)) (kap : Q) : Prop :=
  exists (inv : list (list Z)) (D : Z), D <> 0%Z /\ length inv = length A /\
    (forall c, (c < length A)%nat ->
       Forall2 Qeq (mat_vec A (sol_to_Q D (nth c inv []))) (unit_vec (length A) c)) /\
    kap == norm_inf A * (inject_Z (inv_norm_Z (length A) inv) / inject_Z (Z.abs D)).

Lemma solve_cond_kappa A b beta kap : solve_cond A b = Some (beta, kap) -> cond_of A kap.
Proof.
  unfold solve_cond. destruct (solve_multi_Z A _) as [[[|N invcols] D]|] eqn:E; try discriminate.
  intros H; inversion H; subst; clear H. apply solve_multi_Z_sound in E as [HD F].
  inversion F as [|b0 N0 bs Ns _ F']; subst.
  destruct (Forall2_nth' _ (@nil Q) (@nil Z) _ _ F') as [L Nth].
  rewrite map_length, seq_length in L.
  exists invcols, D. split; [exact HD|]. split; [now rewrite <- L|]. split.
  - intros c Hc. assert (Hc' : (c < length (map (unit_vec (length A)) (seq 0 (length A))))%nat)
      by now rewrite map_length, seq_length.
    specialize (Nth c Hc').
    rewrite (nth_indep _ [] (unit_vec (length A) 0) Hc'), map_nth, seq_nth in Nth by exact Hc. cbn in Nth.
    now apply sol_ok_sound in Nth as (S1 & _ & _).
  - unfold kappa_of. now rewrite Qred_correct.
Qed.

(* beta is THE minimiser of the weighted sum of squares of the design, with its condition number:
   orthogonal residual, no coefficient vector does better, and on independent columns none does as well *)
Definition fit_spec (n : nat) (cols : list (list Q)) (w y beta : list Q) (kap : Q) : Prop :=
  length beta = length cols /\
  (forall j, (j < length cols)%nat -> orth_at cols w y beta j == 0) /\
  (forall beta', length beta' = length cols -> SSR cols w y beta <= SSR cols w y beta') /\
  (indep_cols n cols w -> forall beta', length beta' = length cols ->
     SSR cols w y beta' <= SSR cols w y beta -> Forall2 Qeq beta' beta) /\
  cond_of (normal_lhs cols w) kap.

Lemma fit_ref_ok n cols w y beta kap : fit_ref cols w y = FitOk beta kap ->
  wf_design n cols w y -> (forall i, (i < n)%nat -> 0 <= vn w i) -> fit_spec n cols w y beta kap.
Proof.
  unfold fit_ref. destruct (fit_cond cols w y) as [[b k]|] eqn:E; [|destruct (lls_solve cols w y); discriminate].
  intros H Hwf Hw. injection H as -> ->.
  destruct (fit_cond_minimises n cols w y beta kap E Hwf Hw) as (L & O & M).
  split; [exact L|]. split; [exact O|]. split; [exact M|]. split.
  - intros Hi beta' L' S. exact (minimiser_unique n cols w y beta beta' Hwf Hw Hi L L' M S).
  - unfold fit_cond in E. exact (solve_cond_kappa _ _ _ _ E).
Qed.

Lemma fit_ref_singular cols w y : fit_ref cols w y = FitSingular -> ~ regular (normal_lhs cols w).
Proof.
  unfold fit_ref. destruct (fit_cond cols w y) as [[b k]|]; [discriminate|].
  destruct (lls_solve cols w y) eqn:E; [discriminate|]. intros _ R.
  unfold lls_solve in E.
  destruct (solve_checked_complete (normal_lhs cols w) (normal_rhs cols w y) (normal_square cols w)) as [beta Hb].
  - unfold normal_rhs, normal_lhs. now rewrite !map_length.
  - exact R.
  - congruence.
Qed.

(* ---------------------------------------------------------------------- *)
(* the orthogonality defect computed by the comparator is the specification's *)
(* ---------------------------------------------------------------------- *)
Lemma vn_repeat0 n i : vn (repeat 0 n) i == 0.
Proof. unfold vn. revert i. induction n; intros [|i]; cbn; try reflexivity. apply IHn. Qed.
Lemma vadd_len a b : length (vadd a b) = Nat.min (length a) (length b).
Proof. revert b. induction a as [|x a IH]; intros [|y b]; cbn; auto. Qed.
Lemma vadd_vn : forall a b i, (i < length a)%nat -> (i < length b)%nat -> vn (vadd a b) i == vn a i + vn b i.
Proof.
  induction a as [|x a IH]; intros [|y b] i Ha Hb; cbn [length] in Ha, Hb; try lia.
  destruct i as [|i]; unfold vn; cbn [vadd nth]; [unfold qadd; apply Qred_correct|]. apply IH; lia.
Qed.
Lemma vsub_vn : forall a b i, (i < length a)%nat -> (i < length b)%nat -> vn (vsub a b) i == vn a i - vn b i.
Proof.
  induction a as [|x a IH]; intros [|y b] i Ha Hb; cbn [length] in Ha, Hb; try lia.
  destruct i as [|i]; unfold vn; cbn [vsub nth]; [apply Qred_correct|]. apply IH; lia.
Qed.
Lemma vsub_len a b : length (vsub a b) = Nat.min (length a) (length b).
Proof. revert b. induction a as [|x a IH]; intros [|y b]; cbn; auto. Qed.

Lemma fitted_len ab n : forall cols beta, Forall (fun c => length c = n) cols -> length (fitted ab n cols beta) = n.
Proof.
  induction cols as [|c cols IH]; intros beta Hc; cbn; [now rewrite repeat_length|].
  destruct beta as [|b bs]; [now rewrite repeat_length|].
  inversion Hc; subst. rewrite vadd_len, map_length, IH by assumption. apply Nat.min_id.
Qed.
Lemma fitted_vn n i : (i < n)%nat -> forall cols beta, length beta = length cols -> Forall (fun c => length c = n) cols ->
  vn (fitted false n cols beta) i == fit_at cols beta i.
Proof.
  intros Hi. unfold fit_at. induction cols as [|c cols IH]; intros beta Lb Hc.
  - cbn. apply vn_repeat0.
  - destruct beta as [|b bs]; [discriminate|]. inversion Hc; subst. cbn [fitted length sum_n].
    rewrite vadd_vn by (rewrite ?map_length, ?fitted_len; auto).
    rewrite IH by (auto; cbn in Lb; lia).
    unfold vn at 1. rewrite (nth_indep _ 0 (0 * b)) by now rewrite map_length.
    rewrite (map_nth (fun v => v * b) c 0 i).
    unfold Xe at 1. cbn [nth]. rewrite vn_cons_O. fold (vn c i).
    assert (E : sum_n (fun i0 => vn (b :: bs) (S i0) * Xe (c :: cols) (S i0) i) (length cols)
                == sum_n (fun j => vn bs j * Xe cols j i) (length cols)).
    { apply sum_n_ext. intros j _. rewrite vn_cons_S. unfold Xe. cbn [nth]. reflexivity. }
    rewrite E. unfold Xe. cbn [nth]. ring.
Qed.

Lemma orth_defect_spec n cols w y beta_go j : wf_design n cols w y -> length beta_go = length cols ->
  (j < length cols)%nat -> orth_defect cols w y beta_go (nth j cols []) == orth_at cols w y beta_go j.
Proof.
  intros (Hy & Hw & Hc) Lb Hj. unfold orth_defect, orth_at. rewrite Hy.
  assert (Lc : length (nth j cols []) = n) by (rewrite Forall_forall in Hc; apply Hc, nth_In, Hj).
  rewrite (dot3_sum _ _ _ n) by (rewrite ?vsub_len, ?fitted_len, ?Hy; auto using Nat.min_id).
  apply sum_n_ext. intros i Hi.
  rewrite vsub_vn by (rewrite ?fitted_len, ?Hy; auto).
  rewrite (fitted_vn n i Hi) by assumption. unfold resid_at, Xe. reflexivity.
Qed.

(* ---------------------------------------------------------------------- *)
(* one coefficient vector against the reference                            *)
(* ---------------------------------------------------------------------- *)
(* [go] are finite numbers beta_go, one per term; the weighted residual of beta_go is orthogonal to every term
   to tol_orth (1e-9) of the natural scale sum_i |c_ji| w_i (|y_i| + sum_l |c_li| |beta_go_l|) [orth_scale];
   unless kappa > kappa_max (1e11) every coefficient is within tol_rel kappa * max|beta| + 1e-12 max|y| of the
   minimiser's *)
Definition coeffs_read (cols : list (list Q)) (w y beta : list Q) (kap : Q) (go : list xreal) : Prop :=
  exists beta_go, go = map XFin beta_go /\ length beta_go = length cols /\
    (forall j, (j < length cols)%nat ->
       Qabs (orth_at cols w y beta_go j) <= tol_orth * orth_scale cols w y beta_go (nth j cols [])) /\
    (kap <= kappa_max ->
       Forall2 (fun b g => Qabs (g - b) <= coeffs_tol (tol_rel kap) (Qmaxabs y) beta) beta beta_go).

Lemma coeffs_ok_read tr ymax beta0 : forall beta beta_go,
  (length beta =? length beta_go)%nat = true ->
  forallb (fun p => within (coeffs_tol tr ymax beta0) (fst p) (snd p)) (combine beta beta_go) = true ->
  Forall2 (fun b g => Qabs (g - b) <= coeffs_tol tr ymax beta0) beta beta_go.
Proof.
  induction beta as [|b beta IH]; intros [|g bg] L H; try discriminate; constructor.
  - cbn in H. apply andb_prop in H as [H _]. now apply within_sound in H.
  - cbn in H. apply andb_prop in H as [_ H]. now apply IH.
Qed.

Lemma check_fit_read n cols w y beta kap go t : wf_design n cols w y ->
  check_fit cols w y beta kap go = (t, None) -> coeffs_read cols w y beta kap go.
Proof.
  intros Hwf. unfold check_fit. destruct (all_fin go) as [beta_go|] eqn:Ef; [|discriminate].
  destruct (length beta_go =? length cols)%nat eqn:El; cbn [negb]; [|discriminate].
  destruct (orth_ok cols w y beta_go) eqn:Eo; cbn [negb]; [|discriminate].
  apply Nat.eqb_eq in El. intros H. exists beta_go. split; [now apply all_fin_spec|]. split; [exact El|]. split.
  - intros j Hj. unfold orth_ok in Eo. rewrite forallb_forall in Eo.
    specialize (Eo (nth j cols []) (nth_In _ _ Hj)). apply Qle_bool_iff in Eo.
    now rewrite (orth_defect_spec n cols w y beta_go j Hwf El Hj) in Eo.
  - intros Hk. apply Qle_bool_iff in Hk. rewrite Hk in H.
    destruct (coeffs_ok _ _ _ _) eqn:Ec; [|discriminate].
    unfold coeffs_ok in Ec. apply andb_prop in Ec as [E1 E2]. now apply coeffs_ok_read.
Qed.

(* ---------------------------------------------------------------------- *)
(* LinearLeastSquares (op 0)                                               *)
(* ---------------------------------------------------------------------- *)
Definition lens_mismatch (nx : nat) (ys : list Q) (w : option (list Q)) : Prop :=
  length ys <> nx \/ exists l, w = Some l /\ length l <> nx.

Lemma lens_panic_true nx ys w : lens_panic nx ys w = true -> lens_mismatch nx ys w.
Proof.
  unfold lens_panic, lens_mismatch. intro H. apply Bool.orb_true_iff in H as [H|H].
  - left. apply Bool.negb_true_iff, Nat.eqb_neq in H. congruence.
  - right. destruct w as [l|]; [|discriminate]. exists l. split; [reflexivity|].
    apply Bool.negb_true_iff, Nat.eqb_neq in H. congruence.
Qed.
Lemma lens_panic_false nx ys w : lens_panic nx ys w = false -> length ys = nx /\ weights_len nx w.
Proof.
  unfold lens_panic. intro H. apply Bool.orb_false_iff in H as [H1 H2].
  apply Bool.negb_false_iff, Nat.eqb_eq in H1. split; [congruence|].
  destruct w as [l|]; cbn; [|exact I]. apply Bool.negb_false_iff, Nat.eqb_eq in H2. congruence.
Qed.
Lemma nonneg_w_true w : nonneg_w w = true -> weights_nonneg w.
Proof.
  destruct w as [l|]; cbn; [|auto]. intro H. apply forallb_Forall in H.
  eapply Forall_impl; [|exact H]. intros a Ha. now apply Qle_bool_iff.
Qed.

Lemma design_wf nx ys w cols : length ys = nx -> weights_len nx w -> weights_nonneg w ->
  Forall (fun c => length c = nx) cols ->
  let wl := weights_or_ones nx w in
  wf_design nx cols wl ys /\ (forall i, (i < nx)%nat -> 0 <= vn wl i).
Proof.
  intros Hy Hl Hn Hc wl. split.
  - split; [exact Hy|]. split; [now apply weights_or_ones_len | exact Hc].
  - now apply weights_or_ones_nonneg.
Qed.

(* an accepted LinearLeastSquares case *)
Definition lls_accept (xs ys : list Q) (w : option (list Q)) (cols : list (list Q)) (st : Z) (ps : list xreal)
  (unmod : bool) (rps : list xreal) : Prop :=
  let nx := length xs in
  xs <> [] /\ cols <> [] /\ weights_nonneg w /\ unmod = true /\
  ((lens_mismatch nx ys w /\ st = 2%Z /\ ps = [] /\ rps = [])
   \/
   (length ys = nx /\ weights_len nx w /\ Forall (fun c => length c = nx) cols /\ st = 0%Z /\
    Forall2 xsame_p ps rps /\
    let wl := weights_or_ones nx w in
    (~ regular (normal_lhs cols wl)
     \/ exists beta kap, fit_spec nx cols wl ys beta kap /\ coeffs_read cols wl ys beta kap ps))).

Ltac vbad H := apply verdict_inj in H; destruct H as (H & _); unfold V_OK, V_BORDERLINE, V_MISMATCH, V_MALFORMED in H; lia.

Theorem check_lls_sound xs ys w cols st ps u rps c tag pos diag :
  check_lls xs ys w cols st ps u rps = verdict c tag pos diag -> (c = 0 \/ c = 1)%Z ->
  lls_accept xs ys w cols st ps u rps.
Proof.
  intros H Hc. unfold check_lls in H.
  destruct ((length xs =? 0)%nat || (length cols =? 0)%nat || negb (nonneg_w w)) eqn:E0; [vbad H|].
  apply Bool.orb_false_iff in E0 as [E0 E3]. apply Bool.orb_false_iff in E0 as [E1 E2].
  apply eqb_len0_false in E1. apply eqb_len0_false in E2. apply Bool.negb_false_iff, nonneg_w_true in E3.
  unfold lls_accept. split; [exact E1|]. split; [exact E2|]. split; [exact E3|].
  destruct (lens_panic (length xs) ys w) eqn:Ep.
  - destruct ((st =? 2)%Z && u && (length ps =? 0)%nat && (length rps =? 0)%nat) eqn:Es; [|vbad H].
    apply andb_prop in Es as [Es Es4]. apply andb_prop in Es as [Es Es3]. apply andb_prop in Es as [Es1 Es2].
    split; [exact Es2|]. left. split; [now apply lens_panic_true|]. split; [now apply Z.eqb_eq|]. split; now apply eqb_len0.
  - apply lens_panic_false in Ep as [Hy Hl].
    destruct (forallb (fun c0 => (length c0 =? length xs)%nat) cols) eqn:Ec; cbn [negb] in H; [|vbad H].
    destruct (st =? 0)%Z eqn:Es; cbn [negb] in H; [|vbad H].
    destruct u; cbn [negb] in H; [|vbad H].
    destruct (xlist_eq ps rps) eqn:Er; cbn [negb] in H; [|vbad H]. apply xlist_eq_spec in Er.
    split; [reflexivity|]. right. apply Z.eqb_eq in Es.
    assert (Hcols : Forall (fun c0 => length c0 = length xs) cols).
    { apply forallb_Forall in Ec. eapply Forall_impl; [|exact Ec]. intros a Ha. now apply Nat.eqb_eq. }
    split; [exact Hy|]. split; [exact Hl|]. split; [exact Hcols|]. split; [exact Es|]. split; [exact Er|]. cbv zeta.
    destruct (design_wf (length xs) ys w cols Hy Hl E3 Hcols) as [Hwf Hwn]. cbv zeta in Hwf, Hwn.
    destruct (fit_ref cols (weights_or_ones (length xs) w) ys) as [beta kap| |] eqn:Ef; [| |vbad H].
    + right. exists beta, kap. split; [exact (fit_ref_ok _ _ _ _ _ _ Ef Hwf Hwn)|].
      destruct (check_fit _ _ _ _ _ ps) as [t [[p d]|]] eqn:Ek; [vbad H|].
      exact (check_fit_read _ _ _ _ _ _ _ _ Hwf Ek).
    + left. now apply fit_ref_singular in Ef.
Qed.

(* ---------------------------------------------------------------------- *)
(* PolynomialRegression (op 1)                                             *)
(* ---------------------------------------------------------------------- *)
(* F(x) was observed as a finite number o within 1e-12 * sum_i |c_i||x|^i of sum_i c_i x^i for the OBSERVED
   coefficients c, and (unless kappa > 1e11) within the coefficient tolerance of the minimiser's polynomial *)
Definition F_read (beta_go beta : list Q) (kap : Q) (q : Q * xreal) : Prop :=
  exists o, snd q = XFin o /\
    Qabs (o - poly_eval beta_go (fst q)) <= tol_F * F_scale beta_go (fst q) /\
    (kap <= kappa_max ->
     Qabs (o - poly_eval beta (fst q)) <=
       tol_rel kap * Qmaxabs beta * abs_powsum (fst q) (length beta) + tol_F * F_scale beta_go (fst q)).

Lemma F_ok_read beta_go beta kap q :
  F_ok beta_go (if Qle_bool kap kappa_max then Some (beta, tol_rel kap) else None) q = true ->
  F_read beta_go beta kap q.
Proof.
  destruct q as [x v]. unfold F_ok, F_read. cbn [fst snd].
  destruct (polyF beta_go x) as [own|] eqn:Eo; [|discriminate]. destruct v as [| |o]; try discriminate.
  intro H. apply andb_prop in H as [H1 H2]. exists o. split; [reflexivity|].
  apply within_sound in H1. rewrite (F_is_poly_eval _ _ _ Eo) in H1. split; [exact H1|].
  intro Hk. apply Qle_bool_iff in Hk. rewrite Hk in H2.
  destruct (polyF beta x) as [e|] eqn:Ee; [|discriminate].
  apply within_sound in H2. now rewrite (F_is_poly_eval _ _ _ Ee) in H2.
Qed.

Definition poly_accept (xs ys : list Q) (w : option (list Q)) (deg st : Z) (cs : list xreal)
  (qs : list (Q * xreal)) (lst : Z) (lps : list xreal) (unmod : bool) (rcs rfs rlps : list xreal) : Prop :=
  let nx := length xs in
  xs <> [] /\ weights_nonneg w /\ unmod = true /\
  ((((deg < 0)%Z \/ lens_mismatch nx ys w) /\ st = 2%Z /\ cs = [] /\ qs = [] /\ rcs = [] /\ rfs = [] /\ rlps = [])
   \/
   ((0 <= deg)%Z /\ length ys = nx /\ weights_len nx w /\ st = 0%Z /\ qs <> [] /\
    Forall2 xsame_p cs rcs /\ Forall2 xsame_p (map snd qs) rfs /\ Forall2 xsame_p lps rlps /\
    let wl := weights_or_ones nx w in
    let cols := monomials (Z.to_nat deg) xs in
    (~ regular (normal_lhs cols wl)
     \/ exists beta kap, fit_spec nx cols wl ys beta kap /\
          coeffs_read cols wl ys beta kap cs /\
          lst = 0%Z /\ coeffs_read cols wl ys beta kap lps /\
          exists beta_go, cs = map XFin beta_go /\ Forall (F_read beta_go beta kap) qs))).

Theorem check_poly_sound xs ys w deg st cs qs lst lps u rcs rfs rlps c tag pos diag :
  check_poly xs ys w deg st cs qs lst lps u rcs rfs rlps = verdict c tag pos diag -> (c = 0 \/ c = 1)%Z ->
  poly_accept xs ys w deg st cs qs lst lps u rcs rfs rlps.
Proof.
  intros H Hc. unfold check_poly in H.
  destruct ((length xs =? 0)%nat || negb (nonneg_w w)) eqn:E0; [vbad H|].
  apply Bool.orb_false_iff in E0 as [E1 E3].
  apply eqb_len0_false in E1. apply Bool.negb_false_iff, nonneg_w_true in E3.
  unfold poly_accept. split; [exact E1|]. split; [exact E3|].
  destruct ((deg <? 0)%Z || lens_panic (length xs) ys w) eqn:Ep.
  - destruct ((st =? 2)%Z && u && (length cs =? 0)%nat && (length qs =? 0)%nat
              && (length rcs =? 0)%nat && (length rfs =? 0)%nat && (length rlps =? 0)%nat) eqn:Es; [|vbad H].
    apply andb_prop in Es as [Es Es7]. apply andb_prop in Es as [Es Es6]. apply andb_prop in Es as [Es Es5].
    apply andb_prop in Es as [Es Es4]. apply andb_prop in Es as [Es Es3]. apply andb_prop in Es as [Es1 Es2].
    split; [exact Es2|]. left. split.
    + apply Bool.orb_true_iff in Ep as [Ep|Ep]; [left; now apply Z.ltb_lt | right; now apply lens_panic_true].
    + split; [now apply Z.eqb_eq|]. repeat split; now apply eqb_len0.
  - apply Bool.orb_false_iff in Ep as [Ed Ep]. apply Z.ltb_ge in Ed. apply lens_panic_false in Ep as [Hy Hl].
    destruct (st =? 0)%Z eqn:Es; cbn [negb] in H; [|vbad H].
    destruct u; cbn [negb] in H; [|vbad H].
    destruct (length qs =? 0)%nat eqn:Eq; [vbad H|]. apply eqb_len0_false in Eq.
    destruct (xlist_eq cs rcs && xlist_eq (map snd qs) rfs && xlist_eq lps rlps) eqn:Er; cbn [negb] in H; [|vbad H].
    apply andb_prop in Er as [Er Er3]. apply andb_prop in Er as [Er1 Er2].
    apply xlist_eq_spec in Er1. apply xlist_eq_spec in Er2. apply xlist_eq_spec in Er3.
    split; [reflexivity|]. right. apply Z.eqb_eq in Es.
    split; [exact Ed|]. split; [exact Hy|]. split; [exact Hl|]. split; [exact Es|]. split; [exact Eq|].
    split; [exact Er1|]. split; [exact Er2|]. split; [exact Er3|]. cbv zeta.
    pose proof (monomials_cols (Z.to_nat deg) xs) as Hcols.
    destruct (design_wf (length xs) ys w _ Hy Hl E3 Hcols) as [Hwf Hwn]. cbv zeta in Hwf, Hwn.
    destruct (fit_ref (monomials (Z.to_nat deg) xs) (weights_or_ones (length xs) w) ys) as [beta kap| |] eqn:Ef; [| |vbad H].
    + right. exists beta, kap. split; [exact (fit_ref_ok _ _ _ _ _ _ Ef Hwf Hwn)|].
      destruct (check_fit _ _ _ _ _ cs) as [t [[p d]|]] eqn:Ek; [vbad H|].
      split; [exact (check_fit_read _ _ _ _ _ _ _ _ Hwf Ek)|].
      destruct (lst =? 0)%Z eqn:El; cbn [negb] in H; [|vbad H]. apply Z.eqb_eq in El. split; [exact El|].
      destruct (check_fit _ _ _ _ _ lps) as [t' [[p d]|]] eqn:Ek'; [vbad H|].
      split; [exact (check_fit_read _ _ _ _ _ _ _ _ Hwf Ek')|].
      destruct (all_fin cs) as [beta_go|] eqn:Ea; [|vbad H].
      exists beta_go. split; [now apply all_fin_spec|].
      destruct (first_bad _ qs) as [i|] eqn:Eb; [vbad H|].
      apply first_bad_none in Eb. eapply Forall_impl; [|exact Eb]. intros a Ha. now apply F_ok_read.
    + left. now apply fit_ref_singular in Ef.
Qed.

(* ---------------------------------------------------------------------- *)
(* LOESS (op 2)                                                            *)
(* ---------------------------------------------------------------------- *)
(* the local design at window width q and start n0: the window of the sorted data, the distance d of its
   farthest point from x, tricube weights (all >= 0) *)
Definition window_read (sx sy : list Q) (q n0 : nat) (x : Q) (cx cy w : list Q) : Prop :=
  cx = firstn q (skipn n0 sx) /\ cy = firstn q (skipn n0 sy) /\ length cy = length cx /\
  exists d, 0 < d /\ (forall c, In c cx -> Qabs (x - c) <= d) /\ (exists c, In c cx /\ Qabs (x - c) == d) /\
            w = map (tricube x d) cx /\ Forall (Qle 0) w.

(* one query (x, status, value) under the window decision (q, n0):
   - the window is empty (no data): the closure panicked;
   - every window point coincides with x (d = 0, the weights are 0/0): it returned, no claim on the number;
   - otherwise it returned, and either the local normal matrix is not regular (no claim), or beta is THE
     minimiser of the tricube-weighted sum of squares over the window and, unless kappa > 1e11, the value is
     a finite number within loess_tol of sum_i beta_i x^i *)
Definition query_read (sx sy : list Q) (deg : nat) (q n0 : nat) (qd : Q * Z * xreal) : Prop :=
  let '(x, st, v) := qd in
  (firstn q (skipn n0 sx) = [] /\ st = 2%Z)
  \/ (loess_design sx sy q n0 x = FSingular /\ st = 0%Z)
  \/ (st = 0%Z /\ exists cx cy w, window_read sx sy q n0 x cx cy w /\
        (~ regular (normal_lhs (monomials deg cx) w)
         \/ exists beta kap, fit_spec (length cx) (monomials deg cx) w cy beta kap /\
              (kappa_max < kap
               \/ exists o, v = XFin o /\ Qabs (o - poly_eval beta x) <= loess_tol kap beta cy x))).

Lemma loess_design_panic sx sy q n0 x : loess_design sx sy q n0 x = FPanic -> firstn q (skipn n0 sx) = [].
Proof.
  unfold loess_design. destruct (firstn q (skipn n0 sx)) as [|c0 rest]; [reflexivity|].
  destruct (Qeqb _ 0); discriminate.
Qed.

Lemma firstn_skipn_len2 {A B} q n0 (a : list A) (b : list B) : length a = length b ->
  length (firstn q (skipn n0 b)) = length (firstn q (skipn n0 a)).
Proof. intro L. now rewrite !firstn_length, !skipn_length, L. Qed.

Lemma loess_query_read sx sy deg q n0 x st v : lsorted sx -> length sx = length sy -> 
  loess_query sx sy deg q n0 x st v <> 2%Z -> query_read sx sy (Z.to_nat deg) q n0 (x, st, v).
Proof.
  intros Hs Hl H. unfold loess_query in H. unfold query_read.
  destruct (loess_design sx sy q n0 x) as [[[cx cy] w]| |] eqn:Ed.
  - right. right.
    destruct (st =? 0)%Z eqn:Es; cbn [negb] in H; [|congruence]. apply Z.eqb_eq in Es. split; [exact Es|].
    exists cx, cy, w.
    destruct (loess_design_spec sx sy q n0 x cx cy w Hs Ed) as (Ex & Ey & d & Hd & Hin & Hex & Hw).
    assert (Lxy : length cy = length cx) by (subst cx cy; now apply firstn_skipn_len2).
    assert (Hwn : Forall (Qle 0) w).
    { subst w. apply Forall_forall. intros t Ht. apply in_map_iff in Ht as (c0 & <- & Hc0).
      apply tricube_nonneg; [exact Hd | now apply Hin]. }
    split; [repeat split; try assumption; exists d; repeat split; assumption|].
    assert (Hwf : wf_design (length cx) (monomials (Z.to_nat deg) cx) w cy).
    { split; [exact Lxy|]. split; [subst w; now rewrite map_length | apply monomials_cols]. }
    assert (Hwn' : forall i, (i < length cx)%nat -> 0 <= vn w i).
    { intros i Hi. apply Forall_vn_nonneg; [exact Hwn | subst w; now rewrite map_length]. }
    destruct (fit_ref (monomials (Z.to_nat deg) cx) w cy) as [beta kap| |] eqn:Ef; [| |congruence].
    + right. exists beta, kap. split; [exact (fit_ref_ok _ _ _ _ _ _ Ef Hwf Hwn')|].
      destruct v as [| |o]; try congruence. destruct (polyF beta x) as [e|] eqn:Ee; [|congruence].
      destruct (Qle_bool kap kappa_max) eqn:Ek.
      * right. destruct (within _ e o) eqn:Ew; [|congruence]. exists o. split; [reflexivity|].
        apply within_sound in Ew. now rewrite (F_is_poly_eval _ _ _ Ee) in Ew.
      * left. now apply Qle_bool_false.
    + left. now apply fit_ref_singular in Ef.
  - left. split; [now apply (loess_design_panic sx sy q n0 x)|]. destruct (st =? 2)%Z eqn:Es; [now apply Z.eqb_eq | congruence].
  - right. left. split; [reflexivity|]. destruct (st =? 0)%Z eqn:Es; [now apply Z.eqb_eq | congruence].
Qed.

(* the admissible decisions *)
Lemma q_cands_spec n s q : In q (q_cands n s) <-> q = loess_q n s \/ q = q_of_product n (round53 (s * Qofnat n)).
Proof.
  unfold q_cands, dedup_nat. rewrite nodup_In. cbn [In]. split; [intros [H|[H|[]]]; auto | intros [H|H]; auto].
Qed.
Lemma n0_cands_spec xs q x n0 : In n0 (n0_cands xs q x) <-> n0 = window_start 0 xs q x \/ n0 = window_start_fl xs q x.
Proof.
  unfold n0_cands, dedup_nat. rewrite nodup_In. cbn [In]. split; [intros [H|[H|[]]]; auto | intros [H|H]; auto].
Qed.

(* a query verdict other than 2 was consistent with an admissible start; 0 / 1 mean the exact start *)
Lemma query_verdict_read sx sy deg q x st v : 
  query_verdict sx sy deg q (x, st, v) <> 2%Z ->
  exists n0, In n0 (n0_cands sx q x) /\ loess_query sx sy deg q n0 x st v <> 2%Z /\
             (query_verdict sx sy deg q (x, st, v) <> 3%Z -> n0 = window_start 0 sx q x).
Proof.
  unfold query_verdict. set (n0 := window_start 0 sx q x). set (c0 := loess_query sx sy deg q n0 x st v).
  destruct (c0 =? 2)%Z eqn:E0; cbn [negb].
  - destruct (existsb _ _) eqn:Ex; [|congruence]. intros _.
    apply existsb_exists in Ex as (m & Hm & Hq). apply filter_In in Hm as [Hm _].
    exists m. split; [exact Hm|]. split; [|congruence]. apply Bool.negb_true_iff, Z.eqb_neq in Hq. exact Hq.
  - intros H. exists n0. split; [apply n0_cands_spec; now left|]. split; [|reflexivity]. now apply Z.eqb_neq in E0.
Qed.

Definition loess_accept (c : Z) (xs ys : list Q) (deg : Z) (span : xreal) (st : Z) (qs : list (Q * Z * xreal))
  (unmod : bool) (rqs : list (Z * xreal)) : Prop :=
  exists s, span = XFin s /\ length xs = length ys /\ unmod = true /\
  ((((deg < 0)%Z \/ s <= 0) /\ st = 2%Z /\ qs = [] /\ rqs = [])
   \/
   ((0 <= deg)%Z /\ 0 < s /\ st = 0%Z /\ qs <> [] /\ Forall2 requery_p qs rqs /\
    exists sx sy, loess_prepare xs ys = (sx, sy) /\
      lsorted sx /\ length sx = length xs /\ length sy = length xs /\ Permutation (combine xs ys) (combine sx sy) /\
      exists q, In q (q_cands (length xs) s) /\ (c = 0%Z -> q = loess_q (length xs) s) /\
        Forall (fun qd => exists n0, In n0 (n0_cands sx q (fst (fst qd))) /\
                            (c = 0%Z -> n0 = window_start 0 sx q (fst (fst qd))) /\
                            query_read sx sy (Z.to_nat deg) q n0 qd) qs)).

Lemma Forall_map_iff {A B} (f : A -> B) (P : B -> Prop) l : Forall P (map f l) <-> Forall (fun a => P (f a)) l.
Proof. apply Forall_map. Qed.

Lemma existsb_false_Forall {A} (f : A -> bool) l : existsb f l = false -> Forall (fun a => f a = false) l.
Proof.
  induction l as [|a l IH]; cbn; [constructor|]. intro H. apply Bool.orb_false_iff in H as [H1 H2]. constructor; auto.
Qed.

Theorem check_loess_sound xs ys deg span st qs u rqs c tag pos diag :
  check_loess xs ys deg span st qs u rqs = verdict c tag pos diag -> (c = 0 \/ c = 1)%Z ->
  loess_accept c xs ys deg span st qs u rqs.
Proof.
  intros H Hc. unfold check_loess in H. destruct span as [| |s]; [vbad H | vbad H |].
  destruct (length xs =? length ys)%nat eqn:El; cbn [negb] in H; [|vbad H]. apply Nat.eqb_eq in El.
  exists s. split; [reflexivity|]. split; [exact El|].
  destruct ((deg <? 0)%Z || Qle_bool s 0) eqn:Ep.
  - destruct ((st =? 2)%Z && u && (length qs =? 0)%nat && (length rqs =? 0)%nat) eqn:Es; [|vbad H].
    apply andb_prop in Es as [Es Es4]. apply andb_prop in Es as [Es Es3]. apply andb_prop in Es as [Es1 Es2].
    split; [exact Es2|]. left. split.
    + apply Bool.orb_true_iff in Ep as [Ep|Ep]; [left; now apply Z.ltb_lt | right; now apply Qle_bool_iff].
    + split; [now apply Z.eqb_eq|]. split; now apply eqb_len0.
  - apply Bool.orb_false_iff in Ep as [Ed Es0]. apply Z.ltb_ge in Ed. apply Qle_bool_false in Es0.
    destruct (st =? 0)%Z eqn:Es; cbn [negb] in H; [|vbad H]. apply Z.eqb_eq in Es.
    destruct u; cbn [negb] in H; [|vbad H].
    destruct (length qs =? 0)%nat eqn:Eq; [vbad H|]. apply eqb_len0_false in Eq.
    destruct (reread_ok qs rqs) eqn:Er; cbn [negb] in H; [|vbad H]. apply reread_ok_spec in Er.
    split; [reflexivity|]. right.
    split; [exact Ed|]. split; [exact Es0|]. split; [exact Es|]. split; [exact Eq|]. split; [exact Er|].
    destruct (loess_prepare xs ys) as [sx sy] eqn:Epr. exists sx, sy. split; [reflexivity|].
    destruct (prepare_spec xs ys sx sy El Epr) as (Hso & Lx & Ly & Perm).
    split; [exact Hso|]. split; [exact Lx|]. split; [exact Ly|]. split; [exact Perm|].
    assert (Lxy : length sx = length sy) by congruence.
    (* reading all queries under one width *)
    assert (R : forall q, Forall (fun cq => cq <> 2%Z) (map (query_verdict sx sy deg q) qs) ->
                (forall P : Prop, (Forall (fun cq => cq <> 3%Z) (map (query_verdict sx sy deg q) qs) -> P) -> c = 0%Z -> P) ->
                Forall (fun qd => exists n0, In n0 (n0_cands sx q (fst (fst qd))) /\
                            (c = 0%Z -> n0 = window_start 0 sx q (fst (fst qd))) /\
                            query_read sx sy (Z.to_nat deg) q n0 qd) qs).
    { intros q F2 F3. apply Forall_forall. intros [[x st'] v] Hin. cbn [fst].
      rewrite Forall_map_iff, Forall_forall in F2. specialize (F2 _ Hin).
      destruct (query_verdict_read sx sy deg q x st' v F2) as (n0 & Hn0 & Hq & Hex).
      exists n0. split; [exact Hn0|]. split.
      - intro C0. apply Hex. apply (F3 _ (fun F => proj1 (Forall_forall _ _) (proj1 (Forall_map_iff _ _ _) F) _ Hin) C0).
      - now apply loess_query_read. }
    set (qe := loess_q (length xs) s) in *.
    destruct (first_two (map (query_verdict sx sy deg qe) qs)) as [i|] eqn:Ef.
    + (* some query disagrees under the exact width: accepted only under the float width, borderline *)
      destruct (existsb _ _) eqn:Ex; [|vbad H].
      assert (C1 : c = 1%Z) by (apply verdict_inj in H; destruct H as (H & _); unfold V_BORDERLINE in H; lia).
      apply existsb_exists in Ex as (q & Hq & Ha). apply filter_In in Hq as [Hq _].
      exists q. split; [exact Hq|]. split; [lia|]. apply R.
      * unfold alt_q_ok in Ha. apply forallb_Forall in Ha. eapply Forall_impl; [|exact Ha].
        intros a Ha'. apply Bool.negb_true_iff, Z.eqb_neq in Ha'. exact Ha'.
      * intros P _ C0. lia.
    + exists qe. split; [apply q_cands_spec; now left|]. split; [reflexivity|]. apply R.
      * unfold first_two in Ef. apply first_bad_none in Ef. eapply Forall_impl; [|exact Ef].
        intros a Ha'. apply Bool.negb_true_iff, Z.eqb_neq in Ha'. exact Ha'.
      * intros P HP C0. apply HP.
        destruct (existsb (Z.eqb 3) (map (query_verdict sx sy deg qe) qs)) eqn:Eb.
        -- exfalso. apply verdict_inj in H. destruct H as (H & _). unfold V_BORDERLINE in H. lia.
        -- apply existsb_false_Forall in Eb. eapply Forall_impl; [|exact Eb].
           intros a Ha'. cbv beta in Ha'. apply Z.eqb_neq in Ha'. congruence.
Qed.

(* ---------------------------------------------------------------------- *)
(* the whole line                                                          *)
(* ---------------------------------------------------------------------- *)
Ltac peel H := repeat (apply pbind_some in H; destruct H as (? & ? & _ & H)).

(* a line that parses is consumed to its end *)
Lemma p_line_end line cs r : p_line line = Some (cs, r) -> r = [].
Proof.
  unfold p_line. intro H. apply pbind_some in H. destruct H as (id & r0 & _ & H).
  destruct (negb (id =? 15)%Z); [discriminate|].
  apply pbind_some in H. destruct H as (op & r1 & _ & H).
  destruct (op =? 0)%Z; [peel H; apply pend_some in H; tauto|].
  destruct (op =? 1)%Z; [peel H; apply pend_some in H; tauto|].
  destruct (op =? 2)%Z; [peel H; apply pend_some in H; tauto|discriminate].
Qed.

Definition case_ok (c : Z) (cs : c15case) : Prop :=
  match cs with
  | CLls xs ys w cols st ps u rps => lls_accept xs ys w cols st ps u rps
  | CPoly xs ys w deg st cfs qs lst lps u rcs rfs rlps => poly_accept xs ys w deg st cfs qs lst lps u rcs rfs rlps
  | CLoess xs ys deg span st qs u rqs => loess_accept c xs ys deg span st qs u rqs
  end.

Theorem check_ok_sound line c tag pos diag :
  check_C15 line = verdict c tag pos diag -> (c = 0 \/ c = 1)%Z ->
  exists cs, p_line line = Some (cs, []) /\ case_ok c cs.
Proof.
  intros H Hc. unfold check_C15 in H. destruct (p_line line) as [[cs r]|] eqn:P; [|vbad H].
  pose proof (p_line_end _ _ _ P) as ->. exists cs. split; [reflexivity|].
  destruct cs; cbn [case_ok].
  - eapply check_lls_sound; eassumption.
  - eapply check_poly_sound; eassumption.
  - eapply check_loess_sound; eassumption.
Qed.

(* the first integers of an accepted line: property number 15 and the operation *)
Lemma p_line_op line cs : p_line line = Some (cs, []) ->
  exists op rest, line = 15%Z :: op :: rest /\
    match cs with CLls _ _ _ _ _ _ _ _ => op = 0%Z | CPoly _ _ _ _ _ _ _ _ _ _ _ _ _ => op = 1%Z | CLoess _ _ _ _ _ _ _ _ => op = 2%Z end.
Proof.
  unfold p_line. intro H. apply pbind_some in H. destruct H as (id & r0 & H0 & H). apply pZ_some in H0.
  destruct (id =? 15)%Z eqn:Ei; cbn [negb] in H; [|discriminate]. apply Z.eqb_eq in Ei. subst id.
  apply pbind_some in H. destruct H as (op & r1 & H1 & H). apply pZ_some in H1. subst.
  exists op, r1. split; [reflexivity|].
  destruct (op =? 0)%Z eqn:E0; [apply Z.eqb_eq in E0; peel H; apply pend_some in H; destruct H as (-> & _); exact E0|].
  destruct (op =? 1)%Z eqn:E1; [apply Z.eqb_eq in E1; peel H; apply pend_some in H; destruct H as (-> & _); exact E1|].
  destruct (op =? 2)%Z eqn:E2; [apply Z.eqb_eq in E2; peel H; apply pend_some in H; destruct H as (-> & _); exact E2|discriminate].
Qed.

(* ---------------------------------------------------------------------- *)
(* readings of the no-claim classes and of the float decisions             *)
(* ---------------------------------------------------------------------- *)
(* d = 0: every point of the window coincides with the query *)
Lemma loess_design_singular sx sy q n0 x : lsorted sx -> loess_design sx sy q n0 x = FSingular ->
  firstn q (skipn n0 sx) <> [] /\ forall c, In c (firstn q (skipn n0 sx)) -> c == x.
Proof.
  intros Hs. unfold loess_design. set (wx := firstn q (skipn n0 sx)).
  assert (Hws : lsorted wx) by (apply lsorted_firstn, lsorted_skipn, Hs).
  destruct wx as [|c0 rest] eqn:Ewx; [discriminate|].
  set (d0 := x - c0). set (d1 := last (c0 :: rest) 0 - x).
  destruct (Qeqb (if Qltb d0 d1 then d1 else d0) 0) eqn:Ed; [|discriminate]. intros _.
  split; [discriminate|]. apply Qeqb_true in Ed.
  assert (Hc0 : forall c, In c (c0 :: rest) -> c0 <= c).
  { intros c [<-|Hc]; [apply Qle_refl | now apply Hws]. }
  assert (Hl : forall c, In c (c0 :: rest) -> c <= last (c0 :: rest) 0) by (intros c Hc; now apply lsorted_last).
  intros c Hc. specialize (Hc0 c Hc). specialize (Hl c Hc).
  destruct (Qltb d0 d1) eqn:E.
  - apply Qltb_true_lt in E. unfold d0, d1 in *. lra.
  - apply Qltb_false_le in E. unfold d0, d1 in *. lra.
Qed.

(* round53 leaves a number of at most 53 significant bits unchanged: the float decision IS the exact one
   whenever the product / sum is a binary64 number *)
Lemma round53_pos_small n d : (Z.log2 n + 1 <= 53)%Z -> round53_pos n d = n # d.
Proof. unfold round53_pos. intro H. apply Z.leb_le in H. now rewrite H. Qed.
Lemma round53_small q : (Z.log2 (Z.abs (Qnum (Qred q))) + 1 <= 53)%Z -> round53 q == q.
Proof.
  unfold round53. intro H. rewrite <- (Qred_correct q) at 2. destruct (Qred q) as [n d]. cbn [Qnum Qden] in *.
  destruct n as [|p|p]; cbn [Z.abs] in H.
  - reflexivity.
  - rewrite round53_pos_small by exact H. reflexivity.
  - rewrite round53_pos_small by exact H. reflexivity.
Qed.

(* Proofs/CheckC16.v — (group hF) what an accepted verdict of check_C16 means.
   1. [check_C16] factors as parse ([p_case16]) then compare ([compare16]); an accepted line
      parses completely (nothing left over) into a [case16].
   2. Reading of every comparison in terms of the observed numbers and the mathematical
      specification: Linear scales against the affine formula over Q (closed under the global
      context); NewLog against the acceptance rule; Log scales and QQ per observable (the
      real-number readings are in Proofs/CheckC16R.v). *)
From MM Require Import Base.Num Base.GBLemmas Model.Scale Proofs.Scale Check.C16 Proofs.CheckBase.
From Coq Require Import Lqa Lia.
Local Open Scope Q_scope.

(* ---------- the outcome combinators ---------- *)
Definition passes (o : outcome) : Prop := snd o = None.
Definition passes3 (o : Z * option (Z * Z * list Z)) : Prop := snd o = None.

Lemma need_passes c t id d : passes (need c t id d) <-> c = true.
Proof. unfold passes, need, ok, failed. destruct c; cbn; split; congruence. Qed.
Lemma ok_passes t : passes (ok t).
Proof. reflexivity. Qed.
Lemma failed_passes t id d : ~ passes (failed t id d).
Proof. unfold passes, failed. cbn. discriminate. Qed.
Lemma andthen_passes a b : passes (andthen a b) <-> passes a /\ passes (b tt).
Proof.
  unfold passes, andthen. destruct a as [t [f|]]; cbn.
  - split; [discriminate|intros [H _]; discriminate].
  - destruct (b tt) as [t' f]. cbn. tauto.
Qed.
Lemma each_passes {A} (f : A -> outcome) l : forall i, passes3 (each f l i) <-> Forall (fun a => passes (f a)) l.
Proof.
  induction l as [|a l IH]; intro i; cbn [each].
  - split; [constructor|reflexivity].
  - unfold passes3, passes in *. destruct (f a) as [tg [[id d]|]] eqn:E; cbn.
    + split; [discriminate|]. intro H. inversion H as [|? ? H1 H2]; subst. rewrite E in H1. discriminate.
    + specialize (IH (i + 1)%Z). destruct (each f l (i + 1)%Z) as [tg' r]. cbn in *. rewrite IH.
      split; [intro H; constructor; [rewrite E; reflexivity|exact H]|]. intro H. inversion H; assumption.
Qed.
Lemma whole_passes o : passes3 (whole o) <-> passes o.
Proof. unfold passes3, passes, whole. destruct o as [t [[id d]|]]; cbn; split; congruence. Qed.
Lemma seq2_passes a b : passes3 (seq2 a b) <-> passes3 a /\ passes3 (b tt).
Proof.
  unfold passes3, seq2. destruct a as [t [f|]]; cbn.
  - split; [discriminate|intros [H _]; discriminate].
  - destruct (b tt) as [t' f]. cbn. tauto.
Qed.
Lemma finish_accepted base r c tag pos diag :
  finish base r = verdict c tag pos diag -> (c = 0 \/ c = 1)%Z -> passes3 r.
Proof.
  unfold finish, passes3. destruct r as [t [[[i id] d]|]]; cbn; [|reflexivity].
  intros H C. apply verdict_inj in H. destruct H as [H _]. unfold V_MISMATCH in H. lia.
Qed.

(* ---------- the case a line describes ---------- *)
Inductive case16 :=
| K_newlog (mn mx : xreal) (base st : Z) (rmn rmx : xreal) (rb : Z)
| K_scale (s : scale) (b : Z) (r : Q) (ps : list probe) (g : list (Q * xreal))
          (ys : list (Q * xreal * xreal)) (yg : list (Q * xreal))
| K_qq (src : scale) (bs : Z) (dst : scale) (bd : Z) (xs ys : list qprobe).

Definition p_newlog : parser case16 :=
  do mn <- pX; do mx <- pX; do base <- pZ; do st <- pZ; do rmn <- pX; do rmx <- pX; do rb <- pZ;
  pend (K_newlog mn mx base st rmn rmx rb).
Definition p_scalecase : parser case16 :=
  do sh <- p_scale; let '(s, b) := sh in
  do r <- pQ;
  do ps <- plist p_probe; do g <- p_grid; do ys <- plist p_yprobe; do yg <- p_grid;
  if negb (shift_ok r ps) then (fun _ => None) else pend (K_scale s b r ps g ys yg).
Definition p_qqcase : parser case16 :=
  do sh <- p_cscale; let '(src, bs) := sh in
  do dh <- p_cscale; let '(dst, bd) := dh in
  do xs <- plist p_qprobe; do ys <- plist p_qprobe;
  pend (K_qq src bs dst bd xs ys).

(* the line grammar: 16, kind, then the fields of the kind; the whole line must be consumed *)
Definition p_case16 (line : list Z) : option (case16 * list Z) :=
  match line with
  | a :: k :: r =>
      if negb (a =? 16)%Z then None
      else if (k =? 0)%Z then p_newlog r
      else if (k =? 1)%Z then p_scalecase r
      else if (k =? 2)%Z then p_qqcase r
      else None
  | _ => None
  end.

Definition compare_newlog mn mx base st rmn rmx rb : list Z :=
  match new_log mn mx base with
  | NL_rangeerr => if (st =? 1)%Z then verdict V_OK (if (base <=? 1)%Z then 8192 else 16384) (-1) []
                   else verdict V_MISMATCH 8192 1 [1%Z]
  | NL_ok a b c =>
      if negb (st =? 0)%Z then verdict V_MISMATCH 32768 1 [0%Z]
      else if xeq a rmn && xeq b rmx && (c =? rb)%Z then verdict V_OK (Z.lor 32768 (if xlt mx mn then T_REV else 0)) (-1) []
      else verdict V_MISMATCH 32768 2 (xdiag a ++ xdiag b ++ [c])
  end.
Definition compare_scale s b r ps g ys yg : Z * option (Z * Z * list Z) :=
  seq2 (each (probe_check s b r) ps 0%Z) (fun _ =>
  seq2 (whole (if Qeqb r 0 then ok 0 else shift_check s None ps)) (fun _ =>
  seq2 (whole (mono_check (direction s) (gap_x s) g)) (fun _ =>
  seq2 (each (fun t => let '(y, u, m) := t in unmap_check s b y u m) ys 1000%Z) (fun _ =>
  seq2 (whole (mono_check (direction s) (gap_y s) yg)) (fun _ =>
  seq2 (each (fun t => map_check s b (fst t) (snd t)) g 2000%Z) (fun _ =>
        each (fun t => unmap_value_check s b (fst t) (snd t)) yg 3000%Z)))))).
Definition compare_qq src bs dst bd xs ys : Z * option (Z * Z * list Z) :=
  seq2 (each (qq_check src dst bs bd) xs 0%Z) (fun _ => each (qq_check dst src bd bs) ys 1000%Z).
Definition qq_base (src dst : scale) : Z :=
  Z.lor T_QQ (Z.lor (Z.lor (sc_tags src) (sc_tags dst))
    (Z.lor (match src with SLog _ => T_QSRCLOG | _ => 0%Z end) (match dst with SLog _ => T_QDSTLOG | _ => 0%Z end))).

Definition compare16 (c : case16) : list Z :=
  match c with
  | K_newlog mn mx base st rmn rmx rb => compare_newlog mn mx base st rmn rmx rb
  | K_scale s b r ps g ys yg => finish (sc_tags s) (compare_scale s b r ps g ys yg)
  | K_qq src bs dst bd xs ys => finish (qq_base src dst) (compare_qq src bs dst bd xs ys)
  end.

Definition malformed : list Z := verdict V_MALFORMED 0 (-1) [].
Definition outV (o : option (list Z * list Z)) : list Z := match o with Some (v, _) => v | None => malformed end.
Definition outC (o : option (case16 * list Z)) : list Z := match o with Some (c, _) => compare16 c | None => malformed end.

Lemma bind_factor {A} (p : parser A) f g l :
  (forall a l', outV (f a l') = outC (g a l')) -> outV (pbind p f l) = outC (pbind p g l).
Proof. intro H. unfold pbind. destruct (p l) as [[a l']|]; [apply H|reflexivity]. Qed.
Lemma pend_factor v c l : v = compare16 c -> outV (pend v l) = outC (pend c l).
Proof. intros ->. destruct l; reflexivity. Qed.

Lemma check_newlog_factor r : outV (check_newlog r) = outC (p_newlog r).
Proof.
  unfold check_newlog, p_newlog. repeat (apply bind_factor; intros). apply pend_factor. reflexivity.
Qed.
Lemma check_scale_factor r : outV (check_scale r) = outC (p_scalecase r).
Proof.
  unfold check_scale, p_scalecase. apply bind_factor. intros [s b] l. repeat (apply bind_factor; intros).
  destruct (negb (shift_ok _ _)); [reflexivity|]. apply pend_factor. reflexivity.
Qed.
Lemma check_qq_factor r : outV (check_qq r) = outC (p_qqcase r).
Proof.
  unfold check_qq, p_qqcase. apply bind_factor. intros [src bs] l. apply bind_factor. intros [dst bd] l0.
  repeat (apply bind_factor; intros). apply pend_factor. reflexivity.
Qed.

(* the line must start 16, kind with kind 0, 1 or 2; anything else is malformed *)
Lemma check_C16_head line :
  check_C16 line = match line with
                   | a :: k :: r => if negb (a =? 16)%Z then malformed
                                    else if (k =? 0)%Z then outV (check_newlog r)
                                    else if (k =? 1)%Z then outV (check_scale r)
                                    else if (k =? 2)%Z then outV (check_qq r)
                                    else malformed
                   | _ => malformed
                   end.
Proof.
  destruct line as [|a l]; [reflexivity|].
  destruct a as [|p|p]; try (destruct l; reflexivity).
  do 4 (destruct p as [p|p|]; try (destruct l; reflexivity)).
  destruct p; try (destruct l; reflexivity).
  destruct l as [|k r]; [reflexivity|].
  destruct k as [|q|q]; try reflexivity.
  destruct q as [q|q|]; try reflexivity.
  destruct q; reflexivity.
Qed.

(* MAIN factorisation: check_C16 = compare16 after p_case16 *)
Theorem check_C16_factor line : check_C16 line = outC (p_case16 line).
Proof.
  rewrite check_C16_head. unfold p_case16. destruct line as [|a [|k r]]; try reflexivity.
  destruct (negb (a =? 16)%Z); [reflexivity|].
  destruct (k =? 0)%Z; [apply check_newlog_factor|].
  destruct (k =? 1)%Z; [apply check_scale_factor|].
  destruct (k =? 2)%Z; [apply check_qq_factor|reflexivity].
Qed.

(* every sub-parser ends with [pend]: a successful parse consumes the whole line *)
Lemma pbind_rest {A B} (p : parser A) (f : A -> parser B) :
  (forall a l b r, f a l = Some (b, r) -> r = []) -> forall l b r, pbind p f l = Some (b, r) -> r = [].
Proof. intros H l b r E. apply pbind_some in E. destruct E as (a & r' & _ & E). eapply H. exact E. Qed.
Lemma pend_rest {A} (a : A) l b r : pend a l = Some (b, r) -> r = [].
Proof. intro H. apply pend_some in H. tauto. Qed.

Lemma p_case16_rest line c r : p_case16 line = Some (c, r) -> r = [].
Proof.
  unfold p_case16. destruct line as [|a [|k l]]; try discriminate.
  destruct (negb (a =? 16)%Z); [discriminate|].
  destruct (k =? 0)%Z; [|destruct (k =? 1)%Z; [|destruct (k =? 2)%Z; [|discriminate]]].
  - unfold p_newlog. repeat (apply pbind_rest; intros ? ?). apply pend_rest.
  - unfold p_scalecase. apply pbind_rest. intros [s b] l0. repeat (apply pbind_rest; intros ? ?).
    destruct (negb (shift_ok _ _)); [discriminate|]. apply pend_rest.
  - unfold p_qqcase. apply pbind_rest. intros [src bs] l0. apply pbind_rest. intros [dst bd] l1.
    repeat (apply pbind_rest; intros ? ?). apply pend_rest.
Qed.

(* an accepted line is a complete parse, and the comparison of that case accepted *)
Theorem check_C16_accepted line c tag pos diag :
  check_C16 line = verdict c tag pos diag -> (c = 0 \/ c = 1)%Z ->
  exists cs, p_case16 line = Some (cs, []) /\ compare16 cs = verdict c tag pos diag.
Proof.
  rewrite check_C16_factor. intros H C. destruct (p_case16 line) as [[cs r]|] eqn:E.
  - pose proof (p_case16_rest _ _ _ E) as ->. exists cs. auto.
  - cbn in H. apply verdict_inj in H. unfold V_MALFORMED in H. lia.
Qed.

(* ====================== reading the comparisons ====================== *)

(* ---------- what the parser guarantees about a kind-1 scale ---------- *)
Lemma p_scale_some l s b r : p_scale l = Some ((s, b), r) ->
  sc_clamp s = false /\ match s with SLog g => 0 < g_min g * g_max g | SLin _ => True end.
Proof.
  unfold p_scale. intro H.
  apply pbind_some in H. destruct H as (k & r1 & _ & H).
  apply pbind_some in H. destruct H as (mn & r2 & _ & H).
  apply pbind_some in H. destruct H as (mx & r3 & _ & H).
  apply pbind_some in H. destruct H as (h & r4 & _ & H).
  destruct (k =? 0)%Z.
  - apply pret_some in H. destruct H as [H _]. injection H as -> ->. cbn. auto.
  - destruct (k =? 1)%Z; [|discriminate]. destruct (Qltb 0 (mn * mx)) eqn:E; [|discriminate].
    apply pret_some in H. destruct H as [H _]. injection H as -> ->. cbn. gb_bool. auto.
Qed.
Lemma p_cscale_some l s b r : p_cscale l = Some ((s, b), r) ->
  match s with SLog g => 0 < g_min g * g_max g | SLin _ => True end.
Proof.
  unfold p_cscale. intro H.
  apply pbind_some in H. destruct H as (k & r1 & _ & H).
  apply pbind_some in H. destruct H as (mn & r2 & _ & H).
  apply pbind_some in H. destruct H as (mx & r3 & _ & H).
  apply pbind_some in H. destruct H as (c & r4 & _ & H).
  apply pbind_some in H. destruct H as (h & r5 & _ & H).
  destruct (k =? 0)%Z.
  - apply pret_some in H. destruct H as [H _]. injection H as -> ->. exact I.
  - destruct (k =? 1)%Z; [|discriminate]. destruct (Qltb 0 (mn * mx)) eqn:E; [|discriminate].
    apply pret_some in H. destruct H as [H _]. injection H as -> ->. cbn. gb_bool. auto.
Qed.

(* ---------- Linear: the specification the observations are compared with ---------- *)
(* y is the value at x of the Linear scale with domain [mn, mx], Clamp off:
   the affine formula (x - mn) / (mx - mn); 1/2 on a degenerate domain *)
Definition is_lin_map (mn mx x y : Q) : Prop :=
  (mn == mx /\ y == 1 # 2) \/ (~ mn == mx /\ y == (x - mn) / (mx - mn)).
Definition lin_unmap_spec (mn mx y : Q) : Q := y * (mx - mn) + mn.

(* tolerances of Check/C16.v: 1e-12 relative to the size of the operands *)
Definition tol_lin_map (y : Q) : Q := e12 * (1 + Qabs y).
Definition tol_lin_unmap (mn mx y : Q) : Q := e12 * (Qabs (y * (mx - mn)) + Qabs mn).

Lemma lin_map_is l x : l_clamp l = false -> is_lin_map (l_min l) (l_max l) x (lin_map l x).
Proof.
  intro C. unfold is_lin_map, lin_map. rewrite C. destruct (Qeqb (l_min l) (l_max l)) eqn:E; gb_bool.
  - left. split; [exact E|reflexivity].
  - right. split; [exact E|reflexivity].
Qed.
Lemma is_lin_map_fun mn mx x y y' : is_lin_map mn mx x y -> is_lin_map mn mx x y' -> y == y'.
Proof. intros [[A B]|[A B]] [[A' B']|[A' B']]; try contradiction; rewrite B, B'; reflexivity. Qed.

(* an observed float [o] is a finite number within the Map tolerance of the scale's value at x *)
Definition obs_lin_map (mn mx x : Q) (o : xreal) : Prop :=
  exists y m, is_lin_map mn mx x y /\ o = XFin m /\ Qabs (m - y) <= tol_lin_map y.
(* ... within the Unmap tolerance of y * (mx - mn) + mn *)
Definition obs_lin_unmap (mn mx y : Q) (o : xreal) : Prop :=
  exists u, o = XFin u /\ Qabs (u - lin_unmap_spec mn mx y) <= tol_lin_unmap mn mx y.
(* the Map observed after SetClamp(true) is exactly the clamp of the one observed with Clamp off *)
Definition obs_clamp (m0 m1 : xreal) : Prop :=
  match m0 with
  | XFin q => exists q1, m1 = XFin q1 /\ q1 == clampq q
  | XNaN => m1 = XNaN
  | XInf n => exists q1, m1 = XFin q1 /\ q1 == (if n then 0 else 1)
  end.

Lemma clamp_consistent_sound m0 m1 : clamp_consistent m0 m1 = true -> obs_clamp m0 m1.
Proof.
  unfold clamp_consistent, obs_clamp. destruct m0 as [|n|q]; intro H.
  - destruct m1; try discriminate. reflexivity.
  - apply xeq_fin in H. exact H.
  - apply xeq_fin in H. exact H.
Qed.

Lemma map_check_lin l b x m0 : l_clamp l = false ->
  passes (map_check (SLin l) b x m0) -> obs_lin_map (l_min l) (l_max l) x m0.
Proof.
  intros C H. cbn [map_check] in H. apply need_passes in H. apply xwithin_fin in H.
  destruct H as (m & -> & H). exists (lin_map l x), m. split; [apply lin_map_is; exact C|]. split; [reflexivity|exact H].
Qed.
Lemma unmap_of_map_check_lin l x m0 ux : passes (unmap_of_map_check (SLin l) x m0 ux) ->
  exists m, m0 = XFin m /\ obs_lin_unmap (l_min l) (l_max l) m ux.
Proof.
  cbn [unmap_of_map_check]. destruct m0 as [| |m]; intro H; try (apply failed_passes in H; contradiction).
  apply need_passes in H. apply xwithin_fin in H. destruct H as (u & -> & H).
  exists m. split; [reflexivity|]. exists u. split; [reflexivity|]. exact H.
Qed.

Definition lin_probe_ok (mn mx r : Q) (p : probe) : Prop :=
  obs_lin_map mn mx (p_x p) (p_m0 p) /\
  obs_clamp (p_m0 p) (p_m1 p) /\
  (exists m, p_m0 p = XFin m /\ obs_lin_unmap mn mx m (p_ux p)) /\
  (~ r == 0 -> obs_lin_map mn mx (p_x2 p) (p_m02 p)).

Lemma probe_check_lin l b r p : l_clamp l = false ->
  passes (probe_check (SLin l) b r p) -> lin_probe_ok (l_min l) (l_max l) r p.
Proof.
  intros C H. unfold probe_check in H.
  apply andthen_passes in H. destruct H as [H H4].
  apply andthen_passes in H. destruct H as [H H3].
  apply andthen_passes in H. destruct H as [H1 H2].
  split; [exact (map_check_lin l b _ _ C H1)|].
  split; [apply need_passes in H2; exact (clamp_consistent_sound _ _ H2)|].
  split; [exact (unmap_of_map_check_lin l _ _ _ H3)|].
  intro R. destruct (Qeqb r 0) eqn:E; [gb_bool; contradiction|]. exact (map_check_lin l b _ _ C H4).
Qed.

(* y-probe (y, Unmap y, Map (Unmap y)) *)
Definition lin_yprobe_ok (mn mx : Q) (t : Q * xreal * xreal) : Prop :=
  let '(y, uy, muy) := t in
  obs_lin_unmap mn mx y uy /\ exists u, uy = XFin u /\ obs_lin_map mn mx u muy.

Lemma unmap_check_lin l b y uy muy : l_clamp l = false ->
  passes (unmap_check (SLin l) b y uy muy) -> lin_yprobe_ok (l_min l) (l_max l) (y, uy, muy).
Proof.
  intros C H. cbn [unmap_check] in H. apply andthen_passes in H. destruct H as [H1 H2].
  apply need_passes in H1. apply xwithin_fin in H1. destruct H1 as (u & -> & H1).
  split; [exists u; split; [reflexivity|exact H1]|].
  exists u. split; [reflexivity|]. apply need_passes in H2. apply xwithin_fin in H2. destruct H2 as (m & -> & H2).
  exists (lin_map l u), m. split; [apply lin_map_is; exact C|]. split; [reflexivity|exact H2].
Qed.

(* ---------- grids: strict monotonicity in the direction of the domain ---------- *)
Fixpoint adjacent {A} (l : list A) : list (A * A) :=
  match l with a :: (b :: _) as t => (a, b) :: adjacent t | _ => [] end.
(* every two neighbouring grid points whose arguments differ by more than the rounding gap
   have finite values that differ strictly, in the direction [dir] *)
Definition mono_ok (dir : Q) (gap : Q -> Q -> bool) (g : list (Q * xreal)) : Prop :=
  Forall (fun pq : (Q * xreal) * (Q * xreal) =>
            forall a b, snd (fst pq) = XFin a -> snd (snd pq) = XFin b ->
                        fst (fst pq) < fst (snd pq) -> gap (fst (fst pq)) (fst (snd pq)) = true ->
                        0 < dir * (b - a)) (adjacent g).

Lemma mono_check_sound dir gap g : passes (mono_check dir gap g) -> mono_ok dir gap g.
Proof.
  unfold mono_ok. induction g as [|[x1 v1] g IH]; [constructor|].
  destruct g as [|[x2 v2] g']; [constructor|].
  intro H. cbn [mono_check] in H. apply andthen_passes in H. destruct H as [H1 H2].
  cbn [adjacent]. constructor; [|exact (IH H2)].
  cbn [fst snd]. intros a b -> -> L G.
  destruct (Qltb x1 x2) eqn:E; [|gb_bool; lra]. rewrite G in H1. cbn [andb] in H1.
  apply need_passes in H1. gb_bool. exact H1.
Qed.

(* ---------- the shift law Map(x r) - Map(x) = const, on the finite observations ---------- *)
Definition fin_pairs (ps : list probe) : list (Q * Q) :=
  flat_map (fun p => match p_m0 p, p_m02 p with XFin a, XFin c => [(a, c)] | _, _ => [] end) ps.
Definition shift_within (s : scale) (d0 : Q) (ac : Q * Q) : Prop :=
  Qabs ((snd ac - fst ac) - d0) <= tolm s * (2 + Qabs (fst ac) + Qabs (snd ac)).
Definition shift_ok_spec (s : scale) (l : list (Q * Q)) : Prop :=
  match l with [] => True | (a0, c0) :: t => Forall (shift_within s (c0 - a0)) t end.

Lemma shift_check_some s d0 ps : passes (shift_check s (Some d0) ps) -> Forall (shift_within s d0) (fin_pairs ps).
Proof.
  induction ps as [|p ps IH]; [constructor|]. intro H. cbn [shift_check] in H. unfold shift_delta in H.
  unfold fin_pairs. cbn [flat_map]. fold (fin_pairs ps).
  destruct (p_m0 p) as [| |a]; try exact (IH H). destruct (p_m02 p) as [| |c]; try exact (IH H).
  apply andthen_passes in H. destruct H as [H1 H2]. apply need_passes in H1. apply within_sound in H1.
  cbn [app]. constructor; [exact H1|exact (IH H2)].
Qed.
Lemma shift_check_none s ps : passes (shift_check s None ps) -> shift_ok_spec s (fin_pairs ps).
Proof.
  induction ps as [|p ps IH]; [intros _; exact I|]. intro H. cbn [shift_check] in H. unfold shift_delta in H.
  unfold fin_pairs. cbn [flat_map]. fold (fin_pairs ps).
  destruct (p_m0 p) as [| |a]; try exact (IH H). destruct (p_m02 p) as [| |c]; try exact (IH H).
  cbn [app shift_ok_spec]. exact (shift_check_some _ _ _ H).
Qed.

Lemma shift_ok_sound r ps : shift_ok r ps = true -> ~ r == 0 -> Forall (fun p => p_x2 p == p_x p * r) ps.
Proof.
  unfold shift_ok. intros H R. destruct (Qeqb r 0) eqn:E; [gb_bool; contradiction|]. cbn [orb] in H.
  rewrite forallb_forall in H. apply Forall_forall. intros p Hp. specialize (H p Hp). gb_bool. exact H.
Qed.

(* ---------- a whole Linear kind-1 case ---------- *)
Definition lin_scale_ok (l : linear) (r : Q) (ps : list probe) (g : list (Q * xreal))
    (ys : list (Q * xreal * xreal)) (yg : list (Q * xreal)) : Prop :=
  let mn := l_min l in let mx := l_max l in
  Forall (lin_probe_ok mn mx r) ps /\
  (~ r == 0 -> shift_ok_spec (SLin l) (fin_pairs ps)) /\
  mono_ok (direction (SLin l)) (gap_x (SLin l)) g /\
  Forall (lin_yprobe_ok mn mx) ys /\
  mono_ok (direction (SLin l)) (gap_y (SLin l)) yg /\
  (* the grid values themselves: Map (Clamp off) and Unmap at every grid point *)
  Forall (fun t => obs_lin_map mn mx (fst t) (snd t)) g /\
  Forall (fun t => obs_lin_unmap mn mx (fst t) (snd t)) yg.

Lemma unmap_value_check_lin l b y uy :
  passes (unmap_value_check (SLin l) b y uy) -> obs_lin_unmap (l_min l) (l_max l) y uy.
Proof.
  intro H. cbn [unmap_value_check] in H. apply need_passes in H. apply xwithin_fin in H.
  destruct H as (u & -> & H). exists u. split; [reflexivity|exact H].
Qed.

Theorem compare_scale_lin l b r ps g ys yg : l_clamp l = false ->
  passes3 (compare_scale (SLin l) b r ps g ys yg) -> lin_scale_ok l r ps g ys yg.
Proof.
  intros C H. unfold compare_scale in H.
  apply seq2_passes in H. destruct H as [H1 H].
  apply seq2_passes in H. destruct H as [H2 H].
  apply seq2_passes in H. destruct H as [H3 H].
  apply seq2_passes in H. destruct H as [H4 H].
  apply seq2_passes in H. destruct H as [H5 H].
  apply seq2_passes in H. destruct H as [H6 H7].
  apply each_passes in H1. apply whole_passes in H2, H3, H5. apply each_passes in H4. apply each_passes in H6, H7.
  split; [|split; [|split; [|split; [|split; [|split]]]]].
  - eapply Forall_impl; [|exact H1]. intros p Hp. exact (probe_check_lin l b r p C Hp).
  - intro R. destruct (Qeqb r 0) eqn:E; [gb_bool; contradiction|]. exact (shift_check_none _ _ H2).
  - exact (mono_check_sound _ _ _ H3).
  - eapply Forall_impl; [|exact H4]. intros [[y u] m] Hp. exact (unmap_check_lin l b y u m C Hp).
  - exact (mono_check_sound _ _ _ H5).
  - eapply Forall_impl; [|exact H6]. intros [x v] Hp. exact (map_check_lin l b x v C Hp).
  - eapply Forall_impl; [|exact H7]. intros [y u] Hp. exact (unmap_value_check_lin l b y u Hp).
Qed.

(* ---------- NewLog ---------- *)
(* status 0 = nil error, 1 = RangeErr (2 = another error, 3 = panic are never accepted).
   For finite arguments the specification is the acceptance rule of the property:
   accepted exactly when base >= 2 and both ends are non-zero of one sign; the result then
   holds the two ends in ascending order and the base. *)
Definition newlog_accepts (a b : Q) (base : Z) : Prop :=
  (2 <= base)%Z /\ ((0 < a /\ 0 < b) \/ (a < 0 /\ b < 0)).
Definition newlog_fin_ok (a b : Q) (base st : Z) (rmn rmx : xreal) (rb : Z) : Prop :=
  (newlog_accepts a b base ->
     st = 0%Z /\ rb = base /\ exists lo hi, rmn = XFin lo /\ rmx = XFin hi /\
       ((a <= b /\ lo == a /\ hi == b) \/ (b < a /\ lo == b /\ hi == a))) /\
  (~ newlog_accepts a b base -> st = 1%Z).
(* any arguments (NaN, infinities included): the observation agrees with the decision of
   log.go:36-49 as transcribed in Model.Scale.new_log *)
Definition newlog_ok (mn mx : xreal) (base st : Z) (rmn rmx : xreal) (rb : Z) : Prop :=
  match new_log mn mx base with
  | NL_rangeerr => st = 1%Z
  | NL_ok a b c => st = 0%Z /\ xeq a rmn = true /\ xeq b rmx = true /\ c = rb
  end.

Lemma compare_newlog_sound mn mx base st rmn rmx rb c tag pos diag :
  compare_newlog mn mx base st rmn rmx rb = verdict c tag pos diag -> (c = 0 \/ c = 1)%Z ->
  newlog_ok mn mx base st rmn rmx rb.
Proof.
  unfold compare_newlog, newlog_ok. intros H C. destruct (new_log mn mx base) as [a b c0|].
  - destruct (st =? 0)%Z eqn:S; cbn [negb] in H.
    + destruct (xeq a rmn && xeq b rmx && (c0 =? rb)%Z) eqn:E.
      * apply andb_prop in E. destruct E as [E E3]. apply andb_prop in E. destruct E as [E1 E2].
        apply Z.eqb_eq in S, E3. auto.
      * apply verdict_inj in H. unfold V_MISMATCH in H. lia.
    + apply verdict_inj in H. unfold V_MISMATCH in H. lia.
  - destruct (st =? 1)%Z eqn:S; [apply Z.eqb_eq in S; exact S|].
    apply verdict_inj in H. unfold V_MISMATCH in H. lia.
Qed.

Theorem newlog_ok_fin a b base st rmn rmx rb :
  newlog_ok (XFin a) (XFin b) base st rmn rmx rb -> newlog_fin_ok a b base st rmn rmx rb.
Proof.
  unfold newlog_ok, newlog_fin_ok, newlog_accepts. intro H.
  pose proof (new_log_accepts_iff a b base) as A.
  destruct (new_log (XFin a) (XFin b) base) as [lo hi bs|] eqn:N.
  - destruct H as (S & E1 & E2 & E3). split.
    + intros _. pose proof (new_log_result a b base lo hi bs N) as [B R]. rewrite B in E3. split; [exact S|]. split; [symmetry; exact E3|].
      destruct R as [(L & -> & ->)|(L & -> & ->)]; apply xeq_fin in E1, E2;
        destruct E1 as (q1 & -> & Q1); destruct E2 as (q2 & -> & Q2); exists q1, q2; repeat split; auto.
    + intro NA. exfalso. apply NA. apply A. eauto.
  - split.
    + intro Acc. apply A in Acc. destruct Acc as (lo & hi & bs & Acc). discriminate.
    + intros _. exact H.
Qed.

(* ---------- Log scales: the comparisons, read over Q ---------- *)
(* (the decision structure and the closed forms are those of Model/Scale.v; that they are the
   real-valued Log.Map / Log.Unmap is RealSpec.LogScaleModel; composed in Proofs/CheckC16R.v) *)
Definition log_map_okQ (g : logscale) (b : Z) (x : Q) (m0 : xreal) : Prop :=
  match log_map_dec g x with
  | LM_nan => m0 = XNaN
  | LM_half => exists q, m0 = XFin q /\ q == 1 # 2
  | LM_val _ _ _ _ _ as d =>
      exists q, m0 = XFin q /\
        (x == g_min g -> Qabs (q - 0) <= e12) /\
        (x == g_max g -> Qabs (q - 1) <= e12) /\
        (forall e, lmap_exact b d = Some (XFin e) -> Qabs (q - e) <= e10 * (1 + Qabs e))
  end.

Lemma is_nan_true o : is_nan o = true -> o = XNaN.
Proof. destruct o; cbn; try discriminate. reflexivity. Qed.

Lemma map_check_log g b x m0 : passes (map_check (SLog g) b x m0) -> log_map_okQ g b x m0.
Proof.
  unfold log_map_okQ. cbn [map_check]. destruct (log_map_dec g x) as [| |neg cl mn mx ex] eqn:D; intro H.
  - apply need_passes in H. exact (is_nan_true _ H).
  - apply need_passes in H. apply xeq_fin in H. exact H.
  - destruct m0 as [| |q]; try (apply failed_passes in H; contradiction).
    apply andthen_passes in H. destruct H as [H H3]. apply andthen_passes in H. destruct H as [H1 H2].
    apply need_passes in H1, H2. exists q. split; [reflexivity|]. split; [|split].
    + intro E. destruct (Qeqb x (g_min g)) eqn:E'; [|gb_bool; contradiction]. cbn in H1. now apply within_sound.
    + intro E. destruct (Qeqb x (g_max g)) eqn:E'; [|gb_bool; contradiction]. cbn in H2. now apply within_sound.
    + intros e He. rewrite He in H3. apply need_passes in H3. now apply within_sound.
Qed.

Definition log_unmap_of_map_okQ (g : logscale) (x : Q) (ux : xreal) : Prop :=
  match log_map_dec g x with
  | LM_nan => ux = XNaN
  | LM_half => exists u, ux = XFin u /\ Qabs (u - g_min g) <= e9 * Qabs (g_min g)
  | LM_val _ _ _ _ _ => exists u, ux = XFin u /\ Qabs (u - x) <= e9 * Qabs x
  end.
Lemma unmap_of_map_check_log g x m0 ux :
  passes (unmap_of_map_check (SLog g) x m0 ux) -> log_unmap_of_map_okQ g x ux.
Proof.
  unfold log_unmap_of_map_okQ. cbn [unmap_of_map_check]. destruct (log_map_dec g x); intro H; apply need_passes in H.
  - exact (is_nan_true _ H).
  - apply xwithin_fin in H. exact H.
  - apply xwithin_fin in H. exact H.
Qed.

Definition log_probe_okQ (g : logscale) (b : Z) (r : Q) (p : probe) : Prop :=
  log_map_okQ g b (p_x p) (p_m0 p) /\
  obs_clamp (p_m0 p) (p_m1 p) /\
  log_unmap_of_map_okQ g (p_x p) (p_ux p) /\
  (~ r == 0 -> log_map_okQ g b (p_x2 p) (p_m02 p)).
Lemma probe_check_log g b r p : passes (probe_check (SLog g) b r p) -> log_probe_okQ g b r p.
Proof.
  intro H. unfold probe_check in H.
  apply andthen_passes in H. destruct H as [H H4].
  apply andthen_passes in H. destruct H as [H H3].
  apply andthen_passes in H. destruct H as [H1 H2].
  split; [exact (map_check_log _ _ _ _ H1)|].
  split; [apply need_passes in H2; exact (clamp_consistent_sound _ _ H2)|].
  split; [exact (unmap_of_map_check_log _ _ _ _ H3)|].
  intro R. destruct (Qeqb r 0) eqn:E; [gb_bool; contradiction|]. exact (map_check_log _ _ _ _ H4).
Qed.

(* y-probe of a Log scale: Unmap y is finite, has the sign of the domain, is within 1e-9
   (relative) of the closed form where there is one, and Map (Unmap y) returns to y *)
Definition log_yprobe_okQ (g : logscale) (b : Z) (t : Q * xreal * xreal) : Prop :=
  let '(y, uy, muy) := t in
  exists u, uy = XFin u /\
    (if Qltb (g_min g) 0 then u < 0 else 0 < u) /\
    (forall e, lunmap_exact b e12 (log_unmap_dec g y) = Some e -> Qabs (u - e) <= e9 * Qabs e) /\
    ((g_min g == g_max g -> exists m, muy = XFin m /\ m == 1 # 2) /\
     (~ g_min g == g_max g -> exists m, muy = XFin m /\ Qabs (m - y) <= tolm (SLog g) * (1 + Qabs y))).
Lemma unmap_check_log g b y uy muy : passes (unmap_check (SLog g) b y uy muy) -> log_yprobe_okQ g b (y, uy, muy).
Proof.
  unfold log_yprobe_okQ. cbn [unmap_check]. destruct uy as [| |u]; intro H; try (apply failed_passes in H; contradiction).
  apply andthen_passes in H. destruct H as [H H3]. apply andthen_passes in H. destruct H as [H1 H2].
  exists u. split; [reflexivity|]. split; [|split].
  - apply need_passes in H1. unfold sign_ok in H1. cbn [sc_min] in H1.
    destruct (Qltb (g_min g) 0); gb_bool; exact H1.
  - intros e He. rewrite He in H2. apply need_passes in H2. now apply within_sound.
  - destruct (Qeqb (g_min g) (g_max g)) eqn:E; gb_bool; apply need_passes in H3; split; intro E'; try contradiction.
    + apply xeq_fin in H3. exact H3.
    + apply xwithin_fin in H3. exact H3.
Qed.

(* Unmap of a grid value: finite, of the domain's sign, within 1e-9 of the closed form *)
Definition log_yvalue_okQ (g : logscale) (b : Z) (y : Q) (uy : xreal) : Prop :=
  exists u, uy = XFin u /\
    (if Qltb (g_min g) 0 then u < 0 else 0 < u) /\
    (forall e, lunmap_exact b e12 (log_unmap_dec g y) = Some e -> Qabs (u - e) <= e9 * Qabs e).
Lemma unmap_value_check_log g b y uy : passes (unmap_value_check (SLog g) b y uy) -> log_yvalue_okQ g b y uy.
Proof.
  unfold log_yvalue_okQ. cbn [unmap_value_check]. destruct uy as [| |u]; intro H; try (apply failed_passes in H; contradiction).
  apply andthen_passes in H. destruct H as [H1 H2].
  exists u. split; [reflexivity|]. split.
  - apply need_passes in H1. unfold sign_ok in H1. cbn [sc_min] in H1.
    destruct (Qltb (g_min g) 0); gb_bool; exact H1.
  - intros e He. rewrite He in H2. apply need_passes in H2. now apply within_sound.
Qed.

Definition log_scale_ok (gs : logscale) (b : Z) (r : Q) (ps : list probe) (g : list (Q * xreal))
    (ys : list (Q * xreal * xreal)) (yg : list (Q * xreal)) : Prop :=
  Forall (log_probe_okQ gs b r) ps /\
  (~ r == 0 -> shift_ok_spec (SLog gs) (fin_pairs ps)) /\
  mono_ok (direction (SLog gs)) (gap_x (SLog gs)) g /\
  Forall (log_yprobe_okQ gs b) ys /\
  mono_ok (direction (SLog gs)) (gap_y (SLog gs)) yg /\
  Forall (fun t => log_map_okQ gs b (fst t) (snd t)) g /\
  Forall (fun t => log_yvalue_okQ gs b (fst t) (snd t)) yg.

Theorem compare_scale_log gs b r ps g ys yg :
  passes3 (compare_scale (SLog gs) b r ps g ys yg) -> log_scale_ok gs b r ps g ys yg.
Proof.
  intro H. unfold compare_scale in H.
  apply seq2_passes in H. destruct H as [H1 H].
  apply seq2_passes in H. destruct H as [H2 H].
  apply seq2_passes in H. destruct H as [H3 H].
  apply seq2_passes in H. destruct H as [H4 H].
  apply seq2_passes in H. destruct H as [H5 H].
  apply seq2_passes in H. destruct H as [H6 H7].
  apply each_passes in H1. apply whole_passes in H2, H3, H5. apply each_passes in H4. apply each_passes in H6, H7.
  split; [|split; [|split; [|split; [|split; [|split]]]]].
  - eapply Forall_impl; [|exact H1]. intros p Hp. exact (probe_check_log gs b r p Hp).
  - intro R. destruct (Qeqb r 0) eqn:E; [gb_bool; contradiction|]. exact (shift_check_none _ _ H2).
  - exact (mono_check_sound _ _ _ H3).
  - eapply Forall_impl; [|exact H4]. intros [[y u] m] Hp. exact (unmap_check_log gs b y u m Hp).
  - exact (mono_check_sound _ _ _ H5).
  - eapply Forall_impl; [|exact H6]. intros [x v] Hp. exact (map_check_log gs b x v Hp).
  - eapply Forall_impl; [|exact H7]. intros [y u] Hp. exact (unmap_value_check_log gs b y u Hp).
Qed.

(* ---------- QQ ---------- *)
(* two floats are the same value (NaN with NaN, same infinity, equal rationals) *)
Definition xsame (a b : xreal) : Prop :=
  match a, b with
  | XNaN, XNaN => True
  | XInf s, XInf t => s = t
  | XFin x, XFin y => x == y
  | _, _ => False
  end.
Lemma xeq_xsame a b : xeq a b = true -> xsame a b.
Proof.
  unfold xeq, xsame. destruct a as [|s|x], b as [|t|y]; cbn; try discriminate; auto.
  - apply Bool.eqb_prop.
  - intro H. apply within_sound in H. apply Qabs_le0 in H. lra.
Qed.

(* the guard under which the inverse law QQ.Unmap (QQ.Map x) = x is compared *)
Definition qq_inv_guard (src dst : scale) (x m : Q) : bool :=
  Qleb (Qabs m) 5 && well_cond src && well_cond dst && ((negb (sc_clamp src) && negb (sc_clamp dst)) || inside src x).
Definition tol_qq_inv (src : scale) (x m : Q) : Q :=
  e9 * (1 + Qabs m) * (match src with SLog _ => 1 + dub src | _ => 1 end) * (Qabs x + Qabs (sc_min src) + Qabs (sc_max src)).

(* one probe of QQ{src,dst}.Map (the same reading with the roles swapped is QQ.Unmap):
   x, sm = src.Map x, du = dst.Unmap sm, qm = QQ.Map x, back = QQ.Unmap qm *)
Definition qq_probe_okQ (src dst : scale) (bs bd : Z) (p : qprobe) : Prop :=
  (* QQ.Map x is bit for bit dst.Unmap (src.Map x) *)
  xsame (q_du p) (q_qm p) /\
  (* the source's own Map value, where it is rational (always for a Linear source) *)
  (forall m, sc_map_exact bs src (q_x p) = Some (XFin m) -> exists o, q_sm p = XFin o /\ Qabs (o - m) <= tol_sm src m) /\
  (sc_map_exact bs src (q_x p) = Some XNaN -> q_sm p = XNaN) /\
  (* where the exact composite is rational, QQ.Map x is within tol_qq of it *)
  (forall m v, sc_map_exact bs src (q_x p) = Some m -> sc_unmap_exact bd e12 dst m = Some (XFin v) ->
     exists o, q_qm p = XFin o /\ Qabs (o - v) <= tol_qq dst m v) /\
  (forall m, sc_map_exact bs src (q_x p) = Some m -> sc_unmap_exact bd e12 dst m = Some XNaN -> q_qm p = XNaN) /\
  (* QQ.Unmap (QQ.Map x) returns to x wherever no clamp interferes *)
  (forall x m, q_x p = XFin x -> q_sm p = XFin m -> qq_inv_guard src dst x m = true ->
     exists o, q_back p = XFin o /\ Qabs (o - x) <= tol_qq_inv src x m).

Lemma qq_check_sound src dst bs bd p : passes (qq_check src dst bs bd p) -> qq_probe_okQ src dst bs bd p.
Proof.
  intro H. unfold qq_check in H.
  apply andthen_passes in H. destruct H as [H H3]. apply andthen_passes in H. destruct H as [H H2].
  apply andthen_passes in H. destruct H as [H1 H0].
  apply need_passes in H1. split; [exact (xeq_xsame _ _ H1)|]. split; [|split; [|split; [|split]]].
  - intros m Em. rewrite Em in H0. apply need_passes in H0. apply xwithin_fin in H0. exact H0.
  - intros Em. rewrite Em in H0. apply need_passes in H0. exact (is_nan_true _ H0).
  - intros m v Em Ev. rewrite Em, Ev in H2. apply need_passes in H2. apply xwithin_fin in H2. exact H2.
  - intros m Em Ev. rewrite Em, Ev in H2. apply need_passes in H2. exact (is_nan_true _ H2).
  - intros x m Ex Em G. rewrite Ex, Em in H3. unfold qq_inv_guard in G. rewrite G in H3.
    apply need_passes in H3. apply xwithin_fin in H3. exact H3.
Qed.

Definition qq_ok (src : scale) (bs : Z) (dst : scale) (bd : Z) (xs ys : list qprobe) : Prop :=
  Forall (qq_probe_okQ src dst bs bd) xs /\ Forall (qq_probe_okQ dst src bd bs) ys.
Theorem compare_qq_sound src bs dst bd xs ys : passes3 (compare_qq src bs dst bd xs ys) -> qq_ok src bs dst bd xs ys.
Proof.
  intro H. unfold compare_qq in H. apply seq2_passes in H. destruct H as [H1 H2].
  apply each_passes in H1, H2. split.
  - eapply Forall_impl; [|exact H1]. intros p. apply qq_check_sound.
  - eapply Forall_impl; [|exact H2]. intros p. apply qq_check_sound.
Qed.

(* Linear -> Linear: the composite is plain rational arithmetic, so EVERY probe is compared:
   QQ.Map x is within tol of  y' * (dmx - dmn) + dmn  where y' is the source's Map value
   (the affine formula, clamped if the source clamps) *)
Definition lin_map_c (l : linear) (x y' : Q) : Prop :=
  exists y, is_lin_map (l_min l) (l_max l) x y /\ y' == (if l_clamp l then clampq y else y).
Lemma lin_map_c_is l x : lin_map_c l x (lin_map l x).
Proof.
  unfold lin_map_c, is_lin_map, lin_map. destruct (Qeqb (l_min l) (l_max l)) eqn:E; gb_bool.
  - exists (1 # 2). split; [left; split; [exact E|reflexivity]|]. destruct (l_clamp l); reflexivity.
  - exists ((x - l_min l) / (l_max l - l_min l)). split; [right; split; [exact E|reflexivity]|]. destruct (l_clamp l); reflexivity.
Qed.
Theorem qq_lin_lin_sound ls ld bs bd p x : q_x p = XFin x ->
  qq_probe_okQ (SLin ls) (SLin ld) bs bd p ->
  exists y' o, lin_map_c ls x y' /\ q_qm p = XFin o /\
    Qabs (o - lin_unmap_spec (l_min ld) (l_max ld) y') <=
      e9 * (Qabs (y' * (l_max ld - l_min ld)) + Qabs (l_min ld) + Qabs (l_max ld - l_min ld)).
Proof.
  intros Ex (_ & _ & _ & H & _). rewrite Ex in H. specialize (H (XFin (lin_map ls x)) (lin_unmap ld (lin_map ls x)) eq_refl eq_refl).
  destruct H as (o & Eo & H). exists (lin_map ls x), o. split; [apply lin_map_c_is|]. split; [exact Eo|exact H].
Qed.

(* ---------- the whole case ---------- *)
Definition case_ok (c : case16) : Prop :=
  match c with
  | K_newlog mn mx base st rmn rmx rb =>
      newlog_ok mn mx base st rmn rmx rb /\
      (forall a b, mn = XFin a -> mx = XFin b -> newlog_fin_ok a b base st rmn rmx rb)
  | K_scale (SLin l) b r ps g ys yg =>
      (~ r == 0 -> Forall (fun p => p_x2 p == p_x p * r) ps) /\ lin_scale_ok l r ps g ys yg
  | K_scale (SLog gs) b r ps g ys yg =>
      0 < g_min gs * g_max gs /\ g_clamp gs = false /\
      (~ r == 0 -> Forall (fun p => p_x2 p == p_x p * r) ps) /\ log_scale_ok gs b r ps g ys yg
  | K_qq src bs dst bd xs ys =>
      Forall (fun p => exists x, q_x p = XFin x) (xs ++ ys) /\ qq_ok src bs dst bd xs ys
  end.

Lemma p_scalecase_some l s b r ps g ys yg rest : p_scalecase l = Some (K_scale s b r ps g ys yg, rest) ->
  sc_clamp s = false /\ match s with SLog g => 0 < g_min g * g_max g | SLin _ => True end /\ shift_ok r ps = true.
Proof.
  unfold p_scalecase. intro H. apply pbind_some in H. destruct H as ([s0 b0] & r1 & Hs & H).
  apply pbind_some in H. destruct H as (r0 & r2 & _ & H).
  apply pbind_some in H. destruct H as (ps0 & r3 & _ & H).
  apply pbind_some in H. destruct H as (g0 & r4 & _ & H).
  apply pbind_some in H. destruct H as (ys0 & r5 & _ & H).
  apply pbind_some in H. destruct H as (yg0 & r6 & _ & H).
  destruct (shift_ok r0 ps0) eqn:S; cbn [negb] in H; [|discriminate].
  apply pend_some in H. destruct H as [H _]. injection H as -> -> -> -> -> -> ->.
  apply p_scale_some in Hs. destruct Hs. auto.
Qed.

Lemma p_qprobe_some l p r : p_qprobe l = Some (p, r) -> exists x, q_x p = XFin x.
Proof.
  unfold p_qprobe. intro H. apply pbind_some in H. destruct H as (x & r1 & _ & H).
  apply pbind_some in H. destruct H as (a & r2 & _ & H).
  apply pbind_some in H. destruct H as (b & r3 & _ & H).
  apply pbind_some in H. destruct H as (c & r4 & _ & H).
  apply pbind_some in H. destruct H as (d & r5 & _ & H).
  apply pret_some in H. destruct H as [-> _]. exists x. reflexivity.
Qed.
Lemma p_qqcase_some l src bs dst bd xs ys rest : p_qqcase l = Some (K_qq src bs dst bd xs ys, rest) ->
  Forall (fun p => exists x, q_x p = XFin x) (xs ++ ys).
Proof.
  unfold p_qqcase. intro H. apply pbind_some in H. destruct H as ([s0 b0] & r1 & _ & H).
  apply pbind_some in H. destruct H as ([d0 b1] & r2 & _ & H).
  apply pbind_some in H. destruct H as (xs0 & r3 & Hx & H).
  apply pbind_some in H. destruct H as (ys0 & r4 & Hy & H).
  apply pend_some in H. destruct H as [H _]. injection H as -> -> -> -> -> ->.
  apply plist_some in Hx, Hy. destruct Hx as (n & r0 & _ & _ & Hx & _). destruct Hy as (n' & r0' & _ & _ & Hy & _).
  apply Forall_app. split; eapply prep_Forall; try eassumption; intros ? ? ?; apply p_qprobe_some.
Qed.

(* MAIN: an accepted line parses completely into a case all of whose comparisons hold *)
Theorem check_ok_sound line c tag pos diag :
  check_C16 line = verdict c tag pos diag -> (c = 0 \/ c = 1)%Z ->
  exists cs, p_case16 line = Some (cs, []) /\ case_ok cs.
Proof.
  intros H C. destruct (check_C16_accepted _ _ _ _ _ H C) as (cs & P & V). exists cs. split; [exact P|].
  unfold p_case16 in P. destruct line as [|a [|k r]]; try discriminate.
  destruct (negb (a =? 16)%Z); [discriminate|].
  destruct (k =? 0)%Z; [|destruct (k =? 1)%Z; [|destruct (k =? 2)%Z; [|discriminate]]].
  - destruct cs as [mn mx base st rmn rmx rb| |].
    + cbn [compare16] in V. pose proof (compare_newlog_sound _ _ _ _ _ _ _ _ _ _ _ V C) as N. split; [exact N|].
      intros a0 b0 -> ->. exact (newlog_ok_fin _ _ _ _ _ _ _ N).
    + exfalso. unfold p_newlog in P. repeat (apply pbind_some in P; destruct P as (? & ? & _ & P)). apply pend_some in P. destruct P as [P _]. discriminate.
    + exfalso. unfold p_newlog in P. repeat (apply pbind_some in P; destruct P as (? & ? & _ & P)). apply pend_some in P. destruct P as [P _]. discriminate.
  - destruct cs as [|s b r0 ps g ys yg|].
    + exfalso. unfold p_scalecase in P. apply pbind_some in P. destruct P as ([s0 b0] & ? & _ & P).
      repeat (apply pbind_some in P; destruct P as (? & ? & _ & P)).
      destruct (negb _); [discriminate|]. apply pend_some in P. destruct P as [P _]. discriminate.
    + cbn [compare16] in V. apply finish_accepted in V; [|exact C].
      destruct (p_scalecase_some _ _ _ _ _ _ _ _ _ P) as (Cl & Dom & Sh).
      destruct s as [l|gs]; cbn [case_ok].
      * split; [exact (shift_ok_sound _ _ Sh)|]. exact (compare_scale_lin l b r0 ps g ys yg Cl V).
      * split; [exact Dom|]. split; [exact Cl|]. split; [exact (shift_ok_sound _ _ Sh)|]. exact (compare_scale_log gs b r0 ps g ys yg V).
    + exfalso. unfold p_scalecase in P. apply pbind_some in P. destruct P as ([s0 b0] & ? & _ & P).
      repeat (apply pbind_some in P; destruct P as (? & ? & _ & P)).
      destruct (negb _); [discriminate|]. apply pend_some in P. destruct P as [P _]. discriminate.
  - destruct cs as [| |src bs dst bd xs ys].
    + exfalso. unfold p_qqcase in P. apply pbind_some in P. destruct P as ([s0 b0] & ? & _ & P).
      apply pbind_some in P. destruct P as ([d0 b1] & ? & _ & P).
      repeat (apply pbind_some in P; destruct P as (? & ? & _ & P)). apply pend_some in P. destruct P as [P _]. discriminate.
    + exfalso. unfold p_qqcase in P. apply pbind_some in P. destruct P as ([s0 b0] & ? & _ & P).
      apply pbind_some in P. destruct P as ([d0 b1] & ? & _ & P).
      repeat (apply pbind_some in P; destruct P as (? & ? & _ & P)). apply pend_some in P. destruct P as [P _]. discriminate.
    + cbn [compare16] in V. apply finish_accepted in V; [|exact C]. split.
      * exact (p_qqcase_some _ _ _ _ _ _ _ _ P).
      * exact (compare_qq_sound _ _ _ _ _ _ V).
Qed.

(* ====================== consequences for Linear scales ====================== *)
(* [is_lin_map] is the function the theorems C16_linear_* are about *)
Lemma is_lin_map_iff s x y : is_lin_map (l_min s) (l_max s) x y <-> y == lin_map (lin_set_clamp s false) x.
Proof.
  split.
  - intro H. apply (is_lin_map_fun _ _ _ _ _ H). exact (lin_map_is (lin_set_clamp s false) x eq_refl).
  - intro H. pose proof (lin_map_is (lin_set_clamp s false) x eq_refl) as L. cbn [lin_set_clamp l_min l_max] in L.
    destruct L as [[A B]|[A B]]; [left|right]; (split; [exact A|rewrite H; exact B]).
Qed.

Lemma Qabs_bounds a : - Qabs a <= a /\ a <= Qabs a.
Proof. apply Qabs_Qle_condition. apply Qle_refl. Qed.

(* clamp is 1-Lipschitz *)
Lemma clampq_lip a b : Qabs (clampq a - clampq b) <= Qabs (a - b).
Proof.
  pose proof (Qabs_bounds (a - b)) as [L U]. apply Qabs_Qle_condition. unfold clampq.
  destruct (Qltb a 0) eqn:A1; destruct (Qltb b 0) eqn:B1; gb_bool;
  try (destruct (Qltb 1 a) eqn:A2); try (destruct (Qltb 1 b) eqn:B2); gb_bool; split; lra.
Qed.

(* the Map observed after SetClamp(true) is within the Map tolerance of the clamped affine value *)
Theorem lin_probe_clamped mn mx r p : lin_probe_ok mn mx r p ->
  exists y m1, is_lin_map mn mx (p_x p) y /\ p_m1 p = XFin m1 /\ Qabs (m1 - clampq y) <= tol_lin_map y.
Proof.
  intros ((y & m & Hy & Em & Hm) & Hc & _). rewrite Em in Hc. cbn in Hc. destruct Hc as (q1 & E1 & Q1).
  exists y, q1. split; [exact Hy|]. split; [exact E1|].
  rewrite Q1. eapply Qle_trans; [apply clampq_lip|exact Hm].
Qed.

(* the inverse law on the observations: Unmap (Map x) is within the sum of the two rounding
   allowances of x (non-degenerate domain) *)
Theorem lin_probe_inverse mn mx r p : ~ mn == mx -> lin_probe_ok mn mx r p ->
  exists y m u, is_lin_map mn mx (p_x p) y /\ p_m0 p = XFin m /\ p_ux p = XFin u /\
    Qabs (u - p_x p) <= tol_lin_unmap mn mx m + tol_lin_map y * Qabs (mx - mn).
Proof.
  intros N ((y & m & Hy & Em & Hm) & _ & (m' & Em' & (u & Eu & Hu)) & _).
  rewrite Em in Em'. injection Em' as <-. exists y, m, u. repeat split; auto.
  destruct Hy as [[A _]|[_ Hy]]; [contradiction|].
  assert (W : ~ mx - mn == 0) by (intro W; apply N; lra).
  assert (X : p_x p == y * (mx - mn) + mn) by (rewrite Hy; field; exact W).
  unfold lin_unmap_spec in Hu.
  setoid_replace (u - p_x p) with ((u - (m * (mx - mn) + mn)) + (m - y) * (mx - mn)) by (rewrite X; ring).
  eapply Qle_trans; [apply Qabs_triangle|]. rewrite Qabs_Qmult.
  apply Qplus_le_compat; [exact Hu|]. apply Qmult_le_compat_r; [exact Hm|apply Qabs_nonneg].
Qed.

(* ====================== non-vacuity: real case lines ====================== *)
(* produced by the harness (vharness run C16) on /repo from the cases in the comments *)
Local Open Scope Z_scope.
(* {"k":1,"s":{"kind":0,"min":3,"max":-1},"xs":[3,-1,1,5,-2],"grid":[-2,-1,0,1,2,3],"ys":[0,1,0.5,-0.5,1.25],"ygrid":[-1,0,0.5,1,2]} *)
Definition ex_line_linear : list Z :=
  [0x10; 0x1; 0x0; 0x4008000000000000; 0xbff0000000000000; 0x0;
   0x0; 0x5; 0x4008000000000000; 0x4008000000000000; 0x8000000000000000; 0x8000000000000000;
   0x8000000000000000; 0x4008000000000000; 0xbff0000000000000; 0xbff0000000000000; 0x3ff0000000000000; 0x3ff0000000000000;
   0x3ff0000000000000; 0xbff0000000000000; 0x3ff0000000000000; 0x3ff0000000000000; 0x3fe0000000000000; 0x3fe0000000000000;
   0x3fe0000000000000; 0x3ff0000000000000; 0x4014000000000000; 0x4014000000000000; 0xbfe0000000000000; 0x0;
   0xbfe0000000000000; 0x4014000000000000; 0xc000000000000000; 0xc000000000000000; 0x3ff4000000000000; 0x3ff0000000000000;
   0x3ff4000000000000; 0xc000000000000000; 0x6; 0xc000000000000000; 0x3ff4000000000000; 0xbff0000000000000;
   0x3ff0000000000000; 0x0; 0x3fe8000000000000; 0x3ff0000000000000; 0x3fe0000000000000; 0x4000000000000000;
   0x3fd0000000000000; 0x4008000000000000; 0x8000000000000000; 0x5; 0x0; 0x4008000000000000;
   0x8000000000000000; 0x3ff0000000000000; 0xbff0000000000000; 0x3ff0000000000000; 0x3fe0000000000000; 0x3ff0000000000000;
   0x3fe0000000000000; 0xbfe0000000000000; 0x4014000000000000; 0xbfe0000000000000; 0x3ff4000000000000; 0xc000000000000000;
   0x3ff4000000000000; 0x5; 0xbff0000000000000; 0x401c000000000000; 0x0; 0x4008000000000000;
   0x3fe0000000000000; 0x3ff0000000000000; 0x3ff0000000000000; 0xbff0000000000000; 0x4000000000000000; 0xc014000000000000].

(* {"k":0,"min":1,"max":100,"base":10} *)
Definition ex_line_newlog_ok : list Z :=
  [0x10; 0x0; 0x3ff0000000000000; 0x4059000000000000; 0xa; 0x0;
   0x3ff0000000000000; 0x4059000000000000; 0xa].

(* {"k":0,"min":-1,"max":100,"base":10} *)
Definition ex_line_newlog_err : list Z :=
  [0x10; 0x0; 0xbff0000000000000; 0x4059000000000000; 0xa; 0x1;
   0x0; 0x0; 0x0].

(* {"k":0,"min":100,"max":1,"base":2} *)
Definition ex_line_newlog_swapped : list Z :=
  [0x10; 0x0; 0x4059000000000000; 0x3ff0000000000000; 0x2; 0x0;
   0x3ff0000000000000; 0x4059000000000000; 0x2].

(* {"k":2,"src":{"kind":0,"min":0,"max":4,"clamp":true},"dst":{"kind":0,"min":10,"max":20},"xs":[0,4,1,6,-2],"ys":[10,20,12.5,25]} *)
Definition ex_line_qq_linlin : list Z :=
  [0x10; 0x2; 0x0; 0x0; 0x4010000000000000; 0x1;
   0x0; 0x0; 0x4024000000000000; 0x4034000000000000; 0x0; 0x0;
   0x5; 0x0; 0x0; 0x4024000000000000; 0x4024000000000000; 0x0;
   0x4010000000000000; 0x3ff0000000000000; 0x4034000000000000; 0x4034000000000000; 0x4010000000000000; 0x3ff0000000000000;
   0x3fd0000000000000; 0x4029000000000000; 0x4029000000000000; 0x3ff0000000000000; 0x4018000000000000; 0x3ff0000000000000;
   0x4034000000000000; 0x4034000000000000; 0x4010000000000000; 0xc000000000000000; 0x0; 0x4024000000000000;
   0x4024000000000000; 0x0; 0x4; 0x4024000000000000; 0x0; 0x0;
   0x0; 0x4024000000000000; 0x4034000000000000; 0x3ff0000000000000; 0x4010000000000000; 0x4010000000000000;
   0x4034000000000000; 0x4029000000000000; 0x3fd0000000000000; 0x3ff0000000000000; 0x3ff0000000000000; 0x4029000000000000;
   0x4039000000000000; 0x3ff8000000000000; 0x4018000000000000; 0x4018000000000000; 0x4034000000000000].

(* {"k":1,"s":{"kind":1,"min":-1000,"max":-10,"hint":10},"r":10,"xs":[-1000,-10,-100,0,100,-37.5],"grid":[-1000,-100,-10],"ys":[0,1,0.5,0.25],"ygrid":[0,0.5,1]} *)
Definition ex_line_log : list Z :=
  [0x10; 0x1; 0x1; 0xc08f400000000000; 0xc024000000000000; 0xa;
   0x4024000000000000; 0x6; 0xc08f400000000000; 0xc0c3880000000000; 0x0; 0x0;
   0xbfe0000000000002; 0xc08f3ffffffffffe; 0xc024000000000000; 0xc059000000000000; 0x3ff0000000000000; 0x3ff0000000000000;
   0x3fdffffffffffffe; 0xc024000000000001; 0xc059000000000000; 0xc08f400000000000; 0x3fdffffffffffffe; 0x3fdffffffffffffe;
   0x0; 0xc059000000000003; 0x0; 0x0; 0x7ff8000000000001; 0x7ff8000000000001;
   0x7ff8000000000001; 0xfff8000000000001; 0x4059000000000000; 0x408f400000000000; 0x7ff8000000000001; 0x7ff8000000000001;
   0x7ff8000000000001; 0xfff8000000000001; 0xc042c00000000000; 0xc077700000000000; 0x3fe6d0c496e3a600; 0x3fe6d0c496e3a600;
   0x3fcb43125b8e9800; 0xc042c00000000000; 0x3; 0xc08f400000000000; 0x0; 0xc059000000000000;
   0x3fdffffffffffffe; 0xc024000000000000; 0x3ff0000000000000; 0x4; 0x0; 0xc08f3ffffffffffe;
   0x0; 0x3ff0000000000000; 0xc024000000000001; 0x3ff0000000000000; 0x3fe0000000000000; 0xc059000000000003;
   0x3fdffffffffffffe; 0x3fd0000000000000; 0xc073c3a4edfa9759; 0x3fd0000000000000; 0x3; 0x0;
   0xc08f3ffffffffffe; 0x3fe0000000000000; 0xc059000000000003; 0x3ff0000000000000; 0xc024000000000001].

(* {"k":2,"src":{"kind":0,"min":0,"max":4},"dst":{"kind":1,"min":1,"max":16,"hint":2},"xs":[0,4,1,2],"ys":[1,16,2,4]} *)
Definition ex_line_qq_linlog : list Z :=
  [0x10; 0x2; 0x0; 0x0; 0x4010000000000000; 0x0;
   0x0; 0x1; 0x3ff0000000000000; 0x4030000000000000; 0x0; 0x2;
   0x4; 0x0; 0x0; 0x3ff0000000000000; 0x3ff0000000000000; 0x0;
   0x4010000000000000; 0x3ff0000000000000; 0x402fffffffffffff; 0x402fffffffffffff; 0x4010000000000000; 0x3ff0000000000000;
   0x3fd0000000000000; 0x4000000000000000; 0x4000000000000000; 0x3ff0000000000000; 0x4000000000000000; 0x3fe0000000000000;
   0x4010000000000000; 0x4010000000000000; 0x4000000000000000; 0x4; 0x3ff0000000000000; 0x0;
   0x0; 0x0; 0x3ff0000000000000; 0x4030000000000000; 0x3ff0000000000000; 0x4010000000000000;
   0x4010000000000000; 0x402fffffffffffff; 0x4000000000000000; 0x3fd0000000000000; 0x3ff0000000000000; 0x3ff0000000000000;
   0x4000000000000000; 0x4010000000000000; 0x3fe0000000000000; 0x4000000000000000; 0x4000000000000000; 0x4010000000000000].

(* Proofs/CheckC16.v — (group hF) what an accepted verdict of check_C16 means.
   1. [check_C16] factors as parse ([p_case16]) then compare ([compare16]); an accepted line
      parses completely (nothing left over) into a [case16].
   2. Reading of every comparison in terms of the observed numbers and the mathematical
      specification: Linear scales against the affine formula over Q (closed under the global
      context); NewLog against the acceptance rule; Log scales and QQ per observable (the
      real-number readings are in Proofs/CheckC16R.v). *)
From MM Require Import Base.Num Base.GBLemmas Model.Scale Proofs.Scale Check.C16 Proofs.CheckBase.
From Coq Require Import Lqa Lia.
Local Open Scope Q_scope.

(* ---------- the outcome combinators ---------- *)
Definition passes (o : outcome) : Prop := snd o = None.
Definition passes3 (o : Z * option (Z * Z * list Z)) : Prop := snd o = None.

Lemma need_passes c t id d : passes (need c t id d) <-> c = true.
Proof. unfold passes, need, ok, failed. destruct c; cbn; split; congruence. Qed.
Lemma ok_passes t : passes (ok t).
Proof. reflexivity. Qed.
Lemma failed_passes t id d : ~ passes (failed t id d).
Proof. unfold passes, failed. cbn. discriminate. Qed.
Lemma andthen_passes a b : passes (andthen a b) <-> passes a /\ passes (b tt).
Proof.
  unfold passes, andthen. destruct a as [t [f|]]; cbn.
  - split; [discriminate|intros [H _]; discriminate].
  - destruct (b tt) as [t' f]. cbn. tauto.
Qed.
Lemma each_passes {A} (f : A -> outcome) l : forall i, passes3 (each f l i) <-> Forall (fun a => passes (f a)) l.
Proof.
  induction l as [|a l IH]; intro i; cbn [each].
  - split; [constructor|reflexivity].
  - unfold passes3, passes in *. destruct (f a) as [tg [[id d]|]] eqn:E; cbn.
    + split; [discriminate|]. intro H. inversion H as [|? ? H1 H2]; subst. rewrite E in H1. discriminate.
    + specialize (IH (i + 1)%Z). destruct (each f l (i + 1)%Z) as [tg' r]. cbn in *. rewrite IH.
      split; [intro H; constructor; [rewrite E; reflexivity|exact H]|]. intro H. inversion H; assumption.
Qed.
Lemma whole_passes o : passes3 (whole o) <-> passes o.
Proof. unfold passes3, passes, whole. destruct o as [t [[id d]|]]; cbn; split; congruence. Qed.
Lemma seq2_passes a b : passes3 (seq2 a b) <-> passes3 a /\ passes3 (b tt).
Proof.
  unfold passes3, seq2. destruct a as [t [f|]]; cbn.
  - split; [discriminate|intros [H _]; discriminate].
  - destruct (b tt) as [t' f]. cbn. tauto.
Qed.
Lemma finish_accepted base r c tag pos diag :
  finish base r = verdict c tag pos diag -> (c = 0 \/ c = 1)%Z -> passes3 r.
Proof.
  unfold finish, passes3. destruct r as [t [[[i id] d]|]]; cbn; [|reflexivity].
  intros H C. apply verdict_inj in H. destruct H as [H _]. unfold V_MISMATCH in H. lia.
Qed.

(* ---------- the case a line describes ---------- *)
Inductive case16 :=
| K_newlog (mn mx : xreal) (base st : Z) (rmn rmx : xreal) (rb : Z)
| K_scale (s : scale) (b : Z) (r : Q) (ps : list probe) (g : list (Q * xreal))
          (ys : list (Q * xreal * xreal)) (yg : list (Q * xreal))
| K_qq (src : scale) (bs : Z) (dst : scale) (bd : Z) (xs ys : list qprobe).

Definition p_newlog : parser case16 :=
  do mn <- pX; do mx <- pX; do base <- pZ; do st <- pZ; do rmn <- pX; do rmx <- pX; do rb <- pZ;
  pend (K_newlog mn mx base st rmn rmx rb).
Definition p_scalecase : parser case16 :=
  do sh <- p_scale; let '(s, b) := sh in
  do r <- pQ;
  do ps <- plist p_probe; do g <- p_grid; do ys <- plist p_yprobe; do yg <- p_grid;
  if negb (shift_ok r ps) then (fun _ => None) else pend (K_scale s b r ps g ys yg).
Definition p_qqcase : parser case16 :=
  do sh <- p_cscale; let '(src, bs) := sh in
  do dh <- p_cscale; let '(dst, bd) := dh in
  do xs <- plist p_qprobe; do ys <- plist p_qprobe;
  pend (K_qq src bs dst bd xs ys).

(* the line grammar: 16, kind, then the fields of the kind; the whole line must be consumed *)
Definition p_case16 (line : list Z) : option (case16 * list Z) :=
  match line with
  | a :: k :: r =>
      if negb (a =? 16)%Z then None
      else if (k =? 0)%Z then p_newlog r
      else if (k =? 1)%Z then p_scalecase r
      else if (k =? 2)%Z then p_qqcase r
      else None
  | _ => None
  end.

Definition compare_newlog mn mx base st rmn rmx rb : list Z :=
  match new_log mn mx base with
  | NL_rangeerr => if (st =? 1)%Z then verdict V_OK (if (base <=? 1)%Z then 8192 else 16384) (-1) []
                   else verdict V_MISMATCH 8192 1 [1%Z]
  | NL_ok a b c =>
      if negb (st =? 0)%Z then verdict V_MISMATCH 32768 1 [0%Z]
      else if xeq a rmn && xeq b rmx && (c =? rb)%Z then verdict V_OK (Z.lor 32768 (if xlt mx mn then T_REV else 0)) (-1) []
      else verdict V_MISMATCH 32768 2 (xdiag a ++ xdiag b ++ [c])
  end.
Definition compare_scale s b r ps g ys yg : Z * option (Z * Z * list Z) :=
  seq2 (each (probe_check s b r) ps 0%Z) (fun _ =>
  seq2 (whole (if Qeqb r 0 then ok 0 else shift_check s None ps)) (fun _ =>
  seq2 (whole (mono_check (direction s) (gap_x s) g)) (fun _ =>
  seq2 (each (fun t => let '(y, u, m) := t in unmap_check s b y u m) ys 1000%Z) (fun _ =>
        whole (mono_check (direction s) (gap_y s) yg))))).
Definition compare_qq src bs dst bd xs ys : Z * option (Z * Z * list Z) :=
  seq2 (each (qq_check src dst bs bd) xs 0%Z) (fun _ => each (qq_check dst src bd bs) ys 1000%Z).
Definition qq_base (src dst : scale) : Z :=
  Z.lor T_QQ (Z.lor (Z.lor (sc_tags src) (sc_tags dst))
    (Z.lor (match src with SLog _ => T_QSRCLOG | _ => 0%Z end) (match dst with SLog _ => T_QDSTLOG | _ => 0%Z end))).

Definition compare16 (c : case16) : list Z :=
  match c with
  | K_newlog mn mx base st rmn rmx rb => compare_newlog mn mx base st rmn rmx rb
  | K_scale s b r ps g ys yg => finish (sc_tags s) (compare_scale s b r ps g ys yg)
  | K_qq src bs dst bd xs ys => finish (qq_base src dst) (compare_qq src bs dst bd xs ys)
  end.

Definition malformed : list Z := verdict V_MALFORMED 0 (-1) [].
Definition outV (o : option (list Z * list Z)) : list Z := match o with Some (v, _) => v | None => malformed end.
Definition outC (o : option (case16 * list Z)) : list Z := match o with Some (c, _) => compare16 c | None => malformed end.

Lemma bind_factor {A} (p : parser A) f g l :
  (forall a l', outV (f a l') = outC (g a l')) -> outV (pbind p f l) = outC (pbind p g l).
Proof. intro H. unfold pbind. destruct (p l) as [[a l']|]; [apply H|reflexivity]. Qed.
Lemma pend_factor v c l : v = compare16 c -> outV (pend v l) = outC (pend c l).
Proof. intros ->. destruct l; reflexivity. Qed.

Lemma check_newlog_factor r : outV (check_newlog r) = outC (p_newlog r).
Proof.
  unfold check_newlog, p_newlog. repeat (apply bind_factor; intros). apply pend_factor. reflexivity.
Qed.
Lemma check_scale_factor r : outV (check_scale r) = outC (p_scalecase r).
Proof.
  unfold check_scale, p_scalecase. apply bind_factor. intros [s b] l. repeat (apply bind_factor; intros).
  destruct (negb (shift_ok _ _)); [reflexivity|]. apply pend_factor. reflexivity.
Qed.
Lemma check_qq_factor r : outV (check_qq r) = outC (p_qqcase r).
Proof.
  unfold check_qq, p_qqcase. apply bind_factor. intros [src bs] l. apply bind_factor. intros [dst bd] l0.
  repeat (apply bind_factor; intros). apply pend_factor. reflexivity.
Qed.

(* the line must start 16, kind with kind 0, 1 or 2; anything else is malformed *)
Lemma check_C16_head line :
  check_C16 line = match line with
                   | a :: k :: r => if negb (a =? 16)%Z then malformed
                                    else if (k =? 0)%Z then outV (check_newlog r)
                                    else if (k =? 1)%Z then outV (check_scale r)
                                    else if (k =? 2)%Z then outV (check_qq r)
                                    else malformed
                   | _ => malformed
                   end.
Proof.
  destruct line as [|a l]; [reflexivity|].
  destruct a as [|p|p]; try (destruct l; reflexivity).
  do 4 (destruct p as [p|p|]; try (destruct l; reflexivity)).
  destruct p; try (destruct l; reflexivity).
  destruct l as [|k r]; [reflexivity|].
  destruct k as [|q|q]; try reflexivity.
  destruct q as [q|q|]; try reflexivity.
  destruct q; reflexivity.
Qed.

(* MAIN factorisation: check_C16 = compare16 after p_case16 *)
Theorem check_C16_factor line : check_C16 line = outC (p_case16 line).
Proof.
  rewrite check_C16_head. unfold p_case16. destruct line as [|a [|k r]]; try reflexivity.
  destruct (negb (a =? 16)%Z); [reflexivity|].
  destruct (k =? 0)%Z; [apply check_newlog_factor|].
  destruct (k =? 1)%Z; [apply check_scale_factor|].
  destruct (k =? 2)%Z; [apply check_qq_factor|reflexivity].
Qed.

(* every sub-parser ends with [pend]: a successful parse consumes the whole line *)
Lemma pbind_rest {A B} (p : parser A) (f : A -> parser B) :
  (forall a l b r, f a l = Some (b, r) -> r = []) -> forall l b r, pbind p f l = Some (b, r) -> r = [].
Proof. intros H l b r E. apply pbind_some in E. destruct E as (a & r' & _ & E). eapply H. exact E. Qed.
Lemma pend_rest {A} (a : A) l b r : pend a l = Some (b, r) -> r = [].
Proof. intro H. apply pend_some in H. tauto. Qed.

Lemma p_case16_rest line c r : p_case16 line = Some (c, r) -> r = [].
Proof.
  unfold p_case16. destruct line as [|a [|k l]]; try discriminate.
  destruct (negb (a =? 16)%Z); [discriminate|].
  destruct (k =? 0)%Z; [|destruct (k =? 1)%Z; [|destruct (k =? 2)%Z; [|discriminate]]].
  - unfold p_newlog. repeat (apply pbind_rest; intros ? ?). apply pend_rest.
  - unfold p_scalecase. apply pbind_rest. intros [s b] l0. repeat (apply pbind_rest; intros ? ?).
    destruct (negb (shift_ok _ _)); [discriminate|]. apply pend_rest.
  - unfold p_qqcase. apply pbind_rest. intros [src bs] l0. apply pbind_rest. intros [dst bd] l1.
    repeat (apply pbind_rest; intros ? ?). apply pend_rest.
Qed.

(* an accepted line is a complete parse, and the comparison of that case accepted *)
Theorem check_C16_accepted line c tag pos diag :
  check_C16 line = verdict c tag pos diag -> (c = 0 \/ c = 1)%Z ->
  exists cs, p_case16 line = Some (cs, []) /\ compare16 cs = verdict c tag pos diag.
Proof.
  rewrite check_C16_factor. intros H C. destruct (p_case16 line) as [[cs r]|] eqn:E.
  - pose proof (p_case16_rest _ _ _ E) as ->. exists cs. auto.
  - cbn in H. apply verdict_inj in H. unfold V_MALFORMED in H. lia.
Qed.

(* ====================== reading the comparisons ====================== *)

(* ---------- what the parser guarantees about a kind-1 scale ---------- *)
Lemma p_scale_some l s b r : p_scale l = Some ((s, b), r) ->
  sc_clamp s = false /\ match s with SLog g => 0 < g_min g * g_max g | SLin _ => True end.
Proof.
  unfold p_scale. intro H.
  apply pbind_some in H. destruct H as (k & r1 & _ & H).
  apply pbind_some in H. destruct H as (mn & r2 & _ & H).
  apply pbind_some in H. destruct H as (mx & r3 & _ & H).
  apply pbind_some in H. destruct H as (h & r4 & _ & H).
  destruct (k =? 0)%Z.
  - apply pret_some in H. destruct H as [H _]. injection H as -> ->. cbn. auto.
  - destruct (k =? 1)%Z; [|discriminate]. destruct (Qltb 0 (mn * mx)) eqn:E; [|discriminate].
    apply pret_some in H. destruct H as [H _]. injection H as -> ->. cbn. gb_bool. auto.
Qed.
Lemma p_cscale_some l s b r : p_cscale l = Some ((s, b), r) ->
  match s with SLog g => 0 < g_min g * g_max g | SLin _ => True end.
Proof.
  unfold p_cscale. intro H.
  apply pbind_some in H. destruct H as (k & r1 & _ & H).
  apply pbind_some in H. destruct H as (mn & r2 & _ & H).
  apply pbind_some in H. destruct H as (mx & r3 & _ & H).
  apply pbind_some in H. destruct H as (c & r4 & _ & H).
  apply pbind_some in H. destruct H as (h & r5 & _ & H).
  destruct (k =? 0)%Z.
  - apply pret_some in H. destruct H as [H _]. injection H as -> ->. exact I.
  - destruct (k =? 1)%Z; [|discriminate]. destruct (Qltb 0 (mn * mx)) eqn:E; [|discriminate].
    apply pret_some in H. destruct H as [H _]. injection H as -> ->. cbn. gb_bool. auto.
Qed.

(* ---------- Linear: the specification the observations are compared with ---------- *)
(* y is the value at x of the Linear scale with domain [mn, mx], Clamp off:
   the affine formula (x - mn) / (mx - mn); 1/2 on a degenerate domain *)
Definition is_lin_map (mn mx x y : Q) : Prop :=
  (mn == mx /\ y == 1 # 2) \/ (~ mn == mx /\ y == (x - mn) / (mx - mn)).
Definition lin_unmap_spec (mn mx y : Q) : Q := y * (mx - mn) + mn.

(* tolerances of Check/C16.v: 1e-12 relative to the size of the operands *)
Definition tol_lin_map (y : Q) : Q := e12 * (1 + Qabs y).
Definition tol_lin_unmap (mn mx y : Q) : Q := e12 * (Qabs (y * (mx - mn)) + Qabs mn).

Lemma lin_map_is l x : l_clamp l = false -> is_lin_map (l_min l) (l_max l) x (lin_map l x).
Proof.
  intro C. unfold is_lin_map, lin_map. rewrite C. destruct (Qeqb (l_min l) (l_max l)) eqn:E; gb_bool.
  - left. split; [exact E|reflexivity].
  - right. split; [exact E|reflexivity].
Qed.
Lemma is_lin_map_fun mn mx x y y' : is_lin_map mn mx x y -> is_lin_map mn mx x y' -> y == y'.
Proof. intros [[A B]|[A B]] [[A' B']|[A' B']]; try contradiction; rewrite B, B'; reflexivity. Qed.

(* an observed float [o] is a finite number within the Map tolerance of the scale's value at x *)
Definition obs_lin_map (mn mx x : Q) (o : xreal) : Prop :=
  exists y m, is_lin_map mn mx x y /\ o = XFin m /\ Qabs (m - y) <= tol_lin_map y.
(* ... within the Unmap tolerance of y * (mx - mn) + mn *)
Definition obs_lin_unmap (mn mx y : Q) (o : xreal) : Prop :=
  exists u, o = XFin u /\ Qabs (u - lin_unmap_spec mn mx y) <= tol_lin_unmap mn mx y.
(* the Map observed after SetClamp(true) is exactly the clamp of the one observed with Clamp off *)
Definition obs_clamp (m0 m1 : xreal) : Prop :=
  match m0 with
  | XFin q => exists q1, m1 = XFin q1 /\ q1 == clampq q
  | XNaN => m1 = XNaN
  | XInf n => exists q1, m1 = XFin q1 /\ q1 == (if n then 0 else 1)
  end.

Lemma clamp_consistent_sound m0 m1 : clamp_consistent m0 m1 = true -> obs_clamp m0 m1.
Proof.
  unfold clamp_consistent, obs_clamp. destruct m0 as [|n|q]; intro H.
  - destruct m1; try discriminate. reflexivity.
  - apply xeq_fin in H. exact H.
  - apply xeq_fin in H. exact H.
Qed.

Lemma map_check_lin l b x m0 : l_clamp l = false ->
  passes (map_check (SLin l) b x m0) -> obs_lin_map (l_min l) (l_max l) x m0.
Proof.
  intros C H. cbn [map_check] in H. apply need_passes in H. apply xwithin_fin in H.
  destruct H as (m & -> & H). exists (lin_map l x), m. split; [apply lin_map_is; exact C|]. split; [reflexivity|exact H].
Qed.
Lemma unmap_of_map_check_lin l x m0 ux : passes (unmap_of_map_check (SLin l) x m0 ux) ->
  exists m, m0 = XFin m /\ obs_lin_unmap (l_min l) (l_max l) m ux.
Proof.
  cbn [unmap_of_map_check]. destruct m0 as [| |m]; intro H; try (apply failed_passes in H; contradiction).
  apply need_passes in H. apply xwithin_fin in H. destruct H as (u & -> & H).
  exists m. split; [reflexivity|]. exists u. split; [reflexivity|]. exact H.
Qed.

Definition lin_probe_ok (mn mx r : Q) (p : probe) : Prop :=
  obs_lin_map mn mx (p_x p) (p_m0 p) /\
  obs_clamp (p_m0 p) (p_m1 p) /\
  (exists m, p_m0 p = XFin m /\ obs_lin_unmap mn mx m (p_ux p)) /\
  (~ r == 0 -> obs_lin_map mn mx (p_x2 p) (p_m02 p)).

Lemma probe_check_lin l b r p : l_clamp l = false ->
  passes (probe_check (SLin l) b r p) -> lin_probe_ok (l_min l) (l_max l) r p.
Proof.
  intros C H. unfold probe_check in H.
  apply andthen_passes in H. destruct H as [H H4].
  apply andthen_passes in H. destruct H as [H H3].
  apply andthen_passes in H. destruct H as [H1 H2].
  split; [exact (map_check_lin l b _ _ C H1)|].
  split; [apply need_passes in H2; exact (clamp_consistent_sound _ _ H2)|].
  split; [exact (unmap_of_map_check_lin l _ _ _ H3)|].
  intro R. destruct (Qeqb r 0) eqn:E; [gb_bool; contradiction|]. exact (map_check_lin l b _ _ C H4).
Qed.

(* y-probe (y, Unmap y, Map (Unmap y)) *)
Definition lin_yprobe_ok (mn mx : Q) (t : Q * xreal * xreal) : Prop :=
  let '(y, uy, muy) := t in
  obs_lin_unmap mn mx y uy /\ exists u, uy = XFin u /\ obs_lin_map mn mx u muy.

Lemma unmap_check_lin l b y uy muy : l_clamp l = false ->
  passes (unmap_check (SLin l) b y uy muy) -> lin_yprobe_ok (l_min l) (l_max l) (y, uy, muy).
Proof.
  intros C H. cbn [unmap_check] in H. apply andthen_passes in H. destruct H as [H1 H2].
  apply need_passes in H1. apply xwithin_fin in H1. destruct H1 as (u & -> & H1).
  split; [exists u; split; [reflexivity|exact H1]|].
  exists u. split; [reflexivity|]. apply need_passes in H2. apply xwithin_fin in H2. destruct H2 as (m & -> & H2).
  exists (lin_map l u), m. split; [apply lin_map_is; exact C|]. split; [reflexivity|exact H2].
Qed.

(* ---------- grids: strict monotonicity in the direction of the domain ---------- *)
Fixpoint adjacent {A} (l : list A) : list (A * A) :=
  match l with a :: (b :: _) as t => (a, b) :: adjacent t | _ => [] end.
(* every two neighbouring grid points whose arguments differ by more than the rounding gap
   have finite values that differ strictly, in the direction [dir] *)
Definition mono_ok (dir : Q) (gap : Q -> Q -> bool) (g : list (Q * xreal)) : Prop :=
  Forall (fun pq : (Q * xreal) * (Q * xreal) =>
            forall a b, snd (fst pq) = XFin a -> snd (snd pq) = XFin b ->
                        fst (fst pq) < fst (snd pq) -> gap (fst (fst pq)) (fst (snd pq)) = true ->
                        0 < dir * (b - a)) (adjacent g).

Lemma mono_check_sound dir gap g : passes (mono_check dir gap g) -> mono_ok dir gap g.
Proof.
  unfold mono_ok. induction g as [|[x1 v1] g IH]; [constructor|].
  destruct g as [|[x2 v2] g']; [constructor|].
  intro H. cbn [mono_check] in H. apply andthen_passes in H. destruct H as [H1 H2].
  cbn [adjacent]. constructor; [|exact (IH H2)].
  cbn [fst snd]. intros a b -> -> L G.
  destruct (Qltb x1 x2) eqn:E; [|gb_bool; lra]. rewrite G in H1. cbn [andb] in H1.
  apply need_passes in H1. gb_bool. exact H1.
Qed.

(* ---------- the shift law Map(x r) - Map(x) = const, on the finite observations ---------- *)
Definition fin_pairs (ps : list probe) : list (Q * Q) :=
  flat_map (fun p => match p_m0 p, p_m02 p with XFin a, XFin c => [(a, c)] | _, _ => [] end) ps.
Definition shift_within (s : scale) (d0 : Q) (ac : Q * Q) : Prop :=
  Qabs ((snd ac - fst ac) - d0) <= tolm s * (2 + Qabs (fst ac) + Qabs (snd ac)).
Definition shift_ok_spec (s : scale) (l : list (Q * Q)) : Prop :=
  match l with [] => True | (a0, c0) :: t => Forall (shift_within s (c0 - a0)) t end.

Lemma shift_check_some s d0 ps : passes (shift_check s (Some d0) ps) -> Forall (shift_within s d0) (fin_pairs ps).
Proof.
  induction ps as [|p ps IH]; [constructor|]. intro H. cbn [shift_check] in H. unfold shift_delta in H.
  unfold fin_pairs. cbn [flat_map]. fold (fin_pairs ps).
  destruct (p_m0 p) as [| |a]; try exact (IH H). destruct (p_m02 p) as [| |c]; try exact (IH H).
  apply andthen_passes in H. destruct H as [H1 H2]. apply need_passes in H1. apply within_sound in H1.
  cbn [app]. constructor; [exact H1|exact (IH H2)].
Qed.
Lemma shift_check_none s ps : passes (shift_check s None ps) -> shift_ok_spec s (fin_pairs ps).
Proof.
  induction ps as [|p ps IH]; [intros _; exact I|]. intro H. cbn [shift_check] in H. unfold shift_delta in H.
  unfold fin_pairs. cbn [flat_map]. fold (fin_pairs ps).
  destruct (p_m0 p) as [| |a]; try exact (IH H). destruct (p_m02 p) as [| |c]; try exact (IH H).
  cbn [app shift_ok_spec]. exact (shift_check_some _ _ _ H).
Qed.

Lemma shift_ok_sound r ps : shift_ok r ps = true -> ~ r == 0 -> Forall (fun p => p_x2 p == p_x p * r) ps.
Proof.
  unfold shift_ok. intros H R. destruct (Qeqb r 0) eqn:E; [gb_bool; contradiction|]. cbn [orb] in H.
  rewrite forallb_forall in H. apply Forall_forall. intros p Hp. specialize (H p Hp). gb_bool. exact H.
Qed.

(* ---------- a whole Linear kind-1 case ---------- *)
Definition lin_scale_ok (l : linear) (r : Q) (ps : list probe) (g : list (Q * xreal))
    (ys : list (Q * xreal * xreal)) (yg : list (Q * xreal)) : Prop :=
  let mn := l_min l in let mx := l_max l in
  Forall (lin_probe_ok mn mx r) ps /\
  (~ r == 0 -> shift_ok_spec (SLin l) (fin_pairs ps)) /\
  mono_ok (direction (SLin l)) (gap_x (SLin l)) g /\
  Forall (lin_yprobe_ok mn mx) ys /\
  mono_ok (direction (SLin l)) (gap_y (SLin l)) yg.

Theorem compare_scale_lin l b r ps g ys yg : l_clamp l = false ->
  passes3 (compare_scale (SLin l) b r ps g ys yg) -> lin_scale_ok l r ps g ys yg.
Proof.
  intros C H. unfold compare_scale in H.
  apply seq2_passes in H. destruct H as [H1 H].
  apply seq2_passes in H. destruct H as [H2 H].
  apply seq2_passes in H. destruct H as [H3 H].
  apply seq2_passes in H. destruct H as [H4 H5].
  apply each_passes in H1. apply whole_passes in H2, H3, H5. apply each_passes in H4.
  split; [|split; [|split; [|split]]].
  - eapply Forall_impl; [|exact H1]. intros p Hp. exact (probe_check_lin l b r p C Hp).
  - intro R. destruct (Qeqb r 0) eqn:E; [gb_bool; contradiction|]. exact (shift_check_none _ _ H2).
  - exact (mono_check_sound _ _ _ H3).
  - eapply Forall_impl; [|exact H4]. intros [[y u] m] Hp. exact (unmap_check_lin l b y u m C Hp).
  - exact (mono_check_sound _ _ _ H5).
Qed.

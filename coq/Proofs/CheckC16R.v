(* Proofs/CheckC16R.v — (group hF) the Log-scale comparisons of check_C16 read against the
   real-valued specification RealSpec.LogScale.log_mapR / log_unmapR (ln, exp over R), by
   composing the Q-level readings of Proofs/CheckC16.v with the bridging theorems of
   RealSpec/LogScaleModel.v.  Per observable; real-number axioms of the standard library only. *)
From Coq Require Import Reals Lra Qreals QArith.
From Coq Require Lqa.
From MM Require Import Base.Num Base.GBLemmas Model.Scale Proofs.Scale Check.C16 Proofs.CheckBase
  Proofs.NumSoundR Proofs.CheckC16 RealSpec.LogScale RealSpec.LogScaleModel.
Local Open Scope R_scope.

Lemma Qle_R_abs a b t : (Qabs (a - b) <= t)%Q -> Rabs (Q2R a - Q2R b) <= Q2R t.
Proof. intro H. apply Qle_Rle in H. rewrite Q2R_Qabs, Q2R_minus in H. exact H. Qed.

(* the domains the line parser lets through are the ones NewLog accepts (either order) *)
Lemma valid_of_prod g : (0 < g_min g * g_max g)%Q -> valid (Q2R (g_min g)) (Q2R (g_max g)).
Proof.
  intro H. apply Qlt_Rlt in H. rewrite Q2R_mult, Q2R_0' in H. unfold valid.
  destruct (Rlt_dec 0 (Q2R (g_min g))) as [P|P].
  - left. split; [exact P|]. nra.
  - right. assert (Q2R (g_min g) <> 0) by (intro E; rewrite E in H; lra). split; nra.
Qed.

Section LogObs.
  Variables (g : logscale) (b : Z).
  Hypothesis Cl : g_clamp g = false.
  Let mn := Q2R (g_min g).
  Let mx := Q2R (g_max g).

  Lemma spec_is_dec x : log_mapR mn mx false (Q2R x) = lmapR (log_map_dec g x).
  Proof. unfold mn, mx. rewrite <- Cl. apply log_map_dec_R. Qed.

  (* (1) the observed Map is NaN exactly when the specification is undefined (x = 0 or of
     the wrong sign, C16_log_nan_iff); otherwise it is a finite float *)
  Theorem log_obs_nan_iff x m0 : log_map_okQ g b x m0 ->
    (log_mapR mn mx false (Q2R x) = None <-> m0 = XNaN).
  Proof.
    intro H. rewrite spec_is_dec. unfold log_map_okQ in H.
    destruct (log_map_dec g x); cbn [lmapR].
    - tauto.
    - destruct H as (q & -> & _). split; discriminate.
    - destruct H as (q & -> & _). split; discriminate.
  Qed.

  (* (2) where the specification is defined the observation is a finite float, and where the
     check has a closed form e (ends and x exact powers of the hint) e IS the real value of
     Log.Map and the observation is within 1e-10 (1 + |e|) of it *)
  Theorem log_obs_value x m0 y : log_map_okQ g b x m0 ->
    log_mapR mn mx false (Q2R x) = Some y ->
    exists q, m0 = XFin q /\
      forall e, lmap_exact b (log_map_dec g x) = Some (XFin e) ->
        y = Q2R e /\ Rabs (Q2R q - y) <= Q2R e10 * (1 + Rabs y).
  Proof.
    intros H S. rewrite spec_is_dec in S. unfold log_map_okQ in H.
    destruct (log_map_dec g x) as [| |ng cl emn emx ex] eqn:D.
    - discriminate.
    - destruct H as (q & -> & Hq). exists q. split; [reflexivity|]. intros e He.
      cbn in He. injection He as <-. cbn in S. injection S as <-. rewrite (Qeq_eqR _ _ Hq), Q2R_half.
      split; [reflexivity|]. replace (/ 2 - / 2) with 0 by ring. rewrite Rabs_R0.
      assert (0 < Q2R e10) by (rewrite <- Q2R_0'; apply Qlt_Rlt; reflexivity).
      pose proof (Rabs_pos (/ 2)). nra.
    - destruct H as (q & -> & _ & _ & Hq). exists q. split; [reflexivity|]. intros e He.
      pose proof (lmap_exact_sound _ _ _ He) as Y. cbn beta iota in Y. rewrite S in Y. injection Y as ->.
      split; [reflexivity|]. specialize (Hq e He). apply Qle_Rle in Hq.
      rewrite Q2R_Qabs, Q2R_minus, Q2R_mult, Q2R_plus, Q2R_Qabs, Q2R_1' in Hq. exact Hq.
  Qed.

  (* (3) the ends: Map(Min) is within 1e-12 of 0 and Map(Max) within 1e-12 of 1 — the values
     C16_log_map_min_max proves — on every non-degenerate accepted domain *)
  Theorem log_obs_ends x m0 : log_map_okQ g b x m0 -> valid mn mx -> mn <> mx ->
    ((x == g_min g)%Q -> log_mapR mn mx false (Q2R x) = Some 0 /\
                          exists q, m0 = XFin q /\ Rabs (Q2R q - 0) <= Q2R e12) /\
    ((x == g_max g)%Q -> log_mapR mn mx false (Q2R x) = Some 1 /\
                          exists q, m0 = XFin q /\ Rabs (Q2R q - 1) <= Q2R e12).
  Proof.
    intros H V N. split; intro E.
    - assert (S : log_mapR mn mx false (Q2R x) = Some 0).
      { rewrite (Qeq_eqR _ _ E). exact (log_map_min mn mx V N). }
      split; [exact S|]. rewrite spec_is_dec in S. unfold log_map_okQ in H.
      destruct (log_map_dec g x); cbn [lmapR] in S; try discriminate.
      + injection S as S. lra.
      + destruct H as (q & -> & H & _). exists q. split; [reflexivity|].
        specialize (H E). apply Qle_R_abs in H. rewrite Q2R_0' in H. exact H.
    - assert (S : log_mapR mn mx false (Q2R x) = Some 1).
      { rewrite (Qeq_eqR _ _ E). exact (log_map_max mn mx V N). }
      split; [exact S|]. rewrite spec_is_dec in S. unfold log_map_okQ in H.
      destruct (log_map_dec g x); cbn [lmapR] in S; try discriminate.
      + injection S as S. lra.
      + destruct H as (q & -> & _ & H & _). exists q. split; [reflexivity|].
        specialize (H E). apply Qle_R_abs in H. rewrite Q2R_1' in H. exact H.
  Qed.

  (* (4) degenerate domain: every input of the right sign maps to exactly 1/2 *)
  Lemma log_map_dec_degenerate x : (g_min g == g_max g)%Q ->
    log_map_dec g x = LM_nan \/ log_map_dec g x = LM_half.
  Proof.
    intro E. unfold log_map_dec, ebounds. destruct (Qltb (g_min g) 0).
    - destruct (Qleb (- x) 0); [left; reflexivity|]. destruct (Qeqb (- g_max g) (- g_min g)) eqn:F; [right; reflexivity|].
      gb_bool. exfalso. apply F. rewrite E. reflexivity.
    - destruct (Qleb x 0); [left; reflexivity|]. destruct (Qeqb (g_min g) (g_max g)) eqn:F; [right; reflexivity|].
      gb_bool. contradiction.
  Qed.
  Theorem log_obs_degenerate x m0 : log_map_okQ g b x m0 -> (g_min g == g_max g)%Q ->
    log_mapR mn mx false (Q2R x) = None /\ m0 = XNaN \/
    log_mapR mn mx false (Q2R x) = Some (/ 2) /\ exists q, m0 = XFin q /\ Q2R q = / 2.
  Proof.
    intros H E. rewrite spec_is_dec. unfold log_map_okQ in H.
    destruct (log_map_dec_degenerate x E) as [D|D]; rewrite D in *; cbn [lmapR].
    - left. auto.
    - right. split; [reflexivity|]. destruct H as (q & -> & Hq). exists q. split; [reflexivity|].
      rewrite (Qeq_eqR _ _ Hq). apply Q2R_half.
  Qed.

  (* (5) the inverse law on the implementation's own output: wherever Map x is defined on a
     non-degenerate domain, the observed Unmap (Map x) is within 1e-9 |x| of
     log_unmapR (log_mapR x), which is x (C16_log_inverse) *)
  Theorem log_obs_inverse x ux y : log_unmap_of_map_okQ g x ux -> valid mn mx -> mn <> mx ->
    log_mapR mn mx false (Q2R x) = Some y ->
    log_unmapR mn mx y = Q2R x /\
    exists u, ux = XFin u /\ Rabs (Q2R u - log_unmapR mn mx y) <= Q2R e9 * Rabs (Q2R x).
  Proof.
    intros H V N S.
    assert (SS : same_sign mn (Q2R x)).
    { pose proof (log_nan_iff mn mx false (Q2R x) V) as NI. unfold same_sign.
      destruct V as [[V1 V2]|[V1 V2]].
      - left. split; [exact V1|]. destruct (Rlt_dec 0 (Q2R x)) as [P|P]; [exact P|]. exfalso.
        assert (log_mapR mn mx false (Q2R x) = None) by (apply NI; destruct (Req_dec (Q2R x) 0); [left; assumption|right; left; lra]).
        congruence.
      - right. split; [exact V1|]. destruct (Rlt_dec (Q2R x) 0) as [P|P]; [exact P|]. exfalso.
        assert (log_mapR mn mx false (Q2R x) = None) by (apply NI; destruct (Req_dec (Q2R x) 0); [left; assumption|right; right; lra]).
        congruence. }
    pose proof (log_unmap_map mn mx (Q2R x) y V N SS S) as U. split; [exact U|]. rewrite U.
    rewrite spec_is_dec in S. unfold log_unmap_of_map_okQ in H.
    destruct (log_map_dec g x) as [| |ng cl emn emx ex] eqn:D; cbn [lmapR] in S; try discriminate.
    - (* LM_half on a non-degenerate domain is impossible *)
      exfalso. unfold log_map_dec, ebounds in D. destruct (Qltb (g_min g) 0).
      + destruct (Qleb (- x) 0); [discriminate|]. destruct (Qeqb (- g_max g) (- g_min g)) eqn:F; [|discriminate].
        gb_bool. apply N. unfold mn, mx. apply Qeq_eqR. Lqa.lra.
      + destruct (Qleb x 0); [discriminate|]. destruct (Qeqb (g_min g) (g_max g)) eqn:F; [|discriminate].
        gb_bool. apply N. unfold mn, mx. apply Qeq_eqR. exact F.
    - destruct H as (u & -> & H). exists u. split; [reflexivity|].
      apply Qle_Rle in H. rewrite Q2R_Qabs, Q2R_minus, Q2R_mult, Q2R_Qabs in H. exact H.
  Qed.

  (* (6) y-probes: Unmap y is finite and has the sign of the domain (as log_unmapR has:
     unmap_same_sign); where the closed form is EXACT (eps = 0 would accept it) it is the real
     value of Log.Unmap and the observation is within 1e-9 relative of it; Map (Unmap y) returns
     to y within tolm (1 + |y|) (the law C16_log_inverse, on the implementation's own output) *)
  Theorem log_obs_unmap y uy muy : log_yprobe_okQ g b (y, uy, muy) ->
    exists u, uy = XFin u /\
      (mn < 0 -> Q2R u < 0) /\ (0 <= mn -> 0 < Q2R u) /\
      (forall e, lunmap_exact b e12 (log_unmap_dec g y) = Some e ->
                 lunmap_exact b 0 (log_unmap_dec g y) = Some e ->
         log_unmapR mn mx (Q2R y) = Q2R e /\ Rabs (Q2R u - log_unmapR mn mx (Q2R y)) <= Q2R e9 * Rabs (Q2R e)) /\
      (mn <> mx -> exists m, muy = XFin m /\ Rabs (Q2R m - Q2R y) <= Q2R (tolm (SLog g)) * (1 + Rabs (Q2R y))).
  Proof.
    intros (u & -> & Hs & Hc & Hd & Hm). exists u. split; [reflexivity|].
    pose proof (Qltb_R (g_min g) 0) as A. rewrite Q2R_0' in A. fold mn in A.
    split; [|split; [|split]].
    - intro L. destruct (Qltb (g_min g) 0); [|lra]. apply Qlt_Rlt in Hs. rewrite Q2R_0' in Hs. exact Hs.
    - intro L. destruct (Qltb (g_min g) 0); [lra|]. apply Qlt_Rlt in Hs. rewrite Q2R_0' in Hs. exact Hs.
    - intros e He He0. pose proof (log_unmap_closed_form_correct b g y e He0) as U. fold mn mx in U.
      split; [exact U|]. rewrite U. specialize (Hc e He). apply Qle_Rle in Hc.
      rewrite Q2R_Qabs, Q2R_minus, Q2R_mult, Q2R_Qabs in Hc. exact Hc.
    - intro N. assert (N' : ~ (g_min g == g_max g)%Q) by (intro E; apply N; unfold mn, mx; apply Qeq_eqR; exact E).
      destruct (Hm N') as (m & -> & H). exists m. split; [reflexivity|].
      apply Qle_Rle in H. rewrite Q2R_Qabs, Q2R_minus, Q2R_mult, Q2R_plus, Q2R_Qabs, Q2R_1' in H. exact H.
  Qed.
End LogObs.

(* ---------- comparators on real numbers: the Linear readings over R ---------- *)
(* the same Linear statement over the reals, against RealSpec.LogScale.lin_mapR *)
Theorem lin_obs_map_R mn mx x o : obs_lin_map mn mx x o ->
  exists m, o = XFin m /\
    Rabs (Q2R m - lin_mapR (Q2R mn) (Q2R mx) (Q2R x)) <= Q2R e12 * (1 + Rabs (lin_mapR (Q2R mn) (Q2R mx) (Q2R x))).
Proof.
  intros (y & m & Hy & -> & H). exists m. split; [reflexivity|].
  assert (Y : Q2R y = lin_mapR (Q2R mn) (Q2R mx) (Q2R x)).
  { unfold lin_mapR. destruct Hy as [[A B]|[A B]].
    - rewrite (Qeq_eqR _ _ B), (Qeq_eqR _ _ A). destruct (Req_EM_T (Q2R mx) (Q2R mx)); [apply Q2R_half|contradiction].
    - destruct (Req_EM_T (Q2R mn) (Q2R mx)) as [E|E]; [exfalso; apply A; apply eqR_Qeq; exact E|].
      rewrite (Qeq_eqR _ _ B). rewrite Q2R_div, !Q2R_minus; [reflexivity|].
      intro Z. apply A. Lqa.lra. }
  rewrite <- Y. unfold tol_lin_map in H. apply Qle_Rle in H.
  rewrite Q2R_Qabs, Q2R_minus, Q2R_mult, Q2R_plus, Q2R_Qabs, Q2R_1' in H. exact H.
Qed.

(* Proofs/CheckC17.v — (helper hI-c17p) comparator soundness of check_C17: the dispatch over the kind
   and the statements about whole case lines used by Properties/C17.v.
   An accepted verdict (code 0 ok, code 1 borderline) means: the line is 17 :: kind :: rest with kind
   0 (FindLevel), 1 (Linear) or 2 (Log), [rest] is decoded to its end by the parser of that kind, and
   the case predicate of the kind holds: Proofs/CheckC17Base.v (kind 0, fl_spec), CheckC17Lin.v
   (linear_case_ok / linear_case_borderline), CheckC17Log.v (log_case_ok / log_case_borderline).
   Closed under the global context. *)
From Coq Require Import Qround Sorted Lqa.
From MM Require Import Base.Num Base.GBLemmas Model.Ticks Proofs.Ticks Proofs.TicksLinear Proofs.TicksLog Proofs.TicksLogExp Check.C17 Proofs.CheckBase
  Proofs.CheckC17Base Proofs.CheckC17Parse Proofs.CheckC17Lin Proofs.CheckC17Log Proofs.CheckC17Win Proofs.CheckC17WinLog Proofs.CheckC17WinCase Proofs.CheckC17WinCaseLog.
Local Open Scope Z_scope.

(* a Log scale as NewLog returns it *)
Definition log_domain (base : Z) (mn mx : Q) : Prop := 2 <= base /\ (mn <= mx)%Q /\ (0 < mn * mx)%Q.
Lemma log_pre_sound base mn mx : log_pre base mn mx = true -> log_domain base mn mx.
Proof.
  unfold log_pre. intro H. apply andb_prop in H. destruct H as [H H3]. apply andb_prop in H. destruct H as [H1 H2].
  apply Z.leb_le in H1. apply Qleb_true in H2. apply Qltb_true in H3. repeat split; assumption.
Qed.

Definition case_ok (cd : Z) (cs : c17case) : Prop :=
  match cs with
  | CFind c => cd = 0 /\ fl_spec c
  | CLin c => (cd = 0 -> linear_case_ok c) /\ (cd = 1 -> linear_case_borderline c)
  | CLog c => log_domain (sc_base c) (sc_mn c) (sc_mx c) /\ (cd = 0 -> log_case_ok c) /\ (cd = 1 -> log_case_borderline c)
  end.

Lemma parse_C17_shape line cs : parse_C17 line = Some cs ->
  exists rest, line = 17 :: (match cs with CFind _ => 0 | CLin _ => 1 | CLog _ => 2 end) :: rest /\
    match cs with
    | CFind c => p_flcase rest = Some (c, [])
    | CLin c => p_sccase rest = Some (c, [])
    | CLog c => p_sccase rest = Some (c, []) /\ log_pre (sc_base c) (sc_mn c) (sc_mx c) = true
    end.
Proof.
  unfold parse_C17. intro H.
  destruct line as [|z0 line]; [discriminate|].
  destruct z0 as [|p0|p0]; try discriminate.
  do 5 (destruct p0 as [p0|p0|]; try discriminate).
  destruct line as [|k r]; [discriminate|].
  destruct k as [|k|k]; try discriminate.
  - destruct (p_flcase r) as [[c [|]]|] eqn:E; try discriminate. injection H as <-. exists r. auto.
  - destruct k as [k|k|]; try discriminate.
    + destruct k; try discriminate.
      destruct (p_sccase r) as [[c [|]]|] eqn:E; try discriminate.
      destruct (log_pre (sc_base c) (sc_mn c) (sc_mx c)) eqn:Ep; [|discriminate]. injection H as <-. exists r. auto.
    + destruct (p_sccase r) as [[c [|]]|] eqn:E; try discriminate. injection H as <-. exists r. auto.
Qed.

Theorem check_ok_sound : forall line cd tag pos diag,
  check_C17 line = verdict cd tag pos diag -> cd = 0 \/ cd = 1 ->
  exists cs, parse_C17 line = Some cs /\ case_ok cd cs.
Proof.
  intros line cd tag pos diag H Hc.
  destruct (check_accepts_only_parsed line cd tag pos diag H Hc) as (cs & Hp & Hj).
  exists cs. split; [exact Hp|]. destruct cs as [c|c|c]; cbn in Hj |- *.
  - exact (judge_findlevel_sound c cd tag pos diag Hj Hc).
  - exact (judge_linear_sound c cd tag pos diag Hj Hc).
  - split; [|exact (judge_log_sound c cd tag pos diag Hj Hc)].
    destruct (parse_C17_shape line (CLog c) Hp) as (rest & _ & _ & Hpre). now apply log_pre_sound.
Qed.

(* ---------- the admitted exponent interval of a Log domain ---------- *)
Lemma ceil_log_cases b q : ceil_log b q = floor_log b q \/ ceil_log b q = floor_log b q + 1.
Proof. unfold ceil_log. destruct (Qeqb _ _); auto. Qed.
Lemma floor_log_mono b q1 q2 : 2 <= b -> (0 < q1)%Q -> (q1 <= q2)%Q -> floor_log b q1 <= floor_log b q2.
Proof.
  intros Hb H1 H12. apply (floor_log_greatest b q2 Hb ltac:(lra)).
  pose proof (floor_log_spec b q1 Hb H1) as [A _]. lra.
Qed.
(* the admitted exponent interval of a Log domain is never "more than empty" *)
Lemma log_exps_in_proper b emin emax : 2 <= b -> (0 < emin)%Q -> (emin <= emax)%Q ->
  le_in_lo (log_exps b emin emax) <= le_in_hi (log_exps b emin emax) + 1.
Proof.
  intros Hb Hp Ho. unfold log_exps. cbv zeta. cbn [le_in_lo le_in_hi].
  pose proof (floor_log_mono b emin emax Hb Hp Ho) as M.
  pose proof (ceil_log_cases b emin) as C1. pose proof (ceil_log_cases b emax) as C2.
  destruct (match near (qpow b (floor_log b emin)) emin (emax / emin) (log_mu emin emax) with N_inside => true | _ => false end);
  destruct (match near emax (qpow b (ceil_log b emax)) (emax / emin) (log_mu emin emax) with N_inside => true | _ => false end); lia.
Qed.
Lemma log_domain_exps_proper base mn mx : log_domain base mn mx ->
  le_in_lo (log_e base mn mx) <= le_in_hi (log_e base mn mx) + 1.
Proof.
  intros (Hb & Ho & Hs). unfold log_e, lf_emin, lf_emax, log_fold. destruct (Qltb mn 0) eqn:S; cbn [fst snd]; gb_bool.
  - apply log_exps_in_proper; [exact Hb | | lra]. nra.
  - apply log_exps_in_proper; [exact Hb | | exact Ho]. destruct (Qlt_le_dec 0 mn); [assumption|]. nra.
Qed.

(* ================= statements for Properties/C17.v ================= *)
Section Statements.
Local Open Scope Q_scope.

Lemma check_ok_sound_full :
  (forall line cd tag pos diag,
     check_C17 line = verdict cd tag pos diag -> (cd = 0 \/ cd = 1)%Z ->
     exists cs rest, parse_C17 line = Some cs /\
       line = (17 :: (match cs with CFind _ => 0 | CLin _ => 1 | CLog _ => 2 end) :: rest)%Z /\
       match cs with
       | CFind c => p_flcase rest = Some (c, []) /\ flcase_layout c rest
       | CLin c => p_sccase rest = Some (c, []) /\ sccase_layout c rest
       | CLog c => p_sccase rest = Some (c, []) /\ sccase_layout c rest /\ log_pre (sc_base c) (sc_mn c) (sc_mx c) = true
       end /\
       case_ok cd cs) /\
  (forall (cd : Z) (cs : c17case), case_ok cd cs <->
   (match cs with
    | CFind c => cd = 0 /\ fl_spec c
    | CLin c => (cd = 0 -> linear_case_ok c) /\ (cd = 1 -> linear_case_borderline c)
    | CLog c => log_domain (sc_base c) (sc_mn c) (sc_mx c) /\ (cd = 0 -> log_case_ok c) /\ (cd = 1 -> log_case_borderline c)
    end)%Z) /\
  (forall (base : Z) (mn mx : Q), log_domain base mn mx <->
   (2 <= base /\ (mn <= mx)%Q /\ (0 < mn * mx)%Q)%Z) /\
  (forall (c : flcase), fl_spec c <->
   (let o := fc_o c in let cnt := fc_cnt c in
    (level_bounds o = None -> fc_ok c = 0 /\ fc_lev c = 0) /\
    (forall lo hi, level_bounds o = Some (lo, hi) -> nonincreasing cnt lo hi ->
    (fc_ok c = 1 /\ lo <= fc_lev c <= hi /\ cnt (fc_lev c) <= o_max o /\ 1 <= o_max o /\
    forall l', lo <= l' < fc_lev c -> o_max o < cnt l') \/
    (fc_ok c = 0 /\ fc_lev c = 0 /\ (o_max o < 1 \/ forall l, lo <= l <= hi -> o_max o < cnt l))) /\
    (* any table, monotone or not: the model's search *)
    match find_level o cnt (fc_guess c) with
    | FL_ok l => fc_ok c = 1 /\ fc_lev c = l | FL_fail => fc_ok c = 0 /\ fc_lev c = 0 | FL_fuel => False end)%Z) /\
  (forall (tol : Q -> Q) (exp : list Q) (obs : list xreal), obs_close tol exp obs <->
   (Forall2 (fun e o => exists q, o = XFin q /\ (Qabs (q - e) <= tol e)%Q) exp obs)%Z) /\
  (forall (c : flcase) (rest : list Z), flcase_layout c rest <->
   (rest = [o_max (fc_o c); o_minlevel (fc_o c); o_maxlevel (fc_o c); fc_guess c; fc_wlo c; Z.of_nat (length (fc_vs c))]
    ++ fc_vs c ++ [fc_left c; fc_right c; fc_ok c; fc_lev c])%Z) /\
  (forall (c : sccase) (rest : list Z), sccase_layout c rest <->
   (let ob := sc_ob c in
    exists bmn bmx major minor levws bnmin bnmax bm0 bm1 bnmin2 bnmax2 major3,
    rest = [sc_base c; bmn; bmx; o_max (sc_o c); o_minlevel (sc_o c); o_maxlevel (sc_o c); so_st ob]
    ++ (Z.of_nat (length major) :: major) ++ (Z.of_nat (length minor) :: minor)
    ++ (Z.of_nat (length (so_levels ob)) :: concat levws)
    ++ [o_max (so_no ob); o_minlevel (so_no ob); o_maxlevel (so_no ob); so_nst ob; bnmin; bnmax; bm0; bm1; so_nst2 ob; bnmin2; bnmax2; so_st3 ob]
    ++ (Z.of_nat (length major3) :: major3) /\
    decode_bits bmn = XFin (sc_mn c) /\ decode_bits bmx = XFin (sc_mx c) /\
    so_major ob = map decode_bits major /\ so_minor ob = map decode_bits minor /\
    Forall2 lev_layout (so_levels ob) levws /\
    so_nmin ob = decode_bits bnmin /\ so_nmax ob = decode_bits bnmax /\ so_map0 ob = decode_bits bm0 /\ so_map1 ob = decode_bits bm1 /\
    so_nmin2 ob = decode_bits bnmin2 /\ so_nmax2 ob = decode_bits bnmax2 /\ so_major3 ob = map decode_bits major3)%Z) /\
  (forall (lv : levobs) (w : list Z), lev_layout lv w <->
   (exists bs, w = lv_level lv :: lv_count lv :: lv_st lv :: Z.of_nat (length bs) :: bs /\ lv_ticks lv = map decode_bits bs)%Z).
Proof.
  split; [|repeat match goal with |- _ /\ _ => split end; intros; reflexivity].
  intros line cd tag pos diag H Hc. destruct (check_ok_sound line cd tag pos diag H Hc) as (cs & Hp & Hk).
  destruct (parse_C17_shape line cs Hp) as (rest & Hl & Hs). exists cs, rest. split; [exact Hp|]. split; [exact Hl|]. split; [|exact Hk].
  destruct cs as [c|c|c]; [split; [exact Hs | now apply p_flcase_layout] | split; [exact Hs | now apply p_sccase_layout] |].
  destruct Hs as [Hs1 Hs2]. split; [exact Hs1|]. split; [now apply p_sccase_layout | exact Hs2].
Qed.

(* the case predicates of the two scale kinds and the predicates they are made of, unfolded *)
Lemma case_meaning_scales :
  (forall (c : sccase), linear_case_ok c <->
   (linear_case_gen G_exact L_exact c)%Q) /\
  (forall (c : sccase), linear_case_borderline c <->
   (linear_case_gen G_border L_border c)%Q) /\
  (forall (G : bool -> bool -> Prop -> Prop) (Lw : bool -> Prop -> Prop) (c : sccase), linear_case_gen G Lw c <->
   (match lin_ebase (sc_base c) with None => lin_badbase_ok c | Some eb => linear_some_gen G Lw c eb end)%Q) /\
  (forall (E A : bool) (P : Prop), G_exact E A P <->
   (P)%Q) /\
  (forall (amb : bool) (P : Prop), L_exact amb P <->
   (P)%Q) /\
  (forall (E A : bool) (P : Prop), G_border E A P <->
   (P \/ (E = false /\ A = true))%Q) /\
  (forall (amb : bool) (P : Prop), L_border amb P <->
   (P \/ amb = true)%Q) /\
  (forall (c : sccase), lin_badbase_ok c <->
   (let ob := sc_ob c in
    so_st ob = (if (o_max (sc_o c) <=? 0)%Z || Qeqb (sc_mn c) (sc_mx c) then 0 else 2)%Z /\
    so_nst ob = 2%Z /\ so_nst2 ob = 2%Z /\
    so_st3 ob = (if (o_max (so_no ob) <=? 0)%Z then 0 else 2)%Z)%Q) /\
  (forall (G : bool -> bool -> Prop -> Prop) (Lw : bool -> Prop -> Prop) (c : sccase) (eb : Z), linear_some_gen G Lw c eb <->
   (let ob := sc_ob c in let base := sc_base c in let mn := sc_mn c in let mx := sc_mx c in
    let o := sc_o c in let no := so_no ob in let tolv := lc_tolv c in
    exists ao bo, so_nmin ob = XFin ao /\ so_nmax ob = XFin bo /\
    let E20 := forallb (lin_level_exact base eb mn mx tolv) (so_levels ob) in
    let E30 := lin_nice_E tolv no base eb mn mx (so_nst ob) (XFin ao) (XFin bo) in
    let E36 := lin_ticks_E tolv no base eb ao bo (so_st3 ob) (so_major3 ob) None in
    let E37 := lin_nice_E tolv no base eb ao bo (so_nst2 ob) (so_nmin2 ob) (so_nmax2 ob) in
    let bl := negb E30 || negb E36 || negb E37 in
    let rep := lin_nice_rep_spec base eb no (fst (lin_start mn mx)) (snd (lin_start mn mx)) in
    (* 10: Ticks(o) *)
    G (lin_ticks_E tolv o base eb mn mx (so_st ob) (so_major ob) (Some (so_minor ob)))
    (lin_ticks_A tolv o base eb mn mx (so_st ob) (so_major ob) (Some (so_minor ob)))
    (lin_ticks_spec tolv base eb o mn mx (so_st ob) (so_major ob) (Some (so_minor ob))) /\
    (* 20: CountTicks(l), TicksAtLevel(l) for every recorded level *)
    G E20 (forallb (fun lv => lin_level_exact base eb mn mx tolv lv || lin_level_adm base eb mn mx tolv lv) (so_levels ob))
    (mn <= mx -> Forall (lin_level_spec tolv base eb mn mx) (so_levels ob)) /\
    (* 21: the observed counts are non-increasing along ascending levels *)
    Lw (negb E20) (forall l1 a b l2, so_levels ob = l1 ++ a :: b :: l2 -> (lv_level a <= lv_level b)%Z -> (lv_count b <= lv_count a)%Z) /\
    (* 30: Nice(o') *)
    G E30 (lin_nice_A tolv no base eb mn mx (so_nst ob) (XFin ao) (XFin bo))
    (lin_nice_spec tolv base eb no mn mx (so_nst ob) (XFin ao) (XFin bo)) /\
    (* 35: the observed new ends do not shrink the (ordered) domain *)
    (ao <= fst (lin_order mn mx) /\ snd (lin_order mn mx) <= bo) /\
    (* 36: Ticks(o') after Nice, on the observed new domain *)
    G E36 (lin_ticks_A tolv no base eb ao bo (so_st3 ob) (so_major3 ob) None)
    (lin_ticks_spec tolv base eb no ao bo (so_st3 ob) (so_major3 ob) None) /\
    (* 37: Nice(o') once more, on the observed new domain *)
    G E37 (lin_nice_A tolv no base eb ao bo (so_nst2 ob) (so_nmin2 ob) (so_nmax2 ob))
    (lin_nice_spec tolv base eb no ao bo (so_nst2 ob) (so_nmin2 ob) (so_nmax2 ob)) /\
    (* 40: idempotent for Max >= 3 *)
    Lw bl ((3 <= o_max no)%Z -> so_nst2 ob = 0%Z /\ exists a2 b2, so_nmin2 ob = XFin a2 /\ so_nmax2 ob = XFin b2 /\
    Qabs (a2 - ao) <= tolv ao /\ Qabs (b2 - bo) <= tolv bo) /\
    (* 41: first and last major tick after Nice are the new ends (Max >= 3, Nice found a level whose two candidate ends are finite float64) *)
    Lw bl ((3 <= o_max no)%Z -> rep -> exists f rest t0 tl, so_major3 ob = f :: rest /\ f = XFin t0 /\ last (so_major3 ob) f = XFin tl /\
    Qabs (t0 - ao) <= tolv ao /\ Qabs (tl - bo) <= tolv bo) /\
    (* 43: Map(new Min) = 0, Map(new Max) = 1 *)
    (~ ao == bo -> exists p q, so_map0 ob = XFin p /\ so_map1 ob = XFin q /\ Qabs p <= e12 /\ Qabs (q - 1) <= e12) /\
    (* 45: each end moved by at most one observed major tick spacing (Max >= 3, Nice found a level whose two candidate ends are finite float64) *)
    Lw bl ((3 <= o_max no)%Z -> rep -> exists t0 t1 rest u1 u0 rest',
    so_major3 ob = XFin t0 :: XFin t1 :: rest /\ rev (so_major3 ob) = XFin u1 :: XFin u0 :: rest' /\
    fst (lin_start mn mx) - ao <= t1 - t0 + tolv ao /\ bo - snd (lin_start mn mx) <= u1 - u0 + tolv bo))%Q) /\
  (forall (tolv : Q -> Q) (base eb : Z) (o : tickopts) (mn mx : Q) (st : Z) (major : list xreal) (minor : option (list xreal)), lin_ticks_spec tolv base eb o mn mx st major minor <->
   (st = 0%Z /\
    let a := fst (lin_order mn mx) in let b := snd (lin_order mn mx) in
    let none := major = [] /\ (forall m, minor = Some m -> m = []) in
    ((o_max o <= 0)%Z -> none) /\
    ((1 <= o_max o)%Z -> mn == mx -> obs_close tolv [mn] major /\ forall m, minor = Some m -> obs_close tolv [mn] m) /\
    ((1 <= o_max o)%Z -> ~ mn == mx ->
    a < b /\ (level_bounds o = None -> none) /\
    forall lo hi, level_bounds o = Some (lo, hi) ->
    (exists l L, (lo <= l <= hi)%Z /\ lin_level_list base eb a b l L /\ (Z.of_nat (length L) <= o_max o)%Z /\
    obs_close tolv L major /\
    (forall l' L', (lo <= l' < l)%Z -> lin_level_list base eb a b l' L' -> (o_max o < Z.of_nat (length L'))%Z) /\
    (forall m, minor = Some m -> exists Lm, lin_level_list base eb a b (l - 1) Lm /\ obs_close tolv Lm m))
    \/ (none /\ forall l L, (lo <= l <= hi)%Z -> lin_level_list base eb a b l L -> (o_max o < Z.of_nat (length L))%Z)))%Q) /\
  (forall (base eb : Z) (mn mx : Q) (l : Z) (L : list Q), lin_level_list base eb mn mx l L <->
   (StronglySorted Qlt L /\ forall v, In v L <-> exists k : Z, v = inject_Z k * lin_spacing base eb l /\ in_range mn mx v)%Q) /\
  (forall (tolv : Q -> Q) (base eb : Z) (mn mx : Q) (lv : levobs), lin_level_spec tolv base eb mn mx lv <->
   (exists L, lin_level_list base eb mn mx (lv_level lv) L /\
    let c := Z.of_nat (length L) in
    ((c <= 1000)%Z -> lv_count lv = c) /\
    ((1000 < c)%Z -> (Z.abs (lv_count lv - Z.min c MAXINT) <= 2 + c / 1000000000)%Z) /\
    ((lv_st lv = 0%Z /\ obs_close tolv L (lv_ticks lv) /\ Z.of_nat (length (lv_ticks lv)) = c)
    \/ (lv_st lv = 3%Z /\ (1000 < c)%Z /\ lv_ticks lv = [])))%Q) /\
  (forall (tolv : Q -> Q) (base eb : Z) (o : tickopts) (mn mx : Q) (st : Z) (a b : xreal), lin_nice_spec tolv base eb o mn mx st a b <->
   (st = 0%Z /\ exists ao bo x y, a = XFin ao /\ b = XFin bo /\ Qabs (ao - x) <= tolv x /\ Qabs (bo - y) <= tolv y /\
    let smn := fst (lin_start mn mx) in let smx := snd (lin_start mn mx) in
    smn < smx /\ x <= smn /\ smx <= y /\
    (forall l, lin_nice_level base eb o smn smx l ->
    let sp := lin_spacing base eb l in
    smn - x < sp /\ y - smx < sp /\
    (x == smn \/ exists k : Z, x = inject_Z k * sp) /\ (y == smx \/ exists k : Z, y = inject_Z k * sp)) /\
    ((forall l, ~ lin_nice_level base eb o smn smx l) -> x == smn /\ y == smx))%Q) /\
  (forall (base eb : Z) (o : tickopts) (smn smx : Q) (l : Z), lin_nice_level base eb o smn smx l <->
   (exists lo hi, level_bounds o = Some (lo, hi) /\ (1 <= o_max o)%Z /\ (lo <= l <= hi)%Z /\
    (lin_out_count base eb smn smx l <= o_max o)%Z /\
    forall l', (lo <= l' < l)%Z -> (o_max o < lin_out_count base eb smn smx l')%Z)%Q) /\
  (forall (base eb : Z) (mn mx : Q) (l : Z), lin_out_count base eb mn mx l =
   (let sp := lin_spacing base eb l in let sl := (mx - mn) * slack_factor in
    (Qceiling ((mx - sl) / sp) - Qfloor ((mn + sl) / sp) + 1)%Z)%Q) /\
  (forall (base eb : Z) (o : tickopts) (smn smx : Q), lin_nice_rep_spec base eb o smn smx <->
   (exists l, lin_nice_level base eb o smn smx l /\
    let sp := lin_spacing base eb l in let sl := (smx - smn) * slack_factor in
    Qabs (inject_Z (Qfloor ((smn + sl) / sp)) * sp) < qpow 2 1024 /\ Qabs (inject_Z (Qceiling ((smx - sl) / sp)) * sp) < qpow 2 1024)%Q) /\
  (forall (c : sccase), lc_tolv c =
   (let w := Qabs (sc_mx c - sc_mn c) in let w := if Qeqb w 0 then 1 else w in
    fun v : Q => e9 * Qabs v + e9 * w)%Q) /\
  (forall (c : sccase), log_case_ok c <->
   (log_case_gen G_exact L_exact c)%Q) /\
  (forall (c : sccase), log_case_borderline c <->
   (log_case_gen G_border L_border c)%Q) /\
  (forall (G : bool -> bool -> Prop -> Prop) (Lw : bool -> Prop -> Prop) (c : sccase), log_case_gen G Lw c <->
   (let ob := sc_ob c in let base := sc_base c in let mn := sc_mn c in let mx := sc_mx c in
    let o := sc_o c in let no := so_no ob in let tolv := lg_tolv in
    exists ao bo, so_nmin ob = XFin ao /\ so_nmax ob = XFin bo /\
    (* the observed new domain is a Log domain again *)
    (ao <= bo /\ 0 < ao * bo) /\
    let E20 := log_levels_E tolv base mn mx (so_levels ob) in
    let E30 := log_nice_E tolv no base mn mx (so_nst ob) (XFin ao) (XFin bo) in
    let E36 := log_ticks_E tolv no base ao bo (so_st3 ob) (so_major3 ob) None in
    let E37 := log_nice_E tolv no base ao bo (so_nst2 ob) (so_nmin2 ob) (so_nmax2 ob) in
    let bl := negb E30 || negb E36 || negb E37 in
    (* 10: Ticks(o) *)
    G (log_ticks_E tolv o base mn mx (so_st ob) (so_major ob) (Some (so_minor ob)))
    (log_ticks_A tolv o base mn mx (so_st ob) (so_major ob) (Some (so_minor ob)))
    (log_ticks_spec tolv base o mn mx (so_st ob) (so_major ob) (Some (so_minor ob))) /\
    (* 20: CountTicks(l), TicksAtLevel(l) for every recorded level *)
    G E20 (log_levels_A tolv base mn mx (so_levels ob)) (Forall (log_level_spec tolv base mn mx) (so_levels ob)) /\
    (* 21 *)
    Lw (negb E20) (forall l1 a b l2, so_levels ob = l1 ++ a :: b :: l2 -> (lv_level a <= lv_level b)%Z -> (lv_count b <= lv_count a)%Z) /\
    (* 30: Nice(o') *)
    G E30 (log_nice_A tolv no base mn mx (so_nst ob) (XFin ao) (XFin bo)) (log_nice_spec tolv base no mn mx (so_nst ob) (XFin ao) (XFin bo)) /\
    (* 35 *)
    (ao <= mn /\ mx <= bo) /\
    (* 36, 37: Ticks(o') and Nice(o') on the observed new domain *)
    G E36 (log_ticks_A tolv no base ao bo (so_st3 ob) (so_major3 ob) None) (log_ticks_spec tolv base no ao bo (so_st3 ob) (so_major3 ob) None) /\
    G E37 (log_nice_A tolv no base ao bo (so_nst2 ob) (so_nmin2 ob) (so_nmax2 ob))
    (log_nice_spec tolv base no ao bo (so_nst2 ob) (so_nmin2 ob) (so_nmax2 ob)) /\
    (* 40 *)
    Lw bl ((3 <= o_max no)%Z -> so_nst2 ob = 0%Z /\ exists a2 b2, so_nmin2 ob = XFin a2 /\ so_nmax2 ob = XFin b2 /\
    Qabs (a2 - ao) <= tolv ao /\ Qabs (b2 - bo) <= tolv bo) /\
    (* 41 *)
    Lw bl ((3 <= o_max no)%Z -> log_nice_rep_spec base no mn mx -> exists f rest t0 tl, so_major3 ob = f :: rest /\ f = XFin t0 /\
    last (so_major3 ob) f = XFin tl /\ Qabs (t0 - ao) <= tolv ao /\ Qabs (tl - bo) <= tolv bo) /\
    (* 43 *)
    (~ ao == bo -> exists p q, so_map0 ob = XFin p /\ so_map1 ob = XFin q /\ Qabs p <= e12 /\ Qabs (q - 1) <= e12) /\
    (* 45 *)
    Lw bl ((3 <= o_max no)%Z -> log_nice_rep_spec base no mn mx ->
    log_law45_spec (lf_neg mn mx) (lf_emin mn mx) (lf_emax mn mx) (lf_emin ao bo) (lf_emax ao bo) (so_major3 ob)))%Q) /\
  (forall (tolv : Q -> Q) (b : Z) (o : tickopts) (mn mx : Q) (st : Z) (major : list xreal) (minor : option (list xreal)), log_ticks_spec tolv b o mn mx st major minor <->
   (st = 0 /\
    let none := major = [] /\ (forall m, minor = Some m -> m = []) in
    (o_max o <= 0 -> none) /\
    (1 <= o_max o -> (mn == mx)%Q -> obs_close tolv [mn] major /\ forall m, minor = Some m -> obs_close tolv [mx] m) /\
    (1 <= o_max o -> ~ (mn == mx)%Q ->
    let e := log_e b mn mx in let neg := lf_neg mn mx in let emin := lf_emin mn mx in let emax := lf_emax mn mx in
    (level_bounds o = None -> none) /\
    forall lo hi, level_bounds o = Some (lo, hi) -> 2 <= b -> le_in_lo e <= le_in_hi e + 1 -> log_count e false 0 <= MAXINT ->
    (exists l L n, lo <= l <= hi /\ log_level_ok b e neg emin emax l L n /\ n <= o_max o /\ obs_close tolv L major /\
    (forall l' L' n', lo <= l' < l -> log_level_ok b e neg emin emax l' L' n' -> o_max o < n') /\
    (forall m, minor = Some m -> exists Lm nm, log_level_ok b e neg emin emax (l - 1) Lm nm /\ obs_close tolv Lm m))
    \/ (none /\ forall l L n, lo <= l <= hi -> log_level_ok b e neg emin emax l L n -> o_max o < n)))%Z) /\
  (forall (b : Z) (e : logexp) (neg : bool) (emin emax : Q) (l : Z) (L : list Q) (n : Z), log_level_ok b e neg emin emax l L n <->
   (if l <? 0 then n = MAXINT /\ L = log_ticks_at' b e neg emin emax false l
    else exists P, StronglySorted Qlt P /\
    (forall v, In v P <-> exists k, v = qpow b (k * 2 ^ l) /\ le_in_lo e <= k * 2 ^ l <= le_in_hi e) /\
    L = (if neg then neg_rev P else P) /\ n = Z.of_nat (length P))%Z) /\
  (forall (tolv : Q -> Q) (b : Z) (mn mx : Q) (lv : levobs), log_level_spec tolv b mn mx lv <->
   (let e := log_e b mn mx in
    lv_st lv = 0 /\ (0 <= lv_level lv -> le_in_lo e <= le_in_hi e + 1 -> lv_count lv = Z.of_nat (length (lv_ticks lv))) /\
    (2 <= b -> le_in_lo e <= le_in_hi e + 1 ->
    exists L n, log_level_ok b e (lf_neg mn mx) (lf_emin mn mx) (lf_emax mn mx) (lv_level lv) L n /\ lv_count lv = n /\ obs_close tolv L (lv_ticks lv)))%Z) /\
  (forall (tolv : Q -> Q) (b : Z) (o : tickopts) (mn mx : Q) (st : Z) (a c : xreal), log_nice_spec tolv b o mn mx st a c <->
   (st = 0 /\ exists ao bo x y, a = XFin ao /\ c = XFin bo /\ (Qabs (ao - x) <= tolv x)%Q /\ (Qabs (bo - y) <= tolv y)%Q /\
    let e := log_e b mn mx in
    ((mn <= mx)%Q -> (x <= mn)%Q /\ (mx <= y)%Q) /\
    ((mn == mx)%Q -> x = mn /\ y = mx) /\
    ((forall lo hi, level_bounds o = Some (lo, hi) -> nonincreasing (log_count e true) lo hi) ->
    (o_max o < 1 \/ level_bounds o = None \/
    exists lo hi, level_bounds o = Some (lo, hi) /\ forall l, lo <= l <= hi -> o_max o < log_count e true l) -> x = mn /\ y = mx) /\
    ((0 < mn)%Q -> (mn < mx)%Q ->
    (x = mn \/ exists n, x = qpow b n /\ f64_pos_ok x = true) /\ (y = mx \/ exists n, y = qpow b n /\ f64_pos_ok y = true)))%Z) /\
  (forall (b : Z) (o : tickopts) (mn mx : Q), log_nice_rep_spec b o mn mx <->
   (~ (mn == mx)%Q /\ exists lo hi l, level_bounds o = Some (lo, hi) /\ 1 <= o_max o /\
    let e := log_e b mn mx in
    nonincreasing (log_count e true) lo hi /\ lo <= l <= hi /\ log_count e true l <= o_max o /\
    (forall l', lo <= l' < l -> o_max o < log_count e true l') /\
    let f := le_out_lo e / 2 ^ l in let la := cdiv (le_out_hi e) (2 ^ l) in
    log_end_ok b (2 ^ l) f (qpow b (f * 2 ^ l)) = true /\ log_end_ok b (2 ^ l) la (qpow b (la * 2 ^ l)) = true)%Z) /\
  (forall (neg : bool) (emin emax emin3 emax3 : Q) (major3 : list xreal), log_law45_spec neg emin emax emin3 emax3 major3 <->
   (exists t, major3 = map XFin t /\
    let t' := if neg then rev (map Qopp t) else t in
    exists t0 t1 r u1 u0 r', t' = t0 :: t1 :: r /\ rev t' = u1 :: u0 :: r' /\
    emin * t0 <= emin3 * t1 * (1 + e9) /\ emax3 * u0 <= emax * u1 * (1 + e9))%Q) /\
  (forall (base : Z) (mn mx : Q), log_e base mn mx =
   (log_exps base (lf_emin mn mx) (lf_emax mn mx))%Q) /\
  (forall (mn mx : Q), lf_neg mn mx =
   (fst (fst (log_fold mn mx)))%Q) /\
  (forall (mn mx : Q), lf_emin mn mx =
   (snd (fst (log_fold mn mx)))%Q) /\
  (forall (mn mx : Q), lf_emax mn mx =
   (snd (log_fold mn mx))%Q) /\
  (lg_tolv =
   (fun v : Q => e9 * Qabs v)%Q) /\
  (* the minor ticks: TicksAtLevel(l < 0) on the folded positive domain [emin, emax] *)
  (forall b e emin emax ro l v, (2 <= b)%Z -> (l < 0)%Z ->
     (In v (log_ticks_pos b e emin emax ro l) <->
      exists k j, (le_out_lo e <= k <= le_out_hi e)%Z /\ (1 <= j <= b - 1)%Z /\ v = inject_Z j * qpow b k /\ emin <= v /\ v <= emax)) /\
  (* the hypothesis "le_in_lo e <= le_in_hi e + 1" of the Log readings holds on every Log domain *)
  (forall base mn mx, log_domain base mn mx -> (le_in_lo (log_e base mn mx) <= le_in_hi (log_e base mn mx) + 1)%Z).
Proof. repeat match goal with |- _ /\ _ => split end; intros; first [reflexivity | now apply log_minor_ticks_spec | now apply log_domain_exps_proper]. Qed.

(* the borderline rule (verdict code 1): Linear: outside the near_round window of every floor/ceil decision
   the admissible comparison implies the exact one *)
Lemma borderline_window :
  (forall base eb mn mx tolv lv, lin_amb_level base eb mn mx false (lv_level lv) = false -> (lv_count lv <= MAXINT)%Z ->
     lin_level_adm base eb mn mx tolv lv = true -> lin_level_exact base eb mn mx tolv lv = true) /\
  (forall base eb mn mx tolv levels, (forall lv, In lv levels -> (lv_count lv <= MAXINT)%Z) ->
     forallb (lin_level_exact base eb mn mx tolv) levels = false ->
     forallb (fun lv => lin_level_exact base eb mn mx tolv lv || lin_level_adm base eb mn mx tolv lv) levels = true ->
     exists lv, In lv levels /\ lin_level_exact base eb mn mx tolv lv = false /\ lin_level_adm base eb mn mx tolv lv = true /\
                lin_amb_level base eb mn mx false (lv_level lv) = true) /\
  (forall base eb o tolv, lin_ebase base = Some eb -> forall a b major mi, a < b ->
     (forall l, lin_amb_level base eb a b false l = false) ->
     lin_ticks_adm o base eb a b tolv (lin_search o base eb a b false) major (Some mi) = true ->
     exists l, lin_search o base eb a b false = FL_ok l /\ (1 <= o_max o)%Z /\
       close_list tolv (lin_ticks_at base eb a b false l) major = true /\
       close_list tolv (lin_ticks_at base eb a b false (l - 1)) mi = true) /\
  (forall base eb o tolv, lin_ebase base = Some eb -> forall smn smx ao bo, smn < smx ->
     (forall l, lin_amb_level base eb smn smx true l = false) ->
     lin_nice_adm o base eb smn smx tolv (lin_search o base eb smn smx true) ao bo = true ->
     let xy := lin_nice_from base eb smn smx (lin_search o base eb smn smx true) in
     within (tolv (fst xy)) (fst xy) ao && within (tolv (snd xy)) (snd xy) bo = true) /\
  (forall q n, near_round q = Some n ->
     Qabs (q - inject_Z n) <= (4 # 1000000000000000) * (1 + Qabs q) /\ floor_adm q = [(n - 1)%Z; n] /\ ceil_adm q = [n; (n + 1)%Z]) /\
  (forall q, near_int q = false -> floor_adm q = [qfl q] /\ ceil_adm q = [qcl q]) /\
  (* Log: no slack decision of log_exps undecided *)
  (forall tolv o base mn mx st a b, le_amb (log_e base mn mx) = false ->
     log_nice_A tolv o base mn mx st a b = true -> log_nice_E tolv o base mn mx st a b = true) /\
  (forall base mn mx tolv lv, le_amb (log_e base mn mx) = false -> (0 <= lv_level lv)%Z ->
     existsb (log_level_adm1 base (lf_neg mn mx) (lf_emin mn mx) (lf_emax mn mx) tolv lv) (log_adm base mn mx) = true ->
     log_level_exact base (log_e base mn mx) (lf_neg mn mx) (lf_emin mn mx) (lf_emax mn mx) tolv lv = true) /\
  (forall tolv o base mn mx st major minor l, le_amb (log_e base mn mx) = false ->
     log_search o (log_e base mn mx) false = FL_ok l -> (match minor with Some _ => 1 | None => 0 end <= l)%Z ->
     log_ticks_A tolv o base mn mx st major minor = true -> log_ticks_E tolv o base mn mx st major minor = true) /\
  (* a whole Linear case: no borderline verdict without a decision inside the window *)
  (forall c t p d eb, judge_linear c = verdict 1 t p d -> lin_ebase (sc_base c) = Some eb ->
     exists ao bo, so_nmin (sc_ob c) = XFin ao /\ so_nmax (sc_ob c) = XFin bo /\
     let base := sc_base c in let mn := sc_mn c in let mx := sc_mx c in
     ~ ((forall l, lin_amb_level base eb (fst (lin_order mn mx)) (snd (lin_order mn mx)) false l = false) /\
        (forall l, lin_amb_level base eb mn mx false l = false) /\
        (forall lv, In lv (so_levels (sc_ob c)) -> (lv_count lv <= MAXINT)%Z) /\
        (forall l, lin_amb_level base eb (fst (lin_start mn mx)) (snd (lin_start mn mx)) true l = false) /\
        (forall l, lin_amb_level base eb (fst (lin_order ao bo)) (snd (lin_order ao bo)) false l = false) /\
        (forall l, lin_amb_level base eb (fst (lin_start ao bo)) (snd (lin_start ao bo)) true l = false))) /\
  (forall base eb o tolv, lin_ebase base = Some eb -> forall a b major, a < b ->
     (forall l, lin_amb_level base eb a b false l = false) ->
     lin_ticks_adm o base eb a b tolv (lin_search o base eb a b false) major None = true ->
     exists l, lin_search o base eb a b false = FL_ok l /\ (1 <= o_max o)%Z /\
       close_list tolv (lin_ticks_at base eb a b false l) major = true) /\
  (* a whole Log case: no borderline verdict without an undecided slack decision or minor ticks *)
  (forall c t p d, judge_log c = verdict 1 t p d ->
     exists ao bo, so_nmin (sc_ob c) = XFin ao /\ so_nmax (sc_ob c) = XFin bo /\
     let base := sc_base c in let mn := sc_mn c in let mx := sc_mx c in let ob := sc_ob c in
     ~ (le_amb (log_e base mn mx) = false /\ le_amb (log_e base ao bo) = false /\
        (forall l, log_search (sc_o c) (log_e base mn mx) false = FL_ok l -> (1 <= l)%Z) /\
        (forall lv, In lv (so_levels ob) -> (0 <= lv_level lv)%Z) /\
        (forall l, log_search (so_no ob) (log_e base ao bo) false = FL_ok l -> (0 <= l)%Z))).
Proof.
  split; [exact lin_level_adm_window|]. split; [exact lin_levels_borderline_in_window|].
  split; [exact lin_ticks_adm_window|]. split; [exact lin_nice_adm_window|]. split; [exact near_round_window|].
  split; [intros q H; split; [now apply floor_adm_window | now apply ceil_adm_window]|].
  split; [exact log_nice_A_window|]. split; [exact log_level_adm_window|]. split; [exact log_ticks_A_window|].
  split; [exact linear_borderline_needs_window|]. split; [exact lin_ticks_adm_window_none | exact log_borderline_needs_window].
Qed.
End Statements.

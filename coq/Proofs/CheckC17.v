(* Proofs/CheckC17.v — (helper hI-c17p) comparator soundness of check_C17: the dispatch over the kind
   and the statements about whole case lines used by Properties/C17.v.
   An accepted verdict (code 0 ok, code 1 borderline) means: the line is 17 :: kind :: rest with kind
   0 (FindLevel), 1 (Linear) or 2 (Log), [rest] is decoded to its end by the parser of that kind, and
   the case predicate of the kind holds: Proofs/CheckC17Base.v (kind 0, fl_spec), CheckC17Lin.v
   (linear_case_ok / linear_case_borderline), CheckC17Log.v (log_case_ok / log_case_borderline).
   Closed under the global context. *)
From Coq Require Import Qround Sorted Lqa.
From MM Require Import Base.Num Model.Ticks Proofs.Ticks Check.C17 Proofs.CheckBase
  Proofs.CheckC17Base Proofs.CheckC17Lin Proofs.CheckC17Log.
Local Open Scope Z_scope.

(* a Log scale as NewLog returns it *)
Definition log_domain (base : Z) (mn mx : Q) : Prop := 2 <= base /\ (mn <= mx)%Q /\ (0 < mn * mx)%Q.
Lemma log_pre_sound base mn mx : log_pre base mn mx = true -> log_domain base mn mx.
Proof.
  unfold log_pre. intro H. apply andb_prop in H. destruct H as [H H3]. apply andb_prop in H. destruct H as [H1 H2].
  apply Z.leb_le in H1. apply Qleb_true in H2. apply Qltb_true in H3. repeat split; assumption.
Qed.

Definition case_ok (cd : Z) (cs : c17case) : Prop :=
  match cs with
  | CFind c => cd = 0 /\ fl_spec c
  | CLin c => (cd = 0 -> linear_case_ok c) /\ (cd = 1 -> linear_case_borderline c)
  | CLog c => log_domain (sc_base c) (sc_mn c) (sc_mx c) /\ (cd = 0 -> log_case_ok c) /\ (cd = 1 -> log_case_borderline c)
  end.

Lemma parse_C17_shape line cs : parse_C17 line = Some cs ->
  exists rest, line = 17 :: (match cs with CFind _ => 0 | CLin _ => 1 | CLog _ => 2 end) :: rest /\
    match cs with
    | CFind c => p_flcase rest = Some (c, [])
    | CLin c => p_sccase rest = Some (c, [])
    | CLog c => p_sccase rest = Some (c, []) /\ log_pre (sc_base c) (sc_mn c) (sc_mx c) = true
    end.
Proof.
  unfold parse_C17. intro H.
  destruct line as [|z0 line]; [discriminate|].
  destruct z0 as [|p0|p0]; try discriminate.
  do 5 (destruct p0 as [p0|p0|]; try discriminate).
  destruct line as [|k r]; [discriminate|].
  destruct k as [|k|k]; try discriminate.
  - destruct (p_flcase r) as [[c [|]]|] eqn:E; try discriminate. injection H as <-. exists r. auto.
  - destruct k as [k|k|]; try discriminate.
    + destruct k; try discriminate.
      destruct (p_sccase r) as [[c [|]]|] eqn:E; try discriminate.
      destruct (log_pre (sc_base c) (sc_mn c) (sc_mx c)) eqn:Ep; [|discriminate]. injection H as <-. exists r. auto.
    + destruct (p_sccase r) as [[c [|]]|] eqn:E; try discriminate. injection H as <-. exists r. auto.
Qed.

Theorem check_ok_sound : forall line cd tag pos diag,
  check_C17 line = verdict cd tag pos diag -> cd = 0 \/ cd = 1 ->
  exists cs, parse_C17 line = Some cs /\ case_ok cd cs.
Proof.
  intros line cd tag pos diag H Hc.
  destruct (check_accepts_only_parsed line cd tag pos diag H Hc) as (cs & Hp & Hj).
  exists cs. split; [exact Hp|]. destruct cs as [c|c|c]; cbn in Hj |- *.
  - exact (judge_findlevel_sound c cd tag pos diag Hj Hc).
  - exact (judge_linear_sound c cd tag pos diag Hj Hc).
  - split; [|exact (judge_log_sound c cd tag pos diag Hj Hc)].
    destruct (parse_C17_shape line (CLog c) Hp) as (rest & _ & _ & Hpre). now apply log_pre_sound.
Qed.

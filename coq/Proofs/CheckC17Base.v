(* Proofs/CheckC17Base.v — (helpers hI-c17, hI-c17p) soundness of the comparator Check/C17.v: what an accepted
   case line (code 0 = ok, 1 = borderline) says about the OBSERVED values.  Everything is over
   Z/Q/lists and closed under the global context. *)
From Coq Require Import Qround Sorted Lqa.
From MM Require Import Base.Num Base.GBLemmas Model.Ticks Proofs.Ticks Proofs.TicksLinear Proofs.TicksLog
  Check.C17 Proofs.TicksCheck Proofs.CheckBase.
Local Open Scope Z_scope.

(* ---------- verdict assembly ---------- *)
Lemma grp_cases ex adm : (grp ex adm = 0 /\ ex = true) \/ (grp ex adm = 1 /\ ex = false /\ adm tt = true) \/ (grp ex adm = 2 /\ ex = false /\ adm tt = false).
Proof. unfold grp. destruct ex; [auto|]. destruct (adm tt); auto. Qed.
Lemma law_cases h amb : (law h amb = 0 /\ h = true) \/ (law h amb = 1 /\ h = false /\ amb = true) \/ (law h amb = 2 /\ h = false /\ amb = false).
Proof. unfold law. destruct h; [auto|]. destruct amb; auto. Qed.
Lemma grp_lt1 ex adm : grp ex adm < 1 -> ex = true.
Proof. destruct (grp_cases ex adm) as [[_ H]|[[H _]|[H _]]]; [auto | lia | lia]. Qed.
Lemma grp_lt2 ex adm : grp ex adm < 2 -> ex = true \/ adm tt = true.
Proof. destruct (grp_cases ex adm) as [(_ & H)|[(_ & _ & H)|(H & _)]]; [auto | auto | lia]. Qed.
Lemma law_lt1 h amb : law h amb < 1 -> h = true.
Proof. destruct (law_cases h amb) as [[_ H]|[[H _]|[H _]]]; [auto | lia | lia]. Qed.
Lemma law_lt2 h amb : law h amb < 2 -> h = true \/ amb = true.
Proof. destruct (law_cases h amb) as [(_ & H)|[(_ & _ & H)|(H & _)]]; [auto | auto | lia]. Qed.
Lemma law_false_lt2 h : law h false < 2 -> h = true.
Proof. intro H. apply law_lt2 in H. destruct H; [auto | discriminate]. Qed.

Lemma first_code_none c gs : first_code c gs = None -> Forall (fun g => fst g < c) gs.
Proof.
  induction gs as [|[k p] t IH]; cbn; intro H; [constructor|].
  destruct (c <=? k) eqn:E; [discriminate|]. apply Z.leb_gt in E. constructor; [exact E | now apply IH].
Qed.
Lemma conclude_code tag gs c t p d : conclude tag gs = verdict c t p d ->
  (c = 0 /\ Forall (fun g => fst g < 1) gs) \/ (c = 1 /\ Forall (fun g => fst g < 2) gs) \/ c = 2.
Proof.
  unfold conclude. destruct (first_code 2 gs) eqn:E2.
  - intro H. apply verdict_inj in H. right. right. unfold V_MISMATCH in H. lia.
  - destruct (first_code 1 gs) eqn:E1; intro H; apply verdict_inj in H.
    + right. left. split; [unfold V_BORDERLINE in H; lia | now apply first_code_none].
    + left. split; [unfold V_OK in H; lia | now apply first_code_none].
Qed.
Lemma conclude_accepted tag gs c t p d : conclude tag gs = verdict c t p d -> c = 0 \/ c = 1 ->
  Forall (fun g => fst g < 2) gs /\ (c = 0 -> Forall (fun g => fst g < 1) gs).
Proof.
  intros H Hc. destruct (conclude_code _ _ _ _ _ _ H) as [[-> F]|[[-> F]| ->]].
  - split; [|auto]. eapply Forall_impl; [|exact F]. cbn. intros; lia.
  - split; [exact F | discriminate].
  - lia.
Qed.

(* ---------- list comparison ---------- *)
(* every expected value is observed, in order, as a finite float within the tolerance *)
Definition obs_close (tol : Q -> Q) (exp : list Q) (obs : list xreal) : Prop :=
  Forall2 (fun e o => exists q, o = XFin q /\ (Qabs (q - e) <= tol e)%Q) exp obs.
Lemma close_list_sound tol : forall exp obs, close_list tol exp obs = true -> obs_close tol exp obs.
Proof.
  induction exp as [|e et IH]; destruct obs as [|o ot]; cbn; try discriminate; intro H; [constructor|].
  destruct o as [| |q]; try discriminate. apply andb_prop in H. destruct H as [H1 H2].
  constructor; [exists q; split; [reflexivity | now apply within_sound] | now apply IH].
Qed.
Lemma obs_close_length tol exp obs : obs_close tol exp obs -> length obs = length exp.
Proof. intro H. induction H; cbn; [reflexivity | now f_equal]. Qed.

(* ---------- the model functions the check evaluates ARE the model's ---------- *)
Lemma lin_ticks_from_eq base eb mn mx o a b : lin_ebase base = Some eb -> lin_order mn mx = (a, b) ->
  lin_ticks_from base eb mn mx o (if Qeqb mn mx then FL_fail else lin_search o base eb a b false)
  = lin_ticks base mn mx o 0.
Proof.
  intros He Ho. rewrite <- lin_ticks_capped_eq. unfold lin_ticks_from, lin_ticks_gen, lin_search. rewrite Ho.
  destruct (o_max o <=? 0); [reflexivity|]. destruct (Qeqb mn mx); [reflexivity|].
  unfold lin_order in Ho. rewrite Ho, He. reflexivity.
Qed.
Lemma lin_start_eq mn mx : lin_start mn mx = nice_start mn mx.
Proof. reflexivity. Qed.
Lemma lin_nice_from_eq base eb mn mx o na nb : lin_ebase base = Some eb -> lin_start mn mx = (na, nb) ->
  lin_nice base mn mx o 0 = let '(x, y) := lin_nice_from base eb na nb (lin_search o base eb na nb true) in NR_dom x y.
Proof.
  intros He Hs. rewrite <- lin_nice_capped_eq. unfold lin_nice_gen, lin_nice_from, lin_search.
  unfold lin_start, lin_order in Hs. rewrite Hs, He.
  destruct (find_level o (lin_count_capped base eb na nb true) 0); try reflexivity;
    try (destruct (lin_first_last na nb (lin_spacing base eb l) true); reflexivity).
Qed.
Lemma log_ticks_from_eq b mn mx o neg emin emax : log_fold mn mx = (neg, emin, emax) ->
  log_ticks_from b mn mx o (log_exps b emin emax) neg emin emax
    (if Qeqb mn mx then FL_fail else log_search o (log_exps b emin emax) false)
  = log_ticks b mn mx o.
Proof.
  intro Hf. rewrite <- log_ticks_capped_eq. unfold log_ticks_from, log_ticks_gen, log_search.
  destruct (o_max o <=? 0); [reflexivity|]. destruct (Qeqb mn mx); [reflexivity|]. rewrite Hf. reflexivity.
Qed.
Lemma log_nice_from_eq b mn mx o neg emin emax : log_fold mn mx = (neg, emin, emax) ->
  log_nice_from b mn mx (log_exps b emin emax) neg emin emax
    (if Qeqb mn mx then FL_fail else log_search o (log_exps b emin emax) true)
  = log_nice b mn mx o.
Proof.
  intro Hf. rewrite <- log_nice_capped_eq. unfold log_nice_from, log_nice_gen, log_search.
  destruct (Qeqb mn mx); [reflexivity|]. rewrite Hf. reflexivity.
Qed.

(* ---------- complete parse ---------- *)
Inductive c17case := CFind (c : flcase) | CLin (c : sccase) | CLog (c : sccase).
Definition parse_C17 (line : list Z) : option c17case :=
  match line with
  | 17 :: 0 :: r => match p_flcase r with Some (c, []) => Some (CFind c) | _ => None end
  | 17 :: 1 :: r => match p_sccase r with Some (c, []) => Some (CLin c) | _ => None end
  | 17 :: 2 :: r => match p_sccase r with Some (c, []) => if log_pre (sc_base c) (sc_mn c) (sc_mx c) then Some (CLog c) else None | _ => None end
  | _ => None
  end.
Definition judge_C17 (cs : c17case) : list Z :=
  match cs with CFind c => judge_findlevel c | CLin c => judge_linear c | CLog c => judge_log c end.

Lemma malformed_not_accepted c t p d : verdict V_MALFORMED 0 (-1) [] = verdict c t p d -> c = 0 \/ c = 1 -> False.
Proof. intros H Hc. apply verdict_inj in H. unfold V_MALFORMED in H. lia. Qed.

(* an accepted line was decoded to its end, and the verdict is the judgement of the decoded case *)
Theorem check_accepts_only_parsed line c t p d : check_C17 line = verdict c t p d -> c = 0 \/ c = 1 ->
  exists cs, parse_C17 line = Some cs /\ judge_C17 cs = verdict c t p d.
Proof.
  intros H Hc. unfold check_C17 in H.
  destruct line as [|z0 line]; [exfalso; eapply malformed_not_accepted; eauto|].
  destruct z0 as [|p0|p0]; try (exfalso; eapply malformed_not_accepted; eauto; fail).
  do 5 (destruct p0 as [p0|p0|]; try (exfalso; eapply malformed_not_accepted; eauto; fail)).
  destruct line as [|k r]; [exfalso; eapply malformed_not_accepted; eauto|].
  destruct k as [|k|k]; try (exfalso; eapply malformed_not_accepted; eauto; fail).
  - (* kind 0 *)
    destruct (check_findlevel r) as [[v rest]|] eqn:E; [|exfalso; eapply malformed_not_accepted; eauto].
    unfold check_findlevel in E. apply pbind_some in E. destruct E as (cs & r' & E1 & E2).
    apply pend_some in E2. destruct E2 as (-> & -> & _).
    exists (CFind cs). cbn. rewrite E1. split; [reflexivity | exact H].
  - destruct k as [k|k|]; try (exfalso; eapply malformed_not_accepted; eauto; fail).
    + (* kind 2 *)
      destruct k; try (exfalso; eapply malformed_not_accepted; eauto; fail).
      destruct (check_log r) as [[v rest]|] eqn:E; [|exfalso; eapply malformed_not_accepted; eauto].
      unfold check_log in E. apply pbind_some in E. destruct E as (cs & r' & E1 & E2).
      destruct (log_pre (sc_base cs) (sc_mn cs) (sc_mx cs)) eqn:Ep; cbn in E2; [|discriminate].
      apply pend_some in E2. destruct E2 as (-> & -> & _).
      exists (CLog cs). cbn. rewrite E1, Ep. split; [reflexivity | exact H].
    + (* kind 1 *)
      destruct (check_linear r) as [[v rest]|] eqn:E; [|exfalso; eapply malformed_not_accepted; eauto].
      unfold check_linear in E. apply pbind_some in E. destruct E as (cs & r' & E1 & E2).
      apply pend_some in E2. destruct E2 as (-> & -> & _).
      exists (CLin cs). cbn. rewrite E1. split; [reflexivity | exact H].
Qed.

(* ---------- kind 0: FindLevel ---------- *)
(* the reported (ok, level) of an accepted FindLevel case: for a non-increasing count on the
   window, the LOWEST level of the window with count <= Max; failure (0, false) exactly when
   Max < 1, MinLevel > MaxLevel or no level of the window fits *)
Definition fl_spec (c : flcase) : Prop :=
  let o := fc_o c in let cnt := fc_cnt c in
  (level_bounds o = None -> fc_ok c = 0 /\ fc_lev c = 0) /\
  (forall lo hi, level_bounds o = Some (lo, hi) -> nonincreasing cnt lo hi ->
     (fc_ok c = 1 /\ lo <= fc_lev c <= hi /\ cnt (fc_lev c) <= o_max o /\ 1 <= o_max o /\
      forall l', lo <= l' < fc_lev c -> o_max o < cnt l') \/
     (fc_ok c = 0 /\ fc_lev c = 0 /\ (o_max o < 1 \/ forall l, lo <= l <= hi -> o_max o < cnt l))) /\
  (* any table, monotone or not: the model's search *)
  match find_level o cnt (fc_guess c) with
  | FL_ok l => fc_ok c = 1 /\ fc_lev c = l | FL_fail => fc_ok c = 0 /\ fc_lev c = 0 | FL_fuel => False end.

Lemma judge_findlevel_sound cs c t p d : judge_findlevel cs = verdict c t p d -> c = 0 \/ c = 1 -> c = 0 /\ fl_spec cs.
Proof.
  intros H Hc. unfold judge_findlevel in H.
  assert (M : c = 0 /\ match find_level (fc_o cs) (fc_cnt cs) (fc_guess cs) with
              | FL_ok l => fc_ok cs = 1 /\ fc_lev cs = l | FL_fail => fc_ok cs = 0 /\ fc_lev cs = 0 | FL_fuel => False end).
  { destruct (find_level (fc_o cs) (fc_cnt cs) (fc_guess cs)) as [l| |].
    - destruct ((fc_ok cs =? 1) && (fc_lev cs =? l)) eqn:E; apply verdict_inj in H; unfold V_OK, V_MISMATCH in H; [|lia].
      apply andb_prop in E. destruct E as [E1 E2]. apply Z.eqb_eq in E1, E2. split; [lia | auto].
    - destruct ((fc_ok cs =? 0) && (fc_lev cs =? 0)) eqn:E; apply verdict_inj in H; unfold V_OK, V_MISMATCH in H; [|lia].
      apply andb_prop in E. destruct E as [E1 E2]. apply Z.eqb_eq in E1, E2. split; [lia | auto].
    - apply verdict_inj in H. unfold V_MISMATCH in H. lia. }
  destruct M as [M0 M]. split; [exact M0|]. unfold fl_spec. split; [|split; [|exact M]].
  - intro Hb. destruct (find_level (fc_o cs) (fc_cnt cs) (fc_guess cs)) as [l| |] eqn:E; [|exact M|contradiction].
    exfalso. unfold find_level in E. rewrite Hb in E. discriminate.
  - intros lo hi Hb Hn. destruct (find_level (fc_o cs) (fc_cnt cs) (fc_guess cs)) as [l| |] eqn:E; [| |contradiction].
    + left. destruct M as [M1 M2]. rewrite M2.
      destruct (find_level_lowest _ _ _ _ _ _ Hb Hn E) as (A & B & C).
      repeat split; try tauto; try lia.
      destruct (Z_lt_ge_dec (o_max (fc_o cs)) 1) as [L|L]; [|lia].
      exfalso. unfold find_level in E. rewrite Hb in E. apply Z.ltb_lt in L. rewrite L in E. discriminate.
    + right. destruct M as [M1 M2]. split; [exact M1|]. split; [exact M2|].
      assert (F : forall lo0 hi0, level_bounds (fc_o cs) = Some (lo0, hi0) -> nonincreasing (fc_cnt cs) lo0 hi0).
      { intros lo0 hi0 Hb0. rewrite Hb in Hb0. injection Hb0 as <- <-. exact Hn. }
      destruct (proj1 (find_level_fails_iff _ _ _ F) E) as [A|[A|(lo0 & hi0 & A & B)]].
      * left. exact A.
      * rewrite Hb in A. discriminate.
      * rewrite Hb in A. injection A as <- <-. right. exact B.
Qed.

(* ---------- groups: exact or (borderline verdict and) admissible ---------- *)
(* the judgement of a group with an admissible-set fallback, as a proposition over the verdict
   code [cd]: the exact comparison succeeded, or the verdict is borderline, the exact comparison
   failed and the observation is a member of the admissible set *)
Definition gok (cd : Z) (E A : bool) : Prop := E = true \/ (cd = 1 /\ E = false /\ A = true).
(* a law on observed values that a borderline group [amb] excuses *)
Definition lok (cd : Z) (H amb : bool) : Prop := H = true \/ (cd = 1 /\ H = false /\ amb = true).

Lemma grp_gok cd E A : grp E (fun _ => A) < cd + 1 -> cd = 0 \/ cd = 1 -> gok cd E A.
Proof.
  intros H Hc. unfold gok. destruct Hc as [-> | ->].
  - left. eapply grp_lt1. exact H.
  - destruct E; [now left|]. right. apply grp_lt2 in H. destruct H; [discriminate|auto].
Qed.
Lemma law_lok cd H amb : law H amb < cd + 1 -> cd = 0 \/ cd = 1 -> lok cd H amb.
Proof.
  intros H2 Hc. unfold lok. destruct Hc as [-> | ->].
  - left. eapply law_lt1. exact H2.
  - destruct H; [now left|]. right. apply law_lt2 in H2. destruct H2; [discriminate|auto].
Qed.
Lemma law_false_ok cd H : law H false < cd + 1 -> cd = 0 \/ cd = 1 -> H = true.
Proof. intros K Hc. apply law_false_lt2. lia. Qed.
Lemma conclude_groups tag gs c t p d : conclude tag gs = verdict c t p d -> c = 0 \/ c = 1 ->
  Forall (fun g => fst g < c + 1) gs.
Proof.
  intros H Hc. destruct (conclude_code _ _ _ _ _ _ H) as [[-> F]|[[-> F]| ->]]; [exact F | exact F | lia].
Qed.
Lemma grp_ge1 E A : (1 <=? grp E A) = negb E.
Proof. unfold grp. destruct E; [reflexivity|]. destruct (A tt); reflexivity. Qed.
Lemma gok_code0 E A : gok 0 E A -> E = true.
Proof. intros [H|[H _]]; [exact H | discriminate]. Qed.
Lemma lok_code0 H amb : lok 0 H amb -> H = true.
Proof. intros [K|[K _]]; [exact K | discriminate]. Qed.
Lemma lok_no_amb cd H : lok cd H false -> H = true.
Proof. intros [K|(_ & _ & K)]; [exact K | discriminate]. Qed.

Lemma Forall_cons_inv {A} (P : A -> Prop) x l : Forall P (x :: l) -> P x /\ Forall P l.
Proof. intro H. inversion H; auto. Qed.

(* ---------- laws on the observed values shared by Linear and Log ---------- *)
(* 21: observed CountTicks values are non-increasing along ascending levels *)
Lemma counts_noninc_sound : forall l, counts_noninc l = true ->
  forall l1 a b l2, l = l1 ++ a :: b :: l2 -> lv_level a <= lv_level b -> lv_count b <= lv_count a.
Proof.
  induction l as [|x t IH]; intros H l1 a b l2 E Hl.
  - destruct l1; discriminate.
  - destruct l1 as [|y l1]; cbn in E.
    + injection E as -> ->. cbn in H. apply andb_prop in H. destruct H as [H _].
      apply Bool.orb_true_iff in H. destruct H as [H|H]; [apply Z.ltb_lt in H; lia | now apply Z.leb_le in H].
    + injection E as -> ->. apply (IH) with (l1 := l1) (l2 := l2); [|reflexivity|exact Hl].
      cbn in H. destruct (l1 ++ a :: b :: l2) eqn:E'; [reflexivity|]. apply andb_prop in H. tauto.
Qed.

Local Open Scope Q_scope.
(* 40: the second Nice leaves the observed niced domain [ao, bo] *)
Definition law40 (tolv : Q -> Q) (nomax : Z) (ao bo : Q) (nst2 : Z) (a2 b2 : xreal) : bool :=
  (nomax <? 3)%Z || ((nst2 =? 0)%Z && xwithin (tolv ao) (XFin ao) a2 && xwithin (tolv bo) (XFin bo) b2).
Lemma law40_sound tolv nomax ao bo nst2 a2 b2 : law40 tolv nomax ao bo nst2 a2 b2 = true -> (3 <= nomax)%Z ->
  nst2 = 0%Z /\ exists a2' b2', a2 = XFin a2' /\ b2 = XFin b2' /\ Qabs (a2' - ao) <= tolv ao /\ Qabs (b2' - bo) <= tolv bo.
Proof.
  unfold law40. intros H Hm. apply Bool.orb_true_iff in H. destruct H as [H|H]; [apply Z.ltb_lt in H; lia|].
  apply andb_prop in H. destruct H as [H H3]. apply andb_prop in H. destruct H as [H1 H2].
  apply Z.eqb_eq in H1. apply xwithin_fin in H2, H3. destruct H2 as (p & -> & Hp). destruct H3 as (q & -> & Hq).
  split; [exact H1|]. exists p, q. auto.
Qed.
(* 41: the first and the last major tick after Nice are the observed new ends *)
Definition law41 (tolv : Q -> Q) (nomax : Z) (found : bool) (ao bo : Q) (major3 : list xreal) : bool :=
  (nomax <? 3)%Z || negb found ||
  match first_last major3 with
  | Some (f, l) => xwithin (tolv ao) (XFin ao) f && xwithin (tolv bo) (XFin bo) l
  | None => false
  end.
Lemma law41_sound tolv nomax found ao bo major3 : law41 tolv nomax found ao bo major3 = true -> (3 <= nomax)%Z -> found = true ->
  exists f rest t0 tl, major3 = f :: rest /\ f = XFin t0 /\ last major3 f = XFin tl /\
    Qabs (t0 - ao) <= tolv ao /\ Qabs (tl - bo) <= tolv bo.
Proof.
  unfold law41. intros H Hm ->. apply Bool.orb_true_iff in H. destruct H as [H|H].
  { apply Bool.orb_true_iff in H. destruct H as [H|H]; [apply Z.ltb_lt in H; lia | discriminate]. }
  destruct major3 as [|f rest]; [discriminate|]. cbn [first_last] in H. apply andb_prop in H. destruct H as [H1 H2].
  apply xwithin_fin in H1, H2. destruct H1 as (p & -> & Hp). destruct H2 as (q & E & Hq).
  exists (XFin p), rest, p, q. auto.
Qed.
(* 43: Map(new Min) = 0 and Map(new Max) = 1 unless the new domain is degenerate *)
Definition law43 (ao bo : Q) (m0 m1 : xreal) : bool :=
  Qeqb ao bo || (xwithin e12 (XFin 0) m0 && xwithin e12 (XFin 1) m1).
Lemma law43_sound ao bo m0 m1 : law43 ao bo m0 m1 = true -> ~ ao == bo ->
  exists p q, m0 = XFin p /\ m1 = XFin q /\ Qabs p <= e12 /\ Qabs (q - 1) <= e12.
Proof.
  unfold law43. intros H Hn. apply Bool.orb_true_iff in H. destruct H as [H|H]; [apply Qeqb_true in H; contradiction|].
  apply andb_prop in H. destruct H as [H1 H2]. apply xwithin_fin in H1, H2.
  destruct H1 as (p & -> & Hp). destruct H2 as (q & -> & Hq). exists p, q. repeat split; auto.
  assert (E : p - 0 == p) by ring. rewrite <- E. exact Hp.
Qed.

(* ---------- Ticks(o) observed against a model outcome ---------- *)
(* status 0 and every tick a finite float within tolerance of the expected one, in order (minor
   ticks only where they were recorded); no ticks at all; or a panic *)
Definition ticks_obs (tolv : Q -> Q) (t : ticks_res) (st : Z) (major : list xreal) (minor : option (list xreal)) : Prop :=
  match t with
  | TR_ticks ma mi => st = 0%Z /\ obs_close tolv ma major /\ (forall m, minor = Some m -> obs_close tolv mi m)
  | TR_none => st = 0%Z /\ major = [] /\ (forall m, minor = Some m -> m = [])
  | TR_panic => st = 2%Z
  end.
Lemma ticks_exact_sound t st tolv major minor : ticks_exact t st tolv major minor = true -> ticks_obs tolv t st major minor.
Proof.
  unfold ticks_exact, ticks_obs. destruct t as [| |ma mi]; intro H.
  - now apply Z.eqb_eq in H.
  - apply andb_prop in H. destruct H as [H1 H2]. apply Z.eqb_eq in H1. split; [exact H1|].
    destruct major; [|discriminate]. split; [reflexivity|]. intros m ->. destruct m; [reflexivity|discriminate].
  - apply andb_prop in H. destruct H as [H H3]. apply andb_prop in H. destruct H as [H1 H2]. apply Z.eqb_eq in H1.
    split; [exact H1|]. split; [now apply close_list_sound|]. intros m ->. now apply close_list_sound.
Qed.

(* an ascending list has no repetitions; two ascending lists with the same elements have the same length *)
Lemma sorted_nodup (L : list Q) : StronglySorted Qlt L -> NoDup L.
Proof.
  induction 1 as [|a L S IH F]; constructor; [|exact IH].
  intro Hin. rewrite Forall_forall in F. apply F in Hin. apply Qlt_irrefl in Hin. exact Hin.
Qed.
Lemma sorted_same_length (L1 L2 : list Q) : StronglySorted Qlt L1 -> StronglySorted Qlt L2 ->
  (forall v, In v L1 <-> In v L2) -> length L1 = length L2.
Proof.
  intros S1 S2 E. apply Nat.le_antisymm; apply NoDup_incl_length; try (now apply sorted_nodup); intros v Hv; now apply E.
Qed.

(* ---------- the two readings of a case predicate ---------- *)
(* [G E A P]: the meaning of a group with exact comparison E, admissible-set comparison A and
   reading P of E;  [Lw amb P]: the meaning of a law P on observed values that a borderline
   group (amb) excuses.  Verdict code 0: G_exact, L_exact; code 1: G_border, L_border. *)
Definition G_exact (E A : bool) (P : Prop) : Prop := P.
Definition L_exact (amb : bool) (P : Prop) : Prop := P.
Definition G_border (E A : bool) (P : Prop) : Prop := P \/ (E = false /\ A = true).
Definition L_border (amb : bool) (P : Prop) : Prop := P \/ amb = true.
Definition is_found (r : flres) : bool := match r with FL_ok _ => true | _ => false end.

(* Proofs/CheckC17Lin.v — (helper hI-c17p) comparator soundness of Check/C17.v, kind 1 (Linear):
   what an accepted verdict of [judge_linear] says about the observed values.
   Over Z/Q/lists; closed under the global context. *)
From Coq Require Import Qround Sorted Lqa.
From MM Require Import Base.Num Base.GBLemmas Model.Ticks Proofs.Ticks Proofs.TicksLinear Proofs.TicksNice Proofs.TicksNiceRep
  Check.C17 Proofs.TicksCheck Proofs.CheckBase Proofs.CheckC17Base.
Local Open Scope Q_scope.

(* ---------- the quantities judge_linear forms, as functions of the case ---------- *)
(* the tolerance of every tick / domain end: 1e-9 relative to the value plus 1e-9 of the domain width *)
Definition lc_tolv (c : sccase) : Q -> Q :=
  let w := Qabs (sc_mx c - sc_mn c) in let w := if Qeqb w 0 then 1 else w in
  fun v : Q => e9 * Qabs v + e9 * w.
(* the level searches: of Ticks(o) on the domain [mn, mx], of Nice(o) on it *)
Definition lin_rt (o : tickopts) (base eb : Z) (mn mx : Q) : flres :=
  if Qeqb mn mx then FL_fail else lin_search o base eb (fst (lin_order mn mx)) (snd (lin_order mn mx)) false.
Definition lin_rn (o : tickopts) (base eb : Z) (mn mx : Q) : flres :=
  lin_search o base eb (fst (lin_start mn mx)) (snd (lin_start mn mx)) true.
Definition lin_nice_xy (o : tickopts) (base eb : Z) (mn mx : Q) : Q * Q :=
  lin_nice_from base eb (fst (lin_start mn mx)) (snd (lin_start mn mx)) (lin_rn o base eb mn mx).

(* the exact comparison (E) and the admissible-set comparison (A) of Ticks(o) on [mn, mx] *)
Definition lin_ticks_E (tolv : Q -> Q) (o : tickopts) (base eb : Z) (mn mx : Q) (st : Z) (major : list xreal) (minor : option (list xreal)) : bool :=
  ticks_exact (lin_ticks_from base eb mn mx o (lin_rt o base eb mn mx)) st tolv major minor.
Definition lin_ticks_A (tolv : Q -> Q) (o : tickopts) (base eb : Z) (mn mx : Q) (st : Z) (major : list xreal) (minor : option (list xreal)) : bool :=
  negb (Qeqb mn mx) && (st =? 0)%Z &&
  lin_ticks_adm o base eb (fst (lin_order mn mx)) (snd (lin_order mn mx)) tolv (lin_rt o base eb mn mx) major minor.
(* ... of Nice(o) on [mn, mx] *)
Definition lin_nice_E (tolv : Q -> Q) (o : tickopts) (base eb : Z) (mn mx : Q) (st : Z) (a b : xreal) : bool :=
  (st =? 0)%Z && xwithin (tolv (fst (lin_nice_xy o base eb mn mx))) (XFin (fst (lin_nice_xy o base eb mn mx))) a
              && xwithin (tolv (snd (lin_nice_xy o base eb mn mx))) (XFin (snd (lin_nice_xy o base eb mn mx))) b.
Definition lin_nice_A (tolv : Q -> Q) (o : tickopts) (base eb : Z) (mn mx : Q) (st : Z) (a b : xreal) : bool :=
  (st =? 0)%Z && match a, b with
                 | XFin a2, XFin b2 => lin_nice_adm o base eb (fst (lin_start mn mx)) (snd (lin_start mn mx)) tolv (lin_rn o base eb mn mx) a2 b2
                 | _, _ => false end.
(* 45: Nice added at most one spacing (distance of the first two / last two observed major ticks) per end *)
Definition lin_law45 (tolv : Q -> Q) (nomax : Z) (rep : bool) (na nb ao bo : Q) (major3 : list xreal) : bool :=
  (nomax <? 3)%Z || negb rep ||
  match first_two major3, last_two major3 with
  | Some (t0, t1), Some (u0, u1) => Qleb (na - ao) (t1 - t0 + tolv ao) && Qleb (bo - nb) (u1 - u0 + tolv bo)
  | _, _ => false
  end.

(* ---------- what an accepted verdict says, group by group ---------- *)
Record lin_groups (cd : Z) (c : sccase) (eb : Z) (ao bo : Q) : Prop := mkLG {
  lg_tolv := lc_tolv c; lg_o := sc_o c; lg_no := so_no (sc_ob c);
  lg_base := sc_base c; lg_mn := sc_mn c; lg_mx := sc_mx c; lg_ob := sc_ob c;
  lg_fin : so_nmin lg_ob = XFin ao /\ so_nmax lg_ob = XFin bo;
  lg_10 : gok cd (lin_ticks_E lg_tolv lg_o lg_base eb lg_mn lg_mx (so_st lg_ob) (so_major lg_ob) (Some (so_minor lg_ob)))
                 (lin_ticks_A lg_tolv lg_o lg_base eb lg_mn lg_mx (so_st lg_ob) (so_major lg_ob) (Some (so_minor lg_ob)));
  lg_20 : gok cd (forallb (lin_level_exact lg_base eb lg_mn lg_mx lg_tolv) (so_levels lg_ob))
                 (forallb (fun lv => lin_level_exact lg_base eb lg_mn lg_mx lg_tolv lv || lin_level_adm lg_base eb lg_mn lg_mx lg_tolv lv) (so_levels lg_ob));
  lg_21 : lok cd (counts_noninc (so_levels lg_ob)) (negb (forallb (lin_level_exact lg_base eb lg_mn lg_mx lg_tolv) (so_levels lg_ob)));
  lg_30 : gok cd (lin_nice_E lg_tolv lg_no lg_base eb lg_mn lg_mx (so_nst lg_ob) (XFin ao) (XFin bo))
                 (lin_nice_A lg_tolv lg_no lg_base eb lg_mn lg_mx (so_nst lg_ob) (XFin ao) (XFin bo));
  lg_35 : Qleb ao (fst (lin_order lg_mn lg_mx)) && Qleb (snd (lin_order lg_mn lg_mx)) bo = true;
  lg_36 : gok cd (lin_ticks_E lg_tolv lg_no lg_base eb ao bo (so_st3 lg_ob) (so_major3 lg_ob) None)
                 (lin_ticks_A lg_tolv lg_no lg_base eb ao bo (so_st3 lg_ob) (so_major3 lg_ob) None);
  lg_37 : gok cd (lin_nice_E lg_tolv lg_no lg_base eb ao bo (so_nst2 lg_ob) (so_nmin2 lg_ob) (so_nmax2 lg_ob))
                 (lin_nice_A lg_tolv lg_no lg_base eb ao bo (so_nst2 lg_ob) (so_nmin2 lg_ob) (so_nmax2 lg_ob));
  lg_bl := negb (lin_nice_E lg_tolv lg_no lg_base eb lg_mn lg_mx (so_nst lg_ob) (XFin ao) (XFin bo))
           || negb (lin_ticks_E lg_tolv lg_no lg_base eb ao bo (so_st3 lg_ob) (so_major3 lg_ob) None)
           || negb (lin_nice_E lg_tolv lg_no lg_base eb ao bo (so_nst2 lg_ob) (so_nmin2 lg_ob) (so_nmax2 lg_ob));
  lg_rep := lin_nice_rep_b lg_base eb (fst (lin_start lg_mn lg_mx)) (snd (lin_start lg_mn lg_mx)) (lin_rn lg_no lg_base eb lg_mn lg_mx);
  lg_40 : lok cd (law40 lg_tolv (o_max lg_no) ao bo (so_nst2 lg_ob) (so_nmin2 lg_ob) (so_nmax2 lg_ob)) lg_bl;
  lg_41 : lok cd (law41 lg_tolv (o_max lg_no) lg_rep ao bo (so_major3 lg_ob)) lg_bl;
  lg_43 : law43 ao bo (so_map0 lg_ob) (so_map1 lg_ob) = true;
  lg_45 : lok cd (lin_law45 lg_tolv (o_max lg_no) lg_rep (fst (lin_start lg_mn lg_mx)) (snd (lin_start lg_mn lg_mx)) ao bo (so_major3 lg_ob)) lg_bl }.

(* Base = 1 or negative: every call that needs a level panics *)
Definition lin_badbase_ok (c : sccase) : Prop :=
  let ob := sc_ob c in
  so_st ob = (if (o_max (sc_o c) <=? 0)%Z || Qeqb (sc_mn c) (sc_mx c) then 0 else 2)%Z /\
  so_nst ob = 2%Z /\ so_nst2 ob = 2%Z /\
  so_st3 ob = (if (o_max (so_no ob) <=? 0)%Z then 0 else 2)%Z.

Lemma law_eqb_ok cd (b : bool) (x v w : Z) : (law (if b then (x =? v)%Z else (x =? w)%Z) false < cd + 1)%Z -> cd = 0%Z \/ cd = 1%Z ->
  x = (if b then v else w).
Proof. intros H Hc. apply law_false_ok in H; [|exact Hc]. destruct b; now apply Z.eqb_eq in H. Qed.

Ltac split_groups H :=
  repeat match type of H with Forall _ (_ :: _) => apply Forall_cons_inv in H; let K := fresh "K" in destruct H as [K H] end.

Lemma judge_linear_badbase c cd t p d : judge_linear c = verdict cd t p d -> cd = 0%Z \/ cd = 1%Z ->
  lin_ebase (sc_base c) = None -> lin_badbase_ok c.
Proof.
  intros H Hc He. unfold judge_linear in H. rewrite He in H. cbv zeta in H.
  apply conclude_groups in H; [|exact Hc]. split_groups H. cbn [fst] in *. unfold lin_badbase_ok. cbv zeta.
  apply law_eqb_ok in K, K2; try exact Hc. apply law_false_ok in K0, K1; try exact Hc. apply Z.eqb_eq in K0, K1. auto.
Qed.

Lemma judge_linear_groups c cd t p d eb : judge_linear c = verdict cd t p d -> cd = 0%Z \/ cd = 1%Z ->
  lin_ebase (sc_base c) = Some eb -> exists ao bo, lin_groups cd c eb ao bo.
Proof.
  intros H Hc He. unfold judge_linear in H. rewrite He in H. cbv zeta in H.
  destruct (lin_order (sc_mn c) (sc_mx c)) as [a b] eqn:Eo.
  destruct (lin_start (sc_mn c) (sc_mx c)) as [na nb] eqn:Es.
  match type of H with context [lin_nice_from ?a1 ?a2 ?a3 ?a4 ?a5] => destruct (lin_nice_from a1 a2 a3 a4 a5) as [x y] eqn:Exy end.
  destruct (so_nmin (sc_ob c)) as [| |ao] eqn:Ea;
    try (apply conclude_groups in H; [|exact Hc]; apply Forall_cons_inv in H; cbn in H; lia).
  destruct (so_nmax (sc_ob c)) as [| |bo] eqn:Eb;
    try (apply conclude_groups in H; [|exact Hc]; apply Forall_cons_inv in H; cbn in H; lia).
  destruct (lin_order ao bo) as [a3 b3] eqn:Eo3.
  destruct (lin_start ao bo) as [na3 nb3] eqn:Es3.
  match type of H with context [lin_nice_from ?a1 ?a2 na3 ?a4 ?a5] => destruct (lin_nice_from a1 a2 na3 a4 a5) as [x3 y3] eqn:Exy3 end.
  apply conclude_groups in H; [|exact Hc]. split_groups H. clear H.
  exists ao, bo. cbn [fst] in *. rewrite ?grp_ge1 in *.
  constructor; cbv zeta;
    unfold lin_ticks_E, lin_ticks_A, lin_nice_E, lin_nice_A, lin_nice_xy, lin_rt, lin_rn, law40, law41, law43, lin_law45;
    rewrite ?Eo, ?Es, ?Eo3, ?Es3; cbn [fst snd]; rewrite ?Exy, ?Exy3; cbn [fst snd].
  - auto.
  - apply grp_gok; [exact K | exact Hc].
  - apply grp_gok; [exact K0 | exact Hc].
  - apply law_lok; [exact K1 | exact Hc].
  - apply grp_gok; [exact K2 | exact Hc].
  - now apply law_false_ok in K3.
  - apply grp_gok; [exact K4 | exact Hc].
  - apply grp_gok; [exact K5 | exact Hc].
  - apply law_lok; [exact K6 | exact Hc].
  - apply law_lok; [exact K7 | exact Hc].
  - now apply law_false_ok in K8.
  - apply law_lok; [exact K9 | exact Hc].
Qed.

(* ================= specification-level readings ================= *)
(* the tick list of a level: the ascending list of ALL integer multiples of the level's spacing
   inside the domain widened by the slack 1e-10 (mx - mn) *)
Definition lin_level_list (base eb : Z) (mn mx : Q) (l : Z) (L : list Q) : Prop :=
  StronglySorted Qlt L /\ forall v, In v L <-> exists k : Z, v = inject_Z k * lin_spacing base eb l /\ in_range mn mx v.

Lemma lin_level_list_at base eb mn mx l : lin_ebase base = Some eb -> mn <= mx ->
  lin_level_list base eb mn mx l (lin_ticks_at base eb mn mx false l).
Proof.
  intros He Ho. split; [exact (lin_ticks_ascending base eb mn mx He l) | intro v; exact (lin_ticks_at_spec base eb mn mx He Ho l v)].
Qed.
Lemma lin_level_list_length base eb mn mx l L : lin_ebase base = Some eb -> mn <= mx ->
  lin_level_list base eb mn mx l L -> length L = length (lin_ticks_at base eb mn mx false l).
Proof.
  intros He Ho [S I]. destruct (lin_level_list_at base eb mn mx l He Ho) as [S' I'].
  apply sorted_same_length; [exact S | exact S' |]. intro v. rewrite I, I'. reflexivity.
Qed.

Lemma lin_ticks_nonpos base mn mx o g : (o_max o <= 0)%Z -> lin_ticks base mn mx o g = TR_none.
Proof. intro H. unfold lin_ticks, lin_ticks_gen. apply Z.leb_le in H. now rewrite H. Qed.
Lemma lin_ticks_degenerate base mn mx o g : (1 <= o_max o)%Z -> mn == mx -> lin_ticks base mn mx o g = TR_ticks [mn] [mn].
Proof.
  intros H E. unfold lin_ticks, lin_ticks_gen. replace (o_max o <=? 0)%Z with false by (symmetry; apply Z.leb_gt; lia).
  apply Qeqb_true in E. now rewrite E.
Qed.
Lemma lin_order_lt mn mx a b : ~ mn == mx -> lin_order mn mx = (a, b) -> a < b.
Proof.
  intros Hn. unfold lin_order. destruct (Qltb mx mn) eqn:S; intros [= <- <-]; gb_bool; [exact S|].
  destruct (Qeq_dec mn mx); [contradiction | lra].
Qed.
Lemma lin_ticks_reorder base mn mx o g a b : ~ mn == mx -> lin_order mn mx = (a, b) ->
  lin_ticks base mn mx o g = lin_ticks base a b o g.
Proof.
  intros Hn Eo. pose proof (lin_order_lt mn mx a b Hn Eo) as Lt. unfold lin_ticks, lin_ticks_gen.
  destruct (o_max o <=? 0)%Z; [reflexivity|].
  assert (E1 : Qeqb mn mx = false) by (destruct (Qeqb mn mx) eqn:E; [gb_bool; contradiction | reflexivity]).
  assert (E2 : Qeqb a b = false) by (destruct (Qeqb a b) eqn:E; [gb_bool; lra | reflexivity]).
  assert (E3 : Qltb b a = false) by (apply Qltb_false; lra).
  rewrite E1, E2, E3. unfold lin_order in Eo. rewrite Eo. reflexivity.
Qed.
Lemma lin_ticks_no_panic base eb mn mx o g : lin_ebase base = Some eb -> lin_ticks base mn mx o g <> TR_panic.
Proof.
  intro He. unfold lin_ticks, lin_ticks_gen. destruct (o_max o <=? 0)%Z; [discriminate|]. destruct (Qeqb mn mx); [discriminate|].
  destruct (if Qltb mx mn then (mx, mn) else (mn, mx)) as [a b]. rewrite He.
  destruct (find_level o (lin_count base eb a b false) g); discriminate.
Qed.

(* what Ticks(o) on the domain [mn, mx] (any order) must return, stated on the observed lists *)
Definition lin_ticks_spec (tolv : Q -> Q) (base eb : Z) (o : tickopts) (mn mx : Q) (st : Z) (major : list xreal) (minor : option (list xreal)) : Prop :=
  st = 0%Z /\
  let a := fst (lin_order mn mx) in let b := snd (lin_order mn mx) in
  let none := major = [] /\ (forall m, minor = Some m -> m = []) in
  ((o_max o <= 0)%Z -> none) /\
  ((1 <= o_max o)%Z -> mn == mx -> obs_close tolv [mn] major /\ forall m, minor = Some m -> obs_close tolv [mn] m) /\
  ((1 <= o_max o)%Z -> ~ mn == mx ->
     a < b /\ (level_bounds o = None -> none) /\
     forall lo hi, level_bounds o = Some (lo, hi) ->
       (exists l L, (lo <= l <= hi)%Z /\ lin_level_list base eb a b l L /\ (Z.of_nat (length L) <= o_max o)%Z /\
           obs_close tolv L major /\
           (forall l' L', (lo <= l' < l)%Z -> lin_level_list base eb a b l' L' -> (o_max o < Z.of_nat (length L'))%Z) /\
           (forall m, minor = Some m -> exists Lm, lin_level_list base eb a b (l - 1) Lm /\ obs_close tolv Lm m))
       \/ (none /\ forall l L, (lo <= l <= hi)%Z -> lin_level_list base eb a b l L -> (o_max o < Z.of_nat (length L))%Z)).

Lemma lin_ticks_obs_spec tolv base eb o mn mx st major minor : lin_ebase base = Some eb ->
  ticks_obs tolv (lin_ticks base mn mx o 0) st major minor -> lin_ticks_spec tolv base eb o mn mx st major minor.
Proof.
  intros He H. unfold lin_ticks_spec. destruct (lin_order mn mx) as [a b] eqn:Eo. cbn [fst snd]. cbv zeta.
  assert (St : st = 0%Z).
  { pose proof (lin_ticks_no_panic base eb mn mx o 0 He) as NP.
    destruct (lin_ticks base mn mx o 0); [contradiction | exact (proj1 H) | exact (proj1 H)]. }
  split; [exact St|]. split; [|split].
  - intro Hm. rewrite (lin_ticks_nonpos base mn mx o 0 Hm) in H. exact (proj2 H).
  - intros Hm E. rewrite (lin_ticks_degenerate base mn mx o 0 Hm E) in H. exact (proj2 H).
  - intros Hm Hn. pose proof (lin_order_lt mn mx a b Hn Eo) as Lt. split; [exact Lt|].
    rewrite (lin_ticks_reorder base mn mx o 0 a b Hn Eo) in H.
    assert (Ho : a <= b) by lra.
    pose proof (lin_ticks_none_iff base eb a b o 0 Lt He Hm) as NI.
    split.
    + intro Hb. rewrite (proj2 NI (or_introl Hb)) in H. exact (proj2 H).
    + intros lo hi Hb. destruct (lin_ticks base a b o 0) as [| |ma mi] eqn:T.
      * exfalso. exact (lin_ticks_no_panic base eb a b o 0 He T).
      * right. split; [exact (proj2 H)|]. destruct (proj1 NI eq_refl) as [N|(lo' & hi' & Hb' & N)]; [congruence|].
        rewrite Hb in Hb'. injection Hb' as <- <-. intros l L Hl HL.
        rewrite (lin_level_list_length base eb a b l L He Ho HL). now apply N.
      * left. destruct (lin_ticks_correct base a b o 0 ma mi lo hi Lt Hb T) as (eb' & l & He' & Hl & -> & -> & Len & Low).
        rewrite He in He'. injection He' as <-. destruct H as (_ & Hma & Hmi).
        exists l, (lin_ticks_at base eb a b false l). split; [exact Hl|]. split; [now apply lin_level_list_at|].
        split; [exact Len|]. split; [exact Hma|]. split.
        -- intros l' L' Hl' HL'. rewrite (lin_level_list_length base eb a b l' L' He Ho HL'). now apply Low.
        -- intros m Em. exists (lin_ticks_at base eb a b false (l - 1)). split; [now apply lin_level_list_at | now apply Hmi].
Qed.

Theorem lin_ticks_E_sound tolv o base eb mn mx st major minor : lin_ebase base = Some eb ->
  lin_ticks_E tolv o base eb mn mx st major minor = true -> lin_ticks_spec tolv base eb o mn mx st major minor.
Proof.
  intros He H. unfold lin_ticks_E, lin_rt in H. destruct (lin_order mn mx) as [a b] eqn:Eo. cbn [fst snd] in H.
  rewrite (lin_ticks_from_eq _ _ _ _ _ _ _ He Eo) in H. apply ticks_exact_sound in H.
  now apply lin_ticks_obs_spec.
Qed.

(* CountTicks(l) / TicksAtLevel(l) on an ordered domain.  With c the number of multiples of the level's
   spacing in the widened domain: CountTicks = c exactly up to 1000 ticks and within 2 + 1e-9 c of
   min(c, maxInt) beyond (the count is formed in float64 and saturated at maxInt); TicksAtLevel has
   status 0 and exactly c ticks, each within tolerance of the list - or status 3 (the harness did not call
   TicksAtLevel) and no ticks, only where c > 1000 *)
Definition lin_level_spec (tolv : Q -> Q) (base eb : Z) (mn mx : Q) (lv : levobs) : Prop :=
  exists L, lin_level_list base eb mn mx (lv_level lv) L /\
    let c := Z.of_nat (length L) in
    ((c <= 1000)%Z -> lv_count lv = c) /\
    ((1000 < c)%Z -> (Z.abs (lv_count lv - Z.min c MAXINT) <= 2 + c / 1000000000)%Z) /\
    ((lv_st lv = 0%Z /\ obs_close tolv L (lv_ticks lv) /\ Z.of_nat (length (lv_ticks lv)) = c)
     \/ (lv_st lv = 3%Z /\ (1000 < c)%Z /\ lv_ticks lv = [])).
Lemma count_ok_sound c obs : count_ok c obs = true ->
  ((c <= 1000)%Z -> obs = c) /\ ((1000 < c)%Z -> (Z.abs (obs - Z.min c MAXINT) <= 2 + c / 1000000000)%Z).
Proof.
  unfold count_ok. cbv zeta. intro H. apply Bool.orb_true_iff in H. destruct H as [H|H].
  - apply Z.eqb_eq in H. split; intro Hc.
    + rewrite H. unfold MAXINT. lia.
    + rewrite H. assert (0 <= c / 1000000000)%Z by (apply Z.div_pos; lia). lia.
  - apply andb_prop in H. destruct H as [H1 H2]. apply Z.ltb_lt in H1. apply Z.leb_le in H2. split; intro Hc; [lia | exact H2].
Qed.
Lemma lin_level_exact_sound tolv base eb mn mx lv : lin_ebase base = Some eb -> mn <= mx ->
  lin_level_exact base eb mn mx tolv lv = true -> lin_level_spec tolv base eb mn mx lv.
Proof.
  intros He Ho H. unfold lin_level_exact in H. cbv zeta in H. apply andb_prop in H. destruct H as [Hc H].
  apply count_ok_sound in Hc. rewrite (lin_count_is_length base eb mn mx He Ho) in Hc, H.
  exists (lin_ticks_at base eb mn mx false (lv_level lv)). split; [now apply lin_level_list_at|]. cbv zeta.
  split; [exact (proj1 Hc)|]. split; [exact (proj2 Hc)|].
  destruct (lv_st lv =? 3)%Z eqn:S3.
  - right. apply Z.eqb_eq in S3. apply andb_prop in H. destruct H as [H1 H2]. apply Z.ltb_lt in H1.
    destruct (lv_ticks lv); [auto | discriminate].
  - left. apply andb_prop in H. destruct H as [H1 H3]. apply Z.eqb_eq in H1.
    destruct (_ =? _)%Z eqn:El in H3; [|discriminate]. apply Z.eqb_eq in El. apply close_list_sound in H3.
    split; [exact H1|]. split; [exact H3 | now symmetry].
Qed.

(* ---------- Nice ---------- *)
(* the rounded-out tick count Nice searches with: ceil((max - slack)/spacing) - floor((min + slack)/spacing) + 1 *)
Definition lin_out_count (base eb : Z) (mn mx : Q) (l : Z) : Z :=
  let sp := lin_spacing base eb l in let sl := (mx - mn) * slack_factor in
  (Qceiling ((mx - sl) / sp) - Qfloor ((mn + sl) / sp) + 1)%Z.
Lemma lin_count_out_eq base eb mn mx l : lin_count base eb mn mx true l = lin_out_count base eb mn mx l.
Proof. unfold lin_count, lin_out_count. rewrite first_last_out. reflexivity. Qed.

(* "Nice's level": THE lowest level of the window whose rounded-out count is at most Max *)
Definition lin_nice_level (base eb : Z) (o : tickopts) (smn smx : Q) (l : Z) : Prop :=
  exists lo hi, level_bounds o = Some (lo, hi) /\ (1 <= o_max o)%Z /\ (lo <= l <= hi)%Z /\
    (lin_out_count base eb smn smx l <= o_max o)%Z /\
    forall l', (lo <= l' < l)%Z -> (o_max o < lin_out_count base eb smn smx l')%Z.

Lemma lin_nice_level_iff base eb o smn smx l g : lin_ebase base = Some eb -> smn < smx ->
  (find_level o (lin_count base eb smn smx true) g = FL_ok l <-> lin_nice_level base eb o smn smx l).
Proof.
  intros He Lt. split.
  - intro F. destruct (level_bounds o) as [[lo hi]|] eqn:Hb; [|unfold find_level in F; rewrite Hb in F; discriminate].
    assert (Hm : (1 <= o_max o)%Z).
    { destruct (Z_lt_ge_dec (o_max o) 1) as [L|L]; [|lia]. unfold find_level in F. rewrite Hb in F.
      apply Z.ltb_lt in L. rewrite L in F. discriminate. }
    destruct (find_level_lowest o _ g lo hi l Hb (lin_count_out_nonincreasing base eb He smn smx lo hi Lt) F) as (B & Fit & Low).
    exists lo, hi. rewrite <- lin_count_out_eq. repeat split; try tauto; try lia.
    intros l' Hl'. rewrite <- lin_count_out_eq. now apply Low.
  - intros (lo & hi & Hb & Hm & Hl & Fit & Low).
    apply (find_level_is_lowest o _ g lo hi l Hb (lin_count_out_nonincreasing base eb He smn smx lo hi Lt) Hm Hl).
    + now rewrite lin_count_out_eq.
    + intros l' Hl'. rewrite lin_count_out_eq. now apply Low.
Qed.
Lemma lin_search_out_eq o base eb smn smx : lin_ebase base = Some eb ->
  lin_search o base eb smn smx true = find_level o (lin_count base eb smn smx true) 0.
Proof.
  intro He. unfold lin_search. apply find_level_ext. intro l. apply lin_count_capped_eq. now destruct (lin_ebase_ge base eb He).
Qed.

(* Nice(o) on the domain [mn, mx] (any order; a degenerate one is first widened by 1/2 each side): the
   observed new ends are finite and within tolerance of values x, y that do not shrink the
   (ordered/widened) domain [smn, smx], move each end by less than one spacing of Nice's level onto
   a multiple of it (or leave it), and leave the domain alone when no level fits *)
Definition lin_nice_spec (tolv : Q -> Q) (base eb : Z) (o : tickopts) (mn mx : Q) (st : Z) (a b : xreal) : Prop :=
  st = 0%Z /\ exists ao bo x y, a = XFin ao /\ b = XFin bo /\ Qabs (ao - x) <= tolv x /\ Qabs (bo - y) <= tolv y /\
  let smn := fst (lin_start mn mx) in let smx := snd (lin_start mn mx) in
  smn < smx /\ x <= smn /\ smx <= y /\
  (forall l, lin_nice_level base eb o smn smx l ->
     let sp := lin_spacing base eb l in
     smn - x < sp /\ y - smx < sp /\
     (x == smn \/ exists k : Z, x = inject_Z k * sp) /\ (y == smx \/ exists k : Z, y = inject_Z k * sp)) /\
  ((forall l, ~ lin_nice_level base eb o smn smx l) -> x == smn /\ y == smx).

Theorem lin_nice_E_sound tolv o base eb mn mx st a b : lin_ebase base = Some eb ->
  lin_nice_E tolv o base eb mn mx st a b = true -> lin_nice_spec tolv base eb o mn mx st a b.
Proof.
  intros He H. unfold lin_nice_E in H. destruct (lin_nice_xy o base eb mn mx) as [x y] eqn:Exy. cbn [fst snd] in H.
  apply andb_prop in H. destruct H as [H H3]. apply andb_prop in H. destruct H as [H1 H2]. apply Z.eqb_eq in H1.
  apply xwithin_fin in H2, H3. destruct H2 as (ao & -> & Ha). destruct H3 as (bo & -> & Hb).
  split; [exact H1|]. exists ao, bo, x, y. split; [reflexivity|]. split; [reflexivity|]. split; [exact Ha|]. split; [exact Hb|].
  unfold lin_nice_xy, lin_rn in Exy. destruct (lin_start mn mx) as [na nb] eqn:Es. cbn [fst snd] in *. cbv zeta.
  pose proof (lin_nice_from_eq base eb mn mx o na nb He Es) as N. rewrite Exy in N.
  pose proof (lin_nice_expands base mn mx o 0 x y N) as Ex.
  pose proof (nice_start_ordered mn mx) as Ord.
  pose proof (lin_nice_adds_less_than_one_spacing base eb mn mx o 0 x y He N) as Ad.
  change (nice_start mn mx) with (lin_start mn mx) in Ex, Ord, Ad. rewrite Es in Ex, Ord, Ad. cbv zeta in Ad.
  split; [exact Ord|]. split; [tauto|]. split; [tauto|]. split.
  - intros l Hl. apply (lin_nice_level_iff base eb o na nb l 0 He Ord) in Hl.
    assert (P : 0 < lin_spacing base eb l) by (apply lin_spacing_pos; now destruct (lin_ebase_ge base eb He)).
    destruct Ad as [[E1 E2]|(l' & F & A1 & A2 & A3 & A4)].
    + repeat split; try lra; now left.
    + rewrite Hl in F. injection F as <-. auto.
  - intro No. destruct Ad as [Ad|(l' & F & _)]; [exact Ad|]. exfalso.
    apply (lin_nice_level_iff base eb o na nb l' 0 He Ord) in F. exact (No l' F).
Qed.

(* Nice found a level and both candidate ends of that level, floor((min + slack)/spacing) spacing and
   ceil((max - slack)/spacing) spacing, are finite float64 values (at a level whose spacing overflows
   float64 only the multiple 0 is) *)
Definition lin_nice_rep_spec (base eb : Z) (o : tickopts) (smn smx : Q) : Prop :=
  exists l, lin_nice_level base eb o smn smx l /\
    let sp := lin_spacing base eb l in let sl := (smx - smn) * slack_factor in
    Qabs (inject_Z (Qfloor ((smn + sl) / sp)) * sp) < qpow 2 1024 /\ Qabs (inject_Z (Qceiling ((smx - sl) / sp)) * sp) < qpow 2 1024.
Lemma lin_rep_of_spec o base eb mn mx : lin_ebase base = Some eb ->
  lin_nice_rep_spec base eb o (fst (lin_start mn mx)) (snd (lin_start mn mx)) ->
  lin_nice_rep_b base eb (fst (lin_start mn mx)) (snd (lin_start mn mx)) (lin_rn o base eb mn mx) = true.
Proof.
  intro He. unfold lin_rn. pose proof (nice_start_ordered mn mx) as Ord. change (nice_start mn mx) with (lin_start mn mx) in Ord.
  destruct (lin_start mn mx) as [na nb]. cbn [fst snd]. rewrite (lin_search_out_eq o base eb na nb He).
  intros (l & Hl & F1 & F2). apply (lin_nice_level_iff base eb o na nb l 0 He Ord) in Hl. rewrite Hl.
  unfold lin_nice_rep_b. rewrite first_last_out. unfold f64_fin. apply andb_true_intro. split; now apply Qltb_true.
Qed.

(* 45 *)
Lemma lin_law45_sound tolv nomax rep na nb ao bo major3 : lin_law45 tolv nomax rep na nb ao bo major3 = true ->
  (3 <= nomax)%Z -> rep = true ->
  exists t0 t1 rest u1 u0 rest', major3 = XFin t0 :: XFin t1 :: rest /\ rev major3 = XFin u1 :: XFin u0 :: rest' /\
    na - ao <= t1 - t0 + tolv ao /\ bo - nb <= u1 - u0 + tolv bo.
Proof.
  unfold lin_law45. intros H Hm ->. apply Bool.orb_true_iff in H. destruct H as [H|H].
  { apply Bool.orb_true_iff in H. destruct H as [H|H]; [apply Z.ltb_lt in H; lia | discriminate]. }
  unfold first_two, last_two in H. destruct major3 as [|[| |t0] [|[| |t1] rest]]; try discriminate.
  destruct (rev (XFin t0 :: XFin t1 :: rest)) as [|[| |u1] [|[| |u0] rest']]; try discriminate.
  apply andb_prop in H. destruct H as [H1 H2]. apply Qleb_true in H1, H2.
  exists t0, t1, rest, u1, u0, rest'. auto.
Qed.

(* ================= the case predicate ================= *)
(* [G E A P]: the meaning of a group with exact comparison E, admissible-set comparison A and
   specification-level reading P of E;  [Lw amb P]: the meaning of a law P on observed values that a
   borderline group (amb) excuses.  Code 0: G _ _ P = P, Lw _ P = P.
   Code 1: G E A P = P \/ (E = false /\ A = true), Lw amb P = P \/ amb = true. *)
Definition linear_some_gen (G : bool -> bool -> Prop -> Prop) (Lw : bool -> Prop -> Prop) (c : sccase) (eb : Z) : Prop :=
  let ob := sc_ob c in let base := sc_base c in let mn := sc_mn c in let mx := sc_mx c in
  let o := sc_o c in let no := so_no ob in let tolv := lc_tolv c in
  exists ao bo, so_nmin ob = XFin ao /\ so_nmax ob = XFin bo /\
  let E20 := forallb (lin_level_exact base eb mn mx tolv) (so_levels ob) in
  let E30 := lin_nice_E tolv no base eb mn mx (so_nst ob) (XFin ao) (XFin bo) in
  let E36 := lin_ticks_E tolv no base eb ao bo (so_st3 ob) (so_major3 ob) None in
  let E37 := lin_nice_E tolv no base eb ao bo (so_nst2 ob) (so_nmin2 ob) (so_nmax2 ob) in
  let bl := negb E30 || negb E36 || negb E37 in
  let rep := lin_nice_rep_spec base eb no (fst (lin_start mn mx)) (snd (lin_start mn mx)) in
  (* 10: Ticks(o) *)
  G (lin_ticks_E tolv o base eb mn mx (so_st ob) (so_major ob) (Some (so_minor ob)))
    (lin_ticks_A tolv o base eb mn mx (so_st ob) (so_major ob) (Some (so_minor ob)))
    (lin_ticks_spec tolv base eb o mn mx (so_st ob) (so_major ob) (Some (so_minor ob))) /\
  (* 20: CountTicks(l), TicksAtLevel(l) for every recorded level *)
  G E20 (forallb (fun lv => lin_level_exact base eb mn mx tolv lv || lin_level_adm base eb mn mx tolv lv) (so_levels ob))
    (mn <= mx -> Forall (lin_level_spec tolv base eb mn mx) (so_levels ob)) /\
  (* 21: the observed counts are non-increasing along ascending levels *)
  Lw (negb E20) (forall l1 a b l2, so_levels ob = l1 ++ a :: b :: l2 -> (lv_level a <= lv_level b)%Z -> (lv_count b <= lv_count a)%Z) /\
  (* 30: Nice(o') *)
  G E30 (lin_nice_A tolv no base eb mn mx (so_nst ob) (XFin ao) (XFin bo))
    (lin_nice_spec tolv base eb no mn mx (so_nst ob) (XFin ao) (XFin bo)) /\
  (* 35: the observed new ends do not shrink the (ordered) domain *)
  (ao <= fst (lin_order mn mx) /\ snd (lin_order mn mx) <= bo) /\
  (* 36: Ticks(o') after Nice, on the observed new domain *)
  G E36 (lin_ticks_A tolv no base eb ao bo (so_st3 ob) (so_major3 ob) None)
    (lin_ticks_spec tolv base eb no ao bo (so_st3 ob) (so_major3 ob) None) /\
  (* 37: Nice(o') once more, on the observed new domain *)
  G E37 (lin_nice_A tolv no base eb ao bo (so_nst2 ob) (so_nmin2 ob) (so_nmax2 ob))
    (lin_nice_spec tolv base eb no ao bo (so_nst2 ob) (so_nmin2 ob) (so_nmax2 ob)) /\
  (* 40: idempotent for Max >= 3 *)
  Lw bl ((3 <= o_max no)%Z -> so_nst2 ob = 0%Z /\ exists a2 b2, so_nmin2 ob = XFin a2 /\ so_nmax2 ob = XFin b2 /\
           Qabs (a2 - ao) <= tolv ao /\ Qabs (b2 - bo) <= tolv bo) /\
  (* 41: first and last major tick after Nice are the new ends (Max >= 3, Nice found a level whose two candidate ends are finite float64) *)
  Lw bl ((3 <= o_max no)%Z -> rep -> exists f rest t0 tl, so_major3 ob = f :: rest /\ f = XFin t0 /\ last (so_major3 ob) f = XFin tl /\
           Qabs (t0 - ao) <= tolv ao /\ Qabs (tl - bo) <= tolv bo) /\
  (* 43: Map(new Min) = 0, Map(new Max) = 1 *)
  (~ ao == bo -> exists p q, so_map0 ob = XFin p /\ so_map1 ob = XFin q /\ Qabs p <= e12 /\ Qabs (q - 1) <= e12) /\
  (* 45: each end moved by at most one observed major tick spacing (Max >= 3, Nice found a level whose two candidate ends are finite float64) *)
  Lw bl ((3 <= o_max no)%Z -> rep -> exists t0 t1 rest u1 u0 rest',
           so_major3 ob = XFin t0 :: XFin t1 :: rest /\ rev (so_major3 ob) = XFin u1 :: XFin u0 :: rest' /\
           fst (lin_start mn mx) - ao <= t1 - t0 + tolv ao /\ bo - snd (lin_start mn mx) <= u1 - u0 + tolv bo).

Definition linear_case_gen (G : bool -> bool -> Prop -> Prop) (Lw : bool -> Prop -> Prop) (c : sccase) : Prop :=
  match lin_ebase (sc_base c) with None => lin_badbase_ok c | Some eb => linear_some_gen G Lw c eb end.
(* verdict code 0 / verdict code 1 *)
Definition linear_case_ok (c : sccase) : Prop := linear_case_gen G_exact L_exact c.
Definition linear_case_borderline (c : sccase) : Prop := linear_case_gen G_border L_border c.

Lemma lin_groups_case (G : bool -> bool -> Prop -> Prop) (Lw : bool -> Prop -> Prop) cd c eb ao bo :
  (forall E A (P : Prop), gok cd E A -> (E = true -> P) -> G E A P) ->
  (forall H amb (P : Prop), lok cd H amb -> (H = true -> P) -> Lw amb P) ->
  lin_ebase (sc_base c) = Some eb -> lin_groups cd c eb ao bo -> linear_some_gen G Lw c eb.
Proof.
  intros HG HL He [t1 t2 t3 t4 t5 t6 t7 Fin K10 K20 K21 K30 K35 K36 K37 b1 b2 K40 K41 K43 K45]. subst t1 t2 t3 t4 t5 t6 t7 b1 b2.
  unfold linear_some_gen. cbv zeta. exists ao, bo. split; [exact (proj1 Fin)|]. split; [exact (proj2 Fin)|].
  apply andb_prop in K35. destruct K35 as [K35a K35b]. apply Qleb_true in K35a, K35b.
  repeat match goal with |- _ /\ _ => split end.
  - eapply HG; [exact K10|]. now apply lin_ticks_E_sound.
  - eapply HG; [exact K20|]. intros E Ho. apply Forall_forall. intros lv Hlv.
    apply (lin_level_exact_sound _ _ _ _ _ _ He Ho). exact (proj1 (forallb_forall _ _) E lv Hlv).
  - eapply HL; [exact K21|]. intro E. now apply counts_noninc_sound.
  - eapply HG; [exact K30|]. now apply lin_nice_E_sound.
  - exact K35a.
  - exact K35b.
  - eapply HG; [exact K36|]. now apply lin_ticks_E_sound.
  - eapply HG; [exact K37|]. now apply lin_nice_E_sound.
  - eapply HL; [exact K40|]. intros E Hm. now apply (law40_sound _ _ _ _ _ _ _ E).
  - eapply HL; [exact K41|]. intros E Hm Hf. apply (law41_sound _ _ _ _ _ _ E Hm). now apply lin_rep_of_spec.
  - intro Hn. now apply (law43_sound _ _ _ _ K43).
  - eapply HL; [exact K45|]. intros E Hm Hf. apply (lin_law45_sound _ _ _ _ _ _ _ _ E Hm). now apply lin_rep_of_spec.
Qed.

Theorem judge_linear_sound c cd t p d : judge_linear c = verdict cd t p d -> cd = 0%Z \/ cd = 1%Z ->
  (cd = 0%Z -> linear_case_ok c) /\ (cd = 1%Z -> linear_case_borderline c).
Proof.
  intros H Hc. unfold linear_case_ok, linear_case_borderline, linear_case_gen.
  destruct (lin_ebase (sc_base c)) as [eb|] eqn:He.
  - destruct (judge_linear_groups c cd t p d eb H Hc He) as (ao & bo & Gs). split; intros ->.
    + apply (lin_groups_case G_exact L_exact 0%Z c eb ao bo); [| |exact He|exact Gs].
      * intros E A P K HP. apply HP. now apply gok_code0 in K.
      * intros Hh amb P K HP. apply HP. now apply lok_code0 in K.
    + apply (lin_groups_case G_border L_border 1%Z c eb ao bo); [| |exact He|exact Gs].
      * intros E A P [K|(_ & K1 & K2)] HP; [left; auto | right; auto].
      * intros Hh amb P [K|(_ & K1 & K2)] HP; [left; auto | right; auto].
  - pose proof (judge_linear_badbase c cd t p d H Hc He). split; intros _; assumption.
Qed.

(* Proofs/CheckC17Log.v — (helper hI-c17p) comparator soundness of Check/C17.v, kind 2 (Log):
   what an accepted verdict of [judge_log] says about the observed values.
   Over Z/Q/lists; closed under the global context. *)
From Coq Require Import Qround Sorted Lqa.
From MM Require Import Base.Num Base.GBLemmas Model.Ticks Proofs.Ticks Proofs.TicksNice Proofs.TicksLog Proofs.TicksLogExp Proofs.TicksLogNice
  Check.C17 Proofs.TicksCheck Proofs.CheckBase Proofs.CheckC17Base.
Local Open Scope Q_scope.

(* ---------- the quantities judge_log forms, as functions of the domain and the options ---------- *)
Definition lg_tolv : Q -> Q := fun v : Q => e9 * Qabs v.
Definition lf_neg (mn mx : Q) : bool := fst (fst (log_fold mn mx)).
Definition lf_emin (mn mx : Q) : Q := snd (fst (log_fold mn mx)).
Definition lf_emax (mn mx : Q) : Q := snd (log_fold mn mx).
Definition log_e (base : Z) (mn mx : Q) : logexp := log_exps base (lf_emin mn mx) (lf_emax mn mx).
Definition log_rt (o : tickopts) (base : Z) (mn mx : Q) : flres :=
  if Qeqb mn mx then FL_fail else log_search o (log_e base mn mx) false.
Definition log_rn (o : tickopts) (base : Z) (mn mx : Q) : flres :=
  if Qeqb mn mx then FL_fail else log_search o (log_e base mn mx) true.
(* the admissible exponent choices: every way to take the undecided slack decisions *)
Definition log_adm (base : Z) (mn mx : Q) : list logexp :=
  if le_amb (log_e base mn mx) then log_exps_adm base (lf_emin mn mx) (lf_emax mn mx) else [log_e base mn mx].
Definition log_nice_xy (o : tickopts) (base : Z) (mn mx : Q) : Q * Q :=
  log_nice_from base mn mx (log_e base mn mx) (lf_neg mn mx) (lf_emin mn mx) (lf_emax mn mx) (log_rn o base mn mx).

Definition log_ticks_E (tolv : Q -> Q) (o : tickopts) (base : Z) (mn mx : Q) (st : Z) (major : list xreal) (minor : option (list xreal)) : bool :=
  ticks_exact (log_ticks_from base mn mx o (log_e base mn mx) (lf_neg mn mx) (lf_emin mn mx) (lf_emax mn mx) (log_rt o base mn mx)) st tolv major minor.
Definition log_ticks_A (tolv : Q -> Q) (o : tickopts) (base : Z) (mn mx : Q) (st : Z) (major : list xreal) (minor : option (list xreal)) : bool :=
  negb (Qeqb mn mx) && (1 <=? o_max o)%Z && (st =? 0)%Z &&
  existsb (log_ticks_adm1 o base (lf_neg mn mx) (lf_emin mn mx) (lf_emax mn mx) tolv major minor) (log_adm base mn mx).
Definition log_nice_E (tolv : Q -> Q) (o : tickopts) (base : Z) (mn mx : Q) (st : Z) (a b : xreal) : bool :=
  (st =? 0)%Z && xwithin (tolv (fst (log_nice_xy o base mn mx))) (XFin (fst (log_nice_xy o base mn mx))) a
              && xwithin (tolv (snd (log_nice_xy o base mn mx))) (XFin (snd (log_nice_xy o base mn mx))) b.
Definition log_nice_A (tolv : Q -> Q) (o : tickopts) (base : Z) (mn mx : Q) (st : Z) (a b : xreal) : bool :=
  negb (Qeqb mn mx) && (st =? 0)%Z &&
  match a, b with
  | XFin a2, XFin b2 =>
      existsb (fun e' => let '(x', y') := log_nice_from base mn mx e' (lf_neg mn mx) (lf_emin mn mx) (lf_emax mn mx) (log_search o e' true) in
                         within (tolv x') x' a2 && within (tolv y') y' b2) (log_adm base mn mx)
  | _, _ => false
  end.
Definition log_levels_E (tolv : Q -> Q) (base : Z) (mn mx : Q) (levels : list levobs) : bool :=
  forallb (log_level_exact base (log_e base mn mx) (lf_neg mn mx) (lf_emin mn mx) (lf_emax mn mx) tolv) levels.
Definition log_levels_A (tolv : Q -> Q) (base : Z) (mn mx : Q) (levels : list levobs) : bool :=
  negb (Qeqb mn mx) &&
  forallb (fun lv => log_level_exact base (log_e base mn mx) (lf_neg mn mx) (lf_emin mn mx) (lf_emax mn mx) tolv lv ||
                     existsb (log_level_adm1 base (lf_neg mn mx) (lf_emin mn mx) (lf_emax mn mx) tolv lv) (log_adm base mn mx)) levels.
Definition log_l45 (nomax : Z) (rep : bool) (mn mx ao bo : Q) (major3 : list xreal) : bool :=
  (nomax <? 3)%Z || negb rep || log_law45 (lf_neg mn mx) (lf_emin mn mx) (lf_emax mn mx) (lf_emin ao bo) (lf_emax ao bo) major3.

(* ---------- what an accepted verdict says, group by group ---------- *)
Record log_groups (cd : Z) (c : sccase) (ao bo : Q) : Prop := mkLogG {
  gg_o := sc_o c; gg_no := so_no (sc_ob c);
  gg_base := sc_base c; gg_mn := sc_mn c; gg_mx := sc_mx c; gg_ob := sc_ob c;
  gg_fin : so_nmin gg_ob = XFin ao /\ so_nmax gg_ob = XFin bo;
  gg_dom : Qleb ao bo && Qltb 0 (ao * bo) = true;
  gg_10 : gok cd (log_ticks_E lg_tolv gg_o gg_base gg_mn gg_mx (so_st gg_ob) (so_major gg_ob) (Some (so_minor gg_ob)))
                 (log_ticks_A lg_tolv gg_o gg_base gg_mn gg_mx (so_st gg_ob) (so_major gg_ob) (Some (so_minor gg_ob)));
  gg_20 : gok cd (log_levels_E lg_tolv gg_base gg_mn gg_mx (so_levels gg_ob)) (log_levels_A lg_tolv gg_base gg_mn gg_mx (so_levels gg_ob));
  gg_21 : lok cd (counts_noninc (so_levels gg_ob)) (negb (log_levels_E lg_tolv gg_base gg_mn gg_mx (so_levels gg_ob)));
  gg_30 : gok cd (log_nice_E lg_tolv gg_no gg_base gg_mn gg_mx (so_nst gg_ob) (XFin ao) (XFin bo))
                 (log_nice_A lg_tolv gg_no gg_base gg_mn gg_mx (so_nst gg_ob) (XFin ao) (XFin bo));
  gg_35 : Qleb ao gg_mn && Qleb gg_mx bo = true;
  gg_36 : gok cd (log_ticks_E lg_tolv gg_no gg_base ao bo (so_st3 gg_ob) (so_major3 gg_ob) None)
                 (log_ticks_A lg_tolv gg_no gg_base ao bo (so_st3 gg_ob) (so_major3 gg_ob) None);
  gg_37 : gok cd (log_nice_E lg_tolv gg_no gg_base ao bo (so_nst2 gg_ob) (so_nmin2 gg_ob) (so_nmax2 gg_ob))
                 (log_nice_A lg_tolv gg_no gg_base ao bo (so_nst2 gg_ob) (so_nmin2 gg_ob) (so_nmax2 gg_ob));
  gg_bl := negb (log_nice_E lg_tolv gg_no gg_base gg_mn gg_mx (so_nst gg_ob) (XFin ao) (XFin bo))
           || negb (log_ticks_E lg_tolv gg_no gg_base ao bo (so_st3 gg_ob) (so_major3 gg_ob) None)
           || negb (log_nice_E lg_tolv gg_no gg_base ao bo (so_nst2 gg_ob) (so_nmin2 gg_ob) (so_nmax2 gg_ob));
  gg_rep := log_nice_rep_b gg_base (log_e gg_base gg_mn gg_mx) (log_rn gg_no gg_base gg_mn gg_mx);
  gg_40 : lok cd (law40 lg_tolv (o_max gg_no) ao bo (so_nst2 gg_ob) (so_nmin2 gg_ob) (so_nmax2 gg_ob)) gg_bl;
  gg_41 : lok cd (law41 lg_tolv (o_max gg_no) gg_rep ao bo (so_major3 gg_ob)) gg_bl;
  gg_43 : law43 ao bo (so_map0 gg_ob) (so_map1 gg_ob) = true;
  gg_45 : lok cd (log_l45 (o_max gg_no) gg_rep gg_mn gg_mx ao bo (so_major3 gg_ob)) gg_bl }.

Ltac split_groups H :=
  repeat match type of H with Forall _ (_ :: _) => apply Forall_cons_inv in H; let K := fresh "K" in destruct H as [K H] end.

Lemma judge_log_groups c cd t p d : judge_log c = verdict cd t p d -> cd = 0%Z \/ cd = 1%Z ->
  exists ao bo, log_groups cd c ao bo.
Proof.
  intros H Hc. unfold judge_log in H. cbv zeta in H.
  destruct (log_fold (sc_mn c) (sc_mx c)) as [[neg emin] emax] eqn:Ef.
  match type of H with context [log_first_last ?a1 true 0%Z] => destruct (log_first_last a1 true 0%Z) as [f0 l0] end.
  match type of H with context [log_nice_from ?a1 ?a2 ?a3 ?a4 ?a5 ?a6 ?a7 ?a8] => destruct (log_nice_from a1 a2 a3 a4 a5 a6 a7 a8) as [x y] eqn:Exy end.
  destruct (so_nmin (sc_ob c)) as [| |ao] eqn:Ea;
    try (apply conclude_groups in H; [|exact Hc]; apply Forall_cons_inv in H; cbn in H; lia).
  destruct (so_nmax (sc_ob c)) as [| |bo] eqn:Eb;
    try (apply conclude_groups in H; [|exact Hc]; apply Forall_cons_inv in H; cbn in H; lia).
  destruct (Qleb ao bo && Qltb 0 (ao * bo)) eqn:Ed; cbn [negb] in H;
    [| apply conclude_groups in H; [|exact Hc]; split_groups H; cbn in K4; lia].
  destruct (log_fold ao bo) as [[neg3 emin3] emax3] eqn:Ef3.
  match type of H with context [log_nice_from ?a1 ao ?a3 ?a4 ?a5 ?a6 ?a7 ?a8] => destruct (log_nice_from a1 ao a3 a4 a5 a6 a7 a8) as [x3 y3] eqn:Exy3 end.
  apply conclude_groups in H; [|exact Hc]. split_groups H. clear H.
  exists ao, bo. cbn [fst] in *. rewrite ?grp_ge1 in *.
  constructor; cbv zeta;
    unfold log_l45, log_ticks_E, log_ticks_A, log_nice_E, log_nice_A, log_levels_E, log_levels_A, log_nice_xy, log_rt, log_rn, log_adm, log_e,
           lf_neg, lf_emin, lf_emax, law40, law41, law43;
    rewrite ?Ef, ?Ef3; cbn [fst snd]; rewrite ?Exy, ?Exy3; cbn [fst snd].
  - auto.
  - exact Ed.
  - apply grp_gok; [exact K | exact Hc].
  - apply grp_gok; [exact K0 | exact Hc].
  - apply law_lok; [exact K1 | exact Hc].
  - apply grp_gok; [exact K2 | exact Hc].
  - now apply law_false_ok in K3.
  - apply grp_gok; [exact K4 | exact Hc].
  - apply grp_gok; [exact K5 | exact Hc].
  - apply law_lok; [exact K6 | exact Hc].
  - apply law_lok; [exact K7 | exact Hc].
  - now apply law_false_ok in K8.
  - apply law_lok; [exact K9 | exact Hc].
Qed.

(* ================= readings ================= *)
Local Open Scope Z_scope.
Lemma log_fold_proj mn mx : log_fold mn mx = (lf_neg mn mx, lf_emin mn mx, lf_emax mn mx).
Proof. unfold lf_neg, lf_emin, lf_emax. destruct (log_fold mn mx) as [[n a] b]. reflexivity. Qed.

(* the tick list L and the count n of level l for the admitted exponents e: for l >= 0 the ascending
   list of the powers Base^(k 2^l) whose exponent is admitted (negated and reversed on a negative
   domain) and its length; below level 0 the count is maxInt (the list: the model's minor ticks) *)
Definition log_level_ok (b : Z) (e : logexp) (neg : bool) (emin emax : Q) (l : Z) (L : list Q) (n : Z) : Prop :=
  if l <? 0 then n = MAXINT /\ L = log_ticks_at' b e neg emin emax false l
  else exists P, StronglySorted Qlt P /\
         (forall v, In v P <-> exists k, v = qpow b (k * 2 ^ l) /\ le_in_lo e <= k * 2 ^ l <= le_in_hi e) /\
         L = (if neg then neg_rev P else P) /\ n = Z.of_nat (length P).
Lemma log_level_ok_at b e neg emin emax l : 2 <= b -> le_in_lo e <= le_in_hi e + 1 ->
  log_level_ok b e neg emin emax l (log_ticks_at' b e neg emin emax false l) (log_count e false l).
Proof.
  intros Hb He. unfold log_level_ok. destruct (l <? 0) eqn:S.
  - split; [|reflexivity]. unfold log_count. now rewrite S.
  - apply Z.ltb_ge in S. exists (log_ticks_pos b e emin emax false l). split; [now apply log_ticks_pos_ascending|].
    split; [intro v; now apply log_ticks_pos_spec|]. split; [reflexivity|]. now apply log_count_is_length.
Qed.
Lemma log_level_ok_count b e neg emin emax l L n : 2 <= b -> le_in_lo e <= le_in_hi e + 1 ->
  log_level_ok b e neg emin emax l L n -> n = log_count e false l.
Proof.
  intros Hb He H. pose proof (log_level_ok_at b e neg emin emax l Hb He) as H'. unfold log_level_ok in *.
  destruct (l <? 0); [destruct H as [-> _]; destruct H' as [<- _]; reflexivity|].
  destruct H as (P & S & I & _ & ->). destruct H' as (P' & S' & I' & _ & ->). f_equal.
  apply sorted_same_length; [exact S | exact S' |]. intro v. rewrite I, I'. reflexivity.
Qed.

Lemma log_ticks_nonpos b mn mx o : o_max o <= 0 -> log_ticks b mn mx o = TR_none.
Proof. intro H. unfold log_ticks, log_ticks_gen. apply Z.leb_le in H. now rewrite H. Qed.
Lemma log_ticks_degenerate b mn mx o : 1 <= o_max o -> (mn == mx)%Q -> log_ticks b mn mx o = TR_ticks [mn] [mx].
Proof.
  intros H E. unfold log_ticks, log_ticks_gen. replace (o_max o <=? 0) with false by (symmetry; apply Z.leb_gt; lia).
  apply Qeqb_true in E. now rewrite E.
Qed.
Lemma log_ticks_proper b mn mx o : 1 <= o_max o -> ~ (mn == mx)%Q ->
  log_ticks b mn mx o =
  match find_level o (log_count (log_e b mn mx) false) 0 with
  | FL_ok l => TR_ticks (log_ticks_at' b (log_e b mn mx) (lf_neg mn mx) (lf_emin mn mx) (lf_emax mn mx) false l)
                        (log_ticks_at' b (log_e b mn mx) (lf_neg mn mx) (lf_emin mn mx) (lf_emax mn mx) false (l - 1))
  | _ => TR_none
  end.
Proof.
  intros H Hn. unfold log_ticks, log_ticks_gen. replace (o_max o <=? 0) with false by (symmetry; apply Z.leb_gt; lia).
  assert (E1 : Qeqb mn mx = false) by (destruct (Qeqb mn mx) eqn:E; [gb_bool; contradiction | reflexivity]).
  rewrite E1, (log_fold_proj mn mx). reflexivity.
Qed.

(* what Ticks(o) on the Log domain [mn, mx] must return, stated on the observed lists *)
Definition log_ticks_spec (tolv : Q -> Q) (b : Z) (o : tickopts) (mn mx : Q) (st : Z) (major : list xreal) (minor : option (list xreal)) : Prop :=
  st = 0 /\
  let none := major = [] /\ (forall m, minor = Some m -> m = []) in
  (o_max o <= 0 -> none) /\
  (1 <= o_max o -> (mn == mx)%Q -> obs_close tolv [mn] major /\ forall m, minor = Some m -> obs_close tolv [mx] m) /\
  (1 <= o_max o -> ~ (mn == mx)%Q ->
     let e := log_e b mn mx in let neg := lf_neg mn mx in let emin := lf_emin mn mx in let emax := lf_emax mn mx in
     (level_bounds o = None -> none) /\
     forall lo hi, level_bounds o = Some (lo, hi) -> 2 <= b -> le_in_lo e <= le_in_hi e + 1 -> log_count e false 0 <= MAXINT ->
       (exists l L n, lo <= l <= hi /\ log_level_ok b e neg emin emax l L n /\ n <= o_max o /\ obs_close tolv L major /\
           (forall l' L' n', lo <= l' < l -> log_level_ok b e neg emin emax l' L' n' -> o_max o < n') /\
           (forall m, minor = Some m -> exists Lm nm, log_level_ok b e neg emin emax (l - 1) Lm nm /\ obs_close tolv Lm m))
       \/ (none /\ forall l L n, lo <= l <= hi -> log_level_ok b e neg emin emax l L n -> o_max o < n)).

Lemma log_ticks_obs_spec tolv b o mn mx st major minor :
  ticks_obs tolv (log_ticks b mn mx o) st major minor -> log_ticks_spec tolv b o mn mx st major minor.
Proof.
  intro H. unfold log_ticks_spec. cbv zeta.
  assert (NP : log_ticks b mn mx o <> TR_panic).
  { unfold log_ticks, log_ticks_gen. destruct (o_max o <=? 0); [discriminate|]. destruct (Qeqb mn mx); [discriminate|].
    destruct (log_fold mn mx) as [[n a] c]. destruct (find_level o _ 0); discriminate. }
  assert (St : st = 0) by (destruct (log_ticks b mn mx o); [contradiction | exact (proj1 H) | exact (proj1 H)]).
  split; [exact St|]. split; [|split].
  - intro Hm. rewrite (log_ticks_nonpos b mn mx o Hm) in H. exact (proj2 H).
  - intros Hm E. rewrite (log_ticks_degenerate b mn mx o Hm E) in H. exact (proj2 H).
  - intros Hm Hn. rewrite (log_ticks_proper b mn mx o Hm Hn) in H.
    set (e := log_e b mn mx) in *. set (neg := lf_neg mn mx) in *. set (emin := lf_emin mn mx) in *. set (emax := lf_emax mn mx) in *.
    split.
    + intro Hb. unfold find_level in H. rewrite Hb in H. exact (proj2 H).
    + intros lo hi Hb Hb2 He H0.
      pose proof (log_count_nonincreasing e He lo hi H0) as Mono.
      destruct (find_level o (log_count e false) 0) as [l| |] eqn:F.
      * left. destruct (find_level_lowest o _ 0 lo hi l Hb Mono F) as (B & Fit & Low). destruct H as (_ & Hma & Hmi).
        exists l, (log_ticks_at' b e neg emin emax false l), (log_count e false l).
        split; [exact B|]. split; [now apply log_level_ok_at|]. split; [exact Fit|]. split; [exact Hma|]. split.
        -- intros l' L' n' Hl' HL'. rewrite (log_level_ok_count b e neg emin emax l' L' n' Hb2 He HL'). now apply Low.
        -- intros m Em. exists (log_ticks_at' b e neg emin emax false (l - 1)), (log_count e false (l - 1)).
           split; [now apply log_level_ok_at | now apply Hmi].
      * right. split; [exact (proj2 H)|].
        assert (Mono' : forall lo0 hi0, level_bounds o = Some (lo0, hi0) -> nonincreasing (log_count e false) lo0 hi0).
        { intros lo0 hi0 Hb0. rewrite Hb in Hb0. injection Hb0 as <- <-. exact Mono. }
        destruct (proj1 (find_level_fails_iff o _ 0 Mono') F) as [A|[A|(lo' & hi' & A & N)]]; [lia | congruence |].
        rewrite Hb in A. injection A as <- <-. intros l L n Hl HL.
        rewrite (log_level_ok_count b e neg emin emax l L n Hb2 He HL). now apply N.
      * exfalso. exact (find_level_no_fuel o _ 0 F).
Qed.

Theorem log_ticks_E_sound tolv o b mn mx st major minor :
  log_ticks_E tolv o b mn mx st major minor = true -> log_ticks_spec tolv b o mn mx st major minor.
Proof.
  intro H. unfold log_ticks_E, log_rt, log_e in H.
  rewrite (log_ticks_from_eq b mn mx o _ _ _ (log_fold_proj mn mx)) in H. apply ticks_exact_sound in H.
  now apply log_ticks_obs_spec.
Qed.

(* CountTicks(l) / TicksAtLevel(l) *)
Definition log_level_spec (tolv : Q -> Q) (b : Z) (mn mx : Q) (lv : levobs) : Prop :=
  let e := log_e b mn mx in
  lv_st lv = 0 /\ (0 <= lv_level lv -> le_in_lo e <= le_in_hi e + 1 -> lv_count lv = Z.of_nat (length (lv_ticks lv))) /\
  (2 <= b -> le_in_lo e <= le_in_hi e + 1 ->
   exists L n, log_level_ok b e (lf_neg mn mx) (lf_emin mn mx) (lf_emax mn mx) (lv_level lv) L n /\ lv_count lv = n /\ obs_close tolv L (lv_ticks lv)).
Lemma log_level_exact_sound tolv b mn mx lv :
  log_level_exact b (log_e b mn mx) (lf_neg mn mx) (lf_emin mn mx) (lf_emax mn mx) tolv lv = true -> log_level_spec tolv b mn mx lv.
Proof.
  intro H. unfold log_level_exact in H. apply andb_prop in H. destruct H as [H H3]. apply andb_prop in H. destruct H as [H1 H2].
  apply Z.eqb_eq in H1, H2. apply close_list_sound in H3. unfold log_level_spec. cbv zeta. split; [exact H1|]. split.
  - intros Hl He. rewrite H2, (log_count_is_length b _ (lf_emin mn mx) (lf_emax mn mx) He _ Hl). f_equal.
    rewrite (obs_close_length _ _ _ H3). unfold log_ticks_at'. destruct (lf_neg mn mx); [now rewrite neg_rev_length | reflexivity].
  - intros Hb He. exists (log_ticks_at' b (log_e b mn mx) (lf_neg mn mx) (lf_emin mn mx) (lf_emax mn mx) false (lv_level lv)), (log_count (log_e b mn mx) false (lv_level lv)).
    split; [now apply log_level_ok_at|]. auto.
Qed.

(* ---------- Nice ---------- *)
Lemma log_search_eq o e ro : log_search o e ro = find_level o (log_count e ro) 0.
Proof. unfold log_search. apply find_level_ext. intro l. apply log_count_capped_eq. Qed.
Lemma log_nice_degenerate b mn mx o : (mn == mx)%Q -> log_nice b mn mx o = (mn, mx).
Proof. intro E. unfold log_nice, log_nice_gen. apply Qeqb_true in E. now rewrite E. Qed.
Lemma log_nice_fail b mn mx o : find_level o (log_count (log_e b mn mx) true) 0 = FL_fail -> log_nice b mn mx o = (mn, mx).
Proof.
  intro F. unfold log_nice, log_nice_gen. destruct (Qeqb mn mx); [reflexivity|]. rewrite (log_fold_proj mn mx).
  fold (log_e b mn mx). now rewrite F.
Qed.

(* Nice(o) on the Log domain [mn, mx]: the observed new ends are finite and within tolerance of values
   x, y that never shrink the domain, are the old ends when the domain is degenerate or no level of the
   window fits, and on a positive domain are each the old end or a power of the base that is a positive
   finite float64 *)
Definition log_nice_spec (tolv : Q -> Q) (b : Z) (o : tickopts) (mn mx : Q) (st : Z) (a c : xreal) : Prop :=
  st = 0 /\ exists ao bo x y, a = XFin ao /\ c = XFin bo /\ (Qabs (ao - x) <= tolv x)%Q /\ (Qabs (bo - y) <= tolv y)%Q /\
  let e := log_e b mn mx in
  ((mn <= mx)%Q -> (x <= mn)%Q /\ (mx <= y)%Q) /\
  ((mn == mx)%Q -> x = mn /\ y = mx) /\
  ((forall lo hi, level_bounds o = Some (lo, hi) -> nonincreasing (log_count e true) lo hi) ->
   (o_max o < 1 \/ level_bounds o = None \/
    exists lo hi, level_bounds o = Some (lo, hi) /\ forall l, lo <= l <= hi -> o_max o < log_count e true l) -> x = mn /\ y = mx) /\
  ((0 < mn)%Q -> (mn < mx)%Q ->
     (x = mn \/ exists n, x = qpow b n /\ f64_pos_ok x = true) /\ (y = mx \/ exists n, y = qpow b n /\ f64_pos_ok y = true)).

Theorem log_nice_E_sound tolv o b mn mx st a c :
  log_nice_E tolv o b mn mx st a c = true -> log_nice_spec tolv b o mn mx st a c.
Proof.
  intro H. unfold log_nice_E in H. destruct (log_nice_xy o b mn mx) as [x y] eqn:Exy. cbn [fst snd] in H.
  apply andb_prop in H. destruct H as [H H3]. apply andb_prop in H. destruct H as [H1 H2]. apply Z.eqb_eq in H1.
  apply xwithin_fin in H2, H3. destruct H2 as (ao & -> & Ha). destruct H3 as (bo & -> & Hb).
  split; [exact H1|]. exists ao, bo, x, y. split; [reflexivity|]. split; [reflexivity|]. split; [exact Ha|]. split; [exact Hb|].
  unfold log_nice_xy, log_rn, log_e in Exy. rewrite (log_nice_from_eq b mn mx o _ _ _ (log_fold_proj mn mx)) in Exy.
  cbv zeta. split; [|split; [|split]].
  - intro Ho. exact (log_nice_expands b mn mx o x y Ho Exy).
  - intro E. rewrite (log_nice_degenerate b mn mx o E) in Exy. injection Exy as <- <-. auto.
  - intros Mono No. rewrite (log_nice_fail b mn mx o (proj2 (find_level_fails_iff o _ 0 Mono) No)) in Exy. injection Exy as <- <-. auto.
  - intros Hp Hlt. exact (log_nice_ends_are_powers b mn mx o x y Hp Hlt Exy).
Qed.

(* Nice finds level l - THE lowest level of the window whose rounded-out count (non-increasing on the
   window) is at most Max - and both candidate ends Base^(f 2^l), Base^(la 2^l) of that level may be
   moved to (positive finite float64; at a level whose effective base overflows only exponent 0) *)
Definition log_nice_rep_spec (b : Z) (o : tickopts) (mn mx : Q) : Prop :=
  ~ (mn == mx)%Q /\ exists lo hi l, level_bounds o = Some (lo, hi) /\ 1 <= o_max o /\
    let e := log_e b mn mx in
    nonincreasing (log_count e true) lo hi /\ lo <= l <= hi /\ log_count e true l <= o_max o /\
    (forall l', lo <= l' < l -> o_max o < log_count e true l') /\
    let f := le_out_lo e / 2 ^ l in let la := cdiv (le_out_hi e) (2 ^ l) in
    log_end_ok b (2 ^ l) f (qpow b (f * 2 ^ l)) = true /\ log_end_ok b (2 ^ l) la (qpow b (la * 2 ^ l)) = true.
Lemma log_rep_of_spec b o mn mx : log_nice_rep_spec b o mn mx ->
  log_nice_rep_b b (log_e b mn mx) (log_rn o b mn mx) = true.
Proof.
  intros (Hn & lo & hi & l & Hb & Hm & Mono & Hl & Fit & Low & E1 & E2). unfold log_rn.
  assert (E0 : Qeqb mn mx = false) by (destruct (Qeqb mn mx) eqn:E; [gb_bool; contradiction | reflexivity]).
  rewrite E0, log_search_eq.
  rewrite (TicksNice.find_level_is_lowest o _ 0 lo hi l Hb Mono Hm Hl Fit Low).
  unfold log_nice_rep_b, log_first_last. now rewrite E1, E2.
Qed.

(* 45 on a Log scale: the new ends lie within one ratio of neighbouring major ticks of the old ones *)
Lemma xs_fin_some : forall l t, xs_fin l = Some t -> l = map XFin t.
Proof.
  induction l as [|x l IH]; intros t H.
  - cbn in H. injection H as <-. reflexivity.
  - unfold xs_fin in H. cbn [fold_right] in H. fold (xs_fin l) in H. destruct x as [| |q]; try discriminate.
    destruct (xs_fin l) as [t'|]; [|discriminate]. injection H as <-. cbn. f_equal. now apply IH.
Qed.
Local Open Scope Q_scope.
Definition log_law45_spec (neg : bool) (emin emax emin3 emax3 : Q) (major3 : list xreal) : Prop :=
  exists t, major3 = map XFin t /\
  let t' := if neg then rev (map Qopp t) else t in
  exists t0 t1 r u1 u0 r', t' = t0 :: t1 :: r /\ rev t' = u1 :: u0 :: r' /\
    emin * t0 <= emin3 * t1 * (1 + e9) /\ emax3 * u0 <= emax * u1 * (1 + e9).
Lemma log_law45_sound neg emin emax emin3 emax3 major3 :
  log_law45 neg emin emax emin3 emax3 major3 = true -> log_law45_spec neg emin emax emin3 emax3 major3.
Proof.
  unfold log_law45, log_law45_spec. destruct (xs_fin major3) as [t|] eqn:E; [|discriminate]. intro H.
  exists t. split; [now apply xs_fin_some|]. cbv zeta.
  destruct (if neg then rev (map Qopp t) else t) as [|t0 [|t1 r]]; try discriminate.
  destruct (rev (t0 :: t1 :: r)) as [|u1 [|u0 r']]; try discriminate.
  apply andb_prop in H. destruct H as [H1 H2]. apply Qleb_true in H1, H2. exists t0, t1, r, u1, u0, r'. auto.
Qed.
Lemma log_l45_sound nomax rep mn mx ao bo major3 : log_l45 nomax rep mn mx ao bo major3 = true ->
  (3 <= nomax)%Z -> rep = true -> log_law45_spec (lf_neg mn mx) (lf_emin mn mx) (lf_emax mn mx) (lf_emin ao bo) (lf_emax ao bo) major3.
Proof.
  unfold log_l45. intros H Hm ->. apply Bool.orb_true_iff in H. destruct H as [H|H]; [|now apply log_law45_sound].
  apply Bool.orb_true_iff in H. destruct H as [H|H]; [apply Z.ltb_lt in H; lia | discriminate].
Qed.

(* ================= the case predicate ================= *)
Definition log_case_gen (G : bool -> bool -> Prop -> Prop) (Lw : bool -> Prop -> Prop) (c : sccase) : Prop :=
  let ob := sc_ob c in let base := sc_base c in let mn := sc_mn c in let mx := sc_mx c in
  let o := sc_o c in let no := so_no ob in let tolv := lg_tolv in
  exists ao bo, so_nmin ob = XFin ao /\ so_nmax ob = XFin bo /\
  (* the observed new domain is a Log domain again *)
  (ao <= bo /\ 0 < ao * bo) /\
  let E20 := log_levels_E tolv base mn mx (so_levels ob) in
  let E30 := log_nice_E tolv no base mn mx (so_nst ob) (XFin ao) (XFin bo) in
  let E36 := log_ticks_E tolv no base ao bo (so_st3 ob) (so_major3 ob) None in
  let E37 := log_nice_E tolv no base ao bo (so_nst2 ob) (so_nmin2 ob) (so_nmax2 ob) in
  let bl := negb E30 || negb E36 || negb E37 in
  (* 10: Ticks(o) *)
  G (log_ticks_E tolv o base mn mx (so_st ob) (so_major ob) (Some (so_minor ob)))
    (log_ticks_A tolv o base mn mx (so_st ob) (so_major ob) (Some (so_minor ob)))
    (log_ticks_spec tolv base o mn mx (so_st ob) (so_major ob) (Some (so_minor ob))) /\
  (* 20: CountTicks(l), TicksAtLevel(l) for every recorded level *)
  G E20 (log_levels_A tolv base mn mx (so_levels ob)) (Forall (log_level_spec tolv base mn mx) (so_levels ob)) /\
  (* 21 *)
  Lw (negb E20) (forall l1 a b l2, so_levels ob = l1 ++ a :: b :: l2 -> (lv_level a <= lv_level b)%Z -> (lv_count b <= lv_count a)%Z) /\
  (* 30: Nice(o') *)
  G E30 (log_nice_A tolv no base mn mx (so_nst ob) (XFin ao) (XFin bo)) (log_nice_spec tolv base no mn mx (so_nst ob) (XFin ao) (XFin bo)) /\
  (* 35 *)
  (ao <= mn /\ mx <= bo) /\
  (* 36, 37: Ticks(o') and Nice(o') on the observed new domain *)
  G E36 (log_ticks_A tolv no base ao bo (so_st3 ob) (so_major3 ob) None) (log_ticks_spec tolv base no ao bo (so_st3 ob) (so_major3 ob) None) /\
  G E37 (log_nice_A tolv no base ao bo (so_nst2 ob) (so_nmin2 ob) (so_nmax2 ob))
        (log_nice_spec tolv base no ao bo (so_nst2 ob) (so_nmin2 ob) (so_nmax2 ob)) /\
  (* 40 *)
  Lw bl ((3 <= o_max no)%Z -> so_nst2 ob = 0%Z /\ exists a2 b2, so_nmin2 ob = XFin a2 /\ so_nmax2 ob = XFin b2 /\
           Qabs (a2 - ao) <= tolv ao /\ Qabs (b2 - bo) <= tolv bo) /\
  (* 41 *)
  Lw bl ((3 <= o_max no)%Z -> log_nice_rep_spec base no mn mx -> exists f rest t0 tl, so_major3 ob = f :: rest /\ f = XFin t0 /\
           last (so_major3 ob) f = XFin tl /\ Qabs (t0 - ao) <= tolv ao /\ Qabs (tl - bo) <= tolv bo) /\
  (* 43 *)
  (~ ao == bo -> exists p q, so_map0 ob = XFin p /\ so_map1 ob = XFin q /\ Qabs p <= e12 /\ Qabs (q - 1) <= e12) /\
  (* 45 *)
  Lw bl ((3 <= o_max no)%Z -> log_nice_rep_spec base no mn mx ->
         log_law45_spec (lf_neg mn mx) (lf_emin mn mx) (lf_emax mn mx) (lf_emin ao bo) (lf_emax ao bo) (so_major3 ob)).

Definition log_case_ok (c : sccase) : Prop := log_case_gen G_exact L_exact c.
Definition log_case_borderline (c : sccase) : Prop := log_case_gen G_border L_border c.

Lemma log_groups_case (G : bool -> bool -> Prop -> Prop) (Lw : bool -> Prop -> Prop) cd c ao bo :
  (forall E A (P : Prop), gok cd E A -> (E = true -> P) -> G E A P) ->
  (forall H amb (P : Prop), lok cd H amb -> (H = true -> P) -> Lw amb P) ->
  log_groups cd c ao bo -> log_case_gen G Lw c.
Proof.
  intros HG HL [t1 t2 t3 t4 t5 t6 Fin Dom K10 K20 K21 K30 K35 K36 K37 b1 b2 K40 K41 K43 K45]. subst t1 t2 t3 t4 t5 t6 b1 b2.
  unfold log_case_gen. cbv zeta. exists ao, bo. split; [exact (proj1 Fin)|]. split; [exact (proj2 Fin)|].
  apply andb_prop in K35. destruct K35 as [K35a K35b]. apply Qleb_true in K35a, K35b.
  apply andb_prop in Dom. destruct Dom as [D1 D2]. apply Qleb_true in D1. apply Qltb_true in D2.
  repeat match goal with |- _ /\ _ => split end.
  - exact D1.
  - exact D2.
  - eapply HG; [exact K10|]. now apply log_ticks_E_sound.
  - eapply HG; [exact K20|]. intros E. apply Forall_forall. intros lv Hlv.
    apply log_level_exact_sound. exact (proj1 (forallb_forall _ _) E lv Hlv).
  - eapply HL; [exact K21|]. intro E. now apply counts_noninc_sound.
  - eapply HG; [exact K30|]. now apply log_nice_E_sound.
  - exact K35a.
  - exact K35b.
  - eapply HG; [exact K36|]. now apply log_ticks_E_sound.
  - eapply HG; [exact K37|]. now apply log_nice_E_sound.
  - eapply HL; [exact K40|]. intros E Hm. now apply (law40_sound _ _ _ _ _ _ _ E).
  - eapply HL; [exact K41|]. intros E Hm Hf. apply (law41_sound _ _ _ _ _ _ E Hm). now apply log_rep_of_spec.
  - intro Hn. now apply (law43_sound _ _ _ _ K43).
  - eapply HL; [exact K45|]. intros E Hm Hf. apply (log_l45_sound _ _ _ _ _ _ _ E Hm). now apply log_rep_of_spec.
Qed.

Theorem judge_log_sound c cd t p d : judge_log c = verdict cd t p d -> cd = 0%Z \/ cd = 1%Z ->
  (cd = 0%Z -> log_case_ok c) /\ (cd = 1%Z -> log_case_borderline c).
Proof.
  intros H Hc. destruct (judge_log_groups c cd t p d H Hc) as (ao & bo & Gs). split; intros ->.
  - apply (log_groups_case G_exact L_exact 0%Z c ao bo); [| |exact Gs].
    + intros E A P K HP. apply HP. now apply gok_code0 in K.
    + intros Hh amb P K HP. apply HP. now apply lok_code0 in K.
  - apply (log_groups_case G_border L_border 1%Z c ao bo); [| |exact Gs].
    + intros E A P [K|(_ & K1 & K2)] HP; [left; auto | right; auto].
    + intros Hh amb P [K|(_ & K1 & K2)] HP; [left; auto | right; auto].
Qed.

(* ---------- the minor ticks (levels below 0) ---------- *)
(* TicksAtLevel(l < 0) on the folded positive domain: exactly the multiples j Base^k, j = 1 .. Base-1, k a
   rounded-out exponent, that lie inside [emin, emax] *)
Local Open Scope Z_scope.
Lemma minor_run_In cnt : forall i step emin emax v,
  In v (minor_run cnt i step emin emax) <->
  exists j, i <= j < i + Z.of_nat cnt /\ v = (inject_Z j * step)%Q /\ (emin <= v)%Q /\ (v <= emax)%Q.
Proof.
  induction cnt as [|n IH]; intros i step emin emax v; cbn [minor_run].
  - split; [intros [] | intros (j & H & _); lia].
  - rewrite in_app_iff, IH. split.
    + intros [H|(j & Hj & R)].
      * destruct (Qleb emin (inject_Z i * step) && Qleb (inject_Z i * step) emax) eqn:E; [|destruct H].
        destruct H as [<-|[]]. apply andb_prop in E. destruct E as [E1 E2]. apply Qleb_true in E1, E2.
        exists i. repeat split; try assumption; lia.
      * exists j. split; [lia | exact R].
    + intros (j & Hj & -> & R1 & R2). destruct (Z.eq_dec j i) as [->|Hn].
      * left. apply Qleb_true in R1, R2. rewrite R1, R2. now left.
      * right. exists j. repeat split; try assumption; lia.
Qed.
Lemma minor_seq_In n : forall b f emin emax v, 1 <= b ->
  (In v (minor_seq n b f emin emax) <->
   exists k j, f <= k < f + Z.of_nat n /\ 1 <= j <= b - 1 /\ v = (inject_Z j * qpow b k)%Q /\ (emin <= v)%Q /\ (v <= emax)%Q).
Proof.
  induction n as [|n IH]; intros b f emin emax v Hb; cbn [minor_seq].
  - split; [intros [] | intros (k & j & H & _); lia].
  - rewrite in_app_iff, minor_run_In, (IH b (f + 1) emin emax v Hb). split.
    + intros [(j & Hj & R)|(k & j & Hk & R)]; [exists f, j | exists k, j]; (split; [lia|]); [split; [lia | exact R] | exact R].
    + intros (k & j & Hk & Hj & R). destruct (Z.eq_dec k f) as [->|Hn].
      * left. exists j. split; [lia | exact R].
      * right. exists k, j. split; [lia|]. split; [exact Hj | exact R].
Qed.
Theorem log_minor_ticks_spec b e emin emax ro l v : 2 <= b -> l < 0 ->
  (In v (log_ticks_pos b e emin emax ro l) <->
   exists k j, le_out_lo e <= k <= le_out_hi e /\ 1 <= j <= b - 1 /\ v = (inject_Z j * qpow b k)%Q /\ (emin <= v)%Q /\ (v <= emax)%Q).
Proof.
  intros Hb Hl. unfold log_ticks_pos. replace (l <? 0) with true by (symmetry; now apply Z.ltb_lt).
  unfold log_first_last, cdiv. change (2 ^ 0) with 1. rewrite !Z.div_1_r.
  rewrite minor_seq_In by lia. split; intros (k & j & Hk & R); exists k, j; (split; [lia | exact R]).
Qed.

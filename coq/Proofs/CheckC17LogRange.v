(* Proofs/CheckC17LogRange.v — (group hM) C17: every Log case that the comparator parses has a domain whose folded
   ends are positive finite float64 values, hence (Proofs/TicksLogCountBound.v) its level-0 counts are at most
   2100 <= maxInt: the hypothesis `log_count e false 0 <= MAXINT` of the Log readings of C17_check_meaning_scales
   holds for EVERY parsed case.
     decode_fin_range : a finite non-zero value decoded from ANY integer bit pattern has a magnitude in
                        [2^-1074, 2^1024)  (Base/Num.v decode_bits);
     log_case_counts_bounded : p_sccase r = Some (c, r') with log_pre true  ->  the bounds.
   Closed under the global context. *)
From Coq Require Import Lqa Lia ZArith QArith Qpower Bool List.
From MM Require Import Base.Num Base.GBLemmas Proofs.NumSound Model.Ticks Proofs.Ticks Proofs.TicksLinear Proofs.TicksLog
  Proofs.TicksLogExp Proofs.TicksLogCountBound Check.C17 Proofs.CheckBase Proofs.CheckC17Log.
Import ListNotations.
Local Open Scope Z_scope.

Lemma f64_pos_ok_compat a b : (a == b)%Q -> f64_pos_ok a = f64_pos_ok b.
Proof.
  intro E. unfold f64_pos_ok.
  assert (H1 : Qleb (qpow 2 (-1074)) a = Qleb (qpow 2 (-1074)) b).
  { destruct (Qleb (qpow 2 (-1074)) a) eqn:A, (Qleb (qpow 2 (-1074)) b) eqn:B; gb_bool; try reflexivity; exfalso; lra. }
  assert (H2 : Qltb a (qpow 2 1024) = Qltb b (qpow 2 1024)).
  { destruct (Qltb a (qpow 2 1024)) eqn:A, (Qltb b (qpow 2 1024)) eqn:B; gb_bool; try reflexivity; exfalso; lra. }
  rewrite H1, H2. reflexivity.
Qed.

(* mant 2^ex for a float64 significand / exponent pair *)
Lemma mant_range mant ex : 1 <= mant < 2 ^ 53 -> -1074 <= ex <= 971 ->
  f64_pos_ok (dyadic mant ex) = true.
Proof.
  intros Hm He. rewrite (f64_pos_ok_compat _ (inject_Z mant * qpow 2 ex)).
  2:{ rewrite dyadic_spec, (qpow_Qpower 2 ex) by lia. reflexivity. }
  unfold f64_pos_ok. apply andb_true_intro. split; [apply gb_Qleb_true|apply gb_Qltb_true].
  - pose proof (qpow_le 2 (-1074) ex ltac:(lia) ltac:(lia)) as L. pose proof (qpow_pos 2 (-1074) ltac:(lia)) as P.
    assert (M : (1 <= inject_Z mant)%Q) by (change 1%Q with (inject_Z 1); rewrite <- Zle_Qle; lia).
    set (x := inject_Z mant) in *. set (p := qpow 2 ex) in *. set (q := qpow 2 (-1074)) in *. clearbody x p q. nra.
  - pose proof (qpow_le 2 ex 971 ltac:(lia) ltac:(lia)) as L. pose proof (qpow_pos 2 ex ltac:(lia)) as P.
    assert (M : (inject_Z mant < qpow 2 53)%Q).
    { rewrite (qpow_nonneg_eq 2 53) by lia. rewrite <- Zlt_Qlt. lia. }
    assert (M0 : (0 < inject_Z mant)%Q) by (change 0%Q with (inject_Z 0); rewrite <- Zlt_Qlt; lia).
    assert (E : (qpow 2 53 * qpow 2 971 == qpow 2 1024)%Q) by (vm_compute; reflexivity).
    set (x := inject_Z mant) in *. set (p := qpow 2 ex) in *. set (a := qpow 2 53) in *. set (c := qpow 2 971) in *.
    set (t := qpow 2 1024) in *. clearbody x p a c t. nra.
Qed.

Lemma land_ones_range a n : 0 <= n -> 0 <= Z.land a (Z.ones n) < 2 ^ n.
Proof. intro Hn. rewrite Z.land_ones by exact Hn. apply Z.mod_pos_bound. apply Z.pow_pos_nonneg; lia. Qed.

Lemma XFin_inj a b : XFin a = XFin b -> a = b.
Proof. intro H. inversion H. reflexivity. Qed.

Lemma decode_bits_form b q : decode_bits b = XFin q ->
  exists (s : bool) mant ex, 0 <= mant < 2 ^ 53 /\ -1074 <= ex <= 971 /\ q = dyadic (if s then - mant else mant) ex.
Proof.
  unfold decode_bits. generalize (Z.testbit b 63). intro s. cbv zeta.
  pose proof (land_ones_range (Z.shiftr b 52) 11 ltac:(lia)) as He. change (Z.ones 11) with 2047 in He. change (2 ^ 11) with 2048 in He.
  pose proof (land_ones_range b 52 ltac:(lia)) as Hm. change (Z.ones 52) with 4503599627370495 in Hm. change (2 ^ 52) with 4503599627370496 in Hm.
  generalize dependent (Z.land (Z.shiftr b 52) 2047). intros e He.
  generalize dependent (Z.land b 4503599627370495). intros m Hm.
  destruct (e =? 2047) eqn:E1; [destruct (m =? 0); discriminate|]. apply Z.eqb_neq in E1.
  intro H. exists s, (if e =? 0 then m else 4503599627370496 + m), (if e =? 0 then -1074 else e - 1075).
  split; [destruct (e =? 0); change (2 ^ 53) with 9007199254740992; lia|].
  split; [destruct (e =? 0) eqn:E0; [lia|apply Z.eqb_neq in E0; lia]|].
  symmetry. apply XFin_inj. exact H.
Qed.

Theorem decode_fin_range b q : decode_bits b = XFin q ->
  ((0 < q)%Q -> f64_pos_ok q = true) /\ ((q < 0)%Q -> f64_pos_ok (- q) = true).
Proof.
  intro H. apply decode_bits_form in H. destruct H as (s & mant & ex & Hmant & Hex & ->).
  destruct (Z.eq_dec mant 0) as [Z0|NZ].
  - subst mant. assert (Q0 : (dyadic 0 ex == 0)%Q) by (rewrite dyadic_spec; ring).
    assert (Q1 : (dyadic (- 0) ex == 0)%Q) by exact Q0.
    destruct s; split; intro K; exfalso; rewrite ?Q0, ?Q1 in K; revert K; apply Qlt_irrefl.
  - assert (Pos : f64_pos_ok (dyadic mant ex) = true) by (apply mant_range; lia).
    assert (DP : (0 < dyadic mant ex)%Q).
    { unfold f64_pos_ok in Pos. apply andb_prop in Pos. destruct Pos as [P1 _]. gb_bool.
      apply Qlt_le_trans with (qpow 2 (-1074)); [apply qpow_pos; lia|exact P1]. }
    destruct s; split; intro K.
    + exfalso. rewrite dyadic_opp in K. lra.
    + rewrite (f64_pos_ok_compat _ (dyadic mant ex)); [exact Pos|]. rewrite dyadic_opp. ring.
    + exact Pos.
    + exfalso. lra.
Qed.

Lemma pQ_decoded l q r : pQ l = Some (q, r) -> exists b, decode_bits b = XFin q.
Proof.
  destruct l as [|x l]; [discriminate|]. cbn. destruct (decode_bits x) as [| |q'] eqn:E; try discriminate.
  intro H. injection H as <- <-. exists x. exact E.
Qed.

(* the folded ends of a parsed Log case are positive finite float64 values *)
Theorem log_case_domain_f64 : forall r c r', p_sccase r = Some (c, r') ->
  log_pre (sc_base c) (sc_mn c) (sc_mx c) = true ->
  f64_pos_ok (lf_emin (sc_mn c) (sc_mx c)) = true /\ f64_pos_ok (lf_emax (sc_mn c) (sc_mx c)) = true.
Proof.
  intros r c r' H Hpre. unfold p_sccase in H.
  apply pbind_some in H. destruct H as (base & r1 & _ & H).
  apply pbind_some in H. destruct H as (mn & r2 & Emn & H).
  apply pbind_some in H. destruct H as (mx & r3 & Emx & H).
  apply pbind_some in H. destruct H as (omax & r4 & _ & H).
  apply pbind_some in H. destruct H as (minl & r5 & _ & H).
  apply pbind_some in H. destruct H as (maxl & r6 & _ & H).
  apply pbind_some in H. destruct H as (ob & r7 & _ & H).
  apply pret_some in H. destruct H as [-> _]. cbn [sc_base sc_mn sc_mx] in *.
  apply pQ_decoded in Emn, Emx. destruct Emn as (b1 & D1). destruct Emx as (b2 & D2).
  destruct (decode_fin_range _ _ D1) as [P1 N1]. destruct (decode_fin_range _ _ D2) as [P2 N2].
  unfold log_pre in Hpre. apply andb_prop in Hpre. destruct Hpre as [Hpre S]. apply andb_prop in Hpre. destruct Hpre as [_ L].
  gb_bool. unfold lf_emin, lf_emax, log_fold. destruct (Qltb mn 0) eqn:Sg; gb_bool; cbn [fst snd].
  - assert (mx < 0)%Q by nra. split; [apply N2|apply N1]; assumption.
  - assert (0 < mn)%Q by nra. assert (0 < mx)%Q by nra. split; [apply P1|apply P2]; assumption.
Qed.

Theorem log_case_counts_bounded : forall r c r', p_sccase r = Some (c, r') ->
  log_pre (sc_base c) (sc_mn c) (sc_mx c) = true ->
  let e := log_e (sc_base c) (sc_mn c) (sc_mx c) in
  log_count e false 0 <= MAXINT /\ log_count e true 0 <= MAXINT.
Proof.
  intros r c r' H Hpre. cbv zeta. destruct (log_case_domain_f64 r c r' H Hpre) as [F1 F2].
  assert (Hb : 2 <= sc_base c).
  { unfold log_pre in Hpre. apply andb_prop in Hpre. destruct Hpre as [Hpre _]. apply andb_prop in Hpre. destruct Hpre as [B _].
    apply Z.leb_le. exact B. }
  pose proof (log_counts_bounded_f64 (sc_base c) _ _ Hb F1 F2) as K. cbv zeta in K. unfold log_e. lia.
Qed.

(* Proofs/CheckC17Parse.v — (helper hI-c17p) the layout of a C17 case line that the parsers of Check/C17.v
   decode to its end: which integers of the line are which input / observation (floats are IEEE-754 bit
   patterns decoded by decode_bits).  Closed under the global context. *)
From MM Require Import Base.Num Model.Ticks Check.C17 Proofs.CheckBase.
Local Open Scope Z_scope.

(* a parser whose every result is described by a relation between the value and the consumed words *)
Definition consumes {A} (p : parser A) (R : A -> list Z -> Prop) : Prop :=
  forall l a r, p l = Some (a, r) -> exists w, l = w ++ r /\ R a w.

Lemma prep_consumes {A} (p : parser A) R : consumes p R ->
  forall n l xs r, prep p n l = Some (xs, r) -> exists ws, l = concat ws ++ r /\ Forall2 R xs ws.
Proof.
  intros HP. induction n as [|n IH]; cbn; intros l xs r H.
  - apply pret_some in H. destruct H as [-> ->]. exists []. split; [reflexivity | constructor].
  - apply pbind_some in H. destruct H as (a & r1 & Ha & H). apply pbind_some in H. destruct H as (t & r2 & H & H').
    apply pret_some in H'. destruct H' as [-> ->]. destruct (HP _ _ _ Ha) as (w & -> & Hw).
    destruct (IH _ _ _ H) as (ws & -> & Hws). exists (w :: ws). split; [cbn; now rewrite app_assoc | now constructor].
Qed.
Lemma plist_consumes {A} (p : parser A) R : consumes p R ->
  consumes (plist p) (fun xs w => exists ws, w = Z.of_nat (length xs) :: concat ws /\ Forall2 R xs ws).
Proof.
  intros HP l xs r H. apply plist_some in H. destruct H as (n & r0 & -> & Hn & H & Hlen).
  destruct (prep_consumes p R HP _ _ _ _ H) as (ws & -> & Hws).
  exists (n :: concat ws). split; [reflexivity|]. exists ws. split; [now rewrite Hlen | exact Hws].
Qed.
Lemma pZ_consumes : consumes pZ (fun z w => w = [z]).
Proof. intros l z r H. apply pZ_some in H. subst. exists [z]. auto. Qed.
Lemma pX_consumes : consumes pX (fun x w => exists b, w = [b] /\ x = decode_bits b).
Proof. intros l x r H. apply pX_some in H. destruct H as (b & -> & ->). exists [b]. split; [reflexivity|]. eauto. Qed.

(* a list of integers / of floats: the length, then the elements *)
Lemma concat_singletons {A} (R : A -> Z -> Prop) xs ws :
  Forall2 (fun x w => exists b, w = [b] /\ R x b) xs ws -> exists bs, concat ws = bs /\ Forall2 R xs bs.
Proof.
  induction 1 as [|x w xs ws (b & -> & Hb) _ (bs & <- & IH)]; [exists []; split; [reflexivity | constructor]|].
  exists (b :: concat ws). split; [reflexivity | now constructor].
Qed.
Lemma Forall2_eq_map {A B} (f : B -> A) xs bs : Forall2 (fun x b => x = f b) xs bs -> xs = map f bs.
Proof. induction 1; cbn; congruence. Qed.
Lemma plist_pZ_layout l vs r : plist pZ l = Some (vs, r) -> l = Z.of_nat (length vs) :: vs ++ r.
Proof.
  intro H. destruct (plist_consumes pZ _ pZ_consumes _ _ _ H) as (w & -> & ws & -> & F).
  assert (E : concat ws = vs). { clear H. induction F as [|x w xs ws -> _ IH]; cbn; congruence. }
  now rewrite E.
Qed.
Lemma plist_pX_layout l xs r : plist pX l = Some (xs, r) ->
  exists bs, l = Z.of_nat (length bs) :: bs ++ r /\ xs = map decode_bits bs.
Proof.
  intro H. destruct (plist_consumes pX _ pX_consumes _ _ _ H) as (w & -> & ws & -> & F).
  destruct (concat_singletons (fun x b => x = decode_bits b) xs ws F) as (bs & E & F').
  apply Forall2_eq_map in F'. exists bs. rewrite E, F', map_length. auto.
Qed.

(* ---------- kind 0 ---------- *)
Definition flcase_layout (c : flcase) (rest : list Z) : Prop :=
  rest = [o_max (fc_o c); o_minlevel (fc_o c); o_maxlevel (fc_o c); fc_guess c; fc_wlo c; Z.of_nat (length (fc_vs c))]
         ++ fc_vs c ++ [fc_left c; fc_right c; fc_ok c; fc_lev c].
Theorem p_flcase_layout rest c : p_flcase rest = Some (c, []) -> flcase_layout c rest.
Proof.
  unfold p_flcase, flcase_layout. intro H.
  repeat (apply pbind_some in H; let a := fresh "a" in let r := fresh "r" in let Ha := fresh "Ha" in destruct H as (a & r & Ha & H)).
  apply pret_some in H. destruct H as [-> <-].
  apply pZ_some in Ha, Ha0, Ha1, Ha2, Ha3, Ha5, Ha6, Ha7, Ha8. apply plist_pZ_layout in Ha4. subst. reflexivity.
Qed.

(* ---------- kinds 1, 2 ---------- *)
(* one per-level observation: level, CountTicks, status of TicksAtLevel, its ticks *)
Definition lev_layout (lv : levobs) (w : list Z) : Prop :=
  exists bs, w = lv_level lv :: lv_count lv :: lv_st lv :: Z.of_nat (length bs) :: bs /\ lv_ticks lv = map decode_bits bs.
Lemma p_lev_consumes : consumes p_lev lev_layout.
Proof.
  intros l lv r H. unfold p_lev in H.
  repeat (apply pbind_some in H; let a := fresh "a" in let r := fresh "r" in let Ha := fresh "Ha" in destruct H as (a & r & Ha & H)).
  apply pret_some in H. destruct H as [-> ->]. apply pZ_some in Ha, Ha0, Ha1. apply plist_pX_layout in Ha2.
  destruct Ha2 as (bs & -> & E). subst. exists (a :: a0 :: a1 :: Z.of_nat (length bs) :: bs). split; [reflexivity|].
  exists bs. auto.
Qed.

(* the whole scale case: base, Min, Max, the options o; Ticks(o): status, major, minor; the per-level
   observations; the options o' of Nice; Nice(o'): status, new ends, Map of the new ends; Nice(o') again:
   status, ends; Ticks(o') after Nice: status, major *)
Definition sccase_layout (c : sccase) (rest : list Z) : Prop :=
  let ob := sc_ob c in
  exists bmn bmx major minor levws bnmin bnmax bm0 bm1 bnmin2 bnmax2 major3,
    rest = [sc_base c; bmn; bmx; o_max (sc_o c); o_minlevel (sc_o c); o_maxlevel (sc_o c); so_st ob]
           ++ (Z.of_nat (length major) :: major) ++ (Z.of_nat (length minor) :: minor)
           ++ (Z.of_nat (length (so_levels ob)) :: concat levws)
           ++ [o_max (so_no ob); o_minlevel (so_no ob); o_maxlevel (so_no ob); so_nst ob; bnmin; bnmax; bm0; bm1; so_nst2 ob; bnmin2; bnmax2; so_st3 ob]
           ++ (Z.of_nat (length major3) :: major3) /\
    decode_bits bmn = XFin (sc_mn c) /\ decode_bits bmx = XFin (sc_mx c) /\
    so_major ob = map decode_bits major /\ so_minor ob = map decode_bits minor /\
    Forall2 lev_layout (so_levels ob) levws /\
    so_nmin ob = decode_bits bnmin /\ so_nmax ob = decode_bits bnmax /\ so_map0 ob = decode_bits bm0 /\ so_map1 ob = decode_bits bm1 /\
    so_nmin2 ob = decode_bits bnmin2 /\ so_nmax2 ob = decode_bits bnmax2 /\ so_major3 ob = map decode_bits major3.
Theorem p_sccase_layout rest c : p_sccase rest = Some (c, []) -> sccase_layout c rest.
Proof.
  unfold p_sccase, p_scobs, sccase_layout. intro H.
  repeat (apply pbind_some in H; let a := fresh "a" in let r := fresh "r" in let Ha := fresh "Ha" in destruct H as (a & r & Ha & H)).
  apply pret_some in H. destruct H as [E1 E2]. subst.
  repeat (apply pbind_some in Ha5; let a := fresh "b" in let r := fresh "s" in let Ha := fresh "Hb" in destruct Ha5 as (a & r & Ha & Ha5)).
  apply pret_some in Ha5. destruct Ha5 as [E1 E2]. subst.
  repeat match goal with
  | K : pZ _ = Some _ |- _ => apply pZ_some in K
  | K : pQ _ = Some _ |- _ => apply pQ_some in K; destruct K as (? & ? & ?)
  | K : pX _ = Some _ |- _ => apply pX_some in K; destruct K as (? & ? & ?)
  | K : plist pX _ = Some _ |- _ => apply plist_pX_layout in K; destruct K as (? & ? & ?)
  | K : plist p_lev _ = Some _ |- _ => apply (plist_consumes p_lev _ p_lev_consumes) in K; destruct K as (? & ? & ? & ? & ?)
  end.
  subst. cbn [sc_ob sc_base sc_mn sc_mx sc_o so_st so_major so_minor so_levels so_no so_nst so_nmin so_nmax so_map0 so_map1
              so_nst2 so_nmin2 so_nmax2 so_st3 so_major3 o_max o_minlevel o_maxlevel].
  do 12 eexists. split; [|repeat split; try eassumption; try reflexivity].
  cbn [app]. rewrite <- ?app_assoc, ?app_nil_r. cbn [app]. reflexivity.
Qed.

(* Proofs/CheckC17Win.v — (helper hI-c17p) the borderline rule of Check/C17.v (verdict code 1), Linear:
   outside the window [near_round] of every floor/ceil decision the admissible set is the singleton
   exact outcome, so a group can only be borderline when a decision is inside the window.
   Over Z/Q/lists; closed under the global context. *)
From Coq Require Import Qround Lqa.
From MM Require Import Base.Num Model.Ticks Proofs.Ticks Proofs.TicksLinear Check.C17 Proofs.CheckBase Proofs.CheckC17Base Proofs.CheckC17Lin.
Local Open Scope Q_scope.

Lemma floor_adm_window q : near_int q = false -> floor_adm q = [qfl q].
Proof. unfold near_int, floor_adm. destruct (near_round q); [discriminate | reflexivity]. Qed.
Lemma ceil_adm_window q : near_int q = false -> ceil_adm q = [qcl q].
Proof. unfold near_int, ceil_adm. destruct (near_round q); [discriminate | reflexivity]. Qed.
(* inside the window the admissible values are the nearest integer n and its neighbour on the side
   the rounding could have gone: floor in {n-1, n}, ceiling in {n, n+1}, |q - n| <= 4e-15 (1 + |q|) *)
Lemma near_round_window q n : near_round q = Some n ->
  Qabs (q - inject_Z n) <= (4 # 1000000000000000) * (1 + Qabs q) /\ floor_adm q = [(n - 1)%Z; n] /\ ceil_adm q = [n; (n + 1)%Z].
Proof.
  intro H. unfold floor_adm, ceil_adm. rewrite H. split; [|auto]. unfold near_round in H. cbv zeta in H.
  destruct (Qleb _ _) eqn:E in H; [|discriminate]. injection H as <-. apply Qleb_true in E.
  assert (R : Qred q == q) by apply Qred_correct.
  assert (Ef : qfl (Qred q + (1 # 2)) = qfl (Qred q + (1 # 2))) by reflexivity.
  set (m := qfl (Qred q + (1 # 2))) in *. rewrite R in E. exact E.
Qed.

(* no decision of the level is inside the window: the admissible first/last indices are the exact ones *)
Lemma first_last_adm_window base eb mn mx ro l : lin_amb_level base eb mn mx ro l = false ->
  lin_first_last_adm mn mx (lin_spacing base eb l) ro =
  ([fst (lin_first_last mn mx (lin_spacing base eb l) ro)], [snd (lin_first_last mn mx (lin_spacing base eb l) ro)]).
Proof.
  unfold lin_amb_level, lin_first_last_adm, lin_first_last. cbv zeta. destruct ro; intro H; apply Bool.orb_false_iff in H; destruct H as [H1 H2].
  - now rewrite (floor_adm_window _ H1), (ceil_adm_window _ H2).
  - now rewrite (ceil_adm_window _ H1), (floor_adm_window _ H2).
Qed.
Lemma lin_cnt_max_window base eb mn mx ro l : lin_amb_level base eb mn mx ro l = false ->
  lin_cnt_max base eb mn mx ro l = lin_count base eb mn mx ro l.
Proof.
  intro H. unfold lin_cnt_max, lin_count. rewrite (first_last_adm_window _ _ _ _ _ _ H).
  destruct (lin_first_last mn mx (lin_spacing base eb l) ro) as [f la]. reflexivity.
Qed.
Lemma lin_at_adm_window base eb mn mx tolv l cnt obs : lin_amb_level base eb mn mx false l = false ->
  lin_at_adm base eb mn mx tolv l cnt obs =
  match cnt with Some c => (c =? lin_count base eb mn mx false l)%Z | None => true end &&
  close_list tolv (lin_ticks_at base eb mn mx false l) obs.
Proof.
  intro H. unfold lin_at_adm, lin_count, lin_ticks_at. cbv zeta. rewrite (first_last_adm_window _ _ _ _ _ _ H).
  destruct (lin_first_last mn mx (lin_spacing base eb l) false) as [f la]. cbn [fst snd existsb].
  rewrite !Bool.orb_false_r. reflexivity.
Qed.

(* group 20: a level outside the window that passes the admissible comparison passes the exact one:
   a borderline per-level observation has a floor/ceil decision of ITS level inside the window *)
Theorem lin_level_adm_window base eb mn mx tolv lv : lin_amb_level base eb mn mx false (lv_level lv) = false ->
  lin_level_adm base eb mn mx tolv lv = true -> lin_level_exact base eb mn mx tolv lv = true.
Proof.
  intros W H. unfold lin_level_adm in H. rewrite (lin_at_adm_window _ _ _ _ _ _ _ _ W) in H. unfold lin_level_exact.
  apply andb_prop in H. destruct H as [H H2]. apply andb_prop in H. destruct H as [H0 _].
  apply andb_prop in H2. destruct H2 as [H1 H3]. now rewrite H0, H1, H3.
Qed.
Corollary lin_levels_borderline_in_window base eb mn mx tolv levels :
  forallb (lin_level_exact base eb mn mx tolv) levels = false ->
  forallb (fun lv => lin_level_exact base eb mn mx tolv lv || lin_level_adm base eb mn mx tolv lv) levels = true ->
  exists lv, In lv levels /\ lin_level_exact base eb mn mx tolv lv = false /\ lin_level_adm base eb mn mx tolv lv = true /\
             lin_amb_level base eb mn mx false (lv_level lv) = true.
Proof.
  induction levels as [|lv t IH]; cbn [forallb In]; intros HE HA; [discriminate|].
  apply andb_prop in HA. destruct HA as [HA1 HA2].
  destruct (lin_level_exact base eb mn mx tolv lv) eqn:E.
  - cbn [andb] in HE. destruct (IH HE HA2) as (lv' & I & R). exists lv'. split; [now right | exact R].
  - cbn [orb] in HA1. exists lv. split; [now left|]. split; [exact E|]. split; [exact HA1|].
    destruct (lin_amb_level base eb mn mx false (lv_level lv)) eqn:W; [reflexivity|].
    rewrite (lin_level_adm_window _ _ _ _ _ _ W HA1) in E. discriminate.
Qed.

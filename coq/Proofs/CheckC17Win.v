(* Proofs/CheckC17Win.v — (helper hI-c17p) the borderline rule of Check/C17.v (verdict code 1), Linear:
   outside the window [near_round] of every floor/ceil decision the admissible set is the singleton
   exact outcome, so a group can only be borderline when a decision is inside the window.
   Over Z/Q/lists; closed under the global context. *)
From Coq Require Import Qround Lqa.
From MM Require Import Base.Num Model.Ticks Proofs.Ticks Proofs.TicksLinear Proofs.TicksNice Check.C17 Proofs.CheckBase Proofs.CheckC17Base Proofs.CheckC17Lin.
Local Open Scope Q_scope.

Lemma floor_adm_window q : near_int q = false -> floor_adm q = [qfl q].
Proof. unfold near_int, floor_adm. destruct (near_round q); [discriminate | reflexivity]. Qed.
Lemma ceil_adm_window q : near_int q = false -> ceil_adm q = [qcl q].
Proof. unfold near_int, ceil_adm. destruct (near_round q); [discriminate | reflexivity]. Qed.
(* inside the window the admissible values are the nearest integer n and its neighbour on the side
   the rounding could have gone: floor in {n-1, n}, ceiling in {n, n+1}, |q - n| <= 4e-15 (1 + |q|) *)
Lemma near_round_window q n : near_round q = Some n ->
  Qabs (q - inject_Z n) <= (4 # 1000000000000000) * (1 + Qabs q) /\ floor_adm q = [(n - 1)%Z; n] /\ ceil_adm q = [n; (n + 1)%Z].
Proof.
  intro H. unfold floor_adm, ceil_adm. rewrite H. split; [|auto]. unfold near_round in H. cbv zeta in H.
  destruct (Qleb _ _) eqn:E in H; [|discriminate]. injection H as <-. apply Qleb_true in E.
  assert (R : Qred q == q) by apply Qred_correct.
  assert (Ef : qfl (Qred q + (1 # 2)) = qfl (Qred q + (1 # 2))) by reflexivity.
  set (m := qfl (Qred q + (1 # 2))) in *. rewrite R in E. exact E.
Qed.

(* no decision of the level is inside the window: the admissible first/last indices are the exact ones *)
Lemma first_last_adm_window base eb mn mx ro l : lin_amb_level base eb mn mx ro l = false ->
  lin_first_last_adm mn mx (lin_spacing base eb l) ro =
  ([fst (lin_first_last mn mx (lin_spacing base eb l) ro)], [snd (lin_first_last mn mx (lin_spacing base eb l) ro)]).
Proof.
  unfold lin_amb_level, lin_first_last_adm, lin_first_last. cbv zeta. destruct ro; intro H; apply Bool.orb_false_iff in H; destruct H as [H1 H2].
  - now rewrite (floor_adm_window _ H1), (ceil_adm_window _ H2).
  - now rewrite (ceil_adm_window _ H1), (floor_adm_window _ H2).
Qed.
Lemma lin_cnt_max_window base eb mn mx ro l : lin_amb_level base eb mn mx ro l = false ->
  lin_cnt_max base eb mn mx ro l = lin_count base eb mn mx ro l.
Proof.
  intro H. unfold lin_cnt_max, lin_count. rewrite (first_last_adm_window _ _ _ _ _ _ H).
  destruct (lin_first_last mn mx (lin_spacing base eb l) ro) as [f la]. reflexivity.
Qed.
Lemma lin_at_adm_window base eb mn mx tolv l cnt obs : lin_amb_level base eb mn mx false l = false ->
  lin_at_adm base eb mn mx tolv l cnt obs = true ->
  match cnt with Some c => c = lin_count base eb mn mx false l | None => True end /\
  lin_count base eb mn mx false l = Z.of_nat (length obs) /\
  close_list tolv (lin_ticks_at base eb mn mx false l) obs = true.
Proof.
  intros H. unfold lin_at_adm, lin_count, lin_ticks_at. cbv zeta. rewrite (first_last_adm_window _ _ _ _ _ _ H).
  destruct (lin_first_last mn mx (lin_spacing base eb l) false) as [f la]. cbn [fst snd existsb].
  rewrite !Bool.orb_false_r. intro K. apply andb_prop in K. destruct K as [K1 K2].
  destruct (la - f + 1 =? Z.of_nat (length obs))%Z eqn:E; [|discriminate]. apply Z.eqb_eq in E.
  split; [destruct cnt; [now apply Z.eqb_eq in K1 | exact I] | auto].
Qed.

(* group 20: a level outside the window that passes the admissible comparison passes the exact one:
   a borderline per-level observation has a floor/ceil decision of ITS level inside the window *)
Theorem lin_level_adm_window base eb mn mx tolv lv : lin_amb_level base eb mn mx false (lv_level lv) = false ->
  (lv_count lv <= MAXINT)%Z ->
  lin_level_adm base eb mn mx tolv lv = true -> lin_level_exact base eb mn mx tolv lv = true.
Proof.
  intros W Hi H. unfold lin_level_adm in H.
  destruct ((lv_st lv =? 0)%Z && (lv_count lv =? Z.of_nat (length (lv_ticks lv)))%Z) eqn:G; [|discriminate].
  apply andb_prop in G. destruct G as [G1 G2]. apply Z.eqb_eq in G1, G2.
  destruct (lin_at_adm_window _ _ _ _ _ _ _ _ W H) as (C1 & C2 & C3).
  unfold lin_level_exact. cbv zeta. rewrite G1. cbn [Z.eqb]. rewrite C2, Z.eqb_refl, <- C2, C3.
  unfold count_ok. cbv zeta. rewrite <- C1. rewrite Z.min_l by exact Hi. now rewrite Z.eqb_refl.
Qed.
Corollary lin_levels_borderline_in_window base eb mn mx tolv levels :
  (forall lv, In lv levels -> (lv_count lv <= MAXINT)%Z) ->
  forallb (lin_level_exact base eb mn mx tolv) levels = false ->
  forallb (fun lv => lin_level_exact base eb mn mx tolv lv || lin_level_adm base eb mn mx tolv lv) levels = true ->
  exists lv, In lv levels /\ lin_level_exact base eb mn mx tolv lv = false /\ lin_level_adm base eb mn mx tolv lv = true /\
             lin_amb_level base eb mn mx false (lv_level lv) = true.
Proof.
  induction levels as [|lv t IH]; cbn [forallb In]; intros Hi HE HA; [discriminate|].
  apply andb_prop in HA. destruct HA as [HA1 HA2].
  destruct (lin_level_exact base eb mn mx tolv lv) eqn:E.
  - cbn [andb] in HE. destruct (IH (fun lv' I' => Hi lv' (or_intror I')) HE HA2) as (lv' & I & R). exists lv'. split; [now right | exact R].
  - cbn [orb] in HA1. exists lv. split; [now left|]. split; [exact E|]. split; [exact HA1|].
    destruct (lin_amb_level base eb mn mx false (lv_level lv)) eqn:W; [reflexivity|].
    rewrite (lin_level_adm_window _ _ _ _ _ _ W (Hi lv (or_introl eq_refl)) HA1) in E. discriminate.
Qed.

(* ---------- groups 10 and 30/37: Ticks (with minor ticks recorded) and Nice ---------- *)
Lemma lin_search_eq o base eb mn mx ro : lin_ebase base = Some eb ->
  lin_search o base eb mn mx ro = find_level o (lin_count base eb mn mx ro) 0.
Proof.
  intro He. unfold lin_search. apply TicksCheck.find_level_ext. intro l. apply TicksCheck.lin_count_capped_eq.
  now destruct (lin_ebase_ge base eb He).
Qed.
Lemma zrange_head c n : (0 < n)%nat -> In c (zrange c n).
Proof.
  intro H. unfold zrange. apply in_map_iff. exists 0%nat. split; [cbn; lia|]. apply in_seq. lia.
Qed.
(* "no level fits, admissibly" is impossible when the search found a level and no decision is in the window *)
Lemma lin_none_adm_window o base eb mn mx ro lo hi r cnt :
  (forall l, lin_cnt_max base eb mn mx ro l = cnt l) -> level_bounds o = Some (lo, hi) -> nonincreasing cnt lo hi ->
  r = find_level o cnt 0 -> lin_none_adm o base eb mn mx ro hi r = false.
Proof.
  intros W Hb Mono ->. unfold lin_none_adm. destruct (find_level o cnt 0) as [c| |] eqn:F; try reflexivity.
  destruct (find_level_lowest o cnt 0 lo hi c Hb Mono F) as (B & Fit & _).
  destruct (hi - c <=? 3)%Z; [|reflexivity]. apply Bool.not_true_is_false. intro A.
  assert (P : (0 < Z.to_nat (hi - c + 1))%nat) by lia.
  rewrite forallb_forall in A. specialize (A c (zrange_head c _ P)). apply Z.ltb_lt in A. rewrite W in A. lia.
Qed.

Section Window.
Variables (base eb : Z) (o : tickopts) (tolv : Q -> Q).
Hypothesis He : lin_ebase base = Some eb.

(* Ticks(o) with the minor ticks recorded: if no floor/ceil decision of any level lies inside the window,
   an observation that passes the admissible comparison passes the exact one *)
Theorem lin_ticks_adm_window a b major mi : a < b ->
  (forall l, lin_amb_level base eb a b false l = false) ->
  lin_ticks_adm o base eb a b tolv (lin_search o base eb a b false) major (Some mi) = true ->
  exists l, lin_search o base eb a b false = FL_ok l /\ (1 <= o_max o)%Z /\
    close_list tolv (lin_ticks_at base eb a b false l) major = true /\
    close_list tolv (lin_ticks_at base eb a b false (l - 1)) mi = true.
Proof.
  intros Lt W H. assert (Ho : a <= b) by lra. unfold lin_ticks_adm in H.
  destruct (level_bounds o) as [[lo hi]|] eqn:Hb; [|discriminate].
  apply andb_prop in H. destruct H as [Hm H]. apply Z.leb_le in Hm.
  pose proof (lin_count_nonincreasing base eb a b lo hi He Ho) as Mono.
  rewrite (lin_search_eq o base eb a b false He) in *.
  match type of H with (if ?ex then _ else _) = true => destruct ex eqn:Hex end.
  - clear H. rename Hex into H. apply existsb_exists in H. destruct H as (L & _ & H).
    apply andb_prop in H. destruct H as [H Hmi]. apply andb_prop in H. destruct H as [H Hma].
    apply andb_prop in H. destruct H as [H Hlen]. apply andb_prop in H. destruct H as [HL1 HL2].
    apply Z.leb_le in HL1, HL2, Hlen.
    apply (lin_at_adm_window _ _ _ _ _ _ _ _ (W L)) in Hma. destruct Hma as (_ & _ & Hma).
    apply andb_prop in Hmi. destruct Hmi as [Hlow Hmi].
    apply (lin_at_adm_window _ _ _ _ _ _ _ _ (W (L - 1)%Z)) in Hmi. destruct Hmi as (_ & _ & Hmi).
    pose proof (obs_close_length _ _ _ (close_list_sound _ _ _ Hma)) as Lma.
    pose proof (obs_close_length _ _ _ (close_list_sound _ _ _ Hmi)) as Lmi.
    exists L. split; [|auto].
    apply (find_level_is_lowest o _ 0 lo hi L Hb Mono Hm (conj HL1 HL2)).
    + rewrite (lin_count_is_length base eb a b He Ho), <- Lma. exact Hlen.
    + intros l' Hl'. apply Bool.orb_true_iff in Hlow. destruct Hlow as [E|E]; [apply Z.eqb_eq in E; lia|].
      apply Z.ltb_lt in E. rewrite Lmi, <- (lin_count_is_length base eb a b He Ho) in E.
      assert ((lin_count base eb a b false (L - 1) <= lin_count base eb a b false l')%Z) by (apply Mono; lia). lia.
  - destruct major as [|? ?]; [|discriminate]. destruct mi as [|? ?]; [|discriminate].
    rewrite (lin_none_adm_window o base eb a b false lo hi _ (lin_count base eb a b false)) in H; [discriminate | | exact Hb | exact Mono | reflexivity].
    intro l. apply lin_cnt_max_window, W.
Qed.

(* Ticks(o) without the minor ticks recorded (after Nice): the level is pinned by the admissible count of the level below *)
Theorem lin_ticks_adm_window_none a b major : a < b ->
  (forall l, lin_amb_level base eb a b false l = false) ->
  lin_ticks_adm o base eb a b tolv (lin_search o base eb a b false) major None = true ->
  exists l, lin_search o base eb a b false = FL_ok l /\ (1 <= o_max o)%Z /\
    close_list tolv (lin_ticks_at base eb a b false l) major = true.
Proof.
  intros Lt W H. assert (Ho : a <= b) by lra. unfold lin_ticks_adm in H.
  destruct (level_bounds o) as [[lo hi]|] eqn:Hb; [|discriminate].
  apply andb_prop in H. destruct H as [Hm H]. apply Z.leb_le in Hm.
  pose proof (lin_count_nonincreasing base eb a b lo hi He Ho) as Mono.
  rewrite (lin_search_eq o base eb a b false He) in *.
  match type of H with (if ?ex then _ else _) = true => destruct ex eqn:Hex end.
  - clear H. rename Hex into H. apply existsb_exists in H. destruct H as (L & _ & H).
    apply andb_prop in H. destruct H as [H Hlow]. apply andb_prop in H. destruct H as [H Hma].
    apply andb_prop in H. destruct H as [H Hlen]. apply andb_prop in H. destruct H as [HL1 HL2].
    apply Z.leb_le in HL1, HL2, Hlen.
    apply (lin_at_adm_window _ _ _ _ _ _ _ _ (W L)) in Hma. destruct Hma as (_ & _ & Hma).
    pose proof (obs_close_length _ _ _ (close_list_sound _ _ _ Hma)) as Lma.
    exists L. split; [|auto].
    apply (find_level_is_lowest o _ 0 lo hi L Hb Mono Hm (conj HL1 HL2)).
    + rewrite (lin_count_is_length base eb a b He Ho), <- Lma. exact Hlen.
    + intros l' Hl'. apply Bool.orb_true_iff in Hlow. destruct Hlow as [E|E]; [apply Z.eqb_eq in E; lia|].
      apply Z.ltb_lt in E. rewrite (lin_cnt_max_window _ _ _ _ _ _ (W (L - 1)%Z)) in E.
      assert ((lin_count base eb a b false (L - 1) <= lin_count base eb a b false l')%Z) by (apply Mono; lia). lia.
  - destruct major as [|? ?]; [|discriminate].
    rewrite (lin_none_adm_window o base eb a b false lo hi _ (lin_count base eb a b false)) in H; [discriminate | | exact Hb | exact Mono | reflexivity].
    intro l. apply lin_cnt_max_window, W.
Qed.

(* Nice(o): the same for the rounded-out decisions *)
Theorem lin_nice_adm_window smn smx ao bo : smn < smx ->
  (forall l, lin_amb_level base eb smn smx true l = false) ->
  lin_nice_adm o base eb smn smx tolv (lin_search o base eb smn smx true) ao bo = true ->
  let xy := lin_nice_from base eb smn smx (lin_search o base eb smn smx true) in
  within (tolv (fst xy)) (fst xy) ao && within (tolv (snd xy)) (snd xy) bo = true.
Proof.
  intros Lt W H. unfold lin_nice_adm in H.
  destruct (level_bounds o) as [[lo hi]|] eqn:Hb; [|discriminate].
  apply andb_prop in H. destruct H as [Hm H]. apply Z.leb_le in Hm.
  pose proof (lin_count_out_nonincreasing base eb He smn smx lo hi Lt) as Mono.
  rewrite (lin_search_eq o base eb smn smx true He) in *.
  match type of H with (if ?ex then _ else _) = true => destruct ex eqn:Hex0 end.
  - clear H. rename Hex0 into H. apply existsb_exists in H. destruct H as (L & _ & H).
    apply andb_prop in H. destruct H as [H Hex]. apply andb_prop in H. destruct H as [H Hlow].
    apply andb_prop in H. destruct H as [HL1 HL2]. apply Z.leb_le in HL1, HL2.
    rewrite (first_last_adm_window _ _ _ _ _ _ (W L)) in Hex.
    destruct (lin_first_last smn smx (lin_spacing base eb L) true) as [f la] eqn:Efl. cbn [fst snd existsb] in Hex.
    rewrite !Bool.orb_false_r in Hex. apply andb_prop in Hex. destruct Hex as [Hcnt Hw]. apply Z.leb_le in Hcnt.
    assert (F : find_level o (lin_count base eb smn smx true) 0 = FL_ok L).
    { apply (find_level_is_lowest o _ 0 lo hi L Hb Mono Hm (conj HL1 HL2)).
      - unfold lin_count. rewrite Efl. exact Hcnt.
      - intros l' Hl'. apply Bool.orb_true_iff in Hlow. destruct Hlow as [E|E]; [apply Z.eqb_eq in E; lia|].
        apply Z.ltb_lt in E. rewrite (lin_cnt_max_window _ _ _ _ _ _ (W (L - 1)%Z)) in E.
        assert ((lin_count base eb smn smx true (L - 1) <= lin_count base eb smn smx true l')%Z) by (apply Mono; lia). lia. }
    rewrite F. unfold lin_nice_from. rewrite Efl. cbn [fst snd]. exact Hw.
  - match type of H with (if ?w then _ else _) = true => destruct w end; [|discriminate].
    rewrite (lin_none_adm_window o base eb smn smx true lo hi _ (lin_count base eb smn smx true)) in H; [discriminate | | exact Hb | exact Mono | reflexivity].
    intro l. apply lin_cnt_max_window, W.
Qed.
End Window.

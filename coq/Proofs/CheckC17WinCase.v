(* Proofs/CheckC17WinCase.v — (helper hI-c17p) the borderline rule of Check/C17.v at the level of a whole
   Linear case: judge_linear returns verdict code 1 only if a floor/ceil decision lies inside the near_round
   window.  Closed under the global context. *)
From Coq Require Import Qround Lqa.
From MM Require Import Base.Num Base.GBLemmas Model.Ticks Proofs.Ticks Proofs.TicksLinear Proofs.TicksNice Check.C17 Proofs.CheckBase Proofs.CheckC17Base Proofs.CheckC17Lin Proofs.CheckC17Win.
Local Open Scope Q_scope.

Lemma first_code_some c gs p : first_code c gs = Some p -> Exists (fun g => (c <= fst g)%Z) gs.
Proof.
  induction gs as [|[k q] t IH]; cbn; [discriminate|]. destruct (c <=? k)%Z eqn:E.
  - intros _. left. cbn. now apply Z.leb_le.
  - intro H. right. now apply IH.
Qed.
Lemma conclude_border tag gs t p d : conclude tag gs = verdict 1 t p d -> Exists (fun g => (1 <= fst g)%Z) gs.
Proof.
  unfold conclude. destruct (first_code 2 gs); [intro H; apply verdict_inj in H; unfold V_MISMATCH in H; lia|].
  destruct (first_code 1 gs) eqn:E; [intros _; eapply first_code_some; exact E|].
  intro H. apply verdict_inj in H. unfold V_OK in H. lia.
Qed.
Lemma grp_ge1_false E A : (1 <= grp E A)%Z -> E = false.
Proof. intro H. apply Z.leb_le in H. rewrite grp_ge1 in H. now apply Bool.negb_true_iff in H. Qed.
Lemma law_ge1_false H amb : (1 <= law H amb)%Z -> H = false.
Proof. unfold law. destruct H; [lia | reflexivity]. Qed.
Lemma lok1_amb H amb : lok 1 H amb -> H = false -> amb = true.
Proof. intros [K|(_ & _ & K)] E; [congruence | exact K]. Qed.

Ltac split_exists H :=
  repeat (apply Exists_cons in H; let K := fresh "X" in destruct H as [K|H]); [.. | apply Exists_nil in H; destruct H].

(* a borderline verdict: one of the five groups that are compared with the model failed its exact comparison
   (and, no group being a mismatch, passed its admissible one) *)
Lemma judge_linear_border_witness c t p d eb ao bo : judge_linear c = verdict 1 t p d ->
  lin_ebase (sc_base c) = Some eb -> lin_groups 1 c eb ao bo ->
  let ob := sc_ob c in let tolv := lc_tolv c in let o := sc_o c in let no := so_no ob in
  let base := sc_base c in let mn := sc_mn c in let mx := sc_mx c in
  lin_ticks_E tolv o base eb mn mx (so_st ob) (so_major ob) (Some (so_minor ob)) = false \/
  forallb (lin_level_exact base eb mn mx tolv) (so_levels ob) = false \/
  lin_nice_E tolv no base eb mn mx (so_nst ob) (XFin ao) (XFin bo) = false \/
  lin_ticks_E tolv no base eb ao bo (so_st3 ob) (so_major3 ob) None = false \/
  lin_nice_E tolv no base eb ao bo (so_nst2 ob) (so_nmin2 ob) (so_nmax2 ob) = false.
Proof.
  intros H He [t1 t2 t3 t4 t5 t6 t7 Fin K10 K20 K21 K30 K35 K36 K37 b1 b2 K40 K41 K43 K45]. subst t1 t2 t3 t4 t5 t6 t7 b1 b2. cbv zeta.
  (* every law: if it fails, the group it rests on is not exact *)
  assert (B : forall Hh, lok 1 Hh (negb (lin_nice_E (lc_tolv c) (so_no (sc_ob c)) (sc_base c) eb (sc_mn c) (sc_mx c) (so_nst (sc_ob c)) (XFin ao) (XFin bo))
           || negb (lin_ticks_E (lc_tolv c) (so_no (sc_ob c)) (sc_base c) eb ao bo (so_st3 (sc_ob c)) (so_major3 (sc_ob c)) None)
           || negb (lin_nice_E (lc_tolv c) (so_no (sc_ob c)) (sc_base c) eb ao bo (so_nst2 (sc_ob c)) (so_nmin2 (sc_ob c)) (so_nmax2 (sc_ob c)))) ->
           Hh = false ->
           lin_nice_E (lc_tolv c) (so_no (sc_ob c)) (sc_base c) eb (sc_mn c) (sc_mx c) (so_nst (sc_ob c)) (XFin ao) (XFin bo) = false \/
           lin_ticks_E (lc_tolv c) (so_no (sc_ob c)) (sc_base c) eb ao bo (so_st3 (sc_ob c)) (so_major3 (sc_ob c)) None = false \/
           lin_nice_E (lc_tolv c) (so_no (sc_ob c)) (sc_base c) eb ao bo (so_nst2 (sc_ob c)) (so_nmin2 (sc_ob c)) (so_nmax2 (sc_ob c)) = false).
  { intros Hh L E. apply (lok1_amb _ _ L) in E. apply Bool.orb_true_iff in E. destruct E as [E|E].
    - apply Bool.orb_true_iff in E. destruct E as [E|E]; apply Bool.negb_true_iff in E; auto.
    - apply Bool.negb_true_iff in E. auto. }
  unfold judge_linear in H. rewrite He in H. cbv zeta in H.
  destruct (lin_order (sc_mn c) (sc_mx c)) as [a b] eqn:Eo.
  destruct (lin_start (sc_mn c) (sc_mx c)) as [na nb] eqn:Es.
  match type of H with context [lin_nice_from ?a1 ?a2 ?a3 ?a4 ?a5] => destruct (lin_nice_from a1 a2 a3 a4 a5) as [x y] eqn:Exy end.
  rewrite (proj1 Fin), (proj2 Fin) in H.
  destruct (lin_order ao bo) as [a3 b3] eqn:Eo3.
  destruct (lin_start ao bo) as [na3 nb3] eqn:Es3.
  match type of H with context [lin_nice_from ?a1 ?a2 na3 ?a4 ?a5] => destruct (lin_nice_from a1 a2 na3 a4 a5) as [x3 y3] eqn:Exy3 end.
  apply conclude_border in H.
  unfold lin_ticks_E, lin_ticks_A, lin_nice_E, lin_nice_A, lin_nice_xy, lin_rt, lin_rn, law40, law41, law43, lin_law45 in *.
  rewrite ?Eo, ?Es, ?Eo3, ?Es3 in *. cbn [fst snd] in *. rewrite ?Exy, ?Exy3 in *. cbn [fst snd] in *.
  split_exists H; cbn [fst] in *.
  - left. now apply grp_ge1_false in X.
  - right. left. now apply grp_ge1_false in X.
  - right. left. apply law_ge1_false in X. apply (lok1_amb _ _ K21) in X. now apply Bool.negb_true_iff in X.
  - right. right. left. now apply grp_ge1_false in X.
  - exfalso. apply law_ge1_false in X. congruence.
  - right. right. right. left. now apply grp_ge1_false in X.
  - right. right. right. right. now apply grp_ge1_false in X.
  - right. right. apply law_ge1_false in X. exact (B _ K40 X).
  - right. right. apply law_ge1_false in X. exact (B _ K41 X).
  - exfalso. apply law_ge1_false in X. congruence.
  - right. right. apply law_ge1_false in X. exact (B _ K45 X).
Qed.

(* the admissible comparisons of whole groups imply the exact ones when no decision is inside the window *)
Lemma lin_ticks_A_E tolv o base eb mn mx st major minor : lin_ebase base = Some eb ->
  (forall l, lin_amb_level base eb (fst (lin_order mn mx)) (snd (lin_order mn mx)) false l = false) ->
  lin_ticks_A tolv o base eb mn mx st major minor = true -> lin_ticks_E tolv o base eb mn mx st major minor = true.
Proof.
  intros He W H. unfold lin_ticks_A in H. unfold lin_ticks_E. unfold lin_rt in *.
  destruct (lin_order mn mx) as [a b] eqn:Eo. cbn [fst snd] in *.
  apply andb_prop in H. destruct H as [H H3]. apply andb_prop in H. destruct H as [H1 H2].
  apply Bool.negb_true_iff in H1. rewrite H1 in *.
  assert (Hn : ~ mn == mx) by (intro E; apply Qeqb_true in E; congruence).
  pose proof (lin_order_lt mn mx a b Hn Eo) as Lt.
  unfold lin_ticks_from. rewrite H1, Eo.
  destruct minor as [mi|].
  - destruct (lin_ticks_adm_window base eb o tolv He a b major mi Lt W H3) as (l & F & Hm & C1 & C2).
    rewrite F. replace (o_max o <=? 0)%Z with false by (symmetry; apply Z.leb_gt; lia).
    unfold ticks_exact. now rewrite H2, C1, C2.
  - destruct (lin_ticks_adm_window_none base eb o tolv He a b major Lt W H3) as (l & F & Hm & C1).
    rewrite F. replace (o_max o <=? 0)%Z with false by (symmetry; apply Z.leb_gt; lia).
    unfold ticks_exact. now rewrite H2, C1.
Qed.
Lemma lin_nice_A_E tolv o base eb mn mx st a b : lin_ebase base = Some eb ->
  (forall l, lin_amb_level base eb (fst (lin_start mn mx)) (snd (lin_start mn mx)) true l = false) ->
  lin_nice_A tolv o base eb mn mx st a b = true -> lin_nice_E tolv o base eb mn mx st a b = true.
Proof.
  intros He W H. unfold lin_nice_A in H. unfold lin_nice_E, lin_nice_xy. unfold lin_rn in *.
  pose proof (nice_start_ordered mn mx) as Ord. change (nice_start mn mx) with (lin_start mn mx) in Ord.
  destruct (lin_start mn mx) as [na nb] eqn:Es. cbn [fst snd] in *.
  apply andb_prop in H. destruct H as [H1 H2]. rewrite H1. cbn [andb].
  destruct a as [| |a2]; try discriminate. destruct b as [| |b2]; try discriminate.
  pose proof (lin_nice_adm_window base eb o tolv He na nb a2 b2 Ord W H2) as R. cbv zeta in R.
  cbn [xwithin]. exact R.
Qed.

(* THE BORDERLINE VERDICT NEEDS A DECISION INSIDE THE WINDOW: judge_linear cannot return code 1 when no
   floor/ceil decision - of Ticks on the (ordered) domain, of the per-level observations (whose counts are int64 values), of Nice on the
   start domain, of Ticks and Nice on the observed new domain - lies inside the near_round window *)
Theorem linear_borderline_needs_window c t p d eb : judge_linear c = verdict 1 t p d -> lin_ebase (sc_base c) = Some eb ->
  exists ao bo, so_nmin (sc_ob c) = XFin ao /\ so_nmax (sc_ob c) = XFin bo /\
  let base := sc_base c in let mn := sc_mn c in let mx := sc_mx c in
  ~ ((forall l, lin_amb_level base eb (fst (lin_order mn mx)) (snd (lin_order mn mx)) false l = false) /\
     (forall l, lin_amb_level base eb mn mx false l = false) /\
     (forall lv, In lv (so_levels (sc_ob c)) -> (lv_count lv <= MAXINT)%Z) /\
     (forall l, lin_amb_level base eb (fst (lin_start mn mx)) (snd (lin_start mn mx)) true l = false) /\
     (forall l, lin_amb_level base eb (fst (lin_order ao bo)) (snd (lin_order ao bo)) false l = false) /\
     (forall l, lin_amb_level base eb (fst (lin_start ao bo)) (snd (lin_start ao bo)) true l = false)).
Proof.
  intros H He. destruct (judge_linear_groups c 1%Z t p d eb H (or_intror eq_refl) He) as (ao & bo & Gs).
  exists ao, bo. pose proof (judge_linear_border_witness c t p d eb ao bo H He Gs) as Wt. cbv zeta in Wt.
  destruct Gs as [t1 t2 t3 t4 t5 t6 t7 Fin K10 K20 K21 K30 K35 K36 K37 b1 b2 K40 K41 K43 K45]. subst t1 t2 t3 t4 t5 t6 t7 b1 b2.
  split; [exact (proj1 Fin)|]. split; [exact (proj2 Fin)|]. cbv zeta. intros (W1 & W1' & Wi & W2 & W3 & W4).
  assert (G : forall E A, gok 1 E A -> E = false -> A = true) by (intros E A [K|(_ & _ & K)] F; [congruence | exact K]).
  destruct Wt as [F|[F|[F|[F|F]]]].
  - pose proof (lin_ticks_A_E _ _ _ _ _ _ _ _ _ He W1 (G _ _ K10 F)). congruence.
  - destruct (lin_levels_borderline_in_window _ _ _ _ _ _ Wi F (G _ _ K20 F)) as (lv & _ & _ & _ & A). rewrite W1' in A. discriminate.
  - pose proof (lin_nice_A_E _ _ _ _ _ _ _ _ _ He W2 (G _ _ K30 F)). congruence.
  - pose proof (lin_ticks_A_E _ _ _ _ _ _ _ _ _ He W3 (G _ _ K36 F)). congruence.
  - pose proof (lin_nice_A_E _ _ _ _ _ _ _ _ _ He W4 (G _ _ K37 F)). congruence.
Qed.

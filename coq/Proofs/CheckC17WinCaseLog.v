(* Proofs/CheckC17WinCaseLog.v — (helper hI-c17p) the borderline rule of Check/C17.v at the level of a whole
   Log case: judge_log returns verdict code 1 only if a slack decision of log_exps is undecided or minor
   ticks (a level below 0) are involved.  Closed under the global context. *)
From Coq Require Import Qround Lqa.
From MM Require Import Base.Num Base.GBLemmas Model.Ticks Proofs.Ticks Check.C17 Proofs.CheckBase Proofs.CheckC17Base Proofs.CheckC17Log Proofs.CheckC17WinLog Proofs.CheckC17WinCase.
Local Open Scope Q_scope.

Lemma judge_log_border_witness c t p d ao bo : judge_log c = verdict 1 t p d -> log_groups 1 c ao bo ->
  let ob := sc_ob c in let tolv := lg_tolv in let o := sc_o c in let no := so_no ob in
  let base := sc_base c in let mn := sc_mn c in let mx := sc_mx c in
  log_ticks_E tolv o base mn mx (so_st ob) (so_major ob) (Some (so_minor ob)) = false \/
  log_levels_E tolv base mn mx (so_levels ob) = false \/
  log_nice_E tolv no base mn mx (so_nst ob) (XFin ao) (XFin bo) = false \/
  log_ticks_E tolv no base ao bo (so_st3 ob) (so_major3 ob) None = false \/
  log_nice_E tolv no base ao bo (so_nst2 ob) (so_nmin2 ob) (so_nmax2 ob) = false.
Proof.
  intros H [t1 t2 t3 t4 t5 t6 Fin Dom K10 K20 K21 K30 K35 K36 K37 b1 b2 K40 K41 K43 K45]. subst t1 t2 t3 t4 t5 t6 b1 b2. cbv zeta.
  assert (B : forall Hh, lok 1 Hh (negb (log_nice_E lg_tolv (so_no (sc_ob c)) (sc_base c) (sc_mn c) (sc_mx c) (so_nst (sc_ob c)) (XFin ao) (XFin bo))
           || negb (log_ticks_E lg_tolv (so_no (sc_ob c)) (sc_base c) ao bo (so_st3 (sc_ob c)) (so_major3 (sc_ob c)) None)
           || negb (log_nice_E lg_tolv (so_no (sc_ob c)) (sc_base c) ao bo (so_nst2 (sc_ob c)) (so_nmin2 (sc_ob c)) (so_nmax2 (sc_ob c)))) ->
           Hh = false ->
           log_nice_E lg_tolv (so_no (sc_ob c)) (sc_base c) (sc_mn c) (sc_mx c) (so_nst (sc_ob c)) (XFin ao) (XFin bo) = false \/
           log_ticks_E lg_tolv (so_no (sc_ob c)) (sc_base c) ao bo (so_st3 (sc_ob c)) (so_major3 (sc_ob c)) None = false \/
           log_nice_E lg_tolv (so_no (sc_ob c)) (sc_base c) ao bo (so_nst2 (sc_ob c)) (so_nmin2 (sc_ob c)) (so_nmax2 (sc_ob c)) = false).
  { intros Hh L E. apply (lok1_amb _ _ L) in E. apply Bool.orb_true_iff in E. destruct E as [E|E].
    - apply Bool.orb_true_iff in E. destruct E as [E|E]; apply Bool.negb_true_iff in E; auto.
    - apply Bool.negb_true_iff in E. auto. }
  unfold judge_log in H. cbv zeta in H.
  destruct (log_fold (sc_mn c) (sc_mx c)) as [[neg emin] emax] eqn:Ef.
  match type of H with context [log_first_last ?a1 true 0%Z] => destruct (log_first_last a1 true 0%Z) as [f0 l0] end.
  match type of H with context [log_nice_from ?a1 ?a2 ?a3 ?a4 ?a5 ?a6 ?a7 ?a8] => destruct (log_nice_from a1 a2 a3 a4 a5 a6 a7 a8) as [x y] eqn:Exy end.
  rewrite (proj1 Fin), (proj2 Fin) in H. rewrite Dom in H. cbn [negb] in H.
  destruct (log_fold ao bo) as [[neg3 emin3] emax3] eqn:Ef3.
  match type of H with context [log_nice_from ?a1 ao ?a3 ?a4 ?a5 ?a6 ?a7 ?a8] => destruct (log_nice_from a1 ao a3 a4 a5 a6 a7 a8) as [x3 y3] eqn:Exy3 end.
  apply conclude_border in H.
  unfold log_l45, log_ticks_E, log_ticks_A, log_nice_E, log_nice_A, log_levels_E, log_levels_A, log_nice_xy, log_rt, log_rn, log_adm, log_e,
         lf_neg, lf_emin, lf_emax, law40, law41, law43 in *.
  rewrite ?Ef, ?Ef3 in *. cbn [fst snd] in *. rewrite ?Exy, ?Exy3 in *. cbn [fst snd] in *.
  split_exists H; cbn [fst] in *.
  - left. now apply grp_ge1_false in X.
  - right. left. now apply grp_ge1_false in X.
  - right. left. apply law_ge1_false in X. apply (lok1_amb _ _ K21) in X. now apply Bool.negb_true_iff in X.
  - right. right. left. now apply grp_ge1_false in X.
  - exfalso. apply law_ge1_false in X. congruence.
  - right. right. right. left. now apply grp_ge1_false in X.
  - right. right. right. right. now apply grp_ge1_false in X.
  - right. right. apply law_ge1_false in X. exact (B _ K40 X).
  - right. right. apply law_ge1_false in X. exact (B _ K41 X).
  - exfalso. apply law_ge1_false in X. congruence.
  - right. right. apply law_ge1_false in X. exact (B _ K45 X).
Qed.

(* Ticks: also when the search finds no level *)
Lemma log_ticks_A_E tolv o base mn mx st major minor : le_amb (log_e base mn mx) = false ->
  (forall l, log_search o (log_e base mn mx) false = FL_ok l -> (match minor with Some _ => 1 | None => 0 end <= l)%Z) ->
  log_ticks_A tolv o base mn mx st major minor = true -> log_ticks_E tolv o base mn mx st major minor = true.
Proof.
  intros W L H. destruct (log_search o (log_e base mn mx) false) as [l| |] eqn:F.
  - exact (log_ticks_A_window tolv o base mn mx st major minor l W F (L l eq_refl) H).
  - unfold log_ticks_A in H. rewrite (log_adm_window _ _ _ W) in H. cbn [existsb] in H. rewrite Bool.orb_false_r in H.
    apply andb_prop in H. destruct H as [H H4]. apply andb_prop in H. destruct H as [H H3]. apply andb_prop in H. destruct H as [H1 H2].
    apply Bool.negb_true_iff in H1. apply Z.leb_le in H2. unfold log_ticks_adm1 in H4. rewrite F in H4.
    unfold log_ticks_E, log_rt, log_ticks_from. rewrite H1, F. replace (o_max o <=? 0)%Z with false by (symmetry; apply Z.leb_gt; lia).
    unfold ticks_exact. now rewrite H3, H4.
  - unfold log_ticks_A in H. rewrite (log_adm_window _ _ _ W) in H. cbn [existsb] in H. rewrite Bool.orb_false_r in H.
    apply andb_prop in H. destruct H as [H H4]. apply andb_prop in H. destruct H as [H H3]. apply andb_prop in H. destruct H as [H1 H2].
    apply Bool.negb_true_iff in H1. apply Z.leb_le in H2. unfold log_ticks_adm1 in H4. rewrite F in H4.
    unfold log_ticks_E, log_rt, log_ticks_from. rewrite H1, F. replace (o_max o <=? 0)%Z with false by (symmetry; apply Z.leb_gt; lia).
    unfold ticks_exact. now rewrite H3, H4.
Qed.
Lemma log_levels_A_E tolv base mn mx levels : le_amb (log_e base mn mx) = false ->
  (forall lv, In lv levels -> (0 <= lv_level lv)%Z) ->
  log_levels_A tolv base mn mx levels = true -> log_levels_E tolv base mn mx levels = true.
Proof.
  intros W L H. unfold log_levels_A in H. apply andb_prop in H. destruct H as [_ H]. unfold log_levels_E.
  apply forallb_forall. intros lv Hlv. pose proof (proj1 (forallb_forall _ _) H lv Hlv) as K. cbv beta in K.
  apply Bool.orb_true_iff in K. destruct K as [K|K]; [exact K|].
  exact (log_level_adm_window base mn mx tolv lv W (L lv Hlv) K).
Qed.

(* THE BORDERLINE VERDICT OF A LOG CASE needs an undecided slack decision (of the given or of the observed new
   domain) or minor ticks (a level below 0 in Ticks(o), in a recorded level or in Ticks after Nice) *)
Theorem log_borderline_needs_window c t p d : judge_log c = verdict 1 t p d ->
  exists ao bo, so_nmin (sc_ob c) = XFin ao /\ so_nmax (sc_ob c) = XFin bo /\
  let base := sc_base c in let mn := sc_mn c in let mx := sc_mx c in let ob := sc_ob c in
  ~ (le_amb (log_e base mn mx) = false /\ le_amb (log_e base ao bo) = false /\
     (forall l, log_search (sc_o c) (log_e base mn mx) false = FL_ok l -> (1 <= l)%Z) /\
     (forall lv, In lv (so_levels ob) -> (0 <= lv_level lv)%Z) /\
     (forall l, log_search (so_no ob) (log_e base ao bo) false = FL_ok l -> (0 <= l)%Z)).
Proof.
  intros H. destruct (judge_log_groups c 1%Z t p d H (or_intror eq_refl)) as (ao & bo & Gs).
  exists ao, bo. pose proof (judge_log_border_witness c t p d ao bo H Gs) as Wt. cbv zeta in Wt.
  destruct Gs as [t1 t2 t3 t4 t5 t6 Fin Dom K10 K20 K21 K30 K35 K36 K37 b1 b2 K40 K41 K43 K45]. subst t1 t2 t3 t4 t5 t6 b1 b2.
  split; [exact (proj1 Fin)|]. split; [exact (proj2 Fin)|]. cbv zeta. intros (W1 & W3 & L1 & L2 & L3).
  assert (G : forall E A, gok 1 E A -> E = false -> A = true) by (intros E A [K|(_ & _ & K)] F; [congruence | exact K]).
  destruct Wt as [F|[F|[F|[F|F]]]].
  - pose proof (log_ticks_A_E _ _ _ _ _ _ _ (Some (so_minor (sc_ob c))) W1 L1 (G _ _ K10 F)). congruence.
  - pose proof (log_levels_A_E _ _ _ _ _ W1 L2 (G _ _ K20 F)). congruence.
  - pose proof (log_nice_A_window _ _ _ _ _ _ _ _ W1 (G _ _ K30 F)). congruence.
  - pose proof (log_ticks_A_E _ _ _ _ _ _ _ None W3 L3 (G _ _ K36 F)). congruence.
  - pose proof (log_nice_A_window _ _ _ _ _ _ _ _ W3 (G _ _ K37 F)). congruence.
Qed.

(* Proofs/CheckC17WinLog.v — (helper hI-c17p) the borderline rule of Check/C17.v (verdict code 1), Log:
   when no slack decision of log_exps is undecided (le_amb = false) the admissible exponent choices are
   the singleton exact one; then Nice, and Ticks / TicksAtLevel at levels >= 0 (no minor ticks involved),
   that pass the admissible comparison pass the exact one.  Closed under the global context. *)
From Coq Require Import Qround Lqa.
From MM Require Import Base.Num Model.Ticks Proofs.Ticks Check.C17 Proofs.CheckBase Proofs.CheckC17Base Proofs.CheckC17Log.
Local Open Scope Q_scope.

Lemma log_adm_window base mn mx : le_amb (log_e base mn mx) = false -> log_adm base mn mx = [log_e base mn mx].
Proof. unfold log_adm. now intros ->. Qed.

Theorem log_nice_A_window tolv o base mn mx st a b : le_amb (log_e base mn mx) = false ->
  log_nice_A tolv o base mn mx st a b = true -> log_nice_E tolv o base mn mx st a b = true.
Proof.
  intros W H. unfold log_nice_A in H. rewrite (log_adm_window _ _ _ W) in H. unfold log_nice_E, log_nice_xy, log_rn.
  apply andb_prop in H. destruct H as [H H3]. apply andb_prop in H. destruct H as [H1 H2].
  apply Bool.negb_true_iff in H1. rewrite H1, H2. cbn [andb].
  destruct a as [| |a2]; try discriminate. destruct b as [| |b2]; try discriminate.
  cbn [existsb] in H3. rewrite Bool.orb_false_r in H3.
  destruct (log_nice_from base mn mx (log_e base mn mx) (lf_neg mn mx) (lf_emin mn mx) (lf_emax mn mx) (log_search o (log_e base mn mx) true)) as [x y].
  cbn [fst snd xwithin]. exact H3.
Qed.

(* a tick list without optional elements: the optional comparison is the plain one *)
Lemma close_list_opt_plain tol : forall L obs, close_list_opt tol (map (fun q => (q, false)) L) obs = close_list tol L obs.
Proof.
  induction L as [|e L IH]; intros obs; cbn; [reflexivity|].
  destruct obs as [|[| |o] ot]; try reflexivity. destruct (within (tol e) e o); [apply IH | reflexivity].
Qed.
Lemma log_at_opt_plain b e neg emin emax ro l : (0 <= l)%Z ->
  log_at_opt b e neg emin emax ro l = map (fun q => (q, false)) (log_ticks_at' b e neg emin emax ro l).
Proof.
  intro Hl. unfold log_at_opt, log_ticks_at', log_ticks_pos. replace (l <? 0)%Z with false by (symmetry; apply Z.ltb_ge; lia).
  destruct (log_first_last e ro l) as [f la]. destruct neg; [|reflexivity].
  unfold neg_rev. rewrite map_rev, !map_map. reflexivity.
Qed.

Theorem log_level_adm_window base mn mx tolv lv : le_amb (log_e base mn mx) = false -> (0 <= lv_level lv)%Z ->
  existsb (log_level_adm1 base (lf_neg mn mx) (lf_emin mn mx) (lf_emax mn mx) tolv lv) (log_adm base mn mx) = true ->
  log_level_exact base (log_e base mn mx) (lf_neg mn mx) (lf_emin mn mx) (lf_emax mn mx) tolv lv = true.
Proof.
  intros W Hl H. rewrite (log_adm_window _ _ _ W) in H. cbn [existsb] in H. rewrite Bool.orb_false_r in H.
  unfold log_level_adm1 in H. unfold log_level_exact. rewrite (log_at_opt_plain _ _ _ _ _ _ _ Hl), close_list_opt_plain in H.
  apply andb_prop in H. destruct H as [H H3]. apply andb_prop in H. destruct H as [H _]. now rewrite H, H3.
Qed.

Theorem log_ticks_A_window tolv o base mn mx st major minor l : le_amb (log_e base mn mx) = false ->
  log_search o (log_e base mn mx) false = FL_ok l -> (match minor with Some _ => 1 | None => 0 end <= l)%Z ->
  log_ticks_A tolv o base mn mx st major minor = true -> log_ticks_E tolv o base mn mx st major minor = true.
Proof.
  intros W F Hl H. unfold log_ticks_A in H. rewrite (log_adm_window _ _ _ W) in H. cbn [existsb] in H. rewrite Bool.orb_false_r in H.
  apply andb_prop in H. destruct H as [H H4]. apply andb_prop in H. destruct H as [H H3]. apply andb_prop in H. destruct H as [H1 H2].
  apply Bool.negb_true_iff in H1. apply Z.leb_le in H2.
  unfold log_ticks_adm1 in H4. rewrite F in H4.
  unfold log_ticks_E, log_rt, log_ticks_from. rewrite H1, F. replace (o_max o <=? 0)%Z with false by (symmetry; apply Z.leb_gt; lia).
  unfold ticks_exact. rewrite H3. cbn [andb].
  apply andb_prop in H4. destruct H4 as [Hma Hmi].
  rewrite log_at_opt_plain, close_list_opt_plain in Hma by (destruct minor; lia). rewrite Hma. cbn [andb].
  destruct minor as [mi|]; [|reflexivity].
  rewrite log_at_opt_plain, close_list_opt_plain in Hmi by lia. exact Hmi.
Qed.

(* Proofs/CheckC18.v — (group hI) comparator soundness of check_C18: the dispatch over the operation
   code and the per-family statements about whole case lines (used by Properties/C18.v).
   An accepted verdict (code 0; check_C18 never returns the borderline code 1) means: the line is
   18 :: op :: rest with op in 1..11, [rest] is EXACTLY the encoding of the case of that operation
   (nothing left over) and every observed value equals the specification-level value; see
   Proofs/CheckC18Marks.v (op 1), CheckC18Trav.v (op 2), CheckC18Scc.v (op 3), CheckC18Graph.v (ops 4-6),
   CheckC18Sub.v (ops 7, 8), CheckC18Dot.v (ops 9, 10), CheckC18Hist.v (op 11).  Closed under the global context. *)
From Coq Require Import Permutation Sorted.
From MM Require Import Base.Num Base.GCGraph Base.GCReach Model.Marks Spec.Dfs Spec.Scc Model.Graph Proofs.Graph Model.Subgraph Proofs.Subgraph Proofs.SubgraphAny Model.Dot Proofs.Dot
  Check.C18 Proofs.CheckBase Proofs.CheckC18Base
  Proofs.CheckC18Marks Proofs.CheckC18Trav Proofs.CheckC18Scc Proofs.CheckC18Graph Proofs.CheckC18Sub Proofs.CheckC18Dot Proofs.CheckC18Hist.
Local Open Scope Z_scope.

Definition case_ok (op : Z) (rest : list Z) : Prop :=
  (op = 1 /\ marks_case_ok rest) \/ (op = 2 /\ trav_case_ok rest) \/ (op = 3 /\ scc_case_ok rest) \/
  (op = 4 /\ bigraph_case_ok rest) \/ (op = 5 /\ equal_case_ok rest) \/ (op = 6 /\ simplify_case_ok rest) \/
  (op = 7 /\ keep_case_ok rest) \/ (op = 8 /\ remove_case_ok rest) \/
  (op = 9 /\ dotstring_case_ok rest) \/ (op = 10 /\ sprint_case_ok rest) \/ (op = 11 /\ hist_case_ok rest).

Theorem check_ok_sound : forall line c tag pos diag,
  check_C18 line = verdict c tag pos diag -> c = 0 \/ c = 1 ->
  c = 0 /\ exists op rest, line = 18 :: op :: rest /\ case_ok op rest.
Proof.
  intros line c tag pos diag H Hc.
  destruct (check_C18_dispatch _ _ _ _ _ H Hc) as (op & rest & r & -> & Hop & E).
  assert (Hcase : op = 1 \/ op = 2 \/ op = 3 \/ op = 4 \/ op = 5 \/ op = 6 \/ op = 7 \/ op = 8 \/ op = 9 \/ op = 10 \/ op = 11) by lia.
  unfold case_ok.
  destruct Hcase as [->|[->|[->|[->|[->|[->|[->|[->|[->|[->| ->]]]]]]]]]]; cbn in E.
  - destruct (check_marks_sound _ _ _ _ E Hc) as (-> & _ & K). split; [reflexivity|]. exists 1, rest. split; [reflexivity|]. tauto.
  - destruct (check_trav_sound _ _ _ _ E Hc) as (-> & _ & K). split; [reflexivity|]. exists 2, rest. split; [reflexivity|]. tauto.
  - destruct (check_scc_sound _ _ _ _ E Hc) as (-> & _ & K). split; [reflexivity|]. exists 3, rest. split; [reflexivity|]. tauto.
  - destruct (check_bigraph_sound _ _ _ _ E Hc) as (-> & _ & K). split; [reflexivity|]. exists 4, rest. split; [reflexivity|]. tauto.
  - destruct (check_equal_sound _ _ _ _ E Hc) as (-> & _ & K). split; [reflexivity|]. exists 5, rest. split; [reflexivity|]. tauto.
  - destruct (check_simplify_sound _ _ _ _ E Hc) as (-> & _ & K). split; [reflexivity|]. exists 6, rest. split; [reflexivity|]. tauto.
  - destruct (check_keep_sound _ _ _ _ E Hc) as (-> & _ & K). split; [reflexivity|]. exists 7, rest. split; [reflexivity|]. tauto.
  - destruct (check_remove_sound _ _ _ _ E Hc) as (-> & _ & K). split; [reflexivity|]. exists 8, rest. split; [reflexivity|]. tauto.
  - destruct (check_dotstring_sound _ _ _ _ E Hc) as (-> & _ & K). split; [reflexivity|]. exists 9, rest. split; [reflexivity|]. tauto.
  - destruct (check_sprint_sound _ _ _ _ E Hc) as (-> & _ & K). split; [reflexivity|]. exists 10, rest. split; [reflexivity|]. tauto.
  - destruct (check_hist_sound _ _ _ _ E Hc) as (-> & _ & K). split; [reflexivity|]. exists 11, rest. split; [reflexivity|]. tauto.
Qed.


(* the case predicates, unfolded (Properties/C18.v states them in full) *)
Local Open Scope Z_scope.
Lemma case_meaning_traversals : forall rest,
  (marks_case_ok rest <->
     exists h : list (mop * Z), rest = Z.of_nat (length h) :: flat_map enc_mop h /\ h <> [] /\ set_run (fun _ => False) h) /\
  (trav_case_ok rest <->
     exists g obs, rest = enc_graph g ++ Z.of_nat (length obs) :: flat_map enc_trav obs ++ 1 :: enc_graph g /\
       g_wf g /\ obs <> [] /\
       Forall (fun o =>
         ((t_root o < 0 \/ Z.of_nat (length g) <= t_root o) ->
            t_status o = 2 /\ t_pre o = [] /\ t_post o = [] /\ t_rev o = [] /\ t_rva o = [] /\ t_eul o = [] /\ t_ent o = [] /\ t_ext o = []) /\
         (0 <= t_root o < Z.of_nat (length g) ->
            t_status o = 0 /\
            exists evs V', dfs_node (g_out g) [] (Z.to_N (t_root o)) evs V' /\
              t_pre o = ZsN (enters evs) /\ t_post o = ZsN (exits evs) /\
              t_rev o = ZsN (rev (exits evs)) /\ t_rva o = ZsN (rev (exits evs)) /\
              t_eul o = map ev_code evs /\
              t_ent o = map ev_code (filter is_enter evs) /\ t_ext o = map ev_code (filter is_exit evs))) obs) /\
  (scc_case_ok rest <->
     exists g flags compsN hascof cof outsN,
       rest = enc_graph g ++ flags :: 0 :: enc_Zss (map ZsN compsN) ++ hascof :: enc_Zs cof ++ enc_Zss (map ZsN outsN) ++ 1 :: enc_graph g /\
       g_wf g /\
       scc_spec g compsN /\
       hascof = (if flags =? 0 then 0 else 1) /\
       (flags = 0 -> cof = []) /\
       (flags <> 0 -> length cof = length g /\
          forall c v, In v (comp_at compsN c) -> nth (N.to_nat v) cof (-1) = Z.of_nat c) /\
       length outsN = length compsN /\
       (if Z.testbit flags 1 then scc_edges_spec g compsN outsN else Forall (fun l => l = []) outsN) /\
       Forall (StronglySorted N.lt) outsN).
Proof. intro rest. repeat match goal with |- _ /\ _ => split | |- _ <-> _ => split end; exact (fun H => H). Qed.
Lemma case_meaning_graphops : forall rest,
  (bigraph_case_ok rest <-> exists g insN,
     rest = enc_graph g ++ 0 :: enc_Zss (map ZsN insN) ++ enc_graph g ++ 1 :: 1 :: enc_graph g /\
     g_wf g /\ length insN = length g /\
     (forall i j, (j < length g)%nat -> count_occ N.eq_dec (nth j insN []) i = count_occ N.eq_dec (g_out g i) (N.of_nat j)) /\
     Forall (Sorted N.le) insN) /\
  (equal_case_ok rest <-> exists g1 g2 res,
     rest = enc_graph g1 ++ enc_graph g2 ++ 0 :: res :: res :: 1 :: enc_graph g1 ++ enc_graph g2 /\
     g_wf g1 /\ g_wf g2 /\ (res = 0 \/ res = 1) /\
     (res = 1 <-> (length g1 = length g2 /\ forall i, Permutation (g_out g1 i) (g_out g2 i)))) /\
  (simplify_case_ok rest <-> exists g weighted ws rg rws wg obs,
     rest = enc_graph g ++ weighted :: enc_Zss ws ++ 0 :: enc_graph rg ++ enc_Zss rws ++ 1 :: enc_graph g /\
     g_wf g /\
     (if weighted =? 0 then wg = unit_weights g /\ ws = []
      else Forall2 (fun tw a => wadj_decodes (fst tw) (snd tw) a) (combine g ws) wg /\ length ws = length g) /\
     map (map fst) wg = g /\
     Forall2 (fun tw a => wadj_decodes (fst tw) (snd tw) a) (combine rg rws) obs /\ length rws = length rg /\
     length rg = length g /\
     Forall2 (fun a o =>
       map fst o = first_occ (map fst a) /\ NoDup (map fst o) /\
       (forall t, In t (map fst o) <-> In t (map fst a)) /\
       (forall t w, In (t, w) o -> (w == wsum t a)%Q)) wg obs /\
     ((weighted =? 0) = true ->
        Forall2 (fun l o => forall t w, In (t, w) o -> (w == inject_Z (Z.of_nat (count_occ N.eq_dec l t)))%Q) g obs)) /\
  (keep_case_ok rest <-> exists g nodes edges status obs,
     let eflat := flat_pairs edges in
     rest = enc_graph g ++ enc_Zs nodes ++ enc_Zs eflat ++ status :: Z.of_nat (length obs) :: flat_map enc_sgobs obs
            ++ 1 :: enc_graph g ++ enc_Zs nodes ++ enc_Zs eflat /\
     g_wf g /\
     let nodesN := NsZ nodes in
     let edgesN := map (fun e => (Z.to_N (fst e), Z.to_N (snd e))) edges in
     let neg := existsb (fun x => x <? 0) (nodes ++ eflat) in
     sg_matches (if neg then None else keep_any g nodesN edgesN) status obs /\
     (neg = false -> keep_wf g nodesN edgesN ->
        status = 0 /\ exists s, Forall2 sg_row s obs /\ keep_spec_concl g nodesN edgesN s) /\
     (neg = false -> (exists v, In v nodesN /\ (g_n g <= v)%N) \/ ~ NoDup nodesN -> status = 2)) /\
  (remove_case_ok rest <-> exists g nodes edges status obs,
     let eflat := flat_pairs edges in
     rest = enc_graph g ++ enc_Zs nodes ++ enc_Zs eflat ++ status :: Z.of_nat (length obs) :: flat_map enc_sgobs obs
            ++ 1 :: enc_graph g ++ enc_Zs nodes ++ enc_Zs eflat /\
     g_wf g /\
     sg_matches (subgraph_remove g nodes edges) status obs /\
     ((zdistinct nodes <= length g)%nat ->
        status = 0 /\ exists s, Forall2 sg_row s obs /\ remove_spec_concl g nodes edges s) /\
     ((length g < zdistinct nodes)%nat -> status = 2)) /\
  (dotstring_case_ok rest <-> exists sz obs, rest = enc_Zs sz ++ 0 :: enc_Zs obs /\
     let s := NsZ sz in obs = ZsN (dot_string s) /\ unescape (NsZ obs) = Some s) /\
  (sprint_case_ok rest <-> exists g name haslabel labels hasn nattrs hase eattrs status obs,
     parse_sprint rest = Some ((g, name, haslabel, labels, hasn, nattrs, hase, eattrs, status, obs, 1, g), []) /\
     g_wf g /\
     let d := sprint_opts name haslabel labels hasn nattrs hase eattrs in
     let stmts := dot_stmts d (g_out g) (g_n g) in
     somes (map stmt_node stmts) = nodes_upto (g_n g) /\
     somes (map stmt_edge stmts) = flat_map (fun i => map (fun o => (i, o)) (g_out g i)) (nodes_upto (g_n g)) /\
     ((status = 0 /\ (forall s a, In s stmts -> In a (stmt_attrs s) -> snd a <> AOther) /\
       exists body, render_all stmts = Some body /\
         obs = ZsN ([100; 105; 103; 114; 97; 112; 104; 32] ++ dot_string (d_name d) ++ [32; 123; 10] ++ body ++ [125; 10])%N)
      \/ (status = 2 /\ obs = [] /\ exists s a, In s stmts /\ In a (stmt_attrs s) /\ snd a = AOther))) /\
  (hist_case_ok rest <-> exists (steps : list (Z * list Z)) g,
     rest = Z.of_nat (length steps) :: flat_map (fun s => Z.of_nat (S (length (snd s))) :: fst s :: snd s) steps /\
     steps <> [] /\
     Forall (fun s =>
       (exists r, snd s = enc_graph g ++ r) /\
       ((fst s = 2 /\ trav_case_ok (snd s)) \/ (fst s = 3 /\ scc_case_ok (snd s)) \/ (fst s = 4 /\ bigraph_case_ok (snd s)) \/
        (fst s = 5 /\ equal_case_ok (snd s)) \/ (fst s = 6 /\ simplify_case_ok (snd s)) \/ (fst s = 7 /\ keep_case_ok (snd s)) \/
        (fst s = 8 /\ remove_case_ok (snd s)) \/ (fst s = 10 /\ sprint_case_ok (snd s)))) steps).
Proof. intro rest. repeat match goal with |- _ /\ _ => split | |- _ <-> _ => split end; exact (fun H => H). Qed.

(* Proofs/CheckC18Base.v — (group hI) shared lemmas for the comparator-soundness proofs of
   check_C18 (Proofs/CheckC18*.v): the meaning of [first_false], of the count-prefixed list
   parsers [p_Zs] / [p_graph] (the exact layout of the integers they consume), the dispatch of
   [check_C18] on the operation code, and small tactics for parser inversion.
   Everything is over Z/N/lists and closed under the global context. *)
From Coq Require Import FMapPositive.
From MM Require Import Base.Num Base.GCGraph Model.Graph Proofs.Graph Check.C18 Proofs.CheckBase.
Local Open Scope Z_scope.

(* ---------- first_false ---------- *)
Lemma first_false_go_None : forall l i,
  (fix go (l : list bool) (i : Z) := match l with [] => None | true :: t => go t (i + 1) | false :: _ => Some i end) l i = None ->
  Forall (fun b => b = true) l.
Proof.
  induction l as [|b l IH]; intros i H; [constructor|].
  destruct b; [|discriminate]. constructor; [reflexivity|]. eapply IH. exact H.
Qed.
Lemma first_false_None : forall l, first_false l = None -> Forall (fun b => b = true) l.
Proof. intros l H. unfold first_false in H. eapply first_false_go_None. exact H. Qed.
Lemma first_false_forallb : forall l, first_false l = None -> forallb (fun b => b) l = true.
Proof. intros l H. apply first_false_None in H. induction H; cbn; [reflexivity|]. subst. exact IHForall. Qed.
Lemma first_false_not_exists : forall l, first_false l = None -> existsb negb l = false.
Proof. intros l H. apply first_false_None in H. induction H; cbn; [reflexivity|]. subst. exact IHForall. Qed.
Lemma first_false_In : forall l b, first_false l = None -> In b l -> b = true.
Proof. intros l b H. apply first_false_None in H. rewrite Forall_forall in H. apply H. Qed.
Lemma Forall_cons_inv {A} (P : A -> Prop) a l : Forall P (a :: l) -> P a /\ Forall P l.
Proof. intro H. inversion H; auto. Qed.

(* all entries of [first_false [...] = None] as separate hypotheses [entry = true], whatever
   their number: later proofs pick them by their shape, not by their position *)
Ltac ff_split W :=
  apply first_false_None in W;
  repeat (let H := fresh "Hff" in apply Forall_cons_inv in W; destruct W as [H W]);
  clear W.

(* ---------- accepted verdicts ---------- *)
(* the right-hand side is any list with head c': the per-operation theorems are also used for the steps
   of an op-11 history, where the verdict of a step is only known as c :: v *)
Lemma verdict_code c t p d c' v : verdict c t p d = c' :: v -> c = c'.
Proof. unfold verdict. intro H. injection H. auto. Qed.
(* closes a goal whose hypothesis H says that a MISMATCH / MALFORMED verdict has code 0 or 1 *)
Ltac rejected H :=
  exfalso; apply verdict_code in H; unfold V_MISMATCH, V_MALFORMED in H; lia.

(* the common tail "match w with None => OK | Some k => MISMATCH" *)
Lemma ok_or_mismatch (w : option Z) t (f g : Z -> Z) (h : Z -> list Z) c v :
  match w with None => verdict V_OK t (-1) [] | Some k => verdict V_MISMATCH (f k) (g k) (h k) end = c :: v ->
  c = 0 \/ c = 1 -> w = None /\ c = 0.
Proof.
  intros H Hc. destruct w as [k|].
  - exfalso. apply verdict_code in H. unfold V_MISMATCH in H. lia.
  - apply verdict_code in H. unfold V_OK in H. auto.
Qed.

(* ---------- parser combinators ---------- *)
Lemma pbind_eq {A B} (p : parser A) (f : A -> parser B) l a r : p l = Some (a, r) -> pbind p f l = f a r.
Proof. unfold pbind. intros ->. reflexivity. Qed.
Lemma pend_nil {A} (a : A) : pend a [] = Some (a, []).
Proof. reflexivity. Qed.

(* H : (do a <- p1; do b <- p2; ... pend F) l = Some (v, r): one equation per element parser *)
Ltac pinv H :=
  repeat (let a := fresh "a" in let r := fresh "r" in let E := fresh "E" in
          apply pbind_some in H; destruct H as (a & r & E & H));
  let E1 := fresh "Ev" in let E2 := fresh "El" in let E3 := fresh "Er" in
  apply pend_some in H; destruct H as (E1 & E2 & E3); symmetry in E1.
(* the converse: rebuild a parse from the equations *)
Ltac prebuild :=
  repeat (erewrite pbind_eq by eassumption); try apply pend_nil.

Lemma plist_any_Forall {A} (p : parser A) (P : A -> Prop) :
  (forall l a r, p l = Some (a, r) -> P a) -> forall l xs r, plist_any p l = Some (xs, r) -> Forall P xs.
Proof.
  intros HP l xs r H. unfold plist_any in H. apply plist_some in H.
  destruct H as (n & r0 & _ & _ & H & _). eapply prep_Forall; eauto.
Qed.

(* layout of a count-prefixed list: if the element parser consumes exactly [enc a], the list parser
   consumes the count followed by the concatenated encodings *)
Lemma prep_layout {A} (p : parser A) (enc : A -> list Z) :
  (forall l a r, p l = Some (a, r) -> l = enc a ++ r) ->
  forall n l xs r, prep p n l = Some (xs, r) -> l = flat_map enc xs ++ r.
Proof.
  intros HP. induction n as [|n IH]; cbn; intros l xs r H.
  - apply pret_some in H. destruct H as [-> ->]. reflexivity.
  - apply pbind_some in H. destruct H as (a & r1 & Ha & H). apply pbind_some in H. destruct H as (t & r2 & H & H').
    apply pret_some in H'. destruct H' as [-> ->]. apply HP in Ha. apply IH in H. subst. cbn. rewrite <- app_assoc. reflexivity.
Qed.
Lemma plist_any_layout {A} (p : parser A) (enc : A -> list Z) :
  (forall l a r, p l = Some (a, r) -> l = enc a ++ r) ->
  forall l xs r, plist_any p l = Some (xs, r) -> l = Z.of_nat (length xs) :: flat_map enc xs ++ r.
Proof.
  intros HP l xs r H. unfold plist_any in H. apply plist_some in H.
  destruct H as (n & r0 & -> & _ & H & L). apply (prep_layout p enc HP) in H. subst. reflexivity.
Qed.

(* ---------- p_Zs: count, then that many integers ---------- *)
Lemma ptake_some : forall l k acc xs r, ptake l k acc = Some (xs, r) ->
  exists ys, xs = rev acc ++ ys /\ l = ys ++ r /\ Z.of_nat (length ys) = Z.max k 0.
Proof.
  induction l as [|x l IH]; intros k acc xs r H; cbn in H.
  - destruct (k <=? 0) eqn:E; [|discriminate]. apply Z.leb_le in E. injection H as <- <-.
    exists []. rewrite rev_append_rev, !app_nil_r. cbn. repeat split; lia.
  - destruct (k <=? 0) eqn:E.
    + apply Z.leb_le in E. injection H as <- <-. exists []. rewrite rev_append_rev, !app_nil_r. cbn. repeat split; lia.
    + apply Z.leb_gt in E. apply IH in H. destruct H as (ys & -> & -> & L). exists (x :: ys).
      cbn [rev length]. rewrite <- app_assoc. cbn. repeat split. lia.
Qed.
Lemma p_Zs_some : forall l xs r, p_Zs l = Some (xs, r) -> l = Z.of_nat (length xs) :: xs ++ r.
Proof.
  intros [|k l] xs r H; cbn in H; [discriminate|].
  destruct (k <? 0) eqn:E; [discriminate|]. apply Z.ltb_ge in E.
  apply ptake_some in H. destruct H as (ys & -> & -> & L). cbn. f_equal. lia.
Qed.

Definition enc_Zs (xs : list Z) : list Z := Z.of_nat (length xs) :: xs.
Lemma p_Zs_layout : forall l xs r, p_Zs l = Some (xs, r) -> l = enc_Zs xs ++ r.
Proof. intros l xs r H. apply p_Zs_some in H. exact H. Qed.
Definition enc_Zss (xss : list (list Z)) : list Z := Z.of_nat (length xss) :: flat_map enc_Zs xss.
Lemma p_Zss_layout : forall l xss r, plist_any p_Zs l = Some (xss, r) -> l = enc_Zss xss ++ r.
Proof. intros l xss r H. apply (plist_any_layout p_Zs enc_Zs p_Zs_layout) in H. exact H. Qed.

(* ---------- p_graph: n, then per node its degree and its targets ---------- *)
Definition enc_adj (l : list N) : list Z := Z.of_nat (length l) :: ZsN l.
Definition enc_graph (g : graph) : list Z := Z.of_nat (length g) :: flat_map enc_adj g.

Lemma pg_go_some : forall l k d cur acc g r, pg_go l k d cur acc = Some (g, r) ->
  (d < 0 -> 0 <= k -> exists g', g = rev acc ++ g' /\ l = flat_map enc_adj g' ++ r /\ Z.of_nat (length g') = k) /\
  (1 <= d -> 1 <= k -> exists ts g', g = rev acc ++ (rev cur ++ ts) :: g' /\ l = ZsN ts ++ flat_map enc_adj g' ++ r /\
                                   Z.of_nat (length ts) = d /\ Z.of_nat (length g') = k - 1).
Proof.
  induction l as [|x l IH]; intros k d cur acc g r H.
  - cbn in H. destruct ((d <? 0) && (k =? 0)) eqn:E; [|discriminate].
    apply andb_prop in E. destruct E as [E1 E2]. apply Z.ltb_lt in E1. apply Z.eqb_eq in E2.
    injection H as <- <-. split; [|lia]. intros _ _. exists []. rewrite rev_append_rev, !app_nil_r. cbn. repeat split; lia.
  - cbn [pg_go] in H. destruct ((d <? 0) && (k =? 0)) eqn:E.
    { apply andb_prop in E. destruct E as [E1 E2]. apply Z.ltb_lt in E1. apply Z.eqb_eq in E2.
      injection H as <- <-. split; [|lia]. intros _ _. exists []. rewrite rev_append_rev, !app_nil_r. cbn. repeat split; lia. }
    destruct (x <? 0) eqn:Ex; [discriminate|]. apply Z.ltb_ge in Ex.
    destruct (d <? 0) eqn:Ed.
    + cbn in E. apply Z.eqb_neq in E. apply Z.ltb_lt in Ed.
      split; [|lia]. intros _ Hk.
      destruct (x =? 0) eqn:Ex0.
      * apply Z.eqb_eq in Ex0. subst x. apply IH in H. destruct H as [H _].
        destruct H as (g' & -> & -> & L); [lia|lia|].
        exists ([] :: g'). cbn [rev]. rewrite <- app_assoc. cbn. repeat split. lia.
      * apply Z.eqb_neq in Ex0. apply IH in H. destruct H as [_ H].
        destruct H as (ts & g' & -> & -> & L1 & L2); [lia|lia|].
        exists ((rev [] ++ ts) :: g'). cbn. unfold enc_adj. cbn. rewrite <- app_assoc. repeat split; [|lia].
        f_equal; lia.
    + apply Z.ltb_ge in Ed. split; [lia|]. intros Hd Hk.
      destruct (d =? 1) eqn:Ed1.
      * apply Z.eqb_eq in Ed1. subst d. apply IH in H. destruct H as [H _].
        destruct H as (g' & -> & -> & L); [lia|lia|].
        exists [Z.to_N x], g'. rewrite rev_append_rev, app_nil_r. cbn [rev]. rewrite <- !app_assoc. cbn.
        rewrite Z2N.id by lia. repeat split. lia.
      * apply Z.eqb_neq in Ed1. apply IH in H. destruct H as [_ H].
        destruct H as (ts & g' & -> & -> & L1 & L2); [lia|lia|].
        exists (Z.to_N x :: ts), g'. cbn [rev]. rewrite <- !app_assoc. cbn.
        rewrite Z2N.id by lia. repeat split; lia.
Qed.

(* the integers p_graph consumes are exactly the encoding of the graph it returns *)
Lemma p_graph_some : forall l g r, p_graph l = Some (g, r) -> l = enc_graph g ++ r.
Proof.
  intros [|n l] g r H; cbn in H; [discriminate|].
  destruct (n <? 0) eqn:E; [discriminate|]. apply Z.ltb_ge in E.
  apply pg_go_some in H. destruct H as [H _]. destruct H as (g' & -> & -> & L); [lia|lia|].
  cbn. unfold enc_graph. cbn. f_equal. lia.
Qed.

(* turn every parser equation in the context into the layout of the integers it consumed *)
Ltac lay :=
  repeat match goal with
  | E : p_graph _ = Some _ |- _ => apply p_graph_some in E
  | E : p_Zs _ = Some _ |- _ => apply p_Zs_layout in E
  | E : pZ _ = Some _ |- _ => apply pZ_some in E
  | E : plist_any p_Zs _ = Some _ |- _ => apply p_Zss_layout in E
  end.

Lemma graph_eqb_eq : forall a b, graph_eqb a b = true -> a = b.
Proof.
  induction a as [|x a IH]; intros [|y b] H; cbn in H; try discriminate; [reflexivity|].
  apply andb_prop in H. destruct H as [H1 H2]. apply Ns_eqb_eq in H1. subst. f_equal. auto.
Qed.

(* replace the "argument after the call" graphs by the argument itself *)
Ltac geq := repeat match goal with H : graph_eqb _ ?b = true |- _ => apply graph_eqb_eq in H; subst b end.

(* ---------- ZsN / NsZ ---------- *)
Lemma NsZ_ZsN : forall l, NsZ (ZsN l) = l.
Proof. induction l; cbn; [reflexivity|]. rewrite N2Z.id. f_equal. exact IHl. Qed.
Lemma ZsN_NsZ : forall l, existsb (fun x => x <? 0) l = false -> ZsN (NsZ l) = l.
Proof.
  induction l as [|x l IH]; cbn; [reflexivity|]. intro H. apply Bool.orb_false_iff in H. destruct H as [H1 H2].
  apply Z.ltb_ge in H1. rewrite Z2N.id by lia. f_equal. auto.
Qed.
Lemma ZsN_inj : forall a b, ZsN a = ZsN b -> a = b.
Proof. intros a b H. rewrite <- (NsZ_ZsN a), <- (NsZ_ZsN b), H. reflexivity. Qed.
Lemma ZsN_length : forall l, length (ZsN l) = length l.
Proof. intro l. apply map_length. Qed.

Lemma oeq_some e obs : oeq e obs = true -> e = Some obs.
Proof. destruct e; cbn; [|discriminate]. intro H. apply list_Z_eqb_eq in H. now subst. Qed.

(* ---------- lists ---------- *)
Lemma nth_error_ext_local {A} : forall a b : list A, (forall k, nth_error a k = nth_error b k) -> a = b.
Proof.
  induction a as [|x a IH]; intros [|y b] H.
  - reflexivity.
  - specialize (H O). discriminate.
  - specialize (H O). discriminate.
  - pose proof (H O) as H0. cbn in H0. injection H0 as ->. f_equal. apply IH. intro k. exact (H (S k)).
Qed.
Lemma nth_error_seq : forall n s k, (k < n)%nat -> nth_error (seq s n) k = Some (s + k)%nat.
Proof.
  intros n s k H. rewrite (nth_error_nth' _ 0%nat) by (rewrite seq_length; exact H). rewrite seq_nth by exact H. reflexivity.
Qed.

(* ---------- dispatch ---------- *)
Definition check_of (op : Z) : parser (list Z) :=
  if op =? 1 then check_marks else if op =? 2 then check_trav else if op =? 3 then check_scc else if op =? 4 then check_bigraph
  else if op =? 5 then check_equal else if op =? 6 then check_simplify else if op =? 7 then check_keep else if op =? 8 then check_remove
  else if op =? 9 then check_dotstring else if op =? 10 then check_sprint else if op =? 11 then check_hist else pfail.

Lemma check_C18_dispatch : forall line c tag pos diag, check_C18 line = verdict c tag pos diag -> c = 0 \/ c = 1 ->
  exists op rest r, line = 18 :: op :: rest /\ 1 <= op <= 11 /\ check_of op rest = Some (verdict c tag pos diag, r).
Proof.
  intros line c tag pos diag H Hc. unfold check_C18 in H.
  destruct line as [|z line]; [rejected H|].
  destruct z as [|p|p]; try (rejected H).
  do 5 (destruct p as [p|p|]; try (rejected H)).
  destruct line as [|op rest]; [rejected H|].
  fold (check_of op) in H. destruct (check_of op rest) as [[v r]|] eqn:E; [|rejected H]. subst v.
  exists op, rest, r. split; [reflexivity|]. split; [|exact E].
  unfold check_of in E.
  repeat match type of E with (if ?b then _ else _) _ = _ => let Eb := fresh "Eb" in destruct b eqn:Eb; [apply Z.eqb_eq in Eb; lia|] end.
  discriminate.
Qed.

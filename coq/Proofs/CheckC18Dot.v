(* Proofs/CheckC18Dot.v — (group hI) what an accepted verdict of check_C18 means for op 9
   (DotString) and op 10 (Dot.Sprint).
   op 9: the rest of the line is exactly  <input bytes> 0 <observed bytes>; the observed bytes are
     dot_string of the input AND the proved reader [unescape] applied to the OBSERVED bytes returns
     the input (round trip on the output itself).
   op 10: the line parses to its end, the graph is well-formed, the arguments were not modified, and
     either the call returned (status 0) and the observed text is exactly
        "digraph " ++ quoted name ++ " {\n" ++ body ++ "}\n"
     where body is the rendering of the statement list [dot_stmts] (one node statement per node, one edge
     statement per edge, in order: C18_dot_nodes_once / C18_dot_edges_once) and no statement carries an
     attribute of unsupported type, or the call panicked (status 2, no output bytes) and some statement carries an attribute
     whose value has an unsupported type: the call panics EXACTLY when such an attribute is present.
   Closed under the global context. *)
From MM Require Import Base.Num Base.GCGraph Model.Dot Proofs.Dot Check.C18 Proofs.CheckBase Proofs.CheckC18Base.
Local Open Scope Z_scope.

Lemma bytes_eqb_eq : forall a b, bytes_eqb a b = true -> a = b.
Proof.
  induction a as [|x a IH]; intros [|y b] H; cbn in H; try discriminate; [reflexivity|].
  apply andb_prop in H. destruct H as [H1 H2]. apply N.eqb_eq in H1. subst. f_equal. auto.
Qed.
Lemma obytes_eqb_some e obs : obytes_eqb e obs = true -> exists b, e = Some b /\ obs = ZsN b.
Proof. destruct e as [b|]; cbn; [|discriminate]. intro H. apply list_Z_eqb_eq in H. eauto. Qed.

(* ====================================================================== op 9: DotString *)
Definition dotstring_case_ok (rest : list Z) : Prop :=
  exists sz obs, rest = enc_Zs sz ++ 0 :: enc_Zs obs /\
    let s := NsZ sz in                         (* the argument, as bytes *)
    obs = ZsN (dot_string s) /\ unescape (NsZ obs) = Some s.

Theorem check_dotstring_sound : forall l c v r,
  check_dotstring l = Some (c :: v, r) -> c = 0 \/ c = 1 -> c = 0 /\ r = [] /\ dotstring_case_ok l.
Proof.
  intros l c v r H Hc. unfold check_dotstring in H. pinv H. subst.
  cbv zeta in Ev. apply ok_or_mismatch in Ev; [|exact Hc]. destruct Ev as [W ->]. ff_split W.
  match goal with H : (_ =? _) = true |- _ => apply Z.eqb_eq in H; subst end.
  match goal with H : obytes_eqb _ _ = true |- _ => apply obytes_eqb_some in H; destruct H as (b & Eb & Eo) end.
  injection Eb as <-.
  match goal with H : match unescape ?x with _ => _ end = true |- _ => destruct (unescape x) as [u|] eqn:EU; [apply bytes_eqb_eq in H|discriminate] end.
  subst u. split; [reflexivity|]. split; [reflexivity|].
  exists a, a1. split.
  - apply p_Zs_layout in E, E1. apply pZ_some in E0. subst. rewrite app_nil_r. reflexivity.
  - cbv zeta. split; [exact Eo|exact EU].
Qed.

(* ====================================================================== op 10: Dot.Sprint *)
Definition parse_sprint : parser (graph * list Z * Z * list (list Z) * Z * list (list attr) * Z * list (list (list attr)) * Z * list Z * Z * graph) :=
  do g <- p_graph; do name <- p_Zs;
  do haslabel <- pZ; do labels <- plist_any p_Zs;
  do hasn <- pZ; do nattrs <- plist_any p_attrs;
  do hase <- pZ; do eattrs <- plist_any (plist_any p_attrs);
  do status <- pZ; do obs <- p_Zs; do pure <- pZ; do g' <- p_graph;
  pend (g, name, haslabel, labels, hasn, nattrs, hase, eattrs, status, obs, pure, g').

(* the Dot value the line describes: a has-flag 0 stands for a nil function; tables are indexed by
   node (and edge index), missing rows read as empty *)
Definition sprint_opts (name : list Z) (haslabel : Z) (labels : list (list Z)) (hasn : Z) (nattrs : list (list attr))
                       (hase : Z) (eattrs : list (list (list attr))) : dot_opts :=
  mk_dot_opts (NsZ name)
    (if haslabel =? 0 then None else Some (fun i => NsZ (nth (N.to_nat i) labels [])))
    (if hasn =? 0 then None else Some (fun i => nth (N.to_nat i) nattrs []))
    (if hase =? 0 then None else Some (fun i j => nth (N.to_nat j) (nth (N.to_nat i) eattrs []) [])).

Definition stmt_attrs (s : stmt) : list attr :=
  match s with SNode _ l => l | SEdge _ _ (Some l) => l | SEdge _ _ None => [] end.

Lemma fmt_attr_list_None : forall l first, fmt_attr_list first l = None -> exists a, In a l /\ snd a = AOther.
Proof.
  induction l as [|[name v] l IH]; intros first H; cbn in H; [discriminate|].
  destruct (fmt_val v) as [fv|] eqn:Ev.
  - destruct (fmt_attr_list false l) as [rest|] eqn:El; [discriminate|].
    destruct (IH _ El) as (a & Ia & Ea). exists a. split; [right; exact Ia|exact Ea].
  - exists (name, v). split; [left; reflexivity|]. destruct v; cbn in Ev; try discriminate. reflexivity.
Qed.
Lemma format_attrs_None : forall l, format_attrs l = None -> exists a, In a l /\ snd a = AOther.
Proof.
  intros l H. unfold format_attrs in H. destruct l as [|x l]; [discriminate|].
  destruct (fmt_attr_list true (x :: l)) eqn:E; [discriminate|]. eapply fmt_attr_list_None; eauto.
Qed.
Lemma render_stmt_None : forall s, render_stmt s = None -> exists a, In a (stmt_attrs s) /\ snd a = AOther.
Proof.
  intros [i l|i o [l|]] H; cbn in H.
  - destruct (format_attrs l) eqn:E; [discriminate|]. apply format_attrs_None. exact E.
  - destruct (format_attrs l) eqn:E; [discriminate|]. apply format_attrs_None. exact E.
  - discriminate.
Qed.
Lemma render_all_None : forall l, render_all l = None -> exists s, In s l /\ render_stmt s = None.
Proof.
  induction l as [|s l IH]; intro H; cbn in H; [discriminate|].
  destruct (render_stmt s) eqn:Es.
  - destruct (render_all l) eqn:El; [discriminate|]. destruct (IH eq_refl) as (s' & I & E). exists s'. split; [right; exact I|exact E].
  - exists s. split; [left; reflexivity|exact Es].
Qed.

Lemma fmt_attr_list_Some : forall l first b, fmt_attr_list first l = Some b -> forall a, In a l -> snd a <> AOther.
Proof.
  induction l as [|[name v] l IH]; intros first b H a Ha; [destruct Ha|].
  cbn in H. destruct (fmt_val v) as [fv|] eqn:Ev; [|discriminate].
  destruct (fmt_attr_list false l) as [rest|] eqn:El; [|discriminate].
  destruct Ha as [<-|Ha]; [cbn; intros ->; discriminate|]. eapply IH; eauto.
Qed.
Lemma format_attrs_Some : forall l b, format_attrs l = Some b -> forall a, In a l -> snd a <> AOther.
Proof.
  intros l b H. unfold format_attrs in H. destruct l as [|x l]; [intros a []|].
  destruct (fmt_attr_list true (x :: l)) eqn:E; [|discriminate]. eapply fmt_attr_list_Some; eauto.
Qed.
Lemma render_stmt_Some : forall s b, render_stmt s = Some b -> forall a, In a (stmt_attrs s) -> snd a <> AOther.
Proof.
  intros [i l|i o [l|]] b H; cbn in H.
  - destruct (format_attrs l) eqn:E; [|discriminate]. eapply format_attrs_Some; eauto.
  - destruct (format_attrs l) eqn:E; [|discriminate]. eapply format_attrs_Some; eauto.
  - intros a [].
Qed.
Lemma render_all_Some : forall l b, render_all l = Some b -> forall s, In s l -> exists bs, render_stmt s = Some bs.
Proof.
  induction l as [|s l IH]; intros b H s' Hs; [destruct Hs|].
  cbn in H. destruct (render_stmt s) as [x|] eqn:Es; [|discriminate]. destruct (render_all l) as [y|] eqn:El; [|discriminate].
  destruct Hs as [<-|Hs]; [eauto|]. eapply IH; eauto.
Qed.

Definition sprint_case_ok (rest : list Z) : Prop :=
  exists g name haslabel labels hasn nattrs hase eattrs status obs,
    (* pure = 1 and the argument graph after the call is the argument graph *)
    parse_sprint rest = Some ((g, name, haslabel, labels, hasn, nattrs, hase, eattrs, status, obs, 1, g), []) /\
    g_wf g /\
    let d := sprint_opts name haslabel labels hasn nattrs hase eattrs in
    let stmts := dot_stmts d (g_out g) (g_n g) in
    (* every node is named by one node statement, every edge by one edge statement, in order *)
    somes (map stmt_node stmts) = nodes_upto (g_n g) /\
    somes (map stmt_edge stmts) = flat_map (fun i => map (fun o => (i, o)) (g_out g i)) (nodes_upto (g_n g)) /\
    ((status = 0 /\ (forall s a, In s stmts -> In a (stmt_attrs s) -> snd a <> AOther) /\
      exists body, render_all stmts = Some body /\
        obs = ZsN ([100; 105; 103; 114; 97; 112; 104; 32] ++ dot_string (d_name d) ++ [32; 123; 10] ++ body ++ [125; 10])%N)
     \/ (status = 2 /\ obs = [] /\ exists s a, In s stmts /\ In a (stmt_attrs s) /\ snd a = AOther)).

Theorem check_sprint_sound : forall l c v r,
  check_sprint l = Some (c :: v, r) -> c = 0 \/ c = 1 -> c = 0 /\ r = [] /\ sprint_case_ok l.
Proof.
  intros l c v r H Hc. unfold check_sprint in H. pinv H. subst.
  destruct (g_wfb a) eqn:Ewf; cbn [negb] in Ev; [|rejected Ev]. apply g_wfb_spec in Ewf.
  cbv zeta in Ev. fold (sprint_opts a0 a1 a2 a3 a4 a5 a6) in Ev.
  apply ok_or_mismatch in Ev; [|exact Hc]. destruct Ev as [W ->].
  split; [reflexivity|]. split; [reflexivity|].
  set (d := sprint_opts a0 a1 a2 a3 a4 a5 a6) in *.
  destruct (dot_sprint d (g_out a) (g_n a)) as [b|] eqn:ES; ff_split W;
    repeat match goal with H : (_ =? _) = true |- _ => apply Z.eqb_eq in H end; geq; subst;
    exists a, a0, a1, a2, a3, a4, a5, a6.
  - exists 0, a8. split; [unfold parse_sprint; prebuild|]. split; [exact Ewf|]. cbv zeta. fold d.
    split; [apply dot_nodes_once|]. split; [apply dot_edges_once|]. left. split; [reflexivity|].
    match goal with H : obytes_eqb _ _ = true |- _ => apply obytes_eqb_some in H; destruct H as (b' & Eb & Eo) end.
    injection Eb as <-. apply dot_sprint_shape in ES. destruct ES as (body & R & ->). split.
    { intros s x Hs Hx. destruct (render_all_Some _ _ R _ Hs) as (bs & Ebs). eapply render_stmt_Some; eauto. }
    exists body. split; [exact R|exact Eo].
  - exists 2, a8. split; [unfold parse_sprint; prebuild|]. split; [exact Ewf|]. cbv zeta. fold d.
    split; [apply dot_nodes_once|]. split; [apply dot_edges_once|]. right. split; [reflexivity|].
    split; [match goal with H : (length _ =? 0)%nat = true |- _ => apply Nat.eqb_eq in H; apply length_zero_iff_nil; exact H end|].
    unfold dot_sprint in ES. destruct (render_all (dot_stmts d (g_out a) (g_n a))) eqn:R; [discriminate|].
    apply render_all_None in R. destruct R as (s & I & R). apply render_stmt_None in R. destruct R as (x & Ix & Ex). eauto.
Qed.

(* Proofs/CheckC18DotLayout.v — (group hM) the explicit integer layout of an accepted op-10 (Dot.Sprint)
   case line.  Proofs/CheckC18Dot.v states the case through the record parser [parse_sprint]; here the
   parse is turned into an equation for the line.  Attribute kinds 1 (int) and 4 (uint) decode to the same
   model value (AInt), so the layout is stated over RAW attributes (name, kind, payload as written on the
   line) with the decoding [attr_of] into the model's attributes:
      rest = <graph> <name> haslabel <labels> hasn <NodeAttrs table> hase <EdgeAttrs table> status <obs> pure <graph'>
      <NodeAttrs table> = count { count { <name> kind payload }* }*          (one row per node)
      <EdgeAttrs table> = count { count { count { <name> kind payload }* }* }*  (per node, per edge)
      payload = <bytes> for kind 0 (string) and 2 (literal), one integer for kind 1 (int) and 4 (uint),
                nothing for kind 3 (a value of unsupported type); no other kind parses.
   Closed under the global context. *)
From MM Require Import Base.Num Base.GCGraph Model.Dot Proofs.Dot Check.C18 Proofs.CheckBase Proofs.CheckC18Base Proofs.CheckC18Dot.
Local Open Scope Z_scope.

Record rattr := mkRA { ra_name : list Z; ra_kind : Z; ra_bytes : list Z; ra_int : Z }.
Definition ra_payload (a : rattr) : list Z :=
  if (ra_kind a =? 0) || (ra_kind a =? 2) then enc_Zs (ra_bytes a)
  else if (ra_kind a =? 1) || (ra_kind a =? 4) then [ra_int a] else [].
Definition enc_rattr (a : rattr) : list Z := enc_Zs (ra_name a) ++ ra_kind a :: ra_payload a.
Definition rattr_ok (a : rattr) : Prop := 0 <= ra_kind a <= 4.
Definition attr_of (a : rattr) : attr :=
  (NsZ (ra_name a),
   if ra_kind a =? 0 then AStr (NsZ (ra_bytes a)) else if ra_kind a =? 2 then ALit (NsZ (ra_bytes a))
   else if (ra_kind a =? 1) || (ra_kind a =? 4) then AInt (ra_int a) else AOther).

(* count-prefixed lists whose element parser decodes a raw element *)
Lemma prep_layout_rel {A B} (p : parser A) (enc : B -> list Z) (dec : B -> A) (ok : B -> Prop) :
  (forall l a r, p l = Some (a, r) -> exists x, l = enc x ++ r /\ dec x = a /\ ok x) ->
  forall n l xs r, prep p n l = Some (xs, r) -> exists ys, l = flat_map enc ys ++ r /\ map dec ys = xs /\ Forall ok ys.
Proof.
  intros HP. induction n as [|n IH]; cbn; intros l xs r H.
  - apply pret_some in H. destruct H as [-> ->]. exists []. repeat split. constructor.
  - apply pbind_some in H. destruct H as (a & r1 & Ha & H). apply pbind_some in H. destruct H as (t & r2 & H & H').
    apply pret_some in H'. destruct H' as [-> ->]. apply HP in Ha. destruct Ha as (x & -> & <- & Ox).
    apply IH in H. destruct H as (ys & -> & <- & Oys). exists (x :: ys). cbn. rewrite <- app_assoc.
    repeat split. constructor; assumption.
Qed.
Definition enc_list {B} (enc : B -> list Z) (ys : list B) : list Z := Z.of_nat (length ys) :: flat_map enc ys.
Lemma plist_any_layout_rel {A B} (p : parser A) (enc : B -> list Z) (dec : B -> A) (ok : B -> Prop) :
  (forall l a r, p l = Some (a, r) -> exists x, l = enc x ++ r /\ dec x = a /\ ok x) ->
  forall l xs r, plist_any p l = Some (xs, r) ->
    exists ys, l = enc_list enc ys ++ r /\ map dec ys = xs /\ Forall ok ys.
Proof.
  intros HP l xs r H. unfold plist_any in H. apply plist_some in H.
  destruct H as (n & r0 & -> & _ & H & L). apply (prep_layout_rel p enc dec ok HP) in H.
  destruct H as (ys & -> & <- & O). exists ys. rewrite map_length in L. subst n. repeat split. exact O.
Qed.

Lemma p_attr_layout : forall l a r, p_attr l = Some (a, r) ->
  exists x, l = enc_rattr x ++ r /\ attr_of x = a /\ rattr_ok x.
Proof.
  intros l a r H. unfold p_attr in H.
  apply pbind_some in H. destruct H as (name & r1 & En & H). apply pbind_some in H. destruct H as (kind & r2 & Ek & H).
  apply p_Zs_layout in En. apply pZ_some in Ek. subst l r1.
  destruct (kind =? 0) eqn:K0.
  { apply pbind_some in H. destruct H as (b & r3 & Eb & H). apply pret_some in H. destruct H as [-> ->].
    apply p_Zs_layout in Eb. subst r2. apply Z.eqb_eq in K0. subst kind.
    exists (mkRA name 0 b 0). unfold enc_rattr, ra_payload, attr_of, rattr_ok. cbn. rewrite <- app_assoc. repeat split; lia. }
  destruct (kind =? 2) eqn:K2.
  { apply pbind_some in H. destruct H as (b & r3 & Eb & H). apply pret_some in H. destruct H as [-> ->].
    apply p_Zs_layout in Eb. subst r2. apply Z.eqb_eq in K2. subst kind.
    exists (mkRA name 2 b 0). unfold enc_rattr, ra_payload, attr_of, rattr_ok. cbn. rewrite <- app_assoc. repeat split; lia. }
  destruct ((kind =? 1) || (kind =? 4)) eqn:K14.
  { apply pbind_some in H. destruct H as (z & r3 & Ez & H). apply pret_some in H. destruct H as [-> ->].
    apply pZ_some in Ez. subst r2.
    exists (mkRA name kind [] z). unfold enc_rattr, ra_payload, attr_of, rattr_ok. cbn [ra_name ra_kind ra_bytes ra_int].
    rewrite K0, K2, K14. cbn [orb]. rewrite <- app_assoc. repeat split.
    apply Bool.orb_true_iff in K14. destruct K14 as [K|K]; apply Z.eqb_eq in K; lia.
    apply Bool.orb_true_iff in K14. destruct K14 as [K|K]; apply Z.eqb_eq in K; lia. }
  destruct (kind =? 3) eqn:K3; [|discriminate].
  apply pret_some in H. destruct H as [-> ->]. apply Z.eqb_eq in K3. subst kind.
  exists (mkRA name 3 [] 0). unfold enc_rattr, ra_payload, attr_of, rattr_ok. cbn. rewrite <- app_assoc. repeat split; lia.
Qed.

Definition enc_rattrs : list rattr -> list Z := enc_list enc_rattr.
Lemma p_attrs_layout : forall l a r, p_attrs l = Some (a, r) ->
  exists x, l = enc_rattrs x ++ r /\ map attr_of x = a /\ Forall rattr_ok x.
Proof. intros l a r H. exact (plist_any_layout_rel p_attr enc_rattr attr_of rattr_ok p_attr_layout l a r H). Qed.

Lemma p_attrs2_layout : forall l a r, plist_any p_attrs l = Some (a, r) ->
  exists x, l = enc_list enc_rattrs x ++ r /\ map (map attr_of) x = a /\ Forall (Forall rattr_ok) x.
Proof. intros l a r H. exact (plist_any_layout_rel p_attrs enc_rattrs (map attr_of) (Forall rattr_ok) p_attrs_layout l a r H). Qed.

Lemma p_attrs3_layout : forall l a r, plist_any (plist_any p_attrs) l = Some (a, r) ->
  exists x, l = enc_list (enc_list enc_rattrs) x ++ r /\ map (map (map attr_of)) x = a /\ Forall (Forall (Forall rattr_ok)) x.
Proof.
  intros l a r H.
  exact (plist_any_layout_rel (plist_any p_attrs) (enc_list enc_rattrs) (map (map attr_of)) (Forall (Forall rattr_ok)) p_attrs2_layout l a r H).
Qed.

(* the explicit layout of a completely parsed op-10 line *)
Theorem sprint_layout : forall rest g name haslabel labels hasn nattrs hase eattrs status obs pure g',
  parse_sprint rest = Some ((g, name, haslabel, labels, hasn, nattrs, hase, eattrs, status, obs, pure, g'), []) ->
  exists (rn : list (list rattr)) (re : list (list (list rattr))),
    rest = enc_graph g ++ enc_Zs name ++ haslabel :: enc_Zss labels ++ hasn :: enc_list enc_rattrs rn ++
           hase :: enc_list (enc_list enc_rattrs) re ++ status :: enc_Zs obs ++ pure :: enc_graph g' /\
    nattrs = map (map attr_of) rn /\ eattrs = map (map (map attr_of)) re /\
    Forall (Forall rattr_ok) rn /\ Forall (Forall (Forall rattr_ok)) re.
Proof.
  intros rest g name haslabel labels hasn nattrs hase eattrs status obs pure g' H.
  unfold parse_sprint in H. pinv H. injection Ev as -> -> -> -> -> -> -> -> -> -> -> ->. subst.
  apply p_graph_some in E. apply p_Zs_layout in E0. apply pZ_some in E1. apply p_Zss_layout in E2.
  apply pZ_some in E3. apply p_attrs2_layout in E4. destruct E4 as (rn & E4 & <- & On).
  apply pZ_some in E5. apply p_attrs3_layout in E6. destruct E6 as (re & E6 & <- & Oe).
  apply pZ_some in E7. apply p_Zs_layout in E8. apply pZ_some in E9. apply p_graph_some in E10.
  exists rn, re. subst. rewrite ?app_nil_r. repeat split; try assumption.
Qed.

(* an accepted op-10 case, with the layout spelled out *)
Theorem sprint_case_layout : forall rest, sprint_case_ok rest ->
  exists g name haslabel labels hasn hase status obs (rn : list (list rattr)) (re : list (list (list rattr))),
    rest = enc_graph g ++ enc_Zs name ++ haslabel :: enc_Zss labels ++ hasn :: enc_list enc_rattrs rn ++
           hase :: enc_list (enc_list enc_rattrs) re ++ status :: enc_Zs obs ++ 1 :: enc_graph g /\
    Forall (Forall rattr_ok) rn /\ Forall (Forall (Forall rattr_ok)) re /\
    g_wf g /\
    let d := sprint_opts name haslabel labels hasn (map (map attr_of) rn) hase (map (map (map attr_of)) re) in
    let stmts := dot_stmts d (g_out g) (g_n g) in
    somes (map stmt_node stmts) = nodes_upto (g_n g) /\
    somes (map stmt_edge stmts) = flat_map (fun i => map (fun o => (i, o)) (g_out g i)) (nodes_upto (g_n g)) /\
    ((status = 0 /\ (forall s a, In s stmts -> In a (stmt_attrs s) -> snd a <> AOther) /\
      exists body, render_all stmts = Some body /\
        obs = ZsN ([100; 105; 103; 114; 97; 112; 104; 32] ++ dot_string (d_name d) ++ [32; 123; 10] ++ body ++ [125; 10])%N)
     \/ (status = 2 /\ obs = [] /\ exists s a, In s stmts /\ In a (stmt_attrs s) /\ snd a = AOther)).
Proof.
  intros rest (g & name & haslabel & labels & hasn & nattrs & hase & eattrs & status & obs & HP & Hwf & Hrest).
  apply sprint_layout in HP. destruct HP as (rn & re & -> & -> & -> & On & Oe).
  exists g, name, haslabel, labels, hasn, hase, status, obs, rn, re.
  split; [reflexivity|]. split; [exact On|]. split; [exact Oe|]. split; [exact Hwf|]. exact Hrest.
Qed.

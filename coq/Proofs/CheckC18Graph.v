(* Proofs/CheckC18Graph.v — (group hI) what an accepted verdict of check_C18 means for
   op 4 (MakeBiGraph), op 5 (Equal) and op 6 (SimplifyMulti): the rest of the line is exactly the stated
   encoding (nothing left over), the
   graph is well-formed, the call returned, the purity flags are 1 and every observed list equals
   the SPECIFICATION-level value (transpose with multiplicity / multiset equality of adjacency
   lists / first-occurrence order with summed weights); the executable models of Model/Graph.v are
   eliminated with Proofs/Graph.v.  Closed under the global context. *)
From Coq Require Import FMapPositive Permutation Sorted.
From MM Require Import Base.Num Base.GCGraph Model.Graph Proofs.Graph Check.C18 Proofs.CheckBase Proofs.CheckC18Base.
Local Open Scope Z_scope.

(* ====================================================================== op 5: Equal *)
(* the rest of the line: g1 g2 status=0 result result21 pure=1 and the two argument graphs as they are
   after the calls (equal to what they were before) *)
Definition equal_case_ok (rest : list Z) : Prop :=
  exists g1 g2 res, rest = enc_graph g1 ++ enc_graph g2 ++ 0 :: res :: res :: 1 :: enc_graph g1 ++ enc_graph g2 /\
    g_wf g1 /\ g_wf g2 /\ (res = 0 \/ res = 1) /\
    (* Equal(g1,g2) = Equal(g2,g1) = res *)
    (res = 1 <-> (length g1 = length g2 /\ forall i, Permutation (g_out g1 i) (g_out g2 i))).

Lemma g_equal_sym : forall g1 g2, g_equal g2 g1 = g_equal g1 g2.
Proof.
  intros g1 g2. destruct (g_equal g1 g2) eqn:E.
  - apply g_equal_spec in E. apply g_equal_spec. destruct E as [E1 E2]. split; [auto|]. intro i. symmetry. apply E2.
  - destruct (g_equal g2 g1) eqn:E'; [|reflexivity]. apply g_equal_spec in E'. rewrite <- E. symmetry. apply g_equal_spec.
    destruct E' as [E1 E2]. split; [auto|]. intro i. symmetry. apply E2.
Qed.

Theorem check_equal_sound : forall l c v r,
  check_equal l = Some (c :: v, r) -> c = 0 \/ c = 1 -> c = 0 /\ r = [] /\ equal_case_ok l.
Proof.
  intros l c v r H Hc. unfold check_equal in H. pinv H. subst.
  destruct (g_wfb a && g_wfb a0) eqn:Ewf; cbn [negb] in Ev; [|rejected Ev].
  apply andb_prop in Ewf. destruct Ewf as [W1 W2]. apply g_wfb_spec in W1, W2.
  cbv zeta in Ev. apply ok_or_mismatch in Ev; [|exact Hc]. destruct Ev as [W ->]. ff_split W.
  repeat match goal with H : (_ =? _) = true |- _ => apply Z.eqb_eq in H end.
  geq. rewrite (g_equal_sym a a0) in *. subst.
  split; [reflexivity|]. split; [reflexivity|].
  exists a, a0, (if g_equal a a0 then 1 else 0). split; [lay; subst; rewrite ?app_nil_r; reflexivity|].
  split; [exact W1|]. split; [exact W2|]. split; [destruct (g_equal a a0); auto|].
  rewrite <- g_equal_spec. destruct (g_equal a a0); split; intro; try reflexivity; discriminate.
Qed.

(* ====================================================================== op 4: MakeBiGraph *)
(* the rest of the line: g, status 0, In(0..n-1) of the result, NumNodes/Out(0..) of the result (= g),
   idem = 1 (MakeBiGraph(b) == b), pure = 1, the argument after the call (= g) *)
Definition bigraph_case_ok (rest : list Z) : Prop :=
  exists g insN, rest = enc_graph g ++ 0 :: enc_Zss (map ZsN insN) ++ enc_graph g ++ 1 :: 1 :: enc_graph g /\
    g_wf g /\ length insN = length g /\
    (* In(j) holds i exactly as often as Out(i) holds j, and lists its sources in ascending order *)
    (forall i j, (j < length g)%nat -> count_occ N.eq_dec (nth j insN []) i = count_occ N.eq_dec (g_out g i) (N.of_nat j)) /\
    Forall (Sorted N.le) insN.

Lemma lists_match_None : forall f obs j, lists_match f obs j = None ->
  forall k l, nth_error obs k = Some l -> l = f (j + N.of_nat k)%N.
Proof.
  induction obs as [|x obs IH]; intros j H k l Hk; [destruct k; discriminate|].
  cbn in H. destruct (list_Z_eqb (f j) x) eqn:E; [|discriminate]. apply list_Z_eqb_eq in E.
  destruct k as [|k]; cbn in Hk.
  - injection Hk as <-. rewrite N.add_0_r. auto.
  - rewrite (IH _ H k l Hk). f_equal. lia.
Qed.

Theorem check_bigraph_sound : forall l c v r,
  check_bigraph l = Some (c :: v, r) -> c = 0 \/ c = 1 -> c = 0 /\ r = [] /\ bigraph_case_ok l.
Proof.
  intros l c v r H Hc. unfold check_bigraph in H. pinv H. subst.
  destruct (g_wfb a) eqn:Ewf; cbn [negb] in Ev; [|rejected Ev]. apply g_wfb_spec in Ewf.
  cbv zeta in Ev. apply ok_or_mismatch in Ev; [|exact Hc]. destruct Ev as [W ->]. ff_split W.
  repeat match goal with H : (_ =? _) = true |- _ => apply Z.eqb_eq in H end.
  match goal with H : (_ =? _)%nat = true |- _ => apply Nat.eqb_eq in H; rename H into HL end.
  match goal with H : match lists_match ?f ?o ?j with _ => _ end = true |- _ =>
    destruct (lists_match f o j) eqn:LM; [discriminate|] end.
  geq. subst. split; [reflexivity|]. split; [reflexivity|].
  pose proof (lists_match_None _ _ _ LM) as HM. cbn beta in HM.
  set (insN := map (fun j => bi_in a (N.of_nat j)) (seq 0 (length a))).
  assert (Eins : a1 = map ZsN insN).
  { apply nth_error_ext_local. intro k. unfold insN. rewrite map_map.
    destruct (nth_error a1 k) as [x|] eqn:Ek.
    - rewrite (HM _ _ Ek). assert (k < length a)%nat by (rewrite <- HL; apply nth_error_Some; congruence).
      symmetry. apply (map_nth_error (fun j => ZsN (bi_in a (N.of_nat j))) k (seq 0 (length a))). apply (nth_error_seq _ 0 _ H).
    - symmetry. apply nth_error_None. rewrite map_length, seq_length. rewrite <- HL. apply nth_error_None. exact Ek. }
  exists a, insN. split; [rewrite <- Eins; lay; subst; rewrite ?app_nil_r; reflexivity|].
  split; [exact Ewf|]. split; [unfold insN; rewrite map_length, seq_length; reflexivity|]. split.
  - intros i j Hj. unfold insN.
    rewrite (nth_indep _ [] (bi_in a (N.of_nat 0))) by (rewrite map_length, seq_length; exact Hj).
    rewrite (map_nth (fun j => bi_in a (N.of_nat j))), seq_nth by exact Hj. cbn. apply bi_in_count.
  - unfold insN. apply Forall_forall. intros x Hx. apply in_map_iff in Hx. destruct Hx as (j & <- & _). apply bi_in_sorted.
Qed.

(* ====================================================================== op 6: SimplifyMulti *)
Local Open Scope Q_scope.
(* a weighted adjacency list is the targets [ts] paired with the float64 bit patterns [ws], all finite *)
Definition wadj_decodes (ts : list N) (ws : list Z) (a : wadj) : Prop :=
  map fst a = ts /\ Forall2 (fun w q => decode_bits w = XFin q) ws (map snd a).
Lemma zipw_spec : forall ts ws a, zipw ts ws = Some a -> wadj_decodes ts ws a.
Proof.
  induction ts as [|t ts IH]; intros [|w ws] a H; cbn in H; try discriminate.
  - injection H as <-. split; [reflexivity|constructor].
  - destruct (decode_bits w) eqn:D; try discriminate. destruct (zipw ts ws) as [r|] eqn:Z; [|discriminate].
    injection H as <-. destruct (IH _ _ Z) as [I1 I2]. split; cbn; [f_equal; exact I1|constructor; assumption].
Qed.
Lemma zipwg_spec : forall g ws wg, zipwg g ws = Some wg -> Forall2 (fun tw a => wadj_decodes (fst tw) (snd tw) a) (combine g ws) wg /\ length ws = length g /\ length wg = length g.
Proof.
  induction g as [|l g IH]; intros [|w ws] wg H; cbn in H; try discriminate.
  - injection H as <-. repeat split; constructor.
  - destruct (zipw l w) as [a|] eqn:Z; [|discriminate]. destruct (zipwg g ws) as [r|] eqn:ZG; [|discriminate].
    injection H as <-. destruct (IH _ _ ZG) as (I1 & I2 & I3). cbn. repeat split; try lia.
    constructor; [apply zipw_spec; exact Z|exact I1].
Qed.
Lemma zipwg_fst : forall g ws wg, zipwg g ws = Some wg -> map (map fst) wg = g.
Proof.
  induction g as [|l g IH]; intros [|w ws] wg H; cbn in H; try discriminate.
  - injection H as <-. reflexivity.
  - destruct (zipw l w) as [a|] eqn:Z; [|discriminate]. destruct (zipwg g ws) as [r|] eqn:ZG; [|discriminate].
    injection H as <-. cbn. f_equal; [apply zipw_spec in Z; apply Z|eauto].
Qed.

(* same targets in the same order, weights equal as rationals *)
Definition wadj_eq (x y : wadj) : Prop := Forall2 (fun p q => fst p = fst q /\ snd p == snd q) x y.
Lemma wadj_eqb_spec : forall x y, wadj_eqb x y = true -> wadj_eq x y.
Proof.
  intros x y H. unfold wadj_eqb in H. apply andb_prop in H. destruct H as [H1 H2].
  apply Ns_eqb_eq in H1. revert y H1 H2. induction x as [|[t p] x IH]; intros [|[u q] y] H1 H2; try discriminate.
  - constructor.
  - cbn in H1. injection H1 as -> H1. apply andb_prop in H2. destruct H2 as [H2 H3]. apply Qeq_bool_iff in H2.
    constructor; [cbn; auto|]. apply IH; assumption.
Qed.
Lemma wgraph_eqb_spec : forall a b, wgraph_eqb a b = true -> Forall2 wadj_eq a b.
Proof.
  induction a as [|x a IH]; intros [|y b] H; cbn in H; try discriminate; [constructor|].
  apply andb_prop in H. destruct H as [H1 H2]. constructor; [apply wadj_eqb_spec; exact H1|auto].
Qed.

(* one node: the observed merged list [o] against the input list [a] *)
Definition simp_row_ok (a o : wadj) : Prop :=
  map fst o = first_occ (map fst a) /\ NoDup (map fst o) /\
  (forall t, In t (map fst o) <-> In t (map fst a)) /\
  (forall t w, In (t, w) o -> w == wsum t a).
Lemma wadj_eq_fst : forall x y, wadj_eq x y -> map fst x = map fst y.
Proof. induction 1; cbn; [reflexivity|]. destruct H as [-> _]. f_equal. assumption. Qed.
Lemma wadj_eq_In : forall x y t w, wadj_eq x y -> In (t, w) y -> exists w', In (t, w') x /\ w' == w.
Proof.
  induction 1 as [|[t1 p] [t2 q] x y [E1 E2] F IH]; intros Hin; [destruct Hin|].
  cbn in E1, E2. subst t2. destruct Hin as [Hin|Hin].
  - injection Hin as -> ->. exists p. split; [left; reflexivity|exact E2].
  - destruct (IH Hin) as (w' & I & E). exists w'. split; [right; exact I|exact E].
Qed.
Lemma simp_row_sound : forall a o, wadj_eq (simplify_adj a) o -> simp_row_ok a o.
Proof.
  intros a o H. destruct (simplify_adj_spec a) as (S1 & S2 & S3 & S4). pose proof (wadj_eq_fst _ _ H) as EF.
  unfold simp_row_ok. rewrite <- EF. split; [exact S1|]. split; [exact S2|]. split; [exact S3|].
  intros t w Hin. destruct (wadj_eq_In _ _ _ _ H Hin) as (w' & I & E). rewrite <- E. apply S4. exact I.
Qed.

(* weighted = 0: a plain multigraph, every edge has weight 1, the merged weight is the multiplicity;
   otherwise the weights are the decoded float64 values (the generator emits small dyadic rationals
   whose float64 sums are exact).  [rg] = the observed Out lists, [rws] = the observed OutWeight
   bit patterns; the line ends with pure = 1 and the argument graph after the call (= g). *)
Definition simplify_case_ok (rest : list Z) : Prop :=
  exists g weighted ws rg rws wg obs,
    rest = enc_graph g ++ weighted :: enc_Zss ws ++ 0%Z :: enc_graph rg ++ enc_Zss rws ++ 1%Z :: enc_graph g /\
    g_wf g /\
    (if (weighted =? 0)%Z then wg = unit_weights g /\ ws = []
     else Forall2 (fun tw a => wadj_decodes (fst tw) (snd tw) a) (combine g ws) wg /\ length ws = length g) /\
    map (map fst) wg = g /\
    Forall2 (fun tw a => wadj_decodes (fst tw) (snd tw) a) (combine rg rws) obs /\ length rws = length rg /\
    length rg = length g /\
    Forall2 simp_row_ok wg obs /\
    ((weighted =? 0)%Z = true -> Forall2 (fun l o => forall t w, In (t, w) o -> w == inject_Z (Z.of_nat (count_occ N.eq_dec l t))) g obs).

Lemma Forall2_trans_lr {A B C} (R : A -> B -> Prop) (S : B -> C -> Prop) (T : A -> C -> Prop) :
  (forall a b c, R a b -> S b c -> T a c) -> forall l m n, Forall2 R l m -> Forall2 S m n -> Forall2 T l n.
Proof.
  intros HT l m n H. revert n. induction H; intros n H2; inversion H2; subst; constructor; eauto.
Qed.
Lemma Forall2_map_same {A B} (R : A -> B -> Prop) (f : A -> B) : (forall a, R a (f a)) -> forall l, Forall2 R l (map f l).
Proof. intros H. induction l; cbn; constructor; auto. Qed.

Theorem check_simplify_sound : forall l c v r,
  check_simplify l = Some (c :: v, r) -> (c = 0 \/ c = 1)%Z -> c = 0%Z /\ r = [] /\ simplify_case_ok l.
Proof.
  intros l c v r H Hc. unfold check_simplify in H. pinv H. subst.
  destruct (g_wfb a) eqn:Ewf; cbn [negb] in Ev; [|rejected Ev]. apply g_wfb_spec in Ewf.
  destruct (if (a0 =? 0)%Z then Some (unit_weights a) else zipwg a a1) as [wg|] eqn:Ewg; [|rejected Ev].
  destruct (zipwg a3 a4) as [obs|] eqn:Eobs; [|destruct (a2 =? 0)%Z; rejected Ev].
  cbv zeta in Ev. apply ok_or_mismatch in Ev; [|exact Hc]. destruct Ev as [W ->]. ff_split W.
  repeat match goal with H : (_ =? _)%Z = true |- _ => apply Z.eqb_eq in H end.
  match goal with H : (_ =? _)%nat = true |- _ => apply Nat.eqb_eq in H; rename H into HL end.
  match goal with H : wgraph_eqb _ _ = true |- _ => apply wgraph_eqb_spec in H; rename H into HE end.
  match goal with H : negb (_ =? 0)%Z || (length _ =? 0)%nat = true |- _ => rename H into Hws end.
  geq. subst. split; [reflexivity|]. split; [reflexivity|].
  destruct (zipwg_spec _ _ _ Eobs) as (O1 & O2 & O3).
  assert (Hfst : map (map fst) wg = a).
  { destruct (a0 =? 0)%Z; [injection Ewg as <-; unfold unit_weights; rewrite map_map; rewrite <- (map_id a) at 2; apply map_ext; intro x; rewrite map_map; apply map_id | eapply zipwg_fst; eauto]. }
  assert (Hrows : Forall2 simp_row_ok wg obs).
  { unfold simplify_multi in HE.
    clear - HE. remember (map simplify_adj wg) as m eqn:Em. revert wg Em. induction HE; intros [|w wg] Em; cbn in Em; try discriminate; constructor.
    - injection Em as -> _. apply simp_row_sound. assumption.
    - injection Em as _ ->. apply IHHE. reflexivity. }
  exists a, a0, a1, a3, a4, wg, obs. split; [lay; subst; rewrite ?app_nil_r; reflexivity|].
  split; [exact Ewf|]. split.
  { destruct (a0 =? 0)%Z; [injection Ewg as <-; split; [reflexivity|]; cbn in Hws; apply Nat.eqb_eq in Hws; apply length_zero_iff_nil; exact Hws|].
    destruct (zipwg_spec _ _ _ Ewg) as (? & ? & ?). auto. }
  split; [exact Hfst|]. split; [exact O1|]. split; [exact O2|]. split; [lia|]. split; [exact Hrows|].
  intro Ez. rewrite Ez in Ewg. injection Ewg as <-. unfold unit_weights in Hrows.
  apply Forall2_trans_lr with (R := fun (l : list N) (a : wadj) => a = map (fun o => (o, 1)) l) (S := simp_row_ok) (m := map (map (fun o => (o, 1))) a).
  - intros l0 b o -> (_ & _ & _ & S4) t w Hin. rewrite (S4 _ _ Hin). apply unit_weights_wsum.
  - apply Forall2_map_same. reflexivity.
  - exact Hrows.
Qed.

(* Proofs/CheckC18Hist.v — (group hI) what an accepted verdict of check_C18 means for op 11 (a history of
   calls on ONE graph object): the rest of the line is exactly
        k { len op <the line of operation op without its leading "18 op"> }^k        (k >= 1, len = 1 + |sub|)
   there is ONE graph g such that the sub-line of every step begins with the encoding of g (the graph
   printed before every step is the graph printed before the first step), every op is one of 2-8, 10, and
   every step satisfies the case predicate of its operation (Proofs/CheckC18Trav.v ... CheckC18Dot.v), which
   includes that the argument graph printed after the call equals the one printed before it.
   Closed under the global context. *)
From MM Require Import Base.Num Base.GCGraph Check.C18 Proofs.CheckBase Proofs.CheckC18Base
  Proofs.CheckC18Trav Proofs.CheckC18Scc Proofs.CheckC18Graph Proofs.CheckC18Sub Proofs.CheckC18Dot.
Local Open Scope Z_scope.

Definition step_case (op : Z) (sub : list Z) : Prop :=
  (op = 2 /\ trav_case_ok sub) \/ (op = 3 /\ scc_case_ok sub) \/ (op = 4 /\ bigraph_case_ok sub) \/
  (op = 5 /\ equal_case_ok sub) \/ (op = 6 /\ simplify_case_ok sub) \/ (op = 7 /\ keep_case_ok sub) \/
  (op = 8 /\ remove_case_ok sub) \/ (op = 10 /\ sprint_case_ok sub).

Lemma check_op_sound : forall op sub c v r, check_op op sub = Some (c :: v, r) -> c = 0 -> step_case op sub.
Proof.
  intros op sub c v r H Hc. assert (Hc' : c = 0 \/ c = 1) by auto. unfold check_op in H. unfold step_case.
  destruct (op =? 2) eqn:E2; [apply Z.eqb_eq in E2; apply check_trav_sound in H; tauto|].
  destruct (op =? 3) eqn:E3; [apply Z.eqb_eq in E3; apply check_scc_sound in H; tauto|].
  destruct (op =? 4) eqn:E4; [apply Z.eqb_eq in E4; apply check_bigraph_sound in H; tauto|].
  destruct (op =? 5) eqn:E5; [apply Z.eqb_eq in E5; apply check_equal_sound in H; tauto|].
  destruct (op =? 6) eqn:E6; [apply Z.eqb_eq in E6; apply check_simplify_sound in H; tauto|].
  destruct (op =? 7) eqn:E7; [apply Z.eqb_eq in E7; apply check_keep_sound in H; tauto|].
  destruct (op =? 8) eqn:E8; [apply Z.eqb_eq in E8; apply check_remove_sound in H; tauto|].
  destruct (op =? 10) eqn:E10; [apply Z.eqb_eq in E10; apply check_sprint_sound in H; tauto|].
  discriminate.
Qed.

Definition enc_step (s : Z * list Z) : list Z := Z.of_nat (S (length (snd s))) :: fst s :: snd s.

(* the steps as hist_go sees them: g0 = the graph of the first step, once there was one *)
Fixpoint hist_steps (g0 : option graph) (steps : list (Z * list Z)) : Prop :=
  match steps with
  | [] => True
  | s :: t =>
      exists g r, snd s = enc_graph g ++ r /\ match g0 with Some g1 => g1 = g | None => True end /\
        step_case (fst s) (snd s) /\ hist_steps (Some (match g0 with Some g1 => g1 | None => g end)) t
  end.

Lemma hist_go_sound : forall fuel l k g0 idx bits c v, hist_go fuel l k g0 idx bits = c :: v -> c = 0 \/ c = 1 ->
  c = 0 /\ exists steps, l = flat_map enc_step steps /\ Z.of_nat (length steps) = Z.max k 0 /\ hist_steps g0 steps.
Proof.
  induction fuel as [|f IH]; intros l k g0 idx bits c v H Hc.
  - cbn [hist_go] in H. destruct (k <=? 0) eqn:Ek; [|rejected H]. apply Z.leb_le in Ek.
    destruct l; [|rejected H]. apply verdict_code in H. unfold V_OK in H. split; [auto|].
    exists []. cbn. repeat split; lia.
  - cbn [hist_go] in H. destruct (k <=? 0) eqn:Ek.
    { apply Z.leb_le in Ek. destruct l; [|rejected H]. apply verdict_code in H. unfold V_OK in H. split; [auto|].
      exists []. cbn. repeat split; lia. }
    apply Z.leb_gt in Ek. destruct l as [|len r]; [rejected H|].
    destruct (len <? 1) eqn:El; [rejected H|]. apply Z.ltb_ge in El.
    destruct (ptake r len []) as [[[|op sub] rest]|] eqn:Et; try (rejected H).
    apply ptake_some in Et. destruct Et as (ys & Ey & -> & Ly). cbn in Ey. subst ys.
    destruct (p_graph sub) as [[g rg]|] eqn:Eg; [|rejected H]. apply p_graph_some in Eg.
    destruct (match g0 with Some g1 => graph_eqb g1 g | None => true end) eqn:Esame; [|rejected H].
    destruct (check_op op sub) as [[[|c1 v1] r1]|] eqn:Eop; try (rejected H).
    destruct (c1 =? V_OK) eqn:Ec1.
    + apply Z.eqb_eq in Ec1. unfold V_OK in Ec1. apply IH in H; [|exact Hc]. destruct H as (-> & steps & -> & Ls & Hs).
      split; [reflexivity|]. exists ((op, sub) :: steps). split; [|split].
      * cbn [flat_map]. unfold enc_step. cbn [fst snd app]. cbn [length] in Ly. f_equal. lia.
      * cbn [length]. lia.
      * cbn [hist_steps fst snd]. exists g, rg. split; [exact Eg|]. split.
        { destruct g0 as [g1|]; [apply graph_eqb_eq; exact Esame|exact I]. }
        split; [eapply check_op_sound; eauto|exact Hs].
    + destruct (c1 =? V_MISMATCH); rejected H.
Qed.

Definition step_ok (g : graph) (s : Z * list Z) : Prop :=
  (exists r, snd s = enc_graph g ++ r) /\ step_case (fst s) (snd s).

Lemma hist_steps_some : forall steps g1, hist_steps (Some g1) steps -> Forall (step_ok g1) steps.
Proof.
  induction steps as [|s t IH]; intros g1 H; [constructor|].
  cbn [hist_steps] in H. destruct H as (g & r & E & <- & C & Ht). constructor; [split; eauto|auto].
Qed.

Definition hist_case_ok (rest : list Z) : Prop :=
  exists steps g, rest = Z.of_nat (length steps) :: flat_map enc_step steps /\ steps <> [] /\ Forall (step_ok g) steps.

Theorem check_hist_sound : forall l c v r,
  check_hist l = Some (c :: v, r) -> c = 0 \/ c = 1 -> c = 0 /\ r = [] /\ hist_case_ok l.
Proof.
  intros l c v r H Hc. unfold check_hist in H. destruct l as [|k l]; [discriminate|].
  destruct (k <? 1) eqn:Ek; [discriminate|]. apply Z.ltb_ge in Ek. injection H as H <-.
  apply hist_go_sound in H; [|exact Hc]. destruct H as (-> & steps & -> & Ls & Hs).
  split; [reflexivity|]. split; [reflexivity|].
  destruct steps as [|s t]; [cbn in Ls; lia|]. cbn [hist_steps] in Hs. destruct Hs as (g & rg & E & _ & C & Ht).
  exists (s :: t), g. split; [f_equal; lia|]. split; [discriminate|].
  constructor; [split; eauto|apply hist_steps_some; exact Ht].
Qed.

(* Proofs/CheckC18Marks.v — (group hI) what an accepted verdict of check_C18 means for op 1
   (NodeMarks history): the rest of the line is exactly the count-prefixed encoding of a NON-EMPTY history of
   (operation, observed answer) pairs, and every observed answer is the answer of a plain SET of
   integers ([set_run], no executable model): Mark/Unmark returned normally (observed 0, never the
   panic code 2), Test(i) answered 1 exactly when i is in the set, Next(i) answered the least
   member greater than i, or -1 when there is none.  Composes the comparator with
   Proofs/Marks.v (marks_history).  Closed under the global context. *)
From MM Require Import Base.Num Model.Marks Spec.MarkSet Proofs.Marks Check.C18 Proofs.C18MarksBig Proofs.CheckBase Proofs.CheckC18Base.
Local Open Scope Z_scope.

(* one history entry on the line: code id obs *)
Definition enc_mop (x : mop * Z) : list Z :=
  match fst x with
  | MMark i => [0; Z.of_N i; snd x]
  | MUnmark i => [1; Z.of_N i; snd x]
  | MTest i => [2; i; snd x]
  | MNext i => [3; i; snd x]
  end.
Lemma p_mop_layout : forall l a r, p_mop l = Some (a, r) -> l = enc_mop a ++ r.
Proof.
  intros l a r H. unfold p_mop in H.
  apply pbind_some in H. destruct H as (c & r1 & E1 & H). apply pbind_some in H. destruct H as (i & r2 & E2 & H).
  apply pbind_some in H. destruct H as (o & r3 & E3 & H). apply pZ_some in E1, E2, E3. subst.
  destruct (c =? 0) eqn:C0.
  { apply Z.eqb_eq in C0. destruct (i <? 0) eqn:I; [discriminate|]. apply Z.ltb_ge in I. apply pret_some in H. destruct H as [-> ->].
    unfold enc_mop. cbn. rewrite Z2N.id by lia. subst. reflexivity. }
  destruct (c =? 1) eqn:C1.
  { apply Z.eqb_eq in C1. destruct (i <? 0) eqn:I; [discriminate|]. apply Z.ltb_ge in I. apply pret_some in H. destruct H as [-> ->].
    unfold enc_mop. cbn. rewrite Z2N.id by lia. subst. reflexivity. }
  destruct (c =? 2) eqn:C2.
  { apply Z.eqb_eq in C2. apply pret_some in H. destruct H as [-> ->]. subst. reflexivity. }
  destruct (c =? 3) eqn:C3; [|discriminate].
  apply Z.eqb_eq in C3. apply pret_some in H. destruct H as [-> ->]. subst. reflexivity.
Qed.

(* the set semantics, as a predicate over the history with its observed answers; S = the current set *)
Fixpoint set_run (S : Z -> Prop) (h : list (mop * Z)) : Prop :=
  match h with
  | [] => True
  | (MMark i, obs) :: t => obs = 0 /\ set_run (fun j => j = Z.of_N i \/ S j) t
  | (MUnmark i, obs) :: t => obs = 0 /\ set_run (fun j => j <> Z.of_N i /\ S j) t
  | (MTest i, obs) :: t => ((obs = 1 /\ S i) \/ (obs = 0 /\ ~ S i)) /\ set_run S t
  | (MNext i, obs) :: t =>
      ((obs = -1 /\ forall j, i < j -> ~ S j) \/ (i < obs /\ S obs /\ forall j, i < j < obs -> ~ S j)) /\ set_run S t
  end.

Lemma zs_run_set_run : forall h s (S : Z -> Prop),
  (forall x, In x s -> 0 <= x) -> (forall j, S j <-> zs_mem s j = true) ->
  map snd h = zs_run s (map fst h) -> set_run S h.
Proof.
  induction h as [|[o obs] h IH]; intros s S Hs HS H; [exact I|].
  cbn [map fst snd zs_run] in H. destruct o as [i|i|i|i]; cbn [zs_step] in H; injection H as Hobs H; cbn [set_run].
  - split; [exact Hobs|]. apply (IH (zs_add s (Z.of_N i))); [| |exact H].
    + intros x [<-|Hx]; [lia|auto].
    + intro j. rewrite zs_mem_add, Bool.orb_true_iff, Z.eqb_eq, HS; reflexivity.
  - split; [exact Hobs|]. apply (IH (zs_remove s (Z.of_N i))); [| |exact H].
    + intros x Hx. unfold zs_remove in Hx. apply filter_In in Hx. apply Hs, Hx.
    + intro j. rewrite zs_mem_remove, Bool.andb_true_iff, Bool.negb_true_iff, Z.eqb_neq, HS; reflexivity.
  - split; [|eapply IH; eauto]. rewrite HS. destruct (zs_mem s i); [left|right]; split; auto; discriminate.
  - split; [|eapply IH; eauto]. pose proof (zs_next_spec s i Hs) as N. cbv zeta in N. rewrite <- Hobs in N.
    destruct N as [[N1 N2]|(N1 & N2 & N3 & N4)].
    + left. split; [exact N1|]. intros j Hj. rewrite HS, (N2 j Hj). discriminate.
    + right. split; [exact N1|]. split; [apply HS; exact N3|]. intros j Hj. rewrite HS, (N4 j Hj). discriminate.
Qed.

Lemma marks_cmp_None : forall h m idx bits b, marks_cmp m h idx bits = (b, None) -> map snd h = m_run m (map fst h).
Proof.
  induction h as [|[o obs] h IH]; intros m idx bits b H; [reflexivity|].
  cbn [marks_cmp] in H. cbn [map fst snd m_run]. rewrite m_step_c_eq in H. destruct (m_step m o) as [m' r] eqn:E.
  destruct (r =? obs) eqn:Er; [|discriminate]. apply Z.eqb_eq in Er. subst obs. f_equal. eapply IH. exact H.
Qed.

Definition marks_case_ok (rest : list Z) : Prop :=
  exists h : list (mop * Z), rest = Z.of_nat (length h) :: flat_map enc_mop h /\ h <> [] /\ set_run (fun _ => False) h.

Theorem check_marks_sound : forall l c v r,
  check_marks l = Some (c :: v, r) -> c = 0 \/ c = 1 -> c = 0 /\ r = [] /\ marks_case_ok l.
Proof.
  intros l c v r H Hc. unfold check_marks in H. pinv H. subst.
  destruct (length a =? 0)%nat eqn:EL; [rejected Ev|]. apply Nat.eqb_neq in EL.
  destruct (marks_cmp m_new a 0 0) as [bits [[idx rr]|]] eqn:EM; [rejected Ev|].
  pose proof (verdict_code _ _ _ _ _ _ Ev) as C. unfold V_OK in C. subst c.
  split; [reflexivity|]. split; [reflexivity|]. exists a. split.
  - apply (plist_any_layout _ _ p_mop_layout) in E. rewrite app_nil_r in E. exact E.
  - split; [intros ->; apply EL; reflexivity|]. apply marks_cmp_None in EM. rewrite marks_history in EM.
    apply (zs_run_set_run a [] (fun _ => False)); [intros x []| |exact EM].
    intro j. cbn. split; [intros []|discriminate].
Qed.

(* Proofs/CheckC18Scc.v — (group hI) what an accepted verdict of check_C18 means for op 3 (SCC):
   the rest of the line is exactly
      <graph> flags 0 <Subnodes(0..k-1)> hascof <SubnodeComponent(0..n-1)> <Out(0..k-1)> 1 <graph>
   (status 0 = the calls returned, pure 1, the argument graph afterwards is the argument graph; no
   negative number among the lists), the graph is well-formed, and
     - the observed components satisfy [scc_spec] (Spec/Scc.v: they partition the nodes; two nodes share
       a component exactly when each reaches the other; every edge leads to an equal or smaller id);
     - hascof = 1 exactly when flags <> 0 (with flags = 0 the SubnodeComponent list is empty), and then
       SubnodeComponent has one entry per node and the
       entry of every node is the index of the component that contains it;
     - one Out list per component; with SCCEdges (bit 1 of flags) they satisfy [scc_edges_spec] (Out(c) =
       exactly the OTHER components some edge of c enters, once each), without it they are all empty.
   The executable checkers are eliminated with Proofs/Scc.v.  Closed under the global context. *)
From Coq Require Import FMapPositive Permutation Sorted.
From MM Require Import Base.Num Base.GCGraph Base.GCReach Spec.Scc Model.Scc Proofs.Scc Proofs.Order
  Check.C18 Proofs.CheckBase Proofs.CheckC18Base Proofs.Graph Proofs.TarjanOrder.
Local Open Scope Z_scope.

Lemma nonneg_lists : forall ls, existsb (existsb (fun x => x <? 0)) ls = false -> map ZsN (map NsZ ls) = ls.
Proof.
  induction ls as [|l ls IH]; cbn; [reflexivity|]. intro H. apply Bool.orb_false_iff in H. destruct H as [H1 H2].
  rewrite ZsN_NsZ by exact H1. f_equal. auto.
Qed.

Lemma cof_match_nth : forall m obs v, cof_match m obs v = true ->
  forall k c, nth_error obs k = Some c -> c = Z.of_N (cm_of m (v + N.of_nat k)).
Proof.
  induction obs as [|x obs IH]; intros v H k c Hk; [destruct k; discriminate|].
  cbn in H. apply andb_prop in H. destruct H as [H1 H2]. apply Z.eqb_eq in H1.
  destruct k as [|k]; cbn in Hk.
  - injection Hk as <-. rewrite N.add_0_r. auto.
  - rewrite (IH _ H2 k c Hk). do 2 f_equal. lia.
Qed.

Lemma lists_eqb_eq : forall a b, lists_eqb a b = true -> a = b.
Proof.
  induction a as [|x a IH]; intros [|y b] H; cbn in H; try discriminate; [reflexivity|].
  apply andb_prop in H. destruct H as [H1 H2]. apply Ns_eqb_eq in H1. subst y. f_equal. auto.
Qed.

Definition scc_case_ok (rest : list Z) : Prop :=
  exists g flags compsN hascof cof outsN,
    rest = enc_graph g ++ flags :: 0 :: enc_Zss (map ZsN compsN) ++ hascof :: enc_Zs cof ++ enc_Zss (map ZsN outsN) ++ 1 :: enc_graph g /\
    g_wf g /\
    scc_spec g compsN /\
    hascof = (if flags =? 0 then 0 else 1) /\
    (flags = 0 -> cof = []) /\
    (flags <> 0 -> length cof = length g /\
       forall c v, In v (comp_at compsN c) -> nth (N.to_nat v) cof (-1) = Z.of_nat c) /\
    length outsN = length compsN /\
    (if Z.testbit flags 1 then scc_edges_spec g compsN outsN else Forall (fun l => l = []) outsN) /\
    Forall (StronglySorted N.lt) outsN.

Theorem check_scc_sound : forall l c v r,
  check_scc l = Some (c :: v, r) -> c = 0 \/ c = 1 -> c = 0 /\ r = [] /\ scc_case_ok l.
Proof.
  intros l c vv r H Hc. unfold check_scc in H. pinv H. subst.
  destruct (g_wfb a) eqn:Ewf; cbn [negb] in Ev; [|rejected Ev]. apply g_wfb_spec in Ewf.
  cbv zeta in Ev. apply ok_or_mismatch in Ev; [|exact Hc]. destruct Ev as [W ->]. ff_split W.
  split; [reflexivity|]. split; [reflexivity|].
  (* pick the entries by their shape *)
  match goal with H : negb (_ || _) = true |- _ => apply Bool.negb_true_iff, Bool.orb_false_iff in H; destruct H as [Neg1 Neg2] end.
  match goal with H : scc_ok _ _ = true |- _ => rename H into Hok end.
  match goal with H : match tarjan_run _ _ _ with Some _ => _ | None => _ end = true |- _ => rename H into Htj end.
  match goal with H : (_ =? (if _ then _ else _)) = true |- _ => apply Z.eqb_eq in H; rename H into Hhas end.
  match goal with H : (_ =? 0) || (_ && _) = true |- _ => rename H into Hcof end.
  match goal with H : negb (_ =? 0) || (length _ =? 0)%nat = true |- _ => rename H into Hcof0 end.
  match goal with H : (length _ =? length _)%nat = true |- _ => apply Nat.eqb_eq in H; rename H into Hlen end.
  match goal with H : (if Z.testbit _ 1 then _ else _) = true |- _ => rename H into Hedges end.
  repeat match goal with H : (_ =? _) = true |- _ => apply Z.eqb_eq in H end. geq. subst.
  pose proof (proj1 (scc_ok_sound_complete _ _ Ewf) Hok) as Hspec.
  exists a, a0, (map NsZ a2), (if a0 =? 0 then 0 else 1), a4, (map NsZ a5).
  split; [rewrite !nonneg_lists by assumption; lay; subst; rewrite ?app_nil_r; reflexivity|].
  split; [exact Ewf|]. split; [exact Hspec|]. split; [reflexivity|]. split; [|split; [|split; [|split]]].
  - intros ->. cbn in Hcof0. apply Nat.eqb_eq in Hcof0. apply length_zero_iff_nil. exact Hcof0.
  - intro Hf. apply Z.eqb_neq in Hf. rewrite Hf in Hcof. cbn in Hcof. apply andb_prop in Hcof. destruct Hcof as [L M].
    apply Nat.eqb_eq in L. split; [exact L|]. intros c v Hv.
    destruct (cm_build (g_n a) (map NsZ a2) 0%N (PositiveMap.empty N)) as [m|] eqn:Em; [|discriminate].
    assert (Hvn : (v < g_n a)%N).
    { apply nodes_upto_In. eapply Permutation_in; [apply (scc_partition _ _ Hspec)|].
      apply in_concat. exists (comp_at (map NsZ a2) c). split; [|exact Hv].
      unfold comp_at in *. destruct (Nat.lt_ge_cases c (length (map NsZ a2))) as [Hc'|Hc'].
      - apply nth_In. exact Hc'.
      - rewrite nth_overflow in Hv by exact Hc'. destruct Hv. }
    assert (Hk : (N.to_nat v < length a4)%nat) by (rewrite L; unfold g_n in Hvn; lia).
    pose proof (cof_match_nth _ _ _ M _ _ (nth_error_nth' a4 (-1) Hk)) as Hc'.
    rewrite Hc'. rewrite N.add_0_l, Nnat.N2Nat.id. rewrite (scc_component_correct _ _ _ Em c v Hv). lia.
  - rewrite !map_length. exact Hlen.
  - destruct (Z.testbit a0 1).
    + apply (scc_edges_ok_sound_complete _ _ _ Ewf Hspec). exact Hedges.
    + apply Forall_forall. intros x Hx. apply in_map_iff in Hx. destruct Hx as (y & <- & Hy).
      rewrite forallb_forall in Hedges. specialize (Hedges _ Hy). apply Nat.eqb_eq in Hedges. destruct y; [reflexivity|discriminate].
  - destruct (tarjan_run _ _ a) as [st|] eqn:Erun; [|discriminate].
    apply andb_prop in Htj. destruct Htj as [Htj _]. apply andb_prop in Htj. destruct Htj as [_ Houts].
    apply lists_eqb_eq in Houts. rewrite Houts. exact (tarjan_outs_ascending _ _ _ _ Erun).
Qed.

(* what the order adds to scc_edges_spec: Out(c) is determined, as a list *)
Theorem scc_out_is_sorted_dedup : forall g comps outs, scc_edges_spec g comps outs ->
  Forall (StronglySorted N.lt) outs ->
  forall c l, (c < length comps)%nat -> StronglySorted N.lt l ->
    (forall d, In d l <->
       (N.to_nat d <> c /\ exists u v, In u (comp_at comps c) /\ In v (comp_at comps (N.to_nat d)) /\ In v (g_out g u))) ->
    nth c outs [] = l.
Proof.
  intros g comps outs [Hlen Hspec] Hs c l Hc Hl Hm.
  apply ascending_unique; [|exact Hl|].
  - rewrite Forall_forall in Hs. apply Hs. apply nth_In. rewrite Hlen. exact Hc.
  - intro d. rewrite Hm. exact (proj2 (Hspec c Hc) d).
Qed.

(* the three facts about the order of Out(c), grouped for Properties/C18.v: the model's lists are ascending
   for any successor function and flag; the model's Out(c) is sort + adjacent-dedup of the popped targets,
   which is ascending with the same members; an ascending list is determined by its members, so together
   with scc_edges_spec the accepted Out(c) is the one ascending enumeration of the specified set *)
Lemma scc_out_order :
  (forall out edges g st, tarjan_run out edges g = Some st ->
     Forall (StronglySorted N.lt) (rev_append (tj_outs st) [])) /\
  (forall l, StronglySorted N.lt (dedup_adj (Model.Graph.isort l)) /\
             forall z, In z (dedup_adj (Model.Graph.isort l)) <-> In z l) /\
  (forall g comps outs, scc_edges_spec g comps outs -> Forall (StronglySorted N.lt) outs ->
     forall c l, (c < length comps)%nat -> StronglySorted N.lt l ->
       (forall d, In d l <->
          (N.to_nat d <> c /\ exists u v, In u (comp_at comps c) /\ In v (comp_at comps (N.to_nat d)) /\ In v (g_out g u))) ->
       nth c outs [] = l).
Proof.
  split; [exact tarjan_outs_ascending|]. split; [|exact scc_out_is_sorted_dedup].
  intro l. split; [apply sort_dedup_ascending|]. exact (proj2 (Proofs.Tarjan.dedup_isort_spec l)).
Qed.

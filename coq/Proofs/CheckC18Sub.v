(* Proofs/CheckC18Sub.v — (group hI) what an accepted verdict of check_C18 means for op 7
   (SubgraphKeep) and op 8 (SubgraphRemove): the rest of the line is exactly
      <graph> <nodes> <edges flat> status n' { old <Out(i)> <EdgeMap(i,.) flat> }^n' 1 <graph> <nodes> <edges flat>
   (pure = 1 and the three arguments after the call are the arguments), the graph is well-formed, and
     - in general: the observation is what the model of the code (Model/Subgraph.v) returns: status 2
       (panic) and no rows when the model panics, else status 0 and the observed rows (NodeMap, Out, EdgeMap) are,
       field for field, the rows of the model's result; for SubgraphKeep (group hM) the model's value on EVERY
       request is stated in closed form, keep_any of Proofs/SubgraphAny.v: panic iff a listed node is outside the
       graph or listed twice, a requested edge does not exist in g, or edges are requested with no node kept;
       otherwise new node i = nodes[i] carries, in request order, the requests whose source has position i in the
       node list - a source that is not kept counting as position 0 - with targets translated the same way;
     - SubgraphKeep on a WELL-FORMED request (no negative number, keep_wf: distinct existing nodes, every
       requested edge joins kept nodes): status 0 and the rows are the rows of a subgraph s that satisfies
       the specification of C18_subgraph_keep_spec (NodeMap = the request, each node carries exactly the
       edges requested at it in request order, every new edge translated back is the old edge); when a
       requested node is outside the graph or listed twice: status 2 (C18 subgraph_keep_panics);
     - SubgraphRemove: when the distinct ids to remove are at most the number of nodes, status 0 and the rows
       are those of a subgraph satisfying C18_subgraph_remove_spec; otherwise status 2 (make with a negative
       capacity panics).  This covers every request.
   Closed under the global context. *)
From Coq Require Import Sorted.
From MM Require Import Base.Num Base.GCGraph Model.Subgraph Proofs.Subgraph Proofs.SubgraphAny Check.C18 Proofs.CheckBase Proofs.CheckC18Base.
Local Open Scope Z_scope.

Definition enc_sgobs (o : sg_obs) : list Z := so_old o :: enc_Zs (so_out o) ++ enc_Zs (so_emap o).
Lemma p_sgobs_layout : forall l o r, p_sgobs l = Some (o, r) -> l = enc_sgobs o ++ r.
Proof.
  intros l o r H. unfold p_sgobs in H.
  repeat (let a := fresh "a" in let r := fresh "r" in let E := fresh "E" in
          apply pbind_some in H; destruct H as (a & r & E & H)).
  apply pret_some in H. destruct H as [-> ->]. lay. subst. unfold enc_sgobs. cbn [so_old so_out so_emap app].
  rewrite <- !app_assoc. reflexivity.
Qed.

Definition flat_pairs (edges : list (Z * Z)) : list Z := flat_map (fun e => [fst e; snd e]) edges.
Lemma pairs_of_some : forall l edges, pairs_of l = Some edges -> l = flat_pairs edges.
Proof.
  fix IH 1. intros [|x [|y l]] edges H; cbn in H.
  - injection H as <-. reflexivity.
  - discriminate.
  - destruct (pairs_of l) as [t|] eqn:E; [|discriminate]. injection H as <-. cbn. do 2 f_equal. apply IH. exact E.
Qed.

(* one observed row against one node of a subgraph value *)
Definition sg_row (nd : sgnode) (o : sg_obs) : Prop :=
  so_old o = Z.of_N (sg_old nd) /\ so_out o = ZsN (sg_out nd) /\
  so_emap o = flat_map (fun e => [Z.of_N (sg_old nd); Z.of_N e]) (sg_oldedges nd).
Lemma sg_eqb_spec : forall s obs, sg_eqb s obs = true -> Forall2 sg_row s obs.
Proof.
  induction s as [|nd s IH]; intros [|o obs] H; cbn in H; try discriminate; [constructor|].
  apply andb_prop in H. destruct H as [H1 H2]. constructor; [|auto].
  unfold sg_node_eqb in H1. apply andb_prop in H1. destruct H1 as [H1 H3]. apply andb_prop in H1. destruct H1 as [H1 H4].
  apply Z.eqb_eq in H1. apply list_Z_eqb_eq in H3, H4. repeat split; auto.
Qed.

Definition sg_matches (expected : option subgraph) (status : Z) (obs : list sg_obs) : Prop :=
  match expected with None => status = 2 /\ obs = [] | Some s => status = 0 /\ Forall2 sg_row s obs end.

Lemma sg_verdict_sound : forall op bits expected status obs pure same c v,
  sg_verdict op bits expected status obs pure same = c :: v -> c = 0 \/ c = 1 ->
  c = 0 /\ pure = 1 /\ same = true /\ sg_matches expected status obs.
Proof.
  intros op bits expected status obs pure same c v H Hc. unfold sg_verdict in H. cbv zeta in H.
  apply ok_or_mismatch in H; [|exact Hc]. destruct H as [W ->].
  destruct expected as [s|]; ff_split W;
    repeat match goal with H : (_ =? _) = true |- _ => apply Z.eqb_eq in H end; subst; cbn; repeat split; auto.
  - apply sg_eqb_spec. assumption.
  - match goal with H : (length _ =? 0)%nat = true |- _ => apply Nat.eqb_eq in H; apply length_zero_iff_nil; exact H end.
Qed.

(* ====================================================================== op 7: SubgraphKeep *)
(* the conclusion of C18_subgraph_keep_spec about a result s *)
Definition keep_spec_concl (g : graph) (nodes : list N) (edges : list (N * N)) (s : subgraph) : Prop :=
  sg_nodemap s = nodes /\
  forall i nd, nth_error s i = Some nd ->
    sg_oldedges nd = map snd (filter (fun e => (fst e =? sg_old nd)%N) edges) /\
    length (sg_out nd) = length (sg_oldedges nd) /\
    forall j t' e, nth_error (sg_out nd) j = Some t' -> nth_error (sg_oldedges nd) j = Some e ->
      exists t, nth_error nodes (N.to_nat t') = Some t /\ nth_error (g_out g (sg_old nd)) (N.to_nat e) = Some t.

Definition keep_case_ok (rest : list Z) : Prop :=
  exists g nodes edges status obs,
    let eflat := flat_pairs edges in
    rest = enc_graph g ++ enc_Zs nodes ++ enc_Zs eflat ++ status :: Z.of_nat (length obs) :: flat_map enc_sgobs obs
           ++ 1 :: enc_graph g ++ enc_Zs nodes ++ enc_Zs eflat /\
    g_wf g /\
    let nodesN := NsZ nodes in
    let edgesN := map (fun e => (Z.to_N (fst e), Z.to_N (snd e))) edges in
    let neg := existsb (fun x => x <? 0) (nodes ++ eflat) in
    sg_matches (if neg then None else keep_any g nodesN edgesN) status obs /\
    (neg = false -> keep_wf g nodesN edgesN ->
       status = 0 /\ exists s, Forall2 sg_row s obs /\ keep_spec_concl g nodesN edgesN s) /\
    (* a node outside the graph or listed twice: the call panics *)
    (neg = false -> (exists v, In v nodesN /\ (g_n g <= v)%N) \/ ~ NoDup nodesN -> status = 2).

Theorem check_keep_sound : forall l c v r,
  check_keep l = Some (c :: v, r) -> c = 0 \/ c = 1 -> c = 0 /\ r = [] /\ keep_case_ok l.
Proof.
  intros l c v r H Hc. unfold check_keep in H. pinv H. subst.
  destruct (g_wfb a) eqn:Ewf; cbn [negb] in Ev; [|rejected Ev]. apply g_wfb_spec in Ewf.
  destruct (pairs_of a1) as [edges|] eqn:EP; [|rejected Ev]. apply pairs_of_some in EP.
  cbv zeta in Ev. apply sg_verdict_sound in Ev; [|exact Hc]. destruct Ev as (-> & -> & Same & M).
  apply andb_prop in Same. destruct Same as [Same S3]. apply andb_prop in Same. destruct Same as [S1 S2].
  apply list_Z_eqb_eq in S2, S3. symmetry in S2, S3. geq. subst.
  split; [reflexivity|]. split; [reflexivity|].
  exists a, a0, edges, a2, a3. cbv zeta.
  split; [match goal with E : plist_any p_sgobs _ = Some _ |- _ => apply (plist_any_layout _ _ p_sgobs_layout) in E end; lay; subst; rewrite ?app_nil_r; reflexivity|].
  split; [exact Ewf|]. rewrite existsb_app. split; [rewrite <- subgraph_keep_any; exact M|]. split.
  - intros Hneg Hwf. rewrite Hneg in M.
    destruct (subgraph_keep_spec _ _ _ Hwf) as (s & Es & Hs). rewrite Es in M. destruct M as [M1 M2].
    split; [exact M1|]. exists s. split; [exact M2|exact Hs].
  - intros Hneg Hbad. rewrite Hneg in M. rewrite (subgraph_keep_panics _ _ _ Hbad) in M. apply M.
Qed.

(* ====================================================================== op 8: SubgraphRemove *)
(* the conclusion of C18_subgraph_remove_spec about a result s *)
Definition remove_spec_concl (g : graph) (rm : list Z) (rme : list (Z * Z)) (s : subgraph) : Prop :=
  (forall v, In v (sg_nodemap s) <-> (v < g_n g)%N /\ zmem (Z.of_N v) rm = false) /\
  Sorted N.lt (sg_nodemap s) /\
  forall i nd, nth_error s i = Some nd ->
    length (sg_out nd) = length (sg_oldedges nd) /\
    Sorted N.lt (sg_oldedges nd) /\
    (forall e, In e (sg_oldedges nd) <->
       exists t, nth_error (g_out g (sg_old nd)) (N.to_nat e) = Some t /\
                 zmem (Z.of_N t) rm = false /\ zzmem (Z.of_N (sg_old nd), Z.of_N e) rme = false) /\
    forall j t' e, nth_error (sg_out nd) j = Some t' -> nth_error (sg_oldedges nd) j = Some e ->
      exists t, nth_error (sg_nodemap s) (N.to_nat t') = Some t /\ nth_error (g_out g (sg_old nd)) (N.to_nat e) = Some t.

Definition remove_case_ok (rest : list Z) : Prop :=
  exists g nodes edges status obs,
    let eflat := flat_pairs edges in
    rest = enc_graph g ++ enc_Zs nodes ++ enc_Zs eflat ++ status :: Z.of_nat (length obs) :: flat_map enc_sgobs obs
           ++ 1 :: enc_graph g ++ enc_Zs nodes ++ enc_Zs eflat /\
    g_wf g /\
    sg_matches (subgraph_remove g nodes edges) status obs /\
    ((zdistinct nodes <= length g)%nat ->
       status = 0 /\ exists s, Forall2 sg_row s obs /\ remove_spec_concl g nodes edges s) /\
    ((length g < zdistinct nodes)%nat -> status = 2).

Theorem check_remove_sound : forall l c v r,
  check_remove l = Some (c :: v, r) -> c = 0 \/ c = 1 -> c = 0 /\ r = [] /\ remove_case_ok l.
Proof.
  intros l c v r H Hc. unfold check_remove in H. pinv H. subst.
  destruct (g_wfb a) eqn:Ewf; cbn [negb] in Ev; [|rejected Ev]. apply g_wfb_spec in Ewf.
  destruct (pairs_of a1) as [edges|] eqn:EP; [|rejected Ev]. apply pairs_of_some in EP.
  cbv zeta in Ev. apply sg_verdict_sound in Ev; [|exact Hc]. destruct Ev as (-> & -> & Same & M).
  apply andb_prop in Same. destruct Same as [Same S3]. apply andb_prop in Same. destruct Same as [S1 S2].
  apply list_Z_eqb_eq in S2, S3. symmetry in S2, S3. geq. subst.
  split; [reflexivity|]. split; [reflexivity|].
  exists a, a0, edges, a2, a3. cbv zeta.
  split; [match goal with E : plist_any p_sgobs _ = Some _ |- _ => apply (plist_any_layout _ _ p_sgobs_layout) in E end; lay; subst; rewrite ?app_nil_r; reflexivity|].
  split; [exact Ewf|]. split; [exact M|]. split.
  - intro Hd. destruct (subgraph_remove_spec _ _ edges Ewf Hd) as (s & Es & Hs). rewrite Es in M. destruct M as [M1 M2].
    split; [exact M1|]. exists s. split; [exact M2|exact Hs].
  - intro Hd. rewrite (subgraph_remove_panics _ _ edges Hd) in M. apply M.
Qed.

(* Proofs/CheckC18Trav.v — (group hI) what an accepted verdict of check_C18 means for op 2
   (PreOrder / PostOrder / Reverse / Euler): the rest of the line is exactly
       <graph> nroots { root status <pre> <post> <revpost> <revarg> <euler> <enterOnly> <exitOnly> }^nroots 1 <graph>
   (nroots >= 1, pure = 1, the argument graph after the calls is the argument graph), the graph is
   well-formed, and for every recorded root:
     - root outside the graph: the observed status is 2 (a call panicked) and all seven lists are empty;
     - root r < n: status 0 (every call returned) and there is ONE event sequence evs with
       dfs_node (g_out g) [] r evs V'  (Spec/Dfs.v: the depth-first specification from the empty visited
       set, unique by C18_dfs_unique) such that PreOrder = the Enter projection, PostOrder = the Exit
       projection, Reverse's result and its argument slice afterwards = the reversed Exit projection, the
       Euler callback sequence = evs, Euler with only Enter / only Exit = the projections of evs.
   The executable models (Model/Order.v with the NodeMarks bit set and the trie adjacency) are eliminated
   with Proofs/Order.v + Proofs/Marks.v.  Closed under the global context. *)
From Coq Require Import FMapPositive.
From MM Require Import Base.Num Base.GCGraph Model.Marks Spec.Dfs Model.Order Proofs.Marks Proofs.Order Proofs.OrderMarks
  Check.C18 Proofs.CheckBase Proofs.CheckC18Base.
Local Open Scope Z_scope.

(* ---------- the specification does not depend on how the adjacency function is represented ---------- *)
Lemma dfs_ext_both : forall out1 out2, (forall u, out1 u = out2 u) ->
  (forall V n e V', dfs_node out1 V n e V' -> dfs_node out2 V n e V') /\
  (forall V l e V', dfs_succs out1 V l e V' -> dfs_succs out2 V l e V').
Proof.
  intros out1 out2 E.
  apply (dfs_min out1 (fun V n e V' => dfs_node out2 V n e V') (fun V l e V' => dfs_succs out2 V l e V')).
  - intros V n evs V' _ IH. constructor. rewrite <- E. exact IH.
  - intro V. constructor.
  - intros V s t evs V' Hin _ IH. apply dfs_skip; assumption.
  - intros V s t e1 V1 e2 V2 Hn _ IH1 _ IH2. eapply dfs_descend; eassumption.
Qed.
Lemma dfs_node_ext : forall out1 out2, (forall u, out1 u = out2 u) ->
  forall V n e V', dfs_node out1 V n e V' -> dfs_node out2 V n e V'.
Proof. intros out1 out2 E. exact (proj1 (dfs_ext_both out1 out2 E)). Qed.

(* ---------- one root's record on the line ---------- *)
Definition enc_trav (o : trav_obs) : list Z :=
  t_root o :: t_status o :: enc_Zs (t_pre o) ++ enc_Zs (t_post o) ++ enc_Zs (t_rev o) ++ enc_Zs (t_rva o) ++
  enc_Zs (t_eul o) ++ enc_Zs (t_ent o) ++ enc_Zs (t_ext o).
Lemma p_trav_layout : forall l o r, p_trav l = Some (o, r) -> l = enc_trav o ++ r.
Proof.
  intros l o r H. unfold p_trav in H.
  repeat (let a := fresh "a" in let r := fresh "r" in let E := fresh "E" in
          apply pbind_some in H; destruct H as (a & r & E & H)).
  apply pret_some in H. destruct H as [-> ->]. lay. subst. unfold enc_trav. cbn [t_root t_status t_pre t_post t_rev t_rva t_eul t_ent t_ext].
  cbn [app]. rewrite <- !app_assoc. reflexivity.
Qed.

Definition trav_ok (g : graph) (o : trav_obs) : Prop :=
  ((t_root o < 0 \/ Z.of_nat (length g) <= t_root o) ->
     t_status o = 2 /\ t_pre o = [] /\ t_post o = [] /\ t_rev o = [] /\ t_rva o = [] /\ t_eul o = [] /\ t_ent o = [] /\ t_ext o = []) /\
  (0 <= t_root o < Z.of_nat (length g) ->
     t_status o = 0 /\
     exists evs V', dfs_node (g_out g) [] (Z.to_N (t_root o)) evs V' /\
       t_pre o = ZsN (enters evs) /\ t_post o = ZsN (exits evs) /\
       t_rev o = ZsN (rev (exits evs)) /\ t_rva o = ZsN (rev (exits evs)) /\
       t_eul o = map ev_code evs /\
       t_ent o = map ev_code (filter is_enter evs) /\ t_ext o = map ev_code (filter is_exit evs)).

Definition trav_case_ok (rest : list Z) : Prop :=
  exists g obs, rest = enc_graph g ++ Z.of_nat (length obs) :: flat_map enc_trav obs ++ 1 :: enc_graph g /\
    g_wf g /\ obs <> [] /\ Forall (trav_ok g) obs.

Lemma trav_all_None : forall out n fuel l idx bits b, trav_all out n fuel l idx bits = (b, None) ->
  Forall (fun o => snd (trav_one out n fuel o) = None) l.
Proof.
  induction l as [|o l IH]; intros idx bits b H; [constructor|].
  cbn [trav_all] in H. destruct (trav_one out n fuel o) as [bb [k|]] eqn:E; [discriminate|].
  constructor; [rewrite E; reflexivity|]. eapply IH. exact H.
Qed.

Lemma trav_one_sound : forall g fuel o, snd (trav_one (gm_out (gm_build g)) (g_n g) fuel o) = None -> trav_ok g o.
Proof.
  intros g fuel o H. unfold trav_one in H. unfold g_n in H. rewrite nat_N_Z in H.
  destruct ((t_root o <? 0) || (Z.of_nat (length g) <=? t_root o)) eqn:Eout.
  - cbn [snd] in H. apply Bool.orb_true_iff in Eout. split; [|intro; destruct Eout as [E|E]; [apply Z.ltb_lt in E|apply Z.leb_le in E]; lia].
    intros _. destruct (t_status o =? 2) eqn:Es; [apply Z.eqb_eq in Es|discriminate]. cbn [andb] in H.
    match type of H with (if ?b then _ else _) = _ => destruct b eqn:EL; [|discriminate] end.
    apply Nat.eqb_eq in EL. rewrite !app_length in EL.
    repeat split; try exact Es; apply length_zero_iff_nil; lia.
  - apply Bool.orb_false_iff in Eout. destruct Eout as [E1 E2]. apply Z.ltb_ge in E1. apply Z.leb_gt in E2.
    split; [lia|]. intros _. cbn [snd] in H. cbv zeta in H. unfold euler in H.
    set (out := gm_out (gm_build g)) in *. set (r := Z.to_N (t_root o)) in *.
    destruct (run_visit out true false fuel r) as [ent|] eqn:Eent;
      [|ff_split H; repeat match goal with X : oeq _ _ = true |- _ => apply oeq_some in X; cbn in X; try discriminate X end].
    destruct (run_visit out false true fuel r) as [ext|] eqn:Eext;
      [|ff_split H; repeat match goal with X : oeq _ _ = true |- _ => apply oeq_some in X; cbn in X; try discriminate X end].
    destruct (run_visit out true true fuel r) as [eul|] eqn:Eeul;
      [|ff_split H; repeat match goal with X : oeq _ _ = true |- _ => apply oeq_some in X; cbn in X; try discriminate X end].
    destruct (run_visit_sound new_spec mark_spec _ _ _ _ _ _ Eent) as (evs & V' & D1 & ->).
    destruct (run_visit_sound new_spec mark_spec _ _ _ _ _ _ Eext) as (evs2 & V2 & D2 & ->).
    destruct (run_visit_sound new_spec mark_spec _ _ _ _ _ _ Eeul) as (evs3 & V3 & D3 & ->).
    destruct (dfs_det _ _ _ _ _ D1 _ _ D2) as [<- <-]. destruct (dfs_det _ _ _ _ _ D1 _ _ D3) as [<- <-].
    ff_split H.
    match goal with X : (_ =? 0) = true |- _ => apply Z.eqb_eq in X; rename X into Hst end.
    repeat match goal with X : oeq _ _ = true |- _ => apply oeq_some in X; cbn [oZs option_map] in X; injection X as X end.
    split; [exact Hst|]. exists evs, V'. split.
    { eapply dfs_node_ext; [|exact D1]. intro u. apply gm_out_build. }
    rewrite keep_all in *. rewrite keep_enters, keep_exits, reverse_spec in *.
    assert (Eflt : filter (keep true false) evs = filter is_enter evs) by (apply filter_ext; intros [x|x]; reflexivity).
    rewrite Eflt in *. change (filter (keep false true) evs) with (filter is_exit evs) in *.
    repeat split; symmetry; assumption.
Qed.

Theorem check_trav_sound : forall l c v r,
  check_trav l = Some (c :: v, r) -> c = 0 \/ c = 1 -> c = 0 /\ r = [] /\ trav_case_ok l.
Proof.
  intros l c v r H Hc. unfold check_trav in H. pinv H. subst.
  destruct (g_wfb a) eqn:Ewf; cbn [negb orb] in Ev; [|rejected Ev]. apply g_wfb_spec in Ewf.
  destruct (length a0 =? 0)%nat eqn:EL; [rejected Ev|]. apply Nat.eqb_neq in EL.
  cbv zeta in Ev.
  destruct (trav_all (gm_out (gm_build a)) (g_n a) (S (length a)) a0 0 0) as [bits [[idx k]|]] eqn:ET; [rejected Ev|].
  destruct ((a1 =? 1) && graph_eqb a a2) eqn:EP; [|rejected Ev].
  apply andb_prop in EP. destruct EP as [EP1 EP2]. apply Z.eqb_eq in EP1. geq. subst.
  pose proof (verdict_code _ _ _ _ _ _ Ev) as C. unfold V_OK in C. subst c.
  split; [reflexivity|]. split; [reflexivity|]. exists a, a0. split; [|split; [exact Ewf|split]].
  - apply (plist_any_layout _ _ p_trav_layout) in E0. lay. subst. rewrite ?app_nil_r. reflexivity.
  - intros ->. apply EL. reflexivity.
  - apply trav_all_None in ET. eapply Forall_impl; [|exact ET]. intros o Ho. eapply trav_one_sound. exact Ho.
Qed.

(* Proofs/CheckC19.v — (group hI) what an accepted verdict of check_C19 means.
   Accepted (code 0 or 1; check_C19 has no borderline code, so really 0) ==> the line parses
   COMPLETELY into a well-formed graph g and a NON-EMPTY list of root observations, and for
   every root r of the line (r a node of g):
   - IDom returned, and its result is, node for node, idom_spec g r (the unique closest strict
     dominator, -1 for the root and for unreachable nodes: C19_idom_spec_unique,
     C19_idom_spec_root_unreachable);
   - Dom returned, NumNodes = V, the tree has V rows, row k has IDom(k) = idom_spec g r k,
     In(k) = [IDom(k)] and Out(k) is a permutation of the nodes j with idom_spec g r j = k
     (each exactly once: children_of, C19 children_of_spec);
   - DomFrontier returned V rows and for every node x REACHABLE from r the row of x is, as a
     set, df_spec g r x (C19_df_spec_def) - membership of the root itself not being judged
     when the root has exactly one incoming edge (the property's carve-out; indeg counts
     parallel edges);
   - no argument was modified.
   The statement mentions the specification oracle only (reach / idom_spec / children_of /
   df_spec), not the algorithm model; that the accepted values ALSO equal the algorithm
   model's (order of children and of frontier members) is [check_ok_model].
   Everything is over nat/Z/lists and closed under the global context. *)
From Coq Require Import List Arith Bool PeanoNat ZArith Lia Permutation FinFun.
From MM Require Import Base.Num Base.GDGraph Spec.Dom Model.Dom Proofs.DomSpec Proofs.DomModel Proofs.DomFrontier
  Proofs.CheckBase Check.C19.
Import ListNotations.
Local Open Scope nat_scope.

(* ---------- small readings ---------- *)
Lemma first_bad_none {A} (f : A -> bool) l : first_bad f l = None -> forall x, In x l -> f x = true.
Proof.
  induction l as [|y l IH]; simpl; intros H x Hx; [destruct Hx|].
  destruct (f y) eqn:E; [|discriminate]. destruct Hx as [<-|Hx]; [exact E|]. apply IH; assumption.
Qed.

Lemma zmem_In x l : zmem x l = true <-> In x l.
Proof.
  unfold zmem. rewrite existsb_exists. split.
  - intros (y & Hy & E). apply Z.eqb_eq in E. now subst.
  - intros H. exists x. split; [exact H|apply Z.eqb_refl].
Qed.

Lemma set_eqb_iff a b : set_eqb a b = true <-> (forall x, In x a <-> In x b).
Proof.
  unfold set_eqb. rewrite andb_true_iff, !forallb_forall. split.
  - intros [H1 H2] x. split; intro H; [apply zmem_In, H1, H|apply zmem_In, H2, H].
  - intros H. split; intros x Hx; apply zmem_In, H, Hx.
Qed.

Lemma zs_In y l : In y (zs l) <-> exists y', y = Z.of_nat y' /\ In y' l.
Proof.
  unfold zs. rewrite in_map_iff. split; intros (k & H1 & H2); exists k; auto.
Qed.

Lemma zs_NoDup l : NoDup l -> NoDup (zs l).
Proof. apply Injective_map_NoDup. intros a b. apply Nat2Z.inj. Qed.

Lemma children_of_NoDup idom i : NoDup (children_of idom i).
Proof. unfold children_of. apply NoDup_filter, seq_NoDup. Qed.

Lemma set_eqb_perm ob e : NoDup e -> set_eqb ob e = true -> length ob = length e -> Permutation ob e.
Proof.
  intros Hnd Hs Hl. symmetry. apply NoDup_Permutation_bis; [exact Hnd|lia|].
  intros x Hx. apply (proj1 (set_eqb_iff ob e) Hs). exact Hx.
Qed.

Lemma llZ_eqb_eq a b : llZ_eqb a b = true <-> a = b.
Proof.
  revert b. induction a as [|x a IH]; destruct b as [|y b]; simpl; split; try discriminate; try reflexivity.
  - intro H. apply andb_prop in H. destruct H as [H1 H2]. apply list_Z_eqb_eq in H1. apply IH in H2. now subst.
  - intro H. injection H as -> ->. apply andb_true_intro. split; [now apply list_Z_eqb_eq|now apply IH].
Qed.

(* ---------- the tree rows ---------- *)
Definition tree_rows (es : list Z) (t : list (Z * (list Z * list Z))) : Prop :=
  Forall2 (fun e row => fst row = e /\ fst (snd row) = [e]) es t.

Lemma tree_ok_rows es t : tree_ok es t = true -> tree_rows es t.
Proof.
  unfold tree_ok, tree_rows. revert t. induction es as [|e es IH]; intros [|[i [inn out]] t] H; try discriminate.
  - constructor.
  - apply andb_prop in H. destruct H as [H H3]. apply andb_prop in H. destruct H as [H1 H2].
    apply Z.eqb_eq in H1. apply list_Z_eqb_eq in H2. constructor; [simpl; subst; auto|apply IH, H3].
Qed.

Lemma Forall2_nth_error {A B} (P : A -> B -> Prop) l l' : Forall2 P l l' ->
  forall k a, nth_error l k = Some a -> exists b, nth_error l' k = Some b /\ P a b.
Proof.
  induction 1 as [|x y l l' Hxy _ IH]; intros [|k] a Hk; simpl in *; try discriminate.
  - injection Hk as <-. eauto.
  - eapply IH; eauto.
Qed.

Lemma Forall2_length' {A B} (P : A -> B -> Prop) l l' : Forall2 P l l' -> length l = length l'.
Proof. induction 1; simpl; congruence. Qed.

(* ---------- the parser ---------- *)
Lemma p_line_complete line x rest : p_line line = Some (x, rest) -> rest = [].
Proof.
  unfold p_line. intro H.
  apply pbind_some in H. destruct H as (tag & r1 & _ & H).
  destruct (negb (tag =? 19)%Z); [discriminate|].
  apply pbind_some in H. destruct H as (n & r2 & _ & H).
  apply pbind_some in H. destruct H as (g & r3 & _ & H).
  apply pbind_some in H. destruct H as (rs & r4 & _ & H).
  apply pend_some in H. tauto.
Qed.

(* ---------- what one accepted root observation means ---------- *)
Definition root_sound (g : graph) (o : rootobs) : Prop :=
  let n := length g in
  let r := ro_root o in
  (* IDom *)
  ro_stI o = 0%Z /\ ro_idom o = map oz (idom_spec_list g r) /\
  (* Dom(idom).{NumNodes, IDom, In, Out} *)
  ro_stD o = 0%Z /\ ro_nn o = Z.of_nat n /\ length (ro_tree o) = n /\
  (forall k, k < n -> exists outs,
      nth_error (ro_tree o) k = Some (oz (idom_spec g r k), ([oz (idom_spec g r k)], outs)) /\
      Permutation outs (zs (children_of (idom_spec_list g r) k))) /\
  (* DomFrontier *)
  ro_stF o = 0%Z /\ length (ro_df o) = n /\
  (forall x, In x (reach g r) -> exists row, nth_error (ro_df o) x = Some row /\
      forall y, ~ (y = Z.of_nat r /\ indeg g r = 1) ->
        (In y row <-> exists y', y = Z.of_nat y' /\ In y' (df_spec g r x))) /\
  (* arguments untouched *)
  ro_mut o = 0%Z.

(* the same observation equals the ALGORITHM MODEL's values exactly (order included) *)
Definition root_model (g : graph) (o : rootobs) : Prop :=
  let r := ro_root o in
  let fuel := fuel_for g in
  exists im ch d,
    idom_chk fuel g r = Ok im /\ ro_idom o = map oz im /\
    dom_children (idom_spec_list g r) = Ok ch /\ map (fun t => snd (snd t)) (ro_tree o) = map zs ch /\
    dom_frontier fuel g r (idom_spec_list g r) = Ok d /\
    map (fun x => nth x (ro_df o) []) (reach g r) = map (fun x => zs (nth x d [])) (reach g r).

Ltac kill H := first [discriminate H | (exfalso; revert H; clear; intro H; discriminate H)].

Lemma check_root_sound g insl o t : wf g -> ro_root o < length g -> mk_ins g = Ok insl ->
  check_root g insl o = (t, None) -> root_sound g o /\ root_model g o.
Proof.
  intros Hwf Hr Hins H.
  pose proof (oracle_table_correct g (ro_root o)) as Hor. cbv zeta in Hor. destruct Hor as [Hid Hdf].
  unfold check_root in H. cbv zeta in H. rewrite Hid in H.
  set (r := ro_root o) in *. set (n := length g) in *.
  set (R := reach g r) in *. set (av := lookup (avoid_table_on g r R)) in *.
  set (ispec := idom_spec_list g r) in *.
  destruct (negb (ro_stI o =? 0)%Z) eqn:E0; [discriminate H|].
  destruct (negb (list_Z_eqb (ro_idom o) (map oz ispec))) eqn:E1; [discriminate H|].
  destruct (idom_chk (fuel_for g) g r) as [im| |] eqn:Echk; [|discriminate H|discriminate H].
  destruct (negb (list_Z_eqb (ro_idom o) (map oz im))) eqn:E2; [discriminate H|].
  destruct (negb (ro_stD o =? 0)%Z) eqn:E3; [discriminate H|].
  destruct (negb (ro_nn o =? Z.of_nat n)%Z) eqn:E4; [discriminate H|].
  destruct (negb (tree_ok (map oz ispec) (ro_tree o))) eqn:E5; [discriminate H|].
  match type of H with match first_bad ?f ?l with _ => _ end = _ => destruct (first_bad f l) eqn:E6; [discriminate H|] end.
  destruct (dom_children ispec) as [ch| |] eqn:Ech; [|discriminate H|discriminate H].
  match type of H with (if negb (llZ_eqb ?a ?b) then _ else _) = _ => destruct (negb (llZ_eqb a b)) eqn:E7; [discriminate H|] end.
  destruct (negb (ro_stF o =? 0)%Z) eqn:E8; [discriminate H|].
  destruct (negb (length (ro_df o) =? n)) eqn:E9; [discriminate H|].
  match type of H with match first_bad ?f ?l with _ => _ end = _ => destruct (first_bad f l) eqn:E10; [discriminate H|] end.
  destruct (dom_frontier (fuel_for g) g r ispec) as [d| |] eqn:Edf; [|discriminate H|discriminate H].
  match type of H with (if negb (llZ_eqb ?a ?b) then _ else _) = _ => destruct (negb (llZ_eqb a b)) eqn:E11; [discriminate H|] end.
  destruct (negb (ro_mut o =? 0)%Z) eqn:E12; [discriminate H|].
  clear H.
  apply negb_false_iff in E0, E1, E2, E3, E4, E5, E7, E8, E9, E11, E12.
  apply Z.eqb_eq in E0, E3, E4, E8, E12. apply list_Z_eqb_eq in E1, E2. apply Nat.eqb_eq in E9.
  apply llZ_eqb_eq in E7, E11. apply tree_ok_rows in E5.
  assert (Hlen : length ispec = n) by (unfold ispec, idom_spec_list; now rewrite map_length, seq_length).
  assert (Htl : length (ro_tree o) = n).
  { apply Forall2_length' in E5. rewrite map_length in E5. congruence. }
  split.
  - unfold root_sound. fold r n ispec. repeat split; try assumption.
    + (* tree rows *)
      intros k Hk.
      assert (Hnth : nth_error (map oz ispec) k = Some (oz (idom_spec g r k))).
      { rewrite nth_error_map. unfold ispec. rewrite idom_spec_list_nth by exact Hk. reflexivity. }
      destruct (Forall2_nth_error _ _ _ E5 _ _ Hnth) as ([i [inn out]] & Hrow & Hi & Hinn). simpl in Hi, Hinn.
      exists out. split; [rewrite Hrow; subst; reflexivity|].
      pose proof (first_bad_none _ _ E6 k) as Hk6. cbv beta in Hk6.
      assert (Hin : In k (seq 0 n)) by (apply in_seq; lia). specialize (Hk6 Hin).
      apply andb_prop in Hk6. destruct Hk6 as [Hs Hl]. apply Nat.eqb_eq in Hl.
      assert (Hout : nth k (map (fun t0 => snd (snd t0)) (ro_tree o)) [] = out).
      { erewrite nth_error_nth; [reflexivity|]. rewrite nth_error_map, Hrow. reflexivity. }
      rewrite Hout in Hs, Hl.
      apply set_eqb_perm; [apply zs_NoDup, children_of_NoDup|exact Hs|exact Hl].
    + (* frontier rows *)
      intros x Hx. fold R in Hx.
      assert (Hxn : x < n) by (eapply reach_lt; eauto).
      destruct (nth_error (ro_df o) x) as [row|] eqn:Erow; [|apply nth_error_None in Erow; lia].
      exists row. split; [reflexivity|]. intros y Hy.
      pose proof (first_bad_none _ _ E10 x Hx) as Hs. cbv beta in Hs.
      rewrite (nth_error_nth _ _ _ Erow) in Hs. rewrite (Hdf x Hx) in Hs.
      destruct (make_bigraph_spec g Hwf) as (insl' & Hins' & _ & Hps). rewrite Hins in Hins'. injection Hins' as <-.
      destruct (Hps r Hr) as (ps & Hps1 & Hps2 & _).
      rewrite (nth_error_nth _ _ _ Hps1) in Hs. rewrite Hps2 in Hs.
      destruct (indeg g r =? 1) eqn:Ecarve.
      * apply Nat.eqb_eq in Ecarve. pose proof (proj1 (set_eqb_iff _ _) Hs y) as Hs'. rewrite !filter_In in Hs'.
        assert (Hyr : negb (y =? Z.of_nat r)%Z = true).
        { apply negb_true_iff. apply Z.eqb_neq. intro. apply Hy. split; assumption. }
        rewrite <- zs_In. split; intro Hi; [apply Hs'|apply (proj2 Hs')]; tauto.
      * rewrite <- zs_In. exact (proj1 (set_eqb_iff _ _) Hs y).
  - unfold root_model. fold r ispec R. exists im, ch, d. repeat split; assumption.
Qed.

Lemma check_roots_sound g insl : wf g -> mk_ins g = Ok insl -> forall os idx tag t,
  Forall (fun o => ro_root o < length g) os ->
  check_roots g insl os idx tag = (t, None) -> Forall (fun o => root_sound g o /\ root_model g o) os.
Proof.
  intros Hwf Hins. induction os as [|o os IH]; intros idx tag t Hr H; [constructor|].
  simpl in H. inversion Hr as [|? ? Hro Hrs]; subst.
  destruct (check_root g insl o) as [t1 [[k d]|]] eqn:E; [discriminate H|].
  constructor; [eapply check_root_sound; eauto|eapply IH; eauto].
Qed.

(* ---------- the theorem ---------- *)
Definition case_sound (g : graph) (os : list rootobs) : Prop :=
  wf g /\ os <> [] /\ Forall (fun o => ro_root o < length g /\ root_sound g o) os.

Theorem check_ok_sound : forall line c tag pos diag,
  check_C19 line = verdict c tag pos diag -> (c = 0 \/ c = 1)%Z ->
  exists g os, p_line line = Some ((g, os), []) /\ case_sound g os.
Proof.
  intros line c tag pos diag H Hc. unfold check_C19 in H.
  destruct (p_line line) as [[[g os] rest]|] eqn:Ep.
  2:{ apply verdict_inj in H. unfold V_MALFORMED in H. lia. }
  pose proof (p_line_complete _ _ _ Ep) as ->.
  destruct (negb (wfb g) || negb (forallb (fun o => ro_root o <? length g) os)) eqn:Ew.
  { apply verdict_inj in H. unfold V_MALFORMED in H. lia. }
  apply orb_false_iff in Ew. destruct Ew as [Ew Er]. apply negb_false_iff in Ew, Er.
  apply wfb_wf in Ew. rewrite forallb_forall in Er.
  destruct (length os =? 0) eqn:El.
  { apply verdict_inj in H. unfold V_MISMATCH in H. lia. }
  destruct (mk_ins g) as [insl| |] eqn:Ei.
  2,3: apply verdict_inj in H; unfold V_MALFORMED in H; lia.
  destruct (check_roots g insl os 0 0) as [t [[p d]|]] eqn:Ec.
  { apply verdict_inj in H. unfold V_MISMATCH in H. lia. }
  exists g, os. split; [reflexivity|]. split; [exact Ew|]. split.
  { intros ->. discriminate El. }
  assert (Hr : Forall (fun o => ro_root o < length g) os).
  { apply Forall_forall. intros o Ho. apply Nat.ltb_lt. apply Er, Ho. }
  pose proof (check_roots_sound g insl Ew Ei os _ _ _ Hr Ec) as Hs.
  rewrite Forall_forall in *. intros o Ho. split; [apply Hr, Ho|apply (Hs o Ho)].
Qed.

Theorem check_ok_model : forall line c tag pos diag g os,
  check_C19 line = verdict c tag pos diag -> (c = 0 \/ c = 1)%Z -> p_line line = Some ((g, os), []) ->
  Forall (root_model g) os.
Proof.
  intros line c tag pos diag g os H Hc Ep. unfold check_C19 in H. rewrite Ep in H.
  destruct (negb (wfb g) || negb (forallb (fun o => ro_root o <? length g) os)) eqn:Ew.
  { apply verdict_inj in H. unfold V_MALFORMED in H. lia. }
  apply orb_false_iff in Ew. destruct Ew as [Ew Er]. apply negb_false_iff in Ew, Er.
  apply wfb_wf in Ew. rewrite forallb_forall in Er.
  destruct (length os =? 0) eqn:El.
  { apply verdict_inj in H. unfold V_MISMATCH in H. lia. }
  destruct (mk_ins g) as [insl| |] eqn:Ei.
  2,3: apply verdict_inj in H; unfold V_MALFORMED in H; lia.
  destruct (check_roots g insl os 0 0) as [t [[p d]|]] eqn:Ec.
  { apply verdict_inj in H. unfold V_MISMATCH in H. lia. }
  assert (Hr : Forall (fun o => ro_root o < length g) os).
  { apply Forall_forall. intros o Ho. apply Nat.ltb_lt. apply Er, Ho. }
  pose proof (check_roots_sound g insl Ew Ei os _ _ _ Hr Ec) as Hs.
  rewrite Forall_forall in *. intros o Ho. apply (Hs o Ho).
Qed.

(* the conclusion of [check_ok_sound], read through the definitions of dominance: every
   observed IDom entry of a reachable non-root node is THE closest strict dominator *)
Corollary accepted_idom_is_closest_sdom : forall g o, wf g -> ro_root o < length g -> root_sound g o ->
  forall b, b < length g ->
    exists z, nth_error (ro_idom o) b = Some z /\
      ((b = ro_root o \/ ~ In b (reach g (ro_root o))) -> z = (-1)%Z) /\
      (In b (reach g (ro_root o)) -> b <> ro_root o ->
         exists d, z = Z.of_nat d /\ sdominates g (ro_root o) d b /\
                   forall a, sdominates g (ro_root o) a b -> dominates g (ro_root o) a d).
Proof.
  intros g o Hwf Hr Hs b Hb. destruct Hs as (_ & Hid & _).
  exists (oz (idom_spec g (ro_root o) b)). split.
  - rewrite Hid, nth_error_map, idom_spec_list_nth by exact Hb. reflexivity.
  - split.
    + intros H. rewrite (idom_spec_root_unreachable g (ro_root o) b H). reflexivity.
    + intros Hin Hne. destruct (idom_spec_unique g (ro_root o) b Hin Hne) as (d & Hd & [Hsd Hcl] & _).
      exists d. rewrite Hd. simpl. auto.
Qed.

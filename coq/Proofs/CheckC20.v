(* Proofs/CheckC20.v — what an accepted verdict of check_C20 means.
   The comparator of C20 sees only FLAGS that the Go harness computes; this file proves what
   acceptance says ABOUT THOSE FLAGS (complete parse, routine in the table, observed
   modifications inside the proved footprint, det = conc = 1, no panic, an in-place operation
   changed something, a canary is flagged exactly as demanded) and composes it with the
   memory theorems of Proofs/Heap.v.  What the flags themselves mean is the TRUSTED base of
   the C20 verdict and is stated in Properties/C20.v next to C20_check_ok_sound. *)
From MM Require Import Base.Num Model.Heap Proofs.Heap Proofs.CheckBase Check.C20.
From Coq Require Import Lia.
Local Open Scope Z_scope.

Definition b2z (b : bool) : Z := if b then 1 else 0.

(* ---------- the line is decoded completely ---------- *)
Lemma p01_some l b r : p01 l = Some (b, r) -> l = b2z b :: r.
Proof.
  unfold p01. intro H. apply pbind_some in H. destruct H as (z & r' & H1 & H2). apply pZ_some in H1. subst l.
  destruct (z =? 0) eqn:E0.
  - apply pret_some in H2. destruct H2 as [-> ->]. apply Z.eqb_eq in E0. now subst.
  - destruct (z =? 1) eqn:E1; [|discriminate]. apply pret_some in H2. destruct H2 as [-> ->]. apply Z.eqb_eq in E1. now subst.
Qed.

Lemma prep_p01 n : forall l xs r, prep p01 n l = Some (xs, r) -> l = map b2z xs ++ r.
Proof.
  induction n as [|n IH]; cbn; intros l xs r H.
  - apply pret_some in H. destruct H as [-> ->]. reflexivity.
  - apply pbind_some in H. destruct H as (a & r1 & Ha & H). apply pbind_some in H. destruct H as (t & r2 & Ht & H).
    apply pret_some in H. destruct H as [-> ->]. apply p01_some in Ha. apply IH in Ht. subst. reflexivity.
Qed.

Lemma p_line_some line rid mut det conc pan idx rest :
  p_line line = Some ((rid, mut, det, conc, pan, idx), rest) ->
  exists seed size, line = 20 :: rid :: Z.of_nat (length mut) :: map b2z mut ++ [b2z det; b2z conc; pan; idx; seed; size] /\ rest = [].
Proof.
  unfold p_line. intro H.
  apply pbind_some in H. destruct H as (tag & r0 & H0 & H). apply pZ_some in H0. subst line.
  destruct (tag =? 20) eqn:Et; cbn [negb] in H; [|discriminate]. apply Z.eqb_eq in Et. subst tag.
  apply pbind_some in H. destruct H as (rid' & r1 & H1 & H). apply pZ_some in H1. subst r0.
  apply pbind_some in H. destruct H as (mut' & r2 & H2 & H).
  apply plist_some in H2. destruct H2 as (n & r1' & -> & _ & Hp & Hn). apply prep_p01 in Hp. subst r1'.
  apply pbind_some in H. destruct H as (det' & r3 & H3 & H). apply p01_some in H3. subst r2.
  apply pbind_some in H. destruct H as (conc' & r4 & H4 & H). apply p01_some in H4. subst r3.
  apply pbind_some in H. destruct H as (pan' & r5 & H5 & H). apply pZ_some in H5. subst r4.
  apply pbind_some in H. destruct H as (idx' & r6 & H6 & H). apply pZ_some in H6. subst r5.
  apply pbind_some in H. destruct H as (seed & r7 & H7 & H). apply pZ_some in H7. subst r6.
  apply pbind_some in H. destruct H as (size & r8 & H8 & H). apply pZ_some in H8. subst r7.
  apply pend_some in H. destruct H as (E & -> & ->). injection E as <- <- <- <- <- <-.
  exists seed, size. split; [|reflexivity]. rewrite <- Hn. reflexivity.
Qed.

(* ---------- the specification of an accepted line ---------- *)
(* a canary of the harness: flagged exactly as canary_expect demands *)
Definition canary_ok (rid : Z) (mut : list bool) (det conc : bool) (pan : Z) : Prop :=
  exists em ed ec ep, canary_expect rid = Some (em, ed, ec, ep) /\ mut = em /\
    (forall x, ed = Some x -> det = x) /\ (forall x, ec = Some x -> conc = x) /\ pan = ep.

(* a routine of the table *)
Definition routine_ok (rid : Z) (mut : list bool) (det conc : bool) (pan : Z) : Prop :=
  canary_expect rid = None /\
  exists r, find_routine rid = Some r /\
    length mut = r_nargs r /\                                                   (* one flag per array argument *)
    (forall i, nth_error mut i = Some true -> In i (written_args (r_prog r) [])) /\   (* flagged => in the PROVED footprint *)
    (readonly (r_prog r) = true -> forall i, nth_error mut i <> Some true) /\   (* read-only routine: NO flag *)
    det = true /\ conc = true /\ pan = 0 /\
    (readonly (r_prog r) = false -> exists i, nth_error mut i = Some true).     (* in-place routine: something changed *)

Lemma observed_set_in mut : forall k i, In i (observed_set mut k) <-> exists j, i = (k + j)%nat /\ nth_error mut j = Some true.
Proof.
  induction mut as [|b t IH]; intros k i; cbn [observed_set].
  - split; [intros []|]. intros (j & _ & H). destruct j; discriminate.
  - rewrite in_app_iff, IH. split.
    + intros [H|(j & -> & H)].
      * destruct b; [|destruct H]. destruct H as [<-|[]]. exists 0%nat. split; [lia|reflexivity].
      * exists (S j). split; [lia|exact H].
    + intros (j & -> & H). destruct j as [|j].
      * cbn in H. injection H as ->. left. left. lia.
      * right. exists j. split; [lia|exact H].
Qed.

Lemma subset_sound a b : subset a b = true -> forall x, In x a -> In x b.
Proof. unfold subset. intros H x Hx. rewrite forallb_forall in H. apply mem_true_iff. exact (H x Hx). Qed.

Lemma readonly_no_written {A} (p : list (cmd A)) : readonly p = true -> written_args p [] = [].
Proof. unfold readonly. destruct (written_args p []); [reflexivity|discriminate]. Qed.

Lemma list_bool_eqb_eq a : forall b, list_bool_eqb a b = true -> a = b.
Proof.
  induction a as [|x a IH]; destruct b as [|y b]; cbn; try discriminate; [reflexivity|].
  intro H. apply andb_prop in H. destruct H as [H1 H2]. apply Bool.eqb_prop in H1. apply IH in H2. now subst.
Qed.

Lemma opt_ok_sound e b : opt_ok e b = true -> forall x, e = Some x -> b = x.
Proof. unfold opt_ok. intros H x ->. apply Bool.eqb_prop in H. now subst. Qed.

Ltac reject H Hc :=
  unfold V_MISMATCH, V_MALFORMED in H; apply verdict_inj in H; destruct H as [<- _]; destruct Hc; discriminate.

(* SOUNDNESS of the comparator: nothing is accepted without having been decoded to the end and
   compared *)
Theorem check_ok_sound : forall line c tag pos diag,
  check_C20 line = verdict c tag pos diag -> (c = 0 \/ c = 1) ->
  exists rid mut det conc pan idx seed size,
    line = 20 :: rid :: Z.of_nat (length mut) :: map b2z mut ++ [b2z det; b2z conc; pan; idx; seed; size] /\
    (canary_ok rid mut det conc pan \/ routine_ok rid mut det conc pan).
Proof.
  intros line c tag pos diag H Hc. unfold check_C20 in H.
  destruct (p_line line) as [[[[[[[rid mut] det] conc] pan] idx] rest]|] eqn:P; [|reject H Hc].
  apply p_line_some in P. destruct P as (seed & size & -> & ->).
  exists rid, mut, det, conc, pan, idx, seed, size. split; [reflexivity|].
  destruct (canary_expect rid) as [[[[em ed] ec] ep]|] eqn:CE.
  - destruct (list_bool_eqb mut em && opt_ok ed det && opt_ok ec conc && (pan =? ep)) eqn:E; [|reject H Hc].
    apply andb_prop in E. destruct E as [E E4]. apply andb_prop in E. destruct E as [E E3]. apply andb_prop in E. destruct E as [E1 E2].
    left. exists em, ed, ec, ep. split; [exact CE|]. split; [now apply list_bool_eqb_eq|].
    split; [now apply opt_ok_sound|]. split; [now apply opt_ok_sound|]. now apply Z.eqb_eq.
  - destruct (find_routine rid) as [r|] eqn:F; [|reject H Hc].
    destruct (Nat.eqb (length mut) (r_nargs r)) eqn:L; cbn [negb] in H; [|reject H Hc].
    apply Nat.eqb_eq in L.
    destruct ((rid =? 30) && negb det) eqn:E0; [reject H Hc|].
    destruct (subset (observed_set mut 0) (footprint r)) eqn:S; cbn [negb] in H; [|reject H Hc].
    destruct det; cbn [negb] in H; [|reject H Hc].
    destruct conc; cbn [negb] in H; [|reject H Hc].
    destruct (pan =? 0) eqn:Pn; cbn [negb] in H; [|reject H Hc]. apply Z.eqb_eq in Pn.
    destruct (negb (readonly (r_prog r)) && match observed_set mut 0 with [] => true | _ :: _ => false end) eqn:N; [reject H Hc|].
    right. split; [exact CE|]. exists r. split; [exact F|]. split; [exact L|].
    assert (FP : forall i, nth_error mut i = Some true -> In i (written_args (r_prog r) [])).
    { intros i Hi. apply (subset_sound _ _ S). apply observed_set_in. exists i. split; [reflexivity|exact Hi]. }
    split; [exact FP|]. split.
    { intros RO i Hi. apply FP in Hi. rewrite (readonly_no_written _ RO) in Hi. destruct Hi. }
    split; [reflexivity|]. split; [reflexivity|]. split; [exact Pn|].
    intro RO. rewrite RO in N. cbn [negb andb] in N.
    destruct (observed_set mut 0) as [|i t] eqn:O; [discriminate|].
    assert (Hi : In i (observed_set mut 0)) by (rewrite O; left; reflexivity).
    apply observed_set_in in Hi. destruct Hi as (j & _ & Hj). exists j. exact Hj.
Qed.

(* ---------- reading the flags: TRUSTED observation + accepted line ---------- *)
(* [changed i] stands for "the whole backing array of argument i (guard cells and spare capacity
   included) differs bitwise between the snapshot taken before the call and the one taken after".
   TRUSTED (harness/c20.go): flag i is set <=> changed i.  Then an accepted routine line says: *)
Theorem accepted_reading : forall rid mut det conc pan, routine_ok rid mut det conc pan ->
  forall changed : nat -> Prop,
  (forall i b, nth_error mut i = Some b -> (b = true <-> changed i)) ->
  exists r, find_routine rid = Some r /\
    (forall i, (i < r_nargs r)%nat -> changed i -> In i (written_args (r_prog r) [])) /\
    (readonly (r_prog r) = true -> forall i, (i < r_nargs r)%nat -> ~ changed i) /\
    (readonly (r_prog r) = false -> exists i, (i < r_nargs r)%nat /\ changed i) /\
    det = true /\ conc = true /\ pan = 0.
Proof.
  intros rid mut det conc pan (_ & r & F & L & FP & RO & D & C & P & IP) changed T.
  exists r. split; [exact F|].
  assert (G : forall i, (i < r_nargs r)%nat -> changed i -> nth_error mut i = Some true).
  { intros i Hi Ch. rewrite <- L in Hi. destruct (nth_error mut i) as [b|] eqn:E.
    - f_equal. apply (T i b E). exact Ch.
    - apply nth_error_None in E. lia. }
  split; [intros i Hi Ch; apply FP, G; assumption|].
  split; [intros R i Hi Ch; exact (RO R i (G i Hi Ch))|].
  split; [|auto].
  intro R. destruct (IP R) as (i & Hi). exists i. split.
  - rewrite <- L. apply nth_error_Some. congruence.
  - apply (T i true Hi). reflexivity.
Qed.

(* ---------- the model side of the same reading ---------- *)
(* IF the Go routine behaves on this call like its array program (arguments bound to pairwise
   distinct arrays of a store), the model predicts exactly what the accepted flags report:
   every argument array outside the footprint is left as it was. *)
Theorem model_outside_footprint_unchanged : forall (A : Type) (p : list (cmd A)) e (s : store A), env_ok e s ->
  (forall v w l, lookup e v = Some l -> lookup e w = Some l -> v = w) ->
  forall i l, ~ In i (written_args p []) -> lookup e i = Some l ->
  nth l (snd (exec p (e, s))) [] = nth l s [].
Proof.
  intros A p e s OK D i l NI Li. apply inplace_footprint; [exact OK|exact (OK i l Li)|].
  intros v Hv Hl. assert (v = i) by (eapply D; eassumption). subst v. exact (NI Hv).
Qed.

(* Proofs/CheckMw.v (group hD) — what an "ok" verdict of the Mann-Whitney comparator (Check/GEMw.v,
   used by Check/C01.v and Check/C03.v) means:
   1. the executable distribution table the comparator uses IS UDist.CDF of the model on every real
      argument (table_cdf_is_udist_cdf), hence the expected p-values it computes are the model's;
   2. if check_run accepts a run with code V_OK then the arguments were left intact and EVERY call's
      observables are within the stated tolerances of the model result mw_test Qcompare udist_cdf ...
      (check_run_ok_sound), whose values are the specified ones by the theorems of C01/C03. *)
From Coq Require Import List ZArith Lia Arith Bool Permutation Sorted QArith Qround Qabs Lqa.
From MM Require Import Base.Num Base.GEComb Base.GESort Spec.Ucount Proofs.Ucount Model.GEChoose Model.Udist
  Model.Utest Proofs.Udist Proofs.UdistTied Proofs.UdistTable Proofs.UdistLaws Proofs.UdistUntied Proofs.UdistCor
  Proofs.Utest Proofs.UtestP Proofs.UtestSym Check.GEMw.
Import ListNotations.
Open Scope Z_scope.

(* ---------- 1. the table twin is UDist.CDF ---------- *)
Local Open Scope Q_scope.
Section FastCdf.
  Context {X : Type} (cmp : X -> X -> comparison).
  Variables (N1 N2 : nat) (T : list nat) (z : list X).
  Hypothesis H1 : (1 <= N1)%nat.
  Hypothesis H2 : (1 <= N2)%nat.
  Hypothesis Hlen : length z = (N1 + N2)%nat.
  Let HC : (0 < C (N1 + N2) N1)%Z. Proof. apply C_pos; lia. Qed.
  Let HCq : ~ inject_Z (C (N1 + N2) N1) == 0. Proof. apply inject_Z_nonzero. exact HC. Qed.

  Lemma table_cdf_tied : has_ties T = true -> T <> [] -> grouped cmp (rev T) z -> forall u,
    table_cdf N1 N2 T u == inject_Z (count_le cmp z N1 (Qfloor (2 * u))) / inject_Z (C (N1 + N2) N1).
  Proof.
    intros HT Hne HG u. unfold table_cdf, fast_cdf. destruct (Qltb u 0) eqn:E0.
    - apply Qltb_true in E0. rewrite count_le_neg by (now apply Qfloor_neg). apply qdiv0.
    - destruct (Qleb (QN (N1 * N2)) u) eqn:E1.
      + apply Qleb_true in E1. rewrite count_le_top; rewrite ?Hlen; [apply qdiv1; exact HCq|lia|].
        replace (N1 + N2 - N1)%nat with N2 by lia. apply Qfloor_ge_int.
        rewrite <- Z.mul_assoc, <- Nat2Z.inj_mul, <- QN_mul2. lra.
      + rewrite HT. unfold qcount, dist_table. rewrite HT, choose_C.
        assert (HG': grouped cmp (rev (eff_T N1 N2 T)) z) by (destruct T; [congruence|exact HG]).
        destruct (table_counts_subsets cmp N1 N2 T z (Qfloor (2 * u)) HG') as [-> _]. reflexivity.
  Qed.
  Lemma table_cdf_untied : has_ties T = false -> grouped cmp (ones (N1 + N2)) z -> forall u,
    table_cdf N1 N2 T u == inject_Z (count_le cmp z N1 (2 * Qfloor u)) / inject_Z (C (N1 + N2) N1).
  Proof.
    intros HT HG u. unfold table_cdf, fast_cdf. destruct (Qltb u 0) eqn:E0.
    - apply Qltb_true in E0. pose proof (Qfloor_lt_int u 0 E0). rewrite count_le_neg by lia. apply qdiv0.
    - destruct (Qleb (QN (N1 * N2)) u) eqn:E1.
      + apply Qleb_true in E1. rewrite count_le_top; rewrite ?Hlen; [apply qdiv1; exact HCq|lia|].
        replace (N1 + N2 - N1)%nat with N2 by lia.
        assert (Z.of_nat (N1 * N2) <= Qfloor u)%Z by (apply Qfloor_ge_int; exact E1).
        rewrite Nat2Z.inj_mul in H. lia.
      + rewrite HT. unfold qcount, dist_table. rewrite HT, choose_C.
        destruct (untied_table_counts_subsets cmp N1 N2 z (Qfloor u) HG) as [_ ->]. reflexivity.
  Qed.
End FastCdf.

Section TableIsCdf.
  Context {A : Type} (cmp : A -> A -> comparison).
  Hypothesis cmp_refl : forall a, cmp a a = Eq.
  Hypothesis cmp_antisym : forall a b, cmp b a = CompOpp (cmp a b).
  Hypothesis cmp_trans : forall a b c, cmp a b <> Gt -> cmp b c <> Gt -> cmp a c <> Gt.
  Variables x1 x2 : list A.
  Hypothesis Hx1 : x1 <> [].
  Hypothesis Hx2 : x2 <> [].
  Let s := mw_stat cmp x1 x2.
  Let n1 := length x1.
  Let n2 := length x2.
  Let T := ms_T s.
  Hypothesis HK : length T <> 1%nat.

  Theorem table_cdf_is_udist_cdf u : table_cdf n1 n2 T u == udist_cdf n1 n2 T u.
  Proof.
    pose proof (stat_valid cmp cmp_refl cmp_antisym cmp_trans x1 x2 Hx1 Hx2 HK) as HV. fold s T n1 n2 in HV.
    pose proof (pool_grouped cmp cmp_refl cmp_antisym cmp_trans x1 x2) as HG. fold s T in HG.
    destruct HV as (Hn1 & Hn2 & HlT & Hpos & Hsum).
    assert (HP: length (pool cmp x1 x2) = (n1 + n2)%nat).
    { unfold pool. rewrite rev_length. apply (merged_lengths cmp x1 x2). }
    destruct (has_ties T) eqn:HT.
    - rewrite (table_cdf_tied cmp n1 n2 T _ Hn1 Hn2 HP HT ltac:(destruct T; [cbn in HlT; lia|discriminate]) HG).
      rewrite (udist_cdf_tied cmp n1 n2 T _ (conj Hn1 (conj Hn2 (conj HlT (conj Hpos Hsum)))) HT HG). reflexivity.
    - pose proof (no_ties_ones T Hpos HT) as Eo.
      assert (EN: length T = (n1 + n2)%nat).
      { rewrite <- Hsum. transitivity (lsum (ones (length T))); [now rewrite lsum_ones | now rewrite <- Eo]. }
      assert (ER: rev T = ones (n1 + n2)) by (rewrite Eo, rev_ones, EN; reflexivity).
      rewrite ER in HG.
      rewrite (table_cdf_untied cmp n1 n2 T _ Hn1 Hn2 HP HT HG).
      rewrite (udist_cdf_untied cmp n1 n2 T _ Hn1 Hn2 HT HG cmp_antisym). reflexivity.
  Qed.
End TableIsCdf.

(* the p-value formulas only look at the cdf at points: pointwise equal cdfs give equal p-values *)
Lemma mw_exact_p_ext cdf cdf' n1 n2 tu alt : (forall u, cdf u == cdf' u) ->
  mw_exact_p cdf n1 n2 tu alt == mw_exact_p cdf' n1 n2 tu alt.
Proof.
  intros H. unfold mw_exact_p. destruct (alt =? 0)%Z.
  - destruct (_ =? _)%Z; [reflexivity|]. rewrite H. reflexivity.
  - destruct (alt <? 0)%Z; rewrite H; reflexivity.
Qed.
Lemma mw_spec_p_ext cdf cdf' n1 n2 tu alt : (forall u, cdf u == cdf' u) ->
  mw_spec_p cdf n1 n2 tu alt == mw_spec_p cdf' n1 n2 tu alt.
Proof.
  intros H. unfold mw_spec_p. destruct (alt =? 0)%Z.
  - apply Qminb_compat; [reflexivity|]. apply Qmult_comp; [reflexivity|]. apply Qminb_compat; rewrite H; reflexivity.
  - destruct (alt <? 0)%Z; rewrite H; reflexivity.
Qed.

(* ---------- 2. soundness of the comparator ---------- *)
(* what an accepted call guarantees, per kind of model result *)
Definition obs_is (x : xreal) (e : Q) : Prop := exists o, x = XFin o /\ o == e.
Definition obs_near (x : xreal) (e tol : Q) : Prop := exists o, x = XFin o /\ Qabs (o - e) <= tol.
Definition call_ok (r : mwres) (c : mwcall) : Prop :=
  match r with
  | MWErrSize => c_status c = 1%Z
  | MWErrEqual => c_status c = 2%Z
  | MWExact n1 n2 tu p ps =>
      c_status c = 0%Z /\ c_n1 c = Z.of_nat n1 /\ c_n2 c = Z.of_nat n2 /\ obs_is (c_U c) (half tu) /\
      c_althyp c = c_alt c /\ obs_near (c_P c) ps (tol_p ps)
  | MWApprox n1 n2 tu num2 sig2 =>
      c_status c = 0%Z /\ c_n1 c = Z.of_nat n1 /\ c_n2 c = Z.of_nat n2 /\ obs_is (c_U c) (half tu) /\
      c_althyp c = c_alt c /\
      exists zf phi, c_zf c = XFin zf /\ c_phi c = XFin phi /\
        (* zf is the model's z = (num2/2)/sqrt(sig2): same sign, zf^2 sig2 = (num2/2)^2 to 1e-9 relative *)
        Z.sgn (Qnum zf) = Z.sgn num2 /\
        Qabs (zf * zf * sig2 - inject_Z (num2 * num2) / 4) <= (1 # 1000000000) * (inject_Z (num2 * num2) / 4) /\
        0 <= phi <= 1 /\
        (* P is the model's tail expression over the implementation's own Phi(zf) *)
        obs_near (c_P c) (mw_approx_p phi (c_alt c)) tol_phi
  end.

Lemma xeq_fin e x : xeq (XFin e) x = true -> obs_is x e.
Proof.
  unfold xeq, xwithin. destruct x as [| |o]; try discriminate. intros H. exists o. split; [reflexivity|].
  unfold within in H. apply Qle_bool_iff in H.
  apply Qabs_Qle_condition in H. lra.
Qed.
Lemma xwithin_fin tol e x : xwithin tol (XFin e) x = true -> obs_near x e tol.
Proof.
  unfold xwithin. destruct x as [| |o]; try discriminate. intros H. exists o. split; [reflexivity|].
  unfold within in H. apply Qle_bool_iff in H. exact H.
Qed.

Lemma cmp_call_codes r c : let '(cd, _, _) := cmp_call r c in cd = V_OK \/ cd = V_MISMATCH \/ cd = V_KNOWN_D2.
Proof.
  unfold cmp_call. destruct r; repeat match goal with
    | |- context [if ?b then _ else _] => destruct b
    | |- context [match ?x with XNaN => _ | XInf _ => _ | XFin _ => _ end] => destruct x
    end; auto.
Qed.

Theorem cmp_call_ok_sound r c w e : cmp_call r c = (V_OK, w, e) -> call_ok r c.
Proof.
  unfold cmp_call, call_ok. destruct r as [| |n1 n2 tu p ps|n1 n2 tu num2 sig2].
  - destruct (Z.eqb_spec (c_status c) 1); [auto|intros H; discriminate H].
  - destruct (Z.eqb_spec (c_status c) 2); [auto|intros H; discriminate H].
  - destruct (Z.eqb_spec (c_status c) 0) as [Es|]; cbn [negb]; [|intros H; discriminate H].
    destruct (Z.eqb_spec (c_n1 c) (Z.of_nat n1)) as [E1|]; cbn [andb negb]; [|intros H; discriminate H].
    destruct (Z.eqb_spec (c_n2 c) (Z.of_nat n2)) as [E2|]; cbn [negb]; [|intros H; discriminate H].
    destruct (xeq (XFin (half tu)) (c_U c)) eqn:EU; cbn [negb]; [|intros H; discriminate H].
    destruct (Z.eqb_spec (c_althyp c) (c_alt c)) as [Ea|]; cbn [negb]; [|intros H; discriminate H].
    destruct (xwithin (tol_p ps) (XFin ps) (c_P c)) eqn:EP.
    + intros _. repeat split; auto using xeq_fin, xwithin_fin.
    + destruct (xwithin (tol_p p) (XFin p) (c_P c)); intros H; discriminate H.
  - destruct (Z.eqb_spec (c_status c) 0) as [Es|]; cbn [negb]; [|intros H; discriminate H].
    destruct (Z.eqb_spec (c_n1 c) (Z.of_nat n1)) as [E1|]; cbn [andb negb]; [|intros H; discriminate H].
    destruct (Z.eqb_spec (c_n2 c) (Z.of_nat n2)) as [E2|]; cbn [negb]; [|intros H; discriminate H].
    destruct (xeq (XFin (half tu)) (c_U c)) eqn:EU; cbn [negb]; [|intros H; discriminate H].
    destruct (Z.eqb_spec (c_althyp c) (c_alt c)) as [Ea|]; cbn [negb]; [|intros H; discriminate H].
    destruct (c_zf c) as [| |zf]; try (intros H; discriminate H).
    destruct (c_phi c) as [| |phi]; try (intros H; discriminate H).
    destruct (c_P c) as [| |pobs] eqn:EPo; try (intros H; discriminate H).
    destruct (Z.eqb_spec (Z.sgn (Qnum zf)) (Z.sgn num2)) as [Esg|]; cbn [andb negb]; [|intros H; discriminate H].
    destruct (within _ _ (zf * zf * sig2)) eqn:Ew; cbn [negb]; [|intros H; discriminate H].
    destruct (Qle_bool 0 phi) eqn:Ep0; cbn [andb negb]; [|intros H; discriminate H].
    destruct (Qle_bool phi 1) eqn:Ep1; cbn [negb]; [|intros H; discriminate H].
    destruct (within tol_phi (mw_approx_p phi (c_alt c)) pobs) eqn:Ewp; [|intros H; discriminate H].
    intros _. repeat split; auto using xeq_fin.
    exists zf, phi. repeat split; auto.
    + unfold within in Ew. apply Qle_bool_iff in Ew. exact Ew.
    + apply Qle_bool_iff; exact Ep0.
    + apply Qle_bool_iff; exact Ep1.
    + exists pobs. split; [reflexivity|]. unfold within in Ewp. apply Qle_bool_iff in Ewp. exact Ewp.
Qed.

(* all calls of an accepted run were accepted individually *)
Lemma cmp_calls_ok run empty s cdf : forall cs i code tag tag',
  cmp_calls run empty s cdf cs i code tag = (V_OK, tag', None) -> (0 <= code)%Z ->
  code = V_OK /\ Forall (fun c => call_ok (mw_test_s cdf (r_EL run) (r_TL run) empty s (c_alt c)) c) cs.
Proof.
  induction cs as [|c cs IH]; intros i code tag tag' H Hc; cbn [cmp_calls] in H.
  - inversion H; subst. split; [reflexivity|constructor].
  - pose proof (cmp_call_codes (mw_test_s cdf (r_EL run) (r_TL run) empty s (c_alt c)) c) as Hcodes.
    destruct (cmp_call (mw_test_s cdf (r_EL run) (r_TL run) empty s (c_alt c)) c) as [[cd w] e] eqn:Ecall.
    destruct (Z.eqb_spec cd V_MISMATCH) as [->|Hne]; [discriminate H|].
    assert (Hcd: (0 <= cd)%Z) by (destruct Hcodes as [->|[->| ->]]; unfold V_OK, V_MISMATCH, V_KNOWN_D2; lia).
    apply IH in H; [|lia]. destruct H as [Hmax HF].
    assert (code = V_OK /\ cd = V_OK) as [-> ->] by (unfold V_OK in *; lia).
    split; [reflexivity|]. constructor; [|exact HF]. eapply cmp_call_ok_sound; exact Ecall.
Qed.

(* results that agree up to == on the two p-values accept the same observations *)
Definition mwres_equiv (r r' : mwres) : Prop :=
  match r, r' with
  | MWErrSize, MWErrSize | MWErrEqual, MWErrEqual => True
  | MWExact n1 n2 tu p ps, MWExact n1' n2' tu' p' ps' => n1 = n1' /\ n2 = n2' /\ tu = tu' /\ p == p' /\ ps == ps'
  | MWApprox n1 n2 tu a b, MWApprox n1' n2' tu' a' b' => n1 = n1' /\ n2 = n2' /\ tu = tu' /\ a = a' /\ b = b'
  | _, _ => False
  end.
Lemma call_ok_equiv r r' c : mwres_equiv r r' -> call_ok r c -> call_ok r' c.
Proof.
  destruct r, r'; cbn [mwres_equiv call_ok]; try tauto.
  - intros (-> & -> & -> & Hp & Hps) (H1 & H2 & H3 & H4 & H5 & o & Ho & Hb). repeat split; auto.
    exists o. split; [exact Ho|]. unfold tol_p in *. rewrite <- Hps. exact Hb.
  - intros (-> & -> & -> & -> & ->) H. exact H.
Qed.

(* the comparator's result (table twin, shared per run) is the model's result *)
Lemma check_res_equiv (x1 x2 : list Q) EL TL alt :
  let s := mw_stat Qcompare x1 x2 in
  let empty := is_nil x1 || is_nil x2 in
  let f := if negb empty && use_exact (ms_ties s) (ms_n1 s) (ms_n2 s) EL TL && negb (length (ms_T s) =? 1)%nat
           then table_cdf (ms_n1 s) (ms_n2 s) (ms_T s) else (fun _ => 0) in
  mwres_equiv (mw_test_s (fun _ _ _ => f) EL TL empty s alt) (mw_test Qcompare udist_cdf EL TL x1 x2 alt).
Proof.
  intros s empty f. unfold mw_test. fold s empty. unfold mw_test_s.
  destruct empty eqn:Ee; [exact I|]. unfold mw_finish.
  destruct (use_exact (ms_ties s) (ms_n1 s) (ms_n2 s) EL TL) eqn:Eu.
  - destruct (Nat.eqb_spec (length (ms_T s)) 1) as [E1|HK]; [exact I|].
    cbn [mwres_equiv]. repeat split; try reflexivity.
    + apply mw_exact_p_ext. intros u. unfold f. rewrite ?Eu, ?Ee. cbn [negb andb].
      destruct (Nat.eqb_spec (length (ms_T s)) 1); [contradiction|]. cbn [negb].
      unfold empty in Ee. apply orb_false_iff in Ee as [E1 E2].
      apply (table_cdf_is_udist_cdf Qcompare Qcmp_refl Qcmp_antisym Qcmp_trans x1 x2);
        [destruct x1; [discriminate|congruence] | destruct x2; [discriminate|congruence] | exact HK].
    + apply mw_spec_p_ext. intros u. unfold f. rewrite ?Eu, ?Ee. cbn [negb andb].
      destruct (Nat.eqb_spec (length (ms_T s)) 1); [contradiction|]. cbn [negb].
      unfold empty in Ee. apply orb_false_iff in Ee as [E1 E2].
      apply (table_cdf_is_udist_cdf Qcompare Qcmp_refl Qcmp_antisym Qcmp_trans x1 x2);
        [destruct x1; [discriminate|congruence] | destruct x2; [discriminate|congruence] | exact HK].
  - destruct (Qeqb _ 0); [exact I|]. cbn [mwres_equiv]. repeat split; reflexivity.
Qed.

(* MAIN: an accepted run (code V_OK, as C01 and C03 require of every run that is not a known finding)
   left its arguments and the limit variables intact, and every call's status, N1, N2, U (exactly) and
   P (within tol_p = 1e-10 + 1e-9 |P|, resp. 1e-9 of the tail expression over the implementation's own
   Phi at the model's z) agree with the model result mw_test Qcompare udist_cdf on the decoded inputs *)
Theorem check_run_ok_sound run tag :
  check_run run = (V_OK, tag, None) ->
  r_pure run = 1%Z /\
  Forall (fun c => call_ok (mw_test Qcompare udist_cdf (r_EL run) (r_TL run) (r_x1 run) (r_x2 run) (c_alt c)) c)
         (r_calls run).
Proof.
  unfold check_run. destruct (Z.eqb_spec (r_pure run) 1) as [Ep|]; cbn [negb]; [|intros H; discriminate H].
  intros H. split; [exact Ep|]. apply cmp_calls_ok in H; [|unfold V_OK; lia]. destruct H as [_ HF].
  eapply Forall_impl; [|exact HF]. intros c Hc. cbv beta in Hc.
  eapply call_ok_equiv; [|exact Hc]. apply check_res_equiv.
Qed.

(* ---------- 3. the known-finding code ---------- *)
(* a call accepted with code 10: everything as in call_ok except that P is near the legacy value p and
   NOT near the specified value ps *)
Definition call_d2 (r : mwres) (c : mwcall) : Prop :=
  match r with
  | MWExact n1 n2 tu p ps =>
      c_status c = 0%Z /\ c_n1 c = Z.of_nat n1 /\ c_n2 c = Z.of_nat n2 /\ obs_is (c_U c) (half tu) /\
      c_althyp c = c_alt c /\ obs_near (c_P c) p (tol_p p) /\ ~ obs_near (c_P c) ps (tol_p ps)
  | _ => False
  end.
Lemma xwithin_fin_conv tol e x : obs_near x e tol -> xwithin tol (XFin e) x = true.
Proof. intros (o & -> & H). unfold xwithin, within. apply Qle_bool_iff. exact H. Qed.

Theorem cmp_call_known_sound r c w e : cmp_call r c = (V_KNOWN_D2, w, e) -> call_d2 r c.
Proof.
  unfold cmp_call, call_d2. destruct r as [| |n1 n2 tu p ps|n1 n2 tu num2 sig2].
  - destruct (_ =? _)%Z; intros H; discriminate H.
  - destruct (_ =? _)%Z; intros H; discriminate H.
  - destruct (Z.eqb_spec (c_status c) 0) as [Es|]; cbn [negb]; [|intros H; discriminate H].
    destruct (Z.eqb_spec (c_n1 c) (Z.of_nat n1)) as [E1|]; cbn [andb negb]; [|intros H; discriminate H].
    destruct (Z.eqb_spec (c_n2 c) (Z.of_nat n2)) as [E2|]; cbn [negb]; [|intros H; discriminate H].
    destruct (xeq (XFin (half tu)) (c_U c)) eqn:EU; cbn [negb]; [|intros H; discriminate H].
    destruct (Z.eqb_spec (c_althyp c) (c_alt c)) as [Ea|]; cbn [negb]; [|intros H; discriminate H].
    destruct (xwithin (tol_p ps) (XFin ps) (c_P c)) eqn:EP; [intros H; discriminate H|].
    destruct (xwithin (tol_p p) (XFin p) (c_P c)) eqn:EP'; [|intros H; discriminate H].
    intros _. repeat split; auto using xeq_fin, xwithin_fin.
    intros Hn. apply xwithin_fin_conv in Hn. congruence.
  - repeat match goal with
    | |- context [if ?b then _ else _] => destruct b
    | |- context [match ?x with XNaN => _ | XInf _ => _ | XFin _ => _ end] => destruct x
    end; intros H; discriminate H.
Qed.

Lemma cmp_calls_no_mismatch run empty s cdf : forall cs i code tag code' tag',
  cmp_calls run empty s cdf cs i code tag = (code', tag', None) ->
  Forall (fun c => let r := mw_test_s cdf (r_EL run) (r_TL run) empty s (c_alt c) in call_ok r c \/ call_d2 r c) cs.
Proof.
  induction cs as [|c cs IH]; intros i code tag code' tag' H; cbn [cmp_calls] in H; [constructor|].
  pose proof (cmp_call_codes (mw_test_s cdf (r_EL run) (r_TL run) empty s (c_alt c)) c) as Hcodes.
  destruct (cmp_call (mw_test_s cdf (r_EL run) (r_TL run) empty s (c_alt c)) c) as [[cd w] e] eqn:Ecall.
  destruct (Z.eqb_spec cd V_MISMATCH) as [->|Hne]; [discriminate H|].
  constructor; [|eapply IH; exact H]. cbv zeta.
  destruct Hcodes as [->|[->| ->]]; [left; eapply cmp_call_ok_sound; exact Ecall | congruence
                                    | right; eapply cmp_call_known_sound; exact Ecall].
Qed.

Lemma obs_near_equiv x e e' : e == e' -> obs_near x e (tol_p e) -> obs_near x e' (tol_p e').
Proof. intros E (o & Ho & H). exists o. split; [exact Ho|]. unfold tol_p in *. rewrite <- E. exact H. Qed.
Lemma call_d2_equiv r r' c : mwres_equiv r r' -> call_d2 r c -> call_d2 r' c.
Proof.
  destruct r, r'; cbn [mwres_equiv call_d2]; try tauto.
  intros (-> & -> & -> & Hp & Hps) (H1 & H2 & H3 & H4 & H5 & Hn & Hnn). repeat split; auto.
  - eapply obs_near_equiv; eauto.
  - intros Hc. apply Hnn. eapply obs_near_equiv; [symmetry; exact Hps|exact Hc].
Qed.

(* a call is accepted as known finding D2 ONLY for the two-sided alternative on a non-palindromic tie vector *)
Lemma d2_only_two_sided_nonpalindromic (x1 x2 : list Q) EL TL c :
  call_d2 (mw_test Qcompare udist_cdf EL TL x1 x2 (c_alt c)) c ->
  c_alt c = 0%Z /\ rev (ms_T (mw_stat Qcompare x1 x2)) <> ms_T (mw_stat Qcompare x1 x2).
Proof.
  set (s := mw_stat Qcompare x1 x2). unfold mw_test. fold s. unfold mw_test_s.
  destruct (is_nil x1 || is_nil x2) eqn:Ee; [intros []|]. unfold mw_finish.
  destruct (use_exact _ _ _ _ _); [|destruct (Qeqb _ 0); intros []].
  destruct (Nat.eqb_spec (length (ms_T s)) 1) as [|HK]; [intros []|].
  cbn [call_d2]. intros (_ & _ & _ & _ & _ & Hn & Hnn).
  apply orb_false_iff in Ee as [E1 E2].
  assert (Hx1: x1 <> []) by (destruct x1; [discriminate|congruence]).
  assert (Hx2: x2 <> []) by (destruct x2; [discriminate|congruence]).
  destruct (Z.eqb_spec (c_alt c) 0) as [E0|Hne].
  - split; [exact E0|]. intros Hpal. apply Hnn. rewrite E0 in *.
    eapply obs_near_equiv; [|exact Hn].
    exact (mw_two_sided_symmetric Qcompare Qcmp_refl Qcmp_antisym Qcmp_trans x1 x2 Hx1 Hx2 HK Hpal).
  - exfalso. apply Hnn.
    assert (E: mw_exact_p (udist_cdf (ms_n1 s) (ms_n2 s) (ms_T s)) (ms_n1 s) (ms_n2 s) (ms_twoU s) (c_alt c) =
               mw_spec_p (udist_cdf (ms_n1 s) (ms_n2 s) (ms_T s)) (ms_n1 s) (ms_n2 s) (ms_twoU s) (c_alt c)).
    { unfold mw_exact_p, mw_spec_p. destruct (Z.eqb_spec (c_alt c) 0); [contradiction|]. reflexivity. }
    rewrite <- E. exact Hn.
Qed.

Theorem check_run_accept_sound run code tag :
  check_run run = (code, tag, None) ->
  r_pure run = 1%Z /\
  Forall (fun c => let r := mw_test Qcompare udist_cdf (r_EL run) (r_TL run) (r_x1 run) (r_x2 run) (c_alt c) in
                   call_ok r c \/
                   (call_d2 r c /\ c_alt c = 0%Z /\
                    rev (ms_T (mw_stat Qcompare (r_x1 run) (r_x2 run))) <> ms_T (mw_stat Qcompare (r_x1 run) (r_x2 run))))
         (r_calls run).
Proof.
  unfold check_run. destruct (Z.eqb_spec (r_pure run) 1) as [Ep|]; cbn [negb]; [|intros H; discriminate H].
  intros H. split; [exact Ep|]. apply cmp_calls_no_mismatch in H.
  eapply Forall_impl; [|exact H]. intros c Hc. cbv zeta beta in Hc |- *.
  pose proof (check_res_equiv (r_x1 run) (r_x2 run) (r_EL run) (r_TL run) (c_alt c)) as Heq. cbv zeta in Heq.
  destruct Hc as [Hc|Hc].
  - left. eapply call_ok_equiv; [exact Heq|exact Hc].
  - right. pose proof (call_d2_equiv _ _ c Heq Hc) as Hd. split; [exact Hd|].
    exact (d2_only_two_sided_nonpalindromic _ _ _ _ c Hd).
Qed.

(* Proofs/Choose.v — the model of mathx.Choose is Pascal's binomial coefficient. *)
From MM Require Import Base.Num Base.GFSum Base.GFComb Model.Choose.
From Coq Require Import Lia.
Local Open Scope Z_scope.

Lemma choose_iter_spec : forall steps (n i : nat),
  choose_iter (Z.of_nat n) steps (Z.of_nat i) (binom n i) = binom n (i + steps).
Proof.
  induction steps as [|s IH]; intros n i.
  - rewrite Nat.add_0_r. reflexivity.
  - simpl choose_iter.
    rewrite <- (binom_succ_mul n i).
    replace (Z.of_nat i + 1) with (Z.of_nat (S i)) by lia.
    rewrite Z.div_mul by lia. rewrite IH. f_equal. lia.
Qed.

Theorem choose_binom : forall n k : nat, choose (Z.of_nat n) (Z.of_nat k) = binom n k.
Proof.
  intros n k. unfold choose.
  destruct (Z.eqb_spec (Z.of_nat k) 0) as [E|E]; simpl.
  { replace k with O by lia. rewrite binom_n_0. reflexivity. }
  destruct (Z.eqb_spec (Z.of_nat k) (Z.of_nat n)) as [E2|E2]; simpl.
  { replace k with n by lia. rewrite binom_nn. reflexivity. }
  destruct (Z.ltb_spec (Z.of_nat k) 0) as [L|L]; [lia|]. simpl.
  destruct (Z.ltb_spec (Z.of_nat n) (Z.of_nat k)) as [L2|L2].
  { rewrite binom_gt by lia. reflexivity. }
  rewrite Nat2Z.id. change 0 with (Z.of_nat 0). rewrite <- (binom_n_0 n) at 1.
  rewrite choose_iter_spec. reflexivity.
Qed.

Lemma choose_neg : forall n k, 0 <= n -> k < 0 -> choose n k = 0.
Proof.
  intros n k Hn Hk. unfold choose.
  destruct (Z.eqb_spec k 0); [lia|]. destruct (Z.eqb_spec k n); [lia|]. simpl.
  destruct (Z.ltb_spec k 0); [reflexivity|lia].
Qed.

Lemma choose_gt : forall n k, 0 <= n -> n < k -> choose n k = 0.
Proof.
  intros n k Hn Hk. unfold choose.
  destruct (Z.eqb_spec k 0); [lia|]. destruct (Z.eqb_spec k n); [lia|]. simpl.
  destruct (Z.ltb_spec k 0); [reflexivity|]. simpl. destruct (Z.ltb_spec n k); [reflexivity|lia].
Qed.

(* Z-level form: for 0 <= n, choose n k = C(n,k) if 0 <= k, else 0 *)
Lemma choose_Z : forall n k, 0 <= n -> 0 <= k -> choose n k = binom (Z.to_nat n) (Z.to_nat k).
Proof. intros n k Hn Hk. rewrite <- choose_binom. rewrite !Z2Nat.id by lia. reflexivity. Qed.

Lemma choose_nonneg : forall n k, 0 <= n -> 0 <= choose n k.
Proof.
  intros n k Hn. destruct (Z.ltb_spec k 0).
  - rewrite choose_neg by lia. lia.
  - rewrite choose_Z by lia. apply binom_nonneg.
Qed.

Lemma choose_pos : forall n k, 0 <= k <= n -> 0 < choose n k.
Proof. intros n k H. rewrite choose_Z by lia. apply binom_pos. lia. Qed.

Lemma choose_sym : forall n k, 0 <= k <= n -> choose n k = choose n (n - k).
Proof.
  intros n k H. rewrite !choose_Z by lia. rewrite (binom_sym (Z.to_nat n) (Z.to_nat k)) by lia.
  f_equal. lia.
Qed.

(* choose.go:32-41: for n <= smallFactLimit = 20 the code computes numer/denom in int64.
   The product numer never exceeds the int64 range and the quotient is the binomial coefficient. *)
Definition small_ok_b (n k : Z) : bool :=
  (falling n k <? 2 ^ 63) && (choose_small n k =? choose n k).
Definition small_sweep : bool :=
  forallb (fun n => forallb (fun k => small_ok_b (Z.of_nat n) (Z.of_nat k)) (seq 0 22)) (seq 0 21).
Lemma small_sweep_true : small_sweep = true.
Proof. vm_compute. reflexivity. Qed.

Theorem choose_small_no_overflow_upto20 : forall n k, 0 <= n <= 20 -> 0 <= k <= n ->
  falling n k < 2 ^ 63 /\ choose_small n k = choose n k.
Proof.
  intros n k Hn Hk.
  pose proof small_sweep_true as H. unfold small_sweep in H. rewrite forallb_forall in H.
  specialize (H (Z.to_nat n)). rewrite in_seq in H. specialize (H ltac:(lia)).
  rewrite forallb_forall in H. specialize (H (Z.to_nat k)). rewrite in_seq in H. specialize (H ltac:(lia)).
  rewrite !Z2Nat.id in H by lia. unfold small_ok_b in H. apply andb_prop in H as [H1 H2].
  split; [apply Z.ltb_lt; exact H1 | apply Z.eqb_eq; exact H2].
Qed.

(* Proofs/Dists.v — lemmas about the exact model of DeltaDist / NormalDist special values. *)
From Coq Require Import Lia Lqa.
From MM Require Import Base.Num Model.Dists.
Local Open Scope Q_scope.

Lemma Qltb_lt : forall a b, Qltb a b = true <-> a < b.
Proof.
  intros a b. unfold Qltb. rewrite Bool.negb_true_iff. split; intro H.
  - apply Qnot_le_lt. intro L. apply Qle_bool_iff in L. congruence.
  - destruct (Qle_bool b a) eqn:E; [|reflexivity]. apply Qle_bool_iff in E. exfalso. apply (Qlt_irrefl a). eapply Qlt_le_trans; eauto.
Qed.
Lemma Qltb_ge : forall a b, Qltb a b = false <-> b <= a.
Proof.
  intros a b. unfold Qltb. rewrite Bool.negb_false_iff. apply Qle_bool_iff.
Qed.
Lemma Qeqb_eq : forall a b, Qeqb a b = true <-> a == b.
Proof. intros. unfold Qeqb. apply Qeq_bool_iff. Qed.

Lemma xle_fin : forall a b, xle (XFin a) (XFin b) = true <-> a <= b.
Proof.
  intros a b. unfold xle; simpl. rewrite Bool.orb_true_iff, Qltb_lt, Qeqb_eq. split.
  - intros [H|H]; [now apply Qlt_le_weak | rewrite H; apply Qle_refl].
  - intro H. apply Qle_lteq in H. tauto.
Qed.

(* DeltaDist.CDF is the unit step at T, right-continuous *)
Lemma delta_cdf_step : forall T x : Q,
  (T <= x -> delta_cdf (XFin T) (XFin x) = XFin 1) /\ (x < T -> delta_cdf (XFin T) (XFin x) = XFin 0).
Proof.
  intros T x. unfold delta_cdf. split; intro H.
  - apply xle_fin in H. now rewrite H.
  - destruct (xle (XFin T) (XFin x)) eqn:E; [|reflexivity].
    apply xle_fin in E. exfalso. apply (Qlt_irrefl x). eapply Qlt_le_trans; eauto.
Qed.

Lemma delta_pdf_spike : forall T x : Q,
  (x == T -> delta_pdf (XFin T) (XFin x) = XInf false) /\ (~ x == T -> delta_pdf (XFin T) (XFin x) = XFin 0).
Proof.
  intros T x. unfold delta_pdf; simpl. split; intro H.
  - apply Qeqb_eq in H. now rewrite H.
  - destruct (Qeqb x T) eqn:E; [|reflexivity]. apply Qeqb_eq in E. contradiction.
Qed.

(* quantile: T for every probability in [0,1], NaN outside *)
Lemma delta_invcdf_spec : forall T y : Q,
  (0 <= y <= 1 -> delta_invcdf (XFin T) (XFin y) = XFin T) /\
  ((y < 0 \/ 1 < y) -> delta_invcdf (XFin T) (XFin y) = XNaN).
Proof.
  intros T y. unfold delta_invcdf; simpl. split.
  - intros [H0 H1]. apply Qltb_ge in H0. apply Qltb_ge in H1. now rewrite H0, H1.
  - intros [H|H]; apply Qltb_lt in H; rewrite H; simpl; [reflexivity| now rewrite Bool.orb_true_r].
Qed.

(* T is the smallest x whose CDF reaches y, for every 0 < y <= 1 (Galois property of a quantile) *)
Definition cdf_value (r : xreal) : Q := match r with XFin q => q | _ => 0 end.
Lemma delta_quantile_galois : forall T x y : Q, 0 < y <= 1 ->
  (y <= cdf_value (delta_cdf (XFin T) (XFin x)) <-> T <= x).
Proof.
  intros T x y [Hy0 Hy1]. destruct (delta_cdf_step T x) as [A B]. split; intro H.
  - destruct (Qlt_le_dec x T) as [L|L]; [|exact L].
    rewrite (B L) in H. simpl in H. exfalso. apply (Qlt_irrefl 0). eapply Qlt_le_trans; eauto.
  - rewrite (A H). exact Hy1.
Qed.

Lemma delta_quantile : forall T y : Q,
  (0 <= y <= 1 -> delta_invcdf (XFin T) (XFin y) = XFin T) /\
  ((y < 0 \/ 1 < y) -> delta_invcdf (XFin T) (XFin y) = XNaN) /\
  (0 < y <= 1 -> forall x : Q, y <= cdf_value (delta_cdf (XFin T) (XFin x)) <-> T <= x).
Proof.
  intros T y. destruct (delta_invcdf_spec T y) as [A B]. split; [exact A|]. split; [exact B|].
  intros H x. now apply delta_quantile_galois.
Qed.

Lemma delta_cdf_monotone : forall T x x' : Q, x <= x' ->
  cdf_value (delta_cdf (XFin T) (XFin x)) <= cdf_value (delta_cdf (XFin T) (XFin x')).
Proof.
  intros T x x' H. destruct (delta_cdf_step T x) as [A B]. destruct (delta_cdf_step T x') as [A' B'].
  destruct (Qlt_le_dec x T) as [L|L].
  - rewrite (B L). destruct (Qlt_le_dec x' T) as [L'|L']; [rewrite (B' L')|rewrite (A' L')]; simpl; lra.
  - rewrite (A L). assert (L' : T <= x') by (eapply Qle_trans; eauto). rewrite (A' L'). simpl; lra.
Qed.

(* NormalDist: Mean, Variance and Bounds are consistent with Mu and Sigma *)
Lemma normal_moments : forall mu sigma : Q,
  normal_mean mu sigma == mu /\ normal_variance mu sigma == sigma * sigma /\
  (fst (normal_bounds mu sigma) + snd (normal_bounds mu sigma)) / 2 == mu /\
  snd (normal_bounds mu sigma) - fst (normal_bounds mu sigma) == 6 * sigma.
Proof. intros. unfold normal_mean, normal_variance, normal_bounds; simpl. repeat split; try reflexivity; field. Qed.

Lemma normal_rand_affine : forall mu sigma z : Q, normal_rand mu sigma z == mu + sigma * z.
Proof. intros. unfold normal_rand. ring. Qed.

(* InvCDF: NaN outside [0,1], -inf at 0, +inf at 1, interior left to CDF(InvCDF p) = p *)
Lemma invcdf_special_values : forall p : Q,
  ((p < 0 \/ 1 < p) -> normal_invcdf_special (XFin p) = Some XNaN) /\
  (p == 0 -> normal_invcdf_special (XFin p) = Some (XInf true)) /\
  (p == 1 -> normal_invcdf_special (XFin p) = Some (XInf false)) /\
  (0 < p < 1 -> normal_invcdf_special (XFin p) = None).
Proof.
  intro p. unfold normal_invcdf_special; simpl. repeat split.
  - intros [H|H]; apply Qltb_lt in H; rewrite H; simpl; [reflexivity | now rewrite Bool.orb_true_r].
  - intro H. assert (A : Qltb p 0 = false) by (apply Qltb_ge; rewrite H; apply Qle_refl).
    assert (B : Qltb 1 p = false) by (apply Qltb_ge; rewrite H; discriminate).
    rewrite A, B; simpl. apply Qeqb_eq in H. now rewrite H.
  - intro H. assert (A : Qltb p 0 = false) by (apply Qltb_ge; rewrite H; discriminate).
    assert (B : Qltb 1 p = false) by (apply Qltb_ge; rewrite H; apply Qle_refl).
    rewrite A, B; simpl.
    assert (C : Qeqb p 0 = false). { destruct (Qeqb p 0) eqn:E; [|reflexivity]. apply Qeqb_eq in E. rewrite E in H. discriminate. }
    rewrite C. apply Qeqb_eq in H. now rewrite H.
  - intros [H0 H1].
    assert (A : Qltb p 0 = false) by (apply Qltb_ge; now apply Qlt_le_weak).
    assert (B : Qltb 1 p = false) by (apply Qltb_ge; now apply Qlt_le_weak).
    rewrite A, B; simpl.
    assert (C : Qeqb p 0 = false). { destruct (Qeqb p 0) eqn:E; [|reflexivity]. apply Qeqb_eq in E. rewrite E in H0. now apply Qlt_irrefl in H0. }
    assert (D : Qeqb p 1 = false). { destruct (Qeqb p 1) eqn:E; [|reflexivity]. apply Qeqb_eq in E. rewrite E in H1. now apply Qlt_irrefl in H1. }
    now rewrite C, D.
Qed.

Lemma invcdf_nan : normal_invcdf_special XNaN = Some XNaN.
Proof. reflexivity. Qed.

(* the three rational approximations of InvCDF partition the probabilities by the two
   float64 constants plow, phigh; the regions are non-empty and ordered *)
Lemma invcdf_regions : forall p : Q,
  (invcdf_region_of p = RLow <-> p < acklam_plow) /\
  (invcdf_region_of p = RHigh <-> acklam_phigh < p) /\
  (invcdf_region_of p = RCentral <-> acklam_plow <= p <= acklam_phigh).
Proof.
  intros p. unfold invcdf_region_of.
  assert (HO : acklam_plow < acklam_phigh) by (vm_compute; reflexivity).
  destruct (Qltb p acklam_plow) eqn:E1.
  - apply Qltb_lt in E1. repeat split; try discriminate; auto.
    + intros H. exfalso. apply (Qlt_irrefl p). eapply Qlt_trans; [exact E1|]. eapply Qlt_trans; eauto.
    + intros [H _]. exfalso. apply (Qlt_irrefl p). eapply Qlt_le_trans; eauto.
  - apply Qltb_ge in E1. destruct (Qltb acklam_phigh p) eqn:E2.
    + apply Qltb_lt in E2. repeat split; try discriminate; auto.
      * intros H. exfalso. apply (Qlt_irrefl p). eapply Qlt_le_trans; eauto.
      * intros [_ H]. exfalso. apply (Qlt_irrefl p). eapply Qle_lt_trans; eauto.
    + apply Qltb_ge in E2. repeat split; try discriminate; auto.
      * intros H. exfalso. apply (Qlt_irrefl p). eapply Qlt_le_trans; eauto.
      * intros H. exfalso. apply (Qlt_irrefl p). eapply Qle_lt_trans; eauto.
Qed.
